# sourced by every command of the verification framework
export PATH=/root/go/pkg/mod/golang.org/toolchain@v0.0.1-go1.25.0.linux-amd64/bin:$PATH
export GOTOOLCHAIN=local GOFLAGS=-mod=mod GOPROXY=off GOSUMDB=off
export VERIF_HOME=/verif
export VERIF_REPO=${VERIF_REPO:-/repo}
