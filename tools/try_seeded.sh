#!/bin/bash
# tools/try_seeded.sh <patch.diff> <Cxx> [tier]  — runs a check against a scratch worktree of /repo with the patch applied
# (the same code path as `git -C /repo apply`, but without disturbing checks that are running against /repo).
set -u
patch=$(readlink -f "$1"); prop=$2; tier=${3:-quick}
wt=/var/tmp/seed-$$-$RANDOM
git -C /repo worktree add --detach "$wt" >/dev/null 2>&1 || { echo "worktree failed"; exit 2; }
if ! git -C "$wt" apply "$patch"; then echo "PATCH-DOES-NOT-APPLY"; git -C /repo worktree remove --force "$wt"; exit 2; fi
cd /verif && VERIF_REPO="$wt" ./check "$prop" "$tier"; rc=$?
git -C /repo worktree remove --force "$wt" >/dev/null 2>&1
rm -rf "/verif/work/alt-$(echo -n "$wt" | sha1sum | cut -c1-10)"
exit $rc
