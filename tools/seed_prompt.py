#!/usr/bin/env python3
"""Prints the prompt for an independent 'seeded change' sub-agent: only the property text and a scratch worktree path.
usage: seed_prompt.py Cxx <round> <worktree> [n_changes] [extra hint file]"""
import json, sys

pid, rnd, wt = sys.argv[1], sys.argv[2], sys.argv[3]
n = int(sys.argv[4]) if len(sys.argv) > 4 else 2
avoid = open(sys.argv[5]).read() if len(sys.argv) > 5 else ""
rec = None
for l in open("/verif/properties.jsonl"):
    r = json.loads(l)
    if r["id"] == pid:
        rec = r
prop = {k: rec[k] for k in ("id", "title", "statement", "quantifier", "anchors")}
out = "/tmp/mut-out/%s" % pid
first = (int(rnd) - 1) * n + 1
nums = ", ".join(str(first + i) for i in range(n))
print(f"""You are helping to evaluate a verification effort for btcsuite/btcd (a Bitcoin full node in Go). Your job is to act as a
realistic source of subtle regressions. You work ONLY inside your own scratch git worktree of the repository:

    {wt}

(never touch /repo or /verif, never read anything under /verif; never run git commit / checkout / stash outside your worktree).
The sandbox is offline. In EVERY shell command first run:

    export PATH=/root/go/pkg/mod/golang.org/toolchain@v0.0.1-go1.25.0.linux-amd64/bin:$PATH GOTOOLCHAIN=local GOFLAGS=-mod=mod GOPROXY=off GOSUMDB=off

(env does not persist between commands). The repository is multi-module WITHOUT go.work: the root module (blockchain, mempool,
mining, peer, netsync, database, ...) resolves the sub-modules btcec, txscript, wire, btcutil, chaincfg, chainhash, address, psbt,
v2transport from the module cache, NOT from the worktree. So a change inside a sub-module directory is only visible to tests of that
same sub-module (run `go test` with cwd = that sub-module directory). Put the change and its demonstration in the same module.

Here is a semantic property of btcd that is supposed to hold (JSON record):

{json.dumps(prop, indent=1)}

TASK. Produce {n} DIFFERENT changes (numbered {nums}) to the NON-TEST source of btcd, each of which
  (a) breaks this property (a real behavioural violation of what the statement says, within its quantifier),
  (b) still compiles (`go build ./...` in every touched module), and
  (c) leaves the EXISTING test suite green: at least `go test -count=1 ./<touched package>/...` (cwd = the module) must pass with
      the change; for root-module changes also run the tests of the direct users you may affect (e.g. blockchain/..., mempool,
      mining, netsync, peer, database/... as relevant). One root test, blockchain TestFlushOnPrune, fails already without any change - ignore it.
  (d) is REALISTIC: the kind of slip a maintainer could make in a refactor / optimisation / bug fix and a reviewer could miss
      (an off-by-one at a limit, a check skipped on one path only, a lock released early, a cache not invalidated, a flush/sync
      reordered, a boundary comparison flipped, a field omitted from a hash or a copy, an error swallowed, ...) - not sabotage,
      not dead code, not a change guarded by a magic constant or environment variable.
  (e) needs SOMETHING SPECIFIC TO MANIFEST - a particular interleaving, a crash or I/O fault at a particular point, a multi-step
      sequence of operations, an unusual/boundary input, or two cooperating sites that each look fine alone. Do NOT produce changes
      that ordinary use or the first obvious test would expose at once. The two changes should hit different mechanisms of the property.
{avoid}
For each change also write a DEMONSTRATION: a Go test file (preferred; package-internal or external test, placed next to the
code) or a tiny program that FAILS with the change applied and PASSES on the unmodified worktree. Verify both directions yourself
(`git diff > /tmp/<your-id>.diff; git apply -R /tmp/<your-id>.diff` and `git apply` to restore; do NOT use `git stash`: the stash is shared between all worktrees of the repository and other agents are working in sibling worktrees). Keep demonstrations quick (< 2 minutes).

DELIVERABLES, for change number N in directory {out}/N/ :
  patch.diff   `git diff` of the change only (non-test files only; the demonstration must NOT be in the patch); must apply with
               `git apply` to a clean checkout of the worktree's HEAD.
  demo/        the demonstration file(s).
  meta.json    {{"property": "{pid}", "summary": "<what the change does and why it breaks the property>",
                "needs": "<what specifically is needed for it to manifest>",
                "files": ["<changed files>"],
                "demo_cmd": "<one bash command line, run with cwd = a checkout root, that copies the demo into place and runs it;
                              use the literal prefix `cp demo/...` for copying from the demo directory, e.g.
                              `cp demo/seeded_c0x_test.go blockchain/ && go test -count=1 -run TestSeededXyz ./blockchain/`
                              or for a sub-module `cp demo/x_test.go wire/ && cd wire && go test -count=1 -run TestX .`>",
                "existing_tests_run": "<the go test commands you ran with the change and their result>"}}

When done, leave your worktree clean of the demo files or not - it does not matter; do not delete the worktree. Final answer:
a short plain-text summary (<= 25 lines) of the {n} changes, what each needs to manifest, and the commands you verified.
Work autonomously; do not ask questions.""")
