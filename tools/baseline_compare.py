#!/usr/bin/env python3
"""Runs baseline_off.sh (repository test-suite with the verif guard off) and compares with /root/.vp/BASELINE.json stable_pass."""
import json, subprocess, sys
out = subprocess.run(["/verif/baseline_off.sh"], stdout=subprocess.PIPE, stderr=subprocess.STDOUT, text=True).stdout
res = {}
for l in out.splitlines():
    if not l.startswith("{"):
        continue
    try:
        e = json.loads(l)
    except Exception:
        continue
    if e.get("Test") and e.get("Action") in ("pass", "fail", "skip"):
        res[e["Package"] + "::" + e["Test"]] = e["Action"]
base = json.load(open("/root/.vp/BASELINE.json"))
missing = [t for t in base["stable_pass"] if res.get(t) != "pass"]
print("tests seen %d, stable_pass %d, not passing now: %d" % (len(res), len(base["stable_pass"]), len(missing)))
for t in missing[:40]:
    print("  ", t, res.get(t))
sys.exit(1 if missing else 0)
