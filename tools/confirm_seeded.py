#!/usr/bin/env python3
"""Confirms candidate seeded changes produced by independent sub-agents.

For each /tmp/mut-out/<Cxx>/<n>/ (patch.diff, demo/, meta.json) in a scratch worktree of /repo HEAD:
  1. the demonstration passes WITHOUT the change,
  2. the change applies and the touched modules still build,
  3. the demonstration FAILS with the change,
  4. the existing tests of every touched package still pass with the change.
Writes /tmp/mut-out/<Cxx>/<n>/confirm.json. Usage: confirm_seeded.py C13 C09 ...   (or C13/2)
"""
import json, os, re, subprocess, sys, shutil, time

GO = "/root/go/pkg/mod/golang.org/toolchain@v0.0.1-go1.25.0.linux-amd64/bin"
ENV = dict(os.environ, PATH=GO + ":" + os.environ["PATH"], GOTOOLCHAIN="local", GOFLAGS="-mod=mod", GOPROXY="off", GOSUMDB="off")
MODS = ["btcec", "txscript", "v2transport", "btcutil", "chainhash", "psbt", "chaincfg", "wire", "address"]


def sh(cmd, cwd, timeout=1800):
    p = subprocess.run(["bash", "-c", cmd], cwd=cwd, env=ENV, stdout=subprocess.PIPE, stderr=subprocess.STDOUT, text=True, timeout=timeout)
    return p.returncode, p.stdout[-3000:]


def norm_cmd(cmd, mdir, wt):
    cmd = re.sub(r"\s{2,}\(.*$", "", cmd.strip(), flags=re.S)
    for ph in ("<worktree>", "<checkout>", "<repo>", "<checkout-root-with-patch-applied>", "<repo-root>"):
        cmd = cmd.replace(ph, wt)
    cmd = cmd.replace("cp demo/", "cp %s/demo/" % mdir)
    return cmd


def module_of(path):
    top = path.split("/")[0]
    return top if top in MODS else "."


def confirm(pid, n):
    mdir = "/tmp/mut-out/%s/%s" % (pid, n)
    meta = json.load(open(mdir + "/meta.json"))
    wt = "/var/tmp/confirm-%s-%s" % (pid, n)
    subprocess.run(["git", "-C", "/repo", "worktree", "remove", "--force", wt], stdout=subprocess.DEVNULL, stderr=subprocess.DEVNULL)
    subprocess.check_call(["git", "-C", "/repo", "worktree", "add", "--detach", wt], stdout=subprocess.DEVNULL, stderr=subprocess.DEVNULL)
    res = {"property": pid, "n": n, "head": subprocess.check_output(["git", "-C", "/repo", "rev-parse", "--short", "HEAD"], text=True).strip()}
    try:
        cmd = norm_cmd(meta.get("demo_cmd", ""), mdir, wt)
        res["demo_cmd"] = cmd
        rc0, out0 = sh(cmd, wt)
        res["demo_without_change"] = {"rc": rc0, "tail": out0[-600:]}
        sh("git clean -fdq", wt)
        rc, out = sh("git apply %s/patch.diff" % mdir, wt)
        res["applies"] = rc == 0
        if rc != 0:
            res["apply_out"] = out
            return res
        files = [l.split(" b/")[-1].strip() for l in open(mdir + "/patch.diff") if l.startswith("diff --git")]
        res["files"] = files
        mods = sorted({module_of(f) for f in files})
        ok = True
        for m in mods:
            rc, out = sh("go build ./...", os.path.join(wt, m))
            if rc != 0:
                ok = False
                res["build_out"] = out
        res["builds"] = ok
        rc1, out1 = sh(cmd, wt)
        res["demo_with_change"] = {"rc": rc1, "tail": out1[-600:]}
        sh("git clean -fdq", wt)
        # existing tests of touched packages
        tests = {}
        for f in files:
            m = module_of(f)
            rel = os.path.dirname(f)
            if m != ".":
                rel = os.path.relpath(rel, m) if rel != m else "."
            pkg = "./" + rel if rel not in (".", "") else "."
            key = m + ":" + pkg
            if key in tests:
                continue
            rc, out = sh("go test -count=1 -skip 'TestFlushOnPrune|TestInitConsistentState' %s" % pkg, os.path.join(wt, m), timeout=3000)
            tests[key] = {"rc": rc, "tail": out[-400:]}
        res["existing_tests"] = tests
        res["confirmed"] = bool(rc0 == 0 and res["applies"] and ok and rc1 != 0 and all(t["rc"] == 0 for t in tests.values()))
    finally:
        subprocess.run(["git", "-C", "/repo", "worktree", "remove", "--force", wt], stdout=subprocess.DEVNULL, stderr=subprocess.DEVNULL)
        json.dump(res, open(mdir + "/confirm.json", "w"), indent=1)
    return res


def main():
    for a in sys.argv[1:]:
        if "/" in a:
            pid, n = a.split("/")
            todo = [(pid, n)]
        else:
            todo = [(a, str(n)) for n in (1, 2, 3) if os.path.exists("/tmp/mut-out/%s/%d/patch.diff" % (a, n))]
        for pid, n in todo:
            t = time.time()
            try:
                r = confirm(pid, n)
                print("%s/%s confirmed=%s without=%s with=%s tests=%s (%.0fs)" % (pid, n, r.get("confirmed"), r.get("demo_without_change", {}).get("rc"),
                                                                                 r.get("demo_with_change", {}).get("rc"), {k: v["rc"] for k, v in r.get("existing_tests", {}).items()}, time.time() - t), flush=True)
            except Exception as ex:
                print("%s/%s ERROR %s" % (pid, n, ex), flush=True)


if __name__ == "__main__":
    main()
