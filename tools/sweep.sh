#!/bin/bash
# tools/sweep.sh <seed> [tier] [ids...] — runs the checks at one seed, prints one line per check (silence sweep)
seed=$1; tier=${2:-quick}; shift; shift
ids=${@:-C01 C02 C03 C04 C05 C06 C07 C08 C09 C10 C11 C12 C13 C14 C15 C16 C17 C18 C19 C20}
out=/var/tmp/sweep-$seed-$tier; mkdir -p $out
for c in $ids; do
  s=$(date +%s); VERIF_SEED=$seed /verif/check $c $tier > $out/$c.log 2>&1; rc=$?
  echo "$c seed=$seed tier=$tier rc=$rc $(( $(date +%s)-s ))s viol=$(grep -c '^VIOLATION' $out/$c.log) known=$(grep -c '^KNOWN-FINDING' $out/$c.log) $(grep -E '^INCONCLUSIVE' $out/$c.log | head -1 | cut -c1-120)"
done
