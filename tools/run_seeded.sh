#!/bin/bash
# tools/run_seeded.sh <Cxx>/<n> [tier] [prop-to-check]  — runs the property's check against the candidate seeded change
# in /tmp/mut-out/<Cxx>/<n>/patch.diff and appends one result line to /tmp/seed_results.txt
set -u
id=$1; tier=${2:-quick}; pid=${id%%/*}; n=${id##*/}; prop=${3:-$pid}
log=/tmp/mut-out/$pid/$n/check-$prop-$tier.log
/verif/tools/try_seeded.sh /tmp/mut-out/$pid/$n/patch.diff "$prop" "$tier" > "$log" 2>&1; rc=$?
nv=$(grep -c '^VIOLATION' "$log")
keys=$(grep -E '^\s+key: ' "$log" | sed 's/^ *//' | sort -u | head -8 | tr '\n' ' ')
echo "$pid/$n rc=$rc $nv violations; $keys [check=$prop tier=$tier]" | tee -a /tmp/seed_results.txt
