#!/usr/bin/env python3
"""Copies confirmed seeded changes from /tmp/mut-out into /verif/seeded/<Cxx>-<n>/ with a meta.json that records
what the change needs in order to manifest, how it was confirmed, and which check result was observed."""
import json, os, shutil, sys, glob, re

res = {}
hist = {}
if os.path.exists("/tmp/seed_results.txt"):
    for l in open("/tmp/seed_results.txt"):
        m = re.match(r"(C\d+)/(\d+) rc=(\d+) (\d+) violations; (.*)", l.strip())
        if m:
            res[(m.group(1), m.group(2))] = {"check_exit": int(m.group(3)), "violations": int(m.group(4)), "keys": re.findall(r"key: (\S+)", m.group(5))}
            hist.setdefault((m.group(1), m.group(2)), []).append("exit %s, %s violations" % (m.group(3), m.group(4)))
only = set(sys.argv[1:])  # optional: Cxx/n ... (default: everything under /tmp/mut-out)
for d in sorted(glob.glob("/tmp/mut-out/C*/[0-9]*")):
    pid, n = d.split("/")[-2:]
    if only and pid + "/" + n not in only:
        continue
    cf = d + "/confirm.json"
    if not os.path.exists(cf):
        continue
    c = json.load(open(cf))
    if not c.get("confirmed"):
        print("NOT CONFIRMED", pid, n)
        continue
    meta = json.load(open(d + "/meta.json"))
    out = "/verif/seeded/%s-%s" % (pid, n)
    shutil.rmtree(out, ignore_errors=True)
    os.makedirs(out)
    shutil.copy(d + "/patch.diff", out + "/patch.diff")
    shutil.copytree(d + "/demo", out + "/demo")
    r = res.get((pid, n))
    m2 = {
        "property": pid,
        "summary": meta.get("summary"),
        "needs_to_manifest": meta.get("needs"),
        "origin": "written by an independent sub-agent that saw only the property text and a scratch worktree of /repo",
        "confirmed_by_coordinator": {
            "at_repo_head": c.get("head"),
            "demo_cmd": c.get("demo_cmd"),
            "demo_passes_without_change": c["demo_without_change"]["rc"] == 0,
            "demo_fails_with_change": c["demo_with_change"]["rc"] != 0,
            "builds": c.get("builds"),
            "existing_tests_of_touched_packages_pass": {k: v["rc"] == 0 for k, v in c.get("existing_tests", {}).items()},
        },
        "check_result": ({"cmd": "tools/try_seeded.sh seeded/%s-%s/patch.diff %s quick" % (pid, n, pid), "detected": r["check_exit"] == 1 and r["violations"] > 0,
                          "violation_keys": r["keys"]} if r else "not run yet"),
    }
    if len(hist.get((pid, n), [])) > 1:
        m2["check_runs_in_order"] = hist[(pid, n)]
        m2["note"] = "first missed by the quick check; the check was strengthened (see DESIGN.md section 12) and now detects it"
    json.dump(m2, open(out + "/meta.json", "w"), indent=1)
    print("saved", out, "detected" if r and r["check_exit"] == 1 else r)
