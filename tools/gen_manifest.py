#!/usr/bin/env python3
"""Regenerates /verif/MANIFEST.json from checks/*.json and the table below.
Usage: tools/gen_manifest.py C01 C02 ...   (the ids to claim; every other property goes to not_applicable)"""
import json, os, sys, subprocess

HOME = os.path.dirname(os.path.dirname(os.path.abspath(__file__)))

T = {
 "C01": ("differential on generated block candidates + invariants at quiescence",
         "Executes real ProcessBlock / CheckConnectBlockTemplate on candidate blocks that are valid or violate exactly one catalogued rule (at-limit and one-past forms), in five delivery contexts on several parameter families, and observes verdicts, the active chain, the UTXO set and notifications after every delivery. Assurance: held on the executions of the run; exploration is the right level because the quantifier (all trees x all candidates x all orders) is unbounded.",
         "Labels come from the generator's construction (one mutated field per candidate; 99 recipes incl. weight 4 000 000/+1, sigop cost 80 000/+1/+4, BIP68 time locks, CLTV/CSV operands, multiple witness commitments, height-gated rules probed on both sides of their activation height, BIP30, BIP94); scripts inside blocks come from templates (arbitrary programs are C06's job); checkpoints and mainnet-only historical exceptions are not reached. Families fan (branches on top of a connect-time failure, shared with C02/C17) and lock-time threshold recipes added in §12.7.", "§4 C01, Appendix A"),
 "C02": ("model-based history checking (declarative best-chain oracle) + race detector",
         "Runs the real node on random block trees delivered in disordered, duplicated, header-interleaved orders with restarts and InvalidateBlock/ReconsiderBlock, and after every operation compares the tip with the declarative most-work valid chain and cross-checks every view and the notification stream; concurrent readers run under -race.",
         "Validity labels from the generator; orphan-pool eviction/expiry (wall clock, 100 entries) kept out of range; ties among chains none of which is the current tip accept any maximal candidate; families reconsider (failed descendant below an invalidated block) and read-fault (one database read fails during a tip extension; goes beyond the stated quantifier, kept because silent). Family fan (§12.7): branches stored on a connect-time failure, valid way out below it; InvalidateBlock must leave the whole subtree recorded as invalid.", "§4 C02, §12"),
 "C03": ("model-based history checking (definitional UTXO fold) + race detector",
         "Runs the real node through dense-spending histories with reorganisations, flushes of all modes, restarts and disconnect/reconnect of the tip under cache sizes from 0 to 1 GiB and compares FetchUtxoEntry over every outpoint ever created, spend journals, FetchUtxoView and the raw persisted bucket with the fold of the active chain; concurrent readers under -race.",
         "The refchain fold is the definition (unparseable output scripts are unspendable, as in btcd); half of the post-operation checks are FetchUtxoView probes primed with partial single-entry lookups; cache memory accounting accuracy is not part of the property. Outputs include near misses of the compressible script templates; an op drives disconnect/reconnect with an empty cache followed by an unclean stop (§12.7).", "§4 C03, §12"),
 "C04": ("crash-point injection in child processes (SIGKILL at hooked I/O events) + recovery oracle",
         "For seeded workloads and configurations, kills a real child process at sampled (quick) / many (thorough) durable I/O events under process-death and power-loss models, reopens in a fresh process and checks tip-was-active, utxo = fold, acknowledged blocks known and convergence after replay; some recoveries are themselves crashed.",
         "leveldb atomic-durable at commit return; torn sector writes not modelled; crashes during recovery are enumerated over the start-up I/O events of a recovery with a small cache (family recovery); pruning configurations included (with pruning, readability is judged at store level: has block => serves it byte-identical). A fifth of the workloads are prune-heavy (prunes reach across the last forced utxo flush) and a third of the crash points fall right behind a block-file deletion (§12.7).", "§4 C04, §9, §12"),
 "C05": ("model differential + I/O fault and crash enumeration + porcupine serializability + race detector",
         "Random operation programs against a reference nested ordered-map/block-store model; every interposed I/O call failed once; process death / power loss at I/O events with prefix-durability oracle; concurrent readers/writers checked for snapshot stability and strict serializability (porcupine) under -race; sync-ordering trace check.",
         "leveldb internals trusted; faults injected at the hooked ffldb seams (H1). Family fault-crash (§12.7): one failed I/O call followed by process death a few events later, judged against an in-process run with the same failed call.", "§4 C05, Appendix B"),
 "C06": ("differential against an independent script interpreter + step-limit monitor",
         "Executes txscript.Engine on grammar-generated programs, well-formed spends of every standard type and single-point corruptions under every activation-history flag set, comparing the verdict with an independent reference interpreter calibrated on Core's script/tx/taproot vectors, and monitors stack/element/op-count bounds at every step.",
         "Agreement is with the reference interpreter, anchored to Bitcoin Core only through vector calibration; signature equations use btcec (decided by C11). Pre-BIP66 flag sets run a dedicated family with every production of the lenient DER grammar; spends verified with a signature cache are verified twice (§12.6-12.7).", "§4 C06"),
 "C07": ("differential against an independent sighash implementation + engine round trips + race detector",
         "Compares legacy/BIP143/BIP341/342 digests for all hash-type bytes with an independent implementation (with and without midstates/caches), checks the commits-to relation by field mutation, verifies helper-produced signatures under the engine, and hammers shared caches from 8 goroutines under -race.",
         "Reference calibrated on sighash.json, tx_valid.json and taproot-ref; ECDSA/Schnorr equations via btcec.", "§4 C07"),
 "C08": ("differential against an independent wire codec + hostile-input monitoring (panic, allocation)",
         "Encodes/decodes every message type at every protocol-version breakpoint and both tx encodings against an independent byte-layout reference, checks canonical re-encoding, sizes and ids, and feeds mutated/truncated/oversized inputs while measuring panics and per-call allocation; hostile families also under -race (checkptr).",
         "Allocation is measured per call (TotalAlloc delta), not bounded analytically; tolerant decoders (version tail, addrv2 unknown ids) are held to value-level idempotence. Family conc.decode: eight concurrent decoders, each result must re-encode to its own input (also in the race variant).", "§4 C08"),
 "C09": ("differential against an independent PoW arithmetic reference (exhaustive sub-domains in thorough)",
         "Compares compact<->target, work, retarget (all network rule variants through the public header-context check), median time, proof-of-work check and subsidy with a big-integer reference over stratified (quick) / all 2^32 (thorough) compact values and every height of the subsidy schedule.",
         "Reference written from the protocol definition with math/big. The e2e chains are replayed on a node with a period-start checkpoint; a difficulty refusal is judged only where btcd's easiest-difficulty estimate provably bounds the retarget rule (block times never step back after the checkpoint).", "§4 C09"),
 "C10": ("invariant checking at quiescence on a full node + state-transition oracles + race detector",
         "Drives mempool+chain+netsync handler+mining with submission/replacement/orphan/block/reorg histories and evaluates I1-I7 (conflict-freedom, input availability, spend index, minability via CheckConnectBlockTemplate, rejected-leaves-unchanged, replacement rules, orphan bounds) after every operation; concurrent submitters/readers/producer under -race.",
         "H3 snapshot hook exposes internal indexes; wall-clock features (penny limiter, orphan expiry) configured out; the minability probe takes the longest dependency-closed prefix of the pool that fits one block; orphan size boundary and unminable sigop-cost submissions included. Replacements that spend an output of a transaction they would evict are generated on purpose.", "§4 C10, §12"),
 "C11": ("differential against independent secp256k1 / BIP340 / BIP327 references",
         "Compares ECDSA/Schnorr verification, DER and key parsing, signing, MuSig2 key/nonce aggregation, partial signatures and ECDH with math/big references on honest, algebraically forged, boundary and random inputs.",
         "Curve arithmetic lives in the decred module outside /repo; constant-time behaviour out of reach. Tweak chains with a key-cancelling tweak at any position; Schnorr verification against key objects that are not curve points; parser inputs carry no spare capacity.", "§4 C11"),
 "C12": ("differential accounting of real block templates + end-to-end acceptance + race detector",
         "Generates templates on a full node over varied pool contents and mining policies, recomputes order, fees, sigop costs, coinbase value, witness commitment and merkle root independently, applies UpdateBlockTime/UpdateExtraNonce, solves and submits every template to ProcessBlock.",
         "Sigop cost/weight from the independent refacct package; merkle/commitment from the generator's own code; pay addresses with and without sigops, pools at the 80 000 sigop-cost limit, a halving inside the template-built chain, the min-difficulty family with UpdateBlockTime across the exception boundary, a discarded first template plus fee bump before the mined one.", "§4 C12, §12"),
 "C13": ("differential against definitional references (merkle, weight, sigops, BIP34, finality, BIP68)",
         "Compares every exported accounting primitive with definitional references over generated transactions, blocks, scripts and chain contexts, including exhaustive short scripts and a real chain for CalcSequenceLock.",
         "References calibrated on mainnet blocks in the repository's testdata and Core's sigop vectors.", "§4 C13"),
 "C14": ("differential against a from-genesis BIP9 evaluation on real chains",
         "Builds real chains over 5-10 confirmation windows with random deployment definitions and votes, forks that vote differently, invalidate/reconsider and restarts; compares ThresholdState / IsDeploymentActive / CalcNextBlockVersion and per-node states (queried in random order) with a naive evaluation, and probes a CSV-gated rule with a BIP113-sensitive template.",
         "Speedy-trial table selected by the deployment definition; H2 hook VerifDeploymentStateAt for per-node queries. Both CSV-gated rules (BIP113 lock-time cut-off, OP_CHECKSEQUENCEVERIFY) are probed at the last block of every window and the first of the next.", "§4 C14"),
 "C15": ("differential against an independent on-disk codec + hostile-record injection into a real database",
         "Compares VLQ, amount/script compression, utxo entries, spend journals, best-state and block-index rows with an independent codec (sizes, exact bytes, round trips) and feeds hostile bytes to the decoders directly and through records written into a real database.",
         "H2 hook exports the unexported codecs. Hostile inputs carry no spare capacity (a read past the end panics instead of passing); the real-database family rewrites several index rows in one flush.", "§4 C15"),
 "C16": ("differential against independent address / BIP32 / taproot-tree references",
         "Round-trips and cross-checks every address type on every (also synthetic) network, witness versions and program lengths, bech32/bech32m pairing, edit-distance mutations, script templates, WIF, BIP32 derivation and taproot control blocks.",
         "Point arithmetic via refec/btcec.", "§4 C16"),
 "C17": ("differential against naive parent-walk answers on real block trees",
         "Builds real chains (trunks up to 1100 / 3000 blocks with side branches and header-only nodes) and compares locators, locator-driven inventory, range/interval queries, membership, chain tips and the best-header view with naive answers; headers-first delivery must converge to the blocks-only chain and UTXO set.",
         "Locator shape re-implemented from the protocol convention. Family fan shared with C01/C02 (manual invalidation above then below on one branch).", "§4 C17"),
 "C18": ("event-history checking of real peers (handshake automaton, FIFO/exactly-once, goroutine census) + race detector",
         "Runs real peers against a scripted remote over an in-memory conn with injected delays/faults; checks the handshake automaton on enumerated scripts, per-sender FIFO and exactly-once completion signals from captured bytes, goroutine termination after disconnect, under -race with varied GOMAXPROCS.",
         "Wall-clock timeouts (negotiation, idle) are never waited for, except the stall timer in the stall family (30-45 s per case under a 100 s watchdog whose expiry is inconclusive); termination is judged after both ends are closed with a generous settle watchdog. Family invburst: thousands of inventory announcements between two trickle ticks.", "§4 C18, Appendix C, §12"),
 "C19": ("differential against an independent BIP324 endpoint + tamper monitor + race detector",
         "Runs real<->reference and real<->real handshakes and long packet streams across rekeys (byte-identical ciphertext demanded), then tampers with every byte class, truncates, drops, duplicates and swaps packets; ElligatorSwift functions against a math/big reference.",
         "ChaCha20/Poly1305/HKDF from x/crypto trusted. A third of the reference sessions set the reserved header bits.", "§4 C19"),
 "C20": ("differential against independent GCS / bloom / merkle-block references",
         "Compares Golomb-coded sets, BIP158 filters and headers, bloom filters and merkle blocks with independent implementations incl. an independent BIP37 verifier; inserted elements must always match.",
         "SipHash/murmur3 re-implemented; cfindex integration on a real chain is exercised separately when present. The committed-filter index also has to catch up after the node ran without it.", "§4 C20"),
}


def main():
    claimed = sys.argv[1:]
    props = [json.loads(l) for l in open(os.path.join(HOME, "properties.jsonl"))]
    checks, na = [], []
    try:
        commits = subprocess.check_output(["git", "-C", "/repo", "log", "--format=%h %s", "024af190..HEAD"], text=True).strip().split("\n")
    except Exception:
        commits = []
    hook_commits = [c for c in commits if "verif hook" in c]
    for p in props:
        pid = p["id"]
        cfgp = os.path.join(HOME, "checks", pid + ".json")
        if pid in claimed and os.path.exists(cfgp):
            cfg = json.load(open(cfgp))
            tech, text, note, ref = T[pid]
            checks.append({
                "property_id": pid,
                "quick_cmd": "./check %s quick" % pid,
                "thorough_cmd": "./check %s thorough" % pid,
                "evidence_file": "/verif/evidence/%s.json" % pid,
                "replay_cmd_template": "./check %s --replay {path}" % pid,
                "engine": "harness/cmd/%s" % pid.lower(),
                "level_claimed": {"category": cfg.get("level", "exploration"), "text": text, "design_ref": ref},
                "level_note": note + " Assumptions: " + "; ".join(cfg.get("assumptions", [])),
                "technique": "runtime monitoring: " + tech,
            })
        else:
            na.append({"property_id": pid, "reason": "check not registered yet in this session (worker under construction or not yet silent on the unchanged tree); see DESIGN.md " + T[pid][3]})
    m = {
        "version": 1,
        "setup_cmd": "./check --setup",
        "hooks": {
            "guard": "verif",
            "enable": "go build -tags verif through the harness module /verif/harness (its go.mod replaces every btcd module with /repo/...); ./check does this for every run",
            "baseline_off_cmd": "/verif/baseline_off.sh",
            "source_commits": hook_commits,
            "add_only": True,
        },
        "engines": [
            {"name": "check", "path": "/verif/check", "serves_properties": [c["property_id"] for c in checks], "kind_free_text": "orchestrator: builds one worker per property from the current /repo tree (-tags verif, -race variants), shards, merges summaries, parses race logs, consults known_findings.json, writes evidence"},
            {"name": "mon", "path": "/verif/harness/mon", "serves_properties": [c["property_id"] for c in checks], "kind_free_text": "worker plumbing: per-case PRNG, sidecar, counters, signatures, violations, replay"},
            {"name": "sim", "path": "/verif/harness/sim", "serves_properties": ["C01", "C02", "C03", "C04", "C14", "C17"], "kind_free_text": "real node + refchain model driven through the same history, invariants at every quiescent point"},
            {"name": "poolsim", "path": "/verif/harness/poolsim", "serves_properties": ["C10", "C12"], "kind_free_text": "full node (mempool, netsync handler, mining) with invariant and template oracles"},
            {"name": "crashkit", "path": "/verif/harness/gen/crashkit", "serves_properties": ["C04", "C05"], "kind_free_text": "child-process crash plumbing: kill at I/O event k, power-loss truncation"},
        ],
        "checks": checks,
        "notes": "Runtime monitoring and sanitizers: every check executes the real btcd code (rebuilt from /repo's working tree with -tags verif) under generated workloads and decides with an oracle observing the execution; the Go race detector is the sanitizer (no cgo/unsafe in btcd). Exit 0 = held on everything explored (KNOWN-FINDING lines allowed), 1 = VIOLATION, 3 = inconclusive (monitor observed too little / watchdog). See DESIGN.md.",
        "not_applicable": na,
    }
    json.dump(m, open(os.path.join(HOME, "MANIFEST.json"), "w"), indent=1)
    print("claimed:", [c["property_id"] for c in checks])


if __name__ == "__main__":
    main()
