//go:build verif

// This file is only compiled with the "verif" build tag.  It exports thin
// wrappers around unexported (de)serialization helpers and one block-index
// query so that an external verification harness can drive them over their
// full input domain.  It adds no behaviour of its own and is not part of the
// normal build.

package blockchain

import (
	"math/big"

	"github.com/btcsuite/btcd/chainhash/v2"
	"github.com/btcsuite/btcd/database"
	"github.com/btcsuite/btcd/wire/v2"
)

// VerifSerializeSizeVLQ wraps serializeSizeVLQ.
func VerifSerializeSizeVLQ(n uint64) int { return serializeSizeVLQ(n) }

// VerifPutVLQ wraps putVLQ.
func VerifPutVLQ(target []byte, n uint64) int { return putVLQ(target, n) }

// VerifDeserializeVLQ wraps deserializeVLQ.
func VerifDeserializeVLQ(serialized []byte) (uint64, int) {
	return deserializeVLQ(serialized)
}

// VerifCompressTxOutAmount wraps compressTxOutAmount.
func VerifCompressTxOutAmount(amount uint64) uint64 {
	return compressTxOutAmount(amount)
}

// VerifDecompressTxOutAmount wraps decompressTxOutAmount.
func VerifDecompressTxOutAmount(amount uint64) uint64 {
	return decompressTxOutAmount(amount)
}

// VerifCompressedScriptSize wraps compressedScriptSize.
func VerifCompressedScriptSize(pkScript []byte) int {
	return compressedScriptSize(pkScript)
}

// VerifDecodeCompressedScriptSize wraps decodeCompressedScriptSize.
func VerifDecodeCompressedScriptSize(serialized []byte) int {
	return decodeCompressedScriptSize(serialized)
}

// VerifPutCompressedScript wraps putCompressedScript.
func VerifPutCompressedScript(target, pkScript []byte) int {
	return putCompressedScript(target, pkScript)
}

// VerifDecompressScript wraps decompressScript.
func VerifDecompressScript(compressedPkScript []byte) []byte {
	return decompressScript(compressedPkScript)
}

// VerifCompressedTxOutSize wraps compressedTxOutSize.
func VerifCompressedTxOutSize(amount uint64, pkScript []byte) int {
	return compressedTxOutSize(amount, pkScript)
}

// VerifPutCompressedTxOut wraps putCompressedTxOut.
func VerifPutCompressedTxOut(target []byte, amount uint64, pkScript []byte) int {
	return putCompressedTxOut(target, amount, pkScript)
}

// VerifDecodeCompressedTxOut wraps decodeCompressedTxOut.
func VerifDecodeCompressedTxOut(serialized []byte) (uint64, []byte, int, error) {
	return decodeCompressedTxOut(serialized)
}

// VerifSerializeUtxoEntry wraps serializeUtxoEntry.
func VerifSerializeUtxoEntry(entry *UtxoEntry) ([]byte, error) {
	return serializeUtxoEntry(entry)
}

// VerifDeserializeUtxoEntry wraps deserializeUtxoEntry.
func VerifDeserializeUtxoEntry(serialized []byte) (*UtxoEntry, error) {
	return deserializeUtxoEntry(serialized)
}

// VerifOutpointKey returns a copy of the utxo set database key of the outpoint
// as produced by outpointKey.
func VerifOutpointKey(outpoint wire.OutPoint) []byte {
	key := outpointKey(outpoint)
	out := append([]byte(nil), *key...)
	recycleOutpointKey(key)
	return out
}

// VerifSpentTxOutSerializeSize wraps spentTxOutSerializeSize.
func VerifSpentTxOutSerializeSize(stxo *SpentTxOut) int {
	return spentTxOutSerializeSize(stxo)
}

// VerifPutSpentTxOut wraps putSpentTxOut.
func VerifPutSpentTxOut(target []byte, stxo *SpentTxOut) int {
	return putSpentTxOut(target, stxo)
}

// VerifDecodeSpentTxOut wraps decodeSpentTxOut.
func VerifDecodeSpentTxOut(serialized []byte, stxo *SpentTxOut) (int, error) {
	return decodeSpentTxOut(serialized, stxo)
}

// VerifSerializeSpendJournalEntry wraps serializeSpendJournalEntry.
func VerifSerializeSpendJournalEntry(stxos []SpentTxOut) []byte {
	return serializeSpendJournalEntry(stxos)
}

// VerifDeserializeSpendJournalEntry wraps deserializeSpendJournalEntry.
func VerifDeserializeSpendJournalEntry(serialized []byte,
	txns []*wire.MsgTx) ([]SpentTxOut, error) {

	return deserializeSpendJournalEntry(serialized, txns)
}

// VerifIsDeserializeErr wraps isDeserializeErr.
func VerifIsDeserializeErr(err error) bool { return isDeserializeErr(err) }

// VerifSerializeBestChainState wraps serializeBestChainState.
func VerifSerializeBestChainState(hash chainhash.Hash, height uint32,
	totalTxns uint64, workSum *big.Int) []byte {

	return serializeBestChainState(bestChainState{
		hash:      hash,
		height:    height,
		totalTxns: totalTxns,
		workSum:   workSum,
	})
}

// VerifDeserializeBestChainState wraps deserializeBestChainState.
func VerifDeserializeBestChainState(serialized []byte) (chainhash.Hash, uint32,
	uint64, *big.Int, error) {

	state, err := deserializeBestChainState(serialized)
	return state.hash, state.height, state.totalTxns, state.workSum, err
}

// VerifBlockIndexKey wraps blockIndexKey.
func VerifBlockIndexKey(blockHash *chainhash.Hash, blockHeight uint32) []byte {
	return blockIndexKey(blockHash, blockHeight)
}

// VerifDeserializeBlockRow wraps deserializeBlockRow.  The block status is
// returned as its raw byte.
func VerifDeserializeBlockRow(blockRow []byte) (*wire.BlockHeader, byte, error) {
	header, status, err := deserializeBlockRow(blockRow)
	return header, byte(status), err
}

// VerifStoreBlockNode writes the block index row of a node with the given
// header, height and raw status byte through dbStoreBlockNode using the
// provided database transaction.  The block index bucket must exist.  The
// node is given a placeholder parent that only carries the previous block
// hash, which is all dbStoreBlockNode reads from it.
func VerifStoreBlockNode(dbTx database.Tx, header *wire.BlockHeader,
	height int32, status byte) error {

	node := newBlockNode(header, nil)
	node.parent = &blockNode{hash: header.PrevBlock}
	node.height = height
	node.status = blockStatus(status)
	return dbStoreBlockNode(dbTx, node)
}

// VerifDeploymentStateAt returns the threshold state of the given deployment
// for the block AFTER the block identified by prevHash, exactly as
// ThresholdState does for the block after the current best chain tip:  the
// node is looked up in the block index (any branch, not only the main chain)
// and deploymentState(node, deploymentID) is evaluated under the chain lock.
// A nil prevHash asks for the state of the genesis block (no previous node).
func (b *BlockChain) VerifDeploymentStateAt(prevHash *chainhash.Hash,
	deploymentID uint32) (ThresholdState, error) {

	var prevNode *blockNode
	if prevHash != nil {
		prevNode = b.index.LookupNode(prevHash)
		if prevNode == nil {
			return ThresholdFailed, AssertError("VerifDeploymentStateAt: " +
				"unknown block " + prevHash.String())
		}
	}

	b.chainLock.Lock()
	state, err := b.deploymentState(prevNode, deploymentID)
	b.chainLock.Unlock()
	return state, err
}

// VerifDeserializeUtxoEntryV0 wraps deserializeUtxoEntryV0, the decoder of
// the legacy (version 1 utxo set bucket) per-transaction utxo entries that
// upgradeUtxoSetToV2 migrates.
func VerifDeserializeUtxoEntryV0(serialized []byte) (map[uint32]*UtxoEntry, error) {
	return deserializeUtxoEntryV0(serialized)
}

// VerifUpgradeUtxoSetToV2 wraps upgradeUtxoSetToV2, the migration of the
// legacy "utxoset" bucket to the current "utxosetv2" bucket.
func VerifUpgradeUtxoSetToV2(db database.DB, interrupt <-chan struct{}) error {
	return upgradeUtxoSetToV2(db, interrupt)
}

// VerifMigrateBlockIndex wraps migrateBlockIndex, the migration of the legacy
// block index rows kept in the "ffldb-blockidx" bucket to the current
// "blockheaderidx" bucket.
func VerifMigrateBlockIndex(db database.DB) error {
	return migrateBlockIndex(db)
}
