#!/bin/bash
# Runs the repository's pinned test suite with the verif guard OFF (no -tags), exactly as /root/.vp/BASELINE.json does.
for m in $(cat /w/out/gomods.txt); do MF=$(cd /repo/$m && . /w/out/goenv.sh && gomodflag); (cd /repo/$m && go test $MF -json -vet=off -count=1 -timeout 25m ./...); done
