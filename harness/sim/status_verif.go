//go:build verif

package sim

import (
	"github.com/btcsuite/btcd/blockchain"
	"github.com/btcsuite/btcd/chainhash/v2"
)

// nodeStatus asks the real block index (hook H2) what it records for a hash.
func nodeStatus(c *blockchain.BlockChain, h *chainhash.Hash) (inIndex, haveData, knownInvalid, ok bool) {
	a, b, d := c.VerifNodeStatus(h)
	return a, b, d, true
}
