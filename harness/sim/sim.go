// Package sim drives a real node (verif/node) and the definitional model (verif/ref/refchain) through the
// same history of operations and evaluates invariants at every quiescent point. It is shared by the
// integrated checks (C01, C02, C03, C04, C14, C17).
package sim

import (
	"errors"
	"fmt"
	"math/big"
	"os"
	"sort"
	"strings"

	"verif/gen/chaingen"
	"verif/mon"
	"verif/node"
	"verif/ref/refchain"

	"github.com/btcsuite/btcd/blockchain"
	"github.com/btcsuite/btcd/btcutil/v2"
	"github.com/btcsuite/btcd/chainhash/v2"
	"github.com/btcsuite/btcd/database"
	"github.com/btcsuite/btcd/wire/v2"
)

// Status of a block as the node should know it.
type Status int

const (
	SUnknown Status = iota // never delivered, or delivered and rejected, or forgotten (orphan pool lost on restart)
	SOrphan                // sitting in the orphan pool
	SHeader                // header in the index, no block data
	SStored                // block data stored and in the index
)

// Rule classes for refchain.Block.Rule prefixes of InvalidEarly blocks.
//
//	"hs:" header sanity    (rejected by ProcessBlock and ProcessBlockHeader regardless of the parent)
//	"hc:" header context   (orphan while the parent has no data; rejected once the parent is stored; header rejected when parent known)
//	"bs:" body sanity      (rejected by ProcessBlock regardless of the parent; header alone is acceptable)
//	"bc:" body context     (orphan while the parent has no data; rejected once the parent is stored; header alone acceptable)
func ruleClass(b *refchain.Block) string {
	if b.Label != refchain.InvalidEarly {
		return ""
	}
	if len(b.Rule) >= 3 {
		return b.Rule[:3]
	}
	panic("sim: InvalidEarly block without a rule class: " + b.Name)
}

// Sim is one node lifetime (possibly across restarts) with its model.
type Sim struct {
	K      *mon.Case
	G      *chaingen.Gen
	N      *node.Node
	Cfg    node.Config
	Dir    string
	Status map[*refchain.Block]Status
	Manual map[*refchain.Block]bool // manually invalidated
	// hadData: the store had the data of the block being delivered before the ProcessBlock call
	hadData bool
	// dataAware: on a pruning node, Eligible counts a branch only if the store still has the block data that switching
	// to it needs (see settleTip)
	dataAware bool
	// lastInvErr: the error text of the last InvalidateBlock call that returned one (context for tip violations)
	lastInvErr string
	// HdrAlso: blocks sitting in the orphan pool whose header has additionally entered the block index
	HdrAlso map[*refchain.Block]bool
	Tip     *refchain.Block // expected active tip
	// AmbiguousTip: after an operation the property allows any of several equal-work tips.
	orphanOrder []*refchain.Block // arrival order of orphans
	Ops         []string          // human-readable history (for violation reports)
	stack       []*refchain.Block // notification stack replay (active chain as told by connect/disconnect events)
	Failed      bool
	// CheckUtxo enables the full-universe UTXO comparison after each operation (C03).
	CheckUtxo bool
	// CheckViews enables the all-heights / all-hashes view comparison after each operation (C02).
	CheckViews bool
	// KeyPrefix is prepended to violation keys.
	KeyPrefix string
	universe  map[wire.OutPoint]bool
	// LenientInvalidate: tolerate (and count, under a distinct key) the documented InvalidateBlock/ReconsiderBlock defects.
	everActive map[*refchain.Block]int // order in which blocks first became active tip
	activeSeq  int
	// Connected: blocks that have been part of the active chain at some point (fully validated).
	Connected                  map[*refchain.Block]bool
	parentKnownInvalid, hooked bool
	// LastHeaderOK: the last ProcessBlockHeader call returned no error
	LastHeaderOK bool
	// ProbeRand, when set, varies the utxo check after each operation: half of the time the full-universe scan
	// (which leaves every outpoint in the cache) is replaced by a few FetchUtxoView probes, each preceded by
	// single-entry lookups of a random subset of the outpoints involved, so that views are assembled from every mix of
	// cached-present, cached-absent and database-only entries
	ProbeRand *mon.Rand
}

// New opens a fresh node in a new temp dir.
func New(k *mon.Case, g *chaingen.Gen, cfg node.Config) (*Sim, error) {
	base := os.Getenv("VERIF_WORKDIR")
	if base == "" {
		base = os.TempDir()
	}
	dir, err := os.MkdirTemp(base, "node-")
	if err != nil {
		return nil, err
	}
	cfg.Params = g.P
	n, err := node.Open(dir, cfg, nil)
	if err != nil {
		os.RemoveAll(dir)
		return nil, err
	}
	s := &Sim{K: k, G: g, N: n, Cfg: cfg, Dir: dir, Status: map[*refchain.Block]Status{}, Manual: map[*refchain.Block]bool{}, HdrAlso: map[*refchain.Block]bool{},
		universe: map[wire.OutPoint]bool{}, everActive: map[*refchain.Block]int{}, Connected: map[*refchain.Block]bool{}}
	s.Connected[g.Tree.Genesis] = true
	s.Status[g.Tree.Genesis] = SStored
	s.Tip = g.Tree.Genesis
	s.stack = []*refchain.Block{g.Tree.Genesis}
	return s, nil
}

// Destroy closes the node and removes its directory.
func (s *Sim) Destroy() {
	if s.N != nil {
		s.N.CloseNoFlush()
		s.N = nil
	}
	os.RemoveAll(s.Dir)
}

func (s *Sim) op(format string, a ...any) {
	s.Ops = append(s.Ops, fmt.Sprintf(format, a...))
}

// Fail records a violation with the operation history attached.
func (s *Sim) Fail(key, format string, a ...any) {
	s.Failed = true
	hist := s.Ops
	if len(hist) > 400 {
		hist = hist[len(hist)-400:]
	}
	s.K.Violation(s.KeyPrefix+key, fmt.Sprintf(format, a...)+"\nhistory: "+strings.Join(hist, " ; ")+"\ntree: "+s.DescribeTree(), nil)
}

// DescribeTree renders the model tree compactly: name(parent,label,status).
func (s *Sim) DescribeTree() string {
	var sb strings.Builder
	for _, b := range s.G.Tree.All {
		if b.Parent == nil {
			continue
		}
		lab := "v"
		if b.Label == refchain.InvalidEarly {
			lab = "E:" + b.Rule
		} else if b.Label == refchain.InvalidConnect {
			lab = "C:" + b.Rule
		}
		fmt.Fprintf(&sb, "%s<-%s[%s,w%d,s%d] ", b.Name, b.Parent.Name, lab, workUnits(b), s.Status[b])
		if sb.Len() > 6000 {
			sb.WriteString("...")
			break
		}
	}
	return sb.String()
}

func workUnits(b *refchain.Block) int64 {
	// cumulative work in units of the minimum-difficulty block (for display only)
	u := new(big.Int).Div(b.CumWork, big.NewInt(2))
	return u.Int64()
}

// InIndex reports whether the node's block index has an entry for b (with or without data).
func (s *Sim) InIndex(b *refchain.Block) bool {
	st := s.Status[b]
	return st == SStored || st == SHeader || s.HdrAlso[b]
}

// Eligible: stored, valid, not manually invalidated, and so are all ancestors.
func (s *Sim) Eligible(b *refchain.Block) bool {
	for n := b; n != nil; n = n.Parent {
		if s.Status[n] != SStored || n.Label != refchain.Valid || s.Manual[n] {
			return false
		}
		// a pruning node cannot switch to a branch whose block data it has deleted: blocks off the current active
		// chain count only while the store still has them
		if s.dataAware && s.Cfg.Prune != 0 && s.N != nil && s.Tip != nil && n != s.Tip && !n.IsAncestorOf(s.Tip) && !s.storeHasBlock(n) {
			return false
		}
	}
	// ... and leaving the current chain needs the data of every block that is disconnected and of the block they are
	// disconnected down to
	if s.dataAware && s.Cfg.Prune != 0 && s.N != nil && s.Tip != nil && b != s.Tip && !s.Tip.IsAncestorOf(b) {
		f := refchain.Fork(s.Tip, b)
		for n := s.Tip; n != nil && n != f; n = n.Parent {
			if s.Status[n] == SStored && !s.storeHasBlock(n) {
				return false
			}
		}
		if f != nil && f.Parent != nil && !s.storeHasBlock(f) {
			return false
		}
	}
	return true
}

func (s *Sim) storeHasBlock(b *refchain.Block) bool {
	has := false
	_ = s.N.DB.View(func(tx database.Tx) error {
		h, err := tx.HasBlock(&b.Hash)
		has = err == nil && h
		return nil
	})
	if !has {
		s.K.Count("tip.candidate_pruned_away", 1)
	}
	return has
}

// BestTips returns the eligible blocks of maximal cumulative work.
func (s *Sim) BestTips() []*refchain.Block {
	var best []*refchain.Block
	for _, b := range s.G.Tree.All {
		if !s.Eligible(b) {
			continue
		}
		if len(best) == 0 {
			best = []*refchain.Block{b}
			continue
		}
		c := b.CumWork.Cmp(best[0].CumWork)
		if c > 0 {
			best = []*refchain.Block{b}
		} else if c == 0 {
			best = append(best, b)
		}
	}
	return best
}

func contains(l []*refchain.Block, b *refchain.Block) bool {
	for _, x := range l {
		if x == b {
			return true
		}
	}
	return false
}

func isRule(err error, code blockchain.ErrorCode) bool {
	var re blockchain.RuleError
	if errors.As(err, &re) {
		return re.ErrorCode == code
	}
	return false
}

func isRuleErr(err error) bool {
	var re blockchain.RuleError
	return errors.As(err, &re)
}

// expectTipAfter recomputes the expected tip: the current one if it is still among the best, else the
// unique best; if several equal-work candidates exist and none is current, the real node's choice is
// adopted when it is one of them (the property only fixes ties by "became active first").
func (s *Sim) settleTip(what string) {
	best := s.BestTips()
	real := s.N.Chain.BestSnapshot()
	if s.Cfg.Prune != 0 {
		// A pruning node can only switch to a branch while it still has the block data the switch needs (the blocks
		// to attach, the blocks to detach and the block they are detached down to). Whether it had them at the moment
		// of the operation cannot be told afterwards (the operation itself may have pruned more), so on pruning nodes
		// both answers are acceptable: the most-work chain among all valid stored blocks, and the most-work chain
		// among those that are reachable with the data the store has now. Anything else is a violation.
		s.dataAware = true
		aware := s.BestTips()
		s.dataAware = false
		for _, c := range aware {
			if c.Hash == real.Hash && !contains(best, c) {
				best = aware
				s.K.Count("tip.pruned_node_kept_reachable_chain", 1)
				break
			}
		}
	}
	var want *refchain.Block
	if contains(best, s.Tip) {
		want = s.Tip
	} else if len(best) == 1 {
		want = best[0]
	} else {
		// several equal-work candidates and the previous tip is not one of them (it was invalidated or
		// lost an ancestor): the property orders ties only by "became active first", which does not
		// single out one of chains that were active at different earlier times; any maximal candidate is
		// accepted and the node's choice is adopted.
		for _, c := range best {
			if c.Hash == real.Hash {
				want = c
			}
		}
		if want == nil {
			want = best[0]
		}
		s.K.Count("tip.ambiguous_tie", 1)
	}
	if want != s.Tip {
		s.K.Count("tip.changed", 1)
		f := refchain.Fork(s.Tip, want)
		if f != s.Tip {
			s.K.Count("tip.reorg", 1)
			if s.Tip.Height-f.Height >= 2 && want.Height-f.Height >= 2 {
				s.K.Count("tip.reorg_multiblock", 1)
			}
		}
	}
	s.Tip = want
	for n := want; n != nil && !s.Connected[n]; n = n.Parent {
		s.Connected[n] = true
	}
	if _, ok := s.everActive[want]; !ok {
		s.activeSeq++
		s.everActive[want] = s.activeSeq
	}
	if real.Hash != want.Hash {
		rb := s.G.Tree.ByHash[real.Hash]
		rn := "?"
		if rb != nil {
			rn = rb.Name
		}
		extra := ""
		if what == "InvalidateBlock" && s.lastInvErr != "" {
			extra = "; InvalidateBlock returned: " + s.lastInvErr
		}
		s.Fail("tip:"+what, "after %s: active tip is %s (height %d), model says %s (height %d, work %d); best candidates %v%s",
			what, rn, real.Height, want.Name, want.Height, workUnits(want), names(best), extra)
	}
}

func names(l []*refchain.Block) []string {
	var o []string
	for _, b := range l {
		o = append(o, b.Name)
	}
	return o
}

// DeliverBlock offers the full block to ProcessBlock and checks the response against the model.
func (s *Sim) DeliverBlock(b *refchain.Block) {
	s.op("blk(%s)", b.Name)
	st := s.Status[b]
	for _, tx := range b.Msg.Transactions {
		h := tx.TxHash()
		for i := range tx.TxOut {
			s.universe[wire.OutPoint{Hash: h, Index: uint32(i)}] = true
		}
	}
	blk := btcutil.NewBlock(b.Msg)
	_, _, s.parentKnownInvalid, s.hooked = nodeStatus(s.N.Chain, &b.Parent.Hash)
	hadData := s.hasData(b)
	s.hadData = hadData
	isMain, isOrphan, err := s.N.Chain.ProcessBlock(blk, blockchain.BFNone)
	s.K.Count("op.ProcessBlock", 1)
	if os.Getenv("VERIF_SIM_DEBUG") != "" {
		fmt.Fprintf(os.Stderr, "DBG blk(%s) st=%d parentSt=%d parentKnownInvalid=%v hadData=%v -> main=%v orphan=%v err=%v hasData=%v\n", b.Name, st, s.Status[b.Parent], s.parentKnownInvalid, hadData, isMain, isOrphan, err, s.hasData(b))
	}
	rc := ruleClass(b)
	switch {
	case st == SStored || st == SOrphan:
		if !isRule(err, blockchain.ErrDuplicateBlock) {
			s.Fail("process:duplicate-not-refused", "re-delivery of %s (status %d) returned main=%v orphan=%v err=%v", b.Name, st, isMain, isOrphan, err)
		}
		s.K.Count("deliver.duplicate", 1)
	case rc == "hs:" || rc == "bs:":
		if err == nil {
			s.Fail("process:accepted-invalid:"+b.Rule, "block %s violating %s was accepted (main=%v orphan=%v)", b.Name, b.Rule, isMain, isOrphan)
			s.forceStored(b)
		} else if !isRuleErr(err) {
			s.Fail("process:non-rule-error", "block %s: unexpected non-rule error %v", b.Name, err)
		}
		s.K.Count("deliver.rejected_sanity", 1)
	case s.Status[b.Parent] != SStored:
		if err != nil || !isOrphan {
			s.Fail("process:orphan-expected", "block %s whose parent %s has no data: main=%v orphan=%v err=%v", b.Name, b.Parent.Name, isMain, isOrphan, err)
		} else {
			if st == SHeader {
				s.HdrAlso[b] = true // the header stays in the index while the block waits in the orphan pool
			}
			s.Status[b] = SOrphan
			s.orphanOrder = append(s.orphanOrder, b)
		}
		s.K.Count("deliver.orphan", 1)
	default:
		if b.Label == refchain.InvalidConnect && b.Parent == s.Tip && err == nil {
			s.Fail("process:accepted-invalid:"+b.Rule, "block %s violating %s extends the tip and ProcessBlock returned no error (main=%v)", b.Name, b.Rule, isMain)
		}
		s.acceptWithParent(b, isMain, isOrphan, err, true)
	}
	s.AfterOp("ProcessBlock(" + b.Name + ")")
}

func (s *Sim) forceStored(b *refchain.Block) { s.Status[b] = SStored }

// DeliverBlockFaulted offers a valid block that extends the tip while the database is armed to fail one read
// (arm / disarm are supplied by the caller; disarm reports whether the failure fired). A transient failure must not be
// reported as a rule violation, must not brand the block invalid, and delivering the block again afterwards must make
// it the tip.
func (s *Sim) DeliverBlockFaulted(b *refchain.Block, arm func(), disarm func() bool) {
	if b.Parent != s.Tip || !b.ChainValid() || s.Status[b] != SUnknown {
		return
	}
	s.op("blk-with-read-fault(%s)", b.Name)
	for _, tx := range b.Msg.Transactions {
		h := tx.TxHash()
		for i := range tx.TxOut {
			s.universe[wire.OutPoint{Hash: h, Index: uint32(i)}] = true
		}
	}
	arm()
	_, _, err := s.N.Chain.ProcessBlock(btcutil.NewBlock(b.Msg), blockchain.BFNone)
	fired := disarm()
	s.K.Count("op.ProcessBlock", 1)
	if fired {
		s.K.Count("fault.read_failure_fired", 1)
		if err != nil && isRuleErr(err) {
			s.Fail("fault:transient-failure-reported-as-rule-violation", "block %s: a failed database read surfaced as %v", b.Name, err)
			return
		}
		if err != nil {
			s.K.Count("fault.delivery_failed", 1)
			_, _, err2 := s.N.Chain.ProcessBlock(btcutil.NewBlock(b.Msg), blockchain.BFNone)
			if err2 != nil && !isRule(err2, blockchain.ErrDuplicateBlock) {
				s.Fail("fault:redelivery-refused", "block %s is refused after a transient read failure during its first delivery: %v (first: %v)", b.Name, err2, err)
				return
			}
		}
	} else if err != nil {
		s.Fail("process:valid-block-rejected", "valid block %s extending the tip was refused: %v", b.Name, err)
		return
	}
	s.Status[b] = SStored
	s.AfterOp("ProcessBlock(" + b.Name + ")")
}

// acceptWithParent handles delivery of a block whose parent is stored (directly or via the orphan cascade).
func (s *Sim) acceptWithParent(b *refchain.Block, isMain, isOrphan bool, err error, direct bool) (cascadeRejected bool) {
	rc := ruleClass(b)
	ancestryValid := b.Parent.ChainValid() && !s.manualInAncestry(b.Parent)
	cascadeErr := false
	switch {
	case rc == "hc:" || rc == "bc:":
		if direct {
			if err == nil {
				s.Fail("process:accepted-invalid:"+b.Rule, "block %s violating %s was accepted", b.Name, b.Rule)
				s.forceStored(b)
			}
			s.K.Count("deliver.rejected_context", 1)
		}
		return false
	case !ancestryValid:
		// parent chain contains an invalid or invalidated block: the node may refuse (known invalid
		// ancestor) or store the block, depending on what it has found out so far. Observe.
		if direct {
			// (a block whose data was in the store before this call was not stored by it: re-deliveries are exempt)
			if s.hooked && s.parentKnownInvalid && !s.hadData && (err == nil || s.hasData(b)) {
				s.Fail("process:stored-on-known-invalid-parent", "block %s was stored (err %v) although the index already records its parent %s as invalid", b.Name, err, b.Parent.Name)
			}
			if err == nil && !isOrphan {
				s.Status[b] = SStored
			} else if err != nil && s.hasData(b) {
				// stored although an error came back: the invalid ancestor was found out while the node tried to
				// connect the branch (the error may well be the invalid-ancestor one)
				s.Status[b] = SStored
			}
		} else if s.hasData(b) {
			s.Status[b] = SStored
		}
		s.K.Count("deliver.on_invalid_branch", 1)
	default:
		s.Status[b] = SStored
		if b.Label == refchain.Valid {
			s.K.Count("deliver.accepted_valid", 1)
		} else {
			s.K.Count("deliver.stored_connect_invalid", 1)
		}
	}
	if s.Status[b] != SStored {
		return false
	}
	// orphan cascade: every orphan child (in arrival order) is now processed the same way
	var kids []*refchain.Block
	for _, o := range s.orphanOrder {
		if o.Parent == b && s.Status[o] == SOrphan {
			kids = append(kids, o)
		}
	}
	for _, o := range kids {
		s.Status[o] = SUnknown
		s.removeOrphan(o)
		s.K.Count("deliver.orphan_cascade", 1)
		orc := ruleClass(o)
		if orc == "hc:" || orc == "bc:" {
			cascadeErr = true
			s.K.Count("deliver.orphan_cascade_rejected", 1)
			continue
		}
		if s.acceptWithParent(o, false, false, nil, false) {
			cascadeErr = true
		}
	}
	if direct {
		if b.Label == refchain.Valid && ancestryValid && err != nil && !cascadeErr && !s.cascadeHasInvalid(b) {
			s.Fail("process:valid-block-rejected", "valid block %s on a valid chain was refused: %v", b.Name, err)
		}
		if isOrphan {
			s.Fail("process:orphan-unexpected", "block %s with stored parent reported as orphan", b.Name)
		}
	}
	return cascadeErr
}

// cascadeHasInvalid: some block connected through the orphan cascade under b is connect-invalid (the
// error of the failed connection legitimately surfaces in ProcessBlock's result).
func (s *Sim) cascadeHasInvalid(b *refchain.Block) bool {
	for _, c := range b.Children {
		if s.Status[c] == SStored && (c.Label != refchain.Valid || s.cascadeHasInvalid(c)) {
			return true
		}
	}
	return false
}

func (s *Sim) manualInAncestry(b *refchain.Block) bool {
	for n := b; n != nil; n = n.Parent {
		if s.Manual[n] {
			return true
		}
	}
	return false
}

func (s *Sim) hasData(b *refchain.Block) bool {
	ok, err := s.N.Chain.HaveBlock(&b.Hash)
	return err == nil && ok && !s.N.Chain.IsKnownOrphan(&b.Hash)
}

func (s *Sim) removeOrphan(b *refchain.Block) {
	for i, o := range s.orphanOrder {
		if o == b {
			s.orphanOrder = append(s.orphanOrder[:i:i], s.orphanOrder[i+1:]...)
			return
		}
	}
}

// DeliverHeader offers only the header to ProcessBlockHeader.
func (s *Sim) DeliverHeader(b *refchain.Block) {
	s.op("hdr(%s)", b.Name)
	_, _, parentKnownInvalid, hooked := nodeStatus(s.N.Chain, &b.Parent.Hash)
	_, _, selfKnownInvalid, _ := nodeStatus(s.N.Chain, &b.Hash)
	_, err := s.N.Chain.ProcessBlockHeader(&b.Msg.Header, blockchain.BFNone, false)
	s.LastHeaderOK = err == nil
	s.K.Count("op.ProcessBlockHeader", 1)
	rc := ruleClass(b)
	switch {
	case !s.InIndex(b.Parent):
		if err == nil {
			s.Fail("header:unknown-parent-accepted", "header %s accepted although parent %s is not in the index", b.Name, b.Parent.Name)
		}
	case rc == "hs:" || rc == "hc:":
		if err == nil {
			s.Fail("header:accepted-invalid:"+b.Rule, "header %s violating %s was accepted", b.Name, b.Rule)
		}
	case !(b.Parent.ChainValid() && !s.manualInAncestry(b.Parent)) || s.Manual[b]:
		// refused exactly when the node KNOWS that the parent (or the block itself) is invalid; what it knows is
		// read from the block index through hook H2 before the call
		if hooked {
			if (parentKnownInvalid || selfKnownInvalid) && err == nil {
				s.Fail("header:accepted-on-known-invalid-branch", "header %s was accepted although the index already records its parent %s (or the block itself) as invalid", b.Name, b.Parent.Name)
			}
			if !parentKnownInvalid && !selfKnownInvalid && err != nil && b.Label != refchain.InvalidEarly {
				s.Fail("header:refused-on-branch-not-known-invalid", "header %s refused (%v) although neither it nor its parent %s is recorded as invalid", b.Name, err, b.Parent.Name)
			}
			s.K.Count("deliver.header_on_invalid_branch", 1)
		}
		if err == nil && s.Status[b] == SUnknown {
			s.Status[b] = SHeader
		} else if err == nil && s.Status[b] == SOrphan {
			s.HdrAlso[b] = true
		}
	default:
		if err != nil {
			if !(b.Label == refchain.InvalidConnect && s.Status[b] == SStored) {
				s.Fail("header:valid-refused", "header %s refused: %v", b.Name, err)
			}
		} else if s.Status[b] == SUnknown {
			s.Status[b] = SHeader
		} else if s.Status[b] == SOrphan {
			// a block in the orphan pool whose header now enters the index stays an orphan until its parent data arrives
			s.HdrAlso[b] = true
		}
		s.K.Count("deliver.header_ok", 1)
	}
	s.AfterOp("ProcessBlockHeader(" + b.Name + ")")
}

// Invalidate calls InvalidateBlock.
func (s *Sim) Invalidate(b *refchain.Block) {
	s.op("inv(%s)", b.Name)
	s.lastInvErr = ""
	err := s.N.Chain.InvalidateBlock(&b.Hash)
	s.K.Count("op.InvalidateBlock", 1)
	if !s.InIndex(b) {
		if err == nil {
			s.Fail("invalidate:unknown-block-ok", "InvalidateBlock(%s) on a block not in the index returned nil", b.Name)
		}
	} else {
		if err != nil {
			// an error is reported when a candidate branch turns out to be invalid while reorganizing; the
			// resulting state is what the property constrains, and it is checked below
			s.K.Count("invalidate.returned_error", 1)
			s.lastInvErr = err.Error()
		}
		s.Manual[b] = true
		// InvalidateBlock marks the whole subtree at once: every index entry that descends from b is recorded as
		// invalid when the call returns (headers on top of any of them are refused from then on), whatever had been
		// invalid inside that subtree before
		var unmarked []string
		for d := range s.Status {
			if d == b || !s.InIndex(d) {
				continue
			}
			desc := false
			for n := d.Parent; n != nil && n.Height >= b.Height; n = n.Parent {
				if n == b {
					desc = true
					break
				}
			}
			if !desc {
				continue
			}
			if inIdx, _, known, hooked := nodeStatus(s.N.Chain, &d.Hash); hooked && inIdx && !known {
				unmarked = append(unmarked, d.Name)
			}
			s.K.Count("invalidate.descendants_checked", 1)
		}
		if len(unmarked) > 0 {
			sort.Strings(unmarked)
			s.Fail("invalidate:descendant-not-marked-invalid", "after InvalidateBlock(%s) the index still records descendant(s) %v as not invalid", b.Name, unmarked)
		}
	}
	s.AfterOp("InvalidateBlock(" + b.Name + ")")
}

// Reconsider calls ReconsiderBlock.
func (s *Sim) Reconsider(b *refchain.Block) {
	s.op("rec(%s)", b.Name)
	err := s.N.Chain.ReconsiderBlock(&b.Hash)
	s.K.Count("op.ReconsiderBlock", 1)
	if !s.InIndex(b) {
		if err == nil {
			s.Fail("reconsider:unknown-block-ok", "ReconsiderBlock(%s) on a block not in the index returned nil", b.Name)
		}
	} else {
		if err != nil && s.Cfg.Prune != 0 && strings.Contains(err.Error(), "does not exist") {
			// a pruning node that has deleted block data the switch back needs cannot complete it: the flags are
			// cleared, the chain stays where it is (the tip oracle for pruning nodes accepts that); not judged
			s.K.Count("reconsider.pruned_node_cannot_switch", 1)
		} else if err != nil {
			s.Fail("reconsider:error", "ReconsiderBlock(%s) failed: %v", b.Name, err)
		}
		delete(s.Manual, b)
	}
	s.AfterOp("ReconsiderBlock(" + b.Name + ")")
}

// Flush calls FlushUtxoCache.
func (s *Sim) Flush(mode blockchain.FlushMode) {
	s.op("flush(%d)", mode)
	if err := s.N.Chain.FlushUtxoCache(mode); err != nil {
		s.Fail("flush:error", "FlushUtxoCache(%d): %v", mode, err)
	}
	s.K.Count("op.FlushUtxoCache", 1)
	s.AfterOp(fmt.Sprintf("FlushUtxoCache(%d)", mode))
}

// Restart closes the node (with or without a final cache flush) and reopens the same database.
func (s *Sim) Restart(flush bool) {
	s.op("restart(flush=%v)", flush)
	var err error
	if flush {
		err = s.N.Close()
	} else {
		err = s.N.CloseNoFlush()
	}
	if err != nil {
		s.Fail("restart:close-error", "close: %v", err)
	}
	clock := s.N.Clock
	s.N = nil
	n, err := node.Open(s.Dir, s.Cfg, clock)
	if err != nil {
		s.Fail("restart:open-error", "reopen failed: %v", err)
		return
	}
	s.N = n
	for b, st := range s.Status {
		// the orphan pool is memory-only, and header-only index entries are deliberately not persisted
		if st == SOrphan || st == SHeader {
			s.Status[b] = SUnknown
			delete(s.Manual, b)
		}
	}
	s.HdrAlso = map[*refchain.Block]bool{}
	s.orphanOrder = nil
	s.stack = nil // notifications restart from the persisted tip
	s.K.Count("op.Restart", 1)
	s.AfterOp("Restart")
}

// AfterOp evaluates the invariants at a quiescent point.
func (s *Sim) AfterOp(what string) {
	if s.N == nil {
		return
	}
	s.replayNotifs(what)
	opName := what
	if i := strings.Index(what, "("); i > 0 {
		opName = what[:i]
	}
	s.settleTip(opName)
	s.checkSnapshot(opName)
	if s.CheckViews {
		s.checkViews(opName)
	}
	if s.CheckUtxo {
		if s.ProbeRand != nil && s.ProbeRand.Bool() {
			s.probeViews(s.ProbeRand, 6)
		} else {
			s.checkUtxo(opName)
		}
	}
}

func (s *Sim) replayNotifs(what string) {
	for _, nt := range s.N.TakeNotifs() {
		b := s.G.Tree.ByHash[nt.Hash]
		switch nt.Type {
		case blockchain.NTBlockConnected:
			s.K.Count("notif.connected", 1)
			if b == nil {
				s.Fail("notif:unknown-block", "connected notification for unknown block %v", nt.Hash)
				continue
			}
			if b.Label != refchain.Valid || !b.Parent.ChainValid() {
				s.Fail("notif:invalid-block-connected", "block %s (label %d, rule %s) was connected to the active chain", b.Name, b.Label, b.Rule)
			}
			if s.stack != nil {
				if s.stack[len(s.stack)-1] != b.Parent {
					s.Fail("notif:connect-not-on-top", "connected %s but the notified chain top is %s", b.Name, s.stack[len(s.stack)-1].Name)
				}
				s.stack = append(s.stack, b)
			}
		case blockchain.NTBlockDisconnected:
			s.K.Count("notif.disconnected", 1)
			if b == nil {
				s.Fail("notif:unknown-block", "disconnected notification for unknown block %v", nt.Hash)
				continue
			}
			if s.stack != nil {
				if s.stack[len(s.stack)-1] != b {
					s.Fail("notif:disconnect-not-top", "disconnected %s but the notified chain top is %s", b.Name, s.stack[len(s.stack)-1].Name)
				} else {
					s.stack = s.stack[:len(s.stack)-1]
				}
			}
		case blockchain.NTBlockAccepted:
			s.K.Count("notif.accepted", 1)
		}
	}
	if s.stack == nil {
		// first quiescent point after a restart: adopt the real tip's path as the notified chain
		real := s.N.Chain.BestSnapshot()
		if rb := s.G.Tree.ByHash[real.Hash]; rb != nil {
			s.stack = rb.Path()
		}
		return
	}
	real := s.N.Chain.BestSnapshot()
	if top := s.stack[len(s.stack)-1]; top.Hash != real.Hash {
		s.Fail("notif:stream-does-not-fold-to-tip", "after %s the connect/disconnect stream ends at %s but the tip is %v (height %d)", what, top.Name, real.Hash, real.Height)
		if rb := s.G.Tree.ByHash[real.Hash]; rb != nil {
			s.stack = rb.Path()
		}
	}
}

func (s *Sim) checkSnapshot(op string) {
	snap := s.N.Chain.BestSnapshot()
	t := s.G.Tree.ByHash[snap.Hash]
	if t == nil {
		s.Fail("snapshot:unknown-tip", "tip %v is not a generated block", snap.Hash)
		return
	}
	if snap.Height != t.Height || snap.Bits != t.Msg.Header.Bits || snap.TotalTxns != t.TotalTx ||
		snap.MedianTime.Unix() != t.MTP() || snap.NumTxns != uint64(len(t.Msg.Transactions)) {
		s.Fail("snapshot:fields", "snapshot of %s: height %d/%d bits %x/%x totaltx %d/%d mtp %d/%d numtx %d/%d (real/model)", t.Name,
			snap.Height, t.Height, snap.Bits, t.Msg.Header.Bits, snap.TotalTxns, t.TotalTx, snap.MedianTime.Unix(), t.MTP(), snap.NumTxns, len(t.Msg.Transactions))
	}
	if snap.BlockSize != uint64(t.Msg.SerializeSize()) {
		s.Fail("snapshot:blocksize", "snapshot of %s: block size %d, serialized %d", t.Name, snap.BlockSize, t.Msg.SerializeSize())
	}
}

// checkViews compares every view of the active chain with the path of the REAL tip (mutual consistency
// is demanded even if the tip itself is wrong) .
func (s *Sim) checkViews(op string) {
	c := s.N.Chain
	snap := c.BestSnapshot()
	t := s.G.Tree.ByHash[snap.Hash]
	if t == nil {
		return
	}
	path := t.Path()
	for h, b := range path {
		hash, err := c.BlockHashByHeight(int32(h))
		if err != nil || *hash != b.Hash {
			s.Fail("views:BlockHashByHeight", "BlockHashByHeight(%d) = %v,%v; active chain has %s", h, hash, err, b.Name)
			break
		}
	}
	if _, err := c.BlockHashByHeight(t.Height + 1); err == nil {
		s.Fail("views:BlockHashByHeight-beyond-tip", "BlockHashByHeight(tip+1) succeeded")
	}
	onPath := map[*refchain.Block]bool{}
	for _, b := range path {
		onPath[b] = true
	}
	for _, b := range s.G.Tree.All {
		mc := c.MainChainHasBlock(&b.Hash)
		if mc != onPath[b] {
			s.Fail("views:MainChainHasBlock", "MainChainHasBlock(%s) = %v, path membership %v", b.Name, mc, onPath[b])
			break
		}
		h, err := c.BlockHeightByHash(&b.Hash)
		if onPath[b] {
			if err != nil || h != b.Height {
				s.Fail("views:BlockHeightByHash", "BlockHeightByHash(%s) = %d,%v want %d", b.Name, h, err, b.Height)
				break
			}
		} else if err == nil {
			s.Fail("views:BlockHeightByHash-side", "BlockHeightByHash(%s) = %d for a block off the active chain", b.Name, h)
			break
		}
	}
	// BlockByHeight at a few heights incl. the tip
	for _, h := range []int32{0, t.Height / 2, t.Height} {
		blk, err := c.BlockByHeight(h)
		if err != nil || *blk.Hash() != path[h].Hash {
			s.Fail("views:BlockByHeight", "BlockByHeight(%d): %v", h, err)
			break
		}
	}
	hr, err := c.HeightRange(0, t.Height+1)
	if err != nil || len(hr) != len(path) {
		s.Fail("views:HeightRange", "HeightRange(0,%d) len %d err %v", t.Height+1, len(hr), err)
	} else {
		for i := range hr {
			if hr[i] != path[i].Hash {
				s.Fail("views:HeightRange", "HeightRange element %d differs", i)
				break
			}
		}
	}
	// chain tips
	tips := c.ChainTips()
	active := 0
	for _, ct := range tips {
		b := s.G.Tree.ByHash[ct.BlockHash]
		if b == nil {
			s.Fail("views:ChainTips-unknown", "ChainTips lists unknown block %v", ct.BlockHash)
			continue
		}
		if ct.Height != b.Height {
			s.Fail("views:ChainTips-height", "ChainTips height of %s = %d", b.Name, ct.Height)
		}
		f := refchain.Fork(b, t)
		if ct.BranchLen != b.Height-f.Height {
			s.Fail("views:ChainTips-branchlen", "ChainTips branch length of %s = %d want %d", b.Name, ct.BranchLen, b.Height-f.Height)
		}
		switch ct.Status {
		case blockchain.StatusActive:
			active++
			if b != t {
				s.Fail("views:ChainTips-active", "ChainTips marks %s active, tip is %s", b.Name, t.Name)
			}
		case blockchain.StatusInvalid:
			if b.ChainValid() && !s.manualInAncestry(b) {
				s.Fail("views:ChainTips-invalid", "ChainTips marks fully valid branch tip %s invalid", b.Name)
			}
		}
		// a tip other than the active one must be a leaf of the set of blocks in the index
		for _, ch := range b.Children {
			if b == t {
				break
			}
			if s.InIndex(ch) {
				s.Fail("views:ChainTips-not-leaf", "ChainTips lists %s which has indexed child %s", b.Name, ch.Name)
			}
		}
	}
	if active != 1 {
		s.Fail("views:ChainTips-active-count", "ChainTips has %d active tips", active)
	}
	// every leaf of the indexed tree must be listed
	listed := map[chainhash.Hash]bool{}
	for _, ct := range tips {
		listed[ct.BlockHash] = true
	}
	for _, b := range s.G.Tree.All {
		if !s.InIndex(b) {
			continue
		}
		leaf := true
		for _, ch := range b.Children {
			if s.InIndex(ch) {
				leaf = false
			}
		}
		if leaf && !listed[b.Hash] && b != t {
			s.Fail("views:ChainTips-missing", "indexed leaf %s missing from ChainTips", b.Name)
			break
		}
	}
	s.K.Count("check.views", 1)
}

func (s *Sim) checkUtxo(op string) {
	c := s.N.Chain
	snap := c.BestSnapshot()
	t := s.G.Tree.ByHash[snap.Hash]
	if t == nil || !t.ChainValid() {
		return
	}
	set := t.Utxo()
	n := 0
	for op2 := range s.universe {
		e, err := c.FetchUtxoEntry(op2)
		if err != nil {
			s.Fail("utxo:FetchUtxoEntry-error", "FetchUtxoEntry(%v): %v", op2, err)
			return
		}
		m, ok := set[op2]
		present := e != nil && !e.IsSpent()
		if present != ok {
			s.Fail(fmt.Sprintf("utxo:presence:%s:real=%v", op, present), "outpoint %v: node reports present=%v, fold of active chain (tip %s) says %v", op2, present, t.Name, ok)
			return
		}
		if ok {
			if e.Amount() != m.Amount || string(e.PkScript()) != string(m.PkScript) || e.BlockHeight() != m.Height || e.IsCoinBase() != m.Coinbase {
				s.Fail("utxo:entry-fields:"+op, "outpoint %v: node (amt %d, h %d, cb %v, script %x) model (amt %d, h %d, cb %v, script %x)", op2,
					e.Amount(), e.BlockHeight(), e.IsCoinBase(), e.PkScript(), m.Amount, m.Height, m.Coinbase, m.PkScript)
				return
			}
		}
		n++
	}
	s.K.Count("check.utxo_entries", int64(n))
	s.K.Count("check.utxo", 1)
}
