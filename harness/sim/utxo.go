package sim

import (
	"bytes"
	"fmt"
	"sort"

	"verif/mon"
	"verif/ref/refchain"

	"github.com/btcsuite/btcd/btcutil/v2"
	"github.com/btcsuite/btcd/database"
	"github.com/btcsuite/btcd/wire/v2"
)

// vlq is the MSB-first base-128 variable-length quantity with the "subtract one per continuation" twist
// that btcd documents for its chain-state records (written from the format description).
func vlq(n uint64) []byte {
	var tmp []byte
	for {
		tmp = append(tmp, byte(n&0x7f))
		if n <= 0x7f {
			break
		}
		n = (n >> 7) - 1
	}
	out := make([]byte, len(tmp))
	for i := range tmp {
		b := tmp[len(tmp)-1-i]
		if i != len(tmp)-1 {
			b |= 0x80
		}
		out[i] = b
	}
	return out
}

// CheckSpendJournals compares FetchSpendJournal of every block of the active chain with the model.
func (s *Sim) CheckSpendJournals() {
	snap := s.N.Chain.BestSnapshot()
	t := s.G.Tree.ByHash[snap.Hash]
	if t == nil || !t.ChainValid() {
		return
	}
	for _, b := range t.Path()[1:] {
		got, err := s.N.Chain.FetchSpendJournal(btcutil.NewBlock(b.Msg))
		if err != nil {
			s.Fail("journal:error", "FetchSpendJournal(%s): %v", b.Name, err)
			return
		}
		want := b.Stxos()
		if len(got) != len(want) {
			s.Fail("journal:length", "FetchSpendJournal(%s): %d entries, model %d", b.Name, len(got), len(want))
			return
		}
		for i := range got {
			g, w := got[i], want[i]
			if g.Amount != w.Amount || !bytes.Equal(g.PkScript, w.PkScript) || g.Height != w.Height || g.IsCoinBase != w.Coinbase {
				s.Fail("journal:entry", "FetchSpendJournal(%s)[%d]: got (amt %d h %d cb %v script %x) want (amt %d h %d cb %v script %x)", b.Name, i,
					g.Amount, g.Height, g.IsCoinBase, g.PkScript, w.Amount, w.Height, w.Coinbase, w.PkScript)
				return
			}
		}
		s.K.Count("check.journal_blocks", 1)
		s.K.Count("check.journal_entries", int64(len(got)))
	}
}

// CheckPersistedUtxo scans the raw utxo bucket: after a forced flush its key set must be exactly the
// model's set for the active tip.
func (s *Sim) CheckPersistedUtxo() {
	snap := s.N.Chain.BestSnapshot()
	t := s.G.Tree.ByHash[snap.Hash]
	if t == nil || !t.ChainValid() {
		return
	}
	var want []string
	for op := range t.Utxo() {
		want = append(want, string(append(append([]byte{}, op.Hash[:]...), vlq(uint64(op.Index))...)))
	}
	sort.Strings(want)
	var got []string
	err := s.N.DB.View(func(tx database.Tx) error {
		bk := tx.Metadata().Bucket([]byte("utxosetv2"))
		if bk == nil {
			return fmt.Errorf("no utxosetv2 bucket")
		}
		return bk.ForEach(func(k, v []byte) error {
			got = append(got, string(k))
			return nil
		})
	})
	if err != nil {
		s.Fail("persisted:scan-error", "scan of the utxo bucket: %v", err)
		return
	}
	sort.Strings(got)
	if len(got) != len(want) {
		s.Fail("persisted:key-count", "persisted utxo bucket has %d keys after a required flush, fold of the active chain (tip %s) has %d", len(got), t.Name, len(want))
		return
	}
	for i := range got {
		if got[i] != want[i] {
			s.Fail("persisted:key-set", "persisted utxo key %x differs from the model's %x", got[i], want[i])
			return
		}
	}
	s.K.Count("check.persisted_scans", 1)
	s.K.Count("check.persisted_keys", int64(len(got)))
}

// CheckUtxoViews calls FetchUtxoView for a few transactions (on and off the active chain) and compares
// every looked-up outpoint with the model.
func (s *Sim) CheckUtxoViews(r *mon.Rand, n int) {
	snap := s.N.Chain.BestSnapshot()
	t := s.G.Tree.ByHash[snap.Hash]
	if t == nil || !t.ChainValid() {
		return
	}
	set := t.Utxo()
	all := s.G.Tree.All
	for i := 0; i < n; i++ {
		b := all[r.Intn(len(all))]
		tx := b.Msg.Transactions[r.Intn(len(b.Msg.Transactions))]
		view, err := s.N.Chain.FetchUtxoView(btcutil.NewTx(tx))
		if err != nil {
			s.Fail("view:error", "FetchUtxoView: %v", err)
			return
		}
		h := tx.TxHash()
		var ops []wire.OutPoint
		for j := range tx.TxOut {
			ops = append(ops, wire.OutPoint{Hash: h, Index: uint32(j)})
		}
		if !refchain.IsCoinbaseTx(tx) {
			for _, in := range tx.TxIn {
				ops = append(ops, in.PreviousOutPoint)
			}
		}
		for _, op := range ops {
			e := view.LookupEntry(op)
			m, ok := set[op]
			present := e != nil && !e.IsSpent()
			if present != ok {
				s.Fail("view:presence", "FetchUtxoView(%v) outpoint %v present=%v, model %v", h, op, present, ok)
				return
			}
			if ok && (e.Amount() != m.Amount || !bytes.Equal(e.PkScript(), m.PkScript) || e.BlockHeight() != m.Height || e.IsCoinBase() != m.Coinbase) {
				s.Fail("view:entry-fields", "FetchUtxoView entry for %v differs from the model", op)
				return
			}
		}
		s.K.Count("check.utxo_views", 1)
	}
}

// probeViews: FetchUtxoView probes preceded by single-entry lookups of a random subset of the outpoints involved.
func (s *Sim) probeViews(r *mon.Rand, n int) {
	snap := s.N.Chain.BestSnapshot()
	t := s.G.Tree.ByHash[snap.Hash]
	if t == nil || !t.ChainValid() {
		return
	}
	set := t.Utxo()
	all := s.G.Tree.All
	for i := 0; i < n && !s.Failed; i++ {
		b := all[r.Intn(len(all))]
		tx := b.Msg.Transactions[r.Intn(len(b.Msg.Transactions))]
		h := tx.TxHash()
		var ops []wire.OutPoint
		for j := range tx.TxOut {
			ops = append(ops, wire.OutPoint{Hash: h, Index: uint32(j)})
		}
		if !refchain.IsCoinbaseTx(tx) {
			for _, in := range tx.TxIn {
				ops = append(ops, in.PreviousOutPoint)
			}
		}
		for _, op := range ops {
			if !r.Chance(1, 3) {
				continue
			}
			e, err := s.N.Chain.FetchUtxoEntry(op)
			if err != nil {
				s.Fail("utxo:fetch-error", "FetchUtxoEntry(%v): %v", op, err)
				return
			}
			_, ok := set[op]
			if present := e != nil && !e.IsSpent(); present != ok {
				s.Fail("utxo:presence:probe:real="+fmt.Sprint(present), "FetchUtxoEntry(%v) present=%v, fold of the active chain says %v", op, present, ok)
				return
			}
			s.K.Count("check.utxo_probe_lookups", 1)
		}
	}
	s.CheckUtxoViews(r, n)
}
