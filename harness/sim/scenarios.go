package sim

import (
	"verif/gen/chaingen"
	"verif/mon"
	"verif/node"
	"verif/ref/refchain"
)

// ScenarioFan (shared by the C01, C02 and C17 workers): a side chain f -> s1..sa -> X where X fails when it is connected, with two or three branches of children
// stored on top of X while the side chain is still lighter than the main chain; the branches then grow one after the
// other past the main chain (each growth makes the node attempt a reorganisation through X, and mark what it learns);
// finally a valid branch leaves the side chain at one of the valid blocks below X and must become the best chain.
// Afterwards, on the winning chain ... -> A -> B -> C: C is invalidated, then A, and a header and a block built on B
// must be refused (B descends from an invalid block although a deeper block of the branch had been invalid before).
func ScenarioFan(k *mon.Case, fam string) {
	r := k.Rand
	g := chaingen.New(node.NewParams(fam), fam, r)
	g.MaxTx = 2
	s, err := New(k, g, node.Config{UtxoCacheMaxSize: []uint64{0, 4096, 1 << 25}[r.Intn(3)]})
	if err != nil {
		k.Failf("harness:open", "cannot open node: %v", err)
		return
	}
	defer s.Destroy()
	s.CheckViews = true
	g.ClockNow = s.N.Clock.Now()
	k.Desc(map[string]any{"family": fam, "mode": "fan-above-connect-time-failure"})
	deliver := func(b *refchain.Block) {
		if !s.Failed {
			if r.Chance(1, 5) {
				s.DeliverHeader(b)
			}
			s.DeliverBlock(b)
		}
	}
	var main []*refchain.Block
	tip := g.Tree.Genesis
	nMain := 4 + r.Intn(4)
	for i := 0; i < nMain; i++ {
		tip = g.Block(r, tip, chaingen.BlockOpts{NTx: -1})
		main = append(main, tip)
		deliver(tip)
	}
	fork := main[r.Intn(nMain-2)]
	room := nMain - int(fork.Height) // side blocks that can be stored without out-weighing the main chain
	side := []*refchain.Block{}
	p := fork
	for i := 0; i < 1+r.Intn(2) && len(side) < room-1; i++ {
		p = g.Block(r, p, chaingen.BlockOpts{NTx: -1})
		side = append(side, p)
		deliver(p)
	}
	rc := chaingen.BasicRecipes(s.N.Clock.Now())[r.Intn(2)] // the two connect-time failures
	x := g.Block(r, p, chaingen.BlockOpts{NTx: 0, Mutate: rc.Mutate, Label: rc.Label, Rule: rc.Rule})
	deliver(x)
	// the fan: first blocks of every branch while the side chain is not heavier than the main chain
	nBranch := 2 + r.Intn(2)
	tips := make([]*refchain.Block, nBranch)
	for i := range tips {
		tips[i] = x
	}
	if int(x.Height) < nMain {
		for i := range tips {
			tips[i] = g.Block(r, x, chaingen.BlockOpts{NTx: 0})
			deliver(tips[i])
		}
	}
	// growth past the main chain, branch by branch (random order, random lengths)
	for _, i := range r.Perm(nBranch) {
		for tips[i].Height <= int32(nMain)+int32(r.Intn(2)) && !s.Failed {
			tips[i] = g.Block(r, tips[i], chaingen.BlockOpts{NTx: 0})
			deliver(tips[i])
		}
		if r.Chance(1, 4) && !s.Failed {
			s.Restart(r.Bool())
		}
	}
	// the valid way out, from a valid block of the side chain (or the fork block itself)
	from := fork
	if len(side) > 0 && r.Chance(3, 4) {
		from = side[r.Intn(len(side))]
	}
	u := from
	var win []*refchain.Block
	for (u.Height <= int32(nMain)+1 || len(win) < 4) && !s.Failed {
		u = g.Block(r, u, chaingen.BlockOpts{NTx: -1})
		win = append(win, u)
		deliver(u)
	}
	if !s.Failed && s.Tip != u {
		s.Fail("tip:fan", "after the valid branch %s..%s grew past everything else the tip is %s", win[0].Name, u.Name, s.Tip.Name)
	}
	k.Count("fan.cases", 1)
	// invalidate C, then A, on ... A -> B -> C; B must then refuse descendants
	if !s.Failed && len(win) >= 4 {
		a, b, c := win[len(win)-3], win[len(win)-2], win[len(win)-1]
		if r.Chance(2, 3) {
			// the same on a stored side branch A -> B -> C that is lighter than the winning chain
			q := from
			var sb []*refchain.Block
			for i := 0; i < 3; i++ {
				q = g.Block(r, q, chaingen.BlockOpts{NTx: 0})
				sb = append(sb, q)
				deliver(q)
			}
			a, b, c = sb[0], sb[1], sb[2]
			k.Count("fan.invalidate-above-then-below.side-branch", 1)
		}
		s.Invalidate(c)
		if !s.Failed {
			s.Invalidate(a)
		}
		if !s.Failed {
			d := g.Block(r, b, chaingen.BlockOpts{NTx: 0})
			if r.Bool() {
				s.DeliverHeader(d)
			}
			s.DeliverBlock(d)
		}
		k.Count("fan.invalidate-above-then-below", 1)
	}
	k.Eval(mon.Sig("fan", fam, len(s.Ops), s.Tip.Hash.String()[:8]), true)
}
