//go:build !verif

package sim

import (
	"github.com/btcsuite/btcd/blockchain"
	"github.com/btcsuite/btcd/chainhash/v2"
)

func nodeStatus(c *blockchain.BlockChain, h *chainhash.Hash) (inIndex, haveData, knownInvalid, ok bool) {
	return false, false, false, false
}
