// Worker for C10: the mempool is always a conflict-free, minable, self-consistent set.
package main

import (
	"bytes"
	"sort"
	"sync"
	"sync/atomic"

	"verif/gen/chaingen"
	"verif/mon"
	"verif/node"
	"verif/poolsim"
	"verif/ref/refchain"

	"github.com/btcsuite/btcd/btcutil/v2"
	"github.com/btcsuite/btcd/chainhash/v2"
	"github.com/btcsuite/btcd/mempool"
	"github.com/btcsuite/btcd/wire/v2"
)

func newPS(k *mon.Case, std bool) (*poolsim.PS, error) {
	r := k.Rand
	g := chaingen.New(node.NewParams(node.FamRegtest), node.FamRegtest, r)
	g.MaxTx = 3
	mp := node.DefaultMemPolicy()
	mp.MaxOrphanTxs = []int{1, 2, 5, 100}[r.Intn(4)]
	mp.MaxOrphanTxSize = []int{400, 1000, 3000, 100000}[r.Intn(4)]
	mp.RejectReplacement = r.Chance(1, 8)
	mp.AcceptNonStd = !std
	g.StandardOnly = std
	if r.Chance(1, 4) {
		mp.MinRelayTxFee = btcutil.Amount([]int64{0, 500, 5000}[r.Intn(3)])
	}
	ps, err := poolsim.New(k, g, node.Config{UtxoCacheMaxSize: []uint64{0, 1 << 14, 1 << 25}[r.Intn(3)]}, mp, node.DefaultMinePolicy())
	if err != nil {
		return nil, err
	}
	ps.Base(14 + r.Intn(8))
	return ps, nil
}

func fee(r *mon.Rand) int64 { return int64(1000 + r.Intn(40000)) }

// oneOp performs one random pool / chain operation.
func oneOp(ps *poolsim.PS, r *mon.Rand, allowChainOps bool) {
	if r.Chance(1, 16) {
		orphanBoundary(ps, r)
		return
	}
	v := ps.View()
	switch x := r.Intn(100); {
	case x < 34: // good transaction (confirmed and unconfirmed inputs)
		coins := ps.Coins(v, true)
		if len(coins) == 0 {
			return
		}
		n := 1 + r.Intn(min(3, len(coins)))
		var in []chaingen.Spendable
		for _, i := range r.Perm(len(coins))[:n] {
			in = append(in, coins[i])
		}
		tx := ps.Build(poolsim.TxSpec{In: in, Fee: fee(r), NOut: 1 + r.Intn(3), Signal: r.Chance(1, 2), Pad: r.Intn(40)})
		if r.Chance(1, 4) {
			err := ps.CheckAcceptance(tx)
			o := ps.Submit(tx, true, "process", nil)
			if (err == nil) != (o.Err == nil && len(o.Accepted) > 0) && !ps.Failed {
				ps.Fail("testaccept:disagrees-with-submit", "CheckMempoolAcceptance said %v, ProcessTransaction said err=%v accepted=%d", err, o.Err, len(o.Accepted))
			}
			return
		}
		via := "process"
		if r.Chance(1, 5) {
			via = "maybe"
		}
		o := ps.Submit(tx, r.Bool(), via, v)
		if o.Err == nil && len(o.Accepted) > 0 {
			ps.K.Count("good.accepted", 1)
		} else {
			ps.K.Count("good.not_accepted", 1)
		}
	case x < 50: // conflict with a pooled transaction (replacement attempt or plain double spend)
		if len(v.Descs) == 0 {
			return
		}
		var victim *mempool.TxDesc
		i := r.Intn(len(v.Descs))
		for _, d := range v.Descs {
			if i == 0 {
				victim = d
			}
			i--
		}
		vin := victim.Tx.MsgTx().TxIn[r.Intn(len(victim.Tx.MsgTx().TxIn))]
		// find the coin data of the conflicted input
		var coin *chaingen.Spendable
		if e, err := ps.F.Chain.FetchUtxoEntry(vin.PreviousOutPoint); err == nil && e != nil && !e.IsSpent() {
			coin = &chaingen.Spendable{Op: vin.PreviousOutPoint, Coin: refchain.Coin{Amount: e.Amount(), PkScript: e.PkScript(), Height: e.BlockHeight(), Coinbase: e.IsCoinBase()}}
		} else if pd, ok := v.Descs[vin.PreviousOutPoint.Hash]; ok {
			to := pd.Tx.MsgTx().TxOut[vin.PreviousOutPoint.Index]
			coin = &chaingen.Spendable{Op: vin.PreviousOutPoint, Coin: refchain.Coin{Amount: to.Value, PkScript: to.PkScript}}
		}
		if coin == nil || !ps.G.CanSpend(coin.Coin.PkScript) {
			return
		}
		f := victim.Fee + int64(r.Intn(3)-1)*int64(r.Intn(3000)) + int64(r.Intn(2))*int64(2000+r.Intn(60000))
		if f < 0 {
			f = 0
		}
		in := []chaingen.Spendable{*coin}
		if r.Chance(1, 4) {
			if extra := ps.Coins(v, r.Bool()); len(extra) > 0 {
				in = append(in, extra[r.Intn(len(extra))])
			}
		} else if r.Chance(1, 3) {
			// the replacement also spends a still unspent output of a transaction it would evict (the victim itself or
			// one of its pooled descendants), and pays enough to pass every fee rule: it must be refused, since its own
			// input would disappear with the eviction
			evict := map[chainhash.Hash]bool{*victim.Tx.Hash(): true}
			spent := map[wire.OutPoint]bool{}
			for changed := true; changed; {
				changed = false
				for h, d := range v.Descs {
					for _, ti := range d.Tx.MsgTx().TxIn {
						spent[ti.PreviousOutPoint] = true
						if evict[ti.PreviousOutPoint.Hash] && !evict[h] {
							evict[h], changed = true, true
						}
					}
				}
			}
			var cands []chaingen.Spendable
			var fees int64
			for h := range evict {
				d := v.Descs[h]
				fees += d.Fee
				for i, to := range d.Tx.MsgTx().TxOut {
					op := wire.OutPoint{Hash: h, Index: uint32(i)}
					if !spent[op] && to.Value > 0 && ps.G.CanSpend(to.PkScript) {
						cands = append(cands, chaingen.Spendable{Op: op, Coin: refchain.Coin{Amount: to.Value, PkScript: to.PkScript}})
					}
				}
			}
			if len(cands) > 0 {
				sort.Slice(cands, func(i, j int) bool {
					if c := bytes.Compare(cands[i].Op.Hash[:], cands[j].Op.Hash[:]); c != 0 {
						return c < 0
					}
					return cands[i].Op.Index < cands[j].Op.Index
				})
				in = append(in, cands[r.Intn(len(cands))])
				f = fees + int64(20000+r.Intn(60000))
				ps.K.Count("conflict.attempts.spending-an-output-of-an-evicted-transaction", 1)
				if len(evict) > 1 {
					ps.K.Count("conflict.attempts.spending-an-output-of-an-evicted-descendant-set", 1)
				}
			}
		}
		tx := ps.Build(poolsim.TxSpec{In: in, Fee: f, NOut: 1 + r.Intn(2), Signal: r.Bool(), Pad: r.Intn(30)})
		ps.K.Count("conflict.attempts", 1)
		ps.Submit(tx, r.Bool(), "process", v)
	case x < 62: // orphan chain: child (and grandchild) first, parent later
		coins := ps.Coins(v, false)
		if len(coins) == 0 {
			return
		}
		parent := ps.Build(poolsim.TxSpec{In: coins[:1], Fee: fee(r), NOut: 2, Signal: r.Bool()})
		pc := chaingen.Spendable{Op: wire.OutPoint{Hash: parent.TxHash(), Index: 0}, Coin: refchain.Coin{Amount: parent.TxOut[0].Value, PkScript: parent.TxOut[0].PkScript}}
		if !ps.G.CanSpend(pc.Coin.PkScript) {
			pc = chaingen.Spendable{Op: wire.OutPoint{Hash: parent.TxHash(), Index: 1}, Coin: refchain.Coin{Amount: parent.TxOut[1].Value, PkScript: parent.TxOut[1].PkScript}}
			if !ps.G.CanSpend(pc.Coin.PkScript) {
				return
			}
		}
		child := ps.Build(poolsim.TxSpec{In: []chaingen.Spendable{pc}, Fee: fee(r), NOut: 2})
		ps.Submit(child, true, "process", v)
		if ps.Failed {
			return
		}
		if r.Chance(1, 2) {
			ps.Withheld = append(ps.Withheld, parent)
			return
		}
		wasOrphan := ps.F.Pool.IsOrphanInPool(ptr(child.TxHash()))
		o := ps.Submit(parent, true, "process", nil)
		if wasOrphan && o.Err == nil && len(o.Accepted) > 0 && !o.InPool(child.TxHash()) && !ps.Failed {
			ps.Fail("orphan:valid-child-not-promoted", "parent %v accepted but its stored valid orphan child %v was not pooled", parent.TxHash(), child.TxHash())
		}
		ps.K.Count("orphan.chains", 1)
	case x < 68: // release a withheld parent
		if len(ps.Withheld) == 0 {
			return
		}
		i := r.Intn(len(ps.Withheld))
		tx := ps.Withheld[i]
		ps.Withheld = append(ps.Withheld[:i], ps.Withheld[i+1:]...)
		ps.Submit(tx, true, "process", v)
	case x < 78: // bad submissions: must leave the pool untouched
		coins := ps.Coins(v, true)
		if len(coins) == 0 {
			return
		}
		c := coins[r.Intn(len(coins))]
		var tx *wire.MsgTx
		switch r.Intn(6) {
		case 5: // more signature operations than a whole block may carry (bare CHECKSIG outputs): can never be mined
			var extra []*wire.TxOut
			for left := 20001 + r.Intn(9000); left > 0; {
				n := min(left, 9000)
				sc := make([]byte, n)
				for i := range sc {
					sc[i] = 0xac
				}
				extra = append(extra, &wire.TxOut{Value: 0, PkScript: sc})
				left -= n
			}
			tx = ps.Build(poolsim.TxSpec{In: []chaingen.Spendable{c}, Fee: 100000 + fee(r), NOut: 1, ExtraOut: extra})
			ps.K.Count("bad.sigop-cost-above-block-limit", 1)
		case 0: // below the relay fee
			tx = ps.Build(poolsim.TxSpec{In: []chaingen.Spendable{c}, Fee: 0, NOut: 2})
		case 1: // outputs exceed inputs
			tx = ps.Build(poolsim.TxSpec{In: []chaingen.Spendable{c}, Fee: fee(r), NOut: 2})
			tx.TxOut[0].Value += c.Coin.Amount
		case 2: // broken signature / witness
			tx = ps.Build(poolsim.TxSpec{In: []chaingen.Spendable{c}, Fee: fee(r), NOut: 2})
			if len(tx.TxIn[0].Witness) > 0 {
				tx.TxIn[0].Witness[0] = append([]byte{0x30}, tx.TxIn[0].Witness[0]...)
			} else {
				tx.TxIn[0].SignatureScript = append([]byte{0x01, 0x00}, tx.TxIn[0].SignatureScript...)
				tx.TxIn[0].SignatureScript = append(tx.TxIn[0].SignatureScript, 0x6a)
			}
		case 3: // immature coinbase
			cb := ps.Tip.Msg.Transactions[0]
			op := wire.OutPoint{Hash: cb.TxHash(), Index: 0}
			if !ps.G.CanSpend(cb.TxOut[0].PkScript) {
				return
			}
			tx = ps.Build(poolsim.TxSpec{In: []chaingen.Spendable{{Op: op, Coin: refchain.Coin{Amount: cb.TxOut[0].Value, PkScript: cb.TxOut[0].PkScript, Height: ps.Tip.Height, Coinbase: true}}}, Fee: fee(r), NOut: 2})
		default: // duplicate of a pooled transaction
			for _, d := range v.Descs {
				tx = d.Tx.MsgTx()
				break
			}
			if tx == nil {
				return
			}
		}
		ps.K.Count("bad.attempts", 1)
		o := ps.Submit(tx, false, "process", v)
		if o.Err == nil && len(o.Accepted) > 0 {
			ps.K.Count("bad.accepted", 1)
		}
	case x < 84: // explicit removal
		if len(v.Descs) == 0 {
			return
		}
		for _, d := range v.Descs {
			// removeRedeemers=false is only meaningful for a transaction that has just been confirmed (its
			// outputs are then in the chain; the netsync handler uses it that way); an explicit eviction must
			// take the descendants along
			ps.F.Pool.RemoveTransaction(d.Tx, true)
			break
		}
		ps.K.Count("op.remove", 1)
		ps.CheckInvariants("RemoveTransaction")
	case x < 92 && allowChainOps: // mine a template: confirms pooled transactions
		ps.MineTemplate(true)
	case x < 97 && allowChainOps: // external block that confirms some pooled txs and double-spends others
		var txs []*wire.MsgTx
		for _, d := range v.Descs {
			tx := d.Tx.MsgTx()
			// after a reorganisation the pool may hold re-inserted block transactions whose relative locks were met
			// on the old branch only (the property's minability clause is conditional on the chain not having moved
			// backwards): such a pool is not mined from by the harness either
			ok := ps.MinableOK
			for _, in := range tx.TxIn {
				if _, unconf := v.Descs[in.PreviousOutPoint.Hash]; unconf {
					ok = false
				}
			}
			if ok && r.Bool() && len(txs) < 3 {
				txs = append(txs, tx)
			}
		}
		coins := ps.Coins(v, false)
		if len(coins) > 0 && r.Bool() {
			// a conflicting spend of an input some pooled tx uses
			for op := range v.Snap.Outpoints {
				if e, err := ps.F.Chain.FetchUtxoEntry(op); err == nil && e != nil && !e.IsSpent() && ps.G.CanSpend(e.PkScript()) {
					used := false
					for _, t := range txs {
						for _, in := range t.TxIn {
							if in.PreviousOutPoint == op {
								used = true
							}
						}
					}
					if !used && (!e.IsCoinBase() || ps.Tip.Height+1-e.BlockHeight() >= int32(ps.G.P.CoinbaseMaturity)) {
						c := chaingen.Spendable{Op: op, Coin: refchain.Coin{Amount: e.Amount(), PkScript: e.PkScript(), Height: e.BlockHeight(), Coinbase: e.IsCoinBase()}}
						txs = append(txs, ps.Build(poolsim.TxSpec{In: []chaingen.Spendable{c}, Fee: fee(r), NOut: 2}))
						ps.K.Count("block.conflicting_spend", 1)
					}
					break
				}
			}
		}
		ps.F.Clock.Set(ps.F.Clock.Now() + 600)
		b := ps.G.Block(r, ps.Tip, chaingen.BlockOpts{Txs: txs, TimeStep: ps.F.Clock.Now() - ps.Tip.Msg.Header.Timestamp.Unix()})
		ps.DeliverBlock(b)
		after := ps.CheckInvariants("external-block")
		for _, tx := range txs {
			if _, ok := after.Descs[tx.TxHash()]; ok && !ps.Failed {
				ps.Fail("confirmed-tx-still-pooled", "transaction %v confirmed by an external block is still pooled", tx.TxHash())
			}
		}
	case allowChainOps: // reorg: a heavier branch from below the tip
		depth := 1 + r.Intn(3)
		p := ps.Tip.Ancestor(ps.Tip.Height - int32(depth))
		if p == nil || p.Height < 8 {
			return
		}
		ps.F.Clock.Set(ps.F.Clock.Now() + 600)
		for j := 0; j < depth+1 && !ps.Failed; j++ {
			p = ps.G.Block(r, p, chaingen.BlockOpts{NTx: r.Intn(3)})
			ps.DeliverBlock(p)
		}
		ps.CheckInvariants("reorg")
	}
}

func ptr[T any](v T) *T { return &v }

// orphanBoundary offers an orphan (unknown parent) whose serialized size is exactly at, one below or one above
// MaxOrphanTxSize. Orphans are stored before any script validation, so the bulk sits in unvalidated witness data
// (the stored bytes are what the bound is about) or, alternatively, in an OP_RETURN output.
func orphanBoundary(ps *poolsim.PS, r *mon.Rand) {
	pol := ps.F.MemPolicy
	lim := pol.MaxOrphanTxSize
	if lim > 5000 || pol.MaxOrphanTxs == 0 {
		return
	}
	target := lim - 1 + r.Intn(3)
	inWitness := r.Bool() || !pol.AcceptNonStd
	tx := wire.NewMsgTx(2)
	var op wire.OutPoint
	r.Fill(op.Hash[:])
	tx.AddTxIn(&wire.TxIn{PreviousOutPoint: op, Sequence: 0xffffffff})
	// two outputs: transactions below 65 stripped bytes are refused by policy
	tx.AddTxOut(&wire.TxOut{Value: 100000, PkScript: ps.G.Script(ps.G.RandomKind(r), r.Intn(4), r)})
	tx.AddTxOut(&wire.TxOut{Value: 100000, PkScript: ps.G.Script(chaingen.KP2PKH, r.Intn(4), r)})
	pad := func(n int) {
		if inWitness {
			tx.TxIn[0].Witness = wire.TxWitness{make([]byte, n)}
		} else {
			tx.TxOut = tx.TxOut[:2]
			tx.AddTxOut(&wire.TxOut{Value: 0, PkScript: append([]byte{0x6a}, make([]byte, n)...)})
		}
	}
	pad(1)
	n := 1 + target - tx.SerializeSize()
	for i := 0; i < 4 && n >= 1; i++ {
		pad(n)
		n += target - tx.SerializeSize()
	}
	if n < 1 || tx.SerializeSize() != target {
		return
	}
	before := ps.View()
	o := ps.Submit(tx, true, "process", before)
	if ps.Failed {
		return
	}
	h := tx.TxHash()
	_, stored := o.After.Orphans[h]
	switch {
	case target <= lim && (o.Err != nil || !stored):
		ps.Fail("orphan:within-size-limit-not-stored", "orphan of %d bytes (limit %d, padding in witness: %v): err=%v stored=%v", target, lim, inWitness, o.Err, stored)
	case target > lim && (o.Err == nil || stored):
		ps.Fail("I7:orphan-size", "orphan of %d serialized bytes exceeds MaxOrphanTxSize %d (padding in witness: %v) but err=%v stored=%v", target, lim, inWitness, o.Err, stored)
	}
	ps.K.Count(map[bool]string{true: "orphan.boundary.within", false: "orphan.boundary.above"}[target <= lim], 1)
}

func runSeq(k *mon.Case) {
	ps, err := newPS(k, k.Rand.Chance(1, 4))
	if err != nil {
		k.Failf("harness:open", "%v", err)
		return
	}
	defer ps.Destroy()
	r := k.Rand
	k.Desc(map[string]any{"mode": "sequential", "standard_policy": !ps.F.MemPolicy.AcceptNonStd, "maxorphans": ps.F.MemPolicy.MaxOrphanTxs, "rejectreplacement": ps.F.MemPolicy.RejectReplacement})
	n := 60 + r.Intn(40)
	for i := 0; i < n && !ps.Failed; i++ {
		oneOp(ps, r, true)
	}
	k.Eval(mon.Sig("seq", len(ps.Ops), ps.Tip.Hash.String()[:8]), true)
	if k.Index < 2 {
		k.Sample(map[string]any{"mode": "sequential", "ops": ps.Ops})
	}
}

// runNonFinal: the documented defect family — with AcceptNonStd the pool does not check lock-time finality.
func runNonFinal(k *mon.Case) {
	ps, err := newPS(k, false)
	if err != nil {
		k.Failf("harness:open", "%v", err)
		return
	}
	defer ps.Destroy()
	r := k.Rand
	v := ps.View()
	coins := ps.Coins(v, false)
	if len(coins) == 0 {
		return
	}
	var lock uint32
	mode := r.Intn(2)
	if mode == 0 {
		lock = uint32(ps.Tip.Height + 1 + int32(r.Intn(50))) // height lock not yet reached
	} else {
		lock = uint32(ps.Tip.MTP() + int64(r.Intn(3))) // time lock at / just past median time
	}
	tx := ps.Build(poolsim.TxSpec{In: coins[:1], Fee: fee(r), NOut: 2, LockTime: lock, Sequence: 0xfffffffe})
	k.Desc(map[string]any{"mode": "nonfinal", "locktime": lock, "tip_height": ps.Tip.Height, "mtp": ps.Tip.MTP()})
	ps.Submit(tx, false, "process", v)
	if !ps.Failed {
		ps.MineTemplate(true)
	}
	k.Eval(mon.Sig("nonfinal", mode), true)
}

// runConcurrent: several goroutines submit streams on overlapping coins while readers poll and a producer mines.
func runConcurrent(k *mon.Case) {
	ps, err := newPS(k, false)
	if err != nil {
		k.Failf("harness:open", "%v", err)
		return
	}
	defer ps.Destroy()
	r := k.Rand
	k.Desc(map[string]any{"mode": "concurrent"})
	v := ps.View()
	coins := ps.Coins(v, false)
	if len(coins) < 4 {
		return
	}
	// pre-build competing transactions over the same small coin set (building is single-threaded: the generator is not)
	type job struct{ txs []*wire.MsgTx }
	nw := 4 + r.Intn(5)
	jobs := make([]job, nw)
	for w := 0; w < nw; w++ {
		for i := 0; i < 12; i++ {
			c := coins[r.Intn(min(len(coins), 6))]
			tx := ps.Build(poolsim.TxSpec{In: []chaingen.Spendable{c}, Fee: fee(r), NOut: 2, Signal: r.Bool(), Pad: r.Intn(20)})
			jobs[w].txs = append(jobs[w].txs, tx)
			// a child of it
			if ps.G.CanSpend(tx.TxOut[0].PkScript) {
				ch := ps.Build(poolsim.TxSpec{In: []chaingen.Spendable{{Op: wire.OutPoint{Hash: tx.TxHash(), Index: 0}, Coin: refchain.Coin{Amount: tx.TxOut[0].Value, PkScript: tx.TxOut[0].PkScript}}}, Fee: fee(r), NOut: 2})
				jobs[w].txs = append(jobs[w].txs, ch)
			}
		}
	}
	var wgSub, wgRead sync.WaitGroup
	var stop atomic.Bool
	var accepted, rejected atomic.Int64
	for w := 0; w < nw; w++ {
		wgSub.Add(1)
		go func(j job, rr *mon.Rand) {
			defer wgSub.Done()
			defer func() {
				if p := recover(); p != nil {
					k.Failf("conc:submitter-panic", "panic: %v", p)
				}
			}()
			for _, i := range rr.Perm(len(j.txs)) {
				if rr.Chance(1, 3) {
					// the path the reorg handler uses
					_, d, err := ps.F.Pool.MaybeAcceptTransaction(btcutil.NewTx(j.txs[i]), rr.Bool(), false)
					if err == nil && d != nil {
						accepted.Add(1)
					} else {
						rejected.Add(1)
					}
					continue
				}
				acc, err := ps.F.Pool.ProcessTransaction(btcutil.NewTx(j.txs[i]), true, false, 0)
				if err == nil && len(acc) > 0 {
					accepted.Add(1)
				} else {
					rejected.Add(1)
				}
				if rr.Chance(1, 6) {
					ps.F.Pool.CheckMempoolAcceptance(btcutil.NewTx(j.txs[rr.Intn(len(j.txs))]))
				}
			}
		}(jobs[w], r.Fork())
	}
	for rd := 0; rd < 3; rd++ {
		wgRead.Add(1)
		go func() {
			defer wgRead.Done()
			for !stop.Load() {
				ps.F.Pool.TxDescs()
				ps.F.Pool.MiningDescs()
				ps.F.Pool.RawMempoolVerbose()
				ps.F.Pool.Count()
			}
		}()
	}
	// block producer: a generator block with unrelated content, concurrently with the submitters
	blk := ps.G.Block(r, ps.Tip, chaingen.BlockOpts{NTx: 0})
	wgSub.Add(1)
	go func() {
		defer wgSub.Done()
		ps.DeliverBlock(blk)
	}()
	wgSub.Wait()
	stop.Store(true)
	wgRead.Wait()
	k.Count("conc.accepted", accepted.Load())
	k.Count("conc.rejected", rejected.Load())
	ps.MinableOK = true
	ps.CheckInvariants("concurrent-final")
	k.Eval(mon.Sig("conc", nw, accepted.Load()), true)
}

// runRefused: a confirmed transaction that the pool's policy refuses (version 3 under the standard policy) has a
// pooled child; when its block is disconnected by a reorganisation the handler cannot re-admit it and must evict the child.
func runRefused(k *mon.Case) {
	ps, err := newPS(k, true)
	if err != nil {
		k.Failf("harness:open", "%v", err)
		return
	}
	defer ps.Destroy()
	r := k.Rand
	k.Desc(map[string]any{"mode": "refused-at-disconnect"})
	v := ps.View()
	coins := ps.Coins(v, false)
	if len(coins) < 2 {
		return
	}
	forkBase := ps.Tip
	parent := ps.Build(poolsim.TxSpec{In: coins[:1], Fee: fee(r), NOut: 2, Version: 3})
	ps.F.Clock.Set(ps.F.Clock.Now() + 600)
	b := ps.G.Block(r, ps.Tip, chaingen.BlockOpts{Txs: []*wire.MsgTx{parent}, TimeStep: 600})
	ps.DeliverBlock(b)
	if r.Bool() {
		nb := ps.G.Block(r, ps.Tip, chaingen.BlockOpts{NTx: 0})
		ps.DeliverBlock(nb)
	}
	// pooled child (and grandchild) of the confirmed version-3 transaction
	pc := chaingen.Spendable{Op: wire.OutPoint{Hash: parent.TxHash(), Index: 0}, Coin: refchain.Coin{Amount: parent.TxOut[0].Value, PkScript: parent.TxOut[0].PkScript, Height: b.Height}}
	child := ps.Build(poolsim.TxSpec{In: []chaingen.Spendable{pc}, Fee: fee(r), NOut: 2})
	o := ps.Submit(child, false, "process", nil)
	if o.Err != nil || len(o.Accepted) == 0 {
		k.Count("refused.child_not_accepted", 1)
		return
	}
	if r.Bool() {
		gc := chaingen.Spendable{Op: wire.OutPoint{Hash: child.TxHash(), Index: 0}, Coin: refchain.Coin{Amount: child.TxOut[0].Value, PkScript: child.TxOut[0].PkScript}}
		ps.Submit(ps.Build(poolsim.TxSpec{In: []chaingen.Spendable{gc}, Fee: fee(r), NOut: 2}), false, "process", nil)
	}
	// a heavier branch from below the block that confirmed the parent, not containing it
	p := forkBase
	n := int(ps.Tip.Height-forkBase.Height) + 1
	ps.F.Clock.Set(ps.F.Clock.Now() + 600)
	for j := 0; j < n && !ps.Failed; j++ {
		p = ps.G.Block(r, p, chaingen.BlockOpts{NTx: 0})
		ps.DeliverBlock(p)
	}
	ps.MinableOK = true // the reorganisation is over; what is left in the pool must be minable on the new chain
	ps.CheckInvariants("after-reorg-refused-parent")
	k.Count("refused.scenarios", 1)
	k.Eval(mon.Sig("refused", n), true)
}

func main() {
	mon.Main("C10", func(c *mon.Ctx) {
		c.Rule("one case = a full node (chain+mempool+netsync handler+mining) with a base chain, then 60-99 operations: valid submissions over confirmed/unconfirmed inputs, " +
			"conflicts and BIP125 replacements with fees around the thresholds, orphan chains in child-first order, withheld parents, five kinds of bad submissions, removals, " +
			"template-mined and external blocks (confirming and double-spending pooled txs), 1-3 deep reorgs; policies varied (orphan limit, RejectReplacement, relay fee); after every " +
			"operation I1-I7 are evaluated through public getters and the snapshot hook; distinct = (mode, op count, final tip)")
		if mon.RaceEnabled {
			c.Family("conc", c.N(40, 2000), runConcurrent)
			c.Family("seq-race", c.N(16, 400), runSeq)
			return
		}
		c.Family("seq", c.N(360, 30000), runSeq)
		c.Family("nonfinal", c.N(28, 1000), runNonFinal)
		c.Family("refused", c.N(42, 2000), runRefused)
		c.Require("refused.scenarios", 20)
		c.Require("check.invariants", 5000)
		c.Require("check.minable", 1000)
		c.Require("replacement.accepted", 20)
		c.Require("conflict.attempts.spending-an-output-of-an-evicted-descendant-set", 30)
		c.Require("submit.orphans_promoted", 10)
		c.Require("orphan.boundary.within", 10)
		c.Require("bad.sigop-cost-above-block-limit", 10)
		c.Require("orphan.boundary.above", 10)
		c.Require("template.mined", 50)
		c.Require("chain.reorg", 20)
	})
}
