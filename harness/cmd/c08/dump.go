package main

import (
	"bytes"
	"encoding/hex"
	"fmt"
	"net"
	"reflect"
	"strconv"
	"time"

	"github.com/btcsuite/btcd/chainhash/v2"
	"github.com/btcsuite/btcd/wire/v2"
)

var (
	typTime = reflect.TypeOf(time.Time{})
	typIP   = reflect.TypeOf(net.IP{})
)

// dump renders a wire message (or any of its parts) as a canonical text so that two values can
// be compared field by field without using any btcd encoder. Normalisations: time.Time -> unix
// seconds; net.IP -> its 16-byte form (nil = all zero, as "no address" is carried on the wire);
// nil and empty slices are equal; pointers are dereferenced; a net.Addr (addrv2) is rendered as
// network id + textual address.
func dump(v any) string {
	var b bytes.Buffer
	dumpValue(&b, reflect.ValueOf(v))
	return b.String()
}

func writeHex(w *bytes.Buffer, b []byte) {
	var tmp [128]byte
	for len(b) > 0 {
		n := min(len(b), 64)
		hex.Encode(tmp[:], b[:n])
		w.Write(tmp[:2*n])
		b = b[n:]
	}
}

func writeInt(w *bytes.Buffer, v int64) {
	var tmp [24]byte
	w.Write(strconv.AppendInt(tmp[:0], v, 10))
}

// dumpTx is a hand-written (reflection-free) rendering of a transaction: large transactions and
// blocks dominate the cost of comparing values. It reads exported fields only.
func dumpTx(w *bytes.Buffer, m *wire.MsgTx) {
	w.WriteString("MsgTx{v=")
	writeInt(w, int64(m.Version))
	w.WriteString(";lt=")
	writeInt(w, int64(m.LockTime))
	w.WriteString(";in[")
	writeInt(w, int64(len(m.TxIn)))
	for _, in := range m.TxIn {
		if in == nil {
			w.WriteString(":nil")
			continue
		}
		w.WriteString(":{")
		writeHex(w, in.PreviousOutPoint.Hash[:])
		w.WriteByte('.')
		writeInt(w, int64(in.PreviousOutPoint.Index))
		w.WriteString(";s=")
		writeHex(w, in.SignatureScript)
		w.WriteString(";q=")
		writeInt(w, int64(in.Sequence))
		w.WriteString(";w[")
		writeInt(w, int64(len(in.Witness)))
		for _, it := range in.Witness {
			w.WriteByte(':')
			writeHex(w, it)
		}
		w.WriteString("]}")
	}
	w.WriteString("];out[")
	writeInt(w, int64(len(m.TxOut)))
	for _, o := range m.TxOut {
		if o == nil {
			w.WriteString(":nil")
			continue
		}
		w.WriteString(":{")
		writeInt(w, o.Value)
		w.WriteByte(';')
		writeHex(w, o.PkScript)
		w.WriteByte('}')
	}
	w.WriteString("]}")
}

func dumpValue(w *bytes.Buffer, v reflect.Value) {
	if !v.IsValid() {
		w.WriteString("nil")
		return
	}
	switch v.Type() {
	case typTime:
		fmt.Fprintf(w, "t%d", v.Interface().(time.Time).Unix())
		return
	case typIP:
		ip := v.Interface().(net.IP)
		switch len(ip) {
		case 0:
			w.WriteString("ip:" + hex.EncodeToString(make([]byte, 16)))
		case 4, 16:
			w.WriteString("ip:" + hex.EncodeToString(ip.To16()))
		default:
			w.WriteString("ip-bad:" + hex.EncodeToString(ip))
		}
		return
	}
	switch v.Kind() {
	case reflect.Ptr:
		if v.IsNil() {
			w.WriteString("nil")
			return
		}
		if v.CanInterface() {
			switch x := v.Interface().(type) {
			case *wire.MsgTx:
				dumpTx(w, x)
				return
			case *chainhash.Hash:
				w.WriteByte('h')
				writeHex(w, x[:])
				return
			case *wire.InvVect:
				w.WriteString("iv")
				writeInt(w, int64(x.Type))
				w.WriteByte('.')
				writeHex(w, x.Hash[:])
				return
			}
		}
		dumpValue(w, v.Elem())
	case reflect.Interface:
		if v.IsNil() {
			w.WriteString("nil")
			return
		}
		if a, ok := v.Interface().(net.Addr); ok {
			fmt.Fprintf(w, "addr(%x,%s)", a.Network(), a.String())
			return
		}
		dumpValue(w, v.Elem())
	case reflect.Struct:
		w.WriteString(v.Type().Name())
		w.WriteByte('{')
		for i := 0; i < v.NumField(); i++ {
			f := v.Type().Field(i)
			if f.PkgPath != "" {
				continue // unexported
			}
			w.WriteString(f.Name)
			w.WriteByte('=')
			dumpValue(w, v.Field(i))
			w.WriteByte(';')
		}
		w.WriteByte('}')
	case reflect.Slice:
		if v.Type().Elem().Kind() == reflect.Uint8 {
			w.WriteByte('x')
			writeHex(w, v.Bytes())
			return
		}
		fmt.Fprintf(w, "[%d:", v.Len())
		for i := 0; i < v.Len(); i++ {
			dumpValue(w, v.Index(i))
			w.WriteByte(',')
		}
		w.WriteByte(']')
	case reflect.Array:
		if v.Type().Elem().Kind() == reflect.Uint8 {
			b := make([]byte, v.Len())
			reflect.Copy(reflect.ValueOf(b), v)
			w.WriteByte('h')
			writeHex(w, b)
			return
		}
		w.WriteByte('[')
		for i := 0; i < v.Len(); i++ {
			dumpValue(w, v.Index(i))
			w.WriteByte(',')
		}
		w.WriteByte(']')
	case reflect.Bool:
		fmt.Fprintf(w, "%v", v.Bool())
	case reflect.Int, reflect.Int8, reflect.Int16, reflect.Int32, reflect.Int64:
		fmt.Fprintf(w, "%d", v.Int())
	case reflect.Uint, reflect.Uint8, reflect.Uint16, reflect.Uint32, reflect.Uint64:
		fmt.Fprintf(w, "%d", v.Uint())
	case reflect.String:
		fmt.Fprintf(w, "%q", v.String())
	default:
		fmt.Fprintf(w, "?%s", v.Kind())
	}
}

// firstDiff gives a short description of where two dumps differ.
func firstDiff(a, b string) string {
	n := len(a)
	if len(b) < n {
		n = len(b)
	}
	i := 0
	for i < n && a[i] == b[i] {
		i++
	}
	lo := i - 60
	if lo < 0 {
		lo = 0
	}
	cut := func(s string) string {
		hi := i + 60
		if hi > len(s) {
			hi = len(s)
		}
		if lo > len(s) {
			return ""
		}
		return s[lo:hi]
	}
	return fmt.Sprintf("at %d: %q vs %q", i, cut(a), cut(b))
}

func hexN(b []byte, n int) string {
	if len(b) <= n {
		return hex.EncodeToString(b)
	}
	return hex.EncodeToString(b[:n]) + fmt.Sprintf("...(%d bytes)", len(b))
}

// diffAt reports the first differing offset of two byte strings.
func diffAt(a, b []byte) string {
	n := len(a)
	if len(b) < n {
		n = len(b)
	}
	i := 0
	for i < n && a[i] == b[i] {
		i++
	}
	lo := i - 8
	if lo < 0 {
		lo = 0
	}
	seg := func(s []byte) string {
		hi := i + 12
		if hi > len(s) {
			hi = len(s)
		}
		if lo > len(s) {
			return ""
		}
		return hex.EncodeToString(s[lo:hi])
	}
	return fmt.Sprintf("len %d vs %d, first difference at offset %d: ...%s vs ...%s", len(a), len(b), i, seg(a), seg(b))
}
