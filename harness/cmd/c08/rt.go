package main

import (
	"bytes"
	"fmt"

	"verif/mon"
	"verif/ref/reftx"
	"verif/ref/refwire"

	"github.com/btcsuite/btcd/btcutil/v2"
	"github.com/btcsuite/btcd/wire/v2"
)

func encName(e wire.MessageEncoding) string {
	if e == wire.WitnessEncoding {
		return "witness"
	}
	return "base"
}

// pverClass names the layout epoch of a protocol version (used in violation keys / signatures).
func pverClass(p uint32) string {
	switch {
	case p < refwire.VerMultipleAddress:
		return "lt209"
	case p < refwire.VerAddrTime:
		return "lt31402"
	case p <= refwire.VerBIP31:
		return "le60000"
	case p < refwire.VerBIP35:
		return "lt60002"
	case p < refwire.VerBIP37:
		return "lt70001"
	case p < refwire.VerReject:
		return "lt70002"
	case p < refwire.VerSendHeaders:
		return "lt70012"
	case p < refwire.VerFeeFilter:
		return "lt70013"
	case p < refwire.VerAddrV2:
		return "lt70016"
	}
	return "ge70016"
}

func btcdEncode(msg wire.Message, pver uint32, enc wire.MessageEncoding) ([]byte, error) {
	var buf bytes.Buffer
	if err := msg.BtcEncode(&buf, pver, enc); err != nil {
		return nil, err
	}
	return buf.Bytes(), nil
}

// btcdDecode decodes from a *bytes.Buffer (MsgVersion requires that reader type) and returns
// the number of bytes consumed.
func btcdDecode(cmd string, b []byte, pver uint32, enc wire.MessageEncoding) (wire.Message, int, error) {
	m := newMsg(cmd)
	buf := bytes.NewBuffer(b)
	err := m.BtcDecode(buf, pver, enc)
	return m, len(b) - buf.Len(), err
}

// zeroInputTx reports whether a tx / block message contains a transaction without inputs: under
// the BIP144 decoding an input count of zero *is* the segwit marker, so such values have no
// round trip in that mode (a protocol ambiguity, not an implementation choice).
func zeroInputTx(msg wire.Message) bool {
	switch m := msg.(type) {
	case *wire.MsgTx:
		return len(m.TxIn) == 0
	case *wire.MsgBlock:
		for _, t := range m.Transactions {
			if len(t.TxIn) == 0 {
				return true
			}
		}
	}
	return false
}

// checkMsgRoundTrip: the value-driven monitor for one message value at one (pver, encoding, net).
func checkMsgRoundTrip(k *mon.Case, cmd string, msg wire.Message, sp *genSpec, pver uint32, enc wire.MessageEncoding, bnet wire.BitcoinNet) {
	r := k.Rand
	wit := enc == wire.WitnessEncoding
	pc := pverClass(pver)
	if got := msg.Command(); got != cmd {
		k.Failf("command:"+cmd, "Command() = %q, protocol command is %q", got, cmd)
	}
	ref, rerr := refwire.Encode(msg, pver, wit)
	if rerr == refwire.ErrNotAtVersion {
		// the message does not exist at this version: nothing is demanded beyond "no panic"
		_, e1 := btcdEncode(msg, pver, enc)
		_, _, e2 := btcdDecode(cmd, nil, pver, enc)
		if e1 != nil {
			k.Count("notatversion.encode_refused", 1)
		}
		if e2 != nil {
			k.Count("notatversion.decode_refused", 1)
		}
		k.Count("notatversion", 1)
		k.Eval(mon.Sig("rt-nav", cmd, pc), false)
		return
	}
	if rerr != nil {
		k.Failf("harness:ref-encode:"+cmd, "reference encoder refused a generated value: %v", rerr)
		return
	}
	if derr := refwire.CheckDomain(msg, pver); derr != nil {
		k.Failf("harness:domain:"+cmd, "generator produced an out-of-domain value: %v", derr)
		return
	}
	want := ref.Bytes

	// the opaque addrv2 address is read back through net.Addr; make sure that reading is exact
	if m, ok := msg.(*wire.MsgAddrV2); ok {
		for i, na := range m.AddrList {
			id, a, err := refwire.AddrV2Parts(na)
			if err != nil || id != sp.addrV2[i].ID || !bytes.Equal(a, sp.addrV2[i].Addr) {
				k.Failf("addrv2:value:"+fmt.Sprint(sp.addrV2[i].ID), "NetAddressV2FromBytes(id %d, %x) reads back as id %d %x err %v",
					sp.addrV2[i].ID, sp.addrV2[i].Addr, id, a, err)
				return
			}
		}
	}

	// 1. encode(v) == reference bytes
	got, err := btcdEncode(msg, pver, enc)
	if err != nil {
		k.Failf("encode-error:"+cmd, "BtcEncode(pver %d, %s) of an in-domain value failed: %v", pver, encName(enc), err)
		return
	}
	if !bytes.Equal(got, want) {
		k.Failf("layout:"+cmd, "BtcEncode(pver %d) differs from the protocol layout: %s\n got %s\nwant %s",
			pver, diffAt(got, want), hexN(got, 400), hexN(want, 400))
		return
	}
	k.Count("rt.encode."+cmd, 1)

	// 2. framed write == reference frame
	var fb bytes.Buffer
	n, err := wire.WriteMessageWithEncodingN(&fb, msg, pver, bnet, enc)
	wantFrame := refwire.Frame(uint32(bnet), cmd, want)
	if err != nil {
		k.Failf("write-error:"+cmd, "WriteMessageWithEncodingN of an in-domain value (%d payload bytes) failed: %v", len(want), err)
		return
	}
	if n != len(wantFrame) || !bytes.Equal(fb.Bytes(), wantFrame) {
		k.Failf("frame:"+cmd, "WriteMessageWithEncodingN n=%d wrote %s", n, diffAt(fb.Bytes(), wantFrame))
		return
	}

	roundTrips := !(wit && zeroInputTx(msg))

	// 3. framed read (followed by the start of another message): consumes exactly the frame
	tail := r.Bytes(r.Intn(30))
	rd := bytes.NewReader(append(append([]byte{}, wantFrame...), tail...))
	n2, m2, payload, err := wire.ReadMessageWithEncodingN(rd, pver, bnet, enc)
	if cmd == "wtxidrelay" {
		// defined in package wire but not registered in its message factory: it cannot be
		// received through ReadMessage*, so only its encoding and direct decoding are checked
		k.Count("rt.wtxidrelay_not_receivable", 1)
	} else if roundTrips {
		if err != nil {
			k.Failf("read-error:"+cmd, "ReadMessageWithEncodingN rejected a canonical %s message (pver %d, %s, %d bytes): %v",
				cmd, pver, encName(enc), len(want), err)
			return
		}
		if n2 != len(wantFrame) || rd.Len() != len(tail) || !bytes.Equal(payload, want) {
			k.Failf("read-consumed:"+cmd, "ReadMessageWithEncodingN n=%d (frame %d), reader left %d (tail %d), payload %s",
				n2, len(wantFrame), rd.Len(), len(tail), diffAt(payload, want))
			return
		}
		if a, b := dump(m2), dump(msg); a != b {
			k.Failf("roundtrip-value:"+cmd, "decode(encode(v)) != v (pver %d): %s", pver, firstDiff(a, b))
			return
		}
		k.Count("rt.read."+cmd, 1)
	} else {
		k.Count("rt.zero_input_witness_mode", 1)
	}

	// 4. direct BtcDecode (+ re-encode): consumes exactly the payload
	extra := []byte{}
	if cmd != "version" {
		extra = r.Bytes(r.Intn(8))
	}
	m3, used, err := btcdDecode(cmd, append(append([]byte{}, want...), extra...), pver, enc)
	if roundTrips {
		if err != nil || used != len(want) {
			k.Failf("decode-error:"+cmd, "BtcDecode of a canonical payload: err=%v consumed %d of %d", err, used, len(want))
			return
		}
		if a, b := dump(m3), dump(msg); a != b {
			k.Failf("roundtrip-value:"+cmd, "BtcDecode(BtcEncode(v)) != v (pver %d): %s", pver, firstDiff(a, b))
			return
		}
		re, err := btcdEncode(m3, pver, enc)
		if err != nil || !bytes.Equal(re, want) {
			k.Failf("reencode:"+cmd, "encode(decode(encode(v))) differs: err=%v %s", err, diffAt(re, want))
			return
		}
	}

	// 5. BIP324 (v2 transport) contents
	var vb bytes.Buffer
	nv, err := wire.WriteV2MessageN(&vb, msg, pver, enc)
	wantV2 := refwire.FrameV2(cmd, want)
	if err != nil || nv != len(wantV2) || !bytes.Equal(vb.Bytes(), wantV2) {
		k.Failf("v2frame:"+cmd, "WriteV2MessageN err=%v n=%d: %s", err, nv, diffAt(vb.Bytes(), wantV2))
		return
	}
	if cmd != "wtxidrelay" && roundTrips {
		m4, pl, err := wire.ReadV2MessageN(wantV2, pver, enc)
		if err != nil {
			k.Failf("v2read-error:"+cmd, "ReadV2MessageN rejected canonical contents: %v", err)
			return
		}
		if !bytes.Equal(pl, want) {
			k.Failf("v2read-payload:"+cmd, "ReadV2MessageN payload %s", diffAt(pl, want))
		}
		if a, b := dump(m4), dump(msg); a != b {
			k.Failf("roundtrip-value:"+cmd, "ReadV2MessageN(WriteV2MessageN(v)) != v: %s", firstDiff(a, b))
			return
		}
		k.Count("rt.v2."+cmd, 1)
	}
	nvar := len(ref.VarInts)
	k.Sample(map[string]any{"family": "msg.roundtrip", "cmd": cmd, "pver": pver, "enc": encName(enc), "payload_len": len(want),
		"compactsize_fields": nvar, "payload": hexN(want, 96)})
	k.Eval(mon.Sig("rt", cmd, pc, encName(enc), len(want), nvar, mon.SigBytes(want[:min(len(want), 64)])), len(want) > 0)
}

func h32(h [32]byte) string { return reftx.HashString(h) }

// invertScripts returns a transaction of the same shape whose script / witness bytes are all inverted.
func invertScripts(t *reftx.Tx) *reftx.Tx {
	inv := func(b []byte) []byte {
		o := make([]byte, len(b))
		for i := range b {
			o[i] = ^b[i]
		}
		return o
	}
	c := &reftx.Tx{Version: t.Version, LockTime: t.LockTime}
	for _, in := range t.In {
		n := reftx.TxIn{Prev: in.Prev, Sequence: in.Sequence, Script: inv(in.Script)}
		for _, w := range in.Witness {
			n.Witness = append(n.Witness, inv(w))
		}
		c.In = append(c.In, n)
	}
	for _, o := range t.Out {
		c.Out = append(c.Out, reftx.TxOut{Value: o.Value, Script: inv(o.Script)})
	}
	return c
}

// checkTx: transaction-level monitors (both encodings, sizes, ids, btcutil wrappers).
func checkTx(k *mon.Case, t *reftx.Tx) {
	r := k.Rand
	m := reftx.ToMsgTx(t)
	base, full := t.Bytes(false), t.Bytes(true)
	txid, wtxid := t.TxID(), t.WTxID()
	hasW := t.HasWitness()
	shape := fmt.Sprintf("in%d-out%d-w%v", min(len(t.In), 3), min(len(t.Out), 3), hasW)

	var b1, b2 bytes.Buffer
	if err := m.Serialize(&b1); err != nil || !bytes.Equal(b1.Bytes(), full) {
		k.Failf("tx:Serialize", "[%s] Serialize err=%v %s", shape, err, diffAt(b1.Bytes(), full))
		return
	}
	if err := m.SerializeNoWitness(&b2); err != nil || !bytes.Equal(b2.Bytes(), base) {
		k.Failf("tx:SerializeNoWitness", "[%s] SerializeNoWitness err=%v %s", shape, err, diffAt(b2.Bytes(), base))
		return
	}
	if n := m.SerializeSize(); n != len(full) {
		k.Failf("tx:SerializeSize", "[%s] SerializeSize=%d actual %d", shape, n, len(full))
	}
	if n := m.SerializeSizeStripped(); n != len(base) {
		k.Failf("tx:SerializeSizeStripped", "[%s] SerializeSizeStripped=%d actual %d", shape, n, len(base))
	}
	// component sizes
	sum := 8 + reftx.VarIntSize(uint64(len(t.In))) + reftx.VarIntSize(uint64(len(t.Out)))
	wsum := 0
	for _, in := range m.TxIn {
		sum += in.SerializeSize()
		wsum += in.Witness.SerializeSize()
	}
	for _, o := range m.TxOut {
		sum += o.SerializeSize()
	}
	if sum != len(base) || (hasW && sum+2+wsum != len(full)) {
		k.Failf("tx:component-sizes", "[%s] TxIn/TxOut/TxWitness SerializeSize sum %d (+2+%d) vs base %d full %d", shape, sum, wsum, len(base), len(full))
	}
	if m.HasWitness() != hasW {
		k.Failf("tx:HasWitness", "HasWitness=%v want %v", m.HasWitness(), hasW)
	}
	if h := m.TxHash(); [32]byte(h) != txid {
		k.Failf("tx:TxHash", "[%s] TxHash %s want %s", shape, h, h32(txid))
	}
	if h := m.WitnessHash(); [32]byte(h) != wtxid {
		k.Failf("tx:WitnessHash", "[%s] WitnessHash %s want %s", shape, h, h32(wtxid))
	}
	if s := m.TxID(); s != h32(txid) {
		k.Failf("tx:TxID", "TxID() %s want %s", s, h32(txid))
	}
	k.Count("tx.encode", 1)

	checkLocs := func(which string, mm *wire.MsgTx) {
		locs := mm.PkScriptLocs()
		if len(locs) != len(mm.TxOut) {
			k.Failf("tx:PkScriptLocs:"+which+":count", "PkScriptLocs returned %d entries for %d outputs", len(locs), len(mm.TxOut))
			return
		}
		for i, l := range locs {
			pk := t.Out[i].Script
			if l < 0 || l+len(pk) > len(full) || !bytes.Equal(full[l:l+len(pk)], pk) {
				k.Failf("tx:PkScriptLocs:"+which, "PkScriptLocs[%d]=%d does not point at the output script inside the serialized tx (hasWitness=%v, first input has witness=%v)",
					i, l, hasW, len(t.In) > 0 && len(t.In[0].Witness) > 0)
				return
			}
		}
	}

	// decode direction
	if len(t.In) > 0 {
		var d wire.MsgTx
		rd := bytes.NewReader(append(append([]byte{}, full...), r.Bytes(r.Intn(5))...))
		before := rd.Len()
		if err := d.Deserialize(rd); err != nil {
			k.Failf("tx:Deserialize-error", "[%s] Deserialize rejected a canonical tx (%d bytes): %v", shape, len(full), err)
			return
		}
		if before-rd.Len() != len(full) {
			k.Failf("tx:Deserialize-consumed", "Deserialize consumed %d of %d", before-rd.Len(), len(full))
		}
		if a, b := dump(&d), dump(m); a != b {
			k.Failf("tx:roundtrip-value", "[%s] Deserialize(Serialize(tx)) != tx: %s", shape, firstDiff(a, b))
			return
		}
		// a decoded value must own its memory: decoding a different transaction of the same shape
		// afterwards (the decoder recycles scratch buffers) must not change it
		var other wire.MsgTx
		if err := other.Deserialize(bytes.NewReader(invertScripts(t).Bytes(true))); err != nil {
			k.Failf("tx:Deserialize-error", "[%s] Deserialize rejected a canonical tx: %v", shape, err)
			return
		}
		if a, b := dump(&d), dump(m); a != b {
			k.Failf("tx:decoded-value-aliased", "a decoded tx changed when another tx was decoded: %s", firstDiff(a, b))
			return
		}
		if [32]byte(d.TxHash()) != txid || [32]byte(d.WitnessHash()) != wtxid || d.SerializeSize() != len(full) || d.SerializeSizeStripped() != len(base) {
			k.Failf("tx:ids-after-roundtrip", "[%s] ids / sizes changed by a round trip", shape)
		}
		checkLocs("decoded", &d)

		ut, err := btcutil.NewTxFromBytes(full)
		if err != nil {
			k.Failf("btcutil:NewTxFromBytes-error", "NewTxFromBytes rejected a canonical tx: %v", err)
			return
		}
		if [32]byte(*ut.Hash()) != txid || [32]byte(*ut.WitnessHash()) != wtxid || ut.HasWitness() != hasW {
			k.Failf("btcutil:Tx-ids", "[%s] btcutil.Tx Hash %s WitnessHash %s HasWitness %v; want %s %s %v", shape,
				ut.Hash(), ut.WitnessHash(), ut.HasWitness(), h32(txid), h32(wtxid), hasW)
		}
		// cached values are stable
		if [32]byte(*ut.Hash()) != txid || [32]byte(*ut.WitnessHash()) != wtxid {
			k.Failf("btcutil:Tx-cached-ids", "second call of Hash/WitnessHash differs")
		}
		if a, b := dump(ut.MsgTx()), dump(m); a != b {
			k.Failf("btcutil:NewTxFromBytes-value", "NewTxFromBytes value differs: %s", firstDiff(a, b))
		}
		trail := append(append([]byte{}, full...), byte(r.Intn(256)))
		if r.Chance(1, 2) {
			trail = append(trail, r.Bytes(r.Intn(40))...)
		}
		if _, err := btcutil.NewTxFromBytes(trail); err == nil {
			k.Failf("btcutil:NewTxFromBytes-trailing", "NewTxFromBytes accepted %d trailing bytes", len(trail)-len(full))
		}
		rd2 := bytes.NewReader(trail)
		if ut2, err := btcutil.NewTxFromReader(rd2); err != nil || len(trail)-rd2.Len() != len(full) || [32]byte(*ut2.Hash()) != txid {
			k.Failf("btcutil:NewTxFromReader", "NewTxFromReader err=%v consumed %d of %d", err, len(trail)-rd2.Len(), len(full))
		}
		k.Count("tx.decode", 1)
	}
	// the original format carries any tx stripped of its witness
	{
		var d wire.MsgTx
		rd := bytes.NewReader(base)
		if err := d.DeserializeNoWitness(rd); err != nil || rd.Len() != 0 {
			k.Failf("tx:DeserializeNoWitness-error", "[%s] DeserializeNoWitness of the stripped form: err=%v left %d", shape, err, rd.Len())
			return
		}
		var rb bytes.Buffer
		d.SerializeNoWitness(&rb)
		if !bytes.Equal(rb.Bytes(), base) || [32]byte(d.TxHash()) != txid || d.HasWitness() {
			k.Failf("tx:stripped-roundtrip", "[%s] stripped form does not round trip: %s", shape, diffAt(rb.Bytes(), base))
		}
		if !hasW {
			if a, b := dump(&d), dump(m); a != b {
				k.Failf("tx:roundtrip-value-base", "[%s] DeserializeNoWitness(SerializeNoWitness(tx)) != tx: %s", shape, firstDiff(a, b))
			}
		}
	}
	ut := btcutil.NewTx(m)
	if [32]byte(*ut.Hash()) != txid || [32]byte(*ut.WitnessHash()) != wtxid || ut.HasWitness() != hasW {
		k.Failf("btcutil:NewTx-ids", "[%s] btcutil.NewTx(tx) Hash/WitnessHash/HasWitness differ from the reference", shape)
	}
	// For a constructed value whose first input has no witness while a later one has, PkScriptLocs
	// (which looks at TxIn[0].Witness only) is off by the two marker bytes. Script offsets are not part
	// of the property as stated (layout, sizes, ids), so this is recorded as an observation only.
	if locs := m.PkScriptLocs(); len(locs) > 0 && len(locs) == len(t.Out) {
		l, pk := locs[0], t.Out[0].Script
		if l < 0 || l+len(pk) > len(full) || !bytes.Equal(full[l:l+len(pk)], pk) {
			k.Count("observed.pkscriptlocs_constructed_mismatch", 1)
		}
	}
	k.Eval(mon.Sig("tx", len(t.In), len(t.Out), hasW, len(full), mon.SigBytes(txid[:8])), true)
}

// checkBlock: block / header level monitors.
func checkBlock(k *mon.Case, bl *reftx.Block) {
	r := k.Rand
	mb := reftx.ToMsgBlock(bl)
	base, full := bl.Bytes(false), bl.Bytes(true)
	hash := bl.Hash()
	zeroIn := zeroInputTx(mb)
	shape := fmt.Sprintf("ntx%d", min(len(bl.Txs), 3))

	// header
	hb := bl.Header.Bytes()
	var b0 bytes.Buffer
	if err := mb.Header.Serialize(&b0); err != nil || !bytes.Equal(b0.Bytes(), hb) {
		k.Failf("header:Serialize", "BlockHeader.Serialize err=%v %s", err, diffAt(b0.Bytes(), hb))
		return
	}
	pver := pvers[r.Intn(len(pvers))]
	b0.Reset()
	if err := mb.Header.BtcEncode(&b0, pver, wire.BaseEncoding); err != nil || !bytes.Equal(b0.Bytes(), hb) {
		k.Failf("header:BtcEncode", "BlockHeader.BtcEncode(pver %d) err=%v %s", pver, err, diffAt(b0.Bytes(), hb))
	}
	if h := mb.Header.BlockHash(); [32]byte(h) != hash {
		k.Failf("header:BlockHash", "BlockHash %s want %s", h, h32(hash))
	}
	if h := mb.BlockHash(); [32]byte(h) != hash {
		k.Failf("block:BlockHash", "MsgBlock.BlockHash %s want %s", h, h32(hash))
	}
	var dh wire.BlockHeader
	rdh := bytes.NewReader(append(append([]byte{}, hb...), 0x01))
	if err := dh.Deserialize(rdh); err != nil || rdh.Len() != 1 || dump(&dh) != dump(&mb.Header) || [32]byte(dh.BlockHash()) != hash {
		k.Failf("header:roundtrip", "BlockHeader.Deserialize(Serialize(h)) err=%v left=%d: %s", err, rdh.Len(), firstDiff(dump(&dh), dump(&mb.Header)))
	}
	var dh2 wire.BlockHeader
	if err := dh2.BtcDecode(bytes.NewReader(hb), pver, wire.WitnessEncoding); err != nil || dump(&dh2) != dump(&mb.Header) {
		k.Failf("header:BtcDecode", "BlockHeader.BtcDecode(pver %d) err=%v", pver, err)
	}
	k.Count("header.roundtrip", 1)

	var b1, b2 bytes.Buffer
	if err := mb.Serialize(&b1); err != nil || !bytes.Equal(b1.Bytes(), full) {
		k.Failf("block:Serialize", "[%s] Serialize err=%v %s", shape, err, diffAt(b1.Bytes(), full))
		return
	}
	if err := mb.SerializeNoWitness(&b2); err != nil || !bytes.Equal(b2.Bytes(), base) {
		k.Failf("block:SerializeNoWitness", "[%s] SerializeNoWitness err=%v %s", shape, err, diffAt(b2.Bytes(), base))
		return
	}
	if n := mb.SerializeSize(); n != len(full) {
		k.Failf("block:SerializeSize", "[%s] SerializeSize=%d actual %d", shape, n, len(full))
	}
	if n := mb.SerializeSizeStripped(); n != len(base) {
		k.Failf("block:SerializeSizeStripped", "[%s] SerializeSizeStripped=%d actual %d", shape, n, len(base))
	}
	hs, _ := mb.TxHashes()
	for i, h := range hs {
		if [32]byte(h) != bl.Txs[i].TxID() {
			k.Failf("block:TxHashes", "TxHashes[%d] %s want %s", i, h, h32(bl.Txs[i].TxID()))
			break
		}
	}
	k.Count("block.encode", 1)

	if !zeroIn {
		var d wire.MsgBlock
		rd := bytes.NewReader(append(append([]byte{}, full...), r.Bytes(r.Intn(4))...))
		before := rd.Len()
		if err := d.Deserialize(rd); err != nil || before-rd.Len() != len(full) {
			k.Failf("block:Deserialize-error", "[%s] Deserialize of a canonical block: err=%v consumed %d of %d", shape, err, before-rd.Len(), len(full))
			return
		}
		if a, b := dump(&d), dump(mb); a != b {
			k.Failf("block:roundtrip-value", "[%s] Deserialize(Serialize(block)) != block: %s", shape, firstDiff(a, b))
			return
		}
		{
			ob := &reftx.Block{Header: bl.Header}
			for _, t := range bl.Txs {
				ob.Txs = append(ob.Txs, invertScripts(t))
			}
			var other wire.MsgBlock
			if err := other.Deserialize(bytes.NewReader(ob.Bytes(true))); err != nil {
				k.Failf("block:Deserialize-error", "[%s] Deserialize rejected a canonical block: %v", shape, err)
				return
			}
			if a, b := dump(&d), dump(mb); a != b {
				k.Failf("block:decoded-value-aliased", "a decoded block changed when another block was decoded: %s", firstDiff(a, b))
				return
			}
		}
		if [32]byte(d.BlockHash()) != hash || d.SerializeSize() != len(full) || d.SerializeSizeStripped() != len(base) {
			k.Failf("block:ids-after-roundtrip", "hash / sizes changed by a round trip")
		}
		// transaction locations
		wantStart, wantLen := bl.TxOffsets(true)
		var d2 wire.MsgBlock
		locs, err := d2.DeserializeTxLoc(bytes.NewBuffer(append([]byte{}, full...)))
		if err != nil || len(locs) != len(wantStart) {
			k.Failf("block:DeserializeTxLoc-error", "DeserializeTxLoc err=%v n=%d want %d", err, len(locs), len(wantStart))
			return
		}
		for i := range locs {
			if locs[i].TxStart != wantStart[i] || locs[i].TxLen != wantLen[i] {
				k.Failf("block:DeserializeTxLoc", "TxLoc[%d]=%+v want start %d len %d", i, locs[i], wantStart[i], wantLen[i])
				break
			}
		}
		if a, b := dump(&d2), dump(mb); a != b {
			k.Failf("block:DeserializeTxLoc-value", "DeserializeTxLoc value differs: %s", firstDiff(a, b))
		}

		// btcutil.Block from bytes: ids computed from raw slices
		ub, err := btcutil.NewBlockFromBytes(append([]byte{}, full...))
		if err != nil {
			k.Failf("btcutil:NewBlockFromBytes-error", "NewBlockFromBytes rejected a canonical block: %v", err)
			return
		}
		checkUtilBlock(k, "frombytes", ub, bl, full, base)
		if tl, err := ub.TxLoc(); err != nil || len(tl) != len(wantStart) {
			k.Failf("btcutil:TxLoc", "Block.TxLoc err=%v n=%d", err, len(tl))
		} else {
			for i := range tl {
				if tl[i].TxStart != wantStart[i] || tl[i].TxLen != wantLen[i] {
					k.Failf("btcutil:TxLoc", "Block.TxLoc[%d]=%+v want start %d len %d", i, tl[i], wantStart[i], wantLen[i])
					break
				}
			}
		}
		trail := append(append([]byte{}, full...), r.Bytes(1+r.Intn(20))...)
		if _, err := btcutil.NewBlockFromBytes(trail); err == nil {
			k.Failf("btcutil:NewBlockFromBytes-trailing", "NewBlockFromBytes accepted %d trailing bytes", len(trail)-len(full))
		}
		rd3 := bytes.NewReader(trail)
		if ub3, err := btcutil.NewBlockFromReader(rd3); err != nil || len(trail)-rd3.Len() != len(full) || [32]byte(*ub3.Hash()) != hash {
			k.Failf("btcutil:NewBlockFromReader", "NewBlockFromReader err=%v consumed %d of %d", err, len(trail)-rd3.Len(), len(full))
		}
		checkUtilBlock(k, "blockandbytes", btcutil.NewBlockFromBlockAndBytes(reftx.ToMsgBlock(bl), append([]byte{}, full...)), bl, full, base)
		k.Count("block.decode", 1)
	}
	{
		var d wire.MsgBlock
		rd := bytes.NewReader(base)
		if err := d.DeserializeNoWitness(rd); err != nil || rd.Len() != 0 {
			k.Failf("block:DeserializeNoWitness-error", "[%s] DeserializeNoWitness of the stripped block: err=%v left %d", shape, err, rd.Len())
		} else {
			var rb bytes.Buffer
			d.SerializeNoWitness(&rb)
			if !bytes.Equal(rb.Bytes(), base) || [32]byte(d.BlockHash()) != hash {
				k.Failf("block:stripped-roundtrip", "stripped block does not round trip: %s", diffAt(rb.Bytes(), base))
			}
		}
	}
	checkUtilBlock(k, "newblock", btcutil.NewBlock(mb), bl, full, base)
	wit := false
	for _, t := range bl.Txs {
		wit = wit || t.HasWitness()
	}
	k.Eval(mon.Sig("block", len(bl.Txs), wit, len(full), mon.SigBytes(hash[:8])), true)
}

func checkUtilBlock(k *mon.Case, how string, ub *btcutil.Block, bl *reftx.Block, full, base []byte) {
	hash := bl.Hash()
	if [32]byte(*ub.Hash()) != hash || [32]byte(*ub.Hash()) != hash {
		k.Failf("btcutil:Block.Hash:"+how, "Block.Hash %s want %s", ub.Hash(), h32(hash))
	}
	if b, err := ub.Bytes(); err != nil || !bytes.Equal(b, full) {
		k.Failf("btcutil:Block.Bytes:"+how, "Block.Bytes err=%v %s", err, diffAt(b, full))
	}
	if b, err := ub.BytesNoWitness(); err != nil || !bytes.Equal(b, base) {
		k.Failf("btcutil:Block.BytesNoWitness:"+how, "Block.BytesNoWitness err=%v %s", err, diffAt(b, base))
	}
	txs := ub.Transactions()
	if len(txs) != len(bl.Txs) {
		k.Failf("btcutil:Block.Transactions:"+how, "Transactions() has %d entries, block has %d", len(txs), len(bl.Txs))
		return
	}
	for i, ut := range txs {
		want, wantW := bl.Txs[i].TxID(), bl.Txs[i].WTxID()
		if [32]byte(*ut.Hash()) != want || [32]byte(*ut.WitnessHash()) != wantW || ut.Index() != i || ut.HasWitness() != bl.Txs[i].HasWitness() {
			k.Failf("btcutil:Block.tx-ids:"+how, "tx %d of %d: Hash %s WitnessHash %s Index %d; want %s %s (witness=%v)",
				i, len(txs), ut.Hash(), ut.WitnessHash(), ut.Index(), h32(want), h32(wantW), bl.Txs[i].HasWitness())
			return
		}
		if h, err := ub.TxHash(i); err != nil || [32]byte(*h) != want {
			k.Failf("btcutil:Block.TxHash:"+how, "TxHash(%d) err=%v", i, err)
			return
		}
	}
	if _, err := ub.Tx(len(txs)); err == nil {
		k.Failf("btcutil:Block.Tx-range", "Tx(%d) out of range accepted", len(txs))
	}
	k.Count("btcutil.block."+how, 1)
}
