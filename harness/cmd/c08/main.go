// Worker for C08: wire encoding is a canonical bijection; hostile bytes are harmless.
//
// Value-driven families (non-race build): generated message / tx / block values are encoded by
// btcd and by the independent references (verif/ref/refwire, verif/ref/reftx) and decoded back.
// Byte-driven families (both builds; the -race build runs them with smaller counts for its
// checkptr / bounds instrumentation): hostile byte strings are offered to every decoder; each call
// is measured for allocation, a panic is a violation, and whatever is accepted must re-encode to
// the very same bytes (value-level idempotence for the two decoders that are tolerant by design).
package main

import (
	"bytes"
	"fmt"
	"os"
	"runtime/pprof"
	"strconv"

	"verif/mon"
	"verif/ref/reftx"
	"verif/ref/refwire"

	"github.com/btcsuite/btcd/wire/v2"
)

func famPrims(k *mon.Case) {
	r := k.Rand
	// CompactSize: value -> bytes -> value, size function, non-minimal forms rejected
	v := r.EdgeU64()
	switch r.Intn(6) {
	case 0:
		v = []uint64{0, 1, 0xfc, 0xfd, 0xfe, 0xff, 0x100, 0xfffe, 0xffff, 0x10000, 0x10001, 0xfffffffe, 0xffffffff, 0x100000000, 0x100000001, ^uint64(0)}[r.Intn(16)]
	case 1:
		v = uint64(r.Intn(70000))
	}
	want := reftx.AppendVarInt(nil, v)
	k.Desc(map[string]any{"varint": v})
	var wb bytes.Buffer
	if err := wire.WriteVarInt(&wb, 0, v); err != nil || !bytes.Equal(wb.Bytes(), want) {
		k.Failf("varint:WriteVarInt", "WriteVarInt(%d) = %x want %x (err %v)", v, wb.Bytes(), want, err)
	}
	if n := wire.VarIntSerializeSize(v); n != len(want) {
		k.Failf("varint:VarIntSerializeSize", "VarIntSerializeSize(%d) = %d want %d", v, n, len(want))
	}
	rd := bytes.NewReader(append(append([]byte{}, want...), 0xaa))
	got, err := wire.ReadVarInt(rd, 0)
	if err != nil || got != v || rd.Len() != 1 {
		k.Failf("varint:ReadVarInt", "ReadVarInt(%x) = %d err %v left %d, want %d", want, got, err, rd.Len(), v)
	}
	nm := nonMinimal(r, v)
	if len(nm) != len(want) {
		if g, err := wire.ReadVarInt(bytes.NewReader(nm), 0); err == nil {
			k.Failf("varint:nonminimal-accepted", "ReadVarInt accepted the non-minimal encoding %x as %d", nm, g)
		}
		k.Count("prims.nonminimal", 1)
	}
	for cut := 0; cut < len(want); cut++ {
		if _, err := wire.ReadVarInt(bytes.NewReader(want[:cut]), 0); err == nil {
			k.Failf("varint:truncated-accepted", "ReadVarInt accepted %x truncated to %d bytes", want, cut)
		}
	}
	// var-bytes / var-string with claimed lengths around the caller's maximum
	max := uint32([]int{0, 1, 520, 36000, 65536, 1 << 20}[r.Intn(5+r.Intn(6)/5)])
	claim := uint64(max)
	switch r.Intn(5) {
	case 0:
		claim = uint64(max) + 1
	case 1:
		claim = cheapCounts[r.Intn(len(cheapCounts))]
		if claim > 1<<20 && claim <= 1<<26 && !r.Chance(1, 10) {
			claim = 1<<32 + uint64(r.Intn(1000)) // multi-megabyte honoured claims are drawn rarely
		}
		if r.Chance(1, 200) {
			claim = bigCounts[r.Intn(len(bigCounts))]
		}
	case 2:
		claim = uint64(r.Intn(int(max) + 1))
	}
	have := int(claim)
	if claim > 1<<16 {
		have = r.Intn(64)
	}
	if r.Chance(1, 4) && have > 0 {
		have--
	}
	data := r.Bytes(have)
	in := append(reftx.AppendVarInt(nil, claim), data...)
	var vb []byte
	guard(k, "ReadVarBytes", len(in), func() { vb, err = wire.ReadVarBytes(bytes.NewReader(in), 0, max, "field") })
	wantOK := claim <= uint64(max) && uint64(have) == claim
	if (err == nil) != wantOK || (err == nil && !bytes.Equal(vb, data)) {
		k.Failf("varbytes:ReadVarBytes", "ReadVarBytes(claim %d, have %d, max %d): err=%v, expected ok=%v", claim, have, max, err, wantOK)
	}
	var vs string
	guard(k, "ReadVarString", len(in), func() { vs, err = wire.ReadVarString(bytes.NewReader(in), 0) })
	wantOK = claim <= 32<<20 && uint64(have) == claim
	if (err == nil) != wantOK || (err == nil && vs != string(data)) {
		k.Failf("varbytes:ReadVarString", "ReadVarString(claim %d, have %d): err=%v, expected ok=%v", claim, have, err, wantOK)
	}
	if wantOK {
		var b2, b3 bytes.Buffer
		wire.WriteVarBytes(&b2, 0, data)
		wire.WriteVarString(&b3, 0, string(data))
		if !bytes.Equal(b2.Bytes(), in) || !bytes.Equal(b3.Bytes(), in) {
			k.Failf("varbytes:Write", "WriteVarBytes / WriteVarString differ from the layout")
		}
	}
	k.Count("prims.cases", 1)
	k.Eval(mon.Sig("prims", v, claim, have, max), true)
}

func main() {
	mon.Main("C08", func(c *mon.Ctx) {
		if p := os.Getenv("C08_CPUPROFILE"); p != "" { // developer aid only
			if f, err := os.Create(p); err == nil {
				pprof.StartCPUProfile(f)
				defer pprof.StopCPUProfile()
			}
		}
		c.Rule("value-driven: for every P2P message type x protocol-version breakpoint (b-1,b,b+1) x {base,witness} encoding a value is generated " +
			"inside the protocol domain (boundary counts 0/1/252/253/254/max-1/max, boundary integers), encoded by btcd and by the independent " +
			"layout reference, framed (v1 header and BIP324 contents), read back and compared field by field; transactions and blocks also through " +
			"Serialize/Deserialize, size functions, ids and the btcutil wrappers. byte-driven: valid encodings are mutated (count/length fields forced " +
			"to limit / huge values, non-minimal CompactSize, bit flips, byte sets, insert/delete/append, every truncation offset, random bytes, hostile " +
			"v1 headers) and offered to every decoder under an allocation meter; accepted bytes must re-encode identically. " +
			"distinct = (family, message type, version epoch, encoding, mutation class, accept/reject, length, hash of the first bytes)")
		c.Note("tolerant decoders (value-level idempotence instead of byte identity): version (optional tail fields, relay flag read as any non-zero byte " +
			"and, below 70001, read although the encoder omits it), addrv2 (entries with unknown / unsupported network ids are skipped as BIP155 requires)")
		c.Note("observations outside the property as stated (counted, not judged): MsgTx.PkScriptLocs is off by the two marker bytes for a constructed " +
			"transaction whose first input has no witness while a later one has (counter observed.pkscriptlocs_constructed_mismatch); MsgWTxIdRelay is " +
			"defined by package wire but not registered in makeEmptyMessage, so it can be written but not read (counter rt.wtxidrelay_not_receivable)")
		c.Note("transactions without inputs have no round trip in the BIP144 decoding mode (an input count of zero is the segwit marker): they are " +
			"only exercised in the original format")

		// thorough-tier counts can be scaled down (percent) when the machine is shared: developer aid,
		// the evidence notes it. Counts never depend on time.
		pct := int64(100)
		if v := os.Getenv("VERIF_C08_THOROUGH_PCT"); v != "" && c.Thorough() {
			if p, err := strconv.Atoi(v); err == nil && p > 0 && p <= 100 {
				pct = int64(p)
				c.Note(fmt.Sprintf("thorough-tier case counts scaled to %d%% by VERIF_C08_THOROUGH_PCT", p))
			}
		}
		n := func(quick, thorough int64) int64 { return c.N(quick, thorough*pct/100) }

		// --- calibration of the oracles (runs first; the transaction / block reference is calibrated in the
		// non-race build only: the same oracle code serves both builds and parsing megabyte blocks under the
		// race detector costs more than the whole hostile workload) ---
		if !mon.RaceEnabled {
			c.Family("calibrate.reftx", int64(len(blockFiles)), famCalibrateTx)
		}
		c.Family("calibrate.refwire", int64(len(calibrationVectors())), famCalibrateWire)

		scale := int64(1)
		if mon.RaceEnabled {
			scale = c.N(10, 20) // the race build only repeats the hostile families, with smaller counts
		}

		if !mon.RaceEnabled {
			// every (message type, version, encoding) combination, several values each
			combos := int64(len(allCmds) * len(pvers) * 2)
			c.Family("msg.roundtrip", combos*n(6, 240), func(k *mon.Case) {
				r := k.Rand
				i := k.Index % combos
				cmd := allCmds[i%int64(len(allCmds))]
				i /= int64(len(allCmds))
				pver := pvers[i%int64(len(pvers))]
				enc := wire.BaseEncoding
				if i/int64(len(pvers)) == 1 {
					enc = wire.WitnessEncoding
				}
				sz := pickSize(r)
				msg, sp := genMsg(r, cmd, pver, enc == wire.WitnessEncoding, sz, c.Thorough())
				k.Desc(map[string]any{"cmd": cmd, "pver": pver, "enc": encName(enc), "size_class": sz, "value": trunc(dump(msg), 4000)})
				checkMsgRoundTrip(k, cmd, msg, sp, pver, enc, nets[r.Intn(len(nets))])
			})
			c.Family("tx.roundtrip", n(30000, 1800000), func(k *mon.Case) {
				r := k.Rand
				t := randTx(r, txShape{allowNoInputs: true, witness: 1, sz: pickSize(r), heavy: c.Thorough()})
				k.Desc(map[string]any{"tx": hexN(t.Bytes(true), 3000)})
				checkTx(k, t)
			})
			c.Family("block.roundtrip", n(6000, 360000), func(k *mon.Case) {
				r := k.Rand
				ntx := r.Intn(6)
				switch r.Intn(30) {
				case 0:
					ntx = []int{252, 253, 254}[r.Intn(3)]
				case 1:
					ntx = 0
				}
				bl := randBlock(r, txShape{allowNoInputs: r.Chance(1, 10), witness: 1, sz: pickSize(r)}, ntx)
				k.Desc(map[string]any{"block": hexN(bl.Bytes(true), 3000)})
				checkBlock(k, bl)
			})
			c.Family("prims", n(40000, 2400000), famPrims)
		}

		// concurrent decoders: the codec keeps pooled scratch buffers; what one goroutine decodes must not depend on what
		// the others are decoding at the same time (runs in both variants; the race detector sees it in the second)
		c.Family("conc.decode", n(60, 2400), famConcurrentDecode)
		c.Require("conc.decodes", 10000)

		c.Family("hostile.mutate", n(80000, 4800000)/scale, famHostileMutate)
		c.Family("hostile.trunc", n(2000, 120000)/scale, famHostileTrunc)
		c.Family("hostile.random", n(25000, 1500000)/scale, famHostileRandom)
		c.Family("hostile.frame", n(25000, 1500000)/scale, famHostileFrame)

		if !mon.RaceEnabled {
			for _, cmd := range allCmds {
				c.Require("rt.encode."+cmd, 10)
			}
			c.Require("tx.decode", 1000)
			c.Require("block.decode", 500)
			c.Require("btcutil.block.frombytes", 500)
			c.Require("prims.cases", 1000)
		}
		if !mon.RaceEnabled {
			c.Require("calibrate.blocks", 5)
			c.Require("calibrate.witness_commitments", 2)
		}
		c.Require("calibrate.vectors", 10)
		c.Require("hostile.calls", 10000)
		c.Require("identity.canonical", 500)
		c.Require("mutate.class.count-forced", 100)
		c.Require("mutate.class.nonminimal-varint", 50)
		c.Require("trunc.prefixes", 1000)
	})
}

func trunc(s string, n int) string {
	if len(s) <= n {
		return s
	}
	return s[:n] + fmt.Sprintf("...(%d chars)", len(s))
}

var _ = refwire.MaxInv
