package main

import (
	"bytes"
	"compress/bzip2"
	"encoding/hex"
	"fmt"
	"io"
	"math/big"
	"net"
	"os"
	"path/filepath"
	"strings"
	"time"

	"verif/mon"
	"verif/ref/reftx"
	"verif/ref/refwire"

	"github.com/btcsuite/btcd/chainhash/v2"
	"github.com/btcsuite/btcd/wire/v2"
)

// Calibration of the oracles against data that ships with the repository, using only facts of
// the Bitcoin protocol (never btcd's codecs):
//   - real main-net blocks: the reference parser must consume them exactly, re-serialize them
//     identically, the merkle root over the reference txids must equal the header's, the reference
//     block hash must satisfy the header's own proof-of-work target and equal the next block's
//     prev-hash / the hash in the file name, and (segwit blocks) the coinbase commitment must
//     equal SHA256d(witness merkle root over the reference wtxids || reserved value).
//   - published message dumps (protocol documentation addr / verack examples, the literal
//     vectors of wire's own unit tests) for the message layouts.

func repoDir() string {
	if d := os.Getenv("VERIF_REPO"); d != "" {
		return d
	}
	return "/repo"
}

type blockFile struct {
	path   string
	framed bool // sequence of [magic u32][len u32][block]
	limit  int  // at most this many blocks (0 = all)
}

var blockFiles = []blockFile{
	{"wire/testdata/block-0000000000000000001602407ac49862a7bca9d00f7f402db20b7be2f5de59d2.blk", false, 0},
	{"wire/testdata/block-00000000000000000021868c2cefc52a480d173c849412fe81c4e5ab806f94ab.blk", false, 0},
	{"blockchain/testdata/277647.dat.bz2", true, 0},
	{"blockchain/testdata/blk_0_to_4.dat.bz2", true, 0},
	{"database/testdata/blocks1-256.bz2", true, 0},
}

func readBlockFile(bf blockFile) ([][]byte, error) {
	raw, err := os.ReadFile(filepath.Join(repoDir(), bf.path))
	if err != nil {
		return nil, err
	}
	if strings.HasSuffix(bf.path, ".bz2") {
		raw, err = io.ReadAll(bzip2.NewReader(bytes.NewReader(raw)))
		if err != nil {
			return nil, err
		}
	}
	if !bf.framed {
		return [][]byte{raw}, nil
	}
	var out [][]byte
	for len(raw) >= 8 {
		magic := uint32(raw[0]) | uint32(raw[1])<<8 | uint32(raw[2])<<16 | uint32(raw[3])<<24
		l := int(uint32(raw[4]) | uint32(raw[5])<<8 | uint32(raw[6])<<16 | uint32(raw[7])<<24)
		if magic != 0xd9b4bef9 || l > len(raw)-8 {
			break
		}
		out = append(out, raw[8:8+l])
		raw = raw[8+l:]
	}
	return out, nil
}

func compactTarget(bits uint32) *big.Int {
	mant := big.NewInt(int64(bits & 0x007fffff))
	exp := int(bits >> 24)
	if exp <= 3 {
		return mant.Rsh(mant, uint(8*(3-exp)))
	}
	return mant.Lsh(mant, uint(8*(exp-3)))
}

func hashAsInt(h [32]byte) *big.Int {
	var be [32]byte
	for i := range h {
		be[i] = h[31-i]
	}
	return new(big.Int).SetBytes(be[:])
}

func famCalibrateTx(k *mon.Case) {
	bf := blockFiles[k.Index]
	blocks, err := readBlockFile(bf)
	if err != nil || len(blocks) == 0 {
		k.Failf("calibration:reftx:data", "cannot read %s: %v (%d blocks)", bf.path, err, len(blocks))
		return
	}
	var prev *reftx.Block
	for i, raw := range blocks {
		bl, used, err := reftx.ParseBlock(raw, true)
		if err != nil || used != len(raw) {
			k.Failf("calibration:reftx:parse", "%s block %d: reference parser err=%v used %d of %d", bf.path, i, err, used, len(raw))
			return
		}
		if !bytes.Equal(bl.Bytes(true), raw) {
			k.Failf("calibration:reftx:reserialize", "%s block %d: reference re-serialization differs: %s", bf.path, i, diffAt(bl.Bytes(true), raw))
			return
		}
		if bl.MerkleRoot() != bl.Header.Merkle {
			k.Failf("calibration:reftx:txid", "%s block %d: merkle root over reference txids differs from the header", bf.path, i)
			return
		}
		if hashAsInt(bl.Hash()).Cmp(compactTarget(bl.Header.Bits)) > 0 {
			k.Failf("calibration:reftx:blockhash", "%s block %d: reference block hash %s does not meet the header target", bf.path, i, h32(bl.Hash()))
			return
		}
		if !bf.framed {
			name := filepath.Base(bf.path)
			if !strings.Contains(name, h32(bl.Hash())) {
				k.Failf("calibration:reftx:blockhash", "%s: reference hash %s is not the hash in the file name", bf.path, h32(bl.Hash()))
				return
			}
		}
		if prev != nil && bf.path != "blockchain/testdata/277647.dat.bz2" && bl.Header.Prev != prev.Hash() {
			k.Failf("calibration:reftx:blockhash", "%s block %d: prev-hash is not the reference hash of the previous block", bf.path, i)
			return
		}
		prev = bl
		// BIP141 commitment
		if len(bl.Txs) > 0 && len(bl.Txs[0].In) == 1 && len(bl.Txs[0].In[0].Witness) == 1 && len(bl.Txs[0].In[0].Witness[0]) == 32 {
			var commit []byte
			for _, o := range bl.Txs[0].Out {
				if len(o.Script) >= 38 && bytes.Equal(o.Script[:6], []byte{0x6a, 0x24, 0xaa, 0x21, 0xa9, 0xed}) {
					commit = o.Script[6:38]
				}
			}
			if commit != nil {
				wr := bl.WitnessMerkleRoot()
				want := reftx.DoubleSHA256(append(append([]byte{}, wr[:]...), bl.Txs[0].In[0].Witness[0]...))
				if !bytes.Equal(want[:], commit) {
					k.Failf("calibration:reftx:wtxid", "%s block %d: witness commitment over reference wtxids differs from the coinbase commitment", bf.path, i)
					return
				}
				k.Count("calibrate.witness_commitments", 1)
				if bl.Weight() > 4000000 {
					k.Failf("calibration:reftx:weight", "%s: reference weight %d of a mined block exceeds 4,000,000", bf.path, bl.Weight())
				}
			}
		}
		// the reference message encoder must agree with the reference serializer on real data
		if e, err := refwire.Encode(reftx.ToMsgBlock(bl), wire.ProtocolVersion, true); err != nil || !bytes.Equal(e.Bytes, raw) {
			k.Failf("calibration:refwire:block", "%s block %d: reference block message layout differs from the mined bytes (%v)", bf.path, i, err)
			return
		}
		// every transaction on its own
		for j, t := range bl.Txs {
			tb := t.Bytes(true)
			pt, u, err := reftx.ParseTx(tb, true)
			if err != nil || u != len(tb) || pt.TxID() != t.TxID() || pt.WTxID() != t.WTxID() || t.Weight() != 3*t.BaseSize()+t.TotalSize() {
				k.Failf("calibration:reftx:tx", "%s block %d tx %d does not round trip through the reference", bf.path, i, j)
				return
			}
			if !t.HasWitness() && t.TxID() != t.WTxID() {
				k.Failf("calibration:reftx:tx", "wtxid != txid for a transaction without witness")
			}
			k.Count("calibrate.txs", 1)
		}
		k.Count("calibrate.blocks", 1)
	}
	k.Eval(mon.Sig("calibrate.reftx", bf.path), true)
}

func mustHex(s string) []byte {
	b, err := hex.DecodeString(strings.Join(strings.Fields(s), ""))
	if err != nil {
		panic(err)
	}
	return b
}

func hashFromHex(s string) chainhash.Hash {
	var h chainhash.Hash
	copy(h[:], mustHex(s))
	return h
}

type msgVector struct {
	name  string
	msg   wire.Message
	pver  uint32
	want  []byte // payload
	frame []byte // optional: full v1 frame (main net)
}

func calibrationVectors() []msgVector {
	btcdVersion := func(pv int32) *wire.MsgVersion {
		return &wire.MsgVersion{ProtocolVersion: pv, Services: 1, Timestamp: time.Unix(0x495fab29, 0),
			AddrYou: wire.NetAddress{Services: 1, IP: net.ParseIP("192.168.0.1"), Port: 8333},
			AddrMe:  wire.NetAddress{Services: 1, IP: net.ParseIP("127.0.0.1"), Port: 8333},
			Nonce:   123123, UserAgent: "/btcdtest:0.0.1/", LastBlock: 234234}
	}
	verPayload := `62ea0000 0100000000000000 29ab5f4900000000
		0100000000000000 00000000000000000000ffffc0a80001 208d
		0100000000000000 00000000000000000000ffff7f000001 208d
		f3e0010000000000 10 2f627463647465 73743a302e302e312f fa920300`
	hdr1 := wire.BlockHeader{Version: 1,
		PrevBlock:  hashFromHex("6fe28c0ab6f1b372c1a6a246ae63f74f931e8365e15a089c68d6190000000000"),
		MerkleRoot: hashFromHex("982051fd1e4ba744bbbe680e1fee14677ba1a3c3540bf7b1cdb606e857233e0e"),
		Timestamp:  time.Unix(0x4966bc61, 0), Bits: 0x1d00ffff, Nonce: 0x9962e301}
	mh := hashFromHex("982051fd1e4ba744bbbe680e1fee14677ba1a3c3540bf7b1cdb606e857233e0e")
	hdr1Hex := `01000000 6fe28c0ab6f1b372c1a6a246ae63f74f931e8365e15a089c68d6190000000000
		982051fd1e4ba744bbbe680e1fee14677ba1a3c3540bf7b1cdb606e857233e0e 61bc6649 ffff001d 01e36299`
	return []msgVector{
		// wire/msgversion_test.go baseVersion / baseVersionBIP0037
		{name: "version@60002", msg: btcdVersion(60002), pver: 60002, want: mustHex(verPayload)},
		{name: "version@70001", msg: func() wire.Message { v := btcdVersion(70001); return v }(), pver: 70001,
			want: append(mustHex(strings.Replace(verPayload, "62ea0000", "71110100", 1)), 0x01)},
		// protocol documentation: addr example (one address with timestamp), full frame
		{name: "addr@31402", msg: &wire.MsgAddr{AddrList: []*wire.NetAddress{{Timestamp: time.Unix(0x4d1015e2, 0), Services: 1,
			IP: net.ParseIP("10.0.0.1"), Port: 8333}}}, pver: 31402,
			want:  mustHex("01 e215104d 0100000000000000 00000000000000000000ffff0a000001 208d"),
			frame: mustHex("f9beb4d9 616464720000000000000000 1f000000 ed52399b 01 e215104d 0100000000000000 00000000000000000000ffff0a000001 208d")},
		// protocol documentation: verack frame
		{name: "verack", msg: &wire.MsgVerAck{}, pver: 60002, want: []byte{},
			frame: mustHex("f9beb4d9 76657261636b000000000000 00000000 5df6e0e2")},
		// wire/msgmerkleblock_test.go merkleBlockOne
		{name: "merkleblock", msg: &wire.MsgMerkleBlock{Header: hdr1, Transactions: 1, Hashes: []*chainhash.Hash{&mh}, Flags: []byte{0x80}},
			pver: 70001, want: mustHex(hdr1Hex + "01000000 01 982051fd1e4ba744bbbe680e1fee14677ba1a3c3540bf7b1cdb606e857233e0e 01 80")},
		// headers: one header followed by a zero tx count (protocol documentation layout)
		{name: "headers", msg: &wire.MsgHeaders{Headers: []*wire.BlockHeader{&hdr1}}, pver: 70001, want: mustHex("01" + hdr1Hex + "00")},
		// getheaders / getblocks: version, count, locator hashes, stop hash
		{name: "getheaders", msg: &wire.MsgGetHeaders{ProtocolVersion: 70001, BlockLocatorHashes: []*chainhash.Hash{&mh}}, pver: 70001,
			want: mustHex("71110100 01 982051fd1e4ba744bbbe680e1fee14677ba1a3c3540bf7b1cdb606e857233e0e 0000000000000000000000000000000000000000000000000000000000000000")},
		// inv with one MSG_TX entry
		{name: "inv", msg: &wire.MsgInv{InvList: []*wire.InvVect{{Type: 1, Hash: mh}}}, pver: 70001,
			want: mustHex("01 01000000 982051fd1e4ba744bbbe680e1fee14677ba1a3c3540bf7b1cdb606e857233e0e")},
		// ping: 8-byte nonce after BIP31, empty before
		{name: "ping@60001", msg: &wire.MsgPing{Nonce: 0x0102030405060708}, pver: 60001, want: mustHex("0807060504030201")},
		{name: "ping@60000", msg: &wire.MsgPing{}, pver: 60000, want: []byte{}},
		// BIP133 feefilter: int64 little endian (BIP example 48,508 sat/kB = 0x7cbd)
		{name: "feefilter", msg: &wire.MsgFeeFilter{MinFee: 48508}, pver: 70013, want: mustHex("7cbd000000000000")},
		// BIP37 filterload example from the developer reference: 02 b50f 0b000000 00000000 00
		{name: "filterload", msg: &wire.MsgFilterLoad{Filter: []byte{0xb5, 0x0f}, HashFuncs: 11, Tweak: 0, Flags: 0}, pver: 70001,
			want: mustHex("02 b50f 0b000000 00000000 00")},
		// BIP155 addrv2: time, CompactSize services, network id, CompactSize length, address, port BE
		{name: "addrv2", msg: &wire.MsgAddrV2{AddrList: []*wire.NetAddressV2{
			wire.NetAddressV2FromBytes(time.Unix(0x4d1015e2, 0), 0x0409, []byte{1, 2, 3, 4}, 8333)}}, pver: 70016,
			want: mustHex("01 e215104d fd0904 01 04 01020304 208d")},
		// BIP61 reject for a tx carries the 32-byte hash
		{name: "reject", msg: &wire.MsgReject{Cmd: "tx", Code: 0x12, Reason: "dup", Hash: mh}, pver: 70002,
			want: mustHex("02 7478 12 03 647570 982051fd1e4ba744bbbe680e1fee14677ba1a3c3540bf7b1cdb606e857233e0e")},
	}
}

func famCalibrateWire(k *mon.Case) {
	vs := calibrationVectors()
	v := vs[k.Index]
	e, err := refwire.Encode(v.msg, v.pver, true)
	if err != nil || !bytes.Equal(e.Bytes, v.want) {
		k.Failf("calibration:refwire:"+v.name, "reference layout of %s differs from the published bytes (err %v): %s", v.name, err, diffAt(refBytes(e), v.want))
		return
	}
	if v.frame != nil {
		cmd, _ := refwire.Command(v.msg)
		if f := refwire.Frame(0xd9b4bef9, cmd, e.Bytes); !bytes.Equal(f, v.frame) {
			k.Failf("calibration:refwire:frame:"+v.name, "reference frame differs from the published frame: %s", diffAt(f, v.frame))
			return
		}
	}
	// the recorded CompactSize positions must point at CompactSize encodings of the recorded values
	for _, f := range e.VarInts {
		val, n, err := reftx.ReadVarInt(e.Bytes[f.Off:])
		if err != nil || n != f.Len || val != f.Val {
			k.Failf("calibration:refwire:fields", "%s: recorded CompactSize field %+v does not match the bytes", v.name, f)
		}
	}
	k.Count("calibrate.vectors", 1)
	k.Eval(mon.Sig("calibrate.refwire", v.name), true)
}

var _ = fmt.Sprint
