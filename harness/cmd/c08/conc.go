package main

import (
	"bytes"
	"fmt"
	"runtime"
	"sync"

	"verif/mon"

	"github.com/btcsuite/btcd/wire/v2"
)

// famConcurrentDecode: eight goroutines decode their own transaction (or block) over and over through the entry points
// a node uses concurrently (MsgTx.Deserialize / BtcDecode, MsgBlock.Deserialize, ReadMessage) while the others do the
// same with different bytes. Every decoded value must re-encode to exactly the bytes it was decoded from and keep its
// identifiers. The rest of this worker runs with GOMAXPROCS=1 (allocation accounting); this family raises it for its
// own duration.
func famConcurrentDecode(k *mon.Case) {
	r := k.Rand
	old := runtime.GOMAXPROCS(8)
	defer runtime.GOMAXPROCS(old)
	const workers = 8
	type item struct {
		raw   []byte
		block bool
		txid  string
	}
	items := make([]item, workers)
	var desc []string
	for i := range items {
		if r.Chance(1, 4) {
			bl := randBlock(r, txShape{witness: 1, sz: pickSize(r)}, 1+r.Intn(4))
			items[i] = item{raw: bl.Bytes(true), block: true}
		} else {
			t := randTx(r, txShape{witness: 1, sz: pickSize(r)})
			raw := t.Bytes(true)
			var m wire.MsgTx
			if err := m.Deserialize(bytes.NewReader(raw)); err != nil {
				// not decodable on its own (e.g. no inputs): use a fixed small one instead
				t = randTx(r, txShape{witness: 1})
				raw = t.Bytes(true)
				if err := m.Deserialize(bytes.NewReader(raw)); err != nil {
					continue
				}
			}
			items[i] = item{raw: raw, txid: m.TxHash().String() + "/" + m.WitnessHash().String()}
		}
		desc = append(desc, hexN(items[i].raw, 400))
	}
	k.Desc(map[string]any{"inputs": desc})
	rounds := 40 + r.Intn(60)
	var mu sync.Mutex
	var fails []string
	var wg sync.WaitGroup
	for w := range items {
		if items[w].raw == nil {
			continue
		}
		wg.Add(1)
		go func(it item, w int) {
			defer wg.Done()
			defer func() {
				if rec := recover(); rec != nil {
					mu.Lock()
					fails = append(fails, fmt.Sprintf("worker %d panicked: %v", w, rec))
					mu.Unlock()
				}
			}()
			for i := 0; i < rounds; i++ {
				var out bytes.Buffer
				var ids string
				if it.block {
					var b wire.MsgBlock
					if err := b.Deserialize(bytes.NewReader(it.raw)); err != nil {
						mu.Lock()
						fails = append(fails, fmt.Sprintf("worker %d round %d: block decode error %v", w, i, err))
						mu.Unlock()
						return
					}
					b.Serialize(&out)
				} else {
					var m wire.MsgTx
					var err error
					if i%2 == 0 {
						err = m.Deserialize(bytes.NewReader(it.raw))
					} else {
						err = m.BtcDecode(bytes.NewReader(it.raw), wire.ProtocolVersion, wire.WitnessEncoding)
					}
					if err != nil {
						mu.Lock()
						fails = append(fails, fmt.Sprintf("worker %d round %d: tx decode error %v", w, i, err))
						mu.Unlock()
						return
					}
					runtime.Gosched()
					m.Serialize(&out)
					ids = m.TxHash().String() + "/" + m.WitnessHash().String()
				}
				if !bytes.Equal(out.Bytes(), it.raw) || ids != it.txid {
					mu.Lock()
					fails = append(fails, fmt.Sprintf("worker %d round %d: decoded value re-encodes to %s (ids %s), input was %s (ids %s)", w, i, hexN(out.Bytes(), 300), ids, hexN(it.raw, 300), it.txid))
					mu.Unlock()
					return
				}
			}
		}(items[w], w)
	}
	wg.Wait()
	if len(fails) > 0 {
		k.Failf("conc:decode-result-depends-on-concurrent-decoders", "%d of %d workers: %s", len(fails), workers, fails[0])
	}
	k.Count("conc.decodes", int64(rounds*workers))
	k.Eval(mon.Sig("conc.decode", k.Index), true)
}
