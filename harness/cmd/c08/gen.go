package main

import (
	"net"
	"time"

	"verif/mon"
	"verif/ref/reftx"
	"verif/ref/refwire"

	"github.com/btcsuite/btcd/chainhash/v2"
	"github.com/btcsuite/btcd/wire/v2"
)

// Protocol versions exercised: every breakpoint b of the protocol as b-1, b, b+1 (where distinct),
// plus 0 (the "disk" serialization version used by Serialize/Deserialize).
var pvers = []uint32{0, 1, 208, 209, 210, 31401, 31402, 31403, 59999, 60000, 60001, 60002, 60003, 70000, 70001, 70002,
	70003, 70010, 70011, 70012, 70013, 70014, 70015, 70016, 70017}

// live protocol versions (>= the minimum btcd peers accept, 209) used for hostile input.
var livePvers = []uint32{209, 31401, 31402, 60000, 60001, 60002, 70001, 70002, 70011, 70012, 70013, 70015, 70016}

var nets = []wire.BitcoinNet{wire.MainNet, wire.TestNet, wire.TestNet3, wire.TestNet4, wire.SigNet, wire.SimNet}

// every message command of the protocol known to btcd's wire package
var allCmds = []string{"version", "verack", "getaddr", "addr", "addrv2", "getblocks", "inv", "getdata", "notfound",
	"block", "tx", "getheaders", "headers", "ping", "pong", "mempool", "filteradd", "filterclear", "filterload",
	"merkleblock", "reject", "sendheaders", "feefilter", "getcfilters", "getcfheaders", "getcfcheckpt", "cfilter",
	"cfheaders", "cfcheckpt", "sendaddrv2", "wtxidrelay"}

func newMsg(cmd string) wire.Message {
	switch cmd {
	case "version":
		return &wire.MsgVersion{}
	case "verack":
		return &wire.MsgVerAck{}
	case "getaddr":
		return &wire.MsgGetAddr{}
	case "addr":
		return &wire.MsgAddr{}
	case "addrv2":
		return &wire.MsgAddrV2{}
	case "getblocks":
		return &wire.MsgGetBlocks{}
	case "inv":
		return &wire.MsgInv{}
	case "getdata":
		return &wire.MsgGetData{}
	case "notfound":
		return &wire.MsgNotFound{}
	case "block":
		return &wire.MsgBlock{}
	case "tx":
		return &wire.MsgTx{}
	case "getheaders":
		return &wire.MsgGetHeaders{}
	case "headers":
		return &wire.MsgHeaders{}
	case "ping":
		return &wire.MsgPing{}
	case "pong":
		return &wire.MsgPong{}
	case "mempool":
		return &wire.MsgMemPool{}
	case "filteradd":
		return &wire.MsgFilterAdd{}
	case "filterclear":
		return &wire.MsgFilterClear{}
	case "filterload":
		return &wire.MsgFilterLoad{}
	case "merkleblock":
		return &wire.MsgMerkleBlock{}
	case "reject":
		return &wire.MsgReject{}
	case "sendheaders":
		return &wire.MsgSendHeaders{}
	case "feefilter":
		return &wire.MsgFeeFilter{}
	case "getcfilters":
		return &wire.MsgGetCFilters{}
	case "getcfheaders":
		return &wire.MsgGetCFHeaders{}
	case "getcfcheckpt":
		return &wire.MsgGetCFCheckpt{}
	case "cfilter":
		return &wire.MsgCFilter{}
	case "cfheaders":
		return &wire.MsgCFHeaders{}
	case "cfcheckpt":
		return &wire.MsgCFCheckpt{}
	case "sendaddrv2":
		return &wire.MsgSendAddrV2{}
	case "wtxidrelay":
		return &wire.MsgWTxIdRelay{}
	}
	return nil
}

// size classes of a generated value
const (
	szSmall = iota // a handful of elements
	szEdge         // CompactSize boundaries 252/253/254 and friends
	szMax          // the per-message maximum (or maximum-1)
	szTiny         // only used for scripts of transactions with tens of thousands of inputs / outputs
)

func pickSize(r *mon.Rand) int {
	switch r.Intn(40) {
	case 0:
		return szMax
	case 1, 2, 3, 4:
		return szEdge
	}
	return szSmall
}

// count picks an element count in [0,max] according to the size class.
func count(r *mon.Rand, max int, sz int) int {
	n := 0
	switch sz {
	case szMax:
		n = max - r.Intn(2)
	case szEdge:
		n = []int{0, 1, 252, 253, 254, 255, 256, 300}[r.Intn(8)]
	default:
		n = r.Intn(6)
	}
	if n > max {
		n = max
	}
	if n < 0 {
		n = 0
	}
	return n
}

func randHash(r *mon.Rand) chainhash.Hash {
	var h chainhash.Hash
	switch r.Intn(8) {
	case 0: // zero hash
	case 1:
		for i := range h {
			h[i] = 0xff
		}
	default:
		r.Fill(h[:])
	}
	return h
}

func edgeU32(r *mon.Rand) uint32 {
	switch r.Intn(8) {
	case 0:
		return 0
	case 1:
		return 0xffffffff
	case 2:
		return 0x80000000
	case 3:
		return 0x7fffffff
	case 4:
		return uint32(r.Intn(256))
	}
	return r.Uint32()
}

func edgeI64(r *mon.Rand) int64 { return int64(r.EdgeU64()) }

func edgeBytes(r *mon.Rand, max int, sz int) []byte {
	n := 0
	switch sz {
	case szMax:
		n = max - r.Intn(2)
	case szEdge:
		n = []int{0, 1, 75, 76, 252, 253, 254, 255, 256, 520, 521}[r.Intn(11)]
	default:
		n = r.Intn(40)
	}
	if n > max {
		n = max
	}
	if n < 0 {
		n = 0
	}
	b := r.Bytes(n)
	if n > 0 && r.Chance(1, 6) {
		// bytes that look like CompactSize discriminants / segwit markers
		b[0] = []byte{0x00, 0x01, 0xfd, 0xfe, 0xff}[r.Intn(5)]
	}
	return b
}

// u32Time is a timestamp representable in a 4-byte field.
func u32Time(r *mon.Rand) time.Time { return time.Unix(int64(edgeU32(r)), 0) }

func randIP(r *mon.Rand) net.IP {
	switch r.Intn(6) {
	case 0:
		return nil
	case 1:
		return net.IP(r.Bytes(4))
	case 2:
		return net.IPv4(byte(r.Intn(256)), byte(r.Intn(256)), byte(r.Intn(256)), byte(r.Intn(256)))
	case 3: // onioncat
		return net.IP(append([]byte{0xfd, 0x87, 0xd8, 0x7e, 0xeb, 0x43}, r.Bytes(10)...))
	}
	return net.IP(r.Bytes(16))
}

func randNetAddr(r *mon.Rand, withTime bool) *wire.NetAddress {
	na := &wire.NetAddress{Services: wire.ServiceFlag(r.EdgeU64()), IP: randIP(r), Port: uint16(r.Intn(65536))}
	if withTime {
		na.Timestamp = u32Time(r)
	}
	return na
}

// addrV2Spec is the generator-side description of one BIP155 entry (so that the expected
// bytes are known without looking inside wire.NetAddressV2).
type addrV2Spec struct {
	ID   byte
	Addr []byte
}

func randAddrV2(r *mon.Rand) (*wire.NetAddressV2, addrV2Spec) {
	var sp addrV2Spec
	switch r.Intn(4) {
	case 0:
		sp = addrV2Spec{1, r.Bytes(4)}
	case 1:
		a := r.Bytes(16)
		// keep it a plain IPv6 address: BIP155 forbids IPv4-mapped and OnionCat addresses under id 2
		if a[0] == 0xfd && a[1] == 0x87 {
			a[1] = 0x88
		}
		allzero := true
		for _, c := range a[:10] {
			if c != 0 {
				allzero = false
			}
		}
		if allzero && a[10] == 0xff && a[11] == 0xff {
			a[0] = 0x20
		}
		if r.Chance(1, 8) {
			a = make([]byte, 16) // ::
			a[15] = byte(r.Intn(3))
		}
		sp = addrV2Spec{2, a}
	case 2:
		sp = addrV2Spec{3, r.Bytes(10)}
	default:
		sp = addrV2Spec{4, r.Bytes(32)}
	}
	na := wire.NetAddressV2FromBytes(u32Time(r), wire.ServiceFlag(r.EdgeU64()), sp.Addr, uint16(r.Intn(65536)))
	return na, sp
}

func randHeader(r *mon.Rand) wire.BlockHeader {
	return wire.BlockHeader{Version: int32(edgeU32(r)), PrevBlock: randHash(r), MerkleRoot: randHash(r),
		Timestamp: u32Time(r), Bits: edgeU32(r), Nonce: edgeU32(r)}
}

func randInvList(r *mon.Rand, sz int) []*wire.InvVect {
	n := count(r, refwire.MaxInv, sz)
	l := make([]*wire.InvVect, n)
	types := []wire.InvType{0, 1, 2, 3, wire.InvTypeWitnessBlock, wire.InvTypeWitnessTx, wire.InvTypeFilteredWitnessBlock, 4, 5}
	for i := range l {
		t := types[r.Intn(len(types))]
		if r.Chance(1, 10) {
			t = wire.InvType(r.Uint32())
		}
		l[i] = &wire.InvVect{Type: t, Hash: randHash(r)}
	}
	return l
}

func randHashPtrs(r *mon.Rand, n int) []*chainhash.Hash {
	l := make([]*chainhash.Hash, n)
	for i := range l {
		h := randHash(r)
		l[i] = &h
	}
	return l
}

// txShape steers the transaction generator.
type txShape struct {
	allowNoInputs bool // zero inputs (only meaningful for the original format)
	witness       int  // 0 never, 1 maybe, 2 always
	sz            int
	heavy         bool // allow the multi-megabyte boundary shapes
}

func randTx(r *mon.Rand, sh txShape) *reftx.Tx {
	t := &reftx.Tx{Version: int32(edgeU32(r)), LockTime: edgeU32(r)}
	if r.Chance(1, 2) {
		t.Version = int32(1 + r.Intn(2))
	}
	nin := 1 + r.Intn(3)
	nout := r.Intn(4)
	scriptSz := szSmall
	switch sh.sz {
	case szEdge:
		switch r.Intn(4) {
		case 0:
			nin = []int{252, 253, 254}[r.Intn(3)]
		case 1:
			nout = []int{252, 253, 254}[r.Intn(3)]
		default:
			scriptSz = szEdge
		}
	case szMax:
		scriptSz = szEdge
		if sh.heavy && r.Chance(1, 25) {
			// the CompactSize 0xfd/0xfe boundary of the element counts; scripts are kept tiny and the
			// witness empty so that the transaction stays below the 4,000,000-byte message limit
			scriptSz = szTiny
			sh.witness = 0
			if r.Bool() {
				nin = 0x10000 + r.Intn(3) - 1
			} else {
				nout = 0x10000 + r.Intn(3) - 1
			}
		}
	}
	if sh.allowNoInputs && r.Chance(1, 6) {
		nin = 0
	}
	wit := sh.witness == 2 || (sh.witness == 1 && r.Chance(1, 2))
	for i := 0; i < nin; i++ {
		in := reftx.TxIn{Sequence: edgeU32(r)}
		in.Prev.Hash = randHash(r)
		in.Prev.Index = edgeU32(r)
		in.Script = scriptBytes(r, scriptSz, nin)
		if wit && (r.Chance(2, 3) || (sh.witness == 2 && i == nin-1 && !hasWit(t))) {
			ni := 1 + r.Intn(3)
			if scriptSz == szEdge && nin < 8 && r.Chance(1, 6) {
				ni = []int{252, 253, 254}[r.Intn(3)]
			}
			for j := 0; j < ni; j++ {
				isz := scriptSz
				if ni > 8 {
					isz = szSmall
				}
				in.Witness = append(in.Witness, scriptBytes(r, isz, nin*ni))
			}
		}
		t.In = append(t.In, in)
	}
	for i := 0; i < nout; i++ {
		t.Out = append(t.Out, reftx.TxOut{Value: edgeI64(r), Script: scriptBytes(r, scriptSz, nout)})
	}
	return t
}

func hasWit(t *reftx.Tx) bool { return t.HasWitness() }

// scriptBytes picks script / witness item contents; population is the number of sibling
// scripts, used to keep the total size of edge-shaped transactions reasonable.
func scriptBytes(r *mon.Rand, sz int, population int) []byte {
	if sz == szTiny {
		return r.Bytes(r.Intn(9))
	}
	if sz == szEdge && population <= 16 {
		n := []int{0, 1, 75, 252, 253, 254, 520, 0xffff, 0x10000, 0x10001, 10000}[r.Intn(11)]
		b := r.Bytes(n)
		return b
	}
	n := r.Intn(48)
	if r.Chance(1, 8) {
		n = 0
	}
	b := r.Bytes(n)
	if n > 0 && r.Chance(1, 8) {
		b[0] = []byte{0x00, 0x01, 0xfd, 0xfe, 0xff}[r.Intn(5)]
	}
	return b
}

func randBlock(r *mon.Rand, sh txShape, ntx int) *reftx.Block {
	h := randHeader(r)
	b := &reftx.Block{Header: reftx.FromHeader(&h)}
	for i := 0; i < ntx; i++ {
		s := sh
		if ntx > 8 {
			s.sz = szSmall
		}
		b.Txs = append(b.Txs, randTx(r, s))
	}
	return b
}

// genSpec carries what the generator knows about the value beyond the wire struct.
type genSpec struct {
	addrV2 []addrV2Spec
}

// genMsg generates a value of the message type that is inside the protocol domain at pver:
// fields that do not exist on the wire at pver are left at their zero value (so that a decoded
// value can be compared for equality), counts are within the per-message limits.
// witnessOK says whether transactions may carry witness data (they would not survive a
// round trip through the original transaction format otherwise).
func genMsg(r *mon.Rand, cmd string, pver uint32, witnessOK bool, sz int, heavy bool) (wire.Message, *genSpec) {
	sp := &genSpec{}
	switch cmd {
	case "version":
		m := &wire.MsgVersion{ProtocolVersion: int32(edgeU32(r)), Services: wire.ServiceFlag(r.EdgeU64()),
			Timestamp: time.Unix(edgeI64(r), 0), AddrYou: *randNetAddr(r, false), AddrMe: *randNetAddr(r, false),
			Nonce: r.EdgeU64(), LastBlock: int32(edgeU32(r))}
		if r.Chance(1, 2) {
			m.ProtocolVersion = int32(pver)
			m.Timestamp = time.Unix(1700000000+int64(r.Intn(1<<20)), 0)
		}
		ua := edgeBytes(r, refwire.MaxUserAgent, sz)
		if r.Chance(1, 2) {
			ua = []byte("/btcwire:0.5.0/verif:" + string(rune('a'+r.Intn(26))) + "/")
		}
		m.UserAgent = string(ua)
		if pver >= refwire.VerBIP37 {
			m.DisableRelayTx = r.Bool()
		}
		return m, sp
	case "verack", "getaddr", "mempool", "filterclear", "sendheaders", "sendaddrv2", "wtxidrelay":
		return newMsg(cmd), sp
	case "addr":
		max := refwire.MaxAddr
		if pver < refwire.VerMultipleAddress {
			max = 1
		}
		m := &wire.MsgAddr{}
		for i := count(r, max, sz); i > 0; i-- {
			m.AddrList = append(m.AddrList, randNetAddr(r, pver >= refwire.VerAddrTime))
		}
		return m, sp
	case "addrv2":
		m := &wire.MsgAddrV2{}
		for i := count(r, refwire.MaxAddr, sz); i > 0; i-- {
			na, s := randAddrV2(r)
			m.AddrList = append(m.AddrList, na)
			sp.addrV2 = append(sp.addrV2, s)
		}
		return m, sp
	case "getblocks":
		return &wire.MsgGetBlocks{ProtocolVersion: edgeU32(r), HashStop: randHash(r),
			BlockLocatorHashes: randHashPtrs(r, count(r, refwire.MaxLocator, sz))}, sp
	case "getheaders":
		return &wire.MsgGetHeaders{ProtocolVersion: edgeU32(r), HashStop: randHash(r),
			BlockLocatorHashes: randHashPtrs(r, count(r, refwire.MaxLocator, sz))}, sp
	case "inv":
		return &wire.MsgInv{InvList: randInvList(r, sz)}, sp
	case "getdata":
		return &wire.MsgGetData{InvList: randInvList(r, sz)}, sp
	case "notfound":
		return &wire.MsgNotFound{InvList: randInvList(r, sz)}, sp
	case "tx":
		w := 1
		if !witnessOK {
			w = 0
		}
		return reftx.ToMsgTx(randTx(r, txShape{witness: w, sz: sz, heavy: heavy, allowNoInputs: !witnessOK})), sp
	case "block":
		w := 1
		if !witnessOK {
			w = 0
		}
		ntx := r.Intn(5)
		if sz == szEdge && r.Chance(1, 3) {
			ntx = []int{252, 253, 254}[r.Intn(3)]
		}
		return reftx.ToMsgBlock(randBlock(r, txShape{witness: w, sz: sz, allowNoInputs: !witnessOK}, ntx)), sp
	case "headers":
		m := &wire.MsgHeaders{}
		for i := count(r, refwire.MaxHeaders, sz); i > 0; i-- {
			h := randHeader(r)
			m.Headers = append(m.Headers, &h)
		}
		return m, sp
	case "ping":
		m := &wire.MsgPing{}
		if pver > refwire.VerBIP31 {
			m.Nonce = r.EdgeU64()
		}
		return m, sp
	case "pong":
		return &wire.MsgPong{Nonce: r.EdgeU64()}, sp
	case "filteradd":
		return &wire.MsgFilterAdd{Data: edgeBytes(r, refwire.MaxFilterAdd, sz)}, sp
	case "filterload":
		return &wire.MsgFilterLoad{Filter: edgeBytes(r, refwire.MaxFilterLoad, sz), HashFuncs: uint32(r.Intn(refwire.MaxFilterHashFns + 1)),
			Tweak: edgeU32(r), Flags: wire.BloomUpdateType(r.Intn(256))}, sp
	case "merkleblock":
		m := &wire.MsgMerkleBlock{Header: randHeader(r), Transactions: edgeU32(r)}
		// a merkleblock is bounded by the 4,000,000-byte payload limit: at most ~124k hashes
		maxH := 1000
		if sz == szMax && heavy {
			maxH = 120000
		}
		m.Hashes = randHashPtrs(r, count(r, maxH, sz))
		m.Flags = edgeBytes(r, 50000, sz)
		return m, sp
	case "reject":
		m := &wire.MsgReject{Code: wire.RejectCode(r.Intn(256)), Hash: chainhash.Hash{}}
		m.Cmd = []string{"tx", "block", "version", "", "txx", "bloc", "Block", string(edgeBytes(r, 300, sz))}[r.Intn(8)]
		m.Reason = string(edgeBytes(r, 600, sz))
		if m.Cmd == "tx" || m.Cmd == "block" {
			m.Hash = randHash(r)
		}
		return m, sp
	case "feefilter":
		return &wire.MsgFeeFilter{MinFee: edgeI64(r)}, sp
	case "getcfilters":
		return &wire.MsgGetCFilters{FilterType: wire.FilterType(r.Intn(256)), StartHeight: edgeU32(r), StopHash: randHash(r)}, sp
	case "getcfheaders":
		return &wire.MsgGetCFHeaders{FilterType: wire.FilterType(r.Intn(256)), StartHeight: edgeU32(r), StopHash: randHash(r)}, sp
	case "getcfcheckpt":
		return &wire.MsgGetCFCheckpt{FilterType: wire.FilterType(r.Intn(256)), StopHash: randHash(r)}, sp
	case "cfilter":
		return &wire.MsgCFilter{FilterType: wire.FilterType(r.Intn(256)), BlockHash: randHash(r),
			Data: edgeBytes(r, refwire.MaxCFilterData, sz)}, sp
	case "cfheaders":
		return &wire.MsgCFHeaders{FilterType: wire.FilterType(r.Intn(256)), StopHash: randHash(r), PrevFilterHeader: randHash(r),
			FilterHashes: randHashPtrs(r, count(r, refwire.MaxCFHeaders, sz))}, sp
	case "cfcheckpt":
		return &wire.MsgCFCheckpt{FilterType: wire.FilterType(r.Intn(256)), StopHash: randHash(r),
			FilterHeaders: randHashPtrs(r, count(r, refwire.MaxCFCheckpt, sz))}, sp
	}
	panic("genMsg: unknown command " + cmd)
}
