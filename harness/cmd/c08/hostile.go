package main

import (
	"bytes"
	"fmt"
	"runtime"

	"verif/mon"
	"verif/ref/reftx"
	"verif/ref/refwire"

	"github.com/btcsuite/btcd/btcutil/v2"
	"github.com/btcsuite/btcd/wire/v2"
)

// allocBound is the per-call allocation bound of the property: 8 x MaxMessagePayload (32 MiB).
const allocBound = 8 * 32 * 1024 * 1024

// guard runs one btcd call, measuring the bytes allocated by it (runtime.MemStats.TotalAlloc is
// cumulative and exact after ReadMemStats; the worker is single-goroutine). A panic inside f
// propagates to mon.RunCase, which records it keyed by the panicking btcd function.
func guard(k *mon.Case, what string, inputLen int, f func()) {
	var a, b runtime.MemStats
	runtime.ReadMemStats(&a)
	f()
	runtime.ReadMemStats(&b)
	d := b.TotalAlloc - a.TotalAlloc
	if d > allocBound {
		k.Failf("alloc:"+what, "%s allocated %d bytes (bound %d) for an input of %d bytes", what, d, allocBound, inputLen)
	}
	switch {
	case d > 64<<20:
		k.Count("alloc.gt64MiB", 1)
	case d > 8<<20:
		k.Count("alloc.gt8MiB", 1)
	case d > 1<<20:
		k.Count("alloc.gt1MiB", 1)
	}
	k.Count("hostile.calls", 1)
}

// tolerantDecoder lists the decoders that are tolerant by design: several byte strings decode to
// the same value, so only value-level idempotence decode(encode(decode(b))) == decode(b) can be
// demanded (each entry was found by running the strict check and triaged individually; see the
// worker's Rule / notes).
//
//	version : every field after AddrYou is optional (old peers sent shorter messages), the relay
//	          flag is read whenever a byte remains and any non-zero byte means true.
//	addrv2  : BIP155 requires entries with unknown / unsupported network ids (and id-2 entries
//	          holding IPv4-mapped or OnionCat addresses) to be skipped, so the count shrinks.
func tolerantDecoder(cmd string) bool { return cmd == "version" || cmd == "addrv2" }

// checkAccepted is the byte-driven monitor: btcd accepted b (exactly the consumed bytes) as msg.
func checkAccepted(k *mon.Case, via, cmd string, msg wire.Message, b []byte, pver uint32, enc wire.MessageEncoding) {
	wit := enc == wire.WitnessEncoding
	k.Count("accepted."+cmd, 1)
	re, eerr := btcdEncode(msg, pver, enc)
	ref, rerr := refwire.Encode(msg, pver, wit)
	if rerr == refwire.ErrNotAtVersion {
		k.Count("accepted.notatversion", 1)
		return
	}
	if !tolerantDecoder(cmd) {
		if eerr != nil {
			k.Failf("accepted-not-reencodable:"+cmd, "%s accepted %d bytes (pver %d, %s) but the value cannot be encoded again: %v\ninput %s",
				via, len(b), pver, encName(enc), eerr, hexN(b, 300))
			return
		}
		if !bytes.Equal(re, b) {
			k.Failf("noncanonical-accepted:"+cmd, "%s accepted bytes that re-encode differently (pver %d, %s): %s\ninput %s",
				via, pver, encName(enc), diffAt(re, b), hexN(b, 300))
			return
		}
		if rerr != nil || !bytes.Equal(ref.Bytes, b) {
			k.Failf("decode-misread:"+cmd, "%s: reference layout of the decoded value differs from the accepted bytes (err %v): %s\ninput %s",
				via, rerr, diffAt(refBytes(ref), b), hexN(b, 300))
			return
		}
		k.Count("identity.canonical", 1)
	} else {
		if eerr != nil || rerr != nil {
			k.Failf("accepted-not-reencodable:"+cmd, "%s accepted %d bytes but the value cannot be encoded again: %v / %v\ninput %s", via, len(b), eerr, rerr, hexN(b, 300))
			return
		}
		if !bytes.Equal(re, ref.Bytes) {
			k.Failf("layout-after-decode:"+cmd, "encode(decode(b)) differs from the reference layout of that value: %s", diffAt(re, ref.Bytes))
			return
		}
		v2, used, err := btcdDecode(cmd, re, pver, enc)
		if err != nil || used != len(re) {
			k.Failf("idempotence:"+cmd, "decode(encode(decode(b))) failed: err=%v consumed %d of %d\ninput %s", err, used, len(re), hexN(b, 300))
			return
		}
		if mv, ok := msg.(*wire.MsgVersion); ok && pver < refwire.VerBIP37 {
			// below 70001 the relay flag is not part of the layout; the decoder still reads a byte that
			// follows LastBlock. The comparison is made on the fields that exist at this version.
			cp := *mv
			cp.DisableRelayTx = false
			msg = &cp
		}
		if a, c := dump(v2), dump(msg); a != c {
			k.Failf("idempotence:"+cmd, "decode(encode(decode(b))) != decode(b): %s\ninput %s", firstDiff(a, c), hexN(b, 300))
			return
		}
		re2, err := btcdEncode(v2, pver, enc)
		if err != nil || !bytes.Equal(re2, re) {
			k.Failf("idempotence:"+cmd, "encode is not a fixpoint after one round: %s", diffAt(re2, re))
			return
		}
		// where the tolerant form was not used the identity is still demanded
		strict := false
		switch m := msg.(type) {
		case *wire.MsgVersion:
			strict = len(b) == len(re) && (pver < refwire.VerBIP37 || b[len(b)-1] <= 1)
		case *wire.MsgAddrV2:
			n, _, e := reftx.ReadVarInt(b)
			strict = e == nil && n == uint64(len(m.AddrList))
		}
		if strict {
			if !bytes.Equal(re, b) {
				k.Failf("noncanonical-accepted:"+cmd, "%s accepted bytes that re-encode differently although no tolerant form is involved: %s\ninput %s",
					via, diffAt(re, b), hexN(b, 300))
				return
			}
			k.Count("identity.canonical", 1)
		} else {
			k.Count("identity.tolerant."+cmd, 1)
		}
	}
	switch m := msg.(type) {
	case *wire.MsgTx:
		checkAcceptedTx(k, via, m, b, wit)
	case *wire.MsgBlock:
		n := m.SerializeSizeStripped()
		if wit {
			n = m.SerializeSize()
		}
		if n != len(b) {
			k.Failf("block:SerializeSize-accepted", "%s: size function says %d for an accepted block of %d bytes", via, n, len(b))
		}
		rb, used, err := reftx.ParseBlock(b, wit)
		if err != nil || used != len(b) {
			k.Failf("accept-set:block", "%s accepted a block the reference parser rejects (%v, used %d of %d)\ninput %s", via, err, used, len(b), hexN(b, 300))
		} else if [32]byte(m.BlockHash()) != rb.Hash() {
			k.Failf("block:BlockHash-accepted", "hash of an accepted block differs from the reference")
		}
	}
}

func refBytes(e *refwire.Encoded) []byte {
	if e == nil {
		return nil
	}
	return e.Bytes
}

func checkAcceptedTx(k *mon.Case, via string, m *wire.MsgTx, b []byte, wit bool) {
	n := m.SerializeSizeStripped()
	if wit {
		n = m.SerializeSize()
	}
	if n != len(b) {
		k.Failf("tx:SerializeSize-accepted", "%s: size function says %d for an accepted tx of %d bytes", via, n, len(b))
	}
	rt, used, err := reftx.ParseTx(b, wit)
	if err != nil || used != len(b) {
		k.Failf("accept-set:tx", "%s accepted a tx the reference parser rejects (%v, used %d of %d)\ninput %s", via, err, used, len(b), hexN(b, 300))
		return
	}
	if [32]byte(m.TxHash()) != rt.TxID() || [32]byte(m.WitnessHash()) != rt.WTxID() {
		k.Failf("tx:ids-accepted", "%s: ids of an accepted tx differ from the reference: %s / %s want %s / %s\ninput %s",
			via, m.TxHash(), m.WitnessHash(), h32(rt.TxID()), h32(rt.WTxID()), hexN(b, 300))
	}
}

// rejectedButValid: btcd refused bytes; if the reference parser reads them as a complete,
// canonical transaction / block of the mode, a valid encoding has no decoding.
func rejectedTx(k *mon.Case, via string, b []byte, wit bool, err error) {
	if len(b) > refwire.MaxBlockPayload {
		return
	}
	if rt, used, perr := reftx.ParseTx(b, wit); perr == nil && used == len(b) {
		k.Failf("reject-valid:tx", "%s rejected (%v) a canonical tx (%d in, %d out, witness=%v)\ninput %s", via, err, len(rt.In), len(rt.Out), rt.HasWitness(), hexN(b, 300))
	}
}

func rejectedBlock(k *mon.Case, via string, b []byte, wit bool, err error) {
	if len(b) > refwire.MaxBlockPayload {
		return
	}
	if rb, used, perr := reftx.ParseBlock(b, wit); perr == nil && used == len(b) {
		k.Failf("reject-valid:block", "%s rejected (%v) a canonical block (%d txs)\ninput %s", via, err, len(rb.Txs), hexN(b, 300))
	}
}

// ---------------------------------------------------------------------------------------------
// mutation engine

// Values forced into count / length fields. cheapCounts are either small, or beyond every limit of
// the protocol (rejected before anything is allocated), or allocate at most a few MB where a limit
// admits them; bigCounts sit just below / at the largest limits and make a decoder that honours the
// claim allocate tens of MB (up to ~150 MB for a transaction-output count), so they are drawn less often.
var cheapCounts = []uint64{0xfc, 0xfd, 0xffff, 0x10000, 0xffffffff, 0x100000000, 1 << 31, 1 << 32, 1 << 62, 1 << 63, ^uint64(0), ^uint64(0) - 1,
	50000, 50001, 2000, 2001, 1000, 1001, 500, 501, 100000, 100001, 36000, 36001, 520, 521, 256, 257, 512, 513, 4000001, 3728272, 1<<25 + 1}
var bigCounts = []uint64{4000000, 818401, 818402, 3728271, 400001, 400002, 1 << 25, 1 << 22, 1<<22 + 1, 262144, 262145, 1 << 24}

func hugeCount(r *mon.Rand) uint64 {
	// (the race build's shadow memory makes 100 MB allocations very slow: the allocation-size
	// question is answered by the non-race build, the race build looks for bounds / pointer errors)
	if !mon.RaceEnabled && r.Chance(1, 16) {
		return bigCounts[r.Intn(len(bigCounts))]
	}
	return cheapCounts[r.Intn(len(cheapCounts))]
}

func nonMinimal(r *mon.Rand, v uint64) []byte {
	// a longer-than-necessary CompactSize for v
	var forms [][]byte
	if v < 0xfd {
		forms = append(forms, []byte{0xfd, byte(v), 0})
	}
	if v <= 0xffff {
		forms = append(forms, []byte{0xfe, byte(v), byte(v >> 8), 0, 0})
	}
	if v <= 0xffffffff {
		forms = append(forms, []byte{0xff, byte(v), byte(v >> 8), byte(v >> 16), byte(v >> 24), 0, 0, 0, 0})
	}
	if len(forms) == 0 {
		return reftx.AppendVarInt(nil, v)
	}
	return forms[r.Intn(len(forms))]
}

func splice(b []byte, off, n int, repl []byte) []byte {
	out := make([]byte, 0, len(b)-n+len(repl))
	out = append(out, b[:off]...)
	out = append(out, repl...)
	return append(out, b[off+n:]...)
}

// mutate derives one hostile byte string from a valid encoding and the positions of its
// CompactSize fields.
func mutate(r *mon.Rand, valid []byte, fields []refwire.Field) ([]byte, string) {
	b := append([]byte{}, valid...)
	class := r.Intn(12)
	if len(fields) == 0 && (class == 0 || class == 1 || class == 2) {
		class = 3 + r.Intn(9)
	}
	if len(b) == 0 && class >= 3 && class <= 8 {
		class = 10
	}
	switch class {
	case 0, 1: // a count / length field claims a huge (or a limit) value, canonically encoded
		f := fields[r.Intn(len(fields))]
		v := hugeCount(r)
		if r.Chance(1, 4) {
			v = f.Val + 1 + uint64(r.Intn(3))
		}
		if r.Chance(1, 8) && f.Val > 0 {
			v = f.Val - 1
		}
		return splice(b, f.Off, f.Len, reftx.AppendVarInt(nil, v)), "count-forced"
	case 2: // non-minimal CompactSize for the same value
		f := fields[r.Intn(len(fields))]
		return splice(b, f.Off, f.Len, nonMinimal(r, f.Val)), "nonminimal-varint"
	case 3: // bit flips
		for i := 1 + r.Intn(3); i > 0; i-- {
			b[r.Intn(len(b))] ^= 1 << uint(r.Intn(8))
		}
		return b, "bitflip"
	case 4: // byte set to a structurally interesting value
		for i := 1 + r.Intn(2); i > 0; i-- {
			b[r.Intn(len(b))] = []byte{0x00, 0x01, 0x02, 0x7f, 0x80, 0xfc, 0xfd, 0xfe, 0xff}[r.Intn(9)]
		}
		return b, "byteset"
	case 5: // truncate
		return b[:r.Intn(len(b))], "truncate"
	case 6: // delete a chunk
		off := r.Intn(len(b))
		n := 1 + r.Intn(min(len(b)-off, 40))
		return splice(b, off, n, nil), "delete"
	case 7: // insert a chunk
		off := r.Intn(len(b) + 1)
		ins := r.Bytes(1 + r.Intn(12))
		if r.Chance(1, 2) {
			ins = reftx.AppendVarInt(nil, hugeCount(r))
		}
		return splice(b, off, 0, ins), "insert"
	case 8: // overwrite a window with a CompactSize-looking prefix at a random position
		off := r.Intn(len(b))
		v := reftx.AppendVarInt(nil, hugeCount(r))
		if r.Chance(1, 3) {
			v = nonMinimal(r, uint64(r.Intn(300)))
		}
		n := min(len(v), len(b)-off)
		return splice(b, off, n, v[:n]), "overwrite-varint"
	case 9: // append
		return append(b, r.Bytes(1+r.Intn(40))...), "append"
	case 10: // random bytes with a plausible start
		n := r.Intn(200)
		if r.Chance(1, 10) {
			n = r.Intn(5000)
		}
		rb := r.Bytes(n)
		if len(valid) > 0 && len(rb) > 0 && r.Chance(1, 2) {
			copy(rb, valid[:min(len(valid), r.Intn(len(rb)+1))])
		}
		return rb, "random"
	default: // several stacked small mutations
		for i := 0; i < 2; i++ {
			b, _ = mutate(r, b, nil)
		}
		return b, "stacked"
	}
}

// ---------------------------------------------------------------------------------------------
// decoder entry points fed with hostile bytes

// offerPayload offers hostile payload bytes of command cmd to every decoder that takes them.
func offerPayload(k *mon.Case, cmd string, b []byte, pver uint32, enc wire.MessageEncoding, bnet wire.BitcoinNet) (accepted bool) {
	r := k.Rand
	// direct BtcDecode
	var m wire.Message
	var used int
	var err error
	guard(k, "BtcDecode:"+cmd, len(b), func() { m, used, err = btcdDecode(cmd, b, pver, enc) })
	if err == nil {
		accepted = true
		checkAccepted(k, "BtcDecode", cmd, m, b[:used], pver, enc)
	} else {
		k.Count("rejected."+cmd, 1)
		switch cmd {
		case "tx":
			rejectedTx(k, "MsgTx.BtcDecode", b, enc == wire.WitnessEncoding, err)
		case "block":
			rejectedBlock(k, "MsgBlock.BtcDecode", b, enc == wire.WitnessEncoding, err)
		}
	}
	// framed with a correct header so that the payload reaches the decoder
	if cmd != "wtxidrelay" && len(b) <= refwire.MaxProtocolMsg+16 {
		frame := refwire.Frame(uint32(bnet), cmd, b)
		var n int
		var m2 wire.Message
		var pl []byte
		var err2 error
		guard(k, "ReadMessageWithEncodingN:"+cmd, len(frame), func() {
			n, m2, pl, err2 = wire.ReadMessageWithEncodingN(bytes.NewReader(frame), pver, bnet, enc)
		})
		if err2 == nil {
			if n != len(frame) || !bytes.Equal(pl, b) {
				k.Failf("read-consumed:"+cmd, "ReadMessageWithEncodingN accepted a frame of %d bytes but reports n=%d, payload %s", len(frame), n, diffAt(pl, b))
			}
			if err != nil || used != len(b) {
				// the framed reader must not accept what the bare decoder refuses or leaves unread
				if !(cmd == "version") {
					k.Failf("frame-accepts-more:"+cmd, "ReadMessageWithEncodingN accepted a payload that BtcDecode refuses / does not consume (err=%v used=%d of %d)\ninput %s",
						err, used, len(b), hexN(b, 300))
				}
			}
			checkAccepted(k, "ReadMessageWithEncodingN", cmd, m2, b, pver, enc)
		} else if err == nil && used == len(b) && uint32(len(b)) <= m.MaxPayloadLength(pver) && len(b) <= refwire.MaxProtocolMsg {
			k.Failf("frame-rejects:"+cmd, "BtcDecode accepts the whole payload (%d bytes, limit %d) but ReadMessageWithEncodingN rejects the well-formed frame: %v\ninput %s",
				len(b), m.MaxPayloadLength(pver), err2, hexN(b, 300))
		}
		if r.Chance(1, 3) {
			contents := refwire.FrameV2(cmd, b)
			var m3 wire.Message
			var err3 error
			guard(k, "ReadV2MessageN:"+cmd, len(contents), func() { m3, _, err3 = wire.ReadV2MessageN(contents, pver, enc) })
			if (err3 == nil) != (err2 == nil) {
				k.Failf("v2-v1-disagree:"+cmd, "v1 framing err=%v, v2 framing err=%v for the same payload\ninput %s", err2, err3, hexN(b, 300))
			} else if err3 == nil && dump(m3) != dump(m2) {
				k.Failf("v2-v1-disagree:"+cmd, "v1 and v2 framing decode the same payload to different values")
			}
		}
	}
	// the non-message entry points of tx / block
	switch cmd {
	case "tx":
		offerRawTx(k, b)
	case "block":
		offerRawBlock(k, b)
	}
	return accepted
}

func offerRawTx(k *mon.Case, b []byte) {
	{
		var d wire.MsgTx
		rd := bytes.NewReader(b)
		var err error
		guard(k, "MsgTx.Deserialize", len(b), func() { err = d.Deserialize(rd) })
		if err == nil {
			checkAccepted(k, "MsgTx.Deserialize", "tx", &d, b[:len(b)-rd.Len()], 0, wire.WitnessEncoding)
		}
	}
	{
		var d wire.MsgTx
		rd := bytes.NewReader(b)
		var err error
		guard(k, "MsgTx.DeserializeNoWitness", len(b), func() { err = d.DeserializeNoWitness(rd) })
		if err == nil {
			checkAccepted(k, "MsgTx.DeserializeNoWitness", "tx", &d, b[:len(b)-rd.Len()], 0, wire.BaseEncoding)
		} else {
			rejectedTxPrefix(k, "MsgTx.DeserializeNoWitness", b, false, err)
		}
	}
	var ut *btcutil.Tx
	var err error
	guard(k, "btcutil.NewTxFromBytes", len(b), func() {
		ut, err = btcutil.NewTxFromBytes(b)
		if err == nil {
			ut.Hash()
			ut.WitnessHash()
			ut.HasWitness()
		}
	})
	if err == nil {
		rt, used, perr := reftx.ParseTx(b, true)
		if perr != nil || used != len(b) {
			k.Failf("accept-set:NewTxFromBytes", "NewTxFromBytes accepted bytes the reference rejects or that have trailing data (%v, used %d of %d)\ninput %s", perr, used, len(b), hexN(b, 300))
		} else if [32]byte(*ut.Hash()) != rt.TxID() || [32]byte(*ut.WitnessHash()) != rt.WTxID() {
			k.Failf("btcutil:Tx-ids-accepted", "btcutil.Tx ids of accepted bytes differ from the reference\ninput %s", hexN(b, 300))
		}
		k.Count("accepted.NewTxFromBytes", 1)
	} else {
		rejectedTx(k, "btcutil.NewTxFromBytes", b, true, err)
	}
	if k.Rand.Chance(1, 6) && !(mon.RaceEnabled && !k.Rand.Chance(1, 10)) { // (ReadTxOut zeroes a 4 MiB scratch slab per call)
		var o wire.TxOut
		rd := bytes.NewReader(b)
		var err error
		guard(k, "ReadTxOut", len(b), func() { err = wire.ReadTxOut(rd, 0, 1, &o) })
		if err == nil {
			var wb bytes.Buffer
			wire.WriteTxOut(&wb, 0, 1, &o)
			if used := len(b) - rd.Len(); !bytes.Equal(wb.Bytes(), b[:used]) || o.SerializeSize() != used {
				k.Failf("noncanonical-accepted:txout", "ReadTxOut accepted bytes that re-encode differently: %s", diffAt(wb.Bytes(), b[:used]))
			}
		}
	}
}

// rejectedTxPrefix: like rejectedTx, for readers that may stop before the end of the input.
func rejectedTxPrefix(k *mon.Case, via string, b []byte, wit bool, err error) {
	if len(b) > refwire.MaxBlockPayload {
		return
	}
	if rt, _, perr := reftx.ParseTx(b, wit); perr == nil {
		k.Failf("reject-valid:tx", "%s rejected (%v) input that starts with a canonical tx (%d in, %d out)\ninput %s", via, err, len(rt.In), len(rt.Out), hexN(b, 300))
	}
}

func offerRawBlock(k *mon.Case, b []byte) {
	{
		var d wire.MsgBlock
		rd := bytes.NewReader(b)
		var err error
		guard(k, "MsgBlock.Deserialize", len(b), func() { err = d.Deserialize(rd) })
		if err == nil {
			checkAccepted(k, "MsgBlock.Deserialize", "block", &d, b[:len(b)-rd.Len()], 0, wire.WitnessEncoding)
		}
	}
	{
		var d wire.MsgBlock
		buf := bytes.NewBuffer(append([]byte{}, b...))
		var err error
		var locs []wire.TxLoc
		guard(k, "MsgBlock.DeserializeTxLoc", len(b), func() { locs, err = d.DeserializeTxLoc(buf) })
		if err == nil {
			used := len(b) - buf.Len()
			checkAccepted(k, "MsgBlock.DeserializeTxLoc", "block", &d, b[:used], 0, wire.WitnessEncoding)
			if rb, _, perr := reftx.ParseBlock(b[:used], true); perr == nil {
				ws, wl := rb.TxOffsets(true)
				for i := range locs {
					if i >= len(ws) || locs[i].TxStart != ws[i] || locs[i].TxLen != wl[i] {
						k.Failf("block:DeserializeTxLoc-accepted", "TxLoc[%d]=%+v differs from the reference offsets", i, locs[i])
						break
					}
				}
			}
		}
	}
	var ub *btcutil.Block
	var err error
	guard(k, "btcutil.NewBlockFromBytes", len(b), func() {
		ub, err = btcutil.NewBlockFromBytes(b)
		if err == nil {
			ub.Hash()
			for _, t := range ub.Transactions() {
				t.Hash()
				t.WitnessHash()
			}
		}
	})
	if err == nil {
		rb, used, perr := reftx.ParseBlock(b, true)
		if perr != nil || used != len(b) {
			k.Failf("accept-set:NewBlockFromBytes", "NewBlockFromBytes accepted bytes the reference rejects or that have trailing data (%v, used %d of %d)\ninput %s", perr, used, len(b), hexN(b, 300))
		} else {
			if [32]byte(*ub.Hash()) != rb.Hash() {
				k.Failf("btcutil:Block.Hash-accepted", "hash of accepted block bytes differs from the reference")
			}
			for i, t := range ub.Transactions() {
				if [32]byte(*t.Hash()) != rb.Txs[i].TxID() || [32]byte(*t.WitnessHash()) != rb.Txs[i].WTxID() {
					k.Failf("btcutil:Block.tx-ids-accepted", "tx %d ids of accepted block bytes differ from the reference\ninput %s", i, hexN(b, 300))
					break
				}
			}
		}
		k.Count("accepted.NewBlockFromBytes", 1)
	} else {
		rejectedBlock(k, "btcutil.NewBlockFromBytes", b, true, err)
	}
	if len(b) >= 1 {
		var h wire.BlockHeader
		rd := bytes.NewReader(b)
		var err error
		guard(k, "BlockHeader.Deserialize", len(b), func() { err = h.Deserialize(rd) })
		if (err == nil) != (len(b) >= 80) {
			k.Failf("header:accept-set", "BlockHeader.Deserialize err=%v on %d bytes", err, len(b))
		} else if err == nil {
			rh, _, _ := reftx.ParseHeader(b)
			var wb bytes.Buffer
			h.Serialize(&wb)
			if !bytes.Equal(wb.Bytes(), b[:80]) || [32]byte(h.BlockHash()) != rh.Hash() {
				k.Failf("header:identity", "header bytes do not re-encode identically / hash differs")
			}
		}
	}
}

// validEncoding produces a valid value of cmd with its reference payload (nil if the message
// does not exist at pver).
func validEncoding(r *mon.Rand, cmd string, pver uint32, enc wire.MessageEncoding, sz int) *refwire.Encoded {
	msg, _ := genMsg(r, cmd, pver, enc == wire.WitnessEncoding, sz, false)
	e, err := refwire.Encode(msg, pver, enc == wire.WitnessEncoding)
	if err != nil {
		return nil
	}
	return e
}

func sigHostile(fam, cmd, class string, accepted bool, b []byte) uint64 {
	return mon.Sig(fam, cmd, class, accepted, len(b), mon.SigBytes(b[:min(len(b), 48)]))
}

func describe(cmd string, pver uint32, enc wire.MessageEncoding, class string, b []byte) map[string]any {
	return map[string]any{"cmd": cmd, "pver": pver, "enc": encName(enc), "class": class, "len": len(b), "input": hexN(b, 2048)}
}

func famHostileMutate(k *mon.Case) {
	r := k.Rand
	cmd := allCmds[r.Intn(len(allCmds))]
	if r.Chance(1, 3) {
		cmd = []string{"tx", "block", "version", "addrv2", "headers", "merkleblock", "reject", "cfcheckpt", "inv"}[r.Intn(9)]
	}
	pver := livePvers[r.Intn(len(livePvers))]
	if r.Chance(1, 2) {
		pver = wire.ProtocolVersion
	}
	enc := wire.WitnessEncoding
	if r.Chance(1, 3) {
		enc = wire.BaseEncoding
	}
	sz := szSmall
	if r.Chance(1, 12) {
		sz = szEdge
	}
	e := validEncoding(r, cmd, pver, enc, sz)
	if e == nil {
		e = &refwire.Encoded{Bytes: []byte{}}
	}
	b, class := mutate(r, e.Bytes, e.VarInts)
	k.Desc(describe(cmd, pver, enc, class, b))
	acc := offerPayload(k, cmd, b, pver, enc, nets[r.Intn(len(nets))])
	k.Count("mutate.class."+class, 1)
	if k.Index%7 == 0 {
		k.Sample(map[string]any{"family": "hostile.mutate", "cmd": cmd, "pver": pver, "enc": encName(enc), "class": class, "accepted": acc, "input": hexN(b, 96)})
	}
	k.Eval(sigHostile("mut", cmd, class, acc, b), true)
}

// famHostileTrunc: every strict prefix (all offsets for short encodings, a sample otherwise).
func famHostileTrunc(k *mon.Case) {
	r := k.Rand
	cmd := allCmds[r.Intn(len(allCmds))]
	pver := livePvers[r.Intn(len(livePvers))]
	if r.Chance(1, 2) {
		pver = wire.ProtocolVersion
	}
	enc := wire.WitnessEncoding
	if r.Chance(1, 3) {
		enc = wire.BaseEncoding
	}
	e := validEncoding(r, cmd, pver, enc, szSmall)
	if e == nil || len(e.Bytes) == 0 {
		k.Eval(mon.Sig("trunc-empty", cmd), false)
		return
	}
	full := e.Bytes
	offs := []int{}
	if len(full) <= 400 {
		for i := 0; i < len(full); i++ {
			offs = append(offs, i)
		}
	} else {
		for i := 0; i < 48; i++ {
			offs = append(offs, r.Intn(len(full)))
		}
		for i := 1; i <= 16; i++ {
			offs = append(offs, len(full)-i)
		}
	}
	bnet := nets[r.Intn(len(nets))]
	for _, o := range offs {
		b := full[:o]
		k.Desc(describe(cmd, pver, enc, fmt.Sprintf("truncate@%d/%d", o, len(full)), b))
		acc := offerPayload(k, cmd, b, pver, enc, bnet)
		if acc {
			k.Count("trunc.accepted."+cmd, 1)
		}
		k.Count("trunc.prefixes", 1)
	}
	k.Eval(mon.Sig("trunc", cmd, pverClass(pver), encName(enc), len(full), mon.SigBytes(full[:min(len(full), 48)])), true)
}

// famHostileRandom: unstructured bytes to every decoder.
func famHostileRandom(k *mon.Case) {
	r := k.Rand
	cmd := allCmds[r.Intn(len(allCmds))]
	pver := livePvers[r.Intn(len(livePvers))]
	enc := wire.WitnessEncoding
	if r.Chance(1, 3) {
		enc = wire.BaseEncoding
	}
	n := r.Intn(120)
	switch r.Intn(12) {
	case 0:
		n = 0
	case 1:
		n = r.Intn(4000)
	}
	b := r.Bytes(n)
	switch r.Intn(4) {
	case 0: // mostly zero bytes (zero counts, markers)
		for i := range b {
			if r.Chance(3, 4) {
				b[i] = 0
			}
		}
	case 1: // mostly 0xff / CompactSize discriminants
		for i := range b {
			if r.Chance(1, 4) {
				b[i] = []byte{0xfd, 0xfe, 0xff, 0x01}[r.Intn(4)]
			}
		}
	}
	k.Desc(describe(cmd, pver, enc, "random", b))
	acc := offerPayload(k, cmd, b, pver, enc, nets[r.Intn(len(nets))])
	k.Eval(sigHostile("rnd", cmd, "random", acc, b), true)
}

// famHostileFrame: hostile v1 message headers / streams through ReadMessageWithEncodingN.
func famHostileFrame(k *mon.Case) {
	r := k.Rand
	cmd := allCmds[r.Intn(len(allCmds))]
	for cmd == "wtxidrelay" {
		cmd = allCmds[r.Intn(len(allCmds))]
	}
	pver := wire.ProtocolVersion
	if r.Chance(1, 3) {
		pver = livePvers[r.Intn(len(livePvers))]
	}
	enc := wire.WitnessEncoding
	bnet := nets[r.Intn(len(nets))]
	e := validEncoding(r, cmd, pver, enc, szSmall)
	defined := e != nil
	if e == nil {
		e = &refwire.Encoded{Bytes: []byte{}}
	}
	payload := e.Bytes
	frame := refwire.Frame(uint32(bnet), cmd, payload)
	class := ""
	mustReject := false
	putU32 := func(off int, v uint32) {
		frame[off], frame[off+1], frame[off+2], frame[off+3] = byte(v), byte(v>>8), byte(v>>16), byte(v>>24)
	}
	switch r.Intn(12) {
	case 0:
		class = "magic-other-net"
		o := nets[r.Intn(len(nets))]
		for o == bnet {
			o = nets[r.Intn(len(nets))]
		}
		putU32(0, uint32(o))
		mustReject = true
	case 1:
		class = "magic-random"
		v := r.Uint32()
		if v == uint32(bnet) {
			v++
		}
		putU32(0, v)
		mustReject = true
	case 2:
		class = "checksum"
		frame[20+r.Intn(4)] ^= 1 << uint(r.Intn(8))
		mustReject = true
	case 3:
		class = "command-garbage"
		cb := r.Bytes(12)
		switch r.Intn(5) {
		case 0: // known command followed by non-zero padding
			copy(cb, cmd)
			if len(cmd) < 12 {
				cb[len(cmd)] = 0
			}
		case 1: // no NUL at all
			for i := range cb {
				cb[i] |= 1
			}
		case 2: // invalid utf-8
			cb[0] = 0xff
		case 3: // upper case
			copy(cb, bytes.ToUpper([]byte(cmd)))
			for i := len(cmd); i < 12; i++ {
				cb[i] = 0
			}
		}
		copy(frame[4:16], cb)
	case 4:
		class = "command-other-type"
		other := allCmds[r.Intn(len(allCmds))]
		var cb [12]byte
		copy(cb[:], other)
		copy(frame[4:16], cb[:])
	case 5:
		class = "length-lies"
		l := []uint32{0, uint32(len(payload)) + 1, uint32(len(payload)) - 1, 4000000, 4000001, 0xffffffff, 0x80000000, 32 << 20, 1 << 24,
			newMsg(cmd).MaxPayloadLength(pver) + 1, newMsg(cmd).MaxPayloadLength(pver)}[r.Intn(11)]
		putU32(16, l)
		if l != uint32(len(payload)) {
			mustReject = true
		}
	case 6:
		class = "stream-truncated"
		frame = frame[:r.Intn(len(frame))]
		mustReject = true
	case 7:
		class = "stream-truncated-header"
		frame = frame[:r.Intn(min(len(frame), 25))]
		mustReject = len(frame) < 24 || len(payload) > 0
	case 8:
		class = "payload-mutated-checksum-stale"
		if len(payload) > 0 {
			frame[24+r.Intn(len(payload))] ^= 1 << uint(r.Intn(8))
			mustReject = true
		}
	case 9:
		class = "header-random"
		copy(frame, r.Bytes(min(24, len(frame))))
		if r.Chance(1, 2) {
			putU32(0, uint32(bnet))
		}
	case 10:
		class = "trailing-bytes"
		// a payload longer than the per-type maximum, correctly framed
		extra := r.Bytes(int(newMsg(cmd).MaxPayloadLength(pver)) % 5000)
		frame = refwire.Frame(uint32(bnet), cmd, append(append([]byte{}, payload...), extra...))
		mustReject = len(extra) > 0 && cmd != "version"
	default:
		class = "valid"
	}
	k.Desc(map[string]any{"cmd": cmd, "pver": pver, "class": class, "frame": hexN(frame, 2048)})
	rd := bytes.NewReader(frame)
	var n int
	var m wire.Message
	var pl []byte
	var err error
	guard(k, "ReadMessageWithEncodingN:frame", len(frame), func() { n, m, pl, err = wire.ReadMessageWithEncodingN(rd, pver, bnet, enc) })
	if n != len(frame)-rd.Len() && !(err != nil) {
		k.Failf("frame:n", "ReadMessageWithEncodingN returned n=%d but consumed %d", n, len(frame)-rd.Len())
	}
	if err == nil {
		k.Count("frame.accepted."+class, 1)
		if mustReject {
			k.Failf("frame:accepted:"+class, "ReadMessageWithEncodingN accepted a frame with a wrong %s\nframe %s", class, hexN(frame, 300))
			return
		}
		// an accepted frame is canonical as a whole
		c, _ := refwire.Command(m)
		if want := refwire.Frame(uint32(bnet), c, pl); !bytes.Equal(want, frame[:n]) {
			k.Failf("frame:noncanonical-accepted", "accepted frame differs from the canonical frame of its own content: %s", diffAt(want, frame[:n]))
		}
		var wb bytes.Buffer
		if !tolerantDecoder(c) {
			if _, werr := wire.WriteMessageWithEncodingN(&wb, m, pver, bnet, enc); werr != nil || !bytes.Equal(wb.Bytes(), frame[:n]) {
				k.Failf("frame:rewrite", "WriteMessage(ReadMessage(frame)) != frame (err %v): %s", werr, diffAt(wb.Bytes(), frame[:n]))
			}
		}
		checkAccepted(k, "ReadMessageWithEncodingN", c, m, pl, pver, enc)
	} else {
		k.Count("frame.rejected."+class, 1)
		if class == "valid" && defined && !(enc == wire.WitnessEncoding && zeroInputPayload(cmd, payload)) {
			k.Failf("frame:valid-rejected:"+cmd, "a valid %s frame was rejected: %v", cmd, err)
		}
	}
	// the split-header entry point must behave exactly like the plain one
	if len(frame) >= 24 && r.Chance(1, 2) {
		rd2 := bytes.NewReader(frame[16:])
		var n2 int
		var m2 wire.Message
		var err2 error
		guard(k, "ReadPartialMessageWithEncodingN", len(frame), func() {
			n2, m2, _, err2 = wire.ReadPartialMessageWithEncodingN(rd2, pver, bnet, enc, frame[:16])
		})
		if (err2 == nil) != (err == nil) || (err == nil && (n2 != n || dump(m2) != dump(m))) {
			k.Failf("frame:partial-differs", "ReadPartialMessageWithEncodingN err=%v n=%d vs ReadMessageWithEncodingN err=%v n=%d (class %s)", err2, n2, err, n, class)
		}
	}
	// BIP324 contents with hostile message-type bytes
	if r.Chance(1, 3) {
		var contents []byte
		switch r.Intn(5) {
		case 0: // arbitrary short id (assigned, unassigned, reserved)
			contents = append([]byte{byte(r.Intn(256))}, payload...)
		case 1: // long form with a garbage command
			contents = append(append([]byte{0}, r.Bytes(12)...), payload...)
		case 2: // long form cut inside the command
			contents = refwire.FrameV2("version", payload)[:r.Intn(13)]
		case 3: // long form naming a command that has a short id
			c := make([]byte, 13)
			copy(c[1:], cmd)
			contents = append(c, payload...)
		default:
			contents = []byte{}
		}
		var m3 wire.Message
		var pl3 []byte
		var err3 error
		k.Desc(map[string]any{"cmd": cmd, "pver": pver, "class": "v2-contents", "contents": hexN(contents, 2048)})
		guard(k, "ReadV2MessageN:contents", len(contents), func() { m3, pl3, err3 = wire.ReadV2MessageN(contents, pver, enc) })
		if err3 == nil {
			c3, _ := refwire.Command(m3)
			k.Count("v2.accepted", 1)
			// both spellings of a command that has a short id are legal on the wire; the accepted
			// contents must be one of them, and the payload must be canonical for the type
			long := append(make([]byte, 0, 13+len(pl3)), 0)
			var cb [12]byte
			copy(cb[:], c3)
			long = append(append(long, cb[:]...), pl3...)
			if !bytes.Equal(contents, refwire.FrameV2(c3, pl3)) && !bytes.Equal(contents, long) {
				k.Failf("v2:noncanonical-accepted", "ReadV2MessageN accepted contents that are not a canonical spelling of their own content\ncontents %s", hexN(contents, 300))
			}
			checkAccepted(k, "ReadV2MessageN", c3, m3, pl3, pver, enc)
		} else {
			k.Count("v2.rejected", 1)
		}
	}
	k.Count("frame.class."+class, 1)
	k.Eval(mon.Sig("frame", cmd, class, err == nil, mon.SigBytes(frame[:min(len(frame), 40)])), true)
}

func zeroInputPayload(cmd string, payload []byte) bool {
	switch cmd {
	case "tx":
		t, _, err := reftx.ParseTx(payload, false)
		return err == nil && len(t.In) == 0
	case "block":
		b, _, err := reftx.ParseBlock(payload, false)
		if err != nil {
			return false
		}
		for _, t := range b.Txs {
			if len(t.In) == 0 {
				return true
			}
		}
	}
	return false
}
