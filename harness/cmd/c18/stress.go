package main

// FIFO / exactly-once / shutdown stress: concurrent senders of uniquely numbered messages, inventory
// senders, remote traffic and one disconnect cause at a PRNG-chosen logical point. Everything is
// recorded with stamps of the case clock and judged offline from the captured output stream.

import (
	"fmt"
	"net"
	"os"
	"runtime"
	"sort"
	"strings"
	"sync"
	"sync/atomic"
	"time"

	"verif/mon"

	"github.com/btcsuite/btcd/chainhash/v2"
	"github.com/btcsuite/btcd/peer"
	"github.com/btcsuite/btcd/wire/v2"
)

const (
	causeDisconnect = iota
	causeDisconnect3
	causeRemoteClose
	causeRemoteEOF
	causeWriteFault
	causeReadFault
	causeDisconnectAndClose
	causeDrain
	nCause
)

var causeNames = [nCause]string{"disconnect", "disconnect-x3", "remote-close", "remote-eof", "write-fault", "read-fault",
	"disconnect+remote-close", "drain-then-disconnect"}

const (
	startWarm       = iota // after a warm-up ping was answered (all handlers are known to run)
	startBeforeConn        // before AssociateConnection
	startAfterAssoc        // right after AssociateConnection returned (negotiation in flight)
	startOnVersion         // when the OnVersion listener is invoked
	startOnVerAck          // when the OnVerAck listener is invoked
	nStart
)

var startNames = [nStart]string{"after-warmup", "before-associate", "after-associate", "on-version-callback", "on-verack-callback"}

type sendRec struct {
	id      uint64
	done    chan struct{}
	call    atomic.Int64
	ret     atomic.Int64
	receipt atomic.Int64 // stamp at which the sender received the completion signal (sync senders)
	recvd   atomic.Int32
}

type sender struct {
	idx      int
	sync     bool // waits for each completion signal before queueing the next message
	noDone   bool // passes a nil done channel
	withEnc  bool // uses QueueMessageWithEncoding
	recs     []*sendRec
	waiting  atomic.Bool
	finished atomic.Bool
	r        *mon.Rand
	pauseN   int
}

type invRec struct {
	hash  chainhash.Hash
	block bool
	call  atomic.Int64
	ret   atomic.Int64
}

type stressOpts struct {
	Family    string `json:"family"`
	Inbound   bool   `json:"inbound"`
	Net       string `json:"net"`
	Start     string `json:"start"`
	Cause     string `json:"cause"`
	Senders   int    `json:"senders"`
	Msgs      []int  `json:"msgs_per_sender"`
	Sync      []bool `json:"sync"`
	InvSend   int    `json:"inv_senders"`
	InvEach   int    `json:"inv_each"`
	RemotePgs int    `json:"remote_pings"`
	Trigger   int    `json:"trigger_after_queued"`
	NoStall   bool   `json:"disable_stall,omitempty"`
	ReadChunk int    `json:"read_chunk,omitempty"`
	RDelayN   int    `json:"read_delay_n,omitempty"`
	WDelayN   int    `json:"write_delay_n,omitempty"`
	MaxUs     int    `json:"max_delay_us,omitempty"`
	CbDelayN  int    `json:"cb_delay_n,omitempty"`
	LateHS    bool   `json:"handshake_written_late,omitempty"`
	Transport string `json:"transport"`
	Garbage   int    `json:"v2_remote_garbage,omitempty"`
}

const (
	tpV1 = iota
	tpV2
	tpV2Downgrade // local expects v2, the (inbound) remote speaks v1: implicit downgrade path
)

var tpNames = [...]string{"v1", "v2", "v2-local-with-v1-remote"}

func pingID(sender, idx int) uint64 { return 0x5e<<56 | uint64(sender+1)<<32 | uint64(idx) }

const (
	warmupID  = 0xfeed000000000001
	pokeID    = 0xfeed000000000002
	remoteTag = 0xa0 << 56
)

var debugTiming = os.Getenv("C18_DEBUG") != "" // prints per-case wall time (diagnostics only, never used in a verdict)

func registerStress(c *mon.Ctx, ps *procState) {
	big := c.Thorough()
	// the family name carries GOMAXPROCS so that every scheduler width explores its own cases
	// (the per-case PRNG is derived from the family name); counters use the base name
	suffix := fmt.Sprintf(".p%d", runtime.GOMAXPROCS(0))
	if want("fifo") {
		c.Family("fifo"+suffix, scaled(c.N(100, 1500)), func(k *mon.Case) { runStress(k, ps, "fifo", false, big) })
		c.Require("fifo.cases", 20)
		c.Require("fifo.msgs.on-wire", 1000)
		c.Require("fifo.done.exactly-once", 1000)
		c.Require("fifo.happens-before-pairs-checked", 1000)
		c.Require("fifo.drained-completely", 3)
	}
	if want("v2") {
		c.Family("v2"+suffix, scaled(c.N(48, 600)), func(k *mon.Case) { runStress(k, ps, "v2", k.Rand.Chance(1, 3), big) })
		c.Require("v2.cases", 10)
		c.Require("v2.msgs.on-wire", 200)
		c.Require("v2.transport.v2", 5)
		c.Require("v2.transport.v2-local-with-v1-remote", 2)
	}
	if want("early") {
		c.Family("early"+suffix, scaled(c.N(100, 1500)), func(k *mon.Case) { runStress(k, ps, "early", true, big) })
		c.Require("early.cases", 20)
		c.Require("early.done.exactly-once", 500)
	}
}

func runStress(k *mon.Case, ps *procState, fam string, early, big bool) {
	if debugTiming {
		t0 := time.Now()
		defer func() { fmt.Printf("case %s %d took %v\n", k.Family, k.Index, time.Since(t0)) }()
	}
	r := k.Rand
	ps.base = 0
	o := stressOpts{Family: k.Family, Inbound: r.Bool()}
	transport := tpV1
	if fam == "v2" {
		transport = tpV2
		if r.Chance(1, 3) {
			transport = tpV2Downgrade
			o.Inbound = true
		}
		// 0..4094 (4095 is the known C19 finding; not this property's business); mostly short, because
		// the peer reads garbage one byte per Read call and its 30 s negotiation timeout is wall clock
		o.Garbage = r.Intn(64)
		if r.Chance(1, 4) {
			o.Garbage = r.Intn(4095)
		}
	}
	o.Transport = tpNames[transport]
	netIdx := r.Intn(2) // mainnet / testnet3
	o.Net = netTable[netIdx].name
	params := netTable[netIdx].params
	maxS, maxM := 8, 60
	if big {
		maxS, maxM = 16, 200
	}
	o.Senders = r.Range(2, maxS)
	total := 0
	for i := 0; i < o.Senders; i++ {
		m := r.Range(5, maxM)
		if r.Chance(1, 4) {
			m = r.Range(1, 8)
		}
		o.Msgs = append(o.Msgs, m)
		o.Sync = append(o.Sync, r.Chance(1, 3))
		total += m
	}
	o.InvSend = r.Intn(3)
	o.InvEach = r.Range(1, 40)
	o.RemotePgs = r.Intn(30)
	cause := r.Intn(nCause)
	start := startWarm
	if early {
		start = 1 + r.Intn(nStart-1)
		if cause == causeDrain {
			cause = causeDisconnect
		}
		o.LateHS = r.Bool() && transport != tpV2
	}
	o.Cause, o.Start = causeNames[cause], startNames[start]
	switch {
	case cause == causeDrain:
		o.Trigger = total + 1
	case early:
		o.Trigger = r.Intn(total/2 + 2)
	default:
		o.Trigger = r.Intn(total + total/4 + 1)
	}
	o.NoStall = r.Chance(1, 5)
	if r.Chance(1, 4) {
		o.ReadChunk = []int{1, 9, 64}[r.Intn(3)]
	}
	if r.Chance(1, 2) {
		o.RDelayN = []int{3, 10, 50}[r.Intn(3)]
		if o.ReadChunk == 1 {
			o.RDelayN = 200
		}
	}
	if r.Chance(1, 2) {
		o.WDelayN = []int{3, 10, 50}[r.Intn(3)]
	}
	o.MaxUs = []int{20, 200, 2000}[r.Intn(3)]
	if r.Chance(1, 3) {
		o.CbDelayN = []int{1, 4}[r.Intn(2)]
	}
	k.Desc(o)

	clk := &clock{}
	hk := &hooks{clk: clk, rr: r.Fork(), wr: r.Fork(), readChunk: o.ReadChunk, readDelayN: o.RDelayN, writeDelayN: o.WDelayN, maxDelayUs: o.MaxUs}
	rec := newRecorder(clk, r.Fork(), o.CbDelayN, o.MaxUs)
	localAddr := &net.TCPAddr{IP: net.IPv4(10, 0, 0, 1), Port: 18555}
	remoteAddr := &net.TCPAddr{IP: net.IPv4(10, 0, 0, 2), Port: 8333}
	local, remote := newPair(clk, hk, localAddr, remoteAddr)

	startCh := make(chan struct{})
	var startOnce sync.Once
	fireStart := func() { startOnce.Do(func() { close(startCh) }) }
	if start == startOnVersion {
		rec.onVersion = fireStart
	}
	if start == startOnVerAck {
		rec.onVerAck = fireStart
	}

	cfg := &peer.Config{
		ChainParams: params, UserAgentName: "verif", UserAgentVersion: "1.0.0",
		Services:  wire.SFNodeNetwork | wire.SFNodeWitness,
		Listeners: rec.listeners(), TrickleInterval: time.Millisecond, DisableStallHandler: o.NoStall,
	}
	if transport != tpV1 {
		cfg.UsingV2Conn = true
		cfg.Services |= wire.SFNodeP2PV2
	}
	var p *peer.Peer
	if o.Inbound {
		p = peer.NewInboundPeer(cfg)
	} else {
		var err error
		if p, err = peer.NewOutboundPeer(cfg, remoteAddr.String()); err != nil {
			k.Failf("harness:new-outbound-peer", "%v", err)
			return
		}
	}
	rc := &remoteCtx{net: params.Net, pver: wire.ProtocolVersion, nonce: r.Uint64() | 1<<62, services: wire.SFNodeNetwork | wire.SFNodeWitness}
	hsBytes := append(rc.version(int32(wire.ProtocolVersion), rc.nonce), frame(uint32(params.Net), wire.CmdVerAck, nil)...)
	hsBytes = append(hsBytes, frame(uint32(params.Net), wire.CmdPing, payloadOf(wire.NewMsgPing(warmupID), wire.ProtocolVersion))...)

	// ---- actors ----
	abort := make(chan struct{})
	var queued atomic.Int64
	trig := make(chan struct{})
	var trigOnce sync.Once
	fireTrig := func() { trigOnce.Do(func() { close(trig) }) }
	if o.Trigger == 0 {
		fireTrig()
	}
	noteQueued := func() {
		if queued.Add(1) == int64(o.Trigger) {
			fireTrig()
		}
	}
	var wg sync.WaitGroup
	recoverTo := func(who string) {
		if x := recover(); x != nil {
			k.Violation("panic:"+fam+":"+who, fmt.Sprintf("panic in %s goroutine: %v\n%s", who, x, allStacks()), nil)
		}
	}

	senders := make([]*sender, o.Senders)
	for i := range senders {
		s := &sender{idx: i, sync: o.Sync[i], r: r.Fork()}
		s.noDone = !s.sync && s.r.Chance(1, 6)
		s.withEnc = s.r.Chance(1, 4)
		s.pauseN = []int{0, 2, 8}[s.r.Intn(3)]
		for j := 0; j < o.Msgs[i]; j++ {
			sr := &sendRec{id: pingID(i, j)}
			if !s.noDone {
				sr.done = make(chan struct{}, 8)
			}
			s.recs = append(s.recs, sr)
		}
		senders[i] = s
	}
	for _, s := range senders {
		wg.Add(1)
		go func(s *sender) {
			defer wg.Done()
			defer s.finished.Store(true)
			defer recoverTo("sender")
			s.waiting.Store(true)
			select {
			case <-startCh:
			case <-abort:
				return
			}
			s.waiting.Store(false)
			for _, sr := range s.recs {
				select {
				case <-abort:
					return
				default:
				}
				if s.pauseN > 0 && s.r.Intn(s.pauseN) == 0 {
					if s.r.Bool() {
						runtime.Gosched()
					} else {
						sleepUs(pickDelay(s.r, 300))
					}
				}
				var dc chan<- struct{}
				if sr.done != nil {
					dc = sr.done
				}
				msg := wire.NewMsgPing(sr.id)
				sr.call.Store(clk.tick())
				if s.withEnc {
					p.QueueMessageWithEncoding(msg, dc, wire.WitnessEncoding)
				} else {
					p.QueueMessage(msg, dc)
				}
				sr.ret.Store(clk.tick())
				noteQueued()
				if s.sync {
					s.waiting.Store(true)
					select {
					case <-sr.done:
						sr.receipt.Store(clk.tick())
						sr.recvd.Add(1)
						s.waiting.Store(false)
					case <-abort:
						return
					}
				}
			}
		}(s)
	}

	invs := make([][]*invRec, o.InvSend)
	var invFinished, invWaiting atomic.Int32
	for i := range invs {
		ir := r.Fork()
		for j := 0; j < o.InvEach; j++ {
			v := &invRec{block: ir.Chance(1, 5)}
			ir.Fill(v.hash[:])
			v.hash[0], v.hash[1] = byte(i), byte(j)
			invs[i] = append(invs[i], v)
		}
		wg.Add(1)
		go func(list []*invRec, ir *mon.Rand) {
			defer wg.Done()
			defer invFinished.Add(1)
			defer recoverTo("inv-sender")
			invWaiting.Add(1)
			select {
			case <-startCh:
			case <-abort:
				return
			}
			invWaiting.Add(-1)
			for _, v := range list {
				select {
				case <-abort:
					return
				default:
				}
				if ir.Chance(1, 3) {
					runtime.Gosched()
				}
				t := wire.InvTypeTx
				if v.block {
					t = wire.InvTypeBlock
				}
				v.call.Store(clk.tick())
				p.QueueInventory(wire.NewInvVect(t, &v.hash))
				v.ret.Store(clk.tick())
			}
		}(invs[i], ir)
	}

	// remote traffic: valid pings, which the peer answers with pongs that interleave with the senders
	var remotePings []uint64
	for i := 0; i < o.RemotePgs; i++ {
		remotePings = append(remotePings, remoteTag|uint64(i+1))
	}
	trafficDone := make(chan struct{})
	hsWritten := make(chan struct{})
	var v2r *v2remote
	v2done := make(chan struct{})
	hsFailCh := make(chan struct{})
	var hsErr error // written by the v2 remote goroutine before it closes hsFailCh
	remoteSend := func(m wire.Message) error {
		if v2r != nil {
			return v2r.send(m)
		}
		_, err := remote.Write(frame(uint32(params.Net), m.Command(), payloadOf(m, wire.ProtocolVersion)))
		return err
	}
	peerOutput := func() (msgs []wmsg, partial bool, err error) {
		if v2r != nil {
			return v2r.snapshot(), v2r.stoppedEarly(), nil
		}
		data, marks := local.captured()
		return decodeCapture(data, marks, params.Net)
	}
	if transport == tpV2 {
		v2r = newV2Remote(local, remote, clk)
		v2nonce := r.Uint64() | 1<<62 // drawn here: the case PRNG is never used from another goroutine
		var decoys []int
		for n := r.Intn(3); n > 0; n-- {
			decoys = append(decoys, r.Intn(100))
		}
		go func() {
			defer close(v2done)
			defer recoverTo("remote-v2")
			if err := v2r.handshake(o.Inbound, o.Garbage, decoys, params.Net); err != nil {
				hsErr = err
				close(hsFailCh)
				return
			}
			v := wire.NewMsgVersion(wire.NewNetAddressIPPort(net.IPv4(10, 0, 0, 2), 8333, 0), wire.NewNetAddressIPPort(net.IPv4(10, 0, 0, 1), 8333, 0), v2nonce, 1234)
			v.Services = wire.SFNodeNetwork | wire.SFNodeWitness | wire.SFNodeP2PV2
			// from here on the ciphers are set up: whatever happens to the sends, everything the peer
			// writes must be read (from the capture), or the wire view of this case would be empty
			defer v2r.readLoop()
			for _, m := range []wire.Message{v, wire.NewMsgVerAck(), wire.NewMsgPing(warmupID)} {
				if err := v2r.send(m); err != nil {
					hsErr = err
					close(hsFailCh)
					return
				}
			}
			close(hsWritten)
		}()
	} else {
		close(v2done)
	}
	tr := r.Fork()
	go func() {
		defer close(trafficDone)
		defer recoverTo("remote-traffic")
		select {
		case <-startCh:
		case <-abort:
			return
		}
		select {
		case <-hsWritten: // a correct remote sends nothing before its version and verack
		case <-abort:
			return
		}
		for _, id := range remotePings {
			if tr.Bool() {
				sleepUs(pickDelay(tr, 500))
			}
			if err := remoteSend(wire.NewMsgPing(id)); err != nil {
				return
			}
		}
	}()

	// ---- run ----
	var causeStamp atomic.Int64
	markCause := func() { causeStamp.CompareAndSwap(0, clk.tick()) }
	if start == startBeforeConn {
		fireStart()
		runtime.Gosched()
	}
	if !o.LateHS && transport != tpV2 {
		remote.Write(hsBytes)
		close(hsWritten)
	}
	p.AssociateConnection(local)
	assocRet := clk.tick()
	// observer: the flag getters must be race-free and monotonic under any timing
	obsStop := make(chan struct{})
	obsDone := make(chan struct{})
	var obsViol atomic.Value
	var obsCalls atomic.Int64
	obr := r.Fork()
	go func() {
		defer close(obsDone)
		defer recoverTo("observer")
		var sawVer, sawAck, sawConn, sawDisc bool
		for {
			select {
			case <-obsStop:
				return
			default:
			}
			vk, va, cn, pv := p.VersionKnown(), p.VerAckReceived(), p.Connected(), p.ProtocolVersion()
			if va {
				// (before the handshake is over StatsSnapshot reads configuration fields that
				// AssociateConnection and the v2->v1 downgrade still write; see the report)
				_ = p.StatsSnapshot()
				_ = p.LastPingNonce()
			}
			obsCalls.Add(1)
			switch {
			case sawVer && !vk:
				obsViol.Store("VersionKnown() went back to false")
			case sawAck && !va:
				obsViol.Store("VerAckReceived() went back to false")
			case sawDisc && cn:
				obsViol.Store("Connected() became true again after a disconnect")
			case vk && pv != wire.ProtocolVersion:
				obsViol.Store(fmt.Sprintf("ProtocolVersion()=%d after the version exchange with a %d remote", pv, wire.ProtocolVersion))
			}
			sawVer, sawAck = sawVer || vk, sawAck || va
			if sawConn && !cn {
				sawDisc = true
			}
			sawConn = sawConn || cn
			if obr.Chance(1, 3) {
				runtime.Gosched()
			} else {
				sleepUs(pickDelay(obr, 200))
			}
		}
	}()
	if start == startAfterAssoc {
		fireStart()
	}
	if o.LateHS {
		sleepUs(pickDelay(r, 500))
		remote.Write(hsBytes)
		close(hsWritten)
	}
	warm := true
	if start == startWarm {
		warm = settle(settleBudget, func() bool {
			if !p.Connected() {
				return true
			}
			select {
			case <-hsFailCh:
				return true
			default:
			}
			msgs, _, _ := peerOutput()
			for _, m := range msgs {
				if pg, ok := m.msg.(*wire.MsgPong); ok && pg.Nonce == warmupID {
					return true
				}
			}
			return false
		})
		fireStart()
	}
	allQueued := make(chan struct{})
	go func() {
		wg.Wait()
		close(allQueued)
	}()

	// the disrupter (this goroutine): wait for the logical trigger point, then apply the cause
	tmr := time.NewTimer(disconnectWatchdog)
	select {
	case <-trig:
	case <-allQueued:
	case <-p.Done():
	case <-hsFailCh:
	case <-tmr.C:
		k.Count(fam+".watchdog-trigger", 1)
	}
	tmr.Stop()
	drainOK := false
	if cause == causeDrain {
		// nothing has disturbed the connection: every message must be written and signalled
		drainOK = true
		tm := time.NewTimer(disconnectWatchdog)
		select {
		case <-allQueued:
		case <-tm.C:
			drainOK = false
		}
		for _, s := range senders {
			for _, sr := range s.recs {
				if sr.done == nil || sr.recvd.Load() > 0 || !drainOK {
					continue
				}
				select {
				case <-sr.done:
					sr.receipt.Store(clk.tick())
					sr.recvd.Add(1)
				case <-tm.C:
					drainOK = false
				}
			}
		}
		tm.Stop()
	}
	if r.Bool() {
		sleepUs(pickDelay(r, 300))
	}
	// Did the peer hang up (or start to: the disconnect flag is raised before the quit channel is
	// closed) before anything was injected?
	spontaneous := false
	hungUp := !p.Connected()
	select {
	case <-p.Done():
		hungUp = true
	default:
	}
	if hungUp {
		select {
		case <-hsFailCh: // the remote's own transport handshake failed (disconnect during it)
		default:
			spontaneous = true
		}
	}
	markCause()
	switch cause {
	case causeDisconnect, causeDrain:
		p.Disconnect()
	case causeDisconnect3:
		var dw sync.WaitGroup
		for i := 0; i < 3; i++ {
			dw.Add(1)
			go func() { defer dw.Done(); defer recoverTo("disconnect"); p.Disconnect() }()
		}
		dw.Wait()
	case causeRemoteClose:
		remote.Close()
	case causeRemoteEOF:
		remote.CloseWrite()
	case causeWriteFault:
		hk.failWrite.Store(true)
		// guarantees that one more write is attempted (from its own goroutine: on a peer whose
		// handlers never started a full queue blocks the caller forever — the census reports that)
		go func() { defer recoverTo("poke"); p.QueueMessage(wire.NewMsgPing(pokeID), nil) }()
	case causeReadFault:
		hk.failRead.Store(true)
		local.kickRead()
	case causeDisconnectAndClose:
		var dw sync.WaitGroup
		dw.Add(2)
		go func() { defer dw.Done(); defer recoverTo("disconnect"); p.Disconnect() }()
		go func() { defer dw.Done(); remote.Close() }()
		dw.Wait()
	}

	disconnected, stuckND, snapND := ps.waitDone(p)
	if !disconnected {
		if !stuckND {
			inconclusive(k, "no-disconnect-within-watchdog-but-process-not-quiescent")
		} else {
			k.Violation("shutdown:no-disconnect:"+o.Cause, fmt.Sprintf("the peer did not disconnect after %s and every goroutine of the process is parked:\n%s", o.Cause, stacksOf(snapND.peer)), nil)
		}
		p.Disconnect()
	}
	p.WaitForDisconnect()
	close(obsStop)
	<-obsDone
	if !local.closed.Load() {
		k.Failf("shutdown:conn-not-closed", "WaitForDisconnect returned but the peer never closed its connection")
		local.Close()
	}
	remote.Close()
	<-v2done // the v2 remote ends when the stream ends

	// quiescence: no goroutine in the peer package, every sender finished or parked on its done
	// channel, and the case clock did not move between two polls — or the final all-parked state
	// with goroutines left in the peer package (stuck)
	last := int64(-1)
	var sn snapshot
	var det stuckDetector
	stuck := false
	quiet := settle(settleBudget, func() bool {
		sn = takeSnapshot(ps.excl)
		if len(sn.peer) != 0 {
			last = -1
			if det.observe(sn) {
				stuck = true
				return true
			}
			return false
		}
		det.streak = 0
		for _, s := range senders {
			if !s.finished.Load() && !s.waiting.Load() {
				last = -1
				return false
			}
		}
		if int(invFinished.Load()+invWaiting.Load()) != len(invs) {
			last = -1
			return false
		}
		now := clk.now()
		if now != last {
			last = now
			return false
		}
		return true
	})
	close(abort)
	<-trafficDone
	var gs []gor
	if quiet && !stuck {
		<-allQueued
		k.Count("census.clean", 1)
	} else {
		// a goroutine is stuck in the peer package (or a harness sender inside QueueMessage)
		if !quiet {
			sn = takeSnapshot(ps.excl)
		}
		gs = sn.peer
		if len(gs) == 0 {
			inconclusive(k, "senders-not-quiescent")
		} else {
			ps.reportLeaks(k, sn, stuck)
		}
		settle(time.Second, func() bool {
			for _, s := range senders {
				if !s.finished.Load() {
					return false
				}
			}
			return true
		})
	}

	// ---- offline oracle ----
	tdisc := causeStamp.Load()
	if spontaneous {
		// The peer hung up before anything was injected. The only legitimate reason on a connection
		// with a well-behaved remote is one of peer.go's own wall-clock timeouts (30 s negotiation
		// on a heavily loaded machine), which are never judged: no obligation can be anchored to a
		// disconnect request in this case, so only the unconditional checks apply.
		tdisc = 0
		k.Count(fam+".peer-hung-up-before-cause(not judged)", 1)
	}
	if fs := hk.faultStamp.Load(); fs != 0 && fs < tdisc {
		tdisc = fs
	}
	msgs, partial, derr := peerOutput()
	// without a completed transport handshake the remote cannot decrypt what the peer wrote: checks
	// that rely on a message being absent from the wire are skipped for such a case
	wireView := v2r == nil || v2r.started()
	if !wireView {
		k.Count(fam+".no-wire-view(remote v2 handshake did not complete)", 1)
	}
	ctx := fmt.Sprintf("%s %s start=%s cause=%s senders=%d trigger=%d; peer goroutines still parked at the end of this case: %s", fam, dirName(o.Inbound), o.Start, o.Cause, o.Senders, o.Trigger, leakSummary(gs))
	if v2r != nil {
		ctx += fmt.Sprintf("; v2 remote reader ended with: %s after %d messages; hung-up-before-cause=%v", v2r.endClass(), len(msgs), spontaneous)
	}
	if derr != nil {
		k.Failf("wire:malformed-frame", "the peer wrote a malformed frame: %v; %s", derr, ctx)
	}
	if partial {
		k.Count(fam+".partial-trailing-frame", 1)
	}
	if v2r != nil {
		k.Count(fam+".v2-reader-end:"+v2r.endClass(), 1)
	}
	byID := map[uint64]*sendRec{}
	owner := map[uint64][2]int{}
	for _, s := range senders {
		for j, sr := range s.recs {
			byID[sr.id] = sr
			owner[sr.id] = [2]int{s.idx, j}
		}
	}
	invByHash := map[chainhash.Hash][2]int{}
	for i, l := range invs {
		for j, v := range l {
			invByHash[v.hash] = [2]int{i, j}
		}
	}
	onWire := map[uint64]int{}
	next := make([]int, len(senders))
	var wireSenders []byte
	var maxCall int64
	var pongs []uint64
	invSeen := map[chainhash.Hash]bool{}
	lastInv := map[[2]int]int{} // (inv sender, type) -> last index seen
	hbChecked := int64(0)
	for pos, m := range msgs {
		switch mm := m.msg.(type) {
		case *wire.MsgPing:
			if mm.Nonce == pokeID {
				continue
			}
			sr, ok := byID[mm.Nonce]
			if !ok {
				k.Failf("fifo:phantom-message", "ping %x on the wire was never queued; %s", mm.Nonce, ctx)
				continue
			}
			if _, dup := onWire[mm.Nonce]; dup {
				k.Failf("fifo:duplicate-on-wire", "message %x was transmitted twice; %s", mm.Nonce, ctx)
				continue
			}
			onWire[mm.Nonce] = pos
			ow := owner[mm.Nonce]
			wireSenders = append(wireSenders, byte(ow[0]))
			if ow[1] < next[ow[0]] {
				k.Failf("fifo:per-sender-order", "sender %d: message #%d transmitted after #%d; %s", ow[0], ow[1], next[ow[0]]-1, ctx)
			} else if ow[1] > next[ow[0]] && senders[ow[0]].recs[ow[1]-1].call.Load() > assocRet {
				// (a message queued before the connection was associated is legally dropped)
				k.Failf("fifo:gap", "sender %d: message #%d transmitted although #%d (queued earlier by the same goroutine) never was; %s", ow[0], ow[1], next[ow[0]], ctx)
			}
			if ow[1] >= next[ow[0]] {
				next[ow[0]] = ow[1] + 1
			}
			// happens-before: nothing transmitted earlier may have been queued by a call that
			// started after this message's QueueMessage call had returned
			if rt := sr.ret.Load(); rt != 0 {
				hbChecked++
				if maxCall > rt {
					k.Failf("fifo:happens-before-inversion", "message %x (QueueMessage returned at stamp %d) was transmitted after a message whose QueueMessage call began at stamp %d; %s", mm.Nonce, rt, maxCall, ctx)
				}
			}
			if cl := sr.call.Load(); cl > maxCall {
				maxCall = cl
			}
		case *wire.MsgPong:
			pongs = append(pongs, mm.Nonce)
		case *wire.MsgInv:
			for _, iv := range mm.InvList {
				ow, ok := invByHash[iv.Hash]
				if !ok {
					k.Failf("inv:phantom", "inventory %v on the wire was never queued; %s", iv.Hash, ctx)
					continue
				}
				v := invs[ow[0]][ow[1]]
				if (iv.Type == wire.InvTypeBlock) != v.block {
					k.Failf("inv:type-changed", "inventory %v changed type; %s", iv.Hash, ctx)
				}
				if invSeen[iv.Hash] {
					k.Failf("inv:duplicate", "inventory %v announced twice; %s", iv.Hash, ctx)
				}
				invSeen[iv.Hash] = true
				key := [2]int{ow[0], int(iv.Type)}
				if li, ok := lastInv[key]; ok && li > ow[1] {
					k.Failf("inv:order", "inventory sender %d: item #%d announced after #%d; %s", ow[0], ow[1], li, ctx)
				}
				lastInv[key] = ow[1]
			}
		case *wire.MsgVersion, *wire.MsgVerAck, *wire.MsgSendAddrV2, *wire.MsgReject:
		default:
			k.Failf("wire:unexpected-command:"+m.cmd, "the peer wrote a %s message nobody asked for; %s", m.cmd, ctx)
		}
	}
	// pongs answer the remote's pings in order, at most once
	{
		want := append([]uint64{warmupID}, remotePings...)
		j := 0
		for _, pg := range pongs {
			for j < len(want) && want[j] != pg {
				j++
			}
			if j >= len(want) {
				k.Failf("wire:pong-unmatched", "pong %x answers no ping (or is out of order / duplicated); pongs %x; %s", pg, pongs, ctx)
				break
			}
			j++
		}
		// OnPing callbacks: same order as sent
		j = 0
		for _, e := range rec.events() {
			if e.kind != "ping" {
				if e.kind != "version" && e.kind != "verack" && e.kind != "sendaddrv2" {
					k.Failf("traffic:unexpected-callback:"+e.kind, "callback %s although the remote only sent pings; %s", e.kind, ctx)
				}
				continue
			}
			if !e.verKn || !e.verAck {
				k.Failf("handshake:callback-before-handshake:ping", "OnPing while VersionKnown=%v VerAckReceived=%v; %s", e.verKn, e.verAck, ctx)
			}
			for j < len(want) && want[j] != e.id {
				j++
			}
			if j >= len(want) {
				k.Failf("traffic:ping-callback-order", "OnPing(%x) out of order or duplicated; %s", e.id, ctx)
				break
			}
			j++
		}
	}
	// completion signals
	var once, dropped, missing, nQueued int64
	for _, s := range senders {
		for j, sr := range s.recs {
			if sr.call.Load() == 0 {
				continue
			}
			nQueued++
			if sr.done == nil {
				continue
			}
			n := int(sr.recvd.Load()) + len(sr.done)
			_, sent := onWire[sr.id]
			rt := sr.ret.Load()
			switch {
			case n >= 2:
				k.Failf("fifo:done-signalled-twice", "sender %d message #%d: completion signalled %d times; %s", s.idx, j, n, ctx)
			case n == 1:
				once++
				if !sent {
					dropped++
				}
				if rc := sr.receipt.Load(); rc != 0 && rc < tdisc && !sent && wireView && sr.call.Load() > assocRet {
					k.Failf("fifo:signalled-but-not-sent", "sender %d message #%d: completion signalled at stamp %d, before anything disturbed the connection (stamp %d), but the message is not on the wire; %s", s.idx, j, rc, tdisc, ctx)
				}
			case n == 0 && rt != 0 && rt < tdisc:
				missing++
				stuck := "no-handler-stuck"
				for _, g := range gs {
					if strings.Contains(g.fn, "Handler") {
						stuck = "handler-stuck"
					}
				}
				// were the peer's handlers ever seen running (the warm-up ping was answered, a queued message or a pong
				// reached the wire)? If not, Peer.start() may have returned without starting them (a recorded finding);
				// if they were, a lost completion signal is a different defect
				ran := "handlers-not-observed"
				if start == startWarm || len(onWire) > 0 || len(pongs) > 0 {
					ran = "handlers-ran"
				}
				k.Failf("fifo:done-never-signalled:"+fam+":"+stuck+":"+ran, "sender %d message #%d (sent on the wire: %v): QueueMessage returned at stamp %d, the first disconnect cause (%s) came at stamp %d, "+
					"all peer goroutines have ended (or are stuck, see shutdown:*), and the done channel was never signalled; %s", s.idx, j, sent, rt, o.Cause, tdisc, ctx)
			}
		}
	}
	if cause == causeDrain {
		if !drainOK {
			k.Failf("fifo:done-never-signalled-on-live-connection", "nothing disturbed the connection, yet not every completion signal arrived within the watchdog; %s", ctx)
		} else {
			for _, s := range senders {
				for j, sr := range s.recs {
					if _, sent := onWire[sr.id]; !sent && sr.done != nil && !spontaneous && wireView {
						k.Failf("fifo:lost-on-live-connection", "sender %d message #%d was signalled complete on an undisturbed connection but is not on the wire; %s", s.idx, j, ctx)
					}
				}
			}
			k.Count(fam+".drained-completely", 1)
		}
	}

	k.Count(fam+".cases", 1)
	k.Count(fam+".transport."+o.Transport, 1)
	k.Count(fam+".observer-polls", obsCalls.Load())
	if v := obsViol.Load(); v != nil {
		k.Failf("flags:non-monotonic", "%s; %s", v.(string), ctx)
	}
	select {
	case <-hsFailCh:
		k.Count(fam+".remote-v2-handshake-failed", 1)
		if e := fmt.Sprint(hsErr); !strings.Contains(e, "closed") && !strings.Contains(e, "EOF") && !strings.Contains(e, "injected") && !strings.Contains(e, "broken pipe") {
			// anything but "the connection went away during the handshake" is worth a note
			k.C.Note(fmt.Sprintf("v2 remote handshake failed in %s %d: %v", k.Family, k.Index, hsErr))
		}
	default:
	}
	k.Count(fam+".cause."+o.Cause, 1)
	k.Count(fam+".start."+o.Start, 1)
	k.Count(fam+".msgs.queued", nQueued)
	k.Count(fam+".msgs.on-wire", int64(len(onWire)))
	k.Count(fam+".done.exactly-once", once)
	k.Count(fam+".done.signalled-without-send(legal after disconnect)", dropped)
	k.Count(fam+".happens-before-pairs-checked", hbChecked)
	k.Count(fam+".pongs", int64(len(pongs)))
	k.Count(fam+".inv.on-wire", int64(len(invSeen)))
	k.Count(fam+".injected-delays", hk.delays.Load())
	if !warm {
		// not a verdict: the senders simply started while the handshake was still in flight
		k.Count(fam+".warmup-wait-budget-expired", 1)
	}
	_ = missing
	// event-order fingerprint: which sender's message went out in which order, and how it ended
	delivered := append([]int(nil), next...)
	sort.Ints(delivered)
	fp := mon.Sig(fam, o.Cause, o.Start, string(wireSenders), fmt.Sprint(delivered), once, dropped, len(pongs), len(invSeen))
	ps.noteOrder(fp)
	k.Eval(fp, len(onWire) > 0)
	if len(onWire) > 20 {
		k.Sample(map[string]any{"family": fam, "cause": o.Cause, "start": o.Start, "senders": o.Senders, "queued": nQueued, "on_wire": len(onWire), "done_once": once})
	}
}
