package main

// Handshake families: a scripted remote runs one symbol script against a fresh inbound or outbound
// peer; the observed typed callbacks, peer flags, negotiated version, the peer's own output stream
// and the goroutine census are compared with the Appendix-C automaton (model.go).

import (
	"fmt"
	"net"
	"runtime"
	"strings"
	"sync"
	"time"

	"verif/mon"

	"github.com/btcsuite/btcd/chaincfg/v2"
	"github.com/btcsuite/btcd/peer"
	"github.com/btcsuite/btcd/wire/v2"
)

const (
	disconnectWatchdog = 20 * time.Second // below every timeout of peer.go (30 s .. 5 min), which are never waited for
	settleBudget       = 10 * time.Second
)

// procState is the per-process state that survives cases: goroutines that leaked in an earlier case
// (and were reported there) are not counted again.
type procState struct {
	mu     sync.Mutex
	excl   map[uint64]bool
	orders map[uint64]struct{} // distinct event-order fingerprints seen by this process
	base   int                 // runtime.NumGoroutine() when the current case started (0 = unknown)
	skips  int
}

func (ps *procState) noteOrder(fp uint64) {
	ps.mu.Lock()
	ps.orders[fp] = struct{}{}
	ps.mu.Unlock()
}

var netTable = []struct {
	name   string
	params *chaincfg.Params
}{
	{"mainnet", &chaincfg.MainNetParams},
	{"testnet3", &chaincfg.TestNet3Params},
	{"regtest-remote", &chaincfg.RegressionNetParams}, // non-loopback address: no "allowed test errors"
	{"simnet", &chaincfg.SimNetParams},
}

var localPvers = []uint32{0, 0, 0, 70016, 70015, 70013, 70012, 70002, 70001, 60002}

type hsOpts struct {
	Inbound       bool   `json:"inbound"`
	Net           string `json:"net"`
	LocalPver     uint32 `json:"local_pver"`
	AllowSelf     bool   `json:"allow_self,omitempty"`
	RejectVersion bool   `json:"reject_version,omitempty"`
	Lossy         bool   `json:"lossy,omitempty"` // remote ends with a full close: prefix semantics
	Mode          int    `json:"mode"`            // 0 prewritten, 1 symbol by symbol, 2 fragmented
	ReadChunk     int    `json:"read_chunk,omitempty"`
	ReadDelayN    int    `json:"read_delay_n,omitempty"`
	WriteDelayN   int    `json:"write_delay_n,omitempty"`
	MaxDelayUs    int    `json:"max_delay_us,omitempty"`
	CbDelayN      int    `json:"cb_delay_n,omitempty"`
	NoStall       bool   `json:"disable_stall,omitempty"`
	Witness       bool   `json:"witness,omitempty"`
	Script        []sym  `json:"script"`
	netIdx        int
}

func drawHSOpts(r *mon.Rand, inbound bool, script []sym) hsOpts {
	o := hsOpts{Inbound: inbound, Script: script}
	o.netIdx = r.Intn(len(netTable))
	o.Net = netTable[o.netIdx].name
	o.LocalPver = localPvers[r.Intn(len(localPvers))]
	o.AllowSelf = r.Chance(1, 6)
	o.RejectVersion = r.Chance(1, 24)
	o.Lossy = r.Chance(1, 6)
	o.Mode = r.Intn(3)
	switch r.Intn(6) {
	case 0:
		o.ReadChunk = 1
	case 1:
		o.ReadChunk = 7
	case 2:
		o.ReadChunk = 40
	}
	if r.Chance(1, 3) {
		o.ReadDelayN = 4
		if o.ReadChunk > 0 && o.ReadChunk < 40 {
			o.ReadDelayN = 40
		}
	}
	if r.Chance(1, 3) {
		o.WriteDelayN = 3
	}
	o.MaxDelayUs = []int{30, 200, 1000}[r.Intn(3)]
	if r.Chance(1, 3) {
		o.CbDelayN = 2
	}
	o.NoStall = r.Chance(1, 4)
	o.Witness = r.Bool()
	return o
}

func effPver(v uint32) uint32 {
	if v == 0 {
		return peer.MaxProtocolVersion
	}
	return v
}

// selfNonceViaHelper makes this process send a version message from another outbound peer, which
// is how a node ends up connecting to itself; the nonce of that message is returned.
func selfNonceViaHelper(params *chaincfg.Params) (uint64, error) {
	clk := &clock{}
	l, rm := newPair(clk, nil, &net.TCPAddr{IP: net.IPv4(10, 0, 0, 1), Port: 40000}, &net.TCPAddr{IP: net.IPv4(10, 9, 9, 9), Port: 8333})
	hp, err := peer.NewOutboundPeer(&peer.Config{ChainParams: params, UserAgentName: "verif", UserAgentVersion: "0.0.1"}, "10.9.9.9:8333")
	if err != nil {
		return 0, err
	}
	hp.AssociateConnection(l)
	nonce, err := waitLocalVersionNonce(l, params.Net)
	hp.Disconnect()
	rm.Close()
	return nonce, err
}

// waitLocalVersionNonce waits until the local end has written a complete version frame.
func waitLocalVersionNonce(l *Conn, magic wire.BitcoinNet) (uint64, error) {
	var nonce uint64
	var derr error
	ok := settle(settleBudget, func() bool {
		if l.capturedLen() < 24 {
			return false
		}
		data, marks := l.captured()
		msgs, _, err := decodeCapture(data, marks, magic)
		if err != nil {
			derr = err
			return true
		}
		if len(msgs) == 0 {
			return false
		}
		v, isV := msgs[0].msg.(*wire.MsgVersion)
		if !isV {
			derr = fmt.Errorf("first message written is %s, not version", msgs[0].cmd)
			return true
		}
		nonce = v.Nonce
		return true
	})
	if !ok {
		return 0, fmt.Errorf("outbound peer wrote no version message")
	}
	return nonce, derr
}

// waitDone waits for the peer's quit channel. It returns (true, _) when the peer disconnected,
// (false, true) when the process reached the final all-parked state without it (the peer will never
// disconnect short of a peer.go timeout), (false, false) when the watchdog budget ran out.
func (ps *procState) waitDone(p *peer.Peer) (done, stuck bool, sn snapshot) {
	var det stuckDetector
	polls := 0
	ok := settle(disconnectWatchdog, func() bool {
		select {
		case <-p.Done():
			done = true
			return true
		default:
		}
		polls++
		if polls < 40 || polls%4 != 0 {
			return false // give the peer time before paying for stop-the-world snapshots
		}
		sn = takeSnapshot(ps.excl)
		if det.observe(sn) {
			stuck = true
			return true
		}
		return false
	})
	_ = ok
	return done, stuck, sn
}

// inconclusive marks the run as inconclusive (a Require that can never be met).
func inconclusive(k *mon.Case, what string) {
	k.Count("inconclusive."+what, 1)
	k.C.Require("inconclusive-events-resolved("+what+")", 1)
}

// checkShutdown: after disconnect and closure of both conn ends every goroutine with a peer frame
// must end. Returns the number of goroutines still alive.
func (ps *procState) checkShutdown(k *mon.Case, fam string) int {
	var sn snapshot
	var det stuckDetector
	stuck := false
	ok := settle(settleBudget, func() bool {
		// cheap pre-check: while more goroutines exist than before the case started, some
		// goroutine of the case is still alive and the (stop-the-world) census can wait a little
		if ps.base > 0 && det.streak == 0 && runtime.NumGoroutine() > ps.base && ps.skips < 8 {
			ps.skips++
			return false
		}
		ps.skips = 0
		sn = takeSnapshot(ps.excl)
		if len(sn.peer) == 0 {
			return true
		}
		if det.observe(sn) {
			stuck = true
			return true
		}
		return false
	})
	if ok && !stuck {
		k.Count("census.clean", 1)
		return 0
	}
	if !ok {
		sn = takeSnapshot(ps.excl)
		if len(sn.peer) == 0 {
			k.Count("census.clean", 1)
			return 0
		}
	}
	return ps.reportLeaks(k, sn, stuck)
}

// reportLeaks turns the goroutines that survived into violations — if the process was observed in
// the final all-parked state — or into an inconclusive mark (something was still runnable when the
// watchdog budget ran out), and excludes them from the census of later cases.
func (ps *procState) reportLeaks(k *mon.Case, sn snapshot, final bool) int {
	for _, g := range sn.peer {
		ps.excl[g.id] = true
	}
	if !final {
		inconclusive(k, "goroutines-still-active-after-settle-budget")
		return len(sn.peer)
	}
	for _, g := range sn.peer {
		cls := "goroutine-leak"
		if strings.Contains(g.fn, "Queue") {
			cls = "caller-blocked-forever"
		}
		k.Violation(fmt.Sprintf("shutdown:%s:%s:%s", cls, g.fn, g.state),
			fmt.Sprintf("after WaitForDisconnect returned and both conn ends were closed, this goroutine is parked in the peer package while every other goroutine of the process is parked too (nothing can wake it):\n%s", g.stack), nil)
		k.Count("census.leak."+g.fn+":"+g.state, 1)
	}
	k.Count("census.cases-with-leaks", 1)
	return len(sn.peer)
}

func stacksOf(gs []gor) string {
	var b strings.Builder
	for _, g := range gs {
		b.WriteString(g.stack + "\n\n")
	}
	return b.String()
}

func leakSummary(gs []gor) string {
	var parts []string
	for _, g := range gs {
		parts = append(parts, g.fn+" ["+g.state+"]")
	}
	if len(parts) == 0 {
		return "none"
	}
	return strings.Join(parts, ", ")
}

func kindsOf(script []sym) string {
	var b strings.Builder
	for i, s := range script {
		if i > 0 {
			b.WriteByte(' ')
		}
		b.WriteString(s.Name)
		if s.Pver != 0 || s.Kind == symVerOld {
			fmt.Fprintf(&b, "(%d)", s.Pver)
		}
	}
	return b.String()
}

func runHandshake(k *mon.Case, ps *procState, o hsOpts) {
	r := k.Rand
	ps.base = runtime.NumGoroutine()
	if debugTiming {
		t0 := time.Now()
		defer func() {
			fmt.Printf("case %s %d took %v mode=%d chunk=%d rd=%d wd=%d max=%d cb=%d lossy=%v\n", k.Family, k.Index, time.Since(t0), o.Mode, o.ReadChunk, o.ReadDelayN, o.WriteDelayN, o.MaxDelayUs, o.CbDelayN, o.Lossy)
		}()
	}
	k.Desc(o)
	params := netTable[o.netIdx].params
	lc := localCfg{pver: effPver(o.LocalPver), allowSelf: o.AllowSelf, minAcceptable: wire.MultipleAddressVersion, rejectVersion: o.RejectVersion}
	exp := model(lc, o.Script)

	clk := &clock{}
	hk := &hooks{clk: clk, rr: r.Fork(), wr: r.Fork(), readChunk: o.ReadChunk, readDelayN: o.ReadDelayN,
		writeDelayN: o.WriteDelayN, maxDelayUs: o.MaxDelayUs}
	rec := newRecorder(clk, r.Fork(), o.CbDelayN, o.MaxDelayUs)
	rec.rejectVersion = o.RejectVersion

	localAddr := &net.TCPAddr{IP: net.IPv4(10, 0, 0, 1), Port: 18555}
	remoteAddr := &net.TCPAddr{IP: net.IPv4(10, 0, 0, 2), Port: 8333}
	local, remote := newPair(clk, hk, localAddr, remoteAddr)

	cfg := &peer.Config{
		ChainParams:         params,
		ProtocolVersion:     o.LocalPver,
		UserAgentName:       "verif",
		UserAgentVersion:    "1.0.0",
		Services:            wire.SFNodeNetwork | wire.SFNodeWitness,
		Listeners:           rec.listeners(),
		TrickleInterval:     time.Millisecond,
		AllowSelfConns:      o.AllowSelf,
		DisableStallHandler: o.NoStall,
	}
	var p *peer.Peer
	if o.Inbound {
		p = peer.NewInboundPeer(cfg)
	} else {
		var err error
		p, err = peer.NewOutboundPeer(cfg, remoteAddr.String())
		if err != nil {
			k.Failf("harness:new-outbound-peer", "%v", err)
			return
		}
	}

	rc := &remoteCtx{net: params.Net, pver: exp.negotiated, nonce: r.Uint64() | 1<<62}
	if o.Witness {
		rc.services = wire.SFNodeNetwork | wire.SFNodeWitness
	} else {
		rc.services = wire.SFNodeNetwork
	}
	needSelf := false
	for _, s := range o.Script[:exp.consumed] {
		if s.Kind == symVerSelf {
			needSelf = true
		}
	}
	mode := o.Mode
	associated := false
	associate := func() {
		if !associated {
			associated = true
			p.AssociateConnection(local)
		}
	}
	if needSelf {
		if o.Inbound {
			n, err := selfNonceViaHelper(params)
			if err != nil {
				k.Failf("handshake:outbound-no-version", "helper outbound peer: %v", err)
				return
			}
			rc.selfNonce = n
		} else {
			associate()
			n, err := waitLocalVersionNonce(local, params.Net)
			if err != nil {
				k.Failf("handshake:outbound-no-version", "%v", err)
				p.Disconnect()
				remote.Close()
				ps.checkShutdown(k, k.Family)
				return
			}
			rc.selfNonce = n
		}
	}

	// the byte stream of the remote
	var chunks [][]byte
	for _, s := range o.Script[:exp.consumed] {
		chunks = append(chunks, rc.encode(s))
	}
	pause := func() {
		switch r.Intn(3) {
		case 1:
			runtime.Gosched()
		case 2:
			sleepUs(pickDelay(r, 300))
		}
	}
	switch mode {
	case 0:
		for _, c := range chunks {
			remote.Write(c)
		}
	case 1:
		associate()
		for _, c := range chunks {
			pause()
			remote.Write(c)
		}
	default:
		var all []byte
		for _, c := range chunks {
			all = append(all, c...)
		}
		if r.Bool() {
			associate()
		}
		for len(all) > 0 {
			n := 1 + r.Intn(len(all))
			if r.Chance(1, 3) && len(all) > 30 {
				n = 1 + r.Intn(30)
			}
			remote.Write(all[:n])
			all = all[n:]
			pause()
		}
	}
	selfHangup := exp.refusedAt >= 0
	streamEnded := false // the harness ended the remote's stream (otherwise the peer must hang up by itself)
	if o.Lossy {
		if !selfHangup || r.Bool() {
			if r.Bool() {
				associate()
				pause()
			}
			remote.Close()
			streamEnded = true
		}
	} else if !selfHangup {
		remote.CloseWrite()
		streamEnded = true
	}
	associate()

	disconnected, stuckNoDisc, snap := ps.waitDone(p)
	if !disconnected {
		why := "after-eof"
		if !streamEnded {
			why = exp.reason
		}
		if !stuckNoDisc {
			inconclusive(k, "no-disconnect-within-watchdog-but-process-not-quiescent")
		} else {
			k.Violation("handshake:no-disconnect:"+why,
				fmt.Sprintf("script [%s] (%s): the peer did not disconnect and every goroutine of the process is parked:\n%s",
					kindsOf(o.Script), dirName(o.Inbound), stacksOf(snap.peer)), nil)
		}
		p.Disconnect()
	}
	p.WaitForDisconnect()
	if !local.closed.Load() {
		k.Failf("shutdown:conn-not-closed", "WaitForDisconnect returned but the peer never closed its connection")
		local.Close()
	}
	remote.Close()
	leaks := ps.checkShutdown(k, k.Family)

	// ---- oracle ----
	evs := rec.events()
	k.Count("hs.cases", 1)
	k.Count("hs.dir."+dirName(o.Inbound), 1)
	if exp.refusedAt >= 0 {
		k.Count("hs.refused."+exp.reason, 1)
	} else if exp.handshakeDone {
		k.Count("hs.handshake-completed", 1)
	}
	for _, e := range evs {
		k.Count("hs.cb."+e.kind, 1)
	}
	ctx := func() string {
		var got []string
		for _, e := range evs {
			got = append(got, fmt.Sprintf("%s:%x", e.kind, e.id))
		}
		return fmt.Sprintf("%s script [%s] net=%s local_pver=%d allow_self=%v lossy=%v; callbacks %v",
			dirName(o.Inbound), kindsOf(o.Script), o.Net, lc.pver, o.AllowSelf, o.Lossy, got)
	}
	if disconnected {
		// (1) typed callbacks
		if key, detail := matchCallbacks(exp, evs, o.Lossy); key != "" {
			k.Failf("handshake:"+key, "%s; %s", detail, ctx())
		}
		for _, e := range evs {
			switch e.kind {
			case "version", "verack", "sendaddrv2":
			default:
				if !e.verKn || !e.verAck {
					k.Failf("handshake:callback-before-handshake:"+e.kind,
						"typed callback %s delivered while VersionKnown=%v VerAckReceived=%v; %s", e.kind, e.verKn, e.verAck, ctx())
				}
			}
		}
		// (2) flags and negotiated version
		if exp.versionAccepted && (!o.Lossy || p.VersionKnown()) {
			if !p.VersionKnown() {
				k.Failf("handshake:version-not-known", "version accepted but VersionKnown() is false; %s", ctx())
			}
			if got := p.ProtocolVersion(); got != exp.negotiated {
				k.Failf("handshake:negotiated-version", "ProtocolVersion()=%d, want min(local %d, remote %d)=%d; %s",
					got, lc.pver, exp.remotePver, exp.negotiated, ctx())
			}
			k.Count("hs.negotiated-checked", 1)
		}
		if p.VerAckReceived() && !exp.handshakeDone {
			k.Failf("handshake:verack-flag-without-handshake", "VerAckReceived() is true though the handshake cannot have completed; %s", ctx())
		}
		if exp.handshakeCertain && !o.Lossy && !p.VerAckReceived() {
			k.Failf("handshake:verack-flag-missing", "handshake completed but VerAckReceived() is false; %s", ctx())
		}
		// (3) what the peer wrote
		checkHSWire(k, local, params.Net, lc, exp, o, ctx)
	}
	_ = leaks
	sigParts := []any{k.Family, o.Inbound, kindsOf(o.Script), o.Net, lc.pver, o.AllowSelf, o.RejectVersion, o.Lossy}
	k.Eval(mon.Sig(sigParts...), len(o.Script) > 0)
	// event-order fingerprint: the order in which callbacks and the peer's writes happened
	ps.noteOrder(orderFingerprint(evs, local))
	if exp.handshakeDone && len(evs) > 3 {
		k.Sample(map[string]any{"family": k.Family, "dir": dirName(o.Inbound), "script": kindsOf(o.Script), "callbacks": len(evs), "negotiated": exp.negotiated})
	}
}

func dirName(inbound bool) string {
	if inbound {
		return "inbound"
	}
	return "outbound"
}

// orderFingerprint hashes the interleaving of listener callbacks with the peer's own writes.
func orderFingerprint(evs []cbEvent, local *Conn) uint64 {
	_, marks := local.captured()
	var b strings.Builder
	i, j := 0, 0
	for i < len(evs) || j < len(marks) {
		if j >= len(marks) || (i < len(evs) && evs[i].stamp < marks[j].stamp) {
			b.WriteString(evs[i].kind)
			b.WriteByte(',')
			i++
		} else {
			b.WriteString("w,")
			j++
		}
	}
	return mon.Sig("order", b.String())
}

func checkHSWire(k *mon.Case, local *Conn, magic wire.BitcoinNet, lc localCfg, exp expectation, o hsOpts, ctx func() string) {
	data, marks := local.captured()
	msgs, _, err := decodeCapture(data, marks, magic)
	if err != nil {
		k.Failf("wire:malformed-frame", "the peer wrote a malformed frame: %v; %s", err, ctx())
		return
	}
	nVer := 0
	var pongs []uint64
	for i, m := range msgs {
		k.Count("hs.wrote."+m.cmd, 1)
		switch mm := m.msg.(type) {
		case *wire.MsgVersion:
			nVer++
			if i != 0 && !o.Inbound {
				k.Failf("wire:version-not-first", "outbound peer wrote %s before its version; %s", msgs[0].cmd, ctx())
			}
			if uint32(mm.ProtocolVersion) != lc.pver {
				k.Failf("wire:advertised-version", "local version message advertises %d, configured %d; %s", mm.ProtocolVersion, lc.pver, ctx())
			}
		case *wire.MsgVerAck:
			if !exp.versionAccepted {
				why := exp.reason
				if why == "" {
					why = "no-version"
				}
				k.Failf("handshake:verack-sent:"+why, "the peer acknowledged a version it must refuse; %s", ctx())
			}
		case *wire.MsgPong:
			pongs = append(pongs, mm.Nonce)
		case *wire.MsgSendAddrV2, *wire.MsgReject:
		default:
			k.Failf("wire:unexpected-command:"+m.cmd, "the peer wrote a %s message nobody asked for; %s", m.cmd, ctx())
		}
	}
	if nVer > 1 {
		k.Failf("wire:version-sent-twice", "the peer wrote %d version messages; %s", nVer, ctx())
	}
	// pongs answer the pings of the script in order, at most once each
	var pings []uint64
	if exp.handshakeDone && exp.negotiated > wire.BIP0031Version {
		for _, c := range exp.cbs {
			if c.kind == "ping" {
				pings = append(pings, c.id)
			}
		}
	}
	j := 0
	for _, pg := range pongs {
		for j < len(pings) && pings[j] != pg {
			j++
		}
		if j >= len(pings) {
			k.Failf("wire:pong-unmatched", "pong %x answers no ping (or is out of order / duplicated); pings %x pongs %x; %s", pg, pings, pongs, ctx())
			break
		}
		j++
	}
}
