package main

import (
	"fmt"
	"net"
	"runtime"
	"sync/atomic"
	"time"

	"verif/mon"

	"github.com/btcsuite/btcd/peer"
	"github.com/btcsuite/btcd/wire/v2"
)

// stall family: the only family that waits for one of peer.go's own timers. After a completed handshake the local
// peer sends a request that arms a response deadline (mempool / getheaders / getblocks / getdata); the remote never
// answers it, so the stall handler disconnects the peer after stallResponseTimeout (30 s, checked every 15 s). The
// remote may meanwhile send pings, one of which is held inside the OnRead listener until the disconnect has
// happened, so that the input handler is past its socket read when the stall fires. The verdict is not about the time
// it takes: the wait is a generous watchdog (inconclusive when it expires); what is judged is that afterwards every
// peer goroutine ends and every completion signal arrives exactly once.
const stallWatchdog = 100 * time.Second

func registerStall(c *mon.Ctx, ps *procState) {
	if !want("stall") {
		return
	}
	c.Family("stall", c.N(3, 28), func(k *mon.Case) { runStall(k, ps) })
	c.Require("stall.disconnected-by-stall-handler", 1)
}

type stallOpts struct {
	Family   string `json:"family"`
	Inbound  bool   `json:"inbound"`
	Request  string `json:"request"`
	HeldPing int    `json:"held_ping_after_s"` // 0 = none
	Chatter  bool   `json:"remote_pings_every_5s"`
	Queued   int    `json:"messages_queued_before_the_stall"`
}

func runStall(k *mon.Case, ps *procState) {
	r := k.Rand
	ps.base = runtime.NumGoroutine()
	o := stallOpts{Family: k.Family, Inbound: r.Bool(), Request: []string{"mempool", "getblocks", "getdata"}[r.Intn(3)], /* (getheaders has a 90 s deadline) */
		Chatter: r.Bool(), Queued: r.Intn(6)}
	if r.Chance(2, 3) {
		o.HeldPing = 17 + r.Intn(12) // sent after the first stall tick, held across the one that disconnects
	}
	k.Desc(o)
	params := netTable[0].params
	clk := &clock{}
	hk := &hooks{clk: clk, rr: r.Fork(), wr: r.Fork(), maxDelayUs: 20}
	rec := newRecorder(clk, r.Fork(), 0, 20)
	localAddr := &net.TCPAddr{IP: net.IPv4(10, 0, 0, 1), Port: 18555}
	remoteAddr := &net.TCPAddr{IP: net.IPv4(10, 0, 0, 2), Port: 8333}
	local, remote := newPair(clk, hk, localAddr, remoteAddr)

	const heldID = 0xfeed00000000aaaa
	var gone atomic.Bool
	var held atomic.Bool
	ls := rec.listeners()
	inner := ls.OnRead
	ls.OnRead = func(p *peer.Peer, n int, m wire.Message, err error) {
		if pg, ok := m.(*wire.MsgPing); ok && pg.Nonce == heldID {
			held.Store(true)
			// hold the input handler here (past its socket read) until the stall handler has disconnected the peer
			for i := 0; i < 100*200 && !gone.Load(); i++ {
				time.Sleep(5 * time.Millisecond)
			}
		}
		if inner != nil {
			inner(p, n, m, err)
		}
	}
	cfg := &peer.Config{ChainParams: params, UserAgentName: "verif", UserAgentVersion: "1.0.0",
		Services: wire.SFNodeNetwork | wire.SFNodeWitness, Listeners: ls, TrickleInterval: time.Millisecond}
	var p *peer.Peer
	if o.Inbound {
		p = peer.NewInboundPeer(cfg)
	} else {
		var err error
		if p, err = peer.NewOutboundPeer(cfg, remoteAddr.String()); err != nil {
			k.Failf("harness:new-outbound-peer", "%v", err)
			return
		}
	}
	rc := &remoteCtx{net: params.Net, pver: wire.ProtocolVersion, nonce: r.Uint64() | 1<<62, services: wire.SFNodeNetwork | wire.SFNodeWitness}
	hs := append(rc.version(int32(wire.ProtocolVersion), rc.nonce), frame(uint32(params.Net), wire.CmdVerAck, nil)...)
	remote.Write(hs)
	p.AssociateConnection(local)
	// drain whatever the local peer writes
	stopRemote := make(chan struct{})
	remoteDone := make(chan struct{})
	go func() {
		defer close(remoteDone)
		buf := make([]byte, 4096)
		for {
			remote.SetReadDeadline(time.Now().Add(50 * time.Millisecond))
			if _, err := remote.Read(buf); err != nil {
				select {
				case <-stopRemote:
					return
				default:
				}
				if ne, ok := err.(net.Error); !ok || !ne.Timeout() {
					return
				}
			}
		}
	}()
	cleanup := func() {
		gone.Store(true)
		p.Disconnect()
		close(stopRemote)
		remote.Close()
		local.Close()
		<-remoteDone
	}
	// handshake complete?
	if !settle(10*time.Second, func() bool { return p.VerAckReceived() }) {
		inconclusive(k, "stall-handshake-not-completed")
		cleanup()
		ps.checkShutdown(k, "stall")
		return
	}
	// the request that arms the response deadline, and a few more messages with completion channels behind it
	var req wire.Message
	switch o.Request {
	case "mempool":
		req = wire.NewMsgMemPool()
	case "getheaders":
		gh := wire.NewMsgGetHeaders()
		gh.AddBlockLocatorHash(params.GenesisHash)
		req = gh
	case "getblocks":
		gb := wire.NewMsgGetBlocks(params.GenesisHash)
		gb.AddBlockLocatorHash(params.GenesisHash)
		req = gb
	default:
		gd := wire.NewMsgGetData()
		h := idHash(1)
		gd.AddInvVect(wire.NewInvVect(wire.InvTypeBlock, &h))
		req = gd
	}
	dones := []chan struct{}{make(chan struct{}, 4)}
	p.QueueMessage(req, dones[0])
	for i := 0; i < o.Queued; i++ {
		d := make(chan struct{}, 4)
		dones = append(dones, d)
		p.QueueMessage(wire.NewMsgPing(uint64(0x5e00000000000000)|uint64(i)), d)
	}
	start := time.Now()
	sentHeld := false
	tick := time.NewTicker(250 * time.Millisecond)
	defer tick.Stop()
	disconnected := false
	lastChat := 0
wait:
	for {
		select {
		case <-p.Done():
			disconnected = true
			break wait
		case <-tick.C:
			el := int(time.Since(start) / time.Second)
			if el >= int(stallWatchdog/time.Second) {
				break wait
			}
			if o.HeldPing > 0 && !sentHeld && el >= o.HeldPing {
				sentHeld = true
				remote.Write(frame(uint32(params.Net), wire.CmdPing, payloadOf(wire.NewMsgPing(heldID), wire.ProtocolVersion)))
			}
			if o.Chatter && !sentHeld && el >= lastChat+5 {
				lastChat = el
				remote.Write(frame(uint32(params.Net), wire.CmdPing, payloadOf(wire.NewMsgPing(remoteTag|uint64(el)), wire.ProtocolVersion)))
			}
		}
	}
	gone.Store(true)
	if !disconnected {
		// the stall handler did not disconnect within the watchdog: not a verdict about btcd's timers
		inconclusive(k, "stall-disconnect-not-observed-within-watchdog")
		cleanup()
		ps.checkShutdown(k, "stall")
		return
	}
	k.Count("stall.disconnected-by-stall-handler", 1)
	if sentHeld && held.Load() {
		k.Count("stall.input-handler-held-across-the-disconnect", 1)
	}
	k.Count(fmt.Sprintf("stall.request.%s", o.Request), 1)
	p.WaitForDisconnect()
	close(stopRemote)
	remote.Close()
	local.Close()
	<-remoteDone
	left := ps.checkShutdown(k, "stall")
	// completion signals: exactly once each (the request was on the wire or dropped at disconnect; either way signalled)
	if left == 0 {
		for i, d := range dones {
			switch n := len(d); {
			case n == 0:
				k.Failf("fifo:done-never-signalled:stall:handlers-ran", "message #%d queued before the stall disconnect (request %s) never had its completion signalled although all peer goroutines have ended", i, o.Request)
			case n > 1:
				k.Failf("fifo:done-signalled-twice", "message #%d: completion signalled %d times (stall family)", i, n)
			default:
				k.Count("stall.done.exactly-once", 1)
			}
		}
	}
	k.Eval(mon.Sig("stall", o.Inbound, o.Request, o.HeldPing > 0, o.Chatter, o.Queued), true)
}
