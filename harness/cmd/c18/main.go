// Worker for C18: peers obey the handshake and shut down cleanly under any timing.
package main

import (
	"flag"
	"fmt"
	"os"
	"runtime"
	"strings"

	"verif/mon"

	"github.com/btcsuite/btcd/peer"
	"github.com/btcsuite/btcd/v2transport"
	"github.com/btcsuite/btclog"
)

// enumSize returns sum_{l=0..L} a^l.
func enumSize(a, L int) int64 {
	var n, p int64 = 0, 1
	for l := 0; l <= L; l++ {
		n += p
		p *= int64(a)
	}
	return n
}

// enumScript decodes script number n of the length-ordered enumeration over nSym symbols.
func enumScript(n int64) []int {
	L := 0
	p := int64(1)
	for n >= p {
		n -= p
		p *= nSym
		L++
	}
	out := make([]int, L)
	for i := L - 1; i >= 0; i-- {
		out[i] = int(n % nSym)
		n /= nSym
	}
	return out
}

var famFlag = flag.String("fam", "", "comma-separated family-name prefixes to run (default: all)")

// scaleFlag scales the case counts of the sampled families (not the exhaustive ones); it exists so
// that a thorough run can be afforded on a busy machine, and it is recorded in the evidence notes.
var scaleFlag = flag.Int("scale", 100, "percentage of the tier's case count for sampled families")

func scaled(n int64) int64 {
	n = n * int64(*scaleFlag) / 100
	if n < 1 {
		n = 1
	}
	return n
}

func want(name string) bool {
	if *famFlag == "" {
		return true
	}
	for _, p := range strings.Split(*famFlag, ",") {
		if p != "" && strings.HasPrefix(name, p) {
			return true
		}
	}
	return false
}

func main() {
	mon.Main("C18", func(c *mon.Ctx) {
		if debugTiming {
			// diagnostics only: show the peer package's own log
			lg := btclog.NewBackend(os.Stdout).Logger("PEER")
			lg.SetLevel(btclog.LevelDebug)
			peer.UseLogger(lg)
			lg2 := btclog.NewBackend(os.Stdout).Logger("V2TR")
			lg2.SetLevel(btclog.LevelDebug)
			v2transport.UseLogger(lg2)
		}
		ps := &procState{excl: map[uint64]bool{}, orders: map[uint64]struct{}{}}
		c.Rule("hs.*: one case = one fresh peer (inbound or outbound) driven by a scripted remote over a buffered in-memory conn; " +
			"scripts over the 17-symbol Appendix-C alphabet, enumerated exhaustively by length (hs.enum), version-pair product (hs.pver), " +
			"sampled longer scripts (hs.rand); distinct = (direction, symbol sequence with advertised versions, network, local version, " +
			"self-conn/reject/lossy flags). fifo.pN / early.pN / v2.pN (N = GOMAXPROCS): one case = one peer lifetime with 2-16 concurrent senders of uniquely numbered " +
			"pings, inventory senders, a flag observer, remote traffic and one disconnect cause (Disconnect x1/x3, remote close / EOF, write / read fault, drain) at a PRNG-chosen " +
			"logical point; early.* starts the senders before / during the handshake, v2.* runs over the BIP324 transport or its implicit v1 downgrade; distinct = fingerprint of " +
			"(cause, sender-id order on the wire, per-sender delivered counts, done-signal outcome classes). Non-trivial = at least one symbol / one message on the wire.")
		c.Note(fmt.Sprintf("GOMAXPROCS=%d race=%v", runtime.GOMAXPROCS(0), mon.RaceEnabled))
		if *scaleFlag != 100 {
			c.Note(fmt.Sprintf("sampled families scaled to %d%% of the tier's case counts (-scale)", *scaleFlag))
		}
		c.Note("timeouts of peer.go (negotiate 30 s, idle 5 min, stall tick 15 s, ping 2 min) are never waited for; the 20 s / 10 s harness bounds are watchdogs: " +
			"expiring with all peer goroutines parked is a violation (stack as witness), with a runnable goroutine it is inconclusive")

		// ---- hs.enum: exhaustive scripts up to length 3 (quick) / 4 (thorough), both directions ----
		if want("hs.enum") {
			L := int(c.N(3, 4))
			n := enumSize(nSym, L)
			c.Exhaustive(fmt.Sprintf("hs.enum: every script of length 0..%d over the %d-symbol alphabet x {inbound, outbound} = %d cases "+
				"(symbol parameters, network, local version and timing drawn per case)", L, nSym, 2*n))
			c.Family("hs.enum", 2*n, func(k *mon.Case) {
				kinds := enumScript(k.Index / 2)
				script := make([]sym, len(kinds))
				for i, kd := range kinds {
					script[i] = fillSym(k.Rand, kd, i)
				}
				runHandshake(k, ps, drawHSOpts(k.Rand, k.Index%2 == 0, script))
			})
		}

		// ---- hs.pver: product of local x remote protocol versions x direction ----
		if want("hs.pver") {
			locals := []uint32{0, 70016, 70015, 70014, 70013, 70012, 70011, 70002, 70001, 60002, 60001}
			remotes := []int32{0, 1, 106, 208, 209, 210, 31402, 31800, 60000, 60001, 60002, 70001, 70002, 70011, 70012, 70013, 70014, 70015, 70016, 70017, 99999, 0x7fffffff}
			n := int64(len(locals) * len(remotes) * 2)
			c.Exhaustive(fmt.Sprintf("hs.pver: %d local x %d remote protocol versions (every layout breakpoint of wire/protocol.go and its neighbours) x 2 directions", len(locals), len(remotes)))
			c.Family("hs.pver", n, func(k *mon.Case) {
				i := int(k.Index)
				inbound := i%2 == 0
				i /= 2
				rv := remotes[i%len(remotes)]
				lv := locals[i/len(remotes)]
				ver := sym{Kind: symVerOK, Name: symNames[symVerOK], Pver: rv, ID: 1<<16 | 7}
				script := []sym{ver}
				if k.Rand.Bool() {
					script = append(script, fillSym(k.Rand, symSendAddrV2, 1))
				}
				script = append(script, fillSym(k.Rand, symVerAck, 2))
				neg := minU32(effPver(lv), uint32(rv))
				if neg > 60000 {
					script = append(script, fillSym(k.Rand, symPing, 3))
				}
				if neg >= 70001 {
					script = append(script, fillSym(k.Rand, symInv, 4), fillSym(k.Rand, symTx, 5))
				}
				o := drawHSOpts(k.Rand, inbound, script)
				o.LocalPver = lv
				o.RejectVersion = false
				o.Lossy = false
				runHandshake(k, ps, o)
				k.Count("hs.pver.pairs", 1)
			})
		}

		// ---- hs.rand: sampled longer scripts biased toward a valid prefix ----
		if want("hs.rand") {
			c.Family("hs.rand", scaled(c.N(1500, 60000)), func(k *mon.Case) {
				r := k.Rand
				var kinds []int
				if r.Chance(5, 6) {
					kinds = append(kinds, []int{symVerOK, symVerOK, symVerOK, symVerSelf, symVerOld}[r.Intn(5)])
					for r.Chance(1, 3) {
						kinds = append(kinds, []int{symSendAddrV2, symUnknown}[r.Intn(2)])
					}
					if r.Chance(9, 10) {
						kinds = append(kinds, symVerAck)
					}
				}
				for n := r.Range(1, 10); n > 0; n-- {
					if r.Chance(3, 4) {
						kinds = append(kinds, symPing+r.Intn(symGetData-symPing+1))
					} else {
						kinds = append(kinds, r.Intn(nSym))
					}
				}
				script := make([]sym, len(kinds))
				for i, kd := range kinds {
					script[i] = fillSym(r, kd, i)
				}
				runHandshake(k, ps, drawHSOpts(r, r.Bool(), script))
			})
		}

		// ---- hs.v2down: v2 outbound peer against a v1-only remote, then the v1 retry ----
		if want("hs.v2down") {
			c.Family("hs.v2down", scaled(c.N(28, 600)), func(k *mon.Case) { runV2Down(k, ps) })
			c.Require("v2down.cases", 10)
		}

		registerStress(c, ps)
		registerStall(c, ps)
		registerInvBurst(c, ps)

		c.Count("order-fingerprints.distinct(sum over shards)", int64(len(ps.orders)))
		if want("hs.enum") {
			c.Require("hs.handshake-completed", 50)
			c.Require("hs.refused.self-connection", 5)
			c.Require("hs.refused.wrong-magic", 5)
			c.Require("hs.refused.duplicate-version", 5)
			c.Require("hs.refused.obsolete-version", 5)
			c.Require("hs.refused.pre-version-message", 5)
			c.Require("hs.negotiated-checked", 50)
			c.Require("census.clean", 100)
		}
	})
}
