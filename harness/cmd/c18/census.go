package main

// Goroutine census: runtime.Stack(all) filtered for goroutines that have a frame of (or were
// created by) the package under test, plus a whole-process quiescence test: if every goroutine of
// the process other than the one taking the census is parked in a channel / select / mutex / cond
// operation (none running, runnable, in a syscall or in a timed sleep), nothing but a timer of
// peer.go (15 s .. 5 min, never waited for) can ever wake the parked peer goroutines — the state is
// final, and that is a fact about the process, not about elapsed time.

import (
	"regexp"
	"runtime"
	"strconv"
	"strings"
	"time"
)

const peerPkg = "github.com/btcsuite/btcd/peer."

type gor struct {
	id    uint64
	state string // "chan send", "select", "running", ...
	fn    string // innermost frame of the peer package ("(*Peer).outHandler"), or "created-by-peer" if none
	stack string
}

var gorHdr = regexp.MustCompile(`^goroutine (\d+) \[([^\]]*)\]`)

func allStacks() string {
	buf := make([]byte, 1<<16)
	for {
		n := runtime.Stack(buf, true)
		if n < len(buf) {
			return string(buf[:n])
		}
		buf = make([]byte, 2*len(buf))
	}
}

// parkedState: the goroutine is blocked in an operation that only another goroutine can complete.
// Everything else (running, runnable, syscall, sleep, IO wait, GC states, ...) may still progress
// on its own.
func parkedState(state string) bool {
	switch state {
	case "chan send", "chan receive", "select", "sync.Cond.Wait", "sync.Mutex.Lock", "sync.RWMutex.RLock",
		"sync.RWMutex.Lock", "semacquire", "sync.WaitGroup.Wait", "select (no cases)", "chan send (nil chan)",
		"chan receive (nil chan)":
		return true
	}
	return false
}

type snapshot struct {
	peer   []gor // goroutines with a peer-package frame (minus the excluded ones)
	active int   // goroutines other than the caller that are not parked
}

// takeSnapshot returns the goroutines with a peer-package frame, except those listed in exclude
// (goroutines that already leaked in an earlier case of this process and were reported there), and
// the number of other goroutines that can still make progress on their own.
func takeSnapshot(exclude map[uint64]bool) snapshot {
	var sn snapshot
	for i, blk := range strings.Split(allStacks(), "\n\n") {
		m := gorHdr.FindStringSubmatch(blk)
		if m == nil {
			continue
		}
		id, _ := strconv.ParseUint(m[1], 10, 64)
		state := m[2]
		// the wait reason may carry a duration or a lock flag: "chan send, 2 minutes"
		if j := strings.Index(state, ","); j >= 0 {
			state = state[:j]
		}
		if i == 0 {
			continue // the calling goroutine
		}
		if exclude[id] {
			continue
		}
		if !parkedState(state) {
			sn.active++
		}
		if !strings.Contains(blk, peerPkg) {
			continue
		}
		g := gor{id: id, state: state, stack: blk}
		for _, ln := range strings.Split(blk, "\n") {
			if strings.HasPrefix(ln, peerPkg) {
				fn := strings.TrimPrefix(ln, peerPkg)
				if j := strings.LastIndex(fn, "("); j > 0 {
					fn = fn[:j]
				}
				g.fn = fn
				break
			}
		}
		if g.fn == "" {
			g.fn = "created-by-peer"
		}
		sn.peer = append(sn.peer, g)
	}
	return sn
}

func census(exclude map[uint64]bool) []gor { return takeSnapshot(exclude).peer }

func (g gor) parked() bool { return parkedState(g.state) }

// stuckDetector recognises the final state described at the top of this file: it must be observed
// on several consecutive polls (the polls are separated by scheduler yields or sleeps).
type stuckDetector struct{ streak int }

const stuckStreak = 4

func (d *stuckDetector) observe(sn snapshot) bool {
	if len(sn.peer) > 0 && sn.active == 0 {
		d.streak++
	} else {
		d.streak = 0
	}
	return d.streak >= stuckStreak
}

// settle polls until cond() holds or a generous watchdog budget is used up. The budget is counted in
// scheduler yields and requested sleep lengths, not read from a clock; it exists only to bound a
// run that will be reported as inconclusive (something still runnable).
func settle(budget time.Duration, cond func() bool) bool {
	var slept time.Duration
	d := 20 * time.Microsecond
	for i := 0; ; i++ {
		if cond() {
			return true
		}
		if i < 30 {
			runtime.Gosched()
			continue
		}
		if slept >= budget {
			return false
		}
		time.Sleep(d)
		slept += d
		if d < 5*time.Millisecond {
			d *= 2
		}
	}
}
