package main

// A harness-owned buffered in-memory duplex connection: one unbounded byte queue per direction
// (so that neither side ever blocks on Write — net.Pipe would deadlock a handshake in which both
// ends write before they read), half-close, full close, deadlines, per-call delay / fragmentation /
// fault injection decided by a PRNG, stamped byte capture of everything written.

import (
	"io"
	"net"
	"os"
	"sync"
	"sync/atomic"
	"syscall"
	"time"

	"verif/mon"
)

// clock is the single monotonic event counter of one case.
type clock struct{ n atomic.Int64 }

func (c *clock) tick() int64 { return c.n.Add(1) }
func (c *clock) now() int64  { return c.n.Load() }

// half is one direction of the duplex.
type half struct {
	mu      sync.Mutex
	cond    *sync.Cond
	buf     []byte // written, not yet read
	total   []byte // everything ever written (capture)
	marks   []mark // one per successful Write call
	wclosed bool   // writer closed: reader sees EOF after draining
	rclosed bool   // reader closed: writer sees EPIPE
}

type mark struct {
	stamp int64
	end   int // len(total) after this write
}

func newHalf() *half {
	h := &half{}
	h.cond = sync.NewCond(&h.mu)
	return h
}

// hooks decides, per Read / Write call, a delay before, a delay after, a fragment limit and a fault.
// Reads and writes have their own PRNG stream so that the decisions of one direction do not depend
// on the interleaving with the other.
type hooks struct {
	clk *clock

	rmu        sync.Mutex
	rr         *mon.Rand
	readCalls  int
	readChunk  int // 0 = unlimited, else each Read returns at most 1..readChunk bytes
	readDelayN int // a delay is injected on 1 call in readDelayN (0 = never)
	maxDelayUs int
	failRead   atomic.Bool // next Read call fails

	wmu         sync.Mutex
	wr          *mon.Rand
	writeCalls  int
	writeDelayN int
	failWrite   atomic.Bool // next Write call fails (after writing a PRNG-chosen prefix)

	faultStamp atomic.Int64 // stamp of the first injected fault (0 = none)
	delays     atomic.Int64 // number of injected delays (evidence)
}

func (h *hooks) noteFault() {
	s := h.clk.tick()
	h.faultStamp.CompareAndSwap(0, s)
}

func sleepUs(us int) {
	if us <= 0 {
		return
	}
	time.Sleep(time.Duration(us) * time.Microsecond)
}

// pickDelay returns a sleep length in microseconds: mostly tiny, sometimes a few milliseconds.
func pickDelay(r *mon.Rand, maxUs int) int {
	if maxUs <= 0 {
		return 0
	}
	switch r.Intn(4) {
	case 0:
		return 1 + r.Intn(20)
	case 1:
		return 1 + r.Intn(200)
	default:
		return 1 + r.Intn(maxUs)
	}
}

type errFault struct{ op string }

func (e *errFault) Error() string   { return "injected " + e.op + " fault" }
func (e *errFault) Timeout() bool   { return false }
func (e *errFault) Temporary() bool { return false }

// Conn is one end of the duplex.
type Conn struct {
	name   string
	rd, wr *half
	hk     *hooks // nil = no injection (the scripted remote's end)
	clk    *clock
	laddr  net.Addr
	raddr  net.Addr

	closeStamp atomic.Int64 // stamp of the first Close call on this end
	closed     atomic.Bool

	dmu sync.Mutex
	rdl time.Time
	rdt *time.Timer
}

// newPair returns (local end given to btcd, remote end driven by the harness).
func newPair(clk *clock, hk *hooks, localAddr, remoteAddr net.Addr) (*Conn, *Conn) {
	a2b, b2a := newHalf(), newHalf()
	l := &Conn{name: "local", rd: b2a, wr: a2b, hk: hk, clk: clk, laddr: localAddr, raddr: remoteAddr}
	r := &Conn{name: "remote", rd: a2b, wr: b2a, clk: clk, laddr: remoteAddr, raddr: localAddr}
	return l, r
}

func (c *Conn) Read(p []byte) (int, error) {
	limit := len(p)
	post := 0
	if hk := c.hk; hk != nil {
		hk.rmu.Lock()
		hk.readCalls++
		pre := 0
		if hk.readDelayN > 0 && hk.rr.Intn(hk.readDelayN) == 0 {
			pre = pickDelay(hk.rr, hk.maxDelayUs)
		}
		if hk.readDelayN > 0 && hk.rr.Intn(hk.readDelayN) == 0 {
			post = pickDelay(hk.rr, hk.maxDelayUs)
		}
		if hk.readChunk > 0 {
			if l := 1 + hk.rr.Intn(hk.readChunk); l < limit {
				limit = l
			}
		}
		hk.rmu.Unlock()
		if pre > 0 {
			hk.delays.Add(1)
			sleepUs(pre)
		}
		if hk.failRead.CompareAndSwap(true, false) {
			hk.noteFault()
			return 0, &net.OpError{Op: "read", Net: "mem", Err: &errFault{"read"}}
		}
	}
	h := c.rd
	h.mu.Lock()
	for {
		if h.rclosed {
			h.mu.Unlock()
			return 0, &net.OpError{Op: "read", Net: "mem", Err: net.ErrClosed}
		}
		if c.hk != nil && c.hk.failRead.CompareAndSwap(true, false) {
			h.mu.Unlock()
			c.hk.noteFault()
			return 0, &net.OpError{Op: "read", Net: "mem", Err: &errFault{"read"}}
		}
		if len(h.buf) > 0 {
			break
		}
		if h.wclosed {
			h.mu.Unlock()
			return 0, io.EOF
		}
		if c.deadlinePassed() {
			h.mu.Unlock()
			return 0, &net.OpError{Op: "read", Net: "mem", Err: os.ErrDeadlineExceeded}
		}
		h.cond.Wait()
	}
	n := copy(p[:limit], h.buf)
	h.buf = h.buf[n:]
	if len(h.buf) == 0 {
		h.buf = nil
	}
	h.mu.Unlock()
	if post > 0 {
		c.hk.delays.Add(1)
		sleepUs(post)
	}
	return n, nil
}

func (c *Conn) Write(p []byte) (int, error) {
	cut := -1
	post := 0
	if hk := c.hk; hk != nil {
		hk.wmu.Lock()
		hk.writeCalls++
		pre := 0
		if hk.writeDelayN > 0 && hk.wr.Intn(hk.writeDelayN) == 0 {
			pre = pickDelay(hk.wr, hk.maxDelayUs)
		}
		if hk.writeDelayN > 0 && hk.wr.Intn(hk.writeDelayN) == 0 {
			post = pickDelay(hk.wr, hk.maxDelayUs)
		}
		if hk.failWrite.CompareAndSwap(true, false) {
			cut = 0
			if len(p) > 0 && hk.wr.Bool() {
				cut = hk.wr.Intn(len(p))
			}
		}
		hk.wmu.Unlock()
		if pre > 0 {
			hk.delays.Add(1)
			sleepUs(pre)
		}
	}
	h := c.wr
	h.mu.Lock()
	if h.wclosed {
		h.mu.Unlock()
		return 0, &net.OpError{Op: "write", Net: "mem", Err: net.ErrClosed}
	}
	if h.rclosed {
		h.mu.Unlock()
		return 0, &net.OpError{Op: "write", Net: "mem", Err: syscall.EPIPE}
	}
	data := p
	if cut >= 0 {
		data = p[:cut]
	}
	if len(data) > 0 {
		h.buf = append(h.buf, data...)
		h.total = append(h.total, data...)
		h.marks = append(h.marks, mark{stamp: c.clk.tick(), end: len(h.total)})
		h.cond.Broadcast()
	}
	h.mu.Unlock()
	if cut >= 0 {
		c.hk.noteFault()
		return cut, &net.OpError{Op: "write", Net: "mem", Err: &errFault{"write"}}
	}
	if post > 0 {
		c.hk.delays.Add(1)
		sleepUs(post)
	}
	return len(p), nil
}

// Close closes both directions of this end.
func (c *Conn) Close() error {
	c.closeStamp.CompareAndSwap(0, c.clk.tick())
	if !c.closed.CompareAndSwap(false, true) {
		return &net.OpError{Op: "close", Net: "mem", Err: net.ErrClosed}
	}
	c.rd.mu.Lock()
	c.rd.rclosed = true
	c.rd.buf = nil
	c.rd.cond.Broadcast()
	c.rd.mu.Unlock()
	c.wr.mu.Lock()
	c.wr.wclosed = true
	c.wr.cond.Broadcast()
	c.wr.mu.Unlock()
	return nil
}

// kickRead wakes a blocked Read so that it notices an armed read fault.
func (c *Conn) kickRead() {
	c.rd.mu.Lock()
	c.rd.cond.Broadcast()
	c.rd.mu.Unlock()
}

// CloseWrite half-closes: the other end reads EOF after draining, this end can still read.
func (c *Conn) CloseWrite() {
	c.wr.mu.Lock()
	c.wr.wclosed = true
	c.wr.cond.Broadcast()
	c.wr.mu.Unlock()
}

func (c *Conn) LocalAddr() net.Addr  { return c.laddr }
func (c *Conn) RemoteAddr() net.Addr { return c.raddr }

func (c *Conn) deadlinePassed() bool {
	c.dmu.Lock()
	defer c.dmu.Unlock()
	return !c.rdl.IsZero() && !time.Now().Before(c.rdl)
}

func (c *Conn) SetDeadline(t time.Time) error { return c.SetReadDeadline(t) }

func (c *Conn) SetReadDeadline(t time.Time) error {
	c.dmu.Lock()
	c.rdl = t
	if c.rdt != nil {
		c.rdt.Stop()
		c.rdt = nil
	}
	if !t.IsZero() {
		c.rdt = time.AfterFunc(time.Until(t), func() {
			c.rd.mu.Lock()
			c.rd.cond.Broadcast()
			c.rd.mu.Unlock()
		})
	}
	c.dmu.Unlock()
	return nil
}

// SetWriteDeadline is a no-op: writes never block.
func (c *Conn) SetWriteDeadline(time.Time) error { return nil }

// captured returns a copy of everything this end has written so far, with the per-write marks.
func (c *Conn) captured() ([]byte, []mark) {
	c.wr.mu.Lock()
	defer c.wr.mu.Unlock()
	return append([]byte(nil), c.wr.total...), append([]mark(nil), c.wr.marks...)
}

func (c *Conn) capturedLen() int {
	c.wr.mu.Lock()
	defer c.wr.mu.Unlock()
	return len(c.wr.total)
}

var _ net.Conn = (*Conn)(nil)
