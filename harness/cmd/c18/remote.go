package main

// The scripted remote endpoint: raw v1 framing written by the harness itself (so that it can also be
// written wrongly), the Appendix-C symbol alphabet, and the decoder of what the peer wrote.

import (
	"bytes"
	"crypto/sha256"
	"encoding/binary"
	"fmt"
	"net"
	"time"

	"verif/mon"

	"github.com/btcsuite/btcd/chainhash/v2"
	"github.com/btcsuite/btcd/wire/v2"
)

func dsha4(b []byte) [4]byte {
	a := sha256.Sum256(b)
	a = sha256.Sum256(a[:])
	return [4]byte{a[0], a[1], a[2], a[3]}
}

// frame builds a v1 message frame: magic | command(12) | length | checksum | payload.
func frame(magic uint32, cmd string, payload []byte) []byte {
	out := make([]byte, 24, 24+len(payload))
	binary.LittleEndian.PutUint32(out[0:], magic)
	copy(out[4:16], cmd)
	binary.LittleEndian.PutUint32(out[16:], uint32(len(payload)))
	ck := dsha4(payload)
	copy(out[20:24], ck[:])
	return append(out, payload...)
}

func payloadOf(m wire.Message, pver uint32) []byte {
	var b bytes.Buffer
	if err := m.BtcEncode(&b, pver, wire.BaseEncoding); err != nil {
		panic(fmt.Sprintf("harness: cannot encode %s at pver %d: %v", m.Command(), pver, err))
	}
	return b.Bytes()
}

// symbol kinds (Appendix C).
const (
	symVerOK = iota
	symVerOld
	symVerSelf
	symVerAck
	symSendAddrV2
	symUnknown
	symPing
	symInv
	symTx
	symBlock
	symAddr
	symHeaders
	symGetData
	symBadMagic
	symBadChecksum
	symOversize
	symTruncated
	nSym
)

var symNames = [nSym]string{"VER", "VER(old)", "VER(self)", "VERACK", "SENDADDRV2", "UNKNOWN", "PING", "INV", "TX",
	"BLOCK", "ADDR", "HEADERS", "GETDATA", "BADMAGIC", "BADCHECKSUM", "OVERSIZE", "TRUNCATED"}

// callback kind carried by each post-handshake data symbol.
var symCallback = map[int]string{symPing: "ping", symInv: "inv", symTx: "tx", symBlock: "block", symAddr: "addr",
	symHeaders: "headers", symGetData: "getdata"}

type sym struct {
	Kind int    `json:"-"`
	Name string `json:"sym"`
	Pver int32  `json:"pver,omitempty"` // VER*: advertised protocol version
	ID   uint64 `json:"id,omitempty"`   // unique id carried by data messages
	Var  int    `json:"var,omitempty"`  // sub-variant (unknown command choice, oversize flavour)
}

var okPvers = []int32{70016, 70016, 70016, 70015, 70014, 70013, 70012, 70011, 70002, 70001, 60002, 70017, 99999}
var oldPvers = []int32{208, 106, 1, 0}

// fillSym draws the parameters of a symbol of the given kind.
func fillSym(r *mon.Rand, kind int, seq int) sym {
	s := sym{Kind: kind, Name: symNames[kind]}
	switch kind {
	case symVerOK, symVerSelf:
		s.Pver = okPvers[r.Intn(len(okPvers))]
	case symVerOld:
		s.Pver = oldPvers[r.Intn(len(oldPvers))]
	case symUnknown, symOversize, symBadMagic:
		s.Var = r.Intn(4)
	}
	// ids are unique within a script and never 0
	s.ID = uint64(seq+1)<<16 | uint64(r.Intn(0xffff)+1)
	if kind == symAddr {
		s.ID = uint64(seq+1)<<8 | uint64(r.Intn(255)+1) // must fit a port
	}
	return s
}

func idHash(id uint64) chainhash.Hash {
	var h chainhash.Hash
	binary.LittleEndian.PutUint64(h[:8], id)
	h[31] = 0xc1
	return h
}

func hashID(h *chainhash.Hash) uint64 { return binary.LittleEndian.Uint64(h[:8]) }

func idTx(id uint64) *wire.MsgTx {
	tx := wire.NewMsgTx(1)
	h := idHash(id)
	tx.AddTxIn(wire.NewTxIn(wire.NewOutPoint(&h, 0), []byte{0x51}, nil))
	tx.AddTxOut(wire.NewTxOut(int64(id&0xffff), []byte{0x51}))
	tx.LockTime = uint32(id)
	return tx
}

func idHeader(id uint64) *wire.BlockHeader {
	h := idHash(id)
	bh := wire.NewBlockHeader(1, &h, &h, 0x1d00ffff, uint32(id))
	bh.Timestamp = time.Unix(1600000000, 0)
	return bh
}

var otherMagic = map[wire.BitcoinNet]wire.BitcoinNet{
	wire.MainNet: wire.TestNet3, wire.TestNet3: wire.MainNet, wire.TestNet: wire.SimNet, wire.SimNet: wire.TestNet,
}

// remoteCtx is what the (correct) remote knows when it encodes a symbol.
type remoteCtx struct {
	net       wire.BitcoinNet
	pver      uint32 // encoding version for post-version messages = min(local, remote)
	selfNonce uint64 // nonce to echo for VER(self)
	services  wire.ServiceFlag
	nonce     uint64 // remote's own nonce
}

func (rc *remoteCtx) version(pver int32, nonce uint64) []byte {
	me := wire.NewNetAddressIPPort(net.IPv4(10, 0, 0, 2), 8333, rc.services)
	you := wire.NewNetAddressIPPort(net.IPv4(10, 0, 0, 1), 8333, 0)
	v := wire.NewMsgVersion(me, you, nonce, 1234)
	v.ProtocolVersion = pver
	v.Services = rc.services
	v.UserAgent = "/verif-remote:0.1/"
	v.Timestamp = time.Unix(1700000000, 0)
	return frame(uint32(rc.net), wire.CmdVersion, payloadOf(v, wire.ProtocolVersion))
}

// encode returns the bytes the remote writes for s.
func (rc *remoteCtx) encode(s sym) []byte {
	m := uint32(rc.net)
	switch s.Kind {
	case symVerOK, symVerOld:
		return rc.version(s.Pver, rc.nonce+s.ID)
	case symVerSelf:
		return rc.version(s.Pver, rc.selfNonce)
	case symVerAck:
		return frame(m, wire.CmdVerAck, nil)
	case symSendAddrV2:
		return frame(m, wire.CmdSendAddrV2, nil)
	case symUnknown:
		switch s.Var {
		case 0:
			return frame(m, "wtxidrelay", nil)
		case 1:
			return frame(m, "sendcmpct", []byte{0, 2, 0, 0, 0, 0, 0, 0, 0})
		case 2:
			return frame(m, "verif-zzz", []byte{1, 2, 3})
		default:
			return frame(m, "x", bytes.Repeat([]byte{0xaa}, 300))
		}
	case symPing:
		return frame(m, wire.CmdPing, payloadOf(wire.NewMsgPing(s.ID), rc.pver))
	case symInv:
		iv := wire.NewMsgInv()
		h := idHash(s.ID)
		iv.AddInvVect(wire.NewInvVect(wire.InvTypeTx, &h))
		h2 := idHash(s.ID ^ 0xffff0000)
		iv.AddInvVect(wire.NewInvVect(wire.InvTypeBlock, &h2))
		return frame(m, wire.CmdInv, payloadOf(iv, rc.pver))
	case symTx:
		return frame(m, wire.CmdTx, payloadOf(idTx(s.ID), rc.pver))
	case symBlock:
		b := wire.NewMsgBlock(idHeader(s.ID))
		b.AddTransaction(idTx(s.ID))
		return frame(m, wire.CmdBlock, payloadOf(b, rc.pver))
	case symAddr:
		a := wire.NewMsgAddr()
		na := wire.NewNetAddressIPPort(net.IPv4(10, 1, 2, 3), uint16(s.ID), wire.SFNodeNetwork)
		na.Timestamp = time.Unix(1700000000, 0)
		a.AddAddress(na)
		return frame(m, wire.CmdAddr, payloadOf(a, rc.pver))
	case symHeaders:
		hs := wire.NewMsgHeaders()
		hs.AddBlockHeader(idHeader(s.ID))
		return frame(m, wire.CmdHeaders, payloadOf(hs, rc.pver))
	case symGetData:
		gd := wire.NewMsgGetData()
		h := idHash(s.ID)
		gd.AddInvVect(wire.NewInvVect(wire.InvTypeBlock, &h))
		return frame(m, wire.CmdGetData, payloadOf(gd, rc.pver))
	case symBadMagic:
		om := uint32(otherMagic[rc.net])
		switch s.Var {
		case 0:
			return frame(om, wire.CmdPing, payloadOf(wire.NewMsgPing(s.ID), rc.pver))
		case 1:
			return frame(om, wire.CmdVerAck, nil)
		case 2:
			return rcWith(rc, wire.BitcoinNet(om)).version(70016, rc.nonce+s.ID)
		default:
			return frame(0xdeadbeef, wire.CmdTx, payloadOf(idTx(s.ID), rc.pver))
		}
	case symBadChecksum:
		f := frame(m, wire.CmdPing, payloadOf(wire.NewMsgPing(s.ID), wire.ProtocolVersion))
		f[20] ^= 0x55
		return f
	case symOversize:
		hdr := make([]byte, 24)
		binary.LittleEndian.PutUint32(hdr[0:], m)
		switch s.Var {
		case 0: // header length above the protocol maximum, nothing follows
			copy(hdr[4:16], wire.CmdBlock)
			binary.LittleEndian.PutUint32(hdr[16:], wire.MaxProtocolMessageLength+1)
			return hdr
		case 1:
			copy(hdr[4:16], wire.CmdPing)
			binary.LittleEndian.PutUint32(hdr[16:], 0xffffffff)
			return hdr
		case 2: // above the maximum of the message type, payload present
			return frame(m, wire.CmdPing, bytes.Repeat([]byte{7}, 64))
		default:
			return frame(m, wire.CmdVerAck, []byte{1})
		}
	case symTruncated:
		f := frame(m, wire.CmdPing, payloadOf(wire.NewMsgPing(s.ID), wire.ProtocolVersion))
		return f[:24+3]
	}
	panic("bad symbol")
}

func rcWith(rc *remoteCtx, n wire.BitcoinNet) *remoteCtx {
	c := *rc
	c.net = n
	return &c
}

// wmsg is one decoded message of the peer's output stream.
type wmsg struct {
	cmd   string
	msg   wire.Message
	off   int   // offset of the frame start in the capture
	stamp int64 // stamp of the Write call that completed the frame
}

// decodeCapture splits the captured bytes into frames (checking magic and checksum with the
// harness's own framing code) and decodes the payloads (at the newest protocol version: the peer only
// ever writes version / verack / sendaddrv2 / reject / pong / ping / inv here, whose layouts do not
// depend on the negotiated version above 60000). A trailing partial frame is returned as
// partial=true (legal when the connection was cut).
func decodeCapture(data []byte, marks []mark, magic wire.BitcoinNet) (msgs []wmsg, partial bool, err error) {
	off := 0
	mi := 0
	pver := wire.ProtocolVersion
	for off < len(data) {
		if len(data)-off < 24 {
			return msgs, true, nil
		}
		h := data[off : off+24]
		if binary.LittleEndian.Uint32(h[0:]) != uint32(magic) {
			return msgs, false, fmt.Errorf("frame at %d: magic %08x", off, binary.LittleEndian.Uint32(h[0:]))
		}
		ln := int(binary.LittleEndian.Uint32(h[16:]))
		if ln > wire.MaxProtocolMessageLength {
			return msgs, false, fmt.Errorf("frame at %d: length %d", off, ln)
		}
		if len(data)-off-24 < ln {
			return msgs, true, nil
		}
		pl := data[off+24 : off+24+ln]
		ck := dsha4(pl)
		if !bytes.Equal(ck[:], h[20:24]) {
			return msgs, false, fmt.Errorf("frame at %d: checksum", off)
		}
		cmd := string(bytes.TrimRight(h[4:16], "\x00"))
		end := off + 24 + ln
		_, m, _, derr := wire.ReadMessageWithEncodingN(bytes.NewReader(data[off:end]), pver, magic, wire.WitnessEncoding)
		if derr != nil {
			return msgs, false, fmt.Errorf("frame at %d (%s): %v", off, cmd, derr)
		}
		for mi < len(marks) && marks[mi].end < end {
			mi++
		}
		var st int64
		if mi < len(marks) {
			st = marks[mi].stamp
		}
		msgs = append(msgs, wmsg{cmd: cmd, msg: m, off: off, stamp: st})
		off = end
	}
	return msgs, false, nil
}
