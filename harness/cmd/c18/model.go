package main

// The handshake automaton of Appendix C, written from the protocol description (BIP 31/37/155,
// Bitcoin Core's version/verack rules), not from btcd: given the local configuration and the remote
// script it says which typed callbacks the application must see, where the peer must hang up by
// itself, and what the negotiated protocol version must be.

type cbExp struct {
	kind     string
	id       uint64
	hasID    bool
	optional bool // callback may or may not be delivered (see model notes)
	symIdx   int
}

type expectation struct {
	cbs []cbExp
	// refusedAt >= 0: the peer must disconnect on its own after reading symbol refusedAt; nothing
	// after it may produce a callback. reason is the violation-key class.
	refusedAt int
	reason    string
	// mayStopAt >= 0: from symbol mayStopAt on the peer is allowed (not required) to have hung up
	// (redundant verack, sendaddrv2 after the handshake: Bitcoin Core ignores the first and
	// disconnects on the second, the property takes no side) — callbacks after it form a prefix.
	mayStopAt int
	// blockedAt >= 0: symbol blockedAt leaves the peer waiting for bytes that never come; the
	// harness ends the stream there.
	blockedAt int

	versionAccepted  bool // a version message was accepted (state reached AWAIT_VERACK)
	handshakeDone    bool // version and verack both processed (if the peer did not use a permission to stop)
	handshakeCertain bool // handshakeDone and no permission to stop before the verack
	remotePver       uint32
	negotiated       uint32 // min(local, remote) once versionAccepted
	consumed         int    // number of symbols the remote will actually send
}

type localCfg struct {
	pver          uint32 // effective local protocol version (never 0)
	allowSelf     bool
	minAcceptable uint32
	rejectVersion bool // the application's OnVersion listener returns a reject
}

func minU32(a, b uint32) uint32 {
	if a < b {
		return a
	}
	return b
}

const addrV2Version = 70016 // BIP155

const (
	stAwaitVer = iota
	stAwaitVerAck
	stDone
)

func model(lc localCfg, script []sym) expectation {
	e := expectation{refusedAt: -1, mayStopAt: -1, blockedAt: -1, negotiated: lc.pver}
	st := stAwaitVer
	refuse := func(i int, why string) expectation {
		e.refusedAt, e.reason, e.consumed = i, why, len(script)
		return e
	}
	for i, s := range script {
		// framing-level events are the same in every state
		switch s.Kind {
		case symBadMagic:
			return refuse(i, "wrong-magic")
		case symBadChecksum:
			return refuse(i, "bad-checksum")
		case symOversize:
			return refuse(i, "oversize")
		case symTruncated:
			e.blockedAt, e.consumed = i, i+1
			return e
		}
		switch st {
		case stAwaitVer:
			switch s.Kind {
			case symVerOK, symVerOld, symVerSelf:
				if s.Kind == symVerSelf && !lc.allowSelf {
					// the application may be shown the version before the peer hangs up; it
					// must see nothing else
					e.cbs = append(e.cbs, cbExp{kind: "version", optional: true, symIdx: i})
					return refuse(i, "self-connection")
				}
				if uint32(s.Pver) < lc.minAcceptable {
					e.cbs = append(e.cbs, cbExp{kind: "version", optional: true, symIdx: i})
					return refuse(i, "obsolete-version")
				}
				e.cbs = append(e.cbs, cbExp{kind: "version", symIdx: i})
				e.remotePver = uint32(s.Pver)
				e.negotiated = minU32(lc.pver, uint32(s.Pver))
				if lc.rejectVersion {
					return refuse(i, "listener-rejected-version")
				}
				e.versionAccepted = true
				st = stAwaitVerAck
			default:
				return refuse(i, "pre-version-message")
			}
		case stAwaitVerAck:
			switch s.Kind {
			case symVerOK, symVerOld, symVerSelf:
				return refuse(i, "duplicate-version")
			case symSendAddrV2:
				// BIP155: only meaningful between version and verack; whether the application
				// hears about it when the negotiated version predates addrv2 is not specified
				e.cbs = append(e.cbs, cbExp{kind: "sendaddrv2", optional: true, symIdx: i})
				if e.negotiated < addrV2Version && e.mayStopAt < 0 {
					// the message does not exist at the negotiated version: the peer may treat
					// it as malformed and hang up, or ignore it
					e.mayStopAt = i
				}
			case symUnknown:
				// tolerated, no callback
			case symVerAck:
				e.cbs = append(e.cbs, cbExp{kind: "verack", symIdx: i})
				e.handshakeDone = true
				e.handshakeCertain = e.mayStopAt < 0
				st = stDone
			default:
				return refuse(i, "pre-verack-message")
			}
		case stDone:
			switch s.Kind {
			case symVerOK, symVerOld, symVerSelf:
				return refuse(i, "duplicate-version")
			case symVerAck, symSendAddrV2:
				if e.mayStopAt < 0 {
					e.mayStopAt = i
				}
			case symUnknown:
			default:
				e.cbs = append(e.cbs, cbExp{kind: symCallback[s.Kind], id: s.ID, hasID: true, symIdx: i})
			}
		}
	}
	e.consumed = len(script)
	return e
}

// matchCallbacks compares the observed typed callbacks with the expectation.
// lossy: the connection could be lost at any point (full close / faults), so any prefix is fine.
func matchCallbacks(e expectation, got []cbEvent, lossy bool) (key, detail string) {
	j := 0
	for _, x := range e.cbs {
		if j < len(got) && got[j].kind == x.kind && (!x.hasID || got[j].id == x.id) {
			j++
			continue
		}
		if x.optional {
			continue
		}
		if j >= len(got) {
			// missing callback(s): legal only as a tail after a point where the peer may stop
			if lossy || (e.mayStopAt >= 0 && x.symIdx >= e.mayStopAt) {
				return "", ""
			}
			return "callback-missing:" + x.kind, "expected callback " + x.kind + " never delivered"
		}
		if got[j].kind == x.kind {
			return "callback-wrong-content:" + x.kind, "callback " + x.kind + " carries the wrong message"
		}
		return "callback-out-of-order:" + got[j].kind, "got callback " + got[j].kind + " where " + x.kind + " was due"
	}
	if j < len(got) {
		cls := "after-handshake"
		if !e.handshakeDone {
			cls = "before-handshake"
		}
		if e.refusedAt >= 0 {
			cls = "after-" + e.reason
		}
		return "callback-unexpected:" + got[j].kind + ":" + cls, "callback " + got[j].kind + " must not be delivered here"
	}
	return "", ""
}
