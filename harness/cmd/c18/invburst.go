package main

import (
	"fmt"
	"net"
	"runtime"
	"time"

	"verif/mon"

	"github.com/btcsuite/btcd/peer"
	"github.com/btcsuite/btcd/wire/v2"
)

// invburst family: inventory is not sent message by message but collected and flushed by the trickle timer, in batches
// of at most 1000 vectors per inv message. A burst of several thousand announcements between two ticks makes one tick
// flush several full batches back to back, which is the only time the queue handler hands more than one message to the
// output handler without going through its select loop. After the burst a ping with a completion channel is queued;
// the case waits (generous watchdog, no verdict on time) for that completion or for the burst to show up on the wire,
// disconnects, and judges: every peer goroutine ends, every completion signal arrives exactly once, and the inventory
// that reached the wire is a duplicate-free subsequence of what was queued, in queue order.
func registerInvBurst(c *mon.Ctx, ps *procState) {
	if !want("invburst") {
		return
	}
	c.Family("invburst", c.N(6, 60), func(k *mon.Case) { runInvBurst(k, ps) })
	c.Require("invburst.cases", 2)
	c.Require("invburst.ticks-with-more-than-3-full-batches-queued", 1)
}

type invBurstOpts struct {
	Family    string `json:"family"`
	Inbound   bool   `json:"inbound"`
	Vectors   int    `json:"inventory_vectors_queued_in_one_burst"`
	TrickleMs int    `json:"trickle_interval_ms"`
	Pings     int    `json:"pings_with_completion_channel_after_the_burst"`
}

func runInvBurst(k *mon.Case, ps *procState) {
	r := k.Rand
	ps.base = runtime.NumGoroutine()
	o := invBurstOpts{Family: k.Family, Inbound: r.Bool(), Vectors: 3100 + r.Intn(5000), TrickleMs: 150 + r.Intn(250), Pings: 1 + r.Intn(4)}
	if r.Chance(1, 4) {
		o.Vectors = 900 + r.Intn(2300) // at most three full batches: the ordinary path
	}
	k.Desc(o)
	params := netTable[0].params
	clk := &clock{}
	hk := &hooks{clk: clk, rr: r.Fork(), wr: r.Fork(), maxDelayUs: 20}
	rec := newRecorder(clk, r.Fork(), 0, 20)
	localAddr := &net.TCPAddr{IP: net.IPv4(10, 0, 0, 1), Port: 18555}
	remoteAddr := &net.TCPAddr{IP: net.IPv4(10, 0, 0, 2), Port: 8333}
	local, remote := newPair(clk, hk, localAddr, remoteAddr)
	cfg := &peer.Config{ChainParams: params, UserAgentName: "verif", UserAgentVersion: "1.0.0",
		Services: wire.SFNodeNetwork | wire.SFNodeWitness, Listeners: rec.listeners(),
		TrickleInterval: time.Duration(o.TrickleMs) * time.Millisecond}
	var p *peer.Peer
	if o.Inbound {
		p = peer.NewInboundPeer(cfg)
	} else {
		var err error
		if p, err = peer.NewOutboundPeer(cfg, remoteAddr.String()); err != nil {
			k.Failf("harness:new-outbound-peer", "%v", err)
			return
		}
	}
	rc := &remoteCtx{net: params.Net, pver: wire.ProtocolVersion, nonce: r.Uint64() | 1<<62, services: wire.SFNodeNetwork | wire.SFNodeWitness}
	hs := append(rc.version(int32(wire.ProtocolVersion), rc.nonce), frame(uint32(params.Net), wire.CmdVerAck, nil)...)
	remote.Write(hs)
	p.AssociateConnection(local)
	stopRemote := make(chan struct{})
	remoteDone := make(chan struct{})
	go func() { // drain whatever the local peer writes
		defer close(remoteDone)
		buf := make([]byte, 1<<16)
		for {
			remote.SetReadDeadline(time.Now().Add(50 * time.Millisecond))
			if _, err := remote.Read(buf); err != nil {
				select {
				case <-stopRemote:
					return
				default:
				}
				if ne, ok := err.(net.Error); !ok || !ne.Timeout() {
					return
				}
			}
		}
	}()
	finish := func() {
		p.Disconnect()
		p.WaitForDisconnect()
		close(stopRemote)
		remote.Close()
		local.Close()
		<-remoteDone
	}
	if !settle(10*time.Second, func() bool { return p.VerAckReceived() }) {
		inconclusive(k, "invburst-handshake-not-completed")
		finish()
		ps.checkShutdown(k, "invburst")
		return
	}
	// the burst, from one goroutine, right after a tick boundary is as good as anywhere: the whole burst takes a few
	// milliseconds, far less than the trickle interval
	for i := 0; i < o.Vectors; i++ {
		h := idHash(uint64(0x1b00000000000000) | uint64(i))
		p.QueueInventory(wire.NewInvVect(wire.InvTypeTx, &h))
	}
	var dones []chan struct{}
	for i := 0; i < o.Pings; i++ {
		d := make(chan struct{}, 4)
		dones = append(dones, d)
		p.QueueMessage(wire.NewMsgPing(uint64(0x1b5e000000000000)|uint64(i)), d)
	}
	// wait for the last ping's completion (or give up after the watchdog: what follows is judged either way)
	waited := settle(20*time.Second, func() bool { return len(dones[len(dones)-1]) > 0 })
	// and a little longer for the trickled inventory to leave (two intervals); no verdict depends on it
	time.Sleep(time.Duration(2*o.TrickleMs) * time.Millisecond)
	finish()
	left := ps.checkShutdown(k, "invburst")
	if left == 0 {
		for i, d := range dones {
			switch n := len(d); {
			case n == 0:
				k.Failf("fifo:done-never-signalled:invburst:handlers-ran", "ping #%d queued after a burst of %d inventory vectors never had its completion signalled although all peer goroutines have ended", i, o.Vectors)
			case n > 1:
				k.Failf("fifo:done-signalled-twice", "ping #%d: completion signalled %d times (invburst family)", i, n)
			default:
				k.Count("invburst.done.exactly-once", 1)
			}
		}
	}
	// what reached the wire
	data, marks := local.captured()
	msgs, _, err := decodeCapture(data, marks, params.Net)
	if err != nil {
		k.Failf("wire:undecodable-output", "invburst: %v", err)
		return
	}
	next, seen, batches := 0, 0, 0
	for _, m := range msgs {
		inv, ok := m.msg.(*wire.MsgInv)
		if !ok {
			continue
		}
		batches++
		if len(inv.InvList) > 1000 {
			k.Failf("fifo:inv-batch-larger-than-1000", "an inv message carries %d vectors", len(inv.InvList))
		}
		for _, iv := range inv.InvList {
			id := int(hashID(&iv.Hash) & 0xffffffff)
			if hashID(&iv.Hash)>>56 != 0x1b || id < next {
				k.Failf("fifo:inventory-out-of-order-or-duplicated", "inventory vector #%d on the wire after #%d had been sent (burst of %d)", id, next-1, o.Vectors)
				return
			}
			next = id + 1
			seen++
		}
	}
	if waited && left == 0 && seen == o.Vectors {
		k.Count("invburst.all-vectors-on-the-wire", 1)
	}
	if o.Vectors > 3000 {
		k.Count("invburst.ticks-with-more-than-3-full-batches-queued", 1)
	}
	k.Count("invburst.cases", 1)
	k.Count("invburst.vectors-on-the-wire", int64(seen))
	k.Eval(mon.Sig("invburst", o.Inbound, o.Vectors/500, o.Pings, fmt.Sprint(batches)), true)
}
