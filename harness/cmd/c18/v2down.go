package main

// hs.v2down: an outbound peer configured for the v2 transport meets a v1-only remote, which drops
// the connection when it receives the (to it) senseless key bytes. The peer must disconnect without
// any callback and without leaving goroutines, must report that a v1 retry is indicated, the
// downgrade cache must hand that hint out exactly once, and the v1 retry must complete the handshake.

import (
	"fmt"
	"net"
	"time"

	"verif/mon"

	"github.com/btcsuite/btcd/peer"
	"github.com/btcsuite/btcd/wire/v2"
)

func runV2Down(k *mon.Case, ps *procState) {
	r := k.Rand
	netIdx := r.Intn(len(netTable))
	params := netTable[netIdx].params
	closeAfter := []int{0, 1, 16, 64}[r.Intn(4)] // bytes of the peer's key the remote sees before it hangs up
	halfClose := r.Bool()
	k.Desc(map[string]any{"family": k.Family, "net": netTable[netIdx].name, "close_after_bytes": closeAfter, "half_close": halfClose})

	clk := &clock{}
	hk := &hooks{clk: clk, rr: r.Fork(), wr: r.Fork(), maxDelayUs: 200}
	if r.Bool() {
		hk.readDelayN, hk.writeDelayN = 3, 3
	}
	rec := newRecorder(clk, r.Fork(), 0, 0)
	remoteAddr := &net.TCPAddr{IP: net.IPv4(10, 0, 0, 2), Port: 8333}
	local, remote := newPair(clk, hk, &net.TCPAddr{IP: net.IPv4(10, 0, 0, 1), Port: 18555}, remoteAddr)
	cfg := &peer.Config{ChainParams: params, UserAgentName: "verif", UserAgentVersion: "1.0.0",
		Services: wire.SFNodeNetwork | wire.SFNodeWitness | wire.SFNodeP2PV2, UsingV2Conn: true,
		Listeners: rec.listeners(), TrickleInterval: time.Millisecond}
	p, err := peer.NewOutboundPeer(cfg, remoteAddr.String())
	if err != nil {
		k.Failf("harness:new-outbound-peer", "%v", err)
		return
	}
	ps.base = 0
	p.AssociateConnection(local)
	settle(settleBudget, func() bool { return local.capturedLen() >= closeAfter })
	// the hint is only owed when the peer got its key out and then saw the remote hang up (on this
	// conn a full close makes a later write fail at once, which real TCP would not do)
	owed := halfClose || local.capturedLen() >= 64
	if halfClose {
		remote.CloseWrite()
	} else {
		remote.Close()
	}
	done, stuck, snap := ps.waitDone(p)
	if !done {
		if stuck {
			k.Violation("handshake:no-disconnect:v2-remote-hung-up", fmt.Sprintf("the remote closed the connection during the v2 key exchange; the peer did not disconnect:\n%s", stacksOf(snap.peer)), nil)
		} else {
			inconclusive(k, "no-disconnect-within-watchdog-but-process-not-quiescent")
		}
		p.Disconnect()
	}
	p.WaitForDisconnect()
	remote.Close()
	ps.checkShutdown(k, k.Family)
	if evs := rec.events(); len(evs) != 0 {
		k.Failf("handshake:callback-unexpected:"+evs[0].kind+":v2-remote-hung-up", "callback %s although no version message was ever received", evs[0].kind)
	}
	if done && owed && !p.ShouldDowngradeToV1() {
		k.Failf("downgrade:not-indicated", "the remote hung up after %d bytes of the v2 key exchange without sending anything, but ShouldDowngradeToV1() is false", closeAfter)
	}
	// the downgrade cache hands the hint out exactly once, and only for that address
	d := peer.NewP2PDowngrader(uint(r.Intn(3)))
	other := "10.0.0.3:8333"
	d.MarkForDowngrade(p.Addr())
	if d.ShouldDowngrade(other) {
		k.Failf("downgrade:cache-wrong-address", "ShouldDowngrade(%s) is true, only %s was marked", other, p.Addr())
	}
	if !d.ShouldDowngrade(p.Addr()) {
		k.Failf("downgrade:cache-lost", "ShouldDowngrade(%s) is false right after MarkForDowngrade", p.Addr())
	}
	if d.ShouldDowngrade(p.Addr()) {
		k.Failf("downgrade:cache-not-consumed", "ShouldDowngrade(%s) is true a second time", p.Addr())
	}
	k.Count("v2down.cases", 1)
	if owed {
		k.Count("v2down.downgrade-hint-checked", 1)
	}

	// the v1 retry against the same remote completes the handshake
	script := []sym{fillSym(r, symVerOK, 0), fillSym(r, symVerAck, 1), fillSym(r, symPing, 2)}
	o := drawHSOpts(r, false, script)
	o.netIdx, o.Net = netIdx, netTable[netIdx].name
	o.RejectVersion, o.Lossy = false, false
	runHandshake(k, ps, o)
}
