package main

// The scripted remote for the BIP324 (v2) transport. The remote uses btcd's own v2transport package
// as its transport implementation (the transport itself is checked by C19); what is observed here is
// peer.go on top of it: handshake order, FIFO / completion signals, shutdown, races. Everything is
// driven in-process over the buffered conn, without any wall-clock wait.

import (
	"bytes"
	"io"
	"sync"

	"github.com/btcsuite/btcd/v2transport"
	"github.com/btcsuite/btcd/wire/v2"
)

// capReader reads the bytes the local end has written from the capture (not from the live queue), so
// that nothing is lost when the remote end is closed while output is still unread.
type capReader struct {
	h   *half
	off int
}

func (c *capReader) Read(p []byte) (int, error) {
	h := c.h
	h.mu.Lock()
	defer h.mu.Unlock()
	for c.off >= len(h.total) {
		if h.wclosed || h.rclosed {
			return 0, io.EOF
		}
		h.cond.Wait()
	}
	n := copy(p, h.total[c.off:])
	c.off += n
	return n, nil
}

type v2rw struct {
	io.Reader
	io.Writer
}

type v2remote struct {
	tp  *v2transport.Peer
	clk *clock

	smu sync.Mutex // serialises senders (the send cipher is stateful)

	mu      sync.Mutex
	msgs    []wmsg
	err     error // why the reader stopped
	reading bool  // readLoop was entered
}

func (v *v2remote) started() bool {
	v.mu.Lock()
	defer v.mu.Unlock()
	return v.reading
}

func newV2Remote(local, remote *Conn, clk *clock) *v2remote {
	v := &v2remote{tp: v2transport.NewPeer(), clk: clk}
	v.tp.UseReadWriter(&v2rw{Reader: &capReader{h: local.wr}, Writer: remote})
	return v
}

// handshake runs the remote's side of the key exchange: initiator when the local peer is inbound.
func (v *v2remote) handshake(localInbound bool, garbageLen int, decoys []int, net wire.BitcoinNet) error {
	if localInbound {
		if err := v.tp.InitiateV2Handshake(garbageLen); err != nil {
			return err
		}
		return v.tp.CompleteHandshake(true, decoys, v2transport.BitcoinNet(net))
	}
	if err := v.tp.RespondV2Handshake(garbageLen, v2transport.BitcoinNet(net)); err != nil {
		return err
	}
	return v.tp.CompleteHandshake(false, decoys, v2transport.BitcoinNet(net))
}

func (v *v2remote) send(m wire.Message) error {
	var b bytes.Buffer
	if _, err := wire.WriteV2MessageN(&b, m, wire.ProtocolVersion, wire.BaseEncoding); err != nil {
		return err
	}
	v.smu.Lock()
	defer v.smu.Unlock()
	_, _, err := v.tp.V2EncPacket(b.Bytes(), nil, false)
	return err
}

// readLoop decrypts and decodes everything the peer writes until the stream ends.
func (v *v2remote) readLoop() {
	v.mu.Lock()
	v.reading = true
	v.mu.Unlock()
	for {
		pt, err := v.tp.V2ReceivePacket(nil)
		if err != nil {
			v.mu.Lock()
			v.err = err
			v.mu.Unlock()
			return
		}
		m, _, err := wire.ReadV2MessageN(pt, wire.ProtocolVersion, wire.WitnessEncoding)
		if err != nil {
			v.mu.Lock()
			v.err = err
			v.mu.Unlock()
			return
		}
		v.mu.Lock()
		v.msgs = append(v.msgs, wmsg{cmd: m.Command(), msg: m, stamp: v.clk.tick()})
		v.mu.Unlock()
	}
}

func (v *v2remote) snapshot() []wmsg {
	v.mu.Lock()
	defer v.mu.Unlock()
	return append([]wmsg(nil), v.msgs...)
}

// stoppedEarly: the reader ended on something else than the end of the stream.
func (v *v2remote) stoppedEarly() bool {
	v.mu.Lock()
	defer v.mu.Unlock()
	return v.err != nil && v.err != io.EOF && v.err != io.ErrUnexpectedEOF
}

func (v *v2remote) endClass() string {
	v.mu.Lock()
	defer v.mu.Unlock()
	switch {
	case v.err == nil:
		return "never-started-or-running"
	case v.err == io.EOF:
		return "eof"
	case v.err == io.ErrUnexpectedEOF:
		return "eof-inside-packet"
	}
	e := v.err.Error()
	if len(e) > 60 {
		e = e[:60]
	}
	return e
}
