package main

// Listener recorder: every typed MessageListeners callback is recorded with a stamp from the case
// clock together with the handshake flags the peer reports at that moment. OnRead / OnWrite are raw
// byte-level listeners, recorded separately and never judged as protocol messages.

import (
	"sync"

	"verif/mon"

	"github.com/btcsuite/btcd/peer"
	"github.com/btcsuite/btcd/wire/v2"
)

type cbEvent struct {
	stamp  int64
	kind   string
	id     uint64
	verKn  bool // p.VersionKnown() at callback time
	verAck bool // p.VerAckReceived() at callback time
}

type recorder struct {
	clk *clock

	mu     sync.Mutex
	evs    []cbEvent
	reads  int
	writes int
	dr     *mon.Rand // listener delay stream (callbacks are serial, so this is deterministic)
	delayN int       // 1 in delayN callbacks sleeps
	maxUs  int

	rejectVersion bool
	onVersion     func() // harness triggers (invoked outside mu, before the delay)
	onVerAck      func()
	verackCh      chan struct{}
	verackOnce    sync.Once
}

func newRecorder(clk *clock, dr *mon.Rand, delayN, maxUs int) *recorder {
	return &recorder{clk: clk, dr: dr, delayN: delayN, maxUs: maxUs, verackCh: make(chan struct{})}
}

func (rc *recorder) rec(p *peer.Peer, kind string, id uint64) {
	ev := cbEvent{kind: kind, id: id, verKn: p.VersionKnown(), verAck: p.VerAckReceived()}
	d := 0
	rc.mu.Lock()
	ev.stamp = rc.clk.tick()
	rc.evs = append(rc.evs, ev)
	if rc.delayN > 0 && rc.dr.Intn(rc.delayN) == 0 {
		d = pickDelay(rc.dr, rc.maxUs)
	}
	rc.mu.Unlock()
	sleepUs(d)
}

func (rc *recorder) events() []cbEvent {
	rc.mu.Lock()
	defer rc.mu.Unlock()
	return append([]cbEvent(nil), rc.evs...)
}

func firstInvID(l []*wire.InvVect) uint64 {
	if len(l) == 0 {
		return 0
	}
	return hashID(&l[0].Hash)
}

// listeners installs a recording callback in every field of MessageListeners.
func (rc *recorder) listeners() peer.MessageListeners {
	return peer.MessageListeners{
		OnGetAddr: func(p *peer.Peer, m *wire.MsgGetAddr) { rc.rec(p, "getaddr", 0) },
		OnAddr: func(p *peer.Peer, m *wire.MsgAddr) {
			var id uint64
			if len(m.AddrList) > 0 {
				id = uint64(m.AddrList[0].Port)
			}
			rc.rec(p, "addr", id)
		},
		OnAddrV2:  func(p *peer.Peer, m *wire.MsgAddrV2) { rc.rec(p, "addrv2", 0) },
		OnPing:    func(p *peer.Peer, m *wire.MsgPing) { rc.rec(p, "ping", m.Nonce) },
		OnPong:    func(p *peer.Peer, m *wire.MsgPong) { rc.rec(p, "pong", m.Nonce) },
		OnMemPool: func(p *peer.Peer, m *wire.MsgMemPool) { rc.rec(p, "mempool", 0) },
		OnTx: func(p *peer.Peer, m *wire.MsgTx) {
			var id uint64
			if len(m.TxIn) > 0 {
				id = hashID(&m.TxIn[0].PreviousOutPoint.Hash)
			}
			rc.rec(p, "tx", id)
		},
		OnBlock: func(p *peer.Peer, m *wire.MsgBlock, buf []byte) {
			rc.rec(p, "block", hashID(&m.Header.PrevBlock))
		},
		OnCFilter:   func(p *peer.Peer, m *wire.MsgCFilter) { rc.rec(p, "cfilter", 0) },
		OnCFHeaders: func(p *peer.Peer, m *wire.MsgCFHeaders) { rc.rec(p, "cfheaders", 0) },
		OnCFCheckpt: func(p *peer.Peer, m *wire.MsgCFCheckpt) { rc.rec(p, "cfcheckpt", 0) },
		OnInv:       func(p *peer.Peer, m *wire.MsgInv) { rc.rec(p, "inv", firstInvID(m.InvList)) },
		OnHeaders: func(p *peer.Peer, m *wire.MsgHeaders) {
			var id uint64
			if len(m.Headers) > 0 {
				id = hashID(&m.Headers[0].PrevBlock)
			}
			rc.rec(p, "headers", id)
		},
		OnNotFound:     func(p *peer.Peer, m *wire.MsgNotFound) { rc.rec(p, "notfound", firstInvID(m.InvList)) },
		OnGetData:      func(p *peer.Peer, m *wire.MsgGetData) { rc.rec(p, "getdata", firstInvID(m.InvList)) },
		OnGetBlocks:    func(p *peer.Peer, m *wire.MsgGetBlocks) { rc.rec(p, "getblocks", 0) },
		OnGetHeaders:   func(p *peer.Peer, m *wire.MsgGetHeaders) { rc.rec(p, "getheaders", 0) },
		OnGetCFilters:  func(p *peer.Peer, m *wire.MsgGetCFilters) { rc.rec(p, "getcfilters", 0) },
		OnGetCFHeaders: func(p *peer.Peer, m *wire.MsgGetCFHeaders) { rc.rec(p, "getcfheaders", 0) },
		OnGetCFCheckpt: func(p *peer.Peer, m *wire.MsgGetCFCheckpt) { rc.rec(p, "getcfcheckpt", 0) },
		OnFeeFilter:    func(p *peer.Peer, m *wire.MsgFeeFilter) { rc.rec(p, "feefilter", 0) },
		OnFilterAdd:    func(p *peer.Peer, m *wire.MsgFilterAdd) { rc.rec(p, "filteradd", 0) },
		OnFilterClear:  func(p *peer.Peer, m *wire.MsgFilterClear) { rc.rec(p, "filterclear", 0) },
		OnFilterLoad:   func(p *peer.Peer, m *wire.MsgFilterLoad) { rc.rec(p, "filterload", 0) },
		OnMerkleBlock:  func(p *peer.Peer, m *wire.MsgMerkleBlock) { rc.rec(p, "merkleblock", 0) },
		OnVersion: func(p *peer.Peer, m *wire.MsgVersion) *wire.MsgReject {
			if rc.onVersion != nil {
				rc.onVersion()
			}
			rc.rec(p, "version", uint64(uint32(m.ProtocolVersion)))
			if rc.rejectVersion {
				return wire.NewMsgReject(wire.CmdVersion, wire.RejectNonstandard, "application refuses")
			}
			return nil
		},
		OnVerAck: func(p *peer.Peer, m *wire.MsgVerAck) {
			rc.verackOnce.Do(func() { close(rc.verackCh) })
			if rc.onVerAck != nil {
				rc.onVerAck()
			}
			rc.rec(p, "verack", 0)
		},
		OnReject:      func(p *peer.Peer, m *wire.MsgReject) { rc.rec(p, "reject", 0) },
		OnSendHeaders: func(p *peer.Peer, m *wire.MsgSendHeaders) { rc.rec(p, "sendheaders", 0) },
		OnSendAddrV2:  func(p *peer.Peer, m *wire.MsgSendAddrV2) { rc.rec(p, "sendaddrv2", 0) },
		OnRead: func(p *peer.Peer, n int, m wire.Message, err error) {
			rc.mu.Lock()
			rc.reads++
			rc.mu.Unlock()
		},
		OnWrite: func(p *peer.Peer, n int, m wire.Message, err error) {
			rc.mu.Lock()
			rc.writes++
			rc.mu.Unlock()
		},
	}
}
