package main

// oracle.* families: the worker itself signs (btcec) the digest computed by the REFERENCE for spends
// whose digest depends on the exotic parts of the algorithms - executed / unexecuted / trailing
// OP_CODESEPARATORs, signature pushes embedded in the executed script (FindAndDelete), every one-byte
// hash type, the SIGHASH_SINGLE "one" digest, the taproot annex, tapscript code separator positions -
// and the real interpreter must accept them (and reject them after a committed change). This observes
// the digest at the place where it matters (Engine.Execute), including the internal paths the public
// Calc* functions do not expose (sub-script selection, removeOpcodeByData, key-path annex).

import (
	"fmt"

	"verif/mon"
	ref "verif/ref/refsighash"

	"github.com/btcsuite/btcd/btcec/v2"
	"github.com/btcsuite/btcd/btcec/v2/ecdsa"
	"github.com/btcsuite/btcd/btcec/v2/schnorr"
	"github.com/btcsuite/btcd/txscript/v2"
	"github.com/btcsuite/btcd/wire/v2"
)

// consensusFlags: what block validation uses today (no policy-only strictness, so that undefined
// hash-type bytes are legal for ECDSA signatures).
const consensusFlags = txscript.ScriptBip16 | txscript.ScriptVerifyDERSignatures | txscript.ScriptVerifyCheckLockTimeVerify |
	txscript.ScriptVerifyCheckSequenceVerify | txscript.ScriptVerifyWitness | txscript.ScriptStrictMultiSig | txscript.ScriptVerifyTaproot

type segKind int

const (
	segRaw      segKind = iota // literal bytes, stack neutral
	segCodeSep                 // an executed OP_CODESEPARATOR
	segSigSlot                 // push(sig i) OP_DROP  (legacy only: removed by FindAndDelete)
	segCheckSig                // <pk i> OP_CHECKSIG(VERIFY)
)

type seg struct {
	kind segKind
	raw  []byte
	n    int // which signature / key
}

// junkSeg returns stack-neutral filler; it may contain an UNEXECUTED code separator and 0xab data.
func junkSeg(r *mon.Rand, k *mon.Case, tapscript bool) seg {
	switch r.Intn(4) {
	case 0:
		return seg{kind: segRaw, raw: []byte{0x61}} // OP_NOP
	case 1:
		d := r.Bytes(1 + r.Intn(20))
		for i := range d {
			if r.Chance(1, 2) {
				d[i] = 0xab
			}
		}
		k.Count("oracle.ab_inside_push_data", 1)
		return seg{kind: segRaw, raw: cat(push(d), []byte{0x75})} // <data> OP_DROP
	case 2:
		k.Count("oracle.unexecuted_codesep", 1)
		return seg{kind: segRaw, raw: []byte{0x00, 0x63, 0xab, 0x68}} // OP_0 OP_IF OP_CODESEPARATOR OP_ENDIF
	default:
		return seg{kind: segRaw, raw: []byte{0x51, 0x75}} // OP_1 OP_DROP
	}
}

// assembleSegs renders the script. sigs[i]==nil renders slot i as nothing at all (the script "with the
// signature already deleted"). It returns, per signature check n, the byte offset just after the last
// code separator executed before it, and the opcode index of that separator (BIP342), or -1.
func assembleSegs(segs []seg, pks [][]byte, sigs [][]byte, verifyAllButLast bool) (script []byte, subStart []int, sepPos []int) {
	lastStart, lastPos, opIdx := 0, -1, 0
	nChecks := 0
	for _, s := range segs {
		if s.kind == segCheckSig {
			nChecks++
		}
	}
	subStart, sepPos = make([]int, nChecks), make([]int, nChecks)
	seen := 0
	for _, s := range segs {
		switch s.kind {
		case segRaw:
			script = append(script, s.raw...)
			opIdx += len(opBoundaries(s.raw)) - 1
		case segCodeSep:
			script = append(script, 0xab)
			lastStart, lastPos = len(script), opIdx
			opIdx++
		case segSigSlot:
			if sigs[s.n] != nil {
				script = append(script, push(sigs[s.n])...)
				opIdx++
			}
			script = append(script, 0x75)
			opIdx++
		case segCheckSig:
			subStart[s.n], sepPos[s.n] = lastStart, lastPos
			script = append(script, push(pks[s.n])...)
			seen++
			if seen < nChecks && verifyAllButLast {
				script = append(script, 0xad)
			} else {
				script = append(script, 0xac)
			}
			opIdx += 2
		}
	}
	return
}

func oracleCtx(r *mon.Rand, pkScript []byte, nExtraIn int) (*sctx, int) {
	tx := wire.NewMsgTx(int32(r.Intn(3)))
	s := &sctx{tx: tx}
	idx := r.Intn(nExtraIn + 1)
	for i := 0; i <= nExtraIn; i++ {
		var op wire.OutPoint
		r.Fill(op.Hash[:])
		op.Index = uint32(i)
		in := wire.NewTxIn(&op, nil, nil)
		in.Sequence = edgeU32(r)
		tx.AddTxIn(in)
		s.amounts = append(s.amounts, r.Int63n(maxSatoshi))
		if i == idx {
			s.scripts = append(s.scripts, pkScript)
		} else {
			s.scripts = append(s.scripts, randPrevScript(r, false))
		}
	}
	for j := r.Intn(4); j > 0; j-- {
		tx.AddTxOut(wire.NewTxOut(r.Int63n(maxSatoshi), randPrevScript(r, false)))
	}
	tx.LockTime = edgeU32(r)
	return s, idx
}

func ecdsaSign(priv *btcec.PrivateKey, d [32]byte, ht byte) []byte {
	return append(ecdsa.Sign(priv, d[:]).Serialize(), ht)
}

func schnorrSign(priv *btcec.PrivateKey, d [32]byte, ht byte) []byte {
	sig, err := schnorr.Sign(priv, d[:])
	if err != nil {
		panic(err)
	}
	b := sig.Serialize()
	if ht != 0 {
		b = append(b, ht)
	}
	return b
}

// anyHashType walks all 256 byte values deterministically over the case index and adds random ones.
func anyHashType(k *mon.Case, salt int) byte {
	if k.Rand.Chance(1, 3) {
		return []byte{1, 2, 3, 0x81, 0x82, 0x83}[k.Rand.Intn(6)]
	}
	return byte(int(k.Index)*7 + salt*101)
}

// ---------------------------------------------------------------------------------------------

// oracleLegacyCase: bare or P2SH script with code separators and embedded copies of the signature.
func oracleLegacyCase(k *mon.Case) {
	r := k.Rand
	priv := randKey(r)
	pk := pubBytes(priv, r.Bool())
	ht := anyHashType(k, 0)
	var segs []seg
	nslots := 0
	for n := r.Intn(5); n > 0; n-- {
		switch r.Intn(4) {
		case 0:
			segs = append(segs, seg{kind: segCodeSep})
			k.Count("oracle.legacy.executed_codesep", 1)
		case 1:
			if nslots < 2 {
				segs = append(segs, seg{kind: segSigSlot, n: 0})
				nslots++
			}
		default:
			segs = append(segs, junkSeg(r, k, false))
		}
	}
	segs = append(segs, seg{kind: segCheckSig, n: 0})
	// after the signature check: trailing separators / an unexecuted branch holding the signature
	for n := r.Intn(3); n > 0; n-- {
		switch r.Intn(3) {
		case 0:
			segs = append(segs, seg{kind: segCodeSep})
			k.Count("oracle.legacy.trailing_codesep", 1)
		case 1:
			if nslots < 3 {
				// OP_0 OP_IF <sig> OP_DROP OP_ENDIF : never executed, still subject to FindAndDelete
				segs = append(segs, seg{kind: segRaw, raw: []byte{0x00, 0x63}}, seg{kind: segSigSlot, n: 0}, seg{kind: segRaw, raw: []byte{0x68}})
				nslots++
			}
		default:
			segs = append(segs, junkSeg(r, k, false))
		}
	}
	if nslots > 0 {
		k.Count("oracle.legacy.embedded_signature_push", 1)
	}
	stripped, start, _ := assembleSegs(segs, [][]byte{pk}, [][]byte{nil}, false)
	p2sh := r.Bool()
	// the pkScript is needed to build the context, but a bare script contains the signature that
	// signs the transaction - no circularity: the legacy digest never covers the spent pkScript itself
	s, idx := oracleCtx(r, nil, r.Intn(3))
	if r.Chance(1, 4) && len(s.tx.TxIn) > len(s.tx.TxOut) && idx < len(s.tx.TxOut) {
		idx = len(s.tx.TxIn) - 1 // more chances for "SINGLE without output"
	}
	d := ref.Legacy(stripped[start[0]:], s.tx, idx, uint32(ht))
	sig := ecdsaSign(priv, d, ht)
	full, startFull, _ := assembleSegs(segs, [][]byte{pk}, [][]byte{sig}, false)
	if ref.LegacyForSig(full[startFull[0]:], sig, s.tx, idx) != d {
		k.Failf("calibration:refsighash.FindAndDelete:self-consistency", "script %x sig %x", full, sig)
		return
	}
	if p2sh && len(full) <= 520 {
		s.scripts[idx] = p2shScript(full)
		s.tx.TxIn[idx].SignatureScript = cat(push(sig), push(full))
		k.Count("oracle.legacy.p2sh", 1)
	} else {
		s.scripts[idx] = full
		s.tx.TxIn[idx].SignatureScript = push(sig)
		k.Count("oracle.legacy.bare", 1)
	}
	s.fc = nil
	cls := htClass(ref.FormLegacy, uint32(ht), idx, len(s.tx.TxOut))
	k.Desc(map[string]any{"ht": ht, "idx": idx, "script": fmt.Sprintf("%x", full), "ctx": s.hex()})
	var sc *txscript.SigCache
	if r.Bool() {
		sc = txscript.NewSigCache(10)
	}
	if err := engineVerdict(s, idx, consensusFlags, sc, nil); err != nil {
		k.Failf(fmt.Sprintf("oracle:legacy:engine-rejects-signature-over-reference-digest:%s:slots=%d", cls, min(nslots, 1)),
			"hash type %#x idx %d script %x scriptSig %x: %v", ht, idx, full, s.tx.TxIn[idx].SignatureScript, err)
	}
	k.Count("oracle.legacy.accepted."+cls, 1)
	if d == ref.One() {
		k.Count("oracle.legacy.signed_digest_one", 1)
	} else {
		// a committed change must invalidate it
		s2, _ := mutate(r, s, mutArgs{}, idx, ref.Field{Kind: ref.FLockTime})
		if err := engineVerdict(s2, idx, consensusFlags, sc, nil); err == nil {
			k.Failf("oracle:legacy:still-valid-after-locktime-change:"+cls, "hash type %#x script %x", ht, full)
		}
	}
	k.Eval(mon.Sig("oracle.legacy", ht, len(segs), nslots, p2sh, start[0], len(s.tx.TxIn), len(s.tx.TxOut)), true)
}

// oracleV0Case: P2WSH (or P2SH-P2WSH) script with two signature checks separated by code separators,
// each signature with its own arbitrary hash-type byte.
func oracleV0Case(k *mon.Case) {
	r := k.Rand
	privs := []*btcec.PrivateKey{randKey(r), randKey(r)}
	pks := [][]byte{pubBytes(privs[0], true), pubBytes(privs[1], true)}
	hts := []byte{anyHashType(k, 1), anyHashType(k, 2)}
	var segs []seg
	fill := func() {
		for n := r.Intn(3); n > 0; n-- {
			if r.Chance(1, 3) {
				segs = append(segs, seg{kind: segCodeSep})
				k.Count("oracle.v0.executed_codesep", 1)
			} else {
				segs = append(segs, junkSeg(r, k, false))
			}
		}
	}
	fill()
	segs = append(segs, seg{kind: segCheckSig, n: 0})
	fill()
	segs = append(segs, seg{kind: segCheckSig, n: 1})
	if r.Chance(1, 3) {
		segs = append(segs, seg{kind: segCodeSep}) // trailing: stays inside the BIP143 script code
		k.Count("oracle.v0.trailing_codesep", 1)
	}
	ws, start, _ := assembleSegs(segs, pks, nil, true)
	nested := r.Chance(1, 3)
	pkScript := p2wshScript(ws)
	if nested {
		pkScript = p2shScript(p2wshScript(ws))
	}
	s, idx := oracleCtx(r, pkScript, r.Intn(3))
	if nested {
		s.tx.TxIn[idx].SignatureScript = push(p2wshScript(ws))
	}
	var sigs [][]byte
	for n := 0; n < 2; n++ {
		d := ref.BIP143(ws[start[n]:], s.tx, idx, s.amounts[idx], uint32(hts[n]))
		sigs = append(sigs, ecdsaSign(privs[n], d, hts[n]))
	}
	s.tx.TxIn[idx].Witness = wire.TxWitness{sigs[1], sigs[0], ws}
	k.Desc(map[string]any{"hts": hts, "idx": idx, "witnessScript": fmt.Sprintf("%x", ws), "ctx": s.hex()})
	cls := htClass(ref.FormBIP143, uint32(hts[0]), idx, len(s.tx.TxOut)) + "," + htClass(ref.FormBIP143, uint32(hts[1]), idx, len(s.tx.TxOut))
	var sh *txscript.TxSigHashes
	if r.Bool() {
		sh = txscript.NewTxSigHashes(s.tx, s.fetcher())
	}
	if err := engineVerdict(s, idx, consensusFlags, nil, sh); err != nil {
		k.Failf("oracle:v0:engine-rejects-signature-over-reference-digest:"+cls,
			"hash types %x idx %d witness script %x (sub-script offsets %v): %v", hts, idx, ws, start, err)
	}
	k.Count("oracle.v0.accepted", 1)
	s2, _ := mutate(r, s, mutArgs{}, idx, ref.Field{Kind: ref.FAmount, Index: idx})
	if err := engineVerdict(s2, idx, consensusFlags, nil, nil); err == nil {
		k.Failf("oracle:v0:still-valid-after-amount-change", "hash types %x witness script %x", hts, ws)
	}
	k.Eval(mon.Sig("oracle.v0", hts, len(segs), start, nested, len(s.tx.TxIn), len(s.tx.TxOut)), true)
}

var tapHashTypes = []byte{0, 1, 2, 3, 0x81, 0x82, 0x83}

// oracleTapscriptCase: tapscript leaf with two signature checks and code separators; the BIP342
// codeseparator_position differs per check; optional annex.
func oracleTapscriptCase(k *mon.Case) {
	r := k.Rand
	privs := []*btcec.PrivateKey{randKey(r), randKey(r)}
	pks := [][]byte{xonly(privs[0]), xonly(privs[1])}
	var segs []seg
	fill := func() {
		for n := r.Intn(3); n > 0; n-- {
			if r.Chance(1, 3) {
				segs = append(segs, seg{kind: segCodeSep})
				k.Count("oracle.tapscript.executed_codesep", 1)
			} else {
				segs = append(segs, junkSeg(r, k, true))
			}
		}
	}
	fill()
	segs = append(segs, seg{kind: segCheckSig, n: 0})
	fill()
	segs = append(segs, seg{kind: segCheckSig, n: 1})
	if r.Chance(1, 3) {
		segs = append(segs, seg{kind: segCodeSep})
	}
	leafScript, _, sepPos := assembleSegs(segs, pks, nil, true)
	internal := randKey(r)
	leaf := txscript.NewBaseTapLeaf(leafScript)
	_, control, outKey := tapTree(r, internal, leaf)
	s, idx := oracleCtx(r, p2trScript(outKey), r.Intn(3))
	lh := ref.TapLeafHash(0xc0, leafScript)
	if bl := leaf.TapHash(); [32]byte(bl) != lh {
		k.Failf("tapscript:TapLeaf.TapHash:mismatch", "script %x: got %x want %x", leafScript, bl[:], lh[:])
	}
	var annex []byte
	if r.Bool() {
		annex = randAnnex(r)
		k.Count("oracle.tapscript.annex", 1)
	}
	nOut := len(s.tx.TxOut)
	var sigs [][]byte
	var hts []byte
	for n := 0; n < 2; n++ {
		ht := tapHashTypes[r.Intn(len(tapHashTypes))]
		if !ref.Defined(ref.FormTapscript, uint32(ht), idx, nOut) {
			ht &^= 2 // SINGLE -> ALL
		}
		pos := uint32(blankCodeSep)
		if sepPos[n] >= 0 {
			pos = uint32(sepPos[n])
			k.Count("oracle.tapscript.codeseppos_not_blank", 1)
		}
		d, ok := ref.Taproot(s.tx, idx, s.amounts, s.scripts, ht, annex, &lh, pos, 0)
		if !ok {
			k.Failf("calibration:oracle.tapscript:undefined", "ht %#x", ht)
			return
		}
		sigs = append(sigs, schnorrSign(privs[n], d, ht))
		hts = append(hts, ht)
	}
	w := wire.TxWitness{sigs[1], sigs[0], leafScript, control}
	if annex != nil {
		w = append(w, annex)
	}
	s.tx.TxIn[idx].Witness = w
	k.Desc(map[string]any{"hts": hts, "idx": idx, "leaf": fmt.Sprintf("%x", leafScript), "sepPos": sepPos, "annex": fmt.Sprintf("%x", annex), "ctx": s.hex()})
	sh := txscript.NewTxSigHashes(s.tx, s.fetcher())
	var sc *txscript.SigCache
	if r.Bool() {
		sc = txscript.NewSigCache(4)
	}
	if err := engineVerdict(s, idx, consensusFlags, sc, sh); err != nil {
		k.Failf(fmt.Sprintf("oracle:tapscript:engine-rejects-signature-over-reference-digest:annex=%v:sep=%v,%v", annex != nil, sepPos[0] >= 0, sepPos[1] >= 0),
			"hash types %x idx %d leaf %x codesep positions %v annex %x: %v", hts, idx, leafScript, sepPos, annex, err)
	}
	k.Count("oracle.tapscript.accepted", 1)
	// committed: the annex (content or presence)
	s2 := s.clone()
	w2 := s2.tx.TxIn[idx].Witness
	if annex != nil {
		if len(annex) > 1 {
			w2[len(w2)-1][len(annex)-1] ^= 1
		} else {
			w2[len(w2)-1] = append(w2[len(w2)-1], 0)
		}
	} else {
		s2.tx.TxIn[idx].Witness = append(w2, []byte{0x50, 0x01})
	}
	if err := engineVerdict(s2, idx, consensusFlags, sc, txscript.NewTxSigHashes(s2.tx, s2.fetcher())); err == nil {
		k.Failf("oracle:tapscript:still-valid-after-annex-change", "leaf %x annex %x", leafScript, annex)
	}
	// SIGHASH_SINGLE without a matching output has no digest: any such signature must be refused
	if idx >= nOut {
		s3 := s.clone()
		w3 := s3.tx.TxIn[idx].Witness
		w3[1] = append(append([]byte{}, w3[1][:64]...), 0x03)
		if err := engineVerdict(s3, idx, consensusFlags, nil, txscript.NewTxSigHashes(s3.tx, s3.fetcher())); err == nil {
			k.Failf("oracle:tapscript:single-without-output-accepted", "leaf %x", leafScript)
		}
		k.Count("oracle.tapscript.single_without_output_refused", 1)
	}
	k.Eval(mon.Sig("oracle.tapscript", hts, len(segs), sepPos, annex != nil, len(s.tx.TxIn), nOut), true)
}

// oracleKeypathCase: taproot key-path spend (with or without a script tree), optional annex.
func oracleKeypathCase(k *mon.Case) {
	r := k.Rand
	internal := randKey(r)
	var root []byte
	if r.Bool() {
		root, _, _ = tapTree(r, internal, txscript.NewBaseTapLeaf(cat(push(r.Bytes(32)), []byte{0xac})))
	}
	outKey := txscript.ComputeTaprootOutputKey(internal.PubKey(), root)
	tweaked := txscript.TweakTaprootPrivKey(*internal, root)
	s, idx := oracleCtx(r, p2trScript(outKey), r.Intn(4))
	var annex []byte
	if r.Bool() {
		annex = randAnnex(r)
		k.Count("oracle.keypath.annex", 1)
	}
	nOut := len(s.tx.TxOut)
	ht := tapHashTypes[int(k.Index)%len(tapHashTypes)]
	if !ref.Defined(ref.FormTaproot, uint32(ht), idx, nOut) {
		ht &^= 2
	}
	d, ok := ref.Taproot(s.tx, idx, s.amounts, s.scripts, ht, annex, nil, 0, 0)
	if !ok {
		k.Failf("calibration:oracle.keypath:undefined", "ht %#x", ht)
		return
	}
	w := wire.TxWitness{schnorrSign(tweaked, d, ht)}
	if annex != nil {
		w = append(w, annex)
	}
	s.tx.TxIn[idx].Witness = w
	k.Desc(map[string]any{"ht": ht, "idx": idx, "annex": fmt.Sprintf("%x", annex), "ctx": s.hex()})
	sh := txscript.NewTxSigHashes(s.tx, s.fetcher())
	cls := htClass(ref.FormTaproot, uint32(ht), idx, nOut)
	if err := engineVerdict(s, idx, consensusFlags, nil, sh); err != nil {
		k.Failf(fmt.Sprintf("oracle:keypath:engine-rejects-signature-over-reference-digest:%s:annex=%v", cls, annex != nil),
			"hash type %#x idx %d annex %x: %v", ht, idx, annex, err)
	}
	k.Count("oracle.keypath.accepted."+cls, 1)
	if annex != nil {
		s2 := s.clone()
		w2 := s2.tx.TxIn[idx].Witness
		w2[1] = append(w2[1], 0x00)
		if err := engineVerdict(s2, idx, consensusFlags, nil, txscript.NewTxSigHashes(s2.tx, s2.fetcher())); err == nil {
			k.Failf("oracle:keypath:still-valid-after-annex-change", "annex %x", annex)
		}
	}
	k.Eval(mon.Sig("oracle.keypath", ht, annex != nil, root != nil, idx, len(s.tx.TxIn), nOut), true)
}
