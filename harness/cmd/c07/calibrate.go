package main

// Calibration of the reference digests (refsighash) against published vectors that ship with btcd:
//   - txscript/data/sighash.json: 500 legacy digests produced by Bitcoin Core;
//   - txscript/data/tx_valid.json: the BIP143 example transactions, the FindAndDelete transactions
//     (with their digests printed in the comments) and every other standard spend in it: the
//     signatures of known-valid spends must verify (btcec) against the *reference* digest;
//   - txscript/data/taproot-ref: Core's taproot functional-test dump: every key-path signature and
//     every tapscript signature of the known-valid spends must verify against the reference BIP341/342
//     digest (all hash types, annex, code separator positions, leaf hashes).
// btcd's digest functions are not involved here at all. A failure is reported as "calibration:...".

import (
	"bufio"
	"bytes"
	"encoding/hex"
	"encoding/json"
	"fmt"
	"os"
	"path/filepath"
	"strconv"
	"strings"
	"sync"

	"verif/mon"
	ref "verif/ref/refsighash"

	"github.com/btcsuite/btcd/btcec/v2"
	"github.com/btcsuite/btcd/btcec/v2/ecdsa"
	"github.com/btcsuite/btcd/btcec/v2/schnorr"
	"github.com/btcsuite/btcd/wire/v2"
)

func vectorDir() string {
	h := os.Getenv("VERIF_HOME")
	if h == "" {
		h = "/verif"
	}
	return filepath.Join(h, "vectors", "c07")
}

type legacyVec struct {
	tx, script []byte
	idx        int
	ht         uint32
	want       [32]byte
}

type txValidVec struct {
	comment  string // the comment lines preceding the entry
	prevouts []struct {
		hash   [32]byte
		index  uint32
		script []byte
		ok     bool // script could be assembled
		amount int64
	}
	tx    []byte
	flags string
}

type tapVec struct {
	Tx       string   `json:"tx"`
	Prevouts []string `json:"prevouts"`
	Index    int      `json:"index"`
	Flags    string   `json:"flags"`
	Comment  string   `json:"comment"`
	Success  *struct {
		ScriptSig string   `json:"scriptSig"`
		Witness   []string `json:"witness"`
	} `json:"success"`
}

var (
	vecOnce   sync.Once
	vecErr    error
	legacyVs  []legacyVec
	txValidVs []txValidVec
	tapVs     []tapVec
)

var asmOps = map[string]byte{"HASH160": 0xa9, "EQUAL": 0x87, "CHECKSIG": 0xac, "DUP": 0x76, "EQUALVERIFY": 0x88,
	"CHECKSIGVERIFY": 0xad, "CHECKMULTISIG": 0xae, "CHECKMULTISIGVERIFY": 0xaf, "CODESEPARATOR": 0xab, "NOP": 0x61,
	"DROP": 0x75, "NOT": 0x91, "IF": 0x63, "ELSE": 0x67, "ENDIF": 0x68, "VERIFY": 0x69, "SHA256": 0xa8, "HASH256": 0xaa,
	"SWAP": 0x7c, "SIZE": 0x82, "2DROP": 0x6d, "RETURN": 0x6a, "CHECKLOCKTIMEVERIFY": 0xb1, "CHECKSEQUENCEVERIFY": 0xb2}

// assemble understands the small part of Core's test-script notation needed for standard scriptPubKeys.
func assemble(asm string) ([]byte, bool) {
	var out []byte
	for _, tok := range strings.Fields(asm) {
		switch {
		case strings.HasPrefix(tok, "0x"):
			b, err := hex.DecodeString(tok[2:])
			if err != nil {
				return nil, false
			}
			out = append(out, b...)
		case tok == "0":
			out = append(out, 0x00)
		default:
			if n, err := strconv.Atoi(tok); err == nil {
				if n == -1 {
					out = append(out, 0x4f)
				} else if n >= 1 && n <= 16 {
					out = append(out, byte(0x50+n))
				} else {
					return nil, false
				}
				continue
			}
			op, ok := asmOps[strings.TrimPrefix(tok, "OP_")]
			if !ok {
				return nil, false
			}
			out = append(out, op)
		}
	}
	return out, true
}

func loadVectors() {
	dir := vectorDir()
	// sighash.json
	b, err := os.ReadFile(filepath.Join(dir, "sighash.json"))
	if err != nil {
		vecErr = err
		return
	}
	var rows [][]any
	if err := json.Unmarshal(b, &rows); err != nil {
		vecErr = err
		return
	}
	for _, row := range rows {
		if len(row) != 5 {
			continue
		}
		var v legacyVec
		v.tx, _ = hex.DecodeString(row[0].(string))
		v.script, _ = hex.DecodeString(row[1].(string))
		v.idx = int(row[2].(float64))
		v.ht = uint32(int32(row[3].(float64)))
		w, _ := hex.DecodeString(row[4].(string))
		for i := range w { // Core prints uint256 byte-reversed
			v.want[31-i] = w[i]
		}
		legacyVs = append(legacyVs, v)
	}
	// tx_valid.json
	b, err = os.ReadFile(filepath.Join(dir, "tx_valid.json"))
	if err != nil {
		vecErr = err
		return
	}
	rows = nil
	if err := json.Unmarshal(b, &rows); err != nil {
		vecErr = err
		return
	}
	comment := ""
	for _, row := range rows {
		if len(row) == 1 {
			if s, ok := row[0].(string); ok {
				comment += s + "\n"
			}
			continue
		}
		if len(row) != 3 {
			continue
		}
		ins, ok1 := row[0].([]any)
		txh, ok2 := row[1].(string)
		fl, ok3 := row[2].(string)
		if !ok1 || !ok2 || !ok3 {
			comment = ""
			continue
		}
		v := txValidVec{comment: comment, flags: fl}
		comment = ""
		v.tx, _ = hex.DecodeString(txh)
		for _, in := range ins {
			f, ok := in.([]any)
			if !ok || len(f) < 3 {
				continue
			}
			var p struct {
				hash   [32]byte
				index  uint32
				script []byte
				ok     bool
				amount int64
			}
			hb, _ := hex.DecodeString(f[0].(string))
			for i := range hb {
				p.hash[31-i] = hb[i]
			}
			p.index = uint32(int64(f[1].(float64)))
			p.script, p.ok = assemble(f[2].(string))
			if len(f) > 3 {
				p.amount = int64(f[3].(float64))
			}
			v.prevouts = append(v.prevouts, p)
		}
		txValidVs = append(txValidVs, v)
	}
	// taproot-ref
	f, err := os.Open(filepath.Join(dir, "taproot-ref.jsonl"))
	if err != nil {
		vecErr = err
		return
	}
	defer f.Close()
	sc := bufio.NewScanner(f)
	sc.Buffer(make([]byte, 1<<20), 1<<26)
	for sc.Scan() {
		var v tapVec
		if err := json.Unmarshal(sc.Bytes(), &v); err != nil {
			vecErr = err
			return
		}
		tapVs = append(tapVs, v)
	}
	vecErr = sc.Err()
}

func vectors(k *mon.Case) bool {
	vecOnce.Do(loadVectors)
	if vecErr != nil {
		k.Failf("calibration:vectors-unreadable", "%v", vecErr)
		return false
	}
	return true
}

func parseTx(b []byte) (*wire.MsgTx, error) {
	var tx wire.MsgTx
	err := tx.Deserialize(bytes.NewReader(b))
	return &tx, err
}

func ecdsaOK(sigNoType, pk []byte, digest [32]byte) bool {
	key, err := btcec.ParsePubKey(pk)
	if err != nil {
		return false
	}
	sig, err := ecdsa.ParseSignature(sigNoType)
	if err != nil {
		return false
	}
	return sig.Verify(digest[:], key)
}

func schnorrOK(sig64, xonly []byte, digest [32]byte) bool {
	key, err := schnorr.ParsePubKey(xonly)
	if err != nil {
		return false
	}
	sig, err := schnorr.ParseSignature(sig64)
	if err != nil {
		return false
	}
	return sig.Verify(digest[:], key)
}

func looksLikeECDSASig(b []byte) bool { return len(b) >= 9 && len(b) <= 73 && b[0] == 0x30 }

// calLegacyCase: one sighash.json row.
func calLegacyCase(k *mon.Case) {
	if !vectors(k) {
		return
	}
	if int(k.Index) >= len(legacyVs) {
		return
	}
	v := legacyVs[k.Index]
	tx, err := parseTx(v.tx)
	if err != nil {
		k.Failf("calibration:sighash.json:unparsable-tx", "row %d: %v", k.Index, err)
		return
	}
	got := ref.Legacy(v.script, tx, v.idx, v.ht)
	if got != v.want {
		k.Failf("calibration:refsighash.Legacy:sighash.json", "row %d: got %x want %x", k.Index, got[:], v.want[:])
	}
	k.Count("calibrate.legacy.sighash_json_rows", 1)
	k.Eval(mon.Sig("cal.legacy", k.Index), true)
}

// v0Candidates returns script-code candidates of a witness script: the whole script and the part
// after each OP_CODESEPARATOR.
func suffixesAfterCodeSep(script []byte) [][]byte {
	out := [][]byte{script}
	for _, b := range opBoundaries(script) {
		if b < len(script) && script[b] == 0xab {
			out = append(out, script[b+1:])
		}
	}
	return out
}

// calTxValidCase: one tx_valid.json entry.
func calTxValidCase(k *mon.Case) {
	if !vectors(k) {
		return
	}
	if int(k.Index) >= len(txValidVs) {
		return
	}
	v := txValidVs[k.Index]
	tx, err := parseTx(v.tx)
	if err != nil {
		return // some entries are deliberately odd; nothing to calibrate on
	}
	// digests printed in the comments (FindAndDelete tests)
	for _, line := range strings.Split(v.comment, "\n") {
		i := strings.Index(line, "correct sighash (")
		if i < 0 {
			continue
		}
		j := strings.LastIndex(line, "= ")
		wantB, err := hex.DecodeString(strings.TrimSpace(line[j+2:]))
		if err != nil || len(wantB) != 32 {
			continue
		}
		var want, got [32]byte
		copy(want[:], wantB)
		if strings.Contains(line, "without FindAndDelete") {
			w := tx.TxIn[0].Witness
			got = ref.BIP143(w[len(w)-1], tx, 0, v.prevouts[0].amount, 1)
		} else {
			items := pushes(tx.TxIn[0].SignatureScript)
			code := items[len(items)-1] // redeem script
			for _, it := range items[:len(items)-1] {
				if looksLikeECDSASig(it) {
					code, _ = ref.FindAndDelete(code, ref.PushData(it))
				}
			}
			got = ref.Legacy(code, tx, 0, 1)
		}
		if got != want {
			k.Failf("calibration:refsighash:tx_valid-printed-digest", "%s: got %x", line, got[:])
		}
		k.Count("calibrate.tx_valid.printed_digests", 1)
	}
	must := v.flags == "NONE"
	bip143Example := strings.Contains(v.comment, "BIP143 example")
	for i, in := range tx.TxIn {
		var spk []byte
		var amt int64
		found := false
		for _, p := range v.prevouts {
			if p.hash == in.PreviousOutPoint.Hash && p.index == in.PreviousOutPoint.Index && p.ok {
				spk, amt, found = p.script, p.amount, true
			}
		}
		if !found {
			continue
		}
		ss := pushes(in.SignatureScript)
		prog := spk
		if len(spk) == 23 && spk[0] == 0xa9 && spk[22] == 0x87 && len(in.Witness) > 0 && len(ss) == 1 {
			prog = ss[0] // P2SH-wrapped witness program
		}
		check := func(what string, ok bool, insist bool) {
			if ok {
				k.Count("calibrate.tx_valid.sigs_verified."+what, 1)
			} else if insist {
				k.Failf("calibration:refsighash:tx_valid:"+what, "entry %d input %d: signature of a known-valid spend does not verify under the reference digest (%s)",
					k.Index, i, strings.TrimSpace(v.comment))
			} else {
				k.Count("calibrate.tx_valid.sigs_unverified."+what, 1)
			}
		}
		switch {
		case len(in.Witness) == 0 && len(spk) == 25 && spk[0] == 0x76 && spk[1] == 0xa9 && len(ss) == 2 && looksLikeECDSASig(ss[0]):
			d := ref.LegacyForSig(spk, ss[0], tx, i)
			check("p2pkh", ecdsaOK(ss[0][:len(ss[0])-1], ss[1], d), false)
		case len(in.Witness) == 0 && (len(spk) == 35 || len(spk) == 67) && spk[len(spk)-1] == 0xac && len(ss) == 1 && looksLikeECDSASig(ss[0]):
			d := ref.LegacyForSig(spk, ss[0], tx, i)
			check("p2pk", ecdsaOK(ss[0][:len(ss[0])-1], spk[1:len(spk)-1], d), false)
		case isP2WPKHProgram(prog) && len(in.Witness) == 2 && looksLikeECDSASig(in.Witness[0]):
			sig := in.Witness[0]
			d := ref.BIP143(ref.P2WPKHScriptCode(prog[2:]), tx, i, amt, uint32(sig[len(sig)-1]))
			check("p2wpkh", ecdsaOK(sig[:len(sig)-1], in.Witness[1], d), must)
		case len(prog) == 34 && prog[0] == 0x00 && prog[1] == 0x20 && len(in.Witness) >= 1:
			ws := in.Witness[len(in.Witness)-1]
			var pks [][]byte
			for _, p := range pushes(ws) {
				if len(p) == 33 || len(p) == 65 {
					pks = append(pks, p)
				}
			}
			for _, sig := range in.Witness[:len(in.Witness)-1] {
				if !looksLikeECDSASig(sig) {
					continue
				}
				ok := false
				for _, code := range suffixesAfterCodeSep(ws) {
					d := ref.BIP143(code, tx, i, amt, uint32(sig[len(sig)-1]))
					for _, pk := range pks {
						ok = ok || ecdsaOK(sig[:len(sig)-1], pk, d)
					}
				}
				check("p2wsh", ok, bip143Example)
				if ok {
					k.Count(fmt.Sprintf("calibrate.tx_valid.p2wsh_hashtype_%02x", sig[len(sig)-1]), 1)
				}
			}
		}
	}
	k.Eval(mon.Sig("cal.txvalid", k.Index), true)
}

// calTaprootCase: one taproot-ref entry (the "success" spend).
func calTaprootCase(k *mon.Case) {
	if !vectors(k) {
		return
	}
	if int(k.Index) >= len(tapVs) {
		return
	}
	v := tapVs[k.Index]
	if v.Success == nil {
		return
	}
	raw, _ := hex.DecodeString(v.Tx)
	tx, err := parseTx(raw)
	if err != nil || len(v.Prevouts) != len(tx.TxIn) {
		k.Failf("calibration:taproot-ref:unparsable", "entry %d (%s): %v", k.Index, v.Comment, err)
		return
	}
	amounts := make([]int64, len(tx.TxIn))
	scripts := make([][]byte, len(tx.TxIn))
	for i, p := range v.Prevouts {
		b, _ := hex.DecodeString(p)
		var o wire.TxOut
		// an output is 8 bytes value + compact size + script; parse by hand
		if len(b) < 9 {
			return
		}
		for j := 7; j >= 0; j-- {
			o.Value = o.Value<<8 | int64(b[j])
		}
		n, l := int(b[8]), 9
		if b[8] == 0xfd {
			n, l = int(b[9])|int(b[10])<<8, 11
		}
		if l+n != len(b) {
			k.Failf("calibration:taproot-ref:unparsable", "entry %d prevout %d", k.Index, i)
			return
		}
		amounts[i], scripts[i] = o.Value, b[l:]
	}
	idx := v.Index
	var wit [][]byte
	for _, w := range v.Success.Witness {
		b, _ := hex.DecodeString(w)
		wit = append(wit, b)
	}
	scriptSig, _ := hex.DecodeString(v.Success.ScriptSig)
	spk := scripts[idx]
	group := strings.SplitN(v.Comment, "/", 2)[0]
	insist := group == "sighash" || group == "applic" || group == "sig" || group == "siglen" || group == "spendpath"
	active := strings.Contains(v.Flags, "TAPROOT")
	fail := func(what string) {
		k.Failf("calibration:refsighash.Taproot:taproot-ref:"+what, "entry %d (%s): a signature of a known-valid spend does not verify under the reference digest",
			k.Index, v.Comment)
	}
	switch {
	case isP2TR(spk) && len(wit) > 0:
		var annex []byte
		if len(wit) >= 2 && len(wit[len(wit)-1]) > 0 && wit[len(wit)-1][0] == 0x50 {
			annex = wit[len(wit)-1]
			wit = wit[:len(wit)-1]
			k.Count("calibrate.taproot.with_annex", 1)
		}
		if len(wit) == 1 {
			sig := wit[0]
			if len(sig) != 64 && len(sig) != 65 {
				if active {
					fail("keypath-siglen")
				}
				return
			}
			ht := byte(0)
			if len(sig) == 65 {
				ht = sig[64]
			}
			d, ok := ref.Taproot(tx, idx, amounts, scripts, ht, annex, nil, 0, 0)
			if !ok || !schnorrOK(sig[:64], spk[2:], d) {
				if active {
					fail("keypath")
				} else {
					k.Count("calibrate.taproot.inactive_invalid_sig_ignored", 1)
				}
				return
			}
			k.Count("calibrate.taproot.keypath_sigs_verified", 1)
			k.Count(fmt.Sprintf("calibrate.taproot.keypath_hashtype_%02x", ht), 1)
			break
		}
		script, control := wit[len(wit)-2], wit[len(wit)-1]
		if len(control) < 33 || control[0]&0xfe != 0xc0 {
			k.Count("calibrate.taproot.unknown_leaf_version_skipped", 1)
			break
		}
		stack := wit[:len(wit)-2]
		lh := ref.TapLeafHash(0xc0, script)
		var pks [][]byte
		for _, p := range pushes(script) {
			if len(p) == 32 {
				pks = append(pks, p)
			}
		}
		for _, it := range stack {
			if len(it) == 32 {
				pks = append(pks, it)
			}
		}
		positions := []uint32{blankCodeSep}
		for n, b := range opBoundaries(script) {
			if b < len(script) && script[b] == 0xab {
				positions = append(positions, uint32(n))
			}
		}
		nsig, nok := 0, 0
		for _, sig := range stack {
			if len(sig) != 64 && len(sig) != 65 {
				continue
			}
			nsig++
			ht := byte(0)
			if len(sig) == 65 {
				ht = sig[64]
			}
			ok := false
			for _, pos := range positions {
				d, def := ref.Taproot(tx, idx, amounts, scripts, ht, annex, &lh, pos, 0)
				if !def {
					continue
				}
				for _, pk := range pks {
					if schnorrOK(sig[:64], pk, d) {
						ok = true
						if pos != blankCodeSep {
							k.Count("calibrate.taproot.scriptpath_codesep_position_used", 1)
						}
					}
				}
			}
			if ok {
				nok++
				k.Count(fmt.Sprintf("calibrate.taproot.scriptpath_hashtype_%02x", ht), 1)
			}
		}
		k.Count("calibrate.taproot.scriptpath_sigs_verified", int64(nok))
		k.Count("calibrate.taproot.scriptpath_sig_candidates_unverified", int64(nsig-nok))
		if insist && nsig > 0 && nok == 0 {
			fail("scriptpath")
		}
	case isP2WPKHProgram(spk) && len(wit) == 2 && looksLikeECDSASig(wit[0]):
		sig := wit[0]
		d := ref.BIP143(ref.P2WPKHScriptCode(spk[2:]), tx, idx, amounts[idx], uint32(sig[len(sig)-1]))
		if ecdsaOK(sig[:len(sig)-1], wit[1], d) {
			k.Count("calibrate.taproot-ref.p2wpkh_sigs_verified", 1)
		} else {
			k.Count("calibrate.taproot-ref.v0_legacy_sigs_unverified", 1)
		}
	case len(wit) == 0 && len(spk) == 25 && spk[0] == 0x76:
		ss := pushes(scriptSig)
		if len(ss) == 2 && looksLikeECDSASig(ss[0]) {
			tx2 := tx.Copy()
			tx2.TxIn[idx].SignatureScript = scriptSig
			d := ref.LegacyForSig(spk, ss[0], tx2, idx)
			if ecdsaOK(ss[0][:len(ss[0])-1], ss[1], d) {
				k.Count("calibrate.taproot-ref.p2pkh_sigs_verified", 1)
				k.Count(fmt.Sprintf("calibrate.taproot-ref.p2pkh_hashtype_%02x", ss[0][len(ss[0])-1]), 1)
			} else {
				k.Count("calibrate.taproot-ref.v0_legacy_sigs_unverified", 1)
			}
		}
	}
	k.Eval(mon.Sig("cal.taproot", k.Index), true)
}
