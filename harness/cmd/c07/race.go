package main

// race.caches (only in the -race build): one SigCache (tiny, so that eviction happens all the time) and
// one HashCache shared by 8 goroutines that validate the same set of helper-signed transactions and
// invalidated copies of them. Every verdict must equal the sequential expectation whatever the
// interleaving; the race detector watches the caches.

import (
	"fmt"
	"sync"

	"verif/mon"
	ref "verif/ref/refsighash"

	"github.com/btcsuite/btcd/chainhash/v2"
	"github.com/btcsuite/btcd/txscript/v2"
)

type raceItem struct {
	s     *sctx
	i     int
	valid bool
	what  string
}

func raceCase(k *mon.Case) {
	r := k.Rand
	var items []raceItem
	for t := 0; t < 5; t++ {
		nin := 1 + r.Intn(3)
		s, spends, _, classes, ok := buildSigned(k, r, nin, func(i int) int { return r.Intn(numSpendClasses) })
		if !ok {
			return
		}
		s.fc = nil
		s.fetcher()
		for i, sp := range spends {
			items = append(items, raceItem{s, i, true, classes[i]})
			f := ref.Field{Kind: ref.FLockTime}
			if !sp.nosig && ref.Commits(sp.form, sp.ht, i, nin, len(s.tx.TxOut), f) {
				s2, _ := mutate(r, s, mutArgs{}, i, f)
				s2.fetcher()
				items = append(items, raceItem{s2, i, false, classes[i] + "+locktime-changed"})
			}
		}
	}
	k.Desc(map[string]any{"items": len(items)})
	sigCache := txscript.NewSigCache(uint(2 + r.Intn(6)))
	hashCache := txscript.NewHashCache(8)
	const workers = 8
	rounds := 4
	var wg sync.WaitGroup
	rands := make([]*mon.Rand, workers)
	for g := range rands {
		rands[g] = r.Fork()
	}
	// an entry that is never added must never be reported present
	var ghost chainhash.Hash
	r.Fill(ghost[:])
	ghostSig, ghostKey := r.Bytes(64), r.Bytes(33)
	for g := 0; g < workers; g++ {
		wg.Add(1)
		go func(g int) {
			defer wg.Done()
			defer func() {
				if p := recover(); p != nil {
					k.Failf("race:caches:panic", "goroutine %d: %v", g, p)
				}
			}()
			gr := rands[g]
			for round := 0; round < rounds; round++ {
				for _, n := range gr.Perm(len(items)) {
					it := items[n]
					txid := it.s.tx.TxHash()
					if !hashCache.ContainsHashes(&txid) {
						hashCache.AddSigHashes(it.s.tx, it.s.fetcher())
					}
					sh, _ := hashCache.GetSigHashes(&txid)
					if sh == nil { // purged by another goroutine in between
						sh = txscript.NewTxSigHashes(it.s.tx, it.s.fetcher())
					}
					err := engineVerdict(it.s, it.i, txscript.StandardVerifyFlags, sigCache, sh)
					if it.valid && err != nil {
						k.Failf("race:caches:valid-spend-rejected", "%s input %d: %v", it.what, it.i, err)
					}
					if !it.valid && err == nil {
						k.Failf("race:caches:invalid-spend-accepted", "%s input %d", it.what, it.i)
					}
					if gr.Chance(1, 4) {
						hashCache.PurgeSigHashes(&txid)
					}
					if sigCache.Exists(ghost, ghostSig, ghostKey) {
						k.Failf("race:sigcache:phantom-entry", "an entry that was never added exists")
					}
					if gr.Chance(1, 8) {
						var h chainhash.Hash
						gr.Fill(h[:])
						sg, pk := gr.Bytes(64), gr.Bytes(33)
						sigCache.Add(h, sg, pk)
						sg2 := append([]byte{}, sg...)
						sg2[0] ^= 1
						if sigCache.Exists(h, sg2, pk) {
							k.Failf("race:sigcache:wrong-signature-hit", "Exists is true for a signature that differs from the cached one")
						}
					}
					k.Count("race.engine_runs", 1)
				}
			}
		}(g)
	}
	wg.Wait()
	k.Eval(mon.Sig("race", len(items), fmt.Sprint(k.Index)), true)
}

// sigCacheAPICase: the cache contract in isolation (sequential): an entry exists only for exactly the
// (digest, signature, public key) triple that was added, and the cache never holds more than maxEntries.
func sigCacheAPICase(k *mon.Case) {
	r := k.Rand
	max := uint(r.Intn(6))
	sc := txscript.NewSigCache(max)
	type ent struct {
		h       chainhash.Hash
		sig, pk []byte
	}
	var added []ent
	n := 1 + r.Intn(12)
	k.Desc(map[string]any{"maxEntries": max, "adds": n})
	for i := 0; i < n; i++ {
		var e ent
		r.Fill(e.h[:])
		e.sig, e.pk = r.Bytes(64+r.Intn(9)), r.Bytes(32+r.Intn(2))
		if i > 0 && r.Chance(1, 4) {
			e.h = added[r.Intn(len(added))].h // same digest, other signature/key: replaces the entry
		}
		sc.Add(e.h, e.sig, e.pk)
		added = append(added, e)
		if max > 0 && !sc.Exists(e.h, e.sig, e.pk) {
			k.Failf("sigcache:Exists:false-right-after-add", "maxEntries=%d", max)
		}
		flip := func(b []byte) []byte {
			c := append([]byte{}, b...)
			c[r.Intn(len(c))] ^= byte(1 << uint(r.Intn(8)))
			return c
		}
		var h2 chainhash.Hash
		copy(h2[:], flip(e.h[:]))
		if sc.Exists(e.h, flip(e.sig), e.pk) {
			k.Failf("sigcache:Exists:other-signature-hit", "a different signature over the same digest and key is reported cached")
		}
		if sc.Exists(e.h, e.sig, flip(e.pk)) {
			k.Failf("sigcache:Exists:other-pubkey-hit", "a different public key is reported cached")
		}
		if sc.Exists(h2, e.sig, e.pk) {
			k.Failf("sigcache:Exists:other-digest-hit", "a different digest is reported cached")
		}
		if sc.Exists(e.h, e.sig[:len(e.sig)-1], e.pk) || sc.Exists(e.h, e.sig, e.pk[:len(e.pk)-1]) {
			k.Failf("sigcache:Exists:prefix-hit", "a truncated signature / key is reported cached")
		}
	}
	live := map[chainhash.Hash]bool{}
	for i := len(added) - 1; i >= 0; i-- {
		e := added[i]
		if sc.Exists(e.h, e.sig, e.pk) {
			live[e.h] = true
		}
	}
	if uint(len(live)) > max {
		k.Failf("sigcache:Add:exceeds-max-entries", "%d live digests with maxEntries=%d", len(live), max)
	}
	k.Count("sigcache.api_cases", 1)
	k.Eval(mon.Sig("sigcache", max, n, len(live)), true)
}
