package main

import (
	"crypto/sha256"
	"encoding/hex"

	"verif/mon"
	ref "verif/ref/refsighash"

	"github.com/btcsuite/btcd/chainhash/v2"
	"github.com/btcsuite/btcd/txscript/v2"
	"github.com/btcsuite/btcd/wire/v2"
	"golang.org/x/crypto/ripemd160"
)

const maxSatoshi = 21e14

// sctx is a signing context: a transaction plus the outputs its inputs spend.
type sctx struct {
	tx      *wire.MsgTx
	amounts []int64
	scripts [][]byte
	fc      *txscript.MultiPrevOutFetcher // lazily built by fetcher(); contexts are not modified after that
}

func (s *sctx) clone() *sctx {
	c := &sctx{tx: s.tx.Copy(), amounts: append([]int64{}, s.amounts...)}
	for _, p := range s.scripts {
		c.scripts = append(c.scripts, append([]byte{}, p...))
	}
	// wire's Copy turns empty-but-non-nil scripts into nil and vice versa in places; digests do not
	// depend on that distinction.
	return c
}

// fetcher builds a PrevOutputFetcher that knows every input of the context.
func (s *sctx) fetcher() *txscript.MultiPrevOutFetcher {
	if s.fc != nil {
		return s.fc
	}
	m := map[wire.OutPoint]*wire.TxOut{}
	for i, in := range s.tx.TxIn {
		m[in.PreviousOutPoint] = &wire.TxOut{Value: s.amounts[i], PkScript: s.scripts[i]}
	}
	s.fc = txscript.NewMultiPrevOutFetcher(m)
	return s.fc
}

func (s *sctx) hex() map[string]any {
	var ps []string
	for _, p := range s.scripts {
		ps = append(ps, hex.EncodeToString(p))
	}
	return map[string]any{"tx": txHex(s.tx), "amounts": s.amounts, "prevScripts": ps}
}

// txHex is a human-readable dump of the fields (not a wire serialisation: witnesses are listed apart).
func txHex(tx *wire.MsgTx) map[string]any {
	var ins, outs []any
	for _, in := range tx.TxIn {
		var w []string
		for _, it := range in.Witness {
			w = append(w, hex.EncodeToString(it))
		}
		ins = append(ins, map[string]any{"prev": hex.EncodeToString(in.PreviousOutPoint.Hash[:]), "n": in.PreviousOutPoint.Index,
			"scriptSig": hex.EncodeToString(in.SignatureScript), "seq": in.Sequence, "witness": w})
	}
	for _, o := range tx.TxOut {
		outs = append(outs, map[string]any{"value": o.Value, "pkScript": hex.EncodeToString(o.PkScript)})
	}
	return map[string]any{"version": tx.Version, "locktime": tx.LockTime, "in": ins, "out": outs}
}

func hash160(b []byte) []byte {
	s := sha256.Sum256(b)
	h := ripemd160.New()
	h.Write(s[:])
	return h.Sum(nil)
}

func edgeU32(r *mon.Rand) uint32 {
	switch r.Intn(8) {
	case 0:
		return 0
	case 1:
		return 0xffffffff
	case 2:
		return 0xfffffffe
	case 3:
		return 1 << uint(r.Intn(32))
	case 4:
		return uint32(r.Intn(500000000 + 10))
	default:
		return r.Uint32()
	}
}

func edgeAmount(r *mon.Rand) int64 {
	switch r.Intn(10) {
	case 0:
		return 0
	case 1:
		return 1
	case 2:
		return maxSatoshi
	case 3:
		return maxSatoshi - 1
	case 4:
		return -1
	case 5:
		return int64(r.Uint64()) // any 64-bit pattern: the digest is defined on the raw 8 bytes
	case 6:
		return int64(1) << uint(r.Intn(63))
	default:
		return r.Int63n(maxSatoshi + 1)
	}
}

// randPrevScript returns a scriptPubKey of a random standard (or random) type. taproot forces P2TR.
func randPrevScript(r *mon.Rand, taproot bool) []byte {
	t := r.Intn(8)
	if taproot {
		t = 0
	}
	switch t {
	case 0, 1: // P2TR
		return append([]byte{0x51, 0x20}, r.Bytes(32)...)
	case 2: // P2WPKH
		return append([]byte{0x00, 0x14}, r.Bytes(20)...)
	case 3: // P2WSH
		return append([]byte{0x00, 0x20}, r.Bytes(32)...)
	case 4: // P2PKH
		return append(append([]byte{0x76, 0xa9, 0x14}, r.Bytes(20)...), 0x88, 0xac)
	case 5: // P2SH
		return append(append([]byte{0xa9, 0x14}, r.Bytes(20)...), 0x87)
	case 6:
		return r.Bytes(r.Intn(300)) // long enough to need a 3-byte compact size sometimes
	default:
		return r.Bytes(r.Intn(40))
	}
}

func isP2TR(s []byte) bool { return len(s) == 34 && s[0] == 0x51 && s[1] == 0x20 }

// randCtx builds a random signing context. Outpoints are pairwise distinct.
func randCtx(r *mon.Rand, big bool) *sctx {
	var ver int32
	switch r.Intn(6) {
	case 0:
		ver = 1
	case 1:
		ver = 2
	case 2:
		ver = -1
	case 3:
		ver = int32(r.Intn(4))
	default:
		ver = int32(r.Uint32())
	}
	tx := wire.NewMsgTx(ver)
	nin, nout := 1+r.Intn(12), r.Intn(13)
	if big {
		// counts that need a 3-byte compact size
		pick := []int{252, 253, 254, 300}
		if r.Bool() {
			nin = pick[r.Intn(len(pick))]
		} else {
			nout = pick[r.Intn(len(pick))]
		}
	}
	s := &sctx{tx: tx}
	seen := map[wire.OutPoint]bool{}
	for i := 0; i < nin; i++ {
		var op wire.OutPoint
		for {
			var h chainhash.Hash
			if r.Chance(1, 4) && i > 0 {
				h = tx.TxIn[r.Intn(i)].PreviousOutPoint.Hash // same txid, other index
			} else {
				r.Fill(h[:])
			}
			op = wire.OutPoint{Hash: h, Index: edgeU32(r) % 100000}
			if r.Chance(1, 10) {
				op.Index = r.Uint32()
			}
			if !seen[op] {
				break
			}
		}
		seen[op] = true
		in := wire.NewTxIn(&op, r.Bytes(r.Intn(30)), nil)
		in.Sequence = edgeU32(r)
		for j := r.Intn(3); j > 0; j-- {
			in.Witness = append(in.Witness, r.Bytes(r.Intn(40)))
		}
		tx.AddTxIn(in)
		s.amounts = append(s.amounts, edgeAmount(r))
		s.scripts = append(s.scripts, randPrevScript(r, false))
	}
	for i := 0; i < nout; i++ {
		var pk []byte
		switch r.Intn(6) {
		case 0:
			pk = nil
		case 1:
			pk = r.Bytes(252 + r.Intn(4)) // around the 0xfd compact-size boundary
		default:
			pk = randPrevScript(r, false)
		}
		tx.AddTxOut(wire.NewTxOut(edgeAmount(r), pk))
	}
	tx.LockTime = edgeU32(r)
	return s
}

// ---------------------------------------------------------------------------------------------
// script codes

type scriptStats struct{ codeseps, pushes, abInData int }

// randScriptCode builds a script that decodes completely, rich in OP_CODESEPARATOR opcodes and in
// 0xab bytes that are *data* (inside pushes), which must never be removed.
func randScriptCode(r *mon.Rand, maxOps int) ([]byte, scriptStats) {
	var s []byte
	var st scriptStats
	n := r.Intn(maxOps + 1)
	data := func(l int) []byte {
		d := r.Bytes(l)
		if r.Chance(1, 2) {
			for i := range d {
				if r.Chance(1, 3) {
					d[i] = 0xab
					st.abInData++
				}
			}
		}
		return d
	}
	for i := 0; i < n; i++ {
		switch r.Intn(12) {
		case 0, 1:
			s = append(s, 0xab)
			st.codeseps++
		case 2, 3:
			l := 1 + r.Intn(75)
			if r.Chance(1, 3) {
				l = 1 + r.Intn(4)
			}
			s = append(s, byte(l))
			s = append(s, data(l)...)
			st.pushes++
		case 4:
			l := r.Intn(100)
			if r.Chance(1, 4) {
				l = 0xab // length byte itself looks like a code separator
			}
			s = append(s, 0x4c, byte(l))
			s = append(s, data(l)...)
			st.pushes++
		case 5:
			l := r.Intn(300)
			if r.Chance(1, 4) {
				l = 0xab
			}
			if r.Chance(1, 8) {
				l = 0x1ab // low length byte looks like a code separator
			}
			s = append(s, 0x4d, byte(l), byte(l>>8))
			s = append(s, data(l)...)
			st.pushes++
		case 6:
			l := r.Intn(80)
			if r.Chance(1, 4) {
				l = 0xab
			}
			s = append(s, 0x4e, byte(l), 0, 0, 0)
			s = append(s, data(l)...)
			st.pushes++
		case 7:
			s = append(s, byte(0x4f+r.Intn(0x12))) // OP_1NEGATE .. OP_16
		case 8:
			s = append(s, 0x00)
		default:
			op := byte(0x61 + r.Intn(0xff-0x61+1))
			if op == 0xab {
				st.codeseps++
			}
			s = append(s, op)
		}
	}
	return s, st
}

// opBoundaries returns the byte offsets at which an opcode starts, plus len(script).
func opBoundaries(script []byte) []int {
	var b []int
	pc := 0
	for pc < len(script) {
		b = append(b, pc)
		n := pushLen(script, pc)
		if n < 0 {
			return b
		}
		pc = n
	}
	return append(b, len(script))
}

// pushLen returns the offset after the opcode at pc, or -1 when it is truncated.
func pushLen(s []byte, pc int) int {
	op := s[pc]
	pc++
	n := 0
	switch {
	case op < 0x4c:
		n = int(op)
	case op == 0x4c:
		if pc+1 > len(s) {
			return -1
		}
		n = int(s[pc])
		pc++
	case op == 0x4d:
		if pc+2 > len(s) {
			return -1
		}
		n = int(s[pc]) | int(s[pc+1])<<8
		pc += 2
	case op == 0x4e:
		if pc+4 > len(s) {
			return -1
		}
		n = int(s[pc]) | int(s[pc+1])<<8 | int(s[pc+2])<<16 | int(s[pc+3])<<24
		pc += 4
	default:
		return pc
	}
	if n < 0 || pc+n > len(s) {
		return -1
	}
	return pc + n
}

// pushes returns the data of every push opcode of a (decodable) script; OP_0 yields an empty item.
func pushes(script []byte) [][]byte {
	var out [][]byte
	pc := 0
	for pc < len(script) {
		n := pushLen(script, pc)
		if n < 0 {
			return out
		}
		op := script[pc]
		if op <= 0x4e {
			hdr := 1
			switch op {
			case 0x4c:
				hdr = 2
			case 0x4d:
				hdr = 3
			case 0x4e:
				hdr = 5
			}
			out = append(out, script[pc+hdr:n])
		}
		pc = n
	}
	return out
}

// push is the minimal push of data (as a standard script builder would emit it for len > 1 data).
func push(data []byte) []byte { return ref.PushData(data) }

func cat(parts ...[]byte) []byte {
	var b []byte
	for _, p := range parts {
		b = append(b, p...)
	}
	return b
}

// ---------------------------------------------------------------------------------------------
// field mutations (one field each), used by the commits-to matrix

// mutArgs are the non-transaction arguments of a digest.
type mutArgs struct {
	code       []byte    // legacy / BIP143 script code
	annex      []byte    // taproot forms (nil = absent)
	leafScript []byte    // tapscript
	leafVer    byte      // tapscript
	leafHash   *[32]byte // explicit leaf hash override (nil: hash of leafScript)
	codeSepPos uint32
}

func (a mutArgs) clone() mutArgs {
	c := a
	c.code = append([]byte{}, a.code...)
	if a.annex != nil {
		c.annex = append([]byte{}, a.annex...)
	}
	c.leafScript = append([]byte{}, a.leafScript...)
	if a.leafHash != nil {
		h := *a.leafHash
		c.leafHash = &h
	}
	return c
}

// fieldsFor lists the single-field mutations applicable to a form for a context.
func fieldsFor(form ref.Form, s *sctx, r *mon.Rand, limit int) []ref.Field {
	nin, nout := len(s.tx.TxIn), len(s.tx.TxOut)
	fs := []ref.Field{{Kind: ref.FVersion}, {Kind: ref.FLockTime}, {Kind: ref.FAppendInput}, {Kind: ref.FAppendOutput}}
	perIn := []ref.FieldKind{ref.FPrevout, ref.FSequence, ref.FScriptSig, ref.FWitness, ref.FAmount, ref.FPrevScript}
	ins := r.Perm(nin)
	if len(ins) > limit {
		ins = ins[:limit]
	}
	for _, j := range ins {
		for _, k := range perIn {
			fs = append(fs, ref.Field{Kind: k, Index: j})
		}
	}
	outs := r.Perm(nout)
	if len(outs) > limit {
		outs = outs[:limit]
	}
	for _, j := range outs {
		fs = append(fs, ref.Field{Kind: ref.FOutValue, Index: j}, ref.Field{Kind: ref.FOutScript, Index: j})
	}
	switch form {
	case ref.FormLegacy, ref.FormBIP143:
		fs = append(fs, ref.Field{Kind: ref.FScriptCode}, ref.Field{Kind: ref.FScriptCodeSep})
	case ref.FormTaproot:
		// the annex of a key-path spend cannot be passed through the public Calc* API; it is covered
		// at engine level by the oracle.keypath family
	case ref.FormTapscript:
		fs = append(fs, ref.Field{Kind: ref.FAnnex}, ref.Field{Kind: ref.FLeafHash}, ref.Field{Kind: ref.FCodeSepPos})
	}
	return fs
}

// mutate applies one field mutation to copies of the context and arguments. idx is the input being
// signed: its own prevScript keeps its type (P2TR stays P2TR, non-P2TR stays non-P2TR), because the
// digest form is chosen by that type.
func mutate(r *mon.Rand, s *sctx, a mutArgs, idx int, f ref.Field) (*sctx, mutArgs) {
	s, a = s.clone(), a.clone()
	tx := s.tx
	nz32 := func() uint32 {
		if r.Bool() {
			return 1 << uint(r.Intn(32))
		}
		return r.Uint32() | 1
	}
	switch f.Kind {
	case ref.FVersion:
		tx.Version ^= int32(nz32())
	case ref.FLockTime:
		tx.LockTime ^= nz32()
	case ref.FPrevout:
		in := tx.TxIn[f.Index]
		old := in.PreviousOutPoint
		for {
			in.PreviousOutPoint = old
			if r.Bool() {
				in.PreviousOutPoint.Index ^= nz32()
			} else {
				in.PreviousOutPoint.Hash[r.Intn(32)] ^= byte(1 << uint(r.Intn(8)))
			}
			dup := false
			for j, o := range tx.TxIn {
				if j != f.Index && o.PreviousOutPoint == in.PreviousOutPoint {
					dup = true
				}
			}
			if !dup {
				break
			}
		}
	case ref.FSequence:
		tx.TxIn[f.Index].Sequence ^= nz32()
	case ref.FScriptSig:
		tx.TxIn[f.Index].SignatureScript = append(append([]byte{}, tx.TxIn[f.Index].SignatureScript...), byte(r.Intn(256)))
	case ref.FWitness:
		tx.TxIn[f.Index].Witness = append(append(wire.TxWitness{}, tx.TxIn[f.Index].Witness...), r.Bytes(1+r.Intn(5)))
	case ref.FOutValue:
		tx.TxOut[f.Index].Value ^= int64(1) << uint(r.Intn(64))
	case ref.FOutScript:
		o := tx.TxOut[f.Index]
		if len(o.PkScript) > 0 && r.Bool() {
			o.PkScript = append([]byte{}, o.PkScript...)
			o.PkScript[r.Intn(len(o.PkScript))] ^= byte(1 << uint(r.Intn(8)))
		} else {
			o.PkScript = append(append([]byte{}, o.PkScript...), byte(r.Intn(256)))
		}
	case ref.FAmount:
		s.amounts[f.Index] ^= int64(1) << uint(r.Intn(64))
	case ref.FPrevScript:
		p := s.scripts[f.Index]
		if f.Index == idx || r.Bool() {
			if isP2TR(p) || len(p) > 2 {
				// flip a bit beyond the 2-byte type prefix; a non-P2TR script can never become P2TR
				// this way (that needs the prefix), a P2TR one stays P2TR
				p[2+r.Intn(len(p)-2)] ^= byte(1 << uint(r.Intn(8)))
			} else {
				p = append(p, 0x61, 0x62, 0x63) // still not P2TR (length < 34)
				s.scripts[f.Index] = p
			}
		} else {
			for {
				p = randPrevScript(r, false)
				if string(p) != string(s.scripts[f.Index]) {
					break
				}
			}
			s.scripts[f.Index] = p
		}
	case ref.FScriptCode:
		a.code = append(a.code, 0x51)
	case ref.FScriptCodeSep:
		b := opBoundaries(a.code)
		at := b[r.Intn(len(b))]
		a.code = cat(a.code[:at], []byte{0xab}, a.code[at:])
	case ref.FAnnex:
		switch {
		case a.annex == nil:
			a.annex = append([]byte{0x50}, r.Bytes(r.Intn(10))...)
		case r.Chance(1, 3):
			a.annex = nil
		case len(a.annex) > 1 && r.Bool():
			a.annex[1+r.Intn(len(a.annex)-1)] ^= byte(1 << uint(r.Intn(8)))
		default:
			a.annex = append(a.annex, byte(r.Intn(256)))
		}
	case ref.FLeafHash:
		pick := r.Intn(3)
		if a.leafHash != nil {
			pick = 2 // an explicit leaf hash overrides script and version
		}
		switch pick {
		case 0:
			a.leafScript = append(a.leafScript, 0x51)
		case 1:
			a.leafVer ^= 0x02 // another even leaf version
		default:
			h := leafHashOf(a)
			h[r.Intn(32)] ^= byte(1 << uint(r.Intn(8)))
			a.leafHash = &h
		}
	case ref.FCodeSepPos:
		a.codeSepPos ^= nz32()
	case ref.FAppendInput:
		var op wire.OutPoint
		for {
			r.Fill(op.Hash[:])
			op.Index = uint32(r.Intn(10))
			dup := false
			for _, o := range tx.TxIn {
				if o.PreviousOutPoint == op {
					dup = true
				}
			}
			if !dup {
				break
			}
		}
		in := wire.NewTxIn(&op, r.Bytes(r.Intn(5)), nil)
		in.Sequence = edgeU32(r)
		tx.AddTxIn(in)
		s.amounts = append(s.amounts, edgeAmount(r))
		s.scripts = append(s.scripts, randPrevScript(r, false))
	case ref.FAppendOutput:
		tx.AddTxOut(wire.NewTxOut(edgeAmount(r), randPrevScript(r, false)))
	}
	return s, a
}

func leafHashOf(a mutArgs) [32]byte {
	if a.leafHash != nil {
		return *a.leafHash
	}
	return ref.TapLeafHash(a.leafVer, a.leafScript)
}
