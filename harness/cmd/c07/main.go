// Worker for C07: signature hashes commit to exactly the specified data; signers verify.
package main

import (
	"fmt"
	"os"
	"strconv"

	"verif/mon"
	ref "verif/ref/refsighash"
)

func main() {
	mon.Main("C07", func(c *mon.Ctx) {
		c.Rule("digest families: random transactions (1-12 inputs, 0-12 outputs, occasionally 252-300 to cross the compact-size " +
			"boundary; edge versions/locktimes/sequences/amounts incl. negative and >MaxSatoshi bit patterns), one input index " +
			"(1/3 of the time one without a matching output), a random decodable script code rich in OP_CODESEPARATOR and in 0xab " +
			"bytes inside push data (sometimes >64 KiB), every one-byte hash type plus 32-bit ones, every midstate source " +
			"(NewTxSigHashes / HashCache / reference-built); matrix families: one field mutated at a time vs the declarative " +
			"commits-to table; sign families: every signing helper x standard script class x hash type, verified by the engine " +
			"with and without SigCache/TxSigHashes and under single-field mutations; oracle families: spends signed over the " +
			"REFERENCE digest (code separators, embedded signature pushes, annex, tapscript codesep positions, all hash types) must be " +
			"accepted by the engine. distinct = (family, nIn, nOut, idx, script/leaf sizes, annex, codesep position, hash of all fields)")
		c.Note("oracle: verif/ref/refsighash (own serialisation, preimage built byte by byte from Core's legacy serializer, BIP143, BIP341/342); " +
			"calibrated on sighash.json (500 Core vectors), tx_valid.json (BIP143 examples, FindAndDelete digests, standard spends) and taproot-ref")
		c.Note("API convention respected, not a finding: CalcWitnessSigHash given a 22-byte P2WPKH program hashes the implied P2PKH script code; " +
			"CalcSignatureHash/CalcWitnessSigHash refuse undecodable scripts (the engine never executes one), so only decodable script codes are compared")

		// VERIF_SCALE_PCT (default 100) scales every generated family's case count, for running the
		// thorough tier on a machine shared with other jobs; counts stay deterministic.
		pct := int64(100)
		if v, err := strconv.Atoi(os.Getenv("VERIF_SCALE_PCT")); err == nil && v > 0 {
			pct = int64(v)
			c.Note(fmt.Sprintf("case counts scaled to %d%% by VERIF_SCALE_PCT", v))
		}
		N := func(q, t int64) int64 { return max(1, c.N(q, t)*pct/100) }

		vecOnce.Do(loadVectors)
		nl, nv, nt := int64(len(legacyVs)), int64(len(txValidVs)), int64(len(tapVs))
		if vecErr != nil {
			nl, nv, nt = 1, 0, 0
		}
		c.Family("calibrate.legacy", nl, calLegacyCase)
		c.Require("calibrate.legacy.sighash_json_rows", 500)
		if !mon.RaceEnabled {
			// (the -race variant only runs the cache-concurrency family, whose verdict expectations do
			// not depend on reference digests, so the signature-verifying calibrations are skipped there)
			c.Family("calibrate.txvalid", nv, calTxValidCase)
			c.Family("calibrate.taproot", nt, calTaprootCase)
			c.Require("calibrate.tx_valid.printed_digests", 4)
			c.Require("calibrate.taproot.keypath_sigs_verified", 250)
			c.Require("calibrate.taproot.scriptpath_sigs_verified", 250)
		}

		if mon.RaceEnabled {
			c.Family("race.caches", N(8, 400), raceCase)
			c.Require("race.engine_runs", 1000)
		}
		if !mon.RaceEnabled {
			c.Family("legacy.digest", N(280, 28000), digestCase(ref.FormLegacy))
			c.Family("bip143.digest", N(140, 14000), digestCase(ref.FormBIP143))
			c.Family("taproot.digest", N(140, 14000), digestCase(ref.FormTaproot))
			c.Family("tapscript.digest", N(140, 14000), digestCase(ref.FormTapscript))
			c.Family("legacy.matrix", N(150, 15000), matrixCase(ref.FormLegacy))
			c.Family("bip143.matrix", N(150, 15000), matrixCase(ref.FormBIP143))
			c.Family("taproot.matrix", N(150, 15000), matrixCase(ref.FormTaproot))
			c.Family("tapscript.matrix", N(150, 15000), matrixCase(ref.FormTapscript))
			c.Family("sign.helpers", N(340, 34000), signCase)
			c.Family("sign.cosign", N(250, 25000), cosignCase)
			c.Require("sign.cosign.mixed_hash_types", 50)
			c.Family("sigcache.api", N(300, 30000), sigCacheAPICase)
			c.Family("engine.nilmidstates", N(20, 200), nilMidstatesCase)
			c.Family("oracle.legacy", N(600, 60000), oracleLegacyCase)
			c.Family("oracle.v0", N(400, 40000), oracleV0Case)
			c.Family("oracle.tapscript", N(300, 30000), oracleTapscriptCase)
			c.Family("oracle.keypath", N(210, 21000), oracleKeypathCase)
			c.Require("sign.engine.accepted_runs", 1000)
			c.Require("oracle.legacy.embedded_signature_push", 50)
			c.Require("oracle.tapscript.codeseppos_not_blank", 50)
			c.Require("legacy.digests", 1000)
			c.Require("bip143.digests", 1000)
			c.Require("taproot.digests", 500)
			c.Require("tapscript.digests", 500)
		}
	})
}
