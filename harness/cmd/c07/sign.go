package main

// sign.helpers: every signing helper of txscript x every standard script class x the hash types the
// helper is meant for. Three oracles per signed input:
//  (1) the signature bytes the helper produced verify (btcec) against the REFERENCE digest,
//  (2) txscript.NewEngine(StandardVerifyFlags).Execute accepts the spend, with and without a shared
//      SigCache and supplied TxSigHashes,
//  (3) after a single-field mutation the engine rejects iff the specification's commits-to table
//      says the field is committed (a previously filled SigCache must not change that).

import (
	"encoding/hex"
	"errors"
	"fmt"

	"verif/mon"
	ref "verif/ref/refsighash"

	"github.com/btcsuite/btcd/address/v2"
	"github.com/btcsuite/btcd/btcec/v2"
	"github.com/btcsuite/btcd/btcec/v2/schnorr"
	"github.com/btcsuite/btcd/chaincfg/v2"
	"github.com/btcsuite/btcd/chainhash/v2"
	"github.com/btcsuite/btcd/txscript/v2"
	"github.com/btcsuite/btcd/wire/v2"
)

func randKey(r *mon.Rand) *btcec.PrivateKey {
	for {
		b := r.Bytes(32)
		b[0] &= 0x7f // below the group order
		priv, _ := btcec.PrivKeyFromBytes(b)
		if !priv.Key.IsZero() {
			return priv
		}
	}
}

func pubBytes(k *btcec.PrivateKey, compressed bool) []byte {
	if compressed {
		return k.PubKey().SerializeCompressed()
	}
	return k.PubKey().SerializeUncompressed()
}

func p2pkScript(pk []byte) []byte { return cat(push(pk), []byte{0xac}) }
func p2pkhScript(h []byte) []byte { return cat([]byte{0x76, 0xa9, 0x14}, h, []byte{0x88, 0xac}) }
func p2shScript(redeem []byte) []byte {
	return cat([]byte{0xa9, 0x14}, hash160(redeem), []byte{0x87})
}
func p2wshScript(ws []byte) []byte {
	h := chainhash.HashB(ws) // plain SHA-256
	return cat([]byte{0x00, 0x20}, h)
}
func multisigScript(m int, pks [][]byte) []byte {
	s := []byte{byte(0x50 + m)}
	for _, p := range pks {
		s = append(s, push(p)...)
	}
	return append(s, byte(0x50+len(pks)), 0xae)
}

// keyStore implements txscript.KeyDB and txscript.ScriptDB keyed by the address payload.
type keyStore struct {
	keys    map[string]*btcec.PrivateKey
	comp    map[string]bool
	scripts map[string][]byte
	hidden  map[string]bool // keys temporarily withheld (multi-pass multisig signing)
}

func newKeyStore() *keyStore {
	return &keyStore{keys: map[string]*btcec.PrivateKey{}, comp: map[string]bool{}, scripts: map[string][]byte{}, hidden: map[string]bool{}}
}

func (ks *keyStore) add(k *btcec.PrivateKey, compressed bool) []byte {
	pk := pubBytes(k, compressed)
	ks.keys[string(pk)], ks.comp[string(pk)] = k, compressed
	h := hash160(pk)
	ks.keys[string(h)], ks.comp[string(h)] = k, compressed
	return pk
}

func (ks *keyStore) GetKey(a address.Address) (*btcec.PrivateKey, bool, error) {
	id := string(a.ScriptAddress())
	k, ok := ks.keys[id]
	if !ok || ks.hidden[id] {
		return nil, false, errors.New("unknown key")
	}
	return k, ks.comp[id], nil
}

func (ks *keyStore) GetScript(a address.Address) ([]byte, error) {
	s, ok := ks.scripts[string(a.ScriptAddress())]
	if !ok {
		return nil, errors.New("unknown script")
	}
	return s, nil
}

// spend describes one input to be signed by a helper.
type spend struct {
	class    string
	form     ref.Form
	pkScript []byte
	redeem   []byte   // P2SH redeem script / P2WSH witness script / tapscript leaf script
	pks      [][]byte // public keys in script order (serialised as in the script)
	privs    []*btcec.PrivateKey
	m        int
	ht       uint32
	nosig    bool // P2A: nothing is signed
	// taproot
	internal *btcec.PrivateKey
	root     []byte
	control  []byte
	leaf     txscript.TapLeaf
	merge    bool     // multisig co-signed in several SignTxOutput passes chained through previousScript
	failed   bool     // a co-signing violation was already reported for this input
	hts      []uint32 // hash types of the signatures of the final script when they differ per signature
}

const numSpendClasses = 17

func xonly(k *btcec.PrivateKey) []byte { return schnorr.SerializePubKey(k.PubKey()) }

func p2trScript(outKey *btcec.PublicKey) []byte {
	return cat([]byte{0x51, 0x20}, schnorr.SerializePubKey(outKey))
}

// tapTree builds a script tree containing leaf plus 0-3 unrelated leaves; returns root hash and control block of leaf.
func tapTree(r *mon.Rand, internal *btcec.PrivateKey, leaf txscript.TapLeaf) (root []byte, control []byte, outKey *btcec.PublicKey) {
	leaves := []txscript.TapLeaf{}
	n := r.Intn(4)
	pos := r.Intn(n + 1)
	for i := 0; i <= n; i++ {
		if i == pos {
			leaves = append(leaves, leaf)
		} else {
			leaves = append(leaves, txscript.NewBaseTapLeaf(cat(push(r.Bytes(32)), []byte{0xac})))
		}
	}
	tree := txscript.AssembleTaprootScriptTree(leaves...)
	rh := tree.RootNode.TapHash()
	proof := tree.LeafMerkleProofs[pos]
	cb := proof.ToControlBlock(internal.PubKey())
	control, _ = cb.ToBytes()
	outKey = txscript.ComputeTaprootOutputKey(internal.PubKey(), rh[:])
	return rh[:], control, outKey
}

func makeSpend(r *mon.Rand, ks *keyStore, class int) *spend {
	sp := &spend{form: ref.FormLegacy}
	forceMerge := class >= 100 // class+100: multisig that must be co-signed in several passes
	class %= 100
	defer func() { sp.merge = sp.merge || (forceMerge && (class == 4 || class == 7)) }()
	key := func(compressed bool) []byte {
		k := randKey(r)
		sp.privs = append(sp.privs, k)
		pk := ks.add(k, compressed)
		sp.pks = append(sp.pks, pk)
		return pk
	}
	multisig := func(compressedOnly bool) []byte {
		n := 1 + r.Intn(3)
		if !compressedOnly && r.Chance(1, 3) {
			n = 4 + r.Intn(2) // beyond the standard bare limit; SignTxOutput and the engine do not care
		}
		sp.m = 1 + r.Intn(n)
		for i := 0; i < n; i++ {
			key(compressedOnly || r.Bool())
		}
		return multisigScript(sp.m, sp.pks)
	}
	sp.m = 1
	switch class {
	case 0:
		sp.class = "p2pk-compressed"
		sp.pkScript = p2pkScript(key(true))
	case 1:
		sp.class = "p2pk-uncompressed"
		sp.pkScript = p2pkScript(key(false))
	case 2:
		sp.class = "p2pkh-compressed"
		sp.pkScript = p2pkhScript(hash160(key(true)))
	case 3:
		sp.class = "p2pkh-uncompressed"
		sp.pkScript = p2pkhScript(hash160(key(false)))
	case 4:
		sp.class = "multisig"
		sp.pkScript = multisig(false)
		sp.merge = r.Chance(2, 3)
	case 5:
		sp.class = "p2sh-p2pk"
		sp.redeem = p2pkScript(key(r.Bool()))
		sp.pkScript = p2shScript(sp.redeem)
	case 6:
		sp.class = "p2sh-p2pkh"
		sp.redeem = p2pkhScript(hash160(key(r.Bool())))
		sp.pkScript = p2shScript(sp.redeem)
	case 7:
		sp.class = "p2sh-multisig"
		sp.redeem = multisig(false)
		sp.pkScript = p2shScript(sp.redeem)
		sp.merge = r.Chance(2, 3)
	case 8:
		sp.class = "p2a"
		sp.pkScript = []byte{0x51, 0x02, 0x4e, 0x73}
		sp.nosig = true
	case 9:
		sp.class = "p2wpkh"
		sp.form = ref.FormBIP143
		sp.pkScript = cat([]byte{0x00, 0x14}, hash160(key(true)))
	case 10:
		sp.class = "p2sh-p2wpkh"
		sp.form = ref.FormBIP143
		sp.redeem = cat([]byte{0x00, 0x14}, hash160(key(true)))
		sp.pkScript = p2shScript(sp.redeem)
	case 11:
		sp.class = "p2wsh-p2pk"
		sp.form = ref.FormBIP143
		sp.redeem = p2pkScript(key(true))
		sp.pkScript = p2wshScript(sp.redeem)
	case 12:
		sp.class = "p2wsh-multisig"
		sp.form = ref.FormBIP143
		sp.redeem = multisig(true)
		sp.pkScript = p2wshScript(sp.redeem)
	case 13:
		sp.class = "p2sh-p2wsh-multisig"
		sp.form = ref.FormBIP143
		sp.redeem = multisig(true)
		sp.pkScript = p2shScript(p2wshScript(sp.redeem))
	case 14:
		sp.class = "p2tr-bip86-keyspend"
		sp.form = ref.FormTaproot
		sp.internal = randKey(r)
		sp.pkScript = p2trScript(txscript.ComputeTaprootKeyNoScript(sp.internal.PubKey()))
	case 15:
		sp.class = "p2tr-keyspend-with-script-root"
		sp.form = ref.FormTaproot
		sp.internal = randKey(r)
		other := txscript.NewBaseTapLeaf(cat(push(r.Bytes(32)), []byte{0xac}))
		var outKey *btcec.PublicKey
		sp.root, _, outKey = tapTree(r, sp.internal, other)
		sp.pkScript = p2trScript(outKey)
	default:
		sp.class = "p2tr-scriptspend"
		sp.form = ref.FormTapscript
		sp.internal = randKey(r)
		lk := randKey(r)
		sp.privs = append(sp.privs, lk)
		sp.pks = append(sp.pks, xonly(lk))
		sp.redeem = cat(push(xonly(lk)), []byte{0xac})
		sp.leaf = txscript.NewBaseTapLeaf(sp.redeem)
		var outKey *btcec.PublicKey
		sp.root, sp.control, outKey = tapTree(r, sp.internal, sp.leaf)
		sp.pkScript = p2trScript(outKey)
	}
	if sp.redeem != nil {
		ks.scripts[string(hash160(sp.redeem))] = sp.redeem
	}
	return sp
}

var stdHashTypes = []uint32{1, 2, 3, 0x81, 0x82, 0x83}

// signSpend fills tx.TxIn[i] using the helper for the class. It returns a helper error, if any.
func signSpend(k *mon.Case, r *mon.Rand, s *sctx, sh *txscript.TxSigHashes, i int, sp *spend, ks *keyStore) error {
	tx := s.tx
	ht := txscript.SigHashType(sp.ht)
	in := tx.TxIn[i]
	amt := s.amounts[i]
	params := &chaincfg.MainNetParams
	switch sp.class {
	case "p2pk-compressed", "p2pk-uncompressed", "p2sh-p2pk", "p2sh-p2pkh", "p2a":
		ss, err := txscript.SignTxOutput(params, tx, i, sp.pkScript, ht, ks, ks, nil)
		if err != nil {
			return err
		}
		in.SignatureScript = ss
		k.Count("sign.helper.SignTxOutput", 1)
	case "p2pkh-compressed", "p2pkh-uncompressed":
		switch r.Intn(3) {
		case 0:
			ss, err := txscript.SignatureScript(tx, i, sp.pkScript, ht, sp.privs[0], sp.class == "p2pkh-compressed")
			if err != nil {
				return err
			}
			in.SignatureScript = ss
			k.Count("sign.helper.SignatureScript", 1)
		case 1:
			sig, err := txscript.RawTxInSignature(tx, i, sp.pkScript, ht, sp.privs[0])
			if err != nil {
				return err
			}
			in.SignatureScript = cat(push(sig), push(sp.pks[0]))
			k.Count("sign.helper.RawTxInSignature", 1)
		default:
			ss, err := txscript.SignTxOutput(params, tx, i, sp.pkScript, ht, ks, ks, nil)
			if err != nil {
				return err
			}
			in.SignatureScript = ss
			k.Count("sign.helper.SignTxOutput", 1)
		}
	case "multisig", "p2sh-multisig":
		if !sp.merge {
			ss, err := txscript.SignTxOutput(params, tx, i, sp.pkScript, ht, ks, ks, nil)
			if err != nil {
				return err
			}
			in.SignatureScript = ss
			k.Count("sign.helper.SignTxOutput", 1)
			break
		}
		ss, err := cosign(k, r, s, i, sp, ks)
		if err != nil {
			return err
		}
		in.SignatureScript = ss
		k.Count("sign.helper.SignTxOutput.merge", 1)
	case "p2wpkh", "p2sh-p2wpkh":
		prog := sp.pkScript
		if sp.redeem != nil {
			prog = sp.redeem
			in.SignatureScript = push(prog)
		}
		w, err := txscript.WitnessSignature(tx, sh, i, amt, prog, ht, sp.privs[0], true)
		if err != nil {
			return err
		}
		in.Witness = w
		k.Count("sign.helper.WitnessSignature", 1)
	case "p2wsh-p2pk":
		sig, err := txscript.RawTxInWitnessSignature(tx, sh, i, amt, sp.redeem, ht, sp.privs[0])
		if err != nil {
			return err
		}
		in.Witness = wire.TxWitness{sig, sp.redeem}
		k.Count("sign.helper.RawTxInWitnessSignature", 1)
	case "p2wsh-multisig", "p2sh-p2wsh-multisig":
		w := wire.TxWitness{nil}
		// any m of the n keys, in script order
		choose := r.Perm(len(sp.privs))[:sp.m]
		use := map[int]bool{}
		for _, c := range choose {
			use[c] = true
		}
		for j, p := range sp.privs {
			if !use[j] {
				continue
			}
			sig, err := txscript.RawTxInWitnessSignature(tx, sh, i, amt, sp.redeem, ht, p)
			if err != nil {
				return err
			}
			w = append(w, sig)
		}
		in.Witness = append(w, sp.redeem)
		if sp.class == "p2sh-p2wsh-multisig" {
			in.SignatureScript = push(p2wshScript(sp.redeem))
		}
		k.Count("sign.helper.RawTxInWitnessSignature", 1)
	case "p2tr-bip86-keyspend":
		w, err := txscript.TaprootWitnessSignature(tx, sh, i, amt, sp.pkScript, ht, sp.internal)
		if err != nil {
			return err
		}
		in.Witness = w
		k.Count("sign.helper.TaprootWitnessSignature", 1)
	case "p2tr-keyspend-with-script-root":
		sig, err := txscript.RawTxInTaprootSignature(tx, sh, i, amt, sp.pkScript, sp.root, ht, sp.internal)
		if err != nil {
			return err
		}
		in.Witness = wire.TxWitness{sig}
		k.Count("sign.helper.RawTxInTaprootSignature", 1)
	case "p2tr-scriptspend":
		sig, err := txscript.RawTxInTapscriptSignature(tx, sh, i, amt, sp.pkScript, sp.leaf, ht, sp.privs[0])
		if err != nil {
			return err
		}
		in.Witness = wire.TxWitness{sig, sp.redeem, sp.control}
		k.Count("sign.helper.RawTxInTapscriptSignature", 1)
	}
	return nil
}

// oracleVerify checks that the signatures a helper placed in input i verify against the reference digest.
func oracleVerify(k *mon.Case, s *sctx, i int, sp *spend) {
	if sp.nosig {
		if len(s.tx.TxIn[i].SignatureScript) != 0 {
			k.Failf("sign:"+sp.class+":unexpected-script", "helper produced %x for an anyone-can-spend output", s.tx.TxIn[i].SignatureScript)
		}
		return
	}
	in := s.tx.TxIn[i]
	bad := func(why string) {
		k.Failf(fmt.Sprintf("sign:%s:signature-not-over-reference-digest:%s", sp.class, htClass(sp.form, sp.ht, i, len(s.tx.TxOut))),
			"%s; hashType %#x input %d scriptSig %x witness %x", why, sp.ht, i, in.SignatureScript, [][]byte(in.Witness))
	}
	var sigs [][]byte
	switch sp.form {
	case ref.FormLegacy:
		items := pushes(in.SignatureScript)
		code := sp.pkScript
		if sp.redeem != nil {
			if len(items) == 0 || string(items[len(items)-1]) != string(sp.redeem) {
				bad("redeem script is not the last push")
				return
			}
			items = items[:len(items)-1]
			code = sp.redeem
		}
		for _, it := range items {
			if looksLikeECDSASig(it) {
				sigs = append(sigs, it)
			}
		}
		if len(sigs) < sp.m {
			bad(fmt.Sprintf("%d signatures, %d required", len(sigs), sp.m))
			return
		}
		for _, sig := range sigs {
			if uint32(sig[len(sig)-1]) != sp.ht && sp.hts == nil {
				bad("hash type byte differs from the requested type")
			}
			d := ref.LegacyForSig(code, sig, s.tx, i)
			ok := false
			for _, pk := range sp.pks {
				ok = ok || ecdsaOK(sig[:len(sig)-1], pk, d)
			}
			if !ok {
				bad("ECDSA signature does not verify for any key of the script")
			}
			k.Count("sign.oracle.ecdsa_legacy", 1)
		}
	case ref.FormBIP143:
		code := sp.redeem
		w := in.Witness
		if sp.class == "p2wpkh" || sp.class == "p2sh-p2wpkh" {
			prog := sp.pkScript
			if sp.redeem != nil {
				prog = sp.redeem
			}
			code = ref.P2WPKHScriptCode(prog[2:])
			if len(w) != 2 || string(w[1]) != string(sp.pks[0]) {
				bad("witness is not <sig> <pubkey>")
				return
			}
			sigs = [][]byte{w[0]}
		} else {
			if len(w) < 2 || string(w[len(w)-1]) != string(sp.redeem) {
				bad("witness script is not the last item")
				return
			}
			for _, it := range w[:len(w)-1] {
				if looksLikeECDSASig(it) {
					sigs = append(sigs, it)
				}
			}
		}
		if len(sigs) < sp.m {
			bad("too few signatures")
			return
		}
		for _, sig := range sigs {
			if uint32(sig[len(sig)-1]) != sp.ht {
				bad("hash type byte differs from the requested type")
			}
			d := ref.BIP143(code, s.tx, i, s.amounts[i], uint32(sig[len(sig)-1]))
			ok := false
			for _, pk := range sp.pks {
				ok = ok || ecdsaOK(sig[:len(sig)-1], pk, d)
			}
			if !ok {
				bad("ECDSA signature does not verify for any key of the script")
			}
			k.Count("sign.oracle.ecdsa_bip143", 1)
		}
	default:
		w := in.Witness
		if len(w) == 0 {
			bad("empty witness")
			return
		}
		sig := w[0]
		wantLen := 65
		if sp.ht == 0 {
			wantLen = 64
		}
		if len(sig) != wantLen || (wantLen == 65 && uint32(sig[64]) != sp.ht) {
			bad("signature length / hash type byte")
			return
		}
		var d [32]byte
		var ok bool
		var key []byte
		if sp.form == ref.FormTaproot {
			d, ok = ref.Taproot(s.tx, i, s.amounts, s.scripts, byte(sp.ht), nil, nil, 0, 0)
			key = sp.pkScript[2:]
		} else {
			lh := ref.TapLeafHash(0xc0, sp.redeem)
			d, ok = ref.Taproot(s.tx, i, s.amounts, s.scripts, byte(sp.ht), nil, &lh, blankCodeSep, 0)
			key = sp.pks[0]
		}
		if !ok || !schnorrOK(sig[:64], key, d) {
			bad("Schnorr signature does not verify against the BIP341 digest")
		}
		k.Count("sign.oracle.schnorr", 1)
	}
}

// engineVerdict runs the interpreter on input i of the context. A panic is reported by the caller's
// family wrapper (mon), so it is not recovered here.
func engineVerdict(s *sctx, i int, flags txscript.ScriptFlags, sc *txscript.SigCache, sh *txscript.TxSigHashes) error {
	vm, err := txscript.NewEngine(s.scripts[i], s.tx, i, flags, sc, sh, s.amounts[i], s.fetcher())
	if err != nil {
		return err
	}
	return vm.Execute()
}

// buildSigned creates a transaction whose inputs spend one output of each chosen class and signs
// every input with the helper for its class. ok=false after a helper failure (already reported).
func buildSigned(k *mon.Case, r *mon.Rand, nin int, pick func(i int) int) (s *sctx, spends []*spend, sh *txscript.TxSigHashes, classes []string, ok bool) {
	ks := newKeyStore()
	tx := wire.NewMsgTx(int32(1 + r.Intn(2)))
	s = &sctx{tx: tx}
	for i := 0; i < nin; i++ {
		sp := makeSpend(r, ks, pick(i))
		spends = append(spends, sp)
		var op wire.OutPoint
		r.Fill(op.Hash[:])
		op.Index = uint32(i) // distinct
		in := wire.NewTxIn(&op, nil, nil)
		in.Sequence = edgeU32(r)
		tx.AddTxIn(in)
		s.amounts = append(s.amounts, 1+r.Int63n(maxSatoshi))
		s.scripts = append(s.scripts, sp.pkScript)
	}
	for j := r.Intn(5); j > 0; j-- {
		tx.AddTxOut(wire.NewTxOut(r.Int63n(maxSatoshi), randPrevScript(r, false)))
	}
	tx.LockTime = edgeU32(r)
	nOut := len(tx.TxOut)
	for _, sp := range spends {
		sp.ht = stdHashTypes[r.Intn(len(stdHashTypes))]
		if (sp.form == ref.FormTaproot || sp.form == ref.FormTapscript) && r.Chance(1, 4) {
			sp.ht = 0
		}
	}
	describe := func() {
		classes = classes[:0]
		for _, sp := range spends {
			classes = append(classes, fmt.Sprintf("%s/%#x", sp.class, sp.ht))
		}
		k.Desc(map[string]any{"classes": classes, "ctx": s.hex()})
	}
	describe()
	sh = txscript.NewTxSigHashes(tx, s.fetcher())

	for i, sp := range spends {
		taproot := sp.form == ref.FormTaproot || sp.form == ref.FormTapscript
		if taproot && !ref.Defined(sp.form, sp.ht, i, nOut) {
			// BIP341: SIGHASH_SINGLE without a matching output has no digest; the helper must refuse
			if err := signSpend(k, r, s, sh, i, sp, ks); err == nil {
				k.Failf("sign:"+sp.class+":signed-undefined-digest", "helper signed hash type %#x for input %d of a tx with %d outputs: %x",
					sp.ht, i, nOut, [][]byte(tx.TxIn[i].Witness))
			}
			k.Count("sign.taproot_single_without_output_refused", 1)
			sp.ht = []uint32{0, 1, 2, 0x81, 0x82}[r.Intn(5)]
			tx.TxIn[i].Witness = nil
		}
		if err := signSpend(k, r, s, sh, i, sp, ks); err != nil {
			k.Failf("sign:"+sp.class+":helper-error", "hash type %#x input %d: %v", sp.ht, i, err)
			return s, spends, sh, classes, false
		}
	}
	describe()
	return s, spends, sh, classes, true
}

func signCase(k *mon.Case) {
	r := k.Rand
	signCaseWith(k, func(i int) int {
		if i > 0 && r.Chance(1, 3) {
			return r.Intn(numSpendClasses)
		}
		return int(k.Index+int64(i)*5) % numSpendClasses
	})
}

// cosignCase: only multisig inputs (bare and P2SH, up to 5 keys), always co-signed in several passes
// with independent hash types (see cosign), then the same engine / mutation checks as sign.helpers.
func cosignCase(k *mon.Case) {
	r := k.Rand
	signCaseWith(k, func(i int) int { return 100 + []int{4, 7}[r.Intn(2)] })
}

func signCaseWith(k *mon.Case, pick func(i int) int) {
	r := k.Rand
	nin := 1 + r.Intn(5)
	s, spends, sh, classes, ok := buildSigned(k, r, nin, pick)
	if !ok {
		return
	}
	tx := s.tx
	nOut := len(tx.TxOut)
	s.fc = nil // witnesses / scripts were filled in; the fetcher only depends on prevouts but rebuild anyway

	shared := txscript.NewSigCache(uint(1 + r.Intn(6)))
	flags := txscript.StandardVerifyFlags
	broken := map[int]string{} // inputs whose untouched spend the engine already rejected
	for i, sp := range spends {
		if sp.failed {
			broken[i] = "cosign"
			continue
		}
		oracleVerify(k, s, i, sp)
		taproot := sp.form == ref.FormTaproot || sp.form == ref.FormTapscript
		cls := htClass(sp.form, sp.ht, i, nOut)
		type mode struct {
			name string
			sc   *txscript.SigCache
			sh   *txscript.TxSigHashes
		}
		modes := []mode{{"sigcache+midstates", shared, sh}, {"sigcache+midstates(2nd)", shared, sh}, {"nocache+midstates", nil, sh},
			{"sigcache+refmidstates", shared, refSigHashes(s)}}
		if !taproot {
			// the taproot path without supplied midstates is examined by the engine.nilmidstates family
			modes = append(modes, mode{"sigcache+nomidstates", shared, nil}, mode{"nocache+nomidstates", nil, nil})
		}
		for _, m := range modes {
			if err := engineVerdict(s, i, flags, m.sc, m.sh); err != nil {
				key := fmt.Sprintf("sign:%s:engine-rejects-helper-signature:%s", sp.class, cls)
				if broken[i] != "" {
					continue // rejected in an earlier mode already: one report is enough
				}
				broken[i] = m.name
				if m.name != modes[0].name {
					key += ":only-with:" + m.name
				}
				k.Failf(key, "input %d (%s, hash type %#x) mode %s: %v", i, sp.class, sp.ht, m.name, err)
				continue
			}
			k.Count("sign.engine.accepted_runs", 1)
		}
		k.Count("sign.class."+sp.class, 1)
		k.Count("sign.ht."+sp.form.String()+"."+cls, 1)
	}

	// end-to-end commits-to matrix
	nEval := 0
	for i, sp := range spends {
		if broken[i] != "" {
			continue
		}
		fields := []ref.Field{{Kind: ref.FVersion}, {Kind: ref.FLockTime}, {Kind: ref.FAppendInput}, {Kind: ref.FAppendOutput}}
		for j := 0; j < nin; j++ {
			fields = append(fields, ref.Field{Kind: ref.FPrevout, Index: j}, ref.Field{Kind: ref.FSequence, Index: j}, ref.Field{Kind: ref.FAmount, Index: j})
			if j != i {
				fields = append(fields, ref.Field{Kind: ref.FScriptSig, Index: j}, ref.Field{Kind: ref.FWitness, Index: j}, ref.Field{Kind: ref.FPrevScript, Index: j})
			}
		}
		for j := 0; j < nOut; j++ {
			fields = append(fields, ref.Field{Kind: ref.FOutValue, Index: j}, ref.Field{Kind: ref.FOutScript, Index: j})
		}
		for _, f := range fields {
			s2, _ := mutate(r, s, mutArgs{}, i, f)
			wantReject := !sp.nosig && ref.Commits(sp.form, sp.ht, i, nin, nOut, f)
			for _, ht := range sp.hts { // co-signed multisig: every one of the m signatures is needed
				wantReject = wantReject || ref.Commits(sp.form, ht, i, nin, nOut, f)
			}
			if (sp.form == ref.FormTaproot || sp.form == ref.FormTapscript) && !ref.Defined(sp.form, sp.ht, i, len(s2.tx.TxOut)) {
				continue
			}
			var sc *txscript.SigCache
			if r.Bool() {
				sc = shared // has seen the valid signature of the unmutated transaction
			}
			err := engineVerdict(s2, i, flags, sc, txscript.NewTxSigHashes(s2.tx, s2.fetcher()))
			who := "other"
			if f.Index == i {
				who = "self"
			}
			cls := htClass(sp.form, sp.ht, i, nOut)
			switch {
			case wantReject && err == nil:
				k.Failf(fmt.Sprintf("sign:commits:committed-field-not-enforced:%s:%s:%s:%s", sp.form, f.Kind, who, cls),
					"%s input %d hash type %#x: still valid after changing %s[%d] (sigcache shared=%v); mutated tx %v", sp.class, i, sp.ht, f.Kind, f.Index, sc != nil, s2.hex())
			case !wantReject && err != nil:
				k.Failf(fmt.Sprintf("sign:commits:uncommitted-field-breaks-signature:%s:%s:%s:%s", sp.form, f.Kind, who, cls),
					"%s input %d hash type %#x: rejected (%v) after changing %s[%d]; mutated tx %v", sp.class, i, sp.ht, err, f.Kind, f.Index, s2.hex())
			}
			if wantReject {
				k.Count("sign.matrix.rejected_as_specified", 1)
			} else {
				k.Count("sign.matrix.still_valid_as_specified", 1)
			}
			nEval++
		}
	}
	k.C.EvalN(int64(nEval))
	k.Eval(mon.Sig("sign", classes, nOut), true)
	if k.Index < 3 {
		k.Sample(map[string]any{"family": "sign.helpers", "classes": classes, "nOut": nOut, "input0.scriptSig": hex.EncodeToString(tx.TxIn[0].SignatureScript)})
	}
}

// nilMidstatesCase: the engine given hashCache == nil must reach the same verdict as with midstates,
// for every spend type (it recomputes them for segwit v0; the property demands the same for taproot).
func nilMidstatesCase(k *mon.Case) {
	r := k.Rand
	ks := newKeyStore()
	class := []int{9, 11, 14, 15, 16}[int(k.Index)%5]
	sp := makeSpend(r, ks, class)
	tx := wire.NewMsgTx(2)
	var op wire.OutPoint
	r.Fill(op.Hash[:])
	tx.AddTxIn(wire.NewTxIn(&op, nil, nil))
	tx.AddTxOut(wire.NewTxOut(1000, randPrevScript(r, false)))
	s := &sctx{tx: tx, amounts: []int64{5000}, scripts: [][]byte{sp.pkScript}}
	sp.ht = []uint32{1, 0x81, 3, 0x82}[r.Intn(4)]
	k.Desc(map[string]any{"class": sp.class, "ht": sp.ht, "ctx": s.hex()})
	sh := txscript.NewTxSigHashes(tx, s.fetcher())
	if err := signSpend(k, r, s, sh, 0, sp, ks); err != nil {
		k.Failf("sign:"+sp.class+":helper-error", "%v", err)
		return
	}
	if err := engineVerdict(s, 0, txscript.StandardVerifyFlags, nil, sh); err != nil {
		k.Failf("sign:"+sp.class+":engine-rejects-helper-signature", "%v", err)
		return
	}
	var verdict error
	func() {
		defer func() {
			if p := recover(); p != nil {
				k.Failf("engine:nil-midstates:panic:"+sp.form.String(),
					"NewEngine(..., hashCache=nil, ...).Execute() on a valid %s spend (hash type %#x) panics: %v; with TxSigHashes supplied the same spend is accepted. witness %x pkScript %x",
					sp.class, sp.ht, p, [][]byte(tx.TxIn[0].Witness), sp.pkScript)
				verdict = errors.New("panic")
			}
		}()
		verdict = engineVerdict(s, 0, txscript.StandardVerifyFlags, nil, nil)
		if verdict != nil {
			k.Failf("engine:nil-midstates:verdict-differs:"+sp.form.String(), "%s: accepted with midstates, rejected without: %v", sp.class, verdict)
		}
	}()
	k.Count("engine.nilmidstates."+sp.form.String(), 1)
	k.Eval(mon.Sig("nilmid", sp.class, sp.ht), true)
}

// cosign signs a (bare or P2SH) multisig input in several SignTxOutput passes. Each pass knows its own
// subset of the keys, uses its own hash type and receives the previous pass's script as
// previousScript. After every pass: the script holds exactly min(m, distinct signers so far) non-empty
// signatures, each of them verifies (btcec) against the REFERENCE digest for its own hash-type byte with
// keys in script order, and as soon as m signatures are present the engine accepts the script.
func cosign(k *mon.Case, r *mon.Rand, s *sctx, i int, sp *spend, ks *keyStore) ([]byte, error) {
	n, m := len(sp.pks), sp.m
	nOut := len(s.tx.TxOut)
	code := sp.pkScript
	if sp.redeem != nil {
		code = sp.redeem
	}
	passes := 2 + r.Intn(3)
	signers := map[int]bool{} // keys that produced a signature in some pass
	var prev []byte
	var log []string
	defer func() {
		for _, pk := range sp.pks {
			delete(ks.hidden, string(pk))
		}
	}()
	for p := 0; p < passes; p++ {
		// key subset of this pass (any order of signers arises over the cases; sometimes empty)
		sub := map[int]bool{}
		for _, j := range r.Perm(n)[:r.Intn(n+1)] {
			sub[j] = true
		}
		if p == passes-1 {
			// make the last pass complete the script: add keys this signer will actually use
			for _, j := range r.Perm(n) {
				u := map[int]bool{}
				for x := range signers {
					u[x] = true
				}
				for _, x := range firstKeys(sub, m) {
					u[x] = true
				}
				if len(u) >= m {
					break
				}
				sub[j] = true
			}
		}
		ht := stdHashTypes[r.Intn(len(stdHashTypes))]
		for ht&0x1f == 3 && i >= nOut {
			ht = stdHashTypes[r.Intn(len(stdHashTypes))] // SINGLE only with a matching output
		}
		for j, pk := range sp.pks {
			ks.hidden[string(pk)] = !sub[j]
		}
		script, err := txscript.SignTxOutput(&chaincfg.MainNetParams, s.tx, i, sp.pkScript, txscript.SigHashType(ht), ks, ks, prev)
		if err != nil {
			return nil, err
		}
		for _, j := range firstKeys(sub, m) { // signMultiSig stops after m signatures, in key order
			signers[j] = true
		}
		var subl []int
		for j := 0; j < n; j++ {
			if sub[j] {
				subl = append(subl, j)
			}
		}
		log = append(log, fmt.Sprintf("pass %d keys %v ht %#x -> %x", p, subl, ht, script))
		detail := fmt.Sprintf("%d-of-%d %s input %d; %v", m, n, sp.class, i, log)

		items := pushes(script)
		if sp.redeem != nil {
			if len(items) == 0 || string(items[len(items)-1]) != string(sp.redeem) {
				k.Failf("sign:"+sp.class+":cosign:redeem-script-lost", "%s", detail)
				sp.failed = true
				sp.failed = true
				return script, nil
			}
			items = items[:len(items)-1]
		}
		var sigs [][]byte
		for _, it := range items {
			if len(it) > 0 {
				sigs = append(sigs, it)
			}
		}
		want := min(m, len(signers))
		if len(sigs) != want {
			k.Failf(fmt.Sprintf("sign:%s:cosign:signature-count:%s", sp.class, map[bool]string{true: "dropped", false: "extra"}[len(sigs) < want]),
				"%d signatures in the script, %d expected (min(m, distinct signers)); %s", len(sigs), want, detail)
			sp.failed = true
			return script, nil
		}
		nextKey := 0
		sp.hts = sp.hts[:0]
		for _, sig := range sigs {
			ok := false
			if looksLikeECDSASig(sig) {
				d := ref.LegacyForSig(code, sig, s.tx, i)
				for ; nextKey < n && !ok; nextKey++ {
					ok = ecdsaOK(sig[:len(sig)-1], sp.pks[nextKey], d)
				}
			}
			if !ok {
				k.Failf("sign:"+sp.class+":cosign:signature-not-over-reference-digest",
					"signature %x does not verify for its own hash type against the remaining keys in script order; %s", sig, detail)
				sp.failed = true
				sp.failed = true
				return script, nil
			}
			sp.hts = append(sp.hts, uint32(sig[len(sig)-1]))
			k.Count("sign.cosign.sigs_verified", 1)
		}
		if len(sigs) == m {
			old := s.tx.TxIn[i].SignatureScript
			s.tx.TxIn[i].SignatureScript = script
			err := engineVerdict(s, i, txscript.StandardVerifyFlags, nil, nil)
			s.tx.TxIn[i].SignatureScript = old
			if err != nil {
				k.Failf("sign:"+sp.class+":cosign:engine-rejects-complete-script", "%v; %s", err, detail)
				sp.failed = true
				sp.failed = true
				return script, nil
			}
			k.Count("sign.cosign.complete_scripts_accepted", 1)
		}
		distinct := map[uint32]bool{}
		for _, h := range sp.hts {
			distinct[h] = true
		}
		if len(distinct) > 1 {
			k.Count("sign.cosign.mixed_hash_types", 1)
		}
		k.Count("sign.cosign.passes", 1)
		prev = script
	}
	if len(sp.hts) > 0 {
		sp.ht = sp.hts[0]
	} else {
		sp.hts = nil
	}
	return prev, nil
}

// firstKeys returns the first (at most m) key indexes of the set in script order.
func firstKeys(set map[int]bool, m int) []int {
	var out []int
	for j := 0; len(out) < m && j < 64; j++ {
		if set[j] {
			out = append(out, j)
		}
	}
	return out
}
