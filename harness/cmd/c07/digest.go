package main

import (
	"bytes"
	"crypto/sha256"
	"encoding/binary"
	"encoding/hex"
	"fmt"

	"verif/mon"
	ref "verif/ref/refsighash"

	"github.com/btcsuite/btcd/chainhash/v2"
	"github.com/btcsuite/btcd/txscript/v2"
)

const blankCodeSep = 0xffffffff

// midMode says where the precomputed partial hashes ("midstates") come from.
type midMode int

const (
	midFresh midMode = iota // txscript.NewTxSigHashes
	midCache                // txscript.HashCache Add + Get
	midRef                  // a TxSigHashes value filled with the reference's partial hashes
	numMidModes
)

func (m midMode) String() string { return [...]string{"fresh", "hashcache", "refmid"}[m] }

func refSigHashes(s *sctx) *txscript.TxSigHashes {
	v0 := ref.MidstatesV0(s.tx)
	v1 := ref.MidstatesV1(s.tx, s.amounts, s.scripts)
	var sh txscript.TxSigHashes
	sh.HashPrevOutsV0, sh.HashSequenceV0, sh.HashOutputsV0 = v0.HashPrevouts, v0.HashSequence, v0.HashOutputs
	sh.HashPrevOutsV1, sh.HashSequenceV1, sh.HashOutputsV1 = v1.ShaPrevouts, v1.ShaSequences, v1.ShaOutputs
	sh.HashInputAmountsV1, sh.HashInputScriptsV1 = v1.ShaAmounts, v1.ShaScriptPubKeys
	return &sh
}

// sigHashes produces the midstates in the requested way; a violation is raised when the HashCache
// does not hand back what was added.
func sigHashes(k *mon.Case, s *sctx, mode midMode) *txscript.TxSigHashes {
	switch mode {
	case midCache:
		hc := txscript.NewHashCache(4)
		hc.AddSigHashes(s.tx, s.fetcher())
		txid := s.tx.TxHash()
		sh, ok := hc.GetSigHashes(&txid)
		if !ok || sh == nil || !hc.ContainsHashes(&txid) {
			k.Failf("hashcache:GetSigHashes:missing-after-add", "HashCache lost the entry of %s", txid)
			return txscript.NewTxSigHashes(s.tx, s.fetcher())
		}
		hc.PurgeSigHashes(&txid)
		if hc.ContainsHashes(&txid) {
			k.Failf("hashcache:PurgeSigHashes:still-present", "entry %s survives a purge", txid)
		}
		k.Count("hashcache.roundtrips", 1)
		return sh
	case midRef:
		return refSigHashes(s)
	}
	return txscript.NewTxSigHashes(s.tx, s.fetcher())
}

// checkMidstates compares the fields of NewTxSigHashes with the reference wherever btcd promises
// them (v0 fields when some input is not P2TR, amount/script hashes when some input is P2TR).
func checkMidstates(k *mon.Case, s *sctx) {
	got := txscript.NewTxSigHashes(s.tx, s.fetcher())
	want := refSigHashes(s)
	anyTR, anyV0 := false, false
	for _, p := range s.scripts {
		if isP2TR(p) {
			anyTR = true
		} else {
			anyV0 = true
		}
	}
	bad := func(name string, g, w chainhash.Hash) {
		if g != w {
			k.Failf("hashcache:NewTxSigHashes:"+name, "%s got %x want %x", name, g[:], w[:])
		}
	}
	bad("HashPrevOutsV1", got.HashPrevOutsV1, want.HashPrevOutsV1)
	bad("HashSequenceV1", got.HashSequenceV1, want.HashSequenceV1)
	bad("HashOutputsV1", got.HashOutputsV1, want.HashOutputsV1)
	if anyV0 {
		bad("HashPrevOutsV0", got.HashPrevOutsV0, want.HashPrevOutsV0)
		bad("HashSequenceV0", got.HashSequenceV0, want.HashSequenceV0)
		bad("HashOutputsV0", got.HashOutputsV0, want.HashOutputsV0)
	}
	if anyTR {
		bad("HashInputAmountsV1", got.HashInputAmountsV1, want.HashInputAmountsV1)
		bad("HashInputScriptsV1", got.HashInputScriptsV1, want.HashInputScriptsV1)
	}
	k.Count("midstates.compared", 1)
}

func isP2WPKHProgram(s []byte) bool { return len(s) == 22 && s[0] == 0x00 && s[1] == 0x14 }

// refDigest evaluates the reference.
func refDigest(form ref.Form, s *sctx, idx int, ht uint32, a mutArgs) ([32]byte, bool) {
	switch form {
	case ref.FormLegacy:
		return ref.Legacy(a.code, s.tx, idx, ht), true
	case ref.FormBIP143:
		code := a.code
		if isP2WPKHProgram(code) {
			// txscript API convention (documented in its tests and used by WitnessSignature): a
			// P2WPKH program passed as script stands for its implied P2PKH script code.
			code = ref.P2WPKHScriptCode(code[2:])
		}
		return ref.BIP143(code, s.tx, idx, s.amounts[idx], ht), true
	case ref.FormTaproot:
		if ht > 0xff {
			return [32]byte{}, false
		}
		return ref.Taproot(s.tx, idx, s.amounts, s.scripts, byte(ht), a.annex, nil, 0, 0)
	default:
		if ht > 0xff {
			return [32]byte{}, false
		}
		lh := leafHashOf(a)
		return ref.Taproot(s.tx, idx, s.amounts, s.scripts, byte(ht), a.annex, &lh, a.codeSepPos, 0)
	}
}

// btcdDigest calls the function under test.
func btcdDigest(form ref.Form, s *sctx, sh *txscript.TxSigHashes, idx int, ht uint32, a mutArgs) ([]byte, error) {
	t := txscript.SigHashType(ht)
	switch form {
	case ref.FormLegacy:
		return txscript.CalcSignatureHash(a.code, t, s.tx, idx)
	case ref.FormBIP143:
		return txscript.CalcWitnessSigHash(a.code, sh, t, s.tx, idx, s.amounts[idx])
	case ref.FormTaproot:
		return txscript.CalcTaprootSignatureHash(sh, t, s.tx, idx, s.fetcher())
	default:
		leaf := txscript.NewTapLeaf(txscript.TapscriptLeafVersion(a.leafVer), a.leafScript)
		if a.leafVer == 0xc0 && len(a.leafScript)%2 == 0 {
			leaf = txscript.NewBaseTapLeaf(a.leafScript)
		}
		var opts []txscript.TaprootSigHashOption
		if a.annex != nil {
			opts = append(opts, txscript.WithAnnex(a.annex))
		}
		if a.leafHash != nil || a.codeSepPos != blankCodeSep {
			lh := leafHashOf(a)
			opts = append(opts, txscript.WithBaseTapscriptVersion(a.codeSepPos, lh[:]))
		}
		return txscript.CalcTapscriptSignaturehash(sh, t, s.tx, idx, s.fetcher(), leaf, opts...)
	}
}

var formFn = map[ref.Form]string{ref.FormLegacy: "CalcSignatureHash", ref.FormBIP143: "CalcWitnessSigHash",
	ref.FormTaproot: "CalcTaprootSignatureHash", ref.FormTapscript: "CalcTapscriptSignaturehash"}

// htClass is a stable description of a hash type for violation keys.
func htClass(form ref.Form, ht uint32, idx, nOut int) string {
	c := ""
	if form == ref.FormTaproot || form == ref.FormTapscript {
		if ht > 0xff || !ref.ValidTaprootHashType(byte(ht)) {
			return "undefined"
		}
		c = [...]string{"default", "all", "none", "single"}[ht&3]
	} else {
		switch ht & 0x1f {
		case 2:
			c = "none"
		case 3:
			c = "single"
		case 1:
			c = "all"
		default:
			c = "other-as-all"
		}
		if ht > 0xff {
			c += "+hi24"
		} else if ht&0x60 != 0 {
			c += "+bits56"
		}
	}
	if ht&0x80 != 0 {
		c += "|acp"
	}
	single := ht&0x1f == 3
	if form == ref.FormTaproot || form == ref.FormTapscript {
		single = ht&3 == 3
	}
	if single && idx >= nOut {
		c += "(no-output)"
	}
	return c
}

// fingerprint hashes every field of the context (to detect a digest function that modifies its input).
func fingerprint(s *sctx) [32]byte {
	h := sha256.New()
	w := func(b []byte) {
		var l [4]byte
		binary.LittleEndian.PutUint32(l[:], uint32(len(b)))
		h.Write(l[:])
		h.Write(b)
	}
	var n [8]byte
	binary.LittleEndian.PutUint32(n[:], uint32(s.tx.Version))
	binary.LittleEndian.PutUint32(n[4:], s.tx.LockTime)
	h.Write(n[:])
	for i, in := range s.tx.TxIn {
		w(in.PreviousOutPoint.Hash[:])
		binary.LittleEndian.PutUint32(n[:], in.PreviousOutPoint.Index)
		binary.LittleEndian.PutUint32(n[4:], in.Sequence)
		h.Write(n[:])
		w(in.SignatureScript)
		for _, it := range in.Witness {
			w(it)
		}
		binary.LittleEndian.PutUint64(n[:], uint64(s.amounts[i]))
		h.Write(n[:])
		w(s.scripts[i])
	}
	h.Write([]byte("outs"))
	for _, o := range s.tx.TxOut {
		binary.LittleEndian.PutUint64(n[:], uint64(o.Value))
		h.Write(n[:])
		w(o.PkScript)
	}
	var out [32]byte
	h.Sum(out[:0])
	return out
}

// randArgs draws the non-transaction arguments of a digest for a form.
func randArgs(r *mon.Rand, form ref.Form, k *mon.Case) mutArgs {
	a := mutArgs{codeSepPos: blankCodeSep, leafVer: 0xc0}
	switch form {
	case ref.FormLegacy, ref.FormBIP143:
		var st scriptStats
		a.code, st = randScriptCode(r, 40)
		switch {
		case r.Chance(1, 30):
			// one huge push: script code longer than 65535 bytes (5-byte compact size)
			l := 65536 + r.Intn(3000)
			big := append([]byte{0x4e, byte(l), byte(l >> 8), byte(l >> 16), 0}, r.Bytes(l)...)
			a.code = cat(a.code, big, []byte{0xab, 0xac})
			st.codeseps++
			k.Count("scriptcode.over64k", 1)
		case r.Chance(1, 10):
			// around the 253-byte compact-size boundary after separator removal
			for len(a.code) < 250+r.Intn(8) {
				a.code = append(a.code, 0x61)
			}
			a.code = append(a.code, 0xab)
			st.codeseps++
		case form == ref.FormBIP143 && r.Chance(1, 5):
			a.code = append([]byte{0x00, 0x14}, r.Bytes(20)...)
			k.Count("scriptcode.p2wpkh_program", 1)
		}
		if st.codeseps > 0 {
			k.Count("scriptcode.with_codesep", 1)
		}
		if st.abInData > 0 {
			k.Count("scriptcode.ab_inside_push_data", 1)
		}
		if len(a.code) == 0 {
			k.Count("scriptcode.empty", 1)
		}
	case ref.FormTapscript:
		a.leafScript, _ = randScriptCode(r, 20)
		if r.Chance(1, 8) {
			a.leafVer = byte(0xc2 + 2*r.Intn(30))
		}
		switch r.Intn(4) {
		case 0:
			a.codeSepPos = uint32(r.Intn(50))
			k.Count("tapscript.codeseppos_set", 1)
		case 1:
			a.codeSepPos = r.Uint32()
			k.Count("tapscript.codeseppos_set", 1)
		}
		if r.Chance(1, 6) {
			h := [32]byte{}
			r.Fill(h[:])
			a.leafHash = &h
			k.Count("tapscript.explicit_leafhash", 1)
		}
		if r.Bool() {
			a.annex = randAnnex(r)
			k.Count("tapscript.annex", 1)
		}
	}
	return a
}

func randAnnex(r *mon.Rand) []byte {
	l := r.Intn(40)
	switch r.Intn(6) {
	case 0:
		l = 0
	case 1:
		l = 251 + r.Intn(4) // compact-size boundary of the annex length (incl. the 0x50 byte)
	}
	return append([]byte{0x50}, r.Bytes(l)...)
}

// prepareCtx adapts a random context so that input idx has the prevout type the form needs.
func prepareCtx(r *mon.Rand, form ref.Form, s *sctx, idx int) {
	tr := form == ref.FormTaproot || form == ref.FormTapscript
	if tr && !isP2TR(s.scripts[idx]) {
		s.scripts[idx] = randPrevScript(r, true)
	}
	for !tr && isP2TR(s.scripts[idx]) {
		s.scripts[idx] = randPrevScript(r, false)
	}
}

// hashTypesAll returns every one-byte hash type plus a few 32-bit ones (legacy/BIP143 only).
func hashTypesAll(r *mon.Rand, form ref.Form) []uint32 {
	var hts []uint32
	for i := 0; i < 256; i++ {
		hts = append(hts, uint32(i))
	}
	if form == ref.FormLegacy || form == ref.FormBIP143 {
		hts = append(hts, 0x80000003, 0xffffff02, 0x00000103, 0xffffffff, 0x100, 0x183)
		for i := 0; i < 6; i++ {
			hts = append(hts, r.Uint32())
		}
	} else {
		hts = append(hts, 0x100, 0x101, 0x183, 0x80000001) // not representable in a signature: must be refused
	}
	return hts
}

func describe(form ref.Form, s *sctx, idx int, a mutArgs) map[string]any {
	d := s.hex()
	d["form"], d["idx"] = form.String(), idx
	d["code"] = hex.EncodeToString(a.code)
	if a.annex != nil {
		d["annex"] = hex.EncodeToString(a.annex)
	}
	if form == ref.FormTapscript {
		d["leafScript"], d["leafVer"], d["codeSepPos"] = hex.EncodeToString(a.leafScript), a.leafVer, a.codeSepPos
		if a.leafHash != nil {
			d["leafHash"] = hex.EncodeToString(a.leafHash[:])
		}
	}
	return d
}

// digestCase: one transaction, one input, every hash type, every midstate source.
func digestCase(form ref.Form) func(k *mon.Case) {
	name := form.String()
	return func(k *mon.Case) {
		r := k.Rand
		big := r.Chance(1, 25)
		s := randCtx(r, big)
		idx := r.Intn(len(s.tx.TxIn))
		if r.Chance(1, 3) && len(s.tx.TxIn) > len(s.tx.TxOut) {
			idx = len(s.tx.TxOut) + r.Intn(len(s.tx.TxIn)-len(s.tx.TxOut)) // no matching output
		}
		prepareCtx(r, form, s, idx)
		a := randArgs(r, form, k)
		k.Desc(describe(form, s, idx, a))
		if big {
			k.Count("tx.count_over_252", 1)
		}
		fp := fingerprint(s)
		if form != ref.FormLegacy {
			checkMidstates(k, s)
		}
		nOut := len(s.tx.TxOut)
		hts := hashTypesAll(r, form)
		seen := map[[32]byte]uint32{}
		freshBad := map[uint32]bool{} // hash types already reported with fresh midstates
		for mode := midMode(0); mode < numMidModes; mode++ {
			if form == ref.FormLegacy && mode != midFresh {
				break
			}
			var sh *txscript.TxSigHashes
			if form != ref.FormLegacy {
				sh = sigHashes(k, s, mode)
			}
			for _, ht := range hts {
				want, defined := refDigest(form, s, idx, ht, a)
				got, err := btcdDigest(form, s, sh, idx, ht, a)
				cls := htClass(form, ht, idx, nOut)
				switch {
				case defined && err != nil:
					k.Failf(fmt.Sprintf("%s:%s:error-where-digest-defined:%s", name, formFn[form], cls),
						"hashType=%#x mid=%s: btcd error %v, reference digest %x", ht, mode, err, want[:])
				case !defined && err == nil:
					k.Failf(fmt.Sprintf("%s:%s:digest-where-undefined:%s", name, formFn[form], cls),
						"hashType=%#x mid=%s: btcd returned %x although BIP341 defines no digest", ht, mode, got)
				case defined && !bytes.Equal(got, want[:]):
					key := fmt.Sprintf("%s:%s:digest-mismatch:%s", name, formFn[form], cls)
					if mode == midFresh {
						freshBad[ht] = true
					} else if freshBad[ht] {
						break // same defect as with fresh midstates, already reported
					} else {
						key += ":only-with-mid=" + mode.String()
					}
					k.Failf(key, "hashType=%#x mid=%s: got %x want %x", ht, mode, got, want[:])
				}
				if defined {
					k.Count(name+".digests", 1)
					k.Count(name+".ht."+cls, 1)
					if mode == midFresh {
						if prev, dup := seen[want]; dup && want != ref.One() && prev != ht {
							k.Failf("calibration:"+name+":hashtype-not-injective", "hash types %#x and %#x give the same reference digest", prev, ht)
						}
						seen[want] = ht
					}
				} else {
					k.Count(name+".undefined_refused", 1)
				}
			}
		}
		if fingerprint(s) != fp {
			k.Failf(name+":"+formFn[form]+":modifies-its-input", "the transaction / prevouts changed while digests were computed")
		}
		k.Eval(mon.Sig(name, len(s.tx.TxIn), nOut, idx, len(a.code), len(a.leafScript), a.annex != nil, a.codeSepPos, fp[:6]), true)
		if k.Index < 2 {
			d, _ := refDigest(form, s, idx, 1, a)
			k.Sample(map[string]any{"family": k.Family, "nIn": len(s.tx.TxIn), "nOut": nOut, "idx": idx, "digest(ht=1)": hex.EncodeToString(d[:])})
		}
	}
}

// matrixHashTypes picks the hash types whose commit sets differ, plus undefined / 32-bit ones.
func matrixHashTypes(r *mon.Rand, form ref.Form) []uint32 {
	if form == ref.FormTaproot || form == ref.FormTapscript {
		return []uint32{0, 1, 2, 3, 0x81, 0x82, 0x83}
	}
	hts := []uint32{1, 2, 3, 0x81, 0x82, 0x83}
	und := uint32(r.Intn(256))
	hts = append(hts, und, r.Uint32(), uint32(4+r.Intn(0x1c))|uint32(r.Intn(2))<<7)
	return hts
}

// matrixCase: for one (tx, input) and each hash type, mutate one field at a time and compare
// "digest changed" with the declarative commits-to table (for btcd and for the reference itself).
func matrixCase(form ref.Form) func(k *mon.Case) {
	name := form.String()
	return func(k *mon.Case) {
		r := k.Rand
		s := randCtx(r, false)
		idx := r.Intn(len(s.tx.TxIn))
		if r.Chance(1, 4) && len(s.tx.TxIn) > len(s.tx.TxOut) {
			idx = len(s.tx.TxOut) + r.Intn(len(s.tx.TxIn)-len(s.tx.TxOut))
		}
		prepareCtx(r, form, s, idx)
		a := randArgs(r, form, k)
		k.Desc(describe(form, s, idx, a))
		nIn, nOut := len(s.tx.TxIn), len(s.tx.TxOut)
		mode := midMode(r.Intn(int(numMidModes)))
		var sh *txscript.TxSigHashes
		if form != ref.FormLegacy {
			sh = sigHashes(k, s, mode)
		}
		fields := fieldsFor(form, s, r, 3)
		nEval := 0
		for _, ht := range matrixHashTypes(r, form) {
			if !ref.Defined(form, ht, idx, nOut) {
				continue
			}
			d0, err := btcdDigest(form, s, sh, idx, ht, a)
			r0, _ := refDigest(form, s, idx, ht, a)
			if err != nil || !bytes.Equal(d0, r0[:]) {
				k.Failf(fmt.Sprintf("%s:%s:digest-mismatch:%s", name, formFn[form], htClass(form, ht, idx, nOut)),
					"hashType=%#x: got %x (err %v) want %x", ht, d0, err, r0[:])
				continue
			}
			for _, f := range fields {
				want := ref.Commits(form, ht, idx, nIn, nOut, f)
				s2, a2 := mutate(r, s, a, idx, f)
				if !ref.Defined(form, ht, idx, len(s2.tx.TxOut)) {
					continue
				}
				var sh2 *txscript.TxSigHashes
				if form != ref.FormLegacy {
					sh2 = sigHashes(k, s2, mode)
				}
				d1, err := btcdDigest(form, s2, sh2, idx, ht, a2)
				r1, _ := refDigest(form, s2, idx, ht, a2)
				who := "other"
				if f.Index == idx {
					who = "self"
				}
				cls := htClass(form, ht, idx, nOut)
				if (r1 != r0) != want {
					k.Failf(fmt.Sprintf("calibration:commits-table:%s:%s:%s:%s", name, f.Kind, who, cls),
						"reference digest changed=%v but table says committed=%v (hashType %#x, field %s[%d])", r1 != r0, want, ht, f.Kind, f.Index)
					continue
				}
				if err != nil {
					k.Failf(fmt.Sprintf("%s:%s:error-where-digest-defined:%s", name, formFn[form], cls), "after mutating %s[%d]: %v", f.Kind, f.Index, err)
					continue
				}
				changed := !bytes.Equal(d1, d0)
				if changed != want {
					dir := "committed-field-ignored"
					if changed {
						dir = "uncommitted-field-hashed"
					}
					k.Failf(fmt.Sprintf("%s:commits:%s:%s:%s:%s", name, dir, f.Kind, who, cls),
						"hashType=%#x idx=%d field %s[%d]: digest changed=%v, specification says committed=%v; mutated ctx %v",
						ht, idx, f.Kind, f.Index, changed, want, describe(form, s2, idx, a2))
				}
				if want {
					k.Count(name+".matrix.committed", 1)
				} else {
					k.Count(name+".matrix.uncommitted", 1)
				}
				k.Count(name+".matrix."+f.Kind.String(), 1)
				nEval++
			}
		}
		k.C.EvalN(int64(nEval))
		fp := fingerprint(s)
		k.Eval(mon.Sig(name+".matrix", nIn, nOut, idx, fp[:6]), nEval > 0)
	}
}
