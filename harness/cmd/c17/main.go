// Worker for C17: block-index queries and headers-first tracking are exact on any block tree.
package main

import (
	"fmt"

	"verif/gen/chaingen"
	"verif/mon"
	"verif/node"
	"verif/ref/refchain"
	"verif/sim"

	"github.com/btcsuite/btcd/blockchain"
	"github.com/btcsuite/btcd/chainhash/v2"
)

// naive model helpers ---------------------------------------------------------------------------

// locator per the protocol convention: the block, its 10 predecessors one by one, then doubling steps, ending at genesis.
func refLocator(b *refchain.Block) []chainhash.Hash {
	var out []chainhash.Hash
	step := int32(1)
	n := b
	for {
		out = append(out, n.Hash)
		if n.Height == 0 {
			break
		}
		h := n.Height - step
		if h < 0 {
			h = 0
		}
		// naive parent walk
		for n.Height > h {
			n = n.Parent
		}
		if len(out) > 10 {
			step *= 2
		}
	}
	return out
}

type world struct {
	s       *sim.Sim
	g       *chaingen.Gen
	k       *mon.Case
	indexed func(b *refchain.Block) bool
}

func (w *world) onActive(b *refchain.Block) bool {
	return b != nil && w.s.Tip.Ancestor(b.Height) == b
}

// refLocate: blocks after the most recent locator entry on the active chain, consecutive, cut at stop / max.
func (w *world) refLocate(loc []*refchain.Block, locHashes []chainhash.Hash, stop *refchain.Block, max uint32) []*refchain.Block {
	tip := w.s.Tip
	if len(locHashes) == 0 {
		if stop != nil && w.indexed(stop) {
			return []*refchain.Block{stop}
		}
		return nil
	}
	start := w.g.Tree.Genesis
	for _, l := range loc {
		if l != nil && w.indexed(l) && w.onActive(l) {
			start = l
			break
		}
	}
	var out []*refchain.Block
	path := tip.Path()
	for h := start.Height + 1; h <= tip.Height; h++ {
		if uint32(len(out)) >= max {
			break
		}
		out = append(out, path[h])
		if stop != nil && path[h] == stop {
			break
		}
	}
	return out
}

func eqHashes(a []chainhash.Hash, b []*refchain.Block) bool {
	if len(a) != len(b) {
		return false
	}
	for i := range a {
		if a[i] != b[i].Hash {
			return false
		}
	}
	return true
}

func (w *world) pick(r *mon.Rand) *refchain.Block {
	all := w.g.Tree.All
	return all[r.Intn(len(all))]
}

func (w *world) queries(r *mon.Rand, n int) {
	c := w.s.N.Chain
	s := w.s
	tip := s.Tip
	all := w.g.Tree.All
	unknown := func() chainhash.Hash { var h chainhash.Hash; r.Fill(h[:]); return h }
	for q := 0; q < n && !s.Failed; q++ {
		switch r.Intn(9) {
		case 0: // BlockLocatorFromHash on any indexed node
			b := w.pick(r)
			got := c.BlockLocatorFromHash(&b.Hash)
			want := refLocator(b)
			if !w.indexed(b) {
				// documented: for a hash that is not known the locator of the current best tip is returned
				want = refLocator(tip)
			}
			ok := len(got) == len(want)
			for i := 0; ok && i < len(got); i++ {
				ok = *got[i] == want[i]
			}
			if !ok {
				s.Fail("locator:BlockLocatorFromHash", "locator of %s (height %d, active=%v): got %d entries want %d", b.Name, b.Height, w.onActive(b), len(got), len(want))
			}
			w.k.Count("q.locator", 1)
		case 1:
			got, err := c.LatestBlockLocator()
			want := refLocator(tip)
			ok := err == nil && len(got) == len(want)
			for i := 0; ok && i < len(got); i++ {
				ok = *got[i] == want[i]
			}
			if !ok {
				s.Fail("locator:LatestBlockLocator", "latest locator mismatch (err %v)", err)
			}
			w.k.Count("q.latest_locator", 1)
		case 2, 3: // LocateBlocks / LocateHeaders
			var loc []*refchain.Block
			var lh blockchain.BlockLocator
			var lhs []chainhash.Hash
			nloc := r.Intn(6)
			for i := 0; i < nloc; i++ {
				switch r.Intn(5) {
				case 0:
					h := unknown()
					loc = append(loc, nil)
					lhs = append(lhs, h)
				case 1: // proper locator of some node, spliced in
					b := w.pick(r)
					for _, h := range refLocator(b) {
						hh := h
						loc = append(loc, w.g.Tree.ByHash[hh])
						lhs = append(lhs, hh)
					}
				default:
					b := w.pick(r)
					loc = append(loc, b)
					lhs = append(lhs, b.Hash)
				}
			}
			for i := range lhs {
				lh = append(lh, &lhs[i])
			}
			var stop *refchain.Block
			stopHash := chainhash.Hash{}
			switch r.Intn(4) {
			case 0:
				stopHash = unknown()
			case 1:
			default:
				stop = w.pick(r)
				stopHash = stop.Hash
			}
			if r.Bool() {
				max := uint32([]int{0, 1, 2, 5, 500, 2000, 5000}[r.Intn(7)])
				got := c.LocateBlocks(lh, &stopHash, max)
				want := w.refLocate(loc, lhs, stop, max)
				if len(lhs) == 0 && max == 0 {
					// a single explicitly requested block is returned regardless of max in btcd; the
					// property only speaks of locator-driven answers being cut at max
					continue
				}
				if !eqHashes(got, want) {
					s.Fail("locate:LocateBlocks", "LocateBlocks(locator %d entries, stop %v, max %d): got %d hashes want %d", len(lhs), stop != nil, max, len(got), len(want))
				}
				w.k.Count("q.locate_blocks", 1)
			} else {
				got := c.LocateHeaders(lh, &stopHash)
				want := w.refLocate(loc, lhs, stop, 2000)
				ok := len(got) == len(want)
				for i := 0; ok && i < len(got); i++ {
					ok = got[i].BlockHash() == want[i].Hash
				}
				if !ok {
					s.Fail("locate:LocateHeaders", "LocateHeaders(locator %d entries, stop %v): got %d headers want %d", len(lhs), stop != nil, len(got), len(want))
				}
				w.k.Count("q.locate_headers", 1)
			}
		case 4: // HeightRange
			a := int32(r.Intn(int(tip.Height)+20)) - 5
			b := a + int32(r.Intn(40)) - 5
			if r.Chance(1, 4) {
				b = tip.Height + int32(r.Intn(5))
			}
			got, err := c.HeightRange(a, b)
			if a < 0 || b < a {
				if err == nil {
					s.Fail("range:HeightRange-bad-args", "HeightRange(%d,%d) succeeded", a, b)
				}
				continue
			}
			var want []*refchain.Block
			path := tip.Path()
			for h := a; h < b && h <= tip.Height; h++ {
				want = append(want, path[h])
			}
			if err != nil || !eqHashes(got, want) {
				s.Fail("range:HeightRange", "HeightRange(%d,%d) tip %d: got %d err %v want %d", a, b, tip.Height, len(got), err, len(want))
			}
			w.k.Count("q.height_range", 1)
		case 5: // HeightToHashRange
			e := w.pick(r)
			start := int32(r.Intn(int(e.Height)+6)) - 2
			max := []int{1, 10, 1000, 100000}[r.Intn(4)]
			got, err := c.HeightToHashRange(start, &e.Hash, max)
			valid := w.indexed(e) && s.Connected[e]
			n := int(e.Height-start) + 1
			if !valid || start < 0 || start > e.Height || n > max {
				if err == nil {
					s.Fail("range:HeightToHashRange-bad-args", "HeightToHashRange(%d,%s,%d) succeeded (validated=%v)", start, e.Name, max, valid)
				}
				continue
			}
			var want []*refchain.Block
			p := e.Path()
			for h := start; h <= e.Height; h++ {
				want = append(want, p[h])
			}
			if err != nil || !eqHashes(got, want) {
				s.Fail("range:HeightToHashRange", "HeightToHashRange(%d,%s,%d): err %v got %d want %d", start, e.Name, max, err, len(got), len(want))
			}
			w.k.Count("q.height_to_hash_range", 1)
		case 6: // IntervalBlockHashes
			e := w.pick(r)
			iv := 1 + r.Intn(40)
			valid := w.indexed(e) && s.Connected[e]
			got, err := c.IntervalBlockHashes(&e.Hash, iv)
			if !valid {
				if err == nil {
					s.Fail("range:IntervalBlockHashes-unvalidated", "IntervalBlockHashes(%s) succeeded on a block never connected", e.Name)
				}
				continue
			}
			var want []*refchain.Block
			p := e.Path()
			for h := iv; h <= int(e.Height); h += iv {
				want = append(want, p[h])
			}
			if err != nil || !eqHashes(got, want) {
				s.Fail("range:IntervalBlockHashes", "IntervalBlockHashes(%s,%d): err %v got %d want %d", e.Name, iv, err, len(got), len(want))
			}
			w.k.Count("q.interval_hashes", 1)
		case 7: // membership / heights for random nodes
			b := w.pick(r)
			if c.MainChainHasBlock(&b.Hash) != (w.indexed(b) && w.onActive(b)) {
				s.Fail("views:MainChainHasBlock", "MainChainHasBlock(%s) wrong", b.Name)
			}
			h, err := c.BlockHeightByHash(&b.Hash)
			if w.onActive(b) {
				if err != nil || h != b.Height {
					s.Fail("views:BlockHeightByHash", "BlockHeightByHash(%s)=%d,%v", b.Name, h, err)
				}
			} else if err == nil {
				s.Fail("views:BlockHeightByHash-side", "BlockHeightByHash(%s) succeeded off the active chain", b.Name)
			}
			hh, err := c.BlockHashByHeight(b.Height)
			if b.Height <= tip.Height {
				if err != nil || *hh != tip.Ancestor(b.Height).Hash {
					s.Fail("views:BlockHashByHeight", "BlockHashByHeight(%d) wrong", b.Height)
				}
			}
			w.k.Count("q.membership", 1)
		case 8: // ChainTips branch lengths over the whole tree
			tips := c.ChainTips()
			for _, ct := range tips {
				b := w.g.Tree.ByHash[ct.BlockHash]
				if b == nil {
					s.Fail("views:ChainTips-unknown", "unknown tip")
					continue
				}
				f := refchain.Fork(b, tip)
				if ct.Height != b.Height || ct.BranchLen != b.Height-f.Height {
					s.Fail("views:ChainTips-branchlen", "tip %s: height %d branchlen %d want %d/%d", b.Name, ct.Height, ct.BranchLen, b.Height, b.Height-f.Height)
				}
			}
			w.k.Count("q.chaintips", 1)
		}
	}
	_ = all
}

// buildTree: one long trunk with side branches of random lengths (some heavier than the trunk so far).
func buildTree(r *mon.Rand, g *chaingen.Gen, trunk int, branches int) []*refchain.Block {
	var made []*refchain.Block
	tip := g.Tree.Genesis
	var trunkNodes []*refchain.Block
	for i := 0; i < trunk; i++ {
		ntx := 0
		if r.Chance(1, 10) {
			ntx = 1
		}
		tip = g.Block(r, tip, chaingen.BlockOpts{NTx: ntx, Easy: r.Bool()})
		trunkNodes = append(trunkNodes, tip)
		made = append(made, tip)
	}
	for i := 0; i < branches; i++ {
		p := trunkNodes[r.Intn(len(trunkNodes))]
		if r.Chance(1, 3) && len(made) > 0 {
			p = made[r.Intn(len(made))]
		}
		n := 1 + r.Intn(12)
		if r.Chance(1, 6) {
			n += r.Intn(trunk / 4)
		}
		for j := 0; j < n; j++ {
			p = g.Block(r, p, chaingen.BlockOpts{NTx: 0, Easy: r.Bool()})
			made = append(made, p)
		}
	}
	return made
}

func runQueries(k *mon.Case) {
	r := k.Rand
	fam := []string{node.FamRegtest, node.FamVarWork}[r.Intn(2)]
	g := chaingen.New(node.NewParams(fam), fam, r)
	s, err := sim.New(k, g, node.Config{UtxoCacheMaxSize: 1 << 25})
	if err != nil {
		k.Failf("harness:open", "cannot open node: %v", err)
		return
	}
	defer s.Destroy()
	g.ClockNow = s.N.Clock.Now()
	trunk := []int{30, 120, 400, 1100}[r.Intn(4)]
	if k.C.Thorough() && r.Chance(1, 4) {
		trunk = 3000
	}
	blocks := buildTree(r, g, trunk, 3+r.Intn(10))
	k.Desc(map[string]any{"family": fam, "trunk": trunk, "nodes": len(blocks)})
	w := &world{s: s, g: g, k: k}
	w.indexed = func(b *refchain.Block) bool { return s.InIndex(b) }
	// deliver in creation order but leave a random suffix of some branches undelivered / header-only
	for i, b := range blocks {
		if s.Failed {
			return
		}
		if i > trunk && r.Chance(1, 12) {
			s.DeliverHeader(b)
			continue
		}
		s.DeliverBlock(b)
		if i%97 == 0 {
			w.queries(r, 20)
		}
	}
	w.queries(r, int(k.C.N(600, 2000)))
	if r.Chance(1, 3) && !s.Failed {
		s.Restart(true)
		w.queries(r, 200)
	}
	k.Eval(mon.Sig("queries", fam, trunk, len(blocks), s.Tip.Hash.String()[:8]), true)
	if k.Index < 2 {
		k.Sample(map[string]any{"family": fam, "trunk": trunk, "blocks": len(blocks), "tip": s.Tip.Name, "tip_height": s.Tip.Height})
	}
}

// headers-first: deliver all headers (random valid order), check the best-header view; then deliver the
// blocks in a random order and demand the same final chain as a blocks-only delivery.
func runHeadersFirst(k *mon.Case) {
	r := k.Rand
	fam := []string{node.FamRegtest, node.FamVarWork}[r.Intn(2)]
	g := chaingen.New(node.NewParams(fam), fam, r)
	g.MaxTx = 2
	s, err := sim.New(k, g, node.Config{UtxoCacheMaxSize: []uint64{0, 1 << 25}[r.Intn(2)]})
	if err != nil {
		k.Failf("harness:open", "cannot open node: %v", err)
		return
	}
	defer s.Destroy()
	g.ClockNow = s.N.Clock.Now()
	recipes := chaingen.BasicRecipes(s.N.Clock.Now())
	blocks := g.RandomTree(r, chaingen.TreeOpts{Nodes: 10 + r.Intn(50), ForkChance: 10 + r.Intn(30), EasyChance: 50, NTx: -1,
		InvalidMax: r.Intn(3), Recipes: recipes, ExtendInvalidChance: 70})
	k.Desc(map[string]any{"family": fam, "nodes": len(blocks), "mode": "headers-first"})
	c := s.N.Chain
	// model of the best header: most cumulative work among accepted headers, first seen wins ties
	bh := g.Tree.Genesis
	accepted := map[*refchain.Block]bool{g.Tree.Genesis: true}
	interleave := r.Chance(1, 2)
	blocksFirst := r.Chance(1, 2)
	var pendingBlocks []*refchain.Block
	for _, b := range blocks {
		if s.Failed {
			return
		}
		if blocksFirst && r.Chance(1, 3) {
			// the full block arrives before its header is announced
			s.DeliverBlock(b)
			k.Count("hf.block_before_header", 1)
		}
		s.DeliverHeader(b)
		// best header model: most cumulative work among the headers ProcessBlockHeader accepted, first seen wins ties
		if s.LastHeaderOK && !accepted[b] {
			accepted[b] = true
			if b.CumWork.Cmp(bh.CumWork) > 0 {
				bh = b
			}
		}
		hash, height := c.BestHeader()
		if hash != bh.Hash || height != bh.Height {
			hb := g.Tree.ByHash[hash]
			nm := "?"
			if hb != nil {
				nm = hb.Name
			}
			s.Fail("headers:BestHeader", "after header %s: best header is %s (height %d), model says %s (height %d)", b.Name, nm, height, bh.Name, bh.Height)
			return
		}
		k.Count("hf.best_header_checks", 1)
		if st := s.Status[b]; st != sim.SStored && st != sim.SOrphan {
			pendingBlocks = append(pendingBlocks, b)
		}
		if interleave && len(pendingBlocks) > 0 && r.Chance(1, 3) {
			i := r.Intn(len(pendingBlocks))
			s.DeliverBlock(pendingBlocks[i])
			pendingBlocks = append(pendingBlocks[:i], pendingBlocks[i+1:]...)
		}
	}
	// header views
	path := bh.Path()
	for h := int32(0); h <= bh.Height+1; h++ {
		hh, err := c.HeaderHashByHeight(h)
		if h <= bh.Height {
			if err != nil || *hh != path[h].Hash {
				s.Fail("headers:HeaderHashByHeight", "HeaderHashByHeight(%d) = %v,%v", h, hh, err)
				break
			}
		} else if err == nil {
			s.Fail("headers:HeaderHashByHeight-beyond", "HeaderHashByHeight beyond the best header succeeded")
		}
	}
	for _, b := range g.Tree.All {
		on := bh.Ancestor(b.Height) == b
		got := c.IsValidHeader(&b.Hash)
		if got && !on {
			s.Fail("headers:IsValidHeader", "IsValidHeader(%s) true although not on the best header chain", b.Name)
			break
		}
		if !got && on && b.ChainValid() {
			s.Fail("headers:IsValidHeader", "IsValidHeader(%s) false on the best header chain", b.Name)
			break
		}
	}
	if fh := c.BestChainHeaderForkHeight(); fh != refchain.Fork(s.Tip, bh).Height {
		s.Fail("headers:BestChainHeaderForkHeight", "fork height %d want %d", fh, refchain.Fork(s.Tip, bh).Height)
	}
	if loc, err := c.LatestBlockLocatorByHeader(); err == nil {
		want := refLocator(bh)
		ok := len(loc) == len(want)
		for i := 0; ok && i < len(loc); i++ {
			ok = *loc[i] == want[i]
		}
		if !ok {
			s.Fail("headers:LatestBlockLocatorByHeader", "header locator mismatch")
		}
	}
	// now the blocks, in random order: final chain must equal the blocks-only model tip, UTXO must equal the fold
	for _, i := range r.Perm(len(pendingBlocks)) {
		if s.Failed {
			return
		}
		s.DeliverBlock(pendingBlocks[i])
	}
	for _, b := range blocks { // second pass delivers anything still missing in topological order
		if st := s.Status[b]; st == sim.SUnknown || st == sim.SHeader {
			s.DeliverBlock(b)
		}
	}
	s.CheckUtxo = true
	s.AfterOp("final")
	// headers (and blocks) that extend a branch known to be invalid must be refused, also when only an ancestor further
	// up is the invalid block: invalidate a block a few steps below the tip, offer brand-new children of its descendants,
	// then reconsider and offer them again
	if !s.Failed && s.Tip.Height >= 5 && r.Chance(2, 3) {
		x := s.Tip.Ancestor(s.Tip.Height - int32(2+r.Intn(2)))
		var under []*refchain.Block
		for _, b := range g.Tree.All {
			if b != x && x.IsAncestorOf(b) && b.ChainValid() && s.Status[b] == sim.SStored {
				under = append(under, b)
			}
		}
		s.Invalidate(x)
		var fresh []*refchain.Block
		for i := 0; i < 3 && len(under) > 0 && !s.Failed; i++ {
			y := under[r.Intn(len(under))]
			z := g.Block(r, y, chaingen.BlockOpts{NTx: 0})
			fresh = append(fresh, z)
			if r.Chance(1, 3) {
				s.DeliverBlock(z)
			} else {
				s.DeliverHeader(z)
			}
			k.Count("hf.new_child_of_invalid_ancestor_branch", 1)
		}
		if !s.Failed {
			s.Reconsider(x)
		}
		for _, z := range fresh {
			if !s.Failed && s.Status[z] == sim.SUnknown {
				s.DeliverHeader(z)
			}
		}
		if !s.Failed {
			s.AfterOp("after-invalid-branch-probe")
		}
	}
	k.Count("hf.trees", 1)
	k.Eval(mon.Sig("hf", fam, len(blocks), interleave, s.Tip.Hash.String()[:8], bh.Hash.String()[:8]), true)
	if k.Index < 2 {
		k.Sample(map[string]any{"family": fam, "mode": "headers-first", "blocks": len(blocks), "best_header": bh.Name, "final_tip": s.Tip.Name, "ops": s.Ops})
	}
}

func main() {
	mon.Main("C17", func(c *mon.Ctx) {
		c.Rule("queries: a real chain built from a trunk of 30-1100 (thorough: up to 3000) blocks with 3-12 side branches (some header-only), then 600+ random queries " +
			"(locators, LocateBlocks/Headers with empty/unknown/side-chain/spliced locators and every stop class and max, HeightRange, HeightToHashRange, IntervalBlockHashes, " +
			"membership, ChainTips) each compared with a naive parent-walk answer; headers-first: random trees delivered as headers (best-header view checked after each) then blocks " +
			"in random order; distinct = (family, sizes, final tip)")
		c.Family("queries", c.N(56, 1500), runQueries)
		c.Family("headers-first", c.N(140, 8000), runHeadersFirst)
		// branches stored on top of a block that fails at connect time, a valid way out below it, and manual invalidation
		// above then below on one branch (shared scenario, see sim.ScenarioFan)
		c.Family("fan", c.N(28, 1000), func(k *mon.Case) { sim.ScenarioFan(k, node.FamRegtest) })
		for _, q := range []string{"q.locator", "q.locate_blocks", "q.locate_headers", "q.height_range", "q.height_to_hash_range", "q.interval_hashes"} {
			c.Require(q, 500)
		}
		c.Require("hf.best_header_checks", 500)
		c.Require("hf.new_child_of_invalid_ancestor_branch", 50)
		_ = fmt.Sprint
	})
}
