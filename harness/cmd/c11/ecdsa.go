package main

import (
	"bytes"
	"fmt"
	"math/big"

	"verif/mon"
	"verif/ref/refec"

	"github.com/btcsuite/btcd/btcec/v2"
	"github.com/btcsuite/btcd/btcec/v2/ecdsa"
)

// derAny DER-encodes two non-negative integers of any size (minimal, positive INTEGERs).
func derAny(r, s *big.Int) []byte {
	enc := func(v *big.Int) []byte {
		b := v.Bytes()
		if len(b) == 0 {
			b = []byte{0}
		}
		if b[0]&0x80 != 0 {
			b = append([]byte{0}, b...)
		}
		return append([]byte{0x02, byte(len(b))}, b...)
	}
	body := append(enc(r), enc(s)...)
	return append([]byte{0x30, byte(len(body))}, body...)
}

// btcdECDSAVerifyDER: strict-DER parse then verify; parse failure is a rejection.
func btcdECDSAVerifyDER(pub *btcec.PublicKey, msg, der []byte) (bool, string) {
	sig, err := ecdsa.ParseDERSignature(der)
	if err != nil {
		return false, "parse"
	}
	return sig.Verify(msg, pub), "verify"
}

func famECDSAHonest(k *mon.Case) {
	r := k.Rand
	d, edge := pickScalar(r, 1, 3)
	msg := msg32(r)
	k.Desc(map[string]any{"family": "ecdsa.honest", "d": hx(refec.Bytes32(d)), "msg": hx(msg)})
	priv := privFromInt(d)
	pub := priv.PubKey()
	refP := refec.MulG(d)
	if !samePoint(pub, refP) {
		k.Failf("keys:PrivateKey.PubKey:differs-from-dG", "d=%x btcd=(%x,%x) ref=(%x,%x)", d, pub.X(), pub.Y(), refP.X, refP.Y)
		return
	}
	if !bytes.Equal(priv.Serialize(), refec.Bytes32(d)) {
		k.Failf("keys:PrivateKey.Serialize:roundtrip", "d=%x got %x", d, priv.Serialize())
	}
	g := (&inputGuard{}).priv("private_key", priv).pub("public_key", pub).bytes("hash", msg)
	sig := ecdsa.Sign(priv, msg)
	sr, ss := sig.R(), sig.S()
	ri, si := intFromScalar(&sr), intFromScalar(&ss)
	if !refec.ECDSAVerify(refP, msg, ri, si) {
		k.Failf("ecdsa:Sign:signature-fails-ecdsa-equation", "d=%x msg=%x r=%x s=%x", d, msg, ri, si)
	}
	if !sig.Verify(msg, pub) {
		k.Failf("ecdsa:Verify:rejects-signer-output", "d=%x msg=%x r=%x s=%x", d, msg, ri, si)
	}
	if si.Cmp(halfN) > 0 {
		k.Failf("ecdsa:Sign:high-s", "d=%x msg=%x s=%x", d, msg, si)
	}
	// RFC6979 feeds bits2octets(h) = int(h) mod n into the HMAC; libsecp256k1-style signers (and
	// the decred signer btcd wraps) feed the 32 hash bytes unreduced. The two coincide exactly
	// when int(h) < n, which is where the deterministic signature is compared byte for byte.
	if refec.Int(msg).Cmp(refec.N) < 0 {
		wr, ws := refec.ECDSASignRFC6979(d, msg)
		if wr.Cmp(ri) != 0 || ws.Cmp(si) != 0 {
			k.Failf("ecdsa:Sign:differs-from-rfc6979-low-s", "d=%x msg=%x got (%x,%x) want (%x,%x)", d, msg, ri, si, wr, ws)
		}
		k.Count("ecdsa.sign.rfc6979_exact", 1)
	} else {
		k.Count("ecdsa.sign.hash_ge_n", 1)
	}
	if again := ecdsa.Sign(priv, msg); !again.IsEqual(sig) {
		k.Failf("ecdsa:Sign:not-deterministic", "d=%x msg=%x", d, msg)
	}
	ser := sig.Serialize()
	if !bytes.Equal(ser, refec.EncodeDER(ri, si)) {
		k.Failf("ecdsa:Serialize:not-canonical-der", "r=%x s=%x got %x want %x", ri, si, ser, refec.EncodeDER(ri, si))
	}
	for name, parse := range map[string]func([]byte) (*ecdsa.Signature, error){"ParseDERSignature": ecdsa.ParseDERSignature, "ParseSignature": ecdsa.ParseSignature} {
		buf := exact(ser)
		p, err := parse(buf)
		if err != nil || !p.IsEqual(sig) {
			k.Failf("ecdsa:"+name+":roundtrip", "ser=%x err=%v", ser, err)
		} else if !bytes.Equal(buf, ser) {
			k.Failf("aliasing:ecdsa."+name+":caller-input-modified:signature", "before=%x after=%x", ser, buf)
		} else if scramble(buf); !p.IsEqual(sig) {
			k.Failf("aliasing:ecdsa."+name+":result-retains-caller-slice", "ser=%x", ser)
		}
	}
	if err := ecdsa.VerifyLowS(ser); err != nil {
		k.Failf("ecdsa:VerifyLowS:rejects-signer-output", "ser=%x err=%v", ser, err)
	}
	// the malleated twin (r, n-s) satisfies the ECDSA equation too; a flipped message does not
	hs := new(big.Int).Sub(refec.N, si)
	twin := ecdsa.NewSignature(&sr, scalarFromInt(hs))
	if got, want := twin.Verify(msg, pub), refec.ECDSAVerify(refP, msg, ri, hs); got != want {
		k.Failf("ecdsa:Verify:high-s-twin:btcd-"+b2s(got)+"-oracle-"+b2s(want), "d=%x msg=%x r=%x s=%x", d, msg, ri, hs)
	}
	// (Signature.Serialize normalises to low S by design, so the high-S form is encoded by the reference)
	if hiDER := refec.EncodeDER(ri, hs); ecdsa.VerifyLowS(hiDER) == nil {
		k.Failf("ecdsa:VerifyLowS:accepts-high-s", "der=%x", hiDER)
	}
	bad := flipBit(msg, r)
	if got, want := sig.Verify(bad, pub), refec.ECDSAVerify(refP, bad, ri, si); got != want {
		k.Failf("ecdsa:Verify:msg-bitflip:btcd-"+b2s(got)+"-oracle-"+b2s(want), "d=%x msg=%x r=%x s=%x", d, bad, ri, si)
	}
	// compact signatures recover the signer's key
	comp := r.Bool()
	cs := ecdsa.SignCompact(priv, msg, comp)
	rec, wasComp, err := ecdsa.RecoverCompact(cs, msg)
	if err != nil || wasComp != comp || !samePoint(rec, refP) {
		k.Failf("ecdsa:RecoverCompact:does-not-recover-signer", "d=%x msg=%x compact=%x err=%v", d, msg, cs, err)
	} else if len(cs) == 65 && !refec.ECDSAVerify(refP, msg, refec.Int(cs[1:33]), refec.Int(cs[33:])) {
		k.Failf("ecdsa:SignCompact:signature-fails-ecdsa-equation", "d=%x msg=%x compact=%x", d, msg, cs)
	}
	if !bytes.Equal(sig.Serialize(), ser) || !sig.Verify(msg, pub) {
		k.Failf("ecdsa:Signature:not-idempotent", "second Serialize/Verify of the same signature object differs: ser=%x", ser)
	}
	g.check(k, "ecdsa.Sign/Verify/SignCompact")
	k.Count("ecdsa.sign", 1)
	if edge {
		k.Count("ecdsa.sign.edgekey", 1)
	}
	k.Eval(mon.Sig("ecdsa.honest", edge, len(ser), hx(ser[4:10])), true)
	k.Sample(map[string]any{"family": "ecdsa.honest", "pub": hx(refP.Compressed()), "msg": hx(msg), "sig": hx(ser)})
}

// randomPoint returns a curve point; half of the time one whose discrete log nobody knows.
func randomPoint(r *mon.Rand) (refec.Point, string) {
	if r.Bool() {
		d, edge := pickScalar(r, 1, 2)
		if edge {
			return refec.MulG(d), "edge"
		}
		return refec.MulG(d), "known"
	}
	for {
		if p, ok := refec.Decompress(refec.Int(r.Bytes(32)), r.Bool()); ok {
			return p, "lifted"
		}
	}
}

// algebraicTriple builds (m, r, s) valid for P without a private key: pick u1, u2, let
// R = u1*G + u2*P, r = R.x mod n, s = r/u2, e = u1*s.
func algebraicTriple(r *mon.Rand, P refec.Point) (msg []byte, ri, si *big.Int, cls string) {
	for {
		u1, e1 := pickScalar(r, 1, 3)
		if r.Chance(1, 20) {
			u1 = new(big.Int) // e = 0: the all-zero message
		}
		u2, e2 := pickScalar(r, 1, 3)
		R := refec.Add(refec.MulG(u1), refec.Mul(u2, P))
		if R.Inf {
			continue
		}
		ri = new(big.Int).Mod(R.X, refec.N)
		if ri.Sign() == 0 {
			continue
		}
		si = new(big.Int).Mul(ri, new(big.Int).ModInverse(u2, refec.N))
		si.Mod(si, refec.N)
		e := new(big.Int).Mul(u1, si)
		e.Mod(e, refec.N)
		cls = fmt.Sprintf("u1edge=%v,u2edge=%v", e1, e2)
		// the same e is also represented by e+n when that still fits 256 bits
		if en := new(big.Int).Add(e, refec.N); en.Cmp(two256) < 0 && r.Bool() {
			e = en
			cls += ",m>=n"
		}
		return refec.Bytes32(e), ri, si, cls
	}
}

func famECDSAAlgebraic(k *mon.Case) {
	r := k.Rand
	P, pcls := randomPoint(r)
	msg, ri, si, cls := algebraicTriple(r, P)
	k.Desc(map[string]any{"family": "ecdsa.algebraic", "pub": hx(P.Uncompressed()), "msg": hx(msg), "r": hx(refec.Bytes32(ri)), "s": hx(refec.Bytes32(si))})
	type variant struct {
		name string
		P    refec.Point
		msg  []byte
		r, s *big.Int
	}
	addN := func(v *big.Int, d int64) *big.Int {
		return new(big.Int).Mod(new(big.Int).Add(v, big.NewInt(d)), refec.N)
	}
	vs := []variant{{"valid", P, msg, ri, si}}
	all := []func() variant{
		func() variant { return variant{"high-low-s-twin", P, msg, ri, new(big.Int).Sub(refec.N, si)} },
		func() variant { return variant{"s-plus-1", P, msg, ri, addN(si, 1)} },
		func() variant { return variant{"r-plus-1", P, msg, addN(ri, 1), si} },
		func() variant { return variant{"r-s-swapped", P, msg, si, ri} },
		func() variant { return variant{"msg-bitflip", P, flipBit(msg, r), ri, si} },
		func() variant { return variant{"negated-key", refec.Neg(P), msg, ri, si} },
		func() variant { o, _ := randomPoint(r); return variant{"other-key", o, msg, ri, si} },
		func() variant {
			return variant{"negated-key-and-s", refec.Neg(P), msg, ri, new(big.Int).Sub(refec.N, si)}
		},
		func() variant { return variant{"r-zero", P, msg, new(big.Int), si} },
		func() variant { return variant{"s-zero", P, msg, ri, new(big.Int)} },
	}
	for _, i := range r.Perm(len(all))[:3] {
		vs = append(vs, all[i]())
	}
	for _, v := range vs {
		want := refec.ECDSAVerify(v.P, v.msg, v.r, v.s)
		pub := pubFromPoint(v.P)
		// route 1: signature object built from scalars (admits zero)
		sigObj := ecdsa.NewSignature(scalarFromInt(v.r), scalarFromInt(v.s))
		g := (&inputGuard{}).pub("public_key", pub).bytes("hash", v.msg)
		got := sigObj.Verify(v.msg, pub)
		if again := sigObj.Verify(v.msg, pub); again != got {
			k.Failf("ecdsa:Verify:not-idempotent", "pub=%x msg=%x r=%x s=%x first=%v second=%v", v.P.Uncompressed(), v.msg, v.r, v.s, got, again)
		}
		g.check(k, "ecdsa.Verify")
		if got != want {
			k.Failf(fmt.Sprintf("ecdsa:Verify:%s:btcd-%s-oracle-%s", v.name, b2s(got), b2s(want)),
				"pub=%x msg=%x r=%x s=%x", v.P.Uncompressed(), v.msg, v.r, v.s)
		}
		// route 2: through the DER parser
		der := derAny(v.r, v.s)
		got2, stage := btcdECDSAVerifyDER(pub, v.msg, der)
		if got2 != want {
			k.Failf(fmt.Sprintf("ecdsa:ParseDER+Verify:%s:btcd-%s-oracle-%s", v.name, b2s(got2), b2s(want)),
				"pub=%x msg=%x der=%x stage=%s", v.P.Uncompressed(), v.msg, der, stage)
		}
		if v.name == "valid" && !want {
			k.Failf("calibration:refec:algebraic-triple-invalid", "pub=%x msg=%x r=%x s=%x", v.P.Uncompressed(), v.msg, v.r, v.s)
		}
		k.Count("ecdsa.verify."+b2s(want), 1)
		k.Count("ecdsa.verify.variant."+v.name, 1)
		k.Eval(mon.Sig("ecdsa.algebraic", v.name, pcls, cls, want, hx(refec.Bytes32(v.r)[:4])), true)
	}
	k.Count("ecdsa.algebraic.key."+pcls, 1)
}

// famECDSABoundary: r and s on the range boundaries, through both parsers and Verify.
func famECDSABoundary(k *mon.Case) {
	r := k.Rand
	P, _ := randomPoint(r)
	msg, ri, si, _ := algebraicTriple(r, P)
	over := func() *big.Int { // 257..264-bit values
		return new(big.Int).Add(two256, refec.Int(r.Bytes(1+r.Intn(2))))
	}
	pickV := func(cur *big.Int) *big.Int {
		switch r.Intn(8) {
		case 0:
			return cur
		case 1:
			return over()
		case 2: // cur + n: the same residue, out of range
			return new(big.Int).Add(cur, refec.N)
		default:
			return pickEdge256(r, scalarEdges)
		}
	}
	rv, sv := pickV(ri), pickV(si)
	der := derAny(rv, sv)
	k.Desc(map[string]any{"family": "ecdsa.boundary", "pub": hx(P.Uncompressed()), "msg": hx(msg), "der": hx(der)})
	inRange := refec.ScalarInRange(rv) && refec.ScalarInRange(sv)
	pub := pubFromPoint(P)
	for name, parse := range map[string]func([]byte) (*ecdsa.Signature, error){"ParseDERSignature": ecdsa.ParseDERSignature, "ParseSignature": ecdsa.ParseSignature} {
		sig, err := parse(der)
		if (err == nil) != inRange {
			k.Failf(fmt.Sprintf("ecdsa:%s:range:btcd-%s-spec-%s", name, b2s(err == nil), b2s(inRange)), "der=%x r=%x s=%x err=%v", der, rv, sv, err)
			continue
		}
		if err != nil {
			continue
		}
		pr, ps := sig.R(), sig.S()
		if intFromScalar(&pr).Cmp(rv) != 0 || intFromScalar(&ps).Cmp(sv) != 0 {
			k.Failf("ecdsa:"+name+":value-changed", "der=%x parsed r=%x s=%x", der, intFromScalar(&pr), intFromScalar(&ps))
		}
		want := refec.ECDSAVerify(P, msg, rv, sv)
		if got := sig.Verify(msg, pub); got != want {
			k.Failf(fmt.Sprintf("ecdsa:Verify:boundary:btcd-%s-oracle-%s", b2s(got), b2s(want)), "pub=%x msg=%x r=%x s=%x", P.Uncompressed(), msg, rv, sv)
		}
		k.Count("ecdsa.verify."+b2s(want), 1)
	}
	k.Count("ecdsa.boundary", 1)
	k.Count("ecdsa.boundary.inrange."+b2s(inRange), 1)
	k.Eval(mon.Sig("ecdsa.boundary", inRange, hx(der)), true)
}

// famECDSARandom: unrelated random (key, message, r, s); the oracle decides (virtually always reject).
func famECDSARandom(k *mon.Case) {
	r := k.Rand
	P, _ := randomPoint(r)
	msg := msg32(r)
	rv, _ := pickScalar(r, 1, 4)
	sv, _ := pickScalar(r, 1, 4)
	k.Desc(map[string]any{"family": "ecdsa.random", "pub": hx(P.Uncompressed()), "msg": hx(msg), "r": hx(refec.Bytes32(rv)), "s": hx(refec.Bytes32(sv))})
	want := refec.ECDSAVerify(P, msg, rv, sv)
	got := ecdsa.NewSignature(scalarFromInt(rv), scalarFromInt(sv)).Verify(msg, pubFromPoint(P))
	if got != want {
		k.Failf(fmt.Sprintf("ecdsa:Verify:random:btcd-%s-oracle-%s", b2s(got), b2s(want)), "pub=%x msg=%x r=%x s=%x", P.Uncompressed(), msg, rv, sv)
	}
	k.Count("ecdsa.verify."+b2s(want), 1)
	k.Count("ecdsa.random", 1)
	k.Eval(mon.Sig("ecdsa.random", want, hx(refec.Bytes32(rv)[:6])), true)
}
