package main

import (
	"bytes"
	"fmt"
	"math/big"

	"verif/mon"
	"verif/ref/refec"

	"github.com/btcsuite/btcd/btcec/v2/ecdsa"
)

// derParts is an editable model of "30 L 02 lr R 02 ls S tail".
type derParts struct {
	seqTag, seqLen []byte // seqLen may be long-form
	rTag, rLen, r  []byte
	sTag, sLen, s  []byte
	tail           []byte
}

func (p *derParts) bytes() []byte {
	var b []byte
	for _, x := range [][]byte{p.seqTag, p.seqLen, p.rTag, p.rLen, p.r, p.sTag, p.sLen, p.s, p.tail} {
		b = append(b, x...)
	}
	return b
}

// fix recomputes the short-form lengths so that the structure is consistent again.
func (p *derParts) fix() {
	p.rLen = []byte{byte(len(p.r))}
	p.sLen = []byte{byte(len(p.s))}
	p.seqLen = []byte{byte(len(p.rTag) + len(p.rLen) + len(p.r) + len(p.sTag) + len(p.sLen) + len(p.s))}
}

func derIntBytes(v *big.Int) []byte {
	b := v.Bytes()
	if len(b) == 0 {
		b = []byte{0}
	}
	if b[0]&0x80 != 0 {
		b = append([]byte{0}, b...)
	}
	return b
}

func newDerParts(rv, sv *big.Int) *derParts {
	p := &derParts{seqTag: []byte{0x30}, rTag: []byte{2}, sTag: []byte{2}, r: derIntBytes(rv), s: derIntBytes(sv)}
	p.fix()
	return p
}

// genDerValue picks integer magnitudes of every byte length 1..33 with either top bit.
func genDerValue(r *mon.Rand) *big.Int {
	switch r.Intn(10) {
	case 0:
		return pickEdge256(r, scalarEdges)
	case 1:
		return big.NewInt(int64(r.Intn(256)))
	case 2:
		return randScalar(r)
	}
	n := 1 + r.Intn(32)
	b := r.Bytes(n)
	if r.Bool() {
		b[0] |= 0x80
	} else {
		b[0] &= 0x7f
	}
	return refec.Int(b)
}

var derMutations = []string{"seqlen", "seqlen-long", "rlen", "slen", "intlen-long", "tag", "pad-r", "pad-s", "unpad", "negative",
	"trail", "trail-counted", "truncate", "insert", "empty-int", "byteflip", "big-r", "big-s", "drop-s", "long-pad", "long-tail", "long-seqlen"}

// mutateDer applies one named structural mutation.
func mutateDer(r *mon.Rand, p *derParts, m string) {
	longForm := func(l int) []byte {
		switch r.Intn(3) {
		case 0:
			return []byte{0x81, byte(l)}
		case 1:
			return []byte{0x82, 0x00, byte(l)}
		default:
			return []byte{0x80 | byte(1+r.Intn(4))} // long form announced, bytes missing/misaligned
		}
	}
	which := r.Bool()
	switch m {
	case "seqlen":
		p.seqLen = []byte{byte(int(p.seqLen[0]) + []int{-2, -1, 1, 2, 127, 128, 200}[r.Intn(7)])}
	case "seqlen-long":
		p.seqLen = longForm(int(p.seqLen[0]))
	case "rlen":
		p.rLen = []byte{byte(int(p.rLen[0]) + []int{-1, 1, 2, 128}[r.Intn(4)])}
	case "slen":
		if len(p.sLen) == 0 {
			return
		}
		p.sLen = []byte{byte(int(p.sLen[0]) + []int{-1, 1, 2, 128}[r.Intn(4)])}
	case "intlen-long":
		if which {
			p.rLen = longForm(len(p.r))
		} else {
			p.sLen = longForm(len(p.s))
		}
		if r.Bool() { // keep the sequence length consistent with the longer header
			p.seqLen = []byte{byte(len(p.rTag) + len(p.rLen) + len(p.r) + len(p.sTag) + len(p.sLen) + len(p.s))}
		}
	case "tag":
		t := []byte{[]byte{0x00, 0x03, 0x82, 0x22, 0x31, 0x10, 0xb0}[r.Intn(7)]}
		switch r.Intn(3) {
		case 0:
			p.seqTag = t
		case 1:
			p.rTag = t
		default:
			p.sTag = t
		}
	case "pad-r":
		p.r = append(make([]byte, 1+r.Intn(3)), p.r...)
		p.fix()
	case "pad-s":
		p.s = append(make([]byte, 1+r.Intn(3)), p.s...)
		p.fix()
	case "unpad": // drop a needed 0x00 (value becomes "negative") or the first byte
		if which && len(p.r) > 1 {
			p.r = p.r[1:]
		} else if len(p.s) > 1 {
			p.s = p.s[1:]
		}
		p.fix()
	case "negative":
		if which && len(p.r) > 0 {
			p.r[0] |= 0x80
		} else if len(p.s) > 0 {
			p.s[0] |= 0x80
		}
	case "trail": // bytes after the sequence (a sighash-type byte is the usual one)
		p.tail = append(p.tail, []byte{0x01, 0x81, 0x00, 0xff}[r.Intn(4)])
		for r.Chance(1, 3) {
			p.tail = append(p.tail, byte(r.Intn(256)))
		}
	case "trail-counted": // extra bytes inside the announced sequence length
		p.tail = append(p.tail, r.Bytes(1+r.Intn(3))...)
		p.seqLen = []byte{byte(int(p.seqLen[0]) + len(p.tail))}
	case "empty-int":
		if which {
			p.r = nil
		} else {
			p.s = nil
		}
		p.fix()
	case "big-r":
		p.r = derIntBytes([]*big.Int{refec.N, new(big.Int).Add(refec.N, bigOne), two256, new(big.Int), maxU256, nMinus1}[r.Intn(6)])
		p.fix()
	case "big-s":
		p.s = derIntBytes([]*big.Int{refec.N, new(big.Int).Add(refec.N, bigOne), two256, new(big.Int), maxU256, nMinus1}[r.Intn(6)])
		p.fix()
	case "long-pad": // BER zero padding far beyond any sensible size (a script push may carry up to 520 bytes)
		n := []int{100, 120, 126, 127, 128, 200, 250}[r.Intn(7)]
		if which {
			p.r = append(make([]byte, n), p.r...)
		} else {
			p.s = append(make([]byte, n), p.s...)
		}
		enc := func(l int) []byte {
			if l < 128 {
				return []byte{byte(l)}
			}
			if l < 256 {
				return []byte{0x81, byte(l)}
			}
			return []byte{0x82, byte(l >> 8), byte(l)}
		}
		p.rLen, p.sLen = enc(len(p.r)), enc(len(p.s))
		p.seqLen = enc(len(p.rTag) + len(p.rLen) + len(p.r) + len(p.sTag) + len(p.sLen) + len(p.s))
	case "long-tail": // hundreds of bytes after the signature
		p.tail = append(p.tail, r.Bytes([]int{180, 250, 253, 254, 255, 256, 300, 450}[r.Intn(8)])...)
		if r.Bool() {
			p.seqLen = []byte{byte(len(p.bytes()) - 2)} // counted in the (wrapping) one-byte sequence length
		}
	case "long-seqlen": // a one-byte sequence length near 255 with enough bytes behind it
		p.seqLen = []byte{[]byte{0x7f, 0xfd, 0xfe, 0xff}[r.Intn(4)]}
		for len(p.bytes()) < int(p.seqLen[0])+2+r.Intn(3) {
			p.tail = append(p.tail, byte(r.Intn(256)))
		}
	case "drop-s":
		p.sTag, p.sLen, p.s = nil, nil, nil
		if r.Bool() {
			p.seqLen = []byte{byte(len(p.rTag) + len(p.rLen) + len(p.r))}
		}
	}
}

// highLengthByte reports whether one of the three length bytes a short-form-only reader looks at is >= 0x80.
func highLengthByte(raw []byte) bool {
	if len(raw) < 4 {
		return false
	}
	if raw[1] >= 0x80 || raw[3] >= 0x80 {
		return true
	}
	sl := 4 + int(raw[3]) + 1
	return sl < len(raw) && raw[sl] >= 0x80
}

func famDerGrammar(k *mon.Case) {
	r := k.Rand
	p := newDerParts(genDerValue(r), genDerValue(r))
	nm := []int{0, 1, 1, 1, 2, 2, 3}[r.Intn(7)]
	var muts []string
	var raw []byte
	for i := 0; i < nm; i++ {
		m := derMutations[r.Intn(len(derMutations))]
		muts = append(muts, m)
		switch m {
		case "truncate", "insert", "byteflip": // byte-level mutations end the structured phase
			raw = p.bytes()
			switch m {
			case "truncate":
				raw = raw[:r.Intn(len(raw)+1)]
			case "insert":
				j := r.Intn(len(raw) + 1)
				raw = append(raw[:j:j], append([]byte{byte(r.Intn(256))}, raw[j:]...)...)
			case "byteflip":
				if len(raw) > 0 {
					raw = flipBit(raw, r)
				}
			}
			i = nm
		default:
			mutateDer(r, p, m)
		}
	}
	if raw == nil {
		raw = p.bytes()
	}
	k.Desc(map[string]any{"family": "der.grammar", "sig": hx(raw), "mutations": muts})

	sr, ss, sok := refec.ParseDERStrict(raw)
	strict := sok && refec.ScalarInRange(sr) && refec.ScalarInRange(ss)
	lr, ls, lok := refec.ParseDERLax(raw)
	lax := lok && refec.ScalarInRange(lr) && refec.ScalarInRange(ls)
	if strict && !(lax && lr.Cmp(sr) == 0 && ls.Cmp(ss) == 0) {
		k.Failf("calibration:refec:strict-not-subset-of-lax", "sig=%x", raw)
	}
	// class of a non-canonical input that is a canonical signature followed by extra bytes
	trailing := false
	if !strict && len(raw) >= 2 && int(raw[1])+2 < len(raw) {
		pr, ps, ok := refec.ParseDERStrict(raw[:int(raw[1])+2])
		trailing = ok && refec.ScalarInRange(pr) && refec.ScalarInRange(ps)
	}
	cls := "noncanonical"
	if trailing {
		cls = "trailing-bytes"
	}

	same := func(sig *ecdsa.Signature, a, b *big.Int) bool {
		pr, ps := sig.R(), sig.S()
		return intFromScalar(&pr).Cmp(a) == 0 && intFromScalar(&ps).Cmp(b) == 0
	}
	// strict parser: accept exactly the BIP66 encodings with r, s in [1, n-1]
	// every parser gets its own copy of the input: it must leave it alone, and the signature it
	// returns must not depend on the caller's buffer afterwards (the buffers are scrambled before
	// the values are compared below)
	bufD, bufL, bufB := exact(raw), exact(raw), exact(raw)
	dsig, derr := ecdsa.ParseDERSignature(bufD)
	lerr := ecdsa.VerifyLowS(bufL)
	bsig, berr := ecdsa.ParseSignature(bufB)
	for name, b := range map[string][]byte{"ParseDERSignature": bufD, "VerifyLowS": bufL, "ParseSignature": bufB} {
		if !bytes.Equal(b, raw) {
			k.Failf("aliasing:ecdsa."+name+":caller-input-modified:signature", "before=%x after=%x", raw, b)
		}
		scramble(b)
	}
	if d2, err2 := ecdsa.ParseDERSignature(raw); (err2 == nil) != (derr == nil) || (derr == nil && !d2.IsEqual(dsig)) {
		k.Failf("der:ParseDERSignature:not-idempotent", "sig=%x", raw)
	}
	switch {
	case derr == nil && !strict:
		k.Failf("der:ParseDERSignature:accepts-"+cls, "sig=%x mutations=%v", raw, muts)
	case derr != nil && strict:
		k.Failf("der:ParseDERSignature:rejects-canonical", "sig=%x err=%v", raw, derr)
	case derr == nil && !same(dsig, sr, ss):
		k.Failf("der:ParseDERSignature:wrong-values", "sig=%x", raw)
	}
	// VerifyLowS = strict DER and s <= n/2
	lowS := strict && ss.Cmp(halfN) <= 0
	if (lerr == nil) != lowS {
		if lerr == nil {
			k.Failf("der:VerifyLowS:accepts-"+map[bool]string{true: "high-s", false: cls}[strict], "sig=%x", raw)
		} else {
			k.Failf("der:VerifyLowS:rejects-canonical-low-s", "sig=%x err=%v", raw, lerr)
		}
	}
	// lax parser: must contain the strict language, and whatever it admits must carry the
	// integers that Bitcoin Core's lax parser reads (then verification is on the right values)
	switch {
	case berr != nil && strict:
		k.Failf("der:ParseSignature:rejects-canonical", "sig=%x err=%v", raw, berr)
	case berr == nil && !lax && highLengthByte(raw):
		// a length byte >= 0x80 means "long form" to Bitcoin Core's lax parser and a plain length to btcd's, which has
		// no long form: outside the short-form domain the two languages differ by design and the property does not
		// fix the lax language ("for every encoding the parsers admit"); counted, not judged
		k.Count("der.lax.admitted_by_btcd_only(length byte >= 0x80)", 1)
	case berr == nil && !lax:
		k.Failf("der:ParseSignature:accepts-outside-lax-grammar", "sig=%x mutations=%v", raw, muts)
	case berr == nil && !same(bsig, lr, ls):
		br, bs := bsig.R(), bsig.S()
		k.Failf("der:ParseSignature:values-differ-from-lax-grammar", "sig=%x btcd r=%x s=%x lax r=%x s=%x", raw, intFromScalar(&br), intFromScalar(&bs), lr, ls)
	}
	if berr != nil && lax {
		k.Count("der.lax.admitted_by_core_only", 1) // tolerated gap, not part of the property
	}
	k.Count("der.cases", 1)
	k.Count("der.strict."+b2s(strict), 1)
	k.Count("der.lax."+b2s(lax), 1)
	k.Count("der.btcd_lax."+b2s(berr == nil), 1)
	for _, m := range muts {
		k.Count("der.mut."+m, 1)
	}
	if trailing {
		k.Count("der.trailing_class", 1)
	}
	k.Eval(mon.Sig("der", fmt.Sprint(muts), strict, lax, berr == nil, derr == nil, len(raw)), nm > 0)
}
