package main

import (
	"bufio"
	"bytes"
	"crypto/sha256"
	"encoding/json"
	"fmt"
	"math/big"
	"os"
	"strings"

	"verif/mon"
	"verif/ref/refec"
	"verif/ref/refmusig"
)

// A calCase checks the reference models (never btcd) against one published vector.
type calCase struct {
	name string
	run  func() error
}

func readJSON(rel string, v any) error {
	b, err := os.ReadFile(verifHome() + "/vectors/" + rel)
	if err != nil {
		return err
	}
	return json.Unmarshal(b, v)
}

func pick(all []string, idx []int) [][]byte {
	out := make([][]byte, len(idx))
	for i, j := range idx {
		out[i] = unhex(all[j])
	}
	return out
}

func expectEq(what string, got, want []byte) error {
	if !bytes.Equal(got, want) {
		return fmt.Errorf("%s: got %x want %x", what, got, want)
	}
	return nil
}

func calCurve() []calCase {
	a, _ := new(big.Int).SetString("deadbeefcafebabe0123456789abcdef00112233445566778899aabbccddeeff", 16)
	b := big.NewInt(0x1234567)
	return []calCase{
		{"order", func() error {
			if !refec.Mul(refec.N, refec.G()).Inf || refec.MulG(nMinus1).X.Cmp(refec.G().X) != 0 {
				return fmt.Errorf("n*G != infinity or (n-1)G != -G")
			}
			return nil
		}},
		{"distributive", func() error {
			l := refec.Add(refec.MulG(a), refec.MulG(b))
			if !refec.Equal(l, refec.MulG(new(big.Int).Add(a, b))) || !refec.OnCurve(l.X, l.Y) {
				return fmt.Errorf("aG+bG != (a+b)G")
			}
			if !refec.Equal(refec.Mul(a, refec.MulG(b)), refec.Mul(b, refec.MulG(a))) {
				return fmt.Errorf("a(bG) != b(aG)")
			}
			if !refec.Add(l, refec.Neg(l)).Inf || !refec.Equal(refec.Add(l, l), refec.Double(l)) {
				return fmt.Errorf("inverse/doubling law")
			}
			return nil
		}},
		{"2G", func() error {
			// SEC2 / widely published value of 2G.x
			want, _ := new(big.Int).SetString("C6047F9441ED7D6D3045406E95C07CD85C778E4B8CEF3CA7ABAC09B95C709EE5", 16)
			if refec.Double(refec.G()).X.Cmp(want) != 0 {
				return fmt.Errorf("2G.x mismatch")
			}
			return nil
		}},
	}
}

func calBIP340() ([]calCase, error) {
	f, err := os.Open(verifHome() + "/vectors/bip340/test-vectors.csv")
	if err != nil {
		return nil, err
	}
	defer f.Close()
	var out []calCase
	sc := bufio.NewScanner(f)
	sc.Scan() // header
	for sc.Scan() {
		c := strings.Split(strings.TrimSpace(sc.Text()), ",")
		if len(c) < 8 {
			continue
		}
		out = append(out, calCase{"vector" + c[0], func() error {
			sk, pk, aux, msg, sig := unhex(c[1]), unhex(c[2]), unhex(c[3]), unhex(c[4]), unhex(c[5])
			if got, want := refec.SchnorrVerify(pk, msg, sig), c[6] == "TRUE"; got != want {
				return fmt.Errorf("verify got %v want %v", got, want)
			}
			// rows flagged rfc6979 are btcd's own deterministic-nonce signatures, not BIP340 signer output
			if len(sk) == 32 && c[7] != "TRUE" {
				s, err := refec.SchnorrSign(sk, msg, aux)
				if err != nil {
					return err
				}
				if err := expectEq("signature", s, sig); err != nil {
					return err
				}
				if !bytes.Equal(refec.MulG(refec.Int(sk)).XOnly(), pk) {
					return fmt.Errorf("public key of sk mismatch")
				}
			}
			return nil
		}})
	}
	if len(out) < 14 {
		return nil, fmt.Errorf("only %d BIP340 vectors found", len(out))
	}
	return out, nil
}

func calECDSA() ([]calCase, error) {
	var rfc []struct{ Key, Msg, Nonce, Signature string }
	if err := readJSON("ecdsa/rfc6979.json", &rfc); err != nil {
		return nil, err
	}
	var der []struct {
		Name, Sig  string
		Der, Valid bool
	}
	if err := readJSON("ecdsa/der_signatures.json", &der); err != nil {
		return nil, err
	}
	var out []calCase
	for i, v := range rfc {
		v := v
		out = append(out, calCase{fmt.Sprintf("rfc6979-%d", i), func() error {
			d := refec.Int(unhex(v.Key))
			h := sha256.Sum256([]byte(v.Msg))
			if err := expectEq("nonce", refec.Bytes32(refec.RFC6979Nonce(d, h[:], 0)), unhex(v.Nonce)); err != nil {
				return err
			}
			r, s := refec.ECDSASignRFC6979(d, h[:])
			if err := expectEq("signature", refec.EncodeDER(r, s), unhex(v.Signature)); err != nil {
				return err
			}
			pr, ps, ok := refec.ParseDERStrict(unhex(v.Signature))
			if !ok || !refec.ECDSAVerify(refec.MulG(d), h[:], pr, ps) {
				return fmt.Errorf("published signature does not parse/verify under the reference")
			}
			if refec.ECDSAVerify(refec.MulG(d), h[:], pr, new(big.Int).Add(ps, bigOne)) {
				return fmt.Errorf("s+1 verifies")
			}
			return nil
		}})
	}
	if len(rfc) < 6 || len(der) < 20 {
		return nil, fmt.Errorf("too few ECDSA vectors (%d, %d)", len(rfc), len(der))
	}
	for i, v := range der {
		v := v
		out = append(out, calCase{fmt.Sprintf("der-%d", i), func() error {
			sig := unhex(v.Sig)
			r, s, ok := refec.ParseDERStrict(sig)
			strict := ok && refec.ScalarInRange(r) && refec.ScalarInRange(s)
			lr, ls, lok := refec.ParseDERLax(sig)
			lax := lok && refec.ScalarInRange(lr) && refec.ScalarInRange(ls)
			if strict && !(lax && lr.Cmp(r) == 0 && ls.Cmp(s) == 0) {
				return fmt.Errorf("%q: strict accepts but lax disagrees", v.Name)
			}
			want := v.Valid
			if v.Der {
				// btcd's table expects its DER parser to ignore bytes after the SEQUENCE; BIP66
				// (sig[1] == len-2 without the hashtype byte) does not admit them.
				if strings.HasPrefix(v.Name, "trailing crap") {
					want = false
				}
				if strict != want {
					return fmt.Errorf("%q: strict grammar says %v, vector %v", v.Name, strict, want)
				}
			} else if v.Valid && !lax {
				// everything the table expects a BER parser to accept must be inside Core's lax grammar
				return fmt.Errorf("%q: expected valid but outside the lax grammar", v.Name)
			}
			return nil
		}})
	}
	return out, nil
}

type musigErr struct {
	Type, Contrib, Message string
	Signer                 *int
}

func calMusig() ([]calCase, error) {
	var out []calCase
	add := func(name string, f func() error) { out = append(out, calCase{name, f}) }

	var ks struct {
		Pubkeys       []string
		SortedPubkeys []string `json:"sorted_pubkeys"`
	}
	if err := readJSON("bip327/key_sort_vectors.json", &ks); err != nil {
		return nil, err
	}
	add("key_sort", func() error {
		got := refmusig.KeySort(pick(ks.Pubkeys, seq(len(ks.Pubkeys))))
		for i := range got {
			if err := expectEq("sorted key", got[i], unhex(ks.SortedPubkeys[i])); err != nil {
				return err
			}
		}
		return nil
	})

	var ka struct {
		Pubkeys, Tweaks []string
		Valid           []struct {
			KeyIndices []int `json:"key_indices"`
			Expected   string
		} `json:"valid_test_cases"`
		Errors []struct {
			KeyIndices   []int  `json:"key_indices"`
			TweakIndices []int  `json:"tweak_indices"`
			IsXOnly      []bool `json:"is_xonly"`
			Error        musigErr
		} `json:"error_test_cases"`
	}
	if err := readJSON("bip327/key_agg_vectors.json", &ka); err != nil {
		return nil, err
	}
	for i, v := range ka.Valid {
		v := v
		add(fmt.Sprintf("key_agg-valid-%d", i), func() error {
			c, err := refmusig.KeyAgg(pick(ka.Pubkeys, v.KeyIndices))
			if err != nil {
				return err
			}
			return expectEq("aggregate key", c.Q.XOnly(), unhex(v.Expected))
		})
	}
	for i, v := range ka.Errors {
		v := v
		add(fmt.Sprintf("key_agg-error-%d", i), func() error {
			_, err := refmusig.KeyAggTweaked(pick(ka.Pubkeys, v.KeyIndices), pick(ka.Tweaks, v.TweakIndices), v.IsXOnly)
			if err == nil {
				return fmt.Errorf("expected an error (%s %s)", v.Error.Type, v.Error.Message)
			}
			if v.Error.Signer != nil && !strings.Contains(err.Error(), fmt.Sprintf("signer %d", *v.Error.Signer)) {
				return fmt.Errorf("wrong signer blamed: %v", err)
			}
			return nil
		})
	}

	var ng struct {
		Cases []struct {
			Rand     string  `json:"rand_"`
			Sk       *string `json:"sk"`
			Pk       string
			Aggpk    *string
			Msg      *string
			ExtraIn  *string `json:"extra_in"`
			Expected string
		} `json:"test_cases"`
	}
	if err := readJSON("bip327/nonce_gen_vectors.json", &ng); err != nil {
		return nil, err
	}
	opt := func(s *string) []byte {
		if s == nil {
			return nil
		}
		b := unhex(*s)
		if b == nil {
			b = []byte{}
		}
		return b
	}
	for i, v := range ng.Cases {
		v := v
		add(fmt.Sprintf("nonce_gen-%d", i), func() error {
			sec, pub, err := refmusig.NonceGen(unhex(v.Rand), opt(v.Sk), unhex(v.Pk), opt(v.Aggpk), opt(v.Msg), opt(v.ExtraIn))
			if err != nil {
				return err
			}
			want := unhex(v.Expected)
			if err := expectEq("secnonce", sec, want[:97]); err != nil {
				return err
			}
			if len(want) >= 97+66 {
				return expectEq("pubnonce", pub, want[97:97+66])
			}
			return nil
		})
	}

	var na struct {
		Pnonces []string
		Valid   []struct {
			Idx      []int `json:"pnonce_indices"`
			Expected string
		} `json:"valid_test_cases"`
		Errors []struct {
			Idx   []int `json:"pnonce_indices"`
			Error musigErr
		} `json:"error_test_cases"`
	}
	if err := readJSON("bip327/nonce_agg_vectors.json", &na); err != nil {
		return nil, err
	}
	for i, v := range na.Valid {
		v := v
		add(fmt.Sprintf("nonce_agg-valid-%d", i), func() error {
			got, err := refmusig.NonceAgg(pick(na.Pnonces, v.Idx))
			if err != nil {
				return err
			}
			return expectEq("aggnonce", got, unhex(v.Expected))
		})
	}
	for i, v := range na.Errors {
		v := v
		add(fmt.Sprintf("nonce_agg-error-%d", i), func() error {
			_, err := refmusig.NonceAgg(pick(na.Pnonces, v.Idx))
			ne, ok := err.(*refmusig.NonceAggError)
			if !ok || v.Error.Signer == nil || ne.Signer != *v.Error.Signer {
				return fmt.Errorf("expected invalid contribution of signer %v, got %v", v.Error.Signer, err)
			}
			return nil
		})
	}

	var sv struct {
		Sk                 string
		Pubkeys, Secnonces []string
		Pnonces, Aggnonces []string
		Msgs               []string
		Valid              []svCase `json:"valid_test_cases"`
		SignErrors         []svCase `json:"sign_error_test_cases"`
		VerifyFail         []svCase `json:"verify_fail_test_cases"`
		VerifyErrors       []svCase `json:"verify_error_test_cases"`
	}
	if err := readJSON("bip327/sign_verify_vectors.json", &sv); err != nil {
		return nil, err
	}
	for i, v := range sv.Valid {
		v := v
		add(fmt.Sprintf("sign_verify-valid-%d", i), func() error {
			pks, pns := pick(sv.Pubkeys, v.KeyIndices), pick(sv.Pnonces, v.NonceIndices)
			agg, err := refmusig.NonceAgg(pns)
			if err != nil {
				return err
			}
			if err := expectEq("aggnonce", agg, unhex(sv.Aggnonces[*v.AggnonceIndex])); err != nil {
				return err
			}
			s := &refmusig.Session{AggNonce: agg, PubKeys: pks, Msg: unhex(sv.Msgs[v.MsgIndex])}
			psig, err := refmusig.Sign(unhex(sv.Secnonces[0]), unhex(sv.Sk), s)
			if err != nil {
				return err
			}
			if err := expectEq("partial signature", psig, unhex(v.Expected)); err != nil {
				return err
			}
			if !refmusig.PartialSigVerify(psig, pns, pks, nil, nil, s.Msg, *v.SignerIndex) {
				return fmt.Errorf("own partial signature does not verify")
			}
			return nil
		})
	}
	for i, v := range sv.SignErrors {
		v := v
		add(fmt.Sprintf("sign_verify-signerr-%d", i), func() error {
			var pks [][]byte
			for _, j := range v.KeyIndices {
				pks = append(pks, unhex(sv.Pubkeys[j]))
			}
			s := &refmusig.Session{AggNonce: unhex(sv.Aggnonces[*v.AggnonceIndex]), PubKeys: pks, Msg: unhex(sv.Msgs[v.MsgIndex])}
			if _, err := refmusig.Sign(unhex(sv.Secnonces[v.SecnonceIndex]), unhex(sv.Sk), s); err == nil {
				return fmt.Errorf("expected a signing error: %s", v.Comment)
			}
			return nil
		})
	}
	for i, v := range append(append([]svCase{}, sv.VerifyFail...), sv.VerifyErrors...) {
		v := v
		add(fmt.Sprintf("sign_verify-verifyfail-%d", i), func() error {
			pks, pns := pick(sv.Pubkeys, v.KeyIndices), pick(sv.Pnonces, v.NonceIndices)
			if refmusig.PartialSigVerify(unhex(v.Sig), pns, pks, nil, nil, unhex(sv.Msgs[v.MsgIndex]), *v.SignerIndex) {
				return fmt.Errorf("partial signature must not verify: %s", v.Comment)
			}
			return nil
		})
	}

	var tw struct {
		Sk, Secnonce, Aggnonce, Msg string
		Pubkeys, Pnonces, Tweaks    []string
		Valid                       []svCase `json:"valid_test_cases"`
		Errors                      []svCase `json:"error_test_cases"`
	}
	if err := readJSON("bip327/tweak_vectors.json", &tw); err != nil {
		return nil, err
	}
	for i, v := range tw.Valid {
		v := v
		add(fmt.Sprintf("tweak-valid-%d", i), func() error {
			pks, pns := pick(tw.Pubkeys, v.KeyIndices), pick(tw.Pnonces, v.NonceIndices)
			tws := pick(tw.Tweaks, v.TweakIndices)
			agg, err := refmusig.NonceAgg(pns)
			if err != nil {
				return err
			}
			if err := expectEq("aggnonce", agg, unhex(tw.Aggnonce)); err != nil {
				return err
			}
			s := &refmusig.Session{AggNonce: agg, PubKeys: pks, Tweaks: tws, IsXOnly: v.IsXOnly, Msg: unhex(tw.Msg)}
			psig, err := refmusig.Sign(unhex(tw.Secnonce), unhex(tw.Sk), s)
			if err != nil {
				return err
			}
			if err := expectEq("partial signature", psig, unhex(v.Expected)); err != nil {
				return err
			}
			if !refmusig.PartialSigVerify(psig, pns, pks, tws, v.IsXOnly, s.Msg, *v.SignerIndex) {
				return fmt.Errorf("own partial signature does not verify")
			}
			return nil
		})
	}
	for i, v := range tw.Errors {
		v := v
		add(fmt.Sprintf("tweak-error-%d", i), func() error {
			s := &refmusig.Session{AggNonce: unhex(tw.Aggnonce), PubKeys: pick(tw.Pubkeys, v.KeyIndices),
				Tweaks: pick(tw.Tweaks, v.TweakIndices), IsXOnly: v.IsXOnly, Msg: unhex(tw.Msg)}
			if _, err := refmusig.Sign(unhex(tw.Secnonce), unhex(tw.Sk), s); err == nil {
				return fmt.Errorf("expected a tweak error")
			}
			return nil
		})
	}

	var sa struct {
		Pubkeys, Pnonces, Tweaks, Psigs []string
		Msg                             string
		Valid                           []svCase `json:"valid_test_cases"`
		Errors                          []svCase `json:"error_test_cases"`
	}
	if err := readJSON("bip327/sig_agg_vectors.json", &sa); err != nil {
		return nil, err
	}
	for i, v := range sa.Valid {
		v := v
		add(fmt.Sprintf("sig_agg-valid-%d", i), func() error {
			pks, pns := pick(sa.Pubkeys, v.KeyIndices), pick(sa.Pnonces, v.NonceIndices)
			tws := pick(sa.Tweaks, v.TweakIndices)
			agg, err := refmusig.NonceAgg(pns)
			if err != nil {
				return err
			}
			if err := expectEq("aggnonce", agg, unhex(v.Aggnonce)); err != nil {
				return err
			}
			s := &refmusig.Session{AggNonce: agg, PubKeys: pks, Tweaks: tws, IsXOnly: v.IsXOnly, Msg: unhex(sa.Msg)}
			sig, err := refmusig.PartialSigAgg(pick(sa.Psigs, v.PsigIndices), s)
			if err != nil {
				return err
			}
			if err := expectEq("final signature", sig, unhex(v.Expected)); err != nil {
				return err
			}
			kc, err := refmusig.KeyAggTweaked(pks, tws, v.IsXOnly)
			if err != nil {
				return err
			}
			if !refec.SchnorrVerify(kc.Q.XOnly(), s.Msg, sig) {
				return fmt.Errorf("aggregated signature does not verify under the aggregate key")
			}
			return nil
		})
	}
	for i, v := range sa.Errors {
		v := v
		add(fmt.Sprintf("sig_agg-error-%d", i), func() error {
			s := &refmusig.Session{AggNonce: unhex(v.Aggnonce), PubKeys: pick(sa.Pubkeys, v.KeyIndices),
				Tweaks: pick(sa.Tweaks, v.TweakIndices), IsXOnly: v.IsXOnly, Msg: unhex(sa.Msg)}
			if _, err := refmusig.PartialSigAgg(pick(sa.Psigs, v.PsigIndices), s); err == nil {
				return fmt.Errorf("expected an aggregation error")
			}
			return nil
		})
	}
	if len(out) < 40 {
		return nil, fmt.Errorf("only %d BIP327 vectors found", len(out))
	}
	return out, nil
}

type svCase struct {
	KeyIndices    []int  `json:"key_indices"`
	NonceIndices  []int  `json:"nonce_indices"`
	TweakIndices  []int  `json:"tweak_indices"`
	PsigIndices   []int  `json:"psig_indices"`
	IsXOnly       []bool `json:"is_xonly"`
	AggnonceIndex *int   `json:"aggnonce_index"`
	Aggnonce      string `json:"aggnonce"`
	MsgIndex      int    `json:"msg_index"`
	SignerIndex   *int   `json:"signer_index"`
	SecnonceIndex int    `json:"secnonce_index"`
	Expected      string `json:"expected"`
	Sig           string `json:"sig"`
	Comment       string `json:"comment"`
}

func seq(n int) []int {
	s := make([]int, n)
	for i := range s {
		s[i] = i
	}
	return s
}

// runCalibration registers the calibrate.* families; they run first in every run.
func runCalibration(c *mon.Ctx) {
	type set struct {
		name string
		load func() ([]calCase, error)
	}
	sets := []set{
		{"curve", func() ([]calCase, error) { return calCurve(), nil }},
		{"bip340", calBIP340},
		{"ecdsa", calECDSA},
		{"bip327", calMusig},
	}
	for _, s := range sets {
		cases, err := s.load()
		if err != nil {
			cases = []calCase{{"load", func() error { return err }}}
		}
		name := s.name
		c.Family("calibrate."+name, int64(len(cases)), func(k *mon.Case) {
			cc := cases[k.Index]
			k.Desc(map[string]any{"vector": cc.name})
			if err := cc.run(); err != nil {
				k.Failf("calibration:"+name+":"+cc.name, "reference model disagrees with published vector %s/%s: %v", name, cc.name, err)
			}
			k.Count("calibrate."+name, 1)
			k.Eval(mon.Sig("calibrate", name, cc.name), true)
		})
		c.Require("calibrate."+name, int64(len(cases)))
	}
}
