package main

import (
	"bytes"
	"fmt"
	"math/big"

	"verif/mon"
	"verif/ref/refec"
	"verif/ref/refmusig"

	"github.com/btcsuite/btcd/btcec/v2"
	"github.com/btcsuite/btcd/btcec/v2/schnorr"
	"github.com/btcsuite/btcd/btcec/v2/schnorr/musig2"
)

type signer struct {
	d    *big.Int
	priv *btcec.PrivateKey
	pub  *btcec.PublicKey
	pk   []byte // 33-byte plain key (reference encoding)
	sec  [musig2.SecNonceSize]byte
	pubN [musig2.PubNonceSize]byte
}

// musigSetup is one generated signing scenario.
type musigSetup struct {
	signers   []*signer
	sort      bool
	tweakMode int // 0 none, 1 generic chain, 2 taproot script root, 3 BIP86
	tweaks    []musig2.KeyTweakDesc
	root      []byte
	msg       [32]byte
	dups      int
	shape     string
}

func genSigners(r *mon.Rand, n int) ([]*signer, int) {
	pool := 1 + r.Intn(n) // number of distinct keys
	if r.Chance(2, 3) {
		pool = n
	}
	keys := make([]*big.Int, pool)
	for i := range keys {
		for {
			d, _ := pickScalar(r, 1, 4)
			dup := false
			for _, o := range keys[:i] {
				dup = dup || o.Cmp(d) == 0
			}
			if !dup {
				keys[i] = d
				break
			}
		}
	}
	out := make([]*signer, n)
	used := map[int]int{}
	for i := range out {
		j := i
		if i >= pool {
			j = r.Intn(pool)
		}
		used[j]++
		d := keys[j]
		P := refec.MulG(d)
		out[i] = &signer{d: d, priv: privFromInt(d), pub: pubFromPoint(P), pk: P.Compressed()}
	}
	p := r.Perm(n)
	sh := make([]*signer, n)
	for i, j := range p {
		sh[i] = out[j]
	}
	return sh, n - len(used)
}

func genSetup(r *mon.Rand) *musigSetup {
	n := []int{1, 2, 2, 2, 3, 3, 3, 4, 4, 5, 6, 7, 8}[r.Intn(13)]
	s := &musigSetup{sort: r.Bool(), tweakMode: r.Intn(4)}
	s.signers, s.dups = genSigners(r, n)
	copy(s.msg[:], msg32(r))
	switch s.tweakMode {
	case 1:
		for i := 1 + r.Intn(4); i > 0; i-- {
			var t musig2.KeyTweakDesc
			switch r.Intn(6) {
			case 0: // tiny or huge-but-valid tweak values
				copy(t.Tweak[:], refec.Bytes32(edgeKeys[r.Intn(len(edgeKeys))]))
			case 1: // zero tweak is allowed by BIP327
			default:
				copy(t.Tweak[:], refec.Bytes32(randScalar(r)))
			}
			t.IsXOnly = r.Bool()
			s.tweaks = append(s.tweaks, t)
		}
	case 2:
		s.root = r.Bytes(32)
	}
	s.shape = fmt.Sprintf("n=%d,dups=%d,sort=%v,tweak=%d/%d", n, s.dups, s.sort, s.tweakMode, len(s.tweaks))
	return s
}

func (s *musigSetup) pubs() []*btcec.PublicKey { // a fresh slice every time: btcd sorts in place
	out := make([]*btcec.PublicKey, len(s.signers))
	for i, sg := range s.signers {
		out[i] = sg.pub
	}
	return out
}

// refKeys is the key list in aggregation order for the reference.
func (s *musigSetup) refKeys() [][]byte {
	out := make([][]byte, len(s.signers))
	for i, sg := range s.signers {
		out[i] = sg.pk
	}
	if s.sort {
		return refmusig.KeySort(out)
	}
	return out
}

// refAgg computes the reference (un-tweaked and tweaked) aggregation and the tweak chain in
// BIP327 terms (the taproot modes are one x-only tweak by the BIP341 tagged hash).
func (s *musigSetup) refAgg() (pre, final *refmusig.KeyAggCtx, tw [][]byte, xo []bool, err error) {
	pre, err = refmusig.KeyAgg(s.refKeys())
	if err != nil {
		return
	}
	switch s.tweakMode {
	case 1:
		for _, t := range s.tweaks {
			tw = append(tw, exact(t.Tweak[:]))
			xo = append(xo, t.IsXOnly)
		}
	case 2:
		h := refec.TaggedHash("TapTweak", pre.Q.XOnly(), s.root)
		tw, xo = [][]byte{h[:]}, []bool{true}
	case 3:
		h := refec.TaggedHash("TapTweak", pre.Q.XOnly())
		tw, xo = [][]byte{h[:]}, []bool{true}
	}
	final = pre
	for i := range tw {
		if final, err = final.ApplyTweak(tw[i], xo[i]); err != nil {
			return
		}
	}
	return
}

func (s *musigSetup) keyAggOpts() []musig2.KeyAggOption {
	switch s.tweakMode {
	case 1:
		return []musig2.KeyAggOption{musig2.WithKeyTweaks(s.tweaks...)}
	case 2:
		return []musig2.KeyAggOption{musig2.WithTaprootKeyTweak(s.root)}
	case 3:
		return []musig2.KeyAggOption{musig2.WithBIP86KeyTweak()}
	}
	return nil
}

func (s *musigSetup) signOpts(fast bool) []musig2.SignOption {
	var o []musig2.SignOption
	if s.sort {
		o = append(o, musig2.WithSortedKeys())
	}
	switch s.tweakMode {
	case 1:
		o = append(o, musig2.WithTweaks(s.tweaks...))
	case 2:
		o = append(o, musig2.WithTaprootSignTweak(s.root))
	case 3:
		o = append(o, musig2.WithBip86SignTweak())
	}
	if fast {
		o = append(o, musig2.WithFastSign())
	}
	return o
}

func (s *musigSetup) combineOpts() []musig2.CombineOption {
	switch s.tweakMode {
	case 1:
		return []musig2.CombineOption{musig2.WithTweakedCombine(s.msg, s.pubs(), s.tweaks, s.sort)}
	case 2:
		return []musig2.CombineOption{musig2.WithTaprootTweakedCombine(s.msg, s.pubs(), s.root, s.sort)}
	case 3:
		return []musig2.CombineOption{musig2.WithBip86TweakedCombine(s.msg, s.pubs(), s.sort)}
	}
	return nil
}

func (s *musigSetup) desc(family string, extra map[string]any) map[string]any {
	var ds, tws []string
	for _, sg := range s.signers {
		ds = append(ds, hx(refec.Bytes32(sg.d)))
	}
	for _, t := range s.tweaks {
		tws = append(tws, fmt.Sprintf("%x/xonly=%v", t.Tweak, t.IsXOnly))
	}
	m := map[string]any{"family": family, "secret_keys_in_order": ds, "sort": s.sort, "tweak_mode": s.tweakMode,
		"tweaks": tws, "script_root": hx(s.root), "msg": hx(s.msg[:])}
	for k, v := range extra {
		m[k] = v
	}
	return m
}

// guard returns an inputGuard over everything a scenario hands to btcd: the private and public
// key objects, the tweak descriptors and the script root.
func (s *musigSetup) guard() *inputGuard {
	g := &inputGuard{}
	for i, sg := range s.signers {
		g.priv(fmt.Sprintf("privkey%d", i), sg.priv).pub(fmt.Sprintf("pubkey%d", i), sg.pub)
	}
	g.bytes("script_root", s.root)
	g.add("tweaks", func() []byte {
		var b []byte
		for _, t := range s.tweaks {
			b = append(b, t.Tweak[:]...)
			if t.IsXOnly {
				b = append(b, 1)
			} else {
				b = append(b, 0)
			}
		}
		return b
	})
	return g
}

// checkKeyAgg compares musig2.AggregateKeys with the reference; returns the reference contexts.
// The option VALUES are built once and reused for several calls (same key list object, a fresh
// list, and sometimes a different signer set): every call must equal the reference, and nothing
// handed to btcd may have changed afterwards.
func checkKeyAgg(k *mon.Case, s *musigSetup) (pre, final *refmusig.KeyAggCtx, tw [][]byte, xo []bool, ok bool) {
	pre, final, tw, xo, rerr := s.refAgg()
	opts := s.keyAggOpts()
	pubs := s.pubs()
	g := s.guard().pubs("key_list", pubs, !s.sort)
	compare := func(rep string, keys []*btcec.PublicKey, su *musigSetup, pre, final *refmusig.KeyAggCtx, rerr error) bool {
		agg, parity, tacc, err := musig2.AggregateKeys(keys, su.sort, opts...)
		if (err == nil) != (rerr == nil) {
			k.Failf(fmt.Sprintf("musig:AggregateKeys%s:btcd-%s-bip327-%s", rep, b2s(err == nil), b2s(rerr == nil)), "%s err=%v referr=%v", su.shape, err, rerr)
			return false
		}
		if err != nil {
			k.Count("musig.keyagg.error", 1)
			return false
		}
		if !samePoint(agg.FinalKey, final.Q) {
			k.Failf(fmt.Sprintf("musig:AggregateKeys%s:final-key-differs:tweakmode%d", rep, su.tweakMode), "%s btcd=%x ref=%x", su.shape, agg.FinalKey.SerializeCompressed(), final.Q.Compressed())
			return false
		}
		if !samePoint(agg.PreTweakedKey, pre.Q) {
			k.Failf("musig:AggregateKeys"+rep+":pre-tweak-key-differs", "%s btcd=%x ref=%x", su.shape, agg.PreTweakedKey.SerializeCompressed(), pre.Q.Compressed())
		}
		if intFromScalar(parity).Cmp(final.Gacc) != 0 || intFromScalar(tacc).Cmp(final.Tacc) != 0 {
			k.Failf("musig:AggregateKeys"+rep+":accumulators-differ", "%s parity=%x tacc=%x ref gacc=%x tacc=%x", su.shape, intFromScalar(parity), intFromScalar(tacc), final.Gacc, final.Tacc)
		}
		k.Count("musig.keyagg", 1)
		return true
	}
	ok = compare("", pubs, s, pre, final, rerr)
	// the same option values again: same list object, then a fresh list
	ok2 := compare(":options-reused", pubs, s, pre, final, rerr)
	ok3 := compare(":options-reused", s.pubs(), s, pre, final, rerr)
	if ok != ok2 || ok != ok3 {
		k.Failf("musig:AggregateKeys:options-reused:not-idempotent", "%s first=%v second=%v third=%v", s.shape, ok, ok2, ok3)
	}
	// and for another signer set (one signer fewer, or the list rotated)
	if n := len(s.signers); n >= 2 && k.Index%3 == 0 {
		o := *s
		if k.Index%2 == 0 {
			o.signers = s.signers[:n-1]
		} else {
			o.signers = append(append([]*signer{}, s.signers[1:]...), s.signers[0])
		}
		o.shape = s.shape + ",other-set"
		opre, ofinal, _, _, oerr := o.refAgg()
		compare(":options-reused-other-set", o.pubs(), &o, opre, ofinal, oerr)
		k.Count("musig.keyagg.other_set", 1)
	}
	g.check(k, "musig2.AggregateKeys")
	if !ok {
		return nil, nil, nil, nil, false
	}
	if s.tweakMode >= 2 {
		// independent of BIP327: the BIP341 output key lift_x(x(P)) + t*G
		in, _ := refec.LiftX(pre.Q.X)
		if out := refec.Add(in, refec.MulG(refec.Int(tw[0]))); out.Inf || out.X.Cmp(final.Q.X) != 0 {
			k.Failf("calibration:refmusig:taproot-tweak", "x-only tweak differs from BIP341 output key")
		}
	}
	k.Count("musig.keyagg.reused_options", 1)
	return pre, final, tw, xo, true
}

// genNonce runs musig2.GenNonces with a recorded random source and option mix and compares
// it with BIP327 NonceGen.
func genNonce(k *mon.Case, r *mon.Rand, s *musigSetup, sg *signer, aggX []byte) bool {
	rnd := r.Bytes(32)
	opts := []musig2.NonceGenOption{musig2.WithCustomRand(bytes.NewReader(rnd)), musig2.WithPublicKey(sg.pub)}
	var sk, agg, msg, extra []byte
	if r.Bool() {
		opts = append(opts, musig2.WithNonceSecretKeyAux(sg.priv))
		sk = refec.Bytes32(sg.d)
	}
	if r.Bool() {
		aggPub, err := schnorr.ParsePubKey(aggX)
		if err == nil {
			opts = append(opts, musig2.WithNonceCombinedKeyAux(aggPub))
			agg = aggX
		}
	}
	if r.Bool() {
		opts = append(opts, musig2.WithNonceMessageAux(s.msg))
		msg = s.msg[:]
	}
	if r.Bool() {
		extra = r.Bytes(r.Intn(41))
		opts = append(opts, musig2.WithNonceAuxInput(extra))
	}
	g := (&inputGuard{}).bytes("aux_input", extra).bytes("rand", rnd).priv("secret_key", sg.priv).pub("public_key", sg.pub)
	n, err := musig2.GenNonces(opts...)
	if err != nil {
		k.Failf("musig:GenNonces:error-on-valid-input", "%v", err)
		return false
	}
	// same option values again (the random source is a reader: give it the same bytes)
	opts[0] = musig2.WithCustomRand(bytes.NewReader(rnd))
	if n2, err := musig2.GenNonces(opts...); err != nil || *n2 != *n {
		k.Failf("musig:GenNonces:options-reused:not-idempotent", "rand=%x pk=%x err=%v", rnd, sg.pk, err)
	}
	g.check(k, "musig2.GenNonces")
	wantSec, wantPub, rerr := refmusig.NonceGen(rnd, sk, sg.pk, agg, msg, extra)
	if rerr != nil || !bytes.Equal(n.SecNonce[:], wantSec) || !bytes.Equal(n.PubNonce[:], wantPub) {
		k.Failf("musig:GenNonces:differs-from-bip327-noncegen", "rand=%x sk=%x pk=%x aggpk=%x msg=%x extra=%x got sec=%x pub=%x want sec=%x pub=%x (%v)",
			rnd, sk, sg.pk, agg, msg, extra, n.SecNonce, n.PubNonce, wantSec, wantPub, rerr)
		return false
	}
	sg.sec, sg.pubN = n.SecNonce, n.PubNonce
	k.Count("musig.noncegen", 1)
	return true
}

// setSecNonce installs an explicit secret nonce (k1, k2) for a signer.
func setSecNonce(sg *signer, k1, k2 *big.Int) {
	copy(sg.sec[:32], refec.Bytes32(k1))
	copy(sg.sec[32:64], refec.Bytes32(k2))
	copy(sg.sec[64:], sg.pk)
	copy(sg.pubN[:33], refec.MulG(k1).Compressed())
	copy(sg.pubN[33:], refec.MulG(k2).Compressed())
}

// famMusigFree: a whole signing session through the package-level functions.
func famMusigFree(k *mon.Case) {
	r := k.Rand
	s := genSetup(r)
	nonceMode := 0 // 1: both aggregate nonce points infinite, 2: first only, 3: second only
	if len(s.signers) >= 2 && r.Chance(1, 6) {
		nonceMode = 1 + r.Intn(3)
	}
	fast := r.Chance(1, 3)
	k.Desc(s.desc("musig.free", map[string]any{"nonce_mode": nonceMode, "fast": fast}))
	_, final, tw, xo, ok := checkKeyAgg(k, s)
	if !ok {
		return
	}
	// nonces
	for _, sg := range s.signers {
		if !genNonce(k, r, s, sg, final.Q.XOnly()) {
			return
		}
	}
	if nonceMode != 0 {
		// the last signer cancels the sum of everyone else's nonce points (it knows no secret for
		// that in general, so everybody's secret nonces are explicit here)
		k1s, k2s := new(big.Int), new(big.Int)
		for _, sg := range s.signers[:len(s.signers)-1] {
			a, _ := pickScalar(r, 1, 3)
			b, _ := pickScalar(r, 1, 3)
			setSecNonce(sg, a, b)
			k1s.Add(k1s, a)
			k2s.Add(k2s, b)
		}
		neg := func(v *big.Int) *big.Int { return new(big.Int).Mod(new(big.Int).Neg(v), refec.N) }
		a, b := neg(k1s), neg(k2s)
		if nonceMode == 3 || a.Sign() == 0 {
			a = randScalar(r)
		}
		if nonceMode == 2 || b.Sign() == 0 {
			b = randScalar(r)
		}
		setSecNonce(s.signers[len(s.signers)-1], a, b)
	}
	var pubNs [][musig2.PubNonceSize]byte
	var refPubNs [][]byte
	for _, sg := range s.signers {
		pubNs = append(pubNs, sg.pubN)
		refPubNs = append(refPubNs, exact(sg.pubN[:]))
	}
	g := s.guard()
	pubs := s.pubs() // ONE list object for every call of the session (btcd may sort it when asked to)
	g.pubs("key_list", pubs, !s.sort)
	g.add("pubnonces", func() []byte {
		var b []byte
		for _, pn := range pubNs {
			b = append(b, pn[:]...)
		}
		return b
	})
	aggN, err := musig2.AggregateNonces(pubNs)
	if again, err2 := musig2.AggregateNonces(pubNs); again != aggN || (err == nil) != (err2 == nil) {
		k.Failf("musig:AggregateNonces:not-idempotent", "%s first=%x second=%x", s.shape, aggN, again)
	}
	wantAgg, rerr := refmusig.NonceAgg(refPubNs)
	if err != nil || rerr != nil || !bytes.Equal(aggN[:], wantAgg) {
		k.Failf(fmt.Sprintf("musig:AggregateNonces:differs-from-bip327:noncemode%d", nonceMode), "%s nonces=%x got=%x err=%v want=%x referr=%v", s.shape, refPubNs, aggN, err, wantAgg, rerr)
		return
	}
	infHalves := 0
	for _, h := range [][]byte{wantAgg[:33], wantAgg[33:]} {
		if bytes.Equal(h, make([]byte, 33)) {
			infHalves++
		}
	}
	sess := &refmusig.Session{AggNonce: wantAgg, PubKeys: s.refKeys(), Tweaks: tw, IsXOnly: xo, Msg: s.msg[:]}
	vals, rerr := sess.ValuesFrom(final)
	if rerr != nil {
		k.Failf("calibration:refmusig:session-values", "%v", rerr)
		return
	}
	// partial signatures
	opts := s.signOpts(fast)
	var psigs []*musig2.PartialSignature
	var refPsigs [][]byte
	for i, sg := range s.signers {
		ps, err := musig2.Sign(sg.sec, sg.priv, aggN, pubs, s.msg, opts...)
		if err != nil {
			k.Failf(fmt.Sprintf("musig:Sign:error-on-valid-session:noncemode%d", nonceMode), "%s signer=%d err=%v", s.shape, i, err)
			return
		}
		want, rerr := refmusig.SignV(sg.sec[:], refec.Bytes32(sg.d), sess, vals)
		got := ps.S.Bytes()
		if rerr != nil || !bytes.Equal(got[:], want) {
			k.Failf(fmt.Sprintf("musig:Sign:partial-signature-differs-from-bip327:tweakmode%d", s.tweakMode), "%s signer=%d got=%x want=%x referr=%v", s.shape, i, got, want, rerr)
			return
		}
		if !samePoint(ps.R, vals.R) {
			k.Failf("musig:Sign:final-nonce-differs-from-bip327", "%s signer=%d R=%x want=%x", s.shape, i, ps.R.SerializeCompressed(), vals.R.Compressed())
		}
		// every honest partial signature verifies, under btcd and under BIP327
		if !ps.Verify(sg.pubN, aggN, pubs, sg.pub, s.msg, opts...) {
			k.Failf(fmt.Sprintf("musig:PartialSignature.Verify:rejects-honest-signature:noncemode%d", nonceMode), "%s signer=%d s=%x", s.shape, i, got)
		}
		if !refmusig.PartialSigVerifyV(want, sg.pubN[:], sg.pk, sess, vals) {
			k.Failf("calibration:refmusig:own-partial-signature-invalid", "%s signer=%d", s.shape, i)
		}
		// encode / decode
		var buf bytes.Buffer
		var dec musig2.PartialSignature
		if err := ps.Encode(&buf); err != nil || !bytes.Equal(buf.Bytes(), want) || dec.Decode(&buf) != nil || !dec.S.Equals(ps.S) {
			k.Failf("musig:PartialSignature:encode-decode-roundtrip", "%s signer=%d", s.shape, i)
		}
		// a partial signature >= n is not a valid encoding (BIP327: fail if s >= n)
		over := new(big.Int).Add(refec.Int(want), refec.N)
		if over.Cmp(two256) >= 0 || r.Chance(1, 4) {
			over = new(big.Int).Add(refec.N, big.NewInt(int64(r.Intn(3))))
		}
		var decOver musig2.PartialSignature
		if decOver.Decode(bytes.NewReader(refec.Bytes32(over))) == nil {
			k.Failf("musig:PartialSignature.Decode:accepts-s-ge-n", "s=%x", over)
		}
		psigs = append(psigs, ps)
		refPsigs = append(refPsigs, want)
		k.Count("musig.partial.sign", 1)
	}
	// corrupted partial signatures: the verdict is the reference's
	for t := 0; t < 2; t++ {
		i := r.Intn(len(s.signers))
		sg := s.signers[i]
		sv := refec.Int(refPsigs[i])
		pubN, key, msg, name := sg.pubN, sg, s.msg, ""
		switch r.Intn(6) {
		case 0:
			sv, name = new(big.Int).Mod(new(big.Int).Add(sv, bigOne), refec.N), "s-plus-1"
		case 1:
			sv, name = new(big.Int).Mod(new(big.Int).Neg(sv), refec.N), "s-negated"
		case 2:
			j := r.Intn(len(s.signers))
			pubN, name = s.signers[j].pubN, "other-signers-nonce"
		case 3:
			j := r.Intn(len(s.signers))
			key, name = s.signers[j], "other-signers-key"
		case 4:
			copy(msg[:], flipBit(msg[:], r))
			name = "msg-bitflip"
		case 5:
			// a key that is NOT in the key list "signs" with the coefficient formula applied to itself;
			// BIP327 (GetSessionKeyAggCoeff) fails for non-members, so the check must not pass
			od := randScalar(r)
			oP := refec.MulG(od)
			out := &signer{d: od, priv: privFromInt(od), pub: pubFromPoint(oP), pk: oP.Compressed()}
			member := false
			for _, m := range s.signers {
				member = member || bytes.Equal(m.pk, out.pk)
			}
			if member {
				continue
			}
			k1, k2 := randScalar(r), randScalar(r)
			setSecNonce(out, k1, k2)
			if !refec.HasEvenY(vals.R) {
				k1, k2 = new(big.Int).Sub(refec.N, k1), new(big.Int).Sub(refec.N, k2)
			}
			c := new(big.Int).Mul(vals.E, refmusig.KeyAggCoeff(sess.PubKeys, out.pk))
			if !refec.HasEvenY(vals.Q) {
				c.Neg(c)
			}
			c.Mul(c, vals.Gacc)
			c.Mul(c, od)
			c.Add(c, k1)
			c.Add(c, new(big.Int).Mul(vals.B, k2))
			sv, pubN, key, name = c.Mod(c, refec.N), out.pubN, out, "outsider-key"
		}
		bad := musig2.NewPartialSignature(scalarFromInt(sv), psigs[i].R)
		bsess := *sess
		bsess.Msg = msg[:]
		bvals, berr := bsess.ValuesFrom(final)
		want := berr == nil && refmusig.PartialSigVerifyV(refec.Bytes32(sv), pubN[:], key.pk, &bsess, bvals)
		got := bad.Verify(pubN, aggN, pubs, key.pub, msg, opts...)
		if again := bad.Verify(pubN, aggN, pubs, key.pub, msg, opts...); again != got {
			k.Failf("musig:PartialSignature.Verify:not-idempotent", "%s signer=%d variant=%s first=%v second=%v", s.shape, i, name, got, again)
		}
		if got != want {
			k.Failf(fmt.Sprintf("musig:PartialSignature.Verify:%s:btcd-%s-bip327-%s", name, b2s(got), b2s(want)), "%s signer=%d s=%x verified-as key=%x pubnonce=%x aggnonce=%x msg=%x", s.shape, i, sv, key.pk, pubN, aggN, msg)
		}
		k.Count("musig.partial.verify."+b2s(want), 1)
		k.Count("musig.partial.verify.variant."+name, 1)
	}
	// aggregation
	g.add("partial_sigs", func() []byte {
		var b []byte
		for _, ps := range psigs {
			sb := ps.S.Bytes()
			b = append(append(b, sb[:]...), ps.R.SerializeCompressed()...)
		}
		return b
	})
	copts := s.combineOpts() // option values built once, applied twice
	fin := musig2.CombineSigs(psigs[0].R, psigs, copts...)
	wantFin, rerr := refmusig.PartialSigAggV(refPsigs, vals)
	fb := fin.Serialize()
	if again := musig2.CombineSigs(psigs[0].R, psigs, copts...); !bytes.Equal(again.Serialize(), fb) {
		k.Failf("musig:CombineSigs:options-reused:not-idempotent", "%s first=%x second=%x", s.shape, fb, again.Serialize())
	}
	g.check(k, "musig2.Sign/Verify/CombineSigs")
	if rerr != nil || !bytes.Equal(fb, wantFin) {
		k.Failf(fmt.Sprintf("musig:CombineSigs:differs-from-bip327:tweakmode%d", s.tweakMode), "%s got=%x want=%x referr=%v", s.shape, fb, wantFin, rerr)
	}
	// The final signature must satisfy BIP340 under the (tweaked) aggregate key, except when the
	// nonce contributions cancel to infinity: BIP327 then continues with R = G so that the
	// cheater can be identified, and no valid signature can result.
	qx := final.Q.XOnly()
	valid := refec.SchnorrVerify(qx, s.msg[:], fb)
	if valid == vals.RInf {
		k.Failf(fmt.Sprintf("musig:CombineSigs:final-signature-fails-bip340:tweakmode%d", s.tweakMode), "%s aggkey=%x msg=%x sig=%x nonce-sum-infinite=%v", s.shape, qx, s.msg, fb, vals.RInf)
	}
	if got := fin.Verify(s.msg[:], pubFromPoint(final.Q)); got != valid {
		k.Failf("musig:schnorr.Verify:final-signature:btcd-"+b2s(got)+"-oracle-"+b2s(valid), "%s aggkey=%x msg=%x sig=%x", s.shape, qx, s.msg, fb)
	}
	k.Count("musig.session", 1)
	k.Count(fmt.Sprintf("musig.session.n%d", len(s.signers)), 1)
	k.Count(fmt.Sprintf("musig.session.tweakmode%d", s.tweakMode), 1)
	k.Count(fmt.Sprintf("musig.session.infinite_nonce_halves%d", infHalves), 1)
	if s.dups > 0 {
		k.Count("musig.session.duplicate_keys", 1)
	}
	if s.sort {
		k.Count("musig.session.sorted", 1)
	}
	k.Eval(mon.Sig("musig.free", s.shape, nonceMode, fast, hx(fb[:4])), true)
	k.Sample(map[string]any{"family": "musig.free", "shape": s.shape, "aggkey": hx(qx), "sig": hx(fb)})
}

// famMusigContext: the same through Context / Session, every signer running its own context.
func famMusigContext(k *mon.Case) {
	r := k.Rand
	s := genSetup(r)
	n := len(s.signers)
	// how contexts learn the signer set: 0 known up front; 1 registered one by one (needs sorting
	// for a common order); 2 as 1 plus an early nonce
	learn := 0
	if s.sort && n >= 2 {
		learn = r.Intn(3)
	}
	nonceSrc := r.Intn(3) // 0 pre-generated (compared with NonceGen), 1 library default (crypto/rand), 2 mixed
	coordinator := r.Chance(1, 4)
	k.Desc(s.desc("musig.context", map[string]any{"learn": learn, "nonce_src": nonceSrc, "coordinator": coordinator}))
	pre, final, tw, xo, ok := checkKeyAgg(k, s)
	if !ok {
		return
	}
	ctxOpts := func() []musig2.ContextOption {
		var o []musig2.ContextOption
		switch s.tweakMode {
		case 1:
			o = append(o, musig2.WithTweakedContext(s.tweaks...))
		case 2:
			o = append(o, musig2.WithTaprootTweakCtx(s.root))
		case 3:
			o = append(o, musig2.WithBip86TweakCtx())
		}
		return o
	}
	sessions := make([]*musig2.Session, n)
	knownSec := make([]bool, n)
	// the context option VALUES (tweaks and the signer list) are prepared once and handed to every
	// NewContext call of the case, the way a coordinator would
	g := s.guard()
	sharedList := s.pubs()
	g.pubs("key_list", sharedList, !s.sort)
	shared := ctxOpts()
	known := musig2.WithKnownSigners(sharedList)
	for i, sg := range s.signers {
		o := append([]musig2.ContextOption{}, shared...)
		var ctx *musig2.Context
		var err error
		if learn == 0 {
			ctx, err = musig2.NewContext(sg.priv, s.sort, append(o, known)...)
			// a second context from the same option values must come out the same
			if ctx2, err2 := musig2.NewContext(sg.priv, s.sort, append(o, known)...); err == nil {
				ck2, err3 := ctx2, err2
				var k2 *btcec.PublicKey
				if err3 == nil {
					k2, err3 = ck2.CombinedKey()
				}
				if err3 != nil || !samePoint(k2, final.Q) {
					k.Failf(fmt.Sprintf("musig:Context.CombinedKey:options-reused:differs-from-bip327:tweakmode%d", s.tweakMode), "%s signer=%d err=%v", s.shape, i, err3)
				}
			}
		} else {
			o = append(o, musig2.WithNumSigners(n))
			if learn == 2 {
				o = append(o, musig2.WithEarlyNonceGen())
			}
			ctx, err = musig2.NewContext(sg.priv, s.sort, o...)
			for j, other := range s.signers {
				if err != nil || j == i {
					continue
				}
				var all bool
				all, err = ctx.RegisterSigner(other.pub)
				if err == nil && all != (ctx.NumRegisteredSigners() == n) {
					k.Failf("musig:Context.RegisterSigner:completion-flag", "%s", s.shape)
				}
			}
		}
		if err != nil {
			k.Failf("musig:Context:error-on-valid-signer-set", "%s signer=%d learn=%d err=%v", s.shape, i, learn, err)
			return
		}
		ck, err := ctx.CombinedKey()
		if err != nil || !samePoint(ck, final.Q) {
			k.Failf(fmt.Sprintf("musig:Context.CombinedKey:differs-from-bip327:tweakmode%d", s.tweakMode), "%s signer=%d learn=%d err=%v", s.shape, i, learn, err)
			return
		}
		if ik, err := ctx.TaprootInternalKey(); s.tweakMode >= 2 && (err != nil || !samePoint(ik, pre.Q)) {
			k.Failf("musig:Context.TaprootInternalKey:differs-from-bip327", "%s signer=%d err=%v", s.shape, i, err)
		}
		var sopts []musig2.SessionOption
		switch {
		case learn == 2:
			en, err := ctx.EarlySessionNonce()
			if err != nil {
				k.Failf("musig:Context.EarlySessionNonce:missing", "%v", err)
				return
			}
			sg.sec, sg.pubN, knownSec[i] = en.SecNonce, en.PubNonce, true
		case nonceSrc == 0 || (nonceSrc == 2 && r.Bool()):
			if !genNonce(k, r, s, sg, final.Q.XOnly()) {
				return
			}
			sopts = append(sopts, musig2.WithPreGeneratedNonce(&musig2.Nonces{PubNonce: sg.pubN, SecNonce: sg.sec}))
			knownSec[i] = true
		}
		sessions[i], err = ctx.NewSession(sopts...)
		if err != nil {
			k.Failf("musig:Context.NewSession:error", "%s signer=%d err=%v", s.shape, i, err)
			return
		}
		if knownSec[i] && sessions[i].PublicNonce() != sg.pubN {
			k.Failf("musig:Session.PublicNonce:differs-from-supplied-nonce", "%s signer=%d", s.shape, i)
		}
		sg.pubN = sessions[i].PublicNonce()
	}
	var refPubNs [][]byte
	for _, sg := range s.signers {
		refPubNs = append(refPubNs, exact(sg.pubN[:]))
	}
	wantAgg, rerr := refmusig.NonceAgg(refPubNs)
	if rerr != nil {
		k.Failf("musig:GenNonces:invalid-public-nonce", "%s nonces=%x: %v", s.shape, refPubNs, rerr)
		return
	}
	// nonce exchange
	for i, ss := range sessions {
		if coordinator && !bytes.Contains(wantAgg, make([]byte, 33)) {
			var a [musig2.PubNonceSize]byte
			copy(a[:], wantAgg)
			if err := ss.RegisterCombinedNonce(a); err != nil {
				k.Failf("musig:Session.RegisterCombinedNonce:rejects-bip327-aggregate", "%s aggnonce=%x err=%v", s.shape, wantAgg, err)
				return
			}
		} else {
			for j := range sessions {
				if j == i {
					continue
				}
				all, err := ss.RegisterPubNonce(s.signers[j].pubN)
				if err != nil || all != (ss.NumRegisteredNonces() == n) {
					k.Failf("musig:Session.RegisterPubNonce:error-or-flag", "%s signer=%d err=%v", s.shape, i, err)
					return
				}
			}
		}
		got, err := ss.CombinedNonce()
		if n == 1 && !coordinator {
			// a lone signer never registers a foreign nonce; its aggregate is its own nonce
			if err != nil {
				var a [musig2.PubNonceSize]byte
				copy(a[:], wantAgg)
				if err := ss.RegisterCombinedNonce(a); err != nil {
					k.Failf("musig:Session.RegisterCombinedNonce:rejects-bip327-aggregate", "%s aggnonce=%x err=%v", s.shape, wantAgg, err)
					return
				}
				got, err = ss.CombinedNonce()
			}
		}
		if err != nil || !bytes.Equal(got[:], wantAgg) {
			k.Failf("musig:Session.CombinedNonce:differs-from-bip327", "%s signer=%d got=%x want=%x err=%v", s.shape, i, got, wantAgg, err)
			return
		}
	}
	sess := &refmusig.Session{AggNonce: wantAgg, PubKeys: s.refKeys(), Tweaks: tw, IsXOnly: xo, Msg: s.msg[:]}
	vals, rerr := sess.ValuesFrom(final)
	if rerr != nil {
		k.Failf("calibration:refmusig:session-values", "%v", rerr)
		return
	}
	var sopt []musig2.SignOption
	if s.sort {
		sopt = append(sopt, musig2.WithSortedKeys())
	}
	psigs := make([]*musig2.PartialSignature, n)
	var refPsigs [][]byte
	for i, ss := range sessions {
		ps, err := ss.Sign(s.msg, sopt...)
		if err != nil {
			k.Failf("musig:Session.Sign:error-on-valid-session", "%s signer=%d err=%v", s.shape, i, err)
			return
		}
		got := ps.S.Bytes()
		sg := s.signers[i]
		if knownSec[i] {
			want, rerr := refmusig.SignV(sg.sec[:], refec.Bytes32(sg.d), sess, vals)
			if rerr != nil || !bytes.Equal(got[:], want) {
				k.Failf(fmt.Sprintf("musig:Session.Sign:partial-signature-differs-from-bip327:tweakmode%d", s.tweakMode), "%s signer=%d got=%x want=%x referr=%v", s.shape, i, got, want, rerr)
				return
			}
		}
		if !refmusig.PartialSigVerifyV(got[:], sg.pubN[:], sg.pk, sess, vals) {
			k.Failf(fmt.Sprintf("musig:Session.Sign:partial-signature-fails-bip327-verify:tweakmode%d", s.tweakMode), "%s signer=%d s=%x pubnonce=%x", s.shape, i, got, sg.pubN)
			return
		}
		if _, err := ss.Sign(s.msg, sopt...); err == nil {
			k.Failf("musig:Session.Sign:nonce-reuse-allowed", "%s signer=%d signed twice", s.shape, i)
		}
		psigs[i] = ps
		refPsigs = append(refPsigs, exact(got[:]))
		k.Count("musig.partial.sign", 1)
	}
	wantFin, rerr := refmusig.PartialSigAggV(refPsigs, vals)
	if rerr != nil {
		k.Failf("calibration:refmusig:aggregation", "%v", rerr)
		return
	}
	// every signer combines everybody else's partial signatures (in a random order)
	who := []int{r.Intn(n)}
	if n > 1 && r.Bool() {
		who = append(who, (who[0]+1)%n)
	}
	for _, i := range who {
		ss := sessions[i]
		done := n == 1
		for _, j := range r.Perm(n) {
			if j == i {
				continue
			}
			var err error
			done, err = ss.CombineSig(psigs[j])
			if err != nil {
				k.Failf(fmt.Sprintf("musig:Session.CombineSig:error-on-honest-signatures:tweakmode%d", s.tweakMode), "%s signer=%d err=%v", s.shape, i, err)
				return
			}
		}
		fin := ss.FinalSig()
		if n == 1 {
			// a single signer's own partial signature is the whole signature
			fin = musig2.CombineSigs(psigs[0].R, psigs, s.combineOpts()...)
		} else if !done || fin == nil {
			k.Failf("musig:Session.CombineSig:not-complete-after-all-signatures", "%s signer=%d", s.shape, i)
			return
		}
		fb := fin.Serialize()
		if !bytes.Equal(fb, wantFin) {
			k.Failf(fmt.Sprintf("musig:Session.FinalSig:differs-from-bip327:tweakmode%d", s.tweakMode), "%s got=%x want=%x", s.shape, fb, wantFin)
		}
		if !refec.SchnorrVerify(final.Q.XOnly(), s.msg[:], fb) {
			k.Failf(fmt.Sprintf("musig:Session.FinalSig:fails-bip340:tweakmode%d", s.tweakMode), "%s aggkey=%x msg=%x sig=%x", s.shape, final.Q.XOnly(), s.msg, fb)
		}
		if !fin.Verify(s.msg[:], pubFromPoint(final.Q)) {
			k.Failf("musig:schnorr.Verify:rejects-final-signature", "%s aggkey=%x sig=%x", s.shape, final.Q.XOnly(), fb)
		}
	}
	g.check(k, "musig2.Context/Session")
	k.Count("musig.ctx.session", 1)
	k.Count(fmt.Sprintf("musig.ctx.learn%d", learn), 1)
	k.Count(fmt.Sprintf("musig.ctx.n%d", n), 1)
	k.Count(fmt.Sprintf("musig.ctx.tweakmode%d", s.tweakMode), 1)
	if coordinator {
		k.Count("musig.ctx.coordinator", 1)
	}
	k.Eval(mon.Sig("musig.context", s.shape, learn, nonceSrc, coordinator, hx(wantFin[:4])), true)
}

// famMusigKeyAgg: key aggregation and tweak edge cases only (cheap): tweaks at 0, n-1, n,
// 2^256-1 and the tweak that cancels the aggregate key (infinity).
func famMusigKeyAgg(k *mon.Case) {
	r := k.Rand
	s := genSetup(r)
	s.tweakMode = 1
	s.tweaks = nil
	nt := 1 + r.Intn(4)
	cls := "plain"
	// secret of the running aggregate key: x' = g*x + t
	pre, rerr := refmusig.KeyAgg(s.refKeys())
	if rerr != nil {
		k.Failf("calibration:refmusig:keyagg", "%v", rerr)
		return
	}
	x := new(big.Int)
	for _, sg := range s.signers {
		x.Add(x, new(big.Int).Mul(refmusig.KeyAggCoeff(s.refKeys(), sg.pk), sg.d))
	}
	x.Mod(x, refec.N)
	if !refec.Equal(refec.MulG(x), pre.Q) {
		k.Failf("calibration:refmusig:aggregate-secret", "sum a_i d_i does not open the aggregate key")
		return
	}
	cur := pre
	dead := false
	for i := 0; i < nt; i++ {
		var t musig2.KeyTweakDesc
		t.IsXOnly = r.Bool()
		g := big.NewInt(1)
		if t.IsXOnly && !refec.HasEvenY(cur.Q) {
			g = nMinus1
		}
		gx := new(big.Int).Mod(new(big.Int).Mul(g, x), refec.N)
		var tv *big.Int
		last := i == nt-1
		switch c := r.Intn(8); {
		case c == 0 && last:
			tv, cls = new(big.Int).Mod(new(big.Int).Neg(gx), refec.N), "cancels-key"
		case c == 0 && !dead && cls == "plain":
			// an intermediate key at infinity: BIP327 ApplyTweak fails there, whatever the later tweaks are
			tv, cls, dead = new(big.Int).Mod(new(big.Int).Neg(gx), refec.N), "cancels-key-mid-chain", true
		case c == 1 && last:
			tv, cls = new(big.Int).Set(refec.N), "equals-n"
		case c == 2 && last:
			tv, cls = new(big.Int).Add(refec.N, big.NewInt(int64(1+r.Intn(5)))), "above-n"
		case c == 3 && last:
			tv, cls = maxU256, "max-u256"
		case c == 4:
			tv = new(big.Int)
		case c == 5:
			tv = nMinus1
		default:
			tv = randScalar(r)
		}
		copy(t.Tweak[:], refec.Bytes32(tv))
		s.tweaks = append(s.tweaks, t)
		if tv.Cmp(refec.N) < 0 && !dead {
			x = new(big.Int).Mod(new(big.Int).Add(gx, tv), refec.N)
			if nc, err := cur.ApplyTweak(t.Tweak[:], t.IsXOnly); err == nil {
				cur = nc
			}
		}
	}
	if dead {
		cls = "cancels-key-mid-chain"
	}
	s.shape = fmt.Sprintf("n=%d,dups=%d,sort=%v,tweaks=%d,%s", len(s.signers), s.dups, s.sort, nt, cls)
	k.Desc(s.desc("musig.keyagg", map[string]any{"class": cls}))
	_, final, _, _, ok := checkKeyAgg(k, s)
	if ok && !refec.Equal(refec.MulG(x), final.Q) {
		k.Failf("calibration:refmusig:tweaked-secret", "tracked secret does not open the tweaked key")
	}
	k.Count("musig.keyagg.class."+cls, 1)
	k.Eval(mon.Sig("musig.keyagg", s.shape, ok), true)
}

// famMusigNonceParse: hostile public-nonce encodings through AggregateNonces vs BIP327 NonceAgg.
func famMusigNonceParse(k *mon.Case) {
	r := k.Rand
	n := 1 + r.Intn(4)
	var pubNs [][musig2.PubNonceSize]byte
	var refPubNs [][]byte
	cls := "valid"
	bad := r.Intn(n)
	for i := 0; i < n; i++ {
		var pn [musig2.PubNonceSize]byte
		copy(pn[:33], refec.MulG(randScalar(r)).Compressed())
		copy(pn[33:], refec.MulG(randScalar(r)).Compressed())
		if i == bad && r.Chance(4, 5) {
			off := 33 * r.Intn(2)
			switch r.Intn(7) {
			case 0:
				pn[off], cls = []byte{0x04, 0x05, 0x06, 0x07, 0x01, 0xff}[r.Intn(6)], "bad-prefix"
			case 1: // x >= p
				copy(pn[off+1:off+33], refec.Bytes32(new(big.Int).Add(refec.P, big.NewInt(int64(r.Intn(900))))))
				cls = "x-ge-p"
			case 2: // x not on the curve
				for {
					x := refec.Int(r.Bytes(32))
					if _, ok := refec.Decompress(x, false); !ok && x.Cmp(refec.P) < 0 {
						copy(pn[off+1:off+33], refec.Bytes32(x))
						break
					}
				}
				cls = "off-curve"
			case 3: // the encoding of infinity is not an admissible contribution
				copy(pn[off:off+33], make([]byte, 33))
				cls = "infinity-contribution"
			case 4: // 0x00 prefix with a non-zero body is no encoding at all
				pn[off], cls = 0x00, "zero-prefix-nonzero-body"
			case 5: // flip parity: still valid, different point
				pn[off] ^= 1
			case 6:
			}
		}
		pubNs = append(pubNs, pn)
		refPubNs = append(refPubNs, exact(pn[:]))
	}
	k.Desc(map[string]any{"family": "musig.nonceparse", "pubnonces": fmt.Sprintf("%x", refPubNs), "class": cls})
	got, err := musig2.AggregateNonces(pubNs)
	want, rerr := refmusig.NonceAgg(refPubNs)
	switch {
	case (err == nil) != (rerr == nil):
		k.Failf(fmt.Sprintf("musig:AggregateNonces:%s:btcd-%s-bip327-%s", cls, b2s(err == nil), b2s(rerr == nil)), "pubnonces=%x err=%v referr=%v", refPubNs, err, rerr)
	case err == nil && !bytes.Equal(got[:], want):
		k.Failf("musig:AggregateNonces:value-differs-from-bip327", "pubnonces=%x got=%x want=%x", refPubNs, got, want)
	}
	k.Count("musig.nonceparse", 1)
	k.Count("musig.nonceparse.class."+cls, 1)
	k.Eval(mon.Sig("musig.nonceparse", n, cls, rerr == nil, hx(refPubNs[bad][:3])), true)
}
