package main

import (
	"bytes"
	"encoding/hex"
	"math/big"
	"os"
	"sort"
	"strings"

	"verif/mon"
	"verif/ref/refec"

	"github.com/btcsuite/btcd/btcec/v2"
)

func verifHome() string {
	if h := os.Getenv("VERIF_HOME"); h != "" {
		return h
	}
	return "/verif"
}

func hx(b []byte) string { return hex.EncodeToString(b) }

func unhex(s string) []byte {
	b, err := hex.DecodeString(s)
	if err != nil {
		panic("bad hex in vector file: " + s)
	}
	return b
}

var (
	bigOne   = big.NewInt(1)
	two256   = new(big.Int).Lsh(bigOne, 256)
	nMinus1  = new(big.Int).Sub(refec.N, bigOne)
	pMinus1  = new(big.Int).Sub(refec.P, bigOne)
	halfN    = refec.HalfN // (n-1)/2
	halfNUp  = new(big.Int).Add(refec.HalfN, bigOne)
	maxU256  = new(big.Int).Sub(two256, bigOne)
	edgeKeys []*big.Int // private keys / scalars in [1, n-1] that sit on some boundary
)

func init() {
	add := func(v *big.Int) {
		if v.Sign() > 0 && v.Cmp(refec.N) < 0 {
			edgeKeys = append(edgeKeys, v)
		}
	}
	for i := int64(1); i <= 8; i++ { // small multiples of G and their negations
		add(big.NewInt(i))
		add(new(big.Int).Sub(refec.N, big.NewInt(i)))
	}
	add(halfN)
	add(halfNUp)
	add(new(big.Int).Sub(halfN, bigOne))
	add(new(big.Int).Add(halfNUp, bigOne))
	// n - 2^128-ish region, 2^255, 2^255-1, 2^128, 2^64, 2^32 (limb boundaries of the 8x32 / 10x26 representations)
	for _, sh := range []uint{26, 32, 52, 64, 96, 128, 192, 224, 255} {
		v := new(big.Int).Lsh(bigOne, sh)
		add(v)
		add(new(big.Int).Sub(v, bigOne))
		add(new(big.Int).Sub(refec.N, v))
	}
	// p - n is a scalar too (r = x mod n reductions live near it)
	add(new(big.Int).Sub(refec.P, refec.N))
	// lambda of the GLV endomorphism and its negation: decred's scalar-mult splits k around it
	lam, _ := new(big.Int).SetString("5363AD4CC05C30E0A5261C028812645A122E22EA20816678DF02967C1B23BD72", 16)
	add(lam)
	add(new(big.Int).Sub(refec.N, lam))
}

// randScalar returns a uniform-ish value in [1, n-1].
func randScalar(r *mon.Rand) *big.Int {
	for {
		v := refec.Int(r.Bytes(32))
		if v.Sign() > 0 && v.Cmp(refec.N) < 0 {
			return v
		}
	}
}

// pickScalar returns an edge scalar with probability edgeNum/edgeDen, otherwise a random one;
// the bool says whether it is an edge value.
func pickScalar(r *mon.Rand, edgeNum, edgeDen int) (*big.Int, bool) {
	if r.Chance(edgeNum, edgeDen) {
		return new(big.Int).Set(edgeKeys[r.Intn(len(edgeKeys))]), true
	}
	switch r.Intn(8) {
	case 0: // short scalar
		v := refec.Int(r.Bytes(1 + r.Intn(16)))
		if v.Sign() > 0 {
			return v, false
		}
	case 1: // close to n
		v := new(big.Int).Sub(refec.N, refec.Int(r.Bytes(1+r.Intn(8))))
		if v.Sign() > 0 && v.Cmp(refec.N) < 0 {
			return v, false
		}
	}
	return randScalar(r), false
}

func privFromInt(d *big.Int) *btcec.PrivateKey {
	priv, _ := btcec.PrivKeyFromBytes(refec.Bytes32(d))
	return priv
}

func scalarFromInt(v *big.Int) *btcec.ModNScalar {
	var s btcec.ModNScalar
	if s.SetByteSlice(refec.Bytes32(v)) {
		panic("scalarFromInt: value >= n")
	}
	return &s
}

func intFromScalar(s *btcec.ModNScalar) *big.Int {
	b := s.Bytes()
	return refec.Int(b[:])
}

// pubFromPoint builds a btcec public key from reference coordinates without going through
// any parser under test.
func pubFromPoint(p refec.Point) *btcec.PublicKey {
	var x, y btcec.FieldVal
	if x.SetByteSlice(refec.Bytes32(p.X)) || y.SetByteSlice(refec.Bytes32(p.Y)) {
		panic("pubFromPoint: coordinate >= p")
	}
	return btcec.NewPublicKey(&x, &y)
}

func pointFromPub(k *btcec.PublicKey) refec.Point {
	return refec.Point{X: k.X(), Y: k.Y()}
}

func samePoint(k *btcec.PublicKey, p refec.Point) bool {
	return !p.Inf && k.X().Cmp(p.X) == 0 && k.Y().Cmp(p.Y) == 0
}

func msg32(r *mon.Rand) []byte {
	switch r.Intn(12) {
	case 0:
		return make([]byte, 32)
	case 1:
		b := make([]byte, 32)
		for i := range b {
			b[i] = 0xff
		}
		return b
	case 2: // a message whose integer value is >= n (reduction in e = int(m) mod n)
		v := new(big.Int).Add(refec.N, refec.Int(r.Bytes(1+r.Intn(15))))
		if v.Cmp(two256) < 0 {
			return refec.Bytes32(v)
		}
	case 3:
		return refec.Bytes32(edgeKeys[r.Intn(len(edgeKeys))])
	}
	return r.Bytes(32)
}

func flipBit(b []byte, r *mon.Rand) []byte {
	c := exact(b)
	if len(c) > 0 {
		i := r.Intn(len(c) * 8)
		c[i/8] ^= 1 << uint(i%8)
	}
	return c
}

func b2s(b bool) string {
	if b {
		return "accept"
	}
	return "reject"
}

// inputGuard records byte copies of everything handed to a btcd call and checks afterwards
// that the callee left its caller's data alone (no hidden mutation / aliasing of inputs).
type inputGuard struct{ items []guardItem }

type guardItem struct {
	name   string
	live   func() []byte
	before []byte
}

func (g *inputGuard) add(name string, live func() []byte) {
	g.items = append(g.items, guardItem{name, live, append([]byte{}, live()...)})
}

// bytes guards a caller-owned byte slice (the very backing array that is passed to btcd).
func (g *inputGuard) bytes(name string, b []byte) *inputGuard {
	g.add(name, func() []byte { return b })
	return g
}

func (g *inputGuard) priv(name string, p *btcec.PrivateKey) *inputGuard {
	g.add(name, func() []byte { return p.Serialize() })
	return g
}

func (g *inputGuard) pub(name string, p *btcec.PublicKey) *inputGuard {
	g.add(name, func() []byte { return p.SerializeUncompressed() })
	return g
}

// pubs guards a key list: every key object and the list's content; its order too when ordered.
func (g *inputGuard) pubs(name string, ps []*btcec.PublicKey, ordered bool) *inputGuard {
	g.add(name, func() []byte {
		enc := make([]string, len(ps))
		for i, p := range ps {
			enc[i] = string(p.SerializeUncompressed())
		}
		if !ordered {
			sort.Strings(enc)
		}
		return []byte(strings.Join(enc, ""))
	})
	return g
}

// check reports any guarded input whose bytes changed; site names the btcd call.
func (g *inputGuard) check(k *mon.Case, site string) {
	for _, it := range g.items {
		if now := it.live(); !bytes.Equal(now, it.before) {
			k.Failf("aliasing:"+site+":caller-input-modified:"+it.name, "before=%x after=%x", it.before, now)
		}
	}
	k.Count("aliasing.guarded_calls", 1)
}

// scramble overwrites a caller-owned buffer after a parser returned: a parsed object that
// retained the caller's slice would change with it.
func scramble(b []byte) {
	for i := range b {
		b[i] ^= 0xa5
	}
}

// exact returns a copy of b without spare capacity: a parser that reslices past the end of its input (which Go allows up
// to the capacity) panics on such a copy instead of reading unrelated bytes unnoticed.
func exact(b []byte) []byte {
	out := make([]byte, len(b))
	copy(out, b)
	return out
}
