// Worker for C11: secp256k1 verification is sound and complete; signers always verify;
// MuSig2 equals BIP327; encodings round-trip; ECDH is symmetric.
//
// Every verdict comes from the independent math/big models verif/ref/refec and
// verif/ref/refmusig, which are calibrated in the calibrate.* families (run first) against
// the BIP340, RFC6979/DER and BIP327 vectors frozen under $VERIF_HOME/vectors.
package main

import (
	"os"
	"runtime/debug"
	"strconv"
	"strings"

	"verif/mon"
)

type req map[string]int64

func main() {
	// math/big allocates heavily while the live heap stays tiny: collect less often
	debug.SetGCPercent(800)
	mon.Main("C11", func(c *mon.Ctx) {
		c.Rule("keys/nonces: boundary scalars (1..8, n-1..n-8, (n-1)/2, 2^k, n-2^k, p-n, lambda) mixed with random ones; " +
			"messages incl. 0, ff.., values >= n. ECDSA: signer output, equation-derived triples (u1,u2 -> r,s,m) and their " +
			"malleations, r/s at 0,n,p,2^256 boundaries through both parsers; DER: structured mutation of valid DER judged by the " +
			"BIP66 grammar and Core's lax grammar; public keys: every prefix byte x length x (on/off curve, x>=p, parity); " +
			"BIP340: signer (RFC6979, aux-rand, fast), reference-made signatures with boundary nonces and their mutations, " +
			"parser range boundaries; MuSig2: 1-8 signers with duplicates, sorted/unsorted, tweak chains 0-4, taproot/BIP86, " +
			"infinity nonces, hostile nonce encodings, free functions and Context/Session; option values, key lists and key objects are " +
			"reused across repeated calls (idempotence) and every caller-owned input is compared with a byte copy taken before the call. A case is distinct by " +
			"(family, structural class flags, verdict, leading bytes of the signature/key involved).")
		runCalibration(c)

		// development aid: C11_FAMILIES=prefix1,prefix2 restricts the run to matching families
		// (calibration always runs); Require minimums of skipped families are then not declared.
		only := strings.Split(os.Getenv("C11_FAMILIES"), ",")
		want := func(name string) bool {
			if only[0] == "" {
				return true
			}
			for _, p := range only {
				if p != "" && strings.HasPrefix(name, p) {
					return true
				}
			}
			return false
		}
		// C11_SCALE_PCT=<percent> scales the THOROUGH case counts (a count, not a time budget) for
		// machines that cannot afford the full tier; the quick tier is never scaled.
		scale := int64(100)
		if v, err := strconv.Atoi(os.Getenv("C11_SCALE_PCT")); err == nil && v > 0 && c.Thorough() {
			scale = int64(v)
			c.Note("thorough case counts scaled to " + strconv.Itoa(v) + "% by C11_SCALE_PCT")
		}
		family := func(name string, n int64, body func(*mon.Case), rq req) {
			if !want(name) {
				return
			}
			n = n * scale / 100
			c.Family(name, n, body)
			for ctr, m := range rq {
				c.Require(ctr, m)
			}
		}

		family("ecdsa.honest", c.N(1200, 48000), famECDSAHonest, req{"ecdsa.sign": 200, "ecdsa.sign.rfc6979_exact": 150, "ecdsa.sign.edgekey": 50})
		family("ecdsa.algebraic", c.N(1200, 48000), famECDSAAlgebraic, req{"ecdsa.verify.accept": 500, "ecdsa.verify.reject": 500,
			"ecdsa.algebraic.key.lifted": 100, "ecdsa.verify.variant.r-zero": 20, "ecdsa.verify.variant.s-zero": 20})
		family("ecdsa.boundary", c.N(1200, 48000), famECDSABoundary, req{"ecdsa.boundary.inrange.accept": 50, "ecdsa.boundary.inrange.reject": 300})
		family("ecdsa.random", c.N(300, 12000), famECDSARandom, req{"ecdsa.random": 100})
		family("der.grammar", c.N(12000, 480000), famDerGrammar, req{"der.strict.accept": 300, "der.strict.reject": 1000,
			"der.btcd_lax.accept": 300, "der.mut.trail": 100, "der.mut.pad-r": 100, "der.mut.negative": 100})
		family("pubkey.parse", c.N(6144, 245760), famPubKeyParse, req{"pubkey.parse.class.ok": 300, "pubkey.parse.class.off-curve": 50,
			"pubkey.parse.class.coordinate-ge-p": 50, "pubkey.parse.class.hybrid-parity": 20, "pubkey.parse.class.prefix": 300,
			"pubkey.parse.class.length": 300, "pubkey.xonly.accept": 300, "pubkey.xonly.reject": 300})
		family("ecdh", c.N(500, 20000), famECDH, req{"ecdh": 100})

		family("schnorr.honest", c.N(1200, 48000), famSchnorrHonest, req{"schnorr.sign": 200, "schnorr.sign.bip340_exact": 50,
			"schnorr.sign.mode0": 30, "schnorr.sign.mode3": 30, "schnorr.sign.oddkey": 50, "schnorr.sign.edgekey": 50})
		family("schnorr.forge", c.N(1200, 48000), famSchnorrForge, req{"schnorr.verify.accept": 200, "schnorr.verify.reject": 200,
			"schnorr.verify.variant.R-odd-y": 50, "schnorr.verify.variant.range-alias": 50})
		family("schnorr.boundary", c.N(2000, 80000), famSchnorrBoundary, req{"schnorr.boundary": 500, "schnorr.parse.sig.reject": 200,
			"schnorr.parse.key.reject": 50})

		family("musig.free", c.N(800, 32000), famMusigFree, req{"musig.session": 300, "aliasing.guarded_calls": 3000, "musig.keyagg.reused_options": 300, "musig.keyagg.other_set": 50, "musig.keyagg": 300, "musig.noncegen": 500,
			"musig.partial.sign": 500, "musig.partial.verify.reject": 100, "musig.session.duplicate_keys": 30, "musig.session.sorted": 50,
			"musig.session.tweakmode1": 30, "musig.session.tweakmode2": 30, "musig.session.tweakmode3": 30,
			"musig.session.infinite_nonce_halves1": 10, "musig.session.infinite_nonce_halves2": 5, "musig.session.n1": 10, "musig.session.n8": 5})
		family("musig.context", c.N(400, 16000), famMusigContext, req{"musig.ctx.session": 150, "musig.ctx.learn1": 10, "musig.ctx.learn2": 10,
			"musig.ctx.coordinator": 20, "musig.ctx.tweakmode1": 20, "musig.ctx.tweakmode2": 20, "musig.ctx.tweakmode3": 20})
		family("musig.keyagg", c.N(800, 32000), famMusigKeyAgg, req{"musig.keyagg.class.cancels-key": 10, "musig.keyagg.class.cancels-key-mid-chain": 10, "musig.keyagg.class.equals-n": 10,
			"musig.keyagg.class.plain": 100, "musig.keyagg.error": 30})
		family("musig.nonceparse", c.N(1500, 60000), famMusigNonceParse, req{"musig.nonceparse": 300, "musig.nonceparse.class.valid": 50,
			"musig.nonceparse.class.x-ge-p": 20, "musig.nonceparse.class.off-curve": 20, "musig.nonceparse.class.bad-prefix": 20})
	})
}
