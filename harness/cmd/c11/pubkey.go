package main

import (
	"bytes"
	"fmt"
	"math/big"

	"verif/mon"
	"verif/ref/refec"

	"github.com/btcsuite/btcd/btcec/v2"
	"github.com/btcsuite/btcd/btcec/v2/schnorr"
)

// famPubKeyParse: every prefix byte x every interesting length x coordinate classes.
func famPubKeyParse(k *mon.Case) {
	r := k.Rand
	// length first, then a prefix that is usually admissible for it; otherwise the case index
	// sweeps 0..255 so that every prefix byte is used many times per run
	length := []int{33, 33, 33, 33, 65, 65, 65, 65, 0, 1, 32, 34, 64, 66}[r.Intn(14)]
	prefix := byte(k.Index % 256)
	if r.Chance(2, 3) {
		if length == 65 {
			prefix = []byte{4, 4, 6, 7}[r.Intn(4)]
		} else {
			prefix = []byte{2, 3}[r.Intn(2)]
		}
	}
	// x coordinate class
	var x *big.Int
	xcls := []int{0, 0, 0, 1, 2, 3, 4, 5}[r.Intn(8)]
	switch xcls {
	case 0, 1: // on the curve
		P, _ := randomPoint(r)
		x = P.X
	case 2: // probably off the curve half of the time
		x = refec.Int(r.Bytes(32))
	case 3: // >= p
		x = new(big.Int).Add(refec.P, big.NewInt(int64(r.Intn(978))))
		if x.Cmp(two256) >= 0 {
			x = refec.P
		}
	case 4: // boundary values
		x = pickEdge256(r, fieldEdges)
	case 5: // x + p alias of an on-curve x, when representable
		x = new(big.Int).Add(big.NewInt(int64(r.Intn(977))), refec.P)
	}
	// y coordinate class (for 65-byte forms)
	var y *big.Int
	ycls := r.Intn(6)
	pt, onCurve := refec.Decompress(new(big.Int).Mod(x, two256), r.Bool())
	switch {
	case ycls <= 2 && onCurve: // a correct y (either root)
		y = pt.Y
	case ycls == 3 && onCurve: // correct y plus p (alias, must be rejected as >= p) when representable
		y = new(big.Int).Add(pt.Y, refec.P)
		if y.Cmp(two256) >= 0 {
			y = new(big.Int).Sub(refec.P, pt.Y)
		}
	case ycls == 4:
		y = pickEdge256(r, fieldEdges)
	default:
		y = refec.Int(r.Bytes(32))
	}
	full := append([]byte{prefix}, refec.Bytes32(x)...)
	full = append(full, refec.Bytes32(y)...)
	full = append(full, 0xaa)
	enc := full[:length]
	// hybrid keys: make the prefix parity right half of the time so that both outcomes are common
	if length == 65 && (prefix == 6 || prefix == 7) && r.Bool() {
		enc[0] = 6 + byte(y.Bit(0))
	}
	k.Desc(map[string]any{"family": "pubkey.parse", "key": hx(enc)})

	want, rerr := refec.ParsePubKey(enc)
	encBuf := exact(enc)
	got, err := btcec.ParsePubKey(encBuf)
	if !bytes.Equal(encBuf, enc) {
		k.Failf("aliasing:btcec.ParsePubKey:caller-input-modified:key", "before=%x after=%x", enc, encBuf)
	}
	scramble(encBuf) // a key object that retained the caller's buffer now differs from the reference point
	if again, err2 := btcec.ParsePubKey(enc); (err2 == nil) != (err == nil) || (err == nil && !again.IsEqual(got)) {
		k.Failf("pubkey:ParsePubKey:not-idempotent", "key=%x err=%v second err=%v", enc, err, err2)
	}
	cls := "ok"
	if rerr != nil {
		cls = map[error]string{refec.ErrKeyLength: "length", refec.ErrKeyFormat: "prefix", refec.ErrKeyRange: "coordinate-ge-p",
			refec.ErrKeyOffCurve: "off-curve", refec.ErrKeyParity: "hybrid-parity"}[rerr]
	}
	if (err == nil) != (rerr == nil) {
		k.Failf(fmt.Sprintf("pubkey:ParsePubKey:%s:btcd-%s-spec-%s", cls, b2s(err == nil), b2s(rerr == nil)), "key=%x err=%v referr=%v", enc, err, rerr)
	} else if err == nil {
		if !samePoint(got, want) {
			k.Failf("pubkey:ParsePubKey:wrong-point", "key=%x btcd=(%x,%x) ref=(%x,%x)", enc, got.X(), got.Y(), want.X, want.Y)
		}
		if !got.IsOnCurve() {
			k.Failf("pubkey:ParsePubKey:result-off-curve", "key=%x", enc)
		}
		// serialisations equal the reference encodings and parse back to the same point
		sc, su := got.SerializeCompressed(), got.SerializeUncompressed()
		if !bytes.Equal(sc, want.Compressed()) || !bytes.Equal(su, want.Uncompressed()) {
			k.Failf("pubkey:Serialize:differs-from-sec1", "key=%x compressed=%x uncompressed=%x", enc, sc, su)
		}
		for _, e := range [][]byte{sc, su, want.Hybrid()} {
			back, err := btcec.ParsePubKey(e)
			if err != nil || !back.IsEqual(got) {
				k.Failf("pubkey:ParsePubKey:roundtrip", "key=%x reencoded=%x err=%v", enc, e, err)
			}
		}
		ser := btcec.ToSerialized(got)
		if back, err := ser.ToPubKey(); err != nil || !back.IsEqual(got) || !bytes.Equal(ser.CopyBytes(), sc) {
			k.Failf("pubkey:SerializedKey:roundtrip", "key=%x", enc)
		}
		if xo := ser.SchnorrSerialized(); !bytes.Equal(xo[:], want.XOnly()) || !bytes.Equal(schnorr.SerializePubKey(got), want.XOnly()) {
			k.Failf("pubkey:SchnorrSerialized:differs-from-x", "key=%x", enc)
		}
	}
	if got := btcec.IsCompressedPubKey(enc); got != (len(enc) == 33 && (enc[0] == 2 || enc[0] == 3)) {
		k.Failf("pubkey:IsCompressedPubKey:wrong", "key=%x got %v", enc, got)
	}
	// the 32-byte x-only parser on the same x
	if len(enc) >= 33 {
		xo := enc[1:33]
		wantX, rerr := refec.ParseXOnly(xo)
		gotX, err := schnorr.ParsePubKey(xo)
		if (err == nil) != (rerr == nil) {
			k.Failf(fmt.Sprintf("schnorr:ParsePubKey:btcd-%s-spec-%s", b2s(err == nil), b2s(rerr == nil)), "pk=%x err=%v referr=%v", xo, err, rerr)
		} else if err == nil && !samePoint(gotX, wantX) {
			k.Failf("schnorr:ParsePubKey:wrong-point", "pk=%x", xo)
		}
		k.Count("pubkey.xonly."+b2s(rerr == nil), 1)
	}
	k.Count("pubkey.parse", 1)
	k.Count("pubkey.parse.class."+cls, 1)
	k.Count(fmt.Sprintf("pubkey.parse.len%d", len(enc)), 1)
	k.Eval(mon.Sig("pubkey", enc[:min(len(enc), 1)], len(enc), xcls, ycls, cls), true)
}

// famECDH: both parties derive the same secret, and it is the x coordinate of d1*d2*G.
func famECDH(k *mon.Case) {
	r := k.Rand
	d1, e1 := pickScalar(r, 1, 2)
	d2, e2 := pickScalar(r, 1, 2)
	k.Desc(map[string]any{"family": "ecdh", "d1": hx(refec.Bytes32(d1)), "d2": hx(refec.Bytes32(d2))})
	p1, p2 := privFromInt(d1), privFromInt(d2)
	// the peer's key arrives through the parser in a random encoding
	P1, P2 := refec.MulG(d1), refec.MulG(d2)
	encs := func(p refec.Point) []byte {
		return [][]byte{p.Compressed(), p.Uncompressed(), p.Hybrid()}[r.Intn(3)]
	}
	pub1, err1 := btcec.ParsePubKey(encs(P1))
	pub2, err2 := btcec.ParsePubKey(encs(P2))
	if err1 != nil || err2 != nil {
		k.Failf("pubkey:ParsePubKey:rejects-valid-key", "P1=%x P2=%x err=%v %v", P1.Uncompressed(), P2.Uncompressed(), err1, err2)
		return
	}
	g := (&inputGuard{}).priv("private_key1", p1).priv("private_key2", p2).pub("public_key1", pub1).pub("public_key2", pub2)
	s12 := btcec.GenerateSharedSecret(p1, pub2)
	s21 := btcec.GenerateSharedSecret(p2, pub1)
	if again := btcec.GenerateSharedSecret(p1, pub2); !bytes.Equal(again, s12) {
		k.Failf("ecdh:GenerateSharedSecret:not-idempotent", "d1=%x d2=%x first=%x second=%x", d1, d2, s12, again)
	}
	g.check(k, "btcec.GenerateSharedSecret")
	want := refec.Mul(d1, P2)
	if !bytes.Equal(s12, s21) {
		k.Failf("ecdh:GenerateSharedSecret:asymmetric", "d1=%x d2=%x s12=%x s21=%x", d1, d2, s12, s21)
	}
	if want.Inf || !bytes.Equal(s12, want.XOnly()) {
		k.Failf("ecdh:GenerateSharedSecret:differs-from-x-of-d1d2G", "d1=%x d2=%x got=%x", d1, d2, s12)
	}
	k.Count("ecdh", 1)
	k.Eval(mon.Sig("ecdh", e1, e2, hx(s12[:6])), true)
}
