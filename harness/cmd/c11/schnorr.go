package main

import (
	"bytes"
	"fmt"
	"math/big"

	"verif/mon"
	"verif/ref/refec"

	"github.com/btcsuite/btcd/btcec/v2"
	"github.com/btcsuite/btcd/btcec/v2/schnorr"
)

// btcdSchnorrVerify is the byte-level verdict of btcd: parse the signature, parse the key,
// verify. Any parse failure is a rejection.
func btcdSchnorrVerify(pk32, msg, sig []byte) (ok bool, stage string) {
	s, err := schnorr.ParseSignature(sig)
	if err != nil {
		return false, "parse-sig"
	}
	pk, err := schnorr.ParsePubKey(pk32)
	if err != nil {
		return false, "parse-key"
	}
	return s.Verify(msg, pk), "verify"
}

func famSchnorrHonest(k *mon.Case) {
	r := k.Rand
	d, edge := pickScalar(r, 1, 3)
	msg := msg32(r)
	mode := r.Intn(4)
	var aux [32]byte
	switch r.Intn(4) {
	case 0:
	case 1:
		for i := range aux {
			aux[i] = 0xff
		}
	default:
		r.Fill(aux[:])
	}
	k.Desc(map[string]any{"family": "schnorr.honest", "d": hx(refec.Bytes32(d)), "msg": hx(msg), "mode": mode, "aux": hx(aux[:])})
	var opts []schnorr.SignOption
	custom := mode == 1 || mode == 2
	if custom {
		opts = append(opts, schnorr.CustomNonce(aux))
	}
	if mode >= 2 {
		opts = append(opts, schnorr.FastSign())
	}
	priv := privFromInt(d)
	pub := priv.PubKey()
	refP := refec.MulG(d)
	if !samePoint(pub, refP) {
		k.Failf("keys:PrivateKey.PubKey:differs-from-dG", "d=%x btcd=(%x,%x) ref=(%x,%x)", d, pub.X(), pub.Y(), refP.X, refP.Y)
		return
	}
	g := (&inputGuard{}).priv("private_key", priv).pub("public_key", pub).bytes("hash", msg)
	sig, err := schnorr.Sign(priv, msg, opts...)
	if err != nil {
		k.Failf("schnorr:Sign:error-on-valid-input", "d=%x msg=%x mode=%d: %v", d, msg, mode, err)
		return
	}
	sb := sig.Serialize()
	pk32 := refP.XOnly()
	if !refec.SchnorrVerify(pk32, msg, sb) {
		k.Failf(fmt.Sprintf("schnorr:Sign:signature-fails-bip340-equation:mode%d", mode), "d=%x msg=%x sig=%x", d, msg, sb)
	}
	if !sig.Verify(msg, pub) {
		k.Failf("schnorr:Verify:rejects-signer-output", "d=%x msg=%x sig=%x", d, msg, sb)
	}
	// the x-only key of -P is the same key
	if !sig.Verify(msg, pubFromPoint(refec.Neg(refP))) {
		k.Failf("schnorr:Verify:depends-on-y-parity-of-key-object", "d=%x msg=%x sig=%x", d, msg, sb)
	}
	if custom {
		want, rerr := refec.SchnorrSign(refec.Bytes32(d), msg, aux[:])
		if rerr != nil || !bytes.Equal(want, sb) {
			k.Failf("schnorr:Sign:custom-nonce-signature-differs-from-bip340", "d=%x msg=%x aux=%x got %x want %x (%v)", d, msg, aux, sb, want, rerr)
		}
		k.Count("schnorr.sign.bip340_exact", 1)
	}
	again, err := schnorr.Sign(priv, msg, opts...)
	if err != nil || !bytes.Equal(again.Serialize(), sb) {
		k.Failf("schnorr:Sign:not-deterministic", "d=%x msg=%x first %x second %v", d, msg, sb, again)
	}
	// round trips
	sbuf := exact(sb)
	ps, err := schnorr.ParseSignature(sbuf)
	if err != nil || !bytes.Equal(ps.Serialize(), sb) || !ps.IsEqual(sig) {
		k.Failf("schnorr:ParseSignature:roundtrip", "sig=%x err=%v", sb, err)
	} else if !bytes.Equal(sbuf, sb) {
		k.Failf("aliasing:schnorr.ParseSignature:caller-input-modified:signature", "before=%x after=%x", sb, sbuf)
	} else if scramble(sbuf); !ps.IsEqual(sig) || !ps.Verify(msg, pub) {
		k.Failf("aliasing:schnorr.ParseSignature:result-retains-caller-slice", "sig=%x", sb)
	}
	ser := schnorr.SerializePubKey(pub)
	kbuf := exact(ser)
	pp, err := schnorr.ParsePubKey(kbuf)
	if !bytes.Equal(ser, pk32) || err != nil || pp.X().Cmp(refP.X) != 0 || pp.Y().Bit(0) != 0 {
		k.Failf("schnorr:ParsePubKey:roundtrip", "pub=%x ser=%x err=%v", pk32, ser, err)
	} else if !bytes.Equal(kbuf, ser) {
		k.Failf("aliasing:schnorr.ParsePubKey:caller-input-modified:key", "before=%x after=%x", ser, kbuf)
	} else if scramble(kbuf); pp.X().Cmp(refP.X) != 0 || !bytes.Equal(schnorr.SerializePubKey(pub), pk32) {
		k.Failf("aliasing:schnorr.ParsePubKey:result-retains-caller-slice", "pub=%x", pk32)
	}
	// key objects that are not points of the curve - the zero value, the coordinates (0, 0) that a degenerate sum of keys
	// has in btcec: lift_x fails for them, so nothing verifies, in particular not (x(s*G), s), which needs no secret
	{
		fs := randScalar(r)
		R := refec.MulG(fs)
		if !refec.HasEvenY(R) {
			fs = new(big.Int).Sub(refec.N, fs)
		}
		fb := append(refec.Bytes32(R.X), refec.Bytes32(fs)...)
		var zero btcec.FieldVal
		if forged, err := schnorr.ParseSignature(fb); err == nil {
			for name, key := range map[string]*btcec.PublicKey{"zero-value": new(btcec.PublicKey), "NewPublicKey(0,0)": btcec.NewPublicKey(&zero, &zero)} {
				if forged.Verify(msg, key) || sig.Verify(msg, key) {
					k.Failf("schnorr:Verify:accepts-key-object-not-on-curve:"+name, "msg=%x sig=%x verifies under a public key object that is not a point of the curve", msg, fb)
				}
				k.Count("schnorr.verify.key-object-not-on-curve", 1)
			}
		}
	}
	g.check(k, "schnorr.Sign/Verify")
	k.Count("schnorr.sign", 1)
	k.Count(fmt.Sprintf("schnorr.sign.mode%d", mode), 1)
	if edge {
		k.Count("schnorr.sign.edgekey", 1)
	}
	if !refec.HasEvenY(refP) {
		k.Count("schnorr.sign.oddkey", 1)
	}
	k.Eval(mon.Sig("schnorr.honest", mode, edge, hx(sb[:6])), true)
	k.Sample(map[string]any{"family": "schnorr.honest", "mode": mode, "pk": hx(pk32), "sig": hx(sb)})
}

// famSchnorrForge: signatures made by the reference with boundary nonces, then mutated;
// each variant's verdict comes from the BIP340 equations.
func famSchnorrForge(k *mon.Case) {
	r := k.Rand
	d, _ := pickScalar(r, 1, 2)
	k0, _ := pickScalar(r, 2, 3)
	msg := msg32(r)
	k.Desc(map[string]any{"family": "schnorr.forge", "d": hx(refec.Bytes32(d)), "k": hx(refec.Bytes32(k0)), "msg": hx(msg)})
	Pt := refec.MulG(d)
	pk32 := Pt.XOnly()
	good, err := refec.SchnorrSignWithNonce(d, k0, msg)
	if err != nil {
		panic(err)
	}
	rI, sI := refec.Int(good[:32]), refec.Int(good[32:])
	mk := func(rv, sv *big.Int) []byte { return append(refec.Bytes32(rv), refec.Bytes32(sv)...) }
	type variant struct {
		name         string
		pk, msg, sig []byte
	}
	vs := []variant{{"valid", pk32, msg, good}}
	all := []func() variant{
		func() variant {
			return variant{"s-negated", pk32, msg, mk(rI, new(big.Int).Mod(new(big.Int).Neg(sI), refec.N))}
		},
		func() variant {
			return variant{"s-plus-1", pk32, msg, mk(rI, new(big.Int).Mod(new(big.Int).Add(sI, bigOne), refec.N))}
		},
		func() variant {
			// the signature the BIP forbids: same R.x but s built from the un-negated nonce, so
			// that s*G - e*P = R has ODD y (when k0*G is odd) or the valid one again (when even)
			dd := d
			if !refec.HasEvenY(Pt) {
				dd = new(big.Int).Sub(refec.N, d)
			}
			e := refec.SchnorrChallenge(good[:32], pk32, msg)
			kneg := new(big.Int).Sub(refec.N, k0)
			if !refec.HasEvenY(refec.MulG(k0)) {
				kneg = k0
			}
			s := new(big.Int).Mul(e, dd)
			s.Add(s, kneg)
			return variant{"R-odd-y", pk32, msg, mk(rI, s.Mod(s, refec.N))}
		},
		func() variant {
			v := new(big.Int).Add(rI, bigOne)
			return variant{"r-plus-1", pk32, msg, mk(v.Mod(v, two256), sI)}
		},
		func() variant { return variant{"msg-bitflip", pk32, flipBit(msg, r), good} },
		func() variant { return variant{"sig-bitflip", pk32, msg, flipBit(good, r)} },
		func() variant {
			o, _ := pickScalar(r, 1, 2)
			return variant{"other-key", refec.MulG(o).XOnly(), msg, good}
		},
		func() variant { return variant{"key-bitflip", flipBit(pk32, r), msg, good} },
		func() variant {
			// r + p wraps below 2^256 only for tiny r; s + n likewise: out-of-range aliases of a valid signature
			rv := new(big.Int).Add(rI, refec.P)
			sv := new(big.Int).Add(sI, refec.N)
			if rv.Cmp(two256) >= 0 {
				rv = rI
			}
			if sv.Cmp(two256) >= 0 {
				sv = sI
			}
			return variant{"range-alias", pk32, msg, mk(rv, sv)}
		},
	}
	for _, i := range r.Perm(len(all))[:3] {
		vs = append(vs, all[i]())
	}
	for _, v := range vs {
		want := refec.SchnorrVerify(v.pk, v.msg, v.sig)
		g := (&inputGuard{}).bytes("public_key", v.pk).bytes("hash", v.msg).bytes("signature", v.sig)
		got, stage := btcdSchnorrVerify(v.pk, v.msg, v.sig)
		if again, _ := btcdSchnorrVerify(v.pk, v.msg, v.sig); again != got {
			k.Failf("schnorr:Verify:not-idempotent", "pk=%x msg=%x sig=%x first=%v second=%v", v.pk, v.msg, v.sig, got, again)
		}
		g.check(k, "schnorr.ParseSignature/ParsePubKey/Verify")
		if got != want {
			k.Failf(fmt.Sprintf("schnorr:Verify:%s:btcd-%s-oracle-%s", v.name, b2s(got), b2s(want)),
				"pk=%x msg=%x sig=%x (btcd stage %s)", v.pk, v.msg, v.sig, stage)
		}
		if v.name == "valid" && !want {
			k.Failf("calibration:refec:own-signature-invalid", "pk=%x msg=%x sig=%x", v.pk, v.msg, v.sig)
		}
		k.Count("schnorr.verify."+b2s(want), 1)
		k.Count("schnorr.verify.variant."+v.name, 1)
		k.Eval(mon.Sig("schnorr.forge", v.name, want, hx(v.sig[:4]), hx(v.pk[:2])), true)
	}
}

var (
	fieldEdges  []*big.Int // candidate values for r / x: around 0, n, p, 2^256
	scalarEdges []*big.Int // candidate values for s
)

func init() {
	for _, base := range []*big.Int{new(big.Int), refec.N, refec.P, two256, halfN} {
		for d := int64(-2); d <= 2; d++ {
			v := new(big.Int).Add(base, big.NewInt(d))
			if v.Sign() >= 0 && v.Cmp(two256) < 0 {
				fieldEdges = append(fieldEdges, v)
				scalarEdges = append(scalarEdges, v)
			}
		}
	}
}

func pickEdge256(r *mon.Rand, set []*big.Int) *big.Int {
	if r.Chance(3, 4) {
		return set[r.Intn(len(set))]
	}
	return refec.Int(r.Bytes(32))
}

func famSchnorrBoundary(k *mon.Case) {
	r := k.Rand
	// a real signature to start from, so that in-range mutations stay "close" to valid
	d, _ := pickScalar(r, 1, 2)
	msg := msg32(r)
	Pt := refec.MulG(d)
	pk := Pt.XOnly()
	sig := make([]byte, 64)
	what := r.Intn(6)
	switch what {
	case 0, 1: // boundary r and s
		copy(sig, refec.Bytes32(pickEdge256(r, fieldEdges)))
		copy(sig[32:], refec.Bytes32(pickEdge256(r, scalarEdges)))
	case 2: // valid r, boundary s
		good, _ := refec.SchnorrSignWithNonce(d, randScalar(r), msg)
		copy(sig, good)
		copy(sig[32:], refec.Bytes32(pickEdge256(r, scalarEdges)))
	case 3: // boundary r, valid s
		good, _ := refec.SchnorrSignWithNonce(d, randScalar(r), msg)
		copy(sig, good)
		copy(sig, refec.Bytes32(pickEdge256(r, fieldEdges)))
	case 4: // wrong length
		good, _ := refec.SchnorrSignWithNonce(d, randScalar(r), msg)
		n := []int{0, 1, 32, 63, 65, 96, 128}[r.Intn(7)]
		sig = append(good, r.Bytes(64)...)[:n]
	case 5: // boundary / invalid public keys
		good, _ := refec.SchnorrSignWithNonce(d, randScalar(r), msg)
		copy(sig, good)
		switch r.Intn(4) {
		case 0:
			pk = refec.Bytes32(pickEdge256(r, fieldEdges))
		case 1:
			pk = r.Bytes(32) // on the curve with probability 1/2
		case 2:
			pk = append(pk, 0)[:[]int{0, 31, 33}[r.Intn(3)]]
		case 3: // x + p aliases (only representable for x < 2^256 - p)
			pk = refec.Bytes32(new(big.Int).Add(refec.P, big.NewInt(int64(r.Intn(977)))))
		}
	}
	k.Desc(map[string]any{"family": "schnorr.boundary", "pk": hx(pk), "msg": hx(msg), "sig": hx(sig), "what": what})

	// parsers against their definitions
	wantSigParse := len(sig) == 64 && refec.Int(sig[:32]).Cmp(refec.P) < 0 && refec.Int(sig[32:]).Cmp(refec.N) < 0
	sigBuf, pkBuf := exact(sig), exact(pk)
	ps, err := schnorr.ParseSignature(sigBuf)
	if !bytes.Equal(sigBuf, sig) {
		k.Failf("aliasing:schnorr.ParseSignature:caller-input-modified:signature", "before=%x after=%x", sig, sigBuf)
	}
	scramble(sigBuf)
	if (err == nil) != wantSigParse {
		cls := "length"
		if len(sig) == 64 {
			cls = "range"
		}
		k.Failf(fmt.Sprintf("schnorr:ParseSignature:%s:btcd-%s-spec-%s", cls, b2s(err == nil), b2s(wantSigParse)), "sig=%x err=%v", sig, err)
	} else if err == nil && !bytes.Equal(ps.Serialize(), sig) {
		k.Failf("schnorr:ParseSignature:value-changed", "sig=%x reserialized=%x", sig, ps.Serialize())
	}
	refKey, rerr := refec.ParseXOnly(pk)
	pp, err := schnorr.ParsePubKey(pkBuf)
	if !bytes.Equal(pkBuf, pk) {
		k.Failf("aliasing:schnorr.ParsePubKey:caller-input-modified:key", "before=%x after=%x", pk, pkBuf)
	}
	scramble(pkBuf)
	if (err == nil) != (rerr == nil) {
		k.Failf(fmt.Sprintf("schnorr:ParsePubKey:btcd-%s-spec-%s", b2s(err == nil), b2s(rerr == nil)), "pk=%x err=%v referr=%v", pk, err, rerr)
	} else if err == nil && !samePoint(pp, refKey) {
		k.Failf("schnorr:ParsePubKey:wrong-point", "pk=%x btcd=(%x,%x) ref=(%x,%x)", pk, pp.X(), pp.Y(), refKey.X, refKey.Y)
	}
	want := refec.SchnorrVerify(pk, msg, sig)
	got, stage := btcdSchnorrVerify(pk, msg, sig)
	if got != want {
		k.Failf(fmt.Sprintf("schnorr:Verify:boundary:btcd-%s-oracle-%s", b2s(got), b2s(want)), "pk=%x msg=%x sig=%x stage=%s", pk, msg, sig, stage)
	}
	k.Count("schnorr.boundary", 1)
	k.Count("schnorr.parse.sig."+b2s(wantSigParse), 1)
	k.Count("schnorr.parse.key."+b2s(rerr == nil), 1)
	k.Count("schnorr.verify."+b2s(want), 1)
	k.Eval(mon.Sig("schnorr.boundary", what, wantSigParse, rerr == nil, want, len(sig), hx(sig), hx(pk)), true)
}

var _ = btcec.PrivKeyBytesLen
