// Worker for C02: the active chain is the most-work fully-valid chain, whatever the delivery order.
package main

import (
	"fmt"
	"sync"
	"sync/atomic"

	"verif/gen/chaingen"
	"verif/mon"
	"verif/node"
	"verif/ref/refchain"
	"verif/sim"

	"github.com/btcsuite/btcd/blockchain"
	"github.com/btcsuite/btcd/chainhash/v2"
	"github.com/btcsuite/btcd/database"
)

func famOf(r *mon.Rand) string {
	if r.Chance(1, 2) {
		return node.FamVarWork
	}
	return node.FamRegtest
}

// deliveryOrder: a permutation of the blocks, mostly topological with local disorder, plus header and
// duplicate deliveries.
type delivery struct {
	b      *refchain.Block
	header bool
}

func makeOrder(r *mon.Rand, blocks []*refchain.Block, disorder int, headers int, dups int) []delivery {
	n := len(blocks)
	idx := make([]int, n)
	for i := range idx {
		idx[i] = i
	}
	switch disorder {
	case 0: // topological
	case 1: // local swaps
		for i := 0; i+1 < n; i++ {
			if r.Chance(1, 3) {
				j := i + 1 + r.Intn(min(4, n-i-1))
				idx[i], idx[j] = idx[j], idx[i]
			}
		}
	case 2: // fully random
		idx = r.Perm(n)
	case 3: // reversed (children before parents everywhere)
		for i := 0; i < n/2; i++ {
			idx[i], idx[n-1-i] = idx[n-1-i], idx[i]
		}
	}
	var out []delivery
	for _, i := range idx {
		if r.Intn(100) < headers {
			// a header delivery of this or an earlier/later block
			out = append(out, delivery{b: blocks[r.Intn(n)], header: true})
		}
		out = append(out, delivery{b: blocks[i]})
		if r.Intn(100) < dups {
			out = append(out, delivery{b: blocks[idx[r.Intn(n)]]})
		}
	}
	return out
}

func runTree(k *mon.Case, withManual bool) {
	r := k.Rand
	fam := famOf(r)
	g := chaingen.New(node.NewParams(fam), fam, r)
	g.MaxTx = 2
	cache := []uint64{0, 4096, 1 << 25}[r.Intn(3)]
	s, err := sim.New(k, g, node.Config{UtxoCacheMaxSize: cache})
	if err != nil {
		k.Failf("harness:open", "cannot open node: %v", err)
		return
	}
	defer s.Destroy()
	s.CheckViews = true
	g.ClockNow = s.N.Clock.Now()
	nodes := 8 + r.Intn(50)
	o := chaingen.TreeOpts{Nodes: nodes, ForkChance: 5 + r.Intn(30), InvalidMax: r.Intn(4), Recipes: chaingen.BasicRecipes(s.N.Clock.Now()),
		EasyChance: 30 + r.Intn(50), NTx: -1, ExtendInvalidChance: 50}
	blocks := g.RandomTree(r, o)
	disorder := r.Intn(4)
	order := makeOrder(r, blocks, disorder, []int{0, 10, 40}[r.Intn(3)], []int{0, 10}[r.Intn(2)])
	k.Desc(map[string]any{"family": fam, "nodes": nodes, "disorder": disorder, "cache": cache, "manual": withManual})
	manualBudget := 0
	if withManual {
		manualBudget = 1 + r.Intn(4)
	}
	var invalidated []*refchain.Block
	for _, d := range order {
		if s.Failed {
			break
		}
		if d.header {
			s.DeliverHeader(d.b)
		} else {
			s.DeliverBlock(d.b)
		}
		if manualBudget > 0 && r.Chance(1, 8) {
			manualBudget--
			if len(invalidated) > 0 && r.Chance(1, 2) {
				i := r.Intn(len(invalidated))
				s.Reconsider(invalidated[i])
				invalidated = append(invalidated[:i], invalidated[i+1:]...)
			} else {
				// choose an indexed block that is not related (ancestor/descendant) to an already invalidated one
				var cands []*refchain.Block
				for _, b := range blocks {
					st := s.Status[b]
					if st != sim.SStored {
						continue
					}
					ok := true
					for _, iv := range invalidated {
						if iv.IsAncestorOf(b) || b.IsAncestorOf(iv) {
							ok = false
						}
					}
					if ok {
						cands = append(cands, b)
					}
				}
				if len(cands) > 0 {
					b := cands[r.Intn(len(cands))]
					// bias toward blocks on the active chain
					for t := 0; t < 3 && !b.IsAncestorOf(s.Tip); t++ {
						b = cands[r.Intn(len(cands))]
					}
					// half of the time prefer a valid block below a stored block that failed validation when it was
					// connected: invalidating and later reconsidering it must bring back exactly the valid part of the branch
					if r.Bool() {
						var below []*refchain.Block
						for _, c := range cands {
							if !c.ChainValid() {
								continue
							}
							for _, w := range blocks {
								if w != c && w.Label == refchain.InvalidConnect && s.Status[w] == sim.SStored && c.IsAncestorOf(w) && w.Parent.ChainValid() {
									below = append(below, c)
									break
								}
							}
						}
						if len(below) > 0 {
							b = below[r.Intn(len(below))]
							k.Count("manual.invalidate_below_failed_block", 1)
						}
					}
					s.Invalidate(b)
					invalidated = append(invalidated, b)
				}
			}
		}
		if r.Chance(1, 40) {
			s.Restart(r.Bool())
		}
	}
	// complete the delivery in topological order, then reconsider everything
	if !s.Failed {
		for _, b := range blocks {
			if st := s.Status[b]; st == sim.SUnknown || st == sim.SHeader {
				s.DeliverBlock(b)
			}
		}
	}
	if !s.Failed {
		for _, iv := range invalidated {
			s.Reconsider(iv)
		}
	}
	sig := mon.Sig("tree", fam, nodes, disorder, withManual, len(order), s.Tip.Hash.String()[:8])
	k.Eval(sig, true)
	if k.Index < 3 {
		k.Sample(map[string]any{"family": fam, "ops": s.Ops, "final_tip": s.Tip.Name})
	}
}

// runReconsider: a branch X -> Y1..Yk -> W where W fails validation when it is connected (so the node marked W, and
// only W, as failed); InvalidateBlock(X) and later ReconsiderBlock(X) must bring back exactly X..Yk; a new child of
// Yk must then be accepted.
func runReconsider(k *mon.Case) {
	r := k.Rand
	fam := famOf(r)
	g := chaingen.New(node.NewParams(fam), fam, r)
	g.MaxTx = 2
	s, err := sim.New(k, g, node.Config{UtxoCacheMaxSize: []uint64{0, 4096, 1 << 25}[r.Intn(3)]})
	if err != nil {
		k.Failf("harness:open", "cannot open node: %v", err)
		return
	}
	defer s.Destroy()
	s.CheckViews = true
	g.ClockNow = s.N.Clock.Now()
	k.Desc(map[string]any{"family": fam, "mode": "reconsider-below-failed"})
	tip := g.Tree.Genesis
	for i := 0; i < 6+r.Intn(6); i++ {
		tip = g.Block(r, tip, chaingen.BlockOpts{NTx: -1, Easy: r.Bool()})
		s.DeliverBlock(tip)
	}
	x := g.Block(r, tip, chaingen.BlockOpts{NTx: -1, Easy: r.Bool()})
	s.DeliverBlock(x)
	y := x
	for i := 0; i < 1+r.Intn(3); i++ {
		y = g.Block(r, y, chaingen.BlockOpts{NTx: -1, Easy: r.Bool()})
		s.DeliverBlock(y)
	}
	rc := chaingen.BasicRecipes(s.N.Clock.Now())[r.Intn(2)] // the two connect-time failures
	w := g.Block(r, y, chaingen.BlockOpts{NTx: 0, Mutate: rc.Mutate, Label: rc.Label, Rule: rc.Rule})
	s.DeliverBlock(w)
	if r.Bool() {
		s.DeliverBlock(g.Block(r, w, chaingen.BlockOpts{NTx: 0}))
	}
	if r.Bool() {
		// an unrelated lighter side block
		s.DeliverBlock(g.Block(r, tip, chaingen.BlockOpts{NTx: 0}))
	}
	if s.Failed {
		return
	}
	s.Invalidate(x)
	if r.Bool() {
		s.Restart(r.Bool())
	}
	if r.Bool() {
		s.DeliverBlock(g.Block(r, tip, chaingen.BlockOpts{NTx: 0}))
	}
	if !s.Failed {
		s.Reconsider(x)
	}
	if !s.Failed {
		z := g.Block(r, y, chaingen.BlockOpts{NTx: -1})
		if r.Bool() {
			s.DeliverHeader(z)
		}
		s.DeliverBlock(z)
	}
	k.Count("reconsider.below_failed_descendant", 1)
	k.Eval(mon.Sig("recon", fam, len(s.Ops), s.Tip.Hash.String()[:8]), true)
}

// runFan: see sim.ScenarioFan.
func runFan(k *mon.Case) { sim.ScenarioFan(k, famOf(k.Rand)) }

// faultDB fails one View call (a database read) when armed: the skip-th call after arming.
type faultDB struct {
	database.DB
	armed bool
	skip  int
	fired bool
}

func (f *faultDB) View(fn func(tx database.Tx) error) error {
	if f.armed && !f.fired {
		if f.skip == 0 {
			f.fired = true
			return database.Error{ErrorCode: database.ErrDriverSpecific, Description: "injected transient read failure"}
		}
		f.skip--
	}
	return f.DB.View(fn)
}

// runFault: a valid block that extends the tip is delivered while one database read fails; afterwards the same
// block and its child are delivered normally. The transient failure must not brand the block invalid.
func runFault(k *mon.Case) {
	r := k.Rand
	fam := famOf(r)
	g := chaingen.New(node.NewParams(fam), fam, r)
	g.MaxTx = 3
	var fdb *faultDB
	s, err := sim.New(k, g, node.Config{UtxoCacheMaxSize: []uint64{0, 4096, 1 << 25}[r.Intn(3)],
		WrapDB: func(db database.DB) database.DB { fdb = &faultDB{DB: db}; return fdb }})
	if err != nil {
		k.Failf("harness:open", "cannot open node: %v", err)
		return
	}
	defer s.Destroy()
	g.ClockNow = s.N.Clock.Now()
	k.Desc(map[string]any{"family": fam, "mode": "read-fault"})
	tip := g.Tree.Genesis
	for i := 0; i < 8+r.Intn(6); i++ {
		tip = g.Block(r, tip, chaingen.BlockOpts{NTx: -1, Easy: r.Bool()})
		s.DeliverBlock(tip)
	}
	for i := 0; i < 6 && !s.Failed; i++ {
		b := g.Block(r, s.Tip, chaingen.BlockOpts{NTx: 1 + r.Intn(3), Easy: r.Bool()})
		skip := r.Intn(6)
		s.DeliverBlockFaulted(b, func() { fdb.armed, fdb.skip, fdb.fired = true, skip, false }, func() bool { fdb.armed = false; return fdb.fired })
		if s.Failed {
			break
		}
		c := g.Block(r, s.Tip, chaingen.BlockOpts{NTx: -1, Easy: r.Bool()})
		s.DeliverBlock(c)
	}
	k.Eval(mon.Sig("fault", fam, len(s.Ops), s.Tip.Hash.String()[:8]), true)
}

// concurrent readers hammering the chain's read API while one goroutine delivers blocks (race detector).
func runConcurrent(k *mon.Case) {
	r := k.Rand
	fam := famOf(r)
	g := chaingen.New(node.NewParams(fam), fam, r)
	g.MaxTx = 3
	s, err := sim.New(k, g, node.Config{UtxoCacheMaxSize: []uint64{0, 2048, 1 << 25}[r.Intn(3)]})
	if err != nil {
		k.Failf("harness:open", "cannot open node: %v", err)
		return
	}
	defer s.Destroy()
	g.ClockNow = s.N.Clock.Now()
	blocks := g.RandomTree(r, chaingen.TreeOpts{Nodes: 40, ForkChance: 25, EasyChance: 50, NTx: -1})
	k.Desc(map[string]any{"family": fam, "concurrent": true})
	var stop atomic.Bool
	var wg sync.WaitGroup
	var reads atomic.Int64
	hashes := make([]chainhash.Hash, len(blocks))
	for i, b := range blocks {
		hashes[i] = b.Hash
	}
	for w := 0; w < 6; w++ {
		wg.Add(1)
		rr := r.Fork()
		go func(w int) {
			defer wg.Done()
			defer func() {
				if p := recover(); p != nil {
					k.Failf("conc:reader-panic", "reader panic: %v", p)
				}
			}()
			c := s.N.Chain
			for !stop.Load() {
				h := &hashes[rr.Intn(len(hashes))]
				switch rr.Intn(9) {
				case 0:
					snap := c.BestSnapshot()
					hh, err := c.BlockHashByHeight(snap.Height)
					_ = hh
					_ = err
				case 1:
					c.ChainTips()
				case 2:
					c.MainChainHasBlock(h)
				case 3:
					c.LocateHeaders(blockchain.BlockLocator{h}, &chainhash.Hash{})
				case 4:
					c.BlockLocatorFromHash(h)
				case 5:
					c.HeaderByHash(h)
				case 6:
					c.BestHeader()
				case 7:
					c.HaveBlock(h)
				case 8:
					c.LatestBlockLocator()
				}
				reads.Add(1)
			}
		}(w)
	}
	for _, b := range blocks {
		s.DeliverBlock(b)
	}
	stop.Store(true)
	wg.Wait()
	k.Count("conc.reads", reads.Load())
	k.Eval(mon.Sig("conc", fam, s.Tip.Hash.String()[:8]), true)
}

func main() {
	mon.Main("C02", func(c *mon.Ctx) {
		c.Rule("one case = one node lifetime: a random block tree (8-57 blocks, forks, 0-3 invalid blocks of 7 kinds, equal-work or 1x/16x-work blocks) " +
			"delivered in one of 4 disorder modes with header and duplicate deliveries, restarts, and (manual family) InvalidateBlock/ReconsiderBlock; " +
			"after every operation the tip must equal the declarative best chain and all views must agree; distinct = (family, size, disorder, op count, final tip)")
		if mon.RaceEnabled {
			c.Family("conc", c.N(24, 400), runConcurrent)
			c.Family("tree-race", c.N(30, 300), func(k *mon.Case) { runTree(k, false) })
			return
		}
		c.Family("tree", c.N(400, 20000), func(k *mon.Case) { runTree(k, false) })
		c.Family("manual", c.N(300, 12000), func(k *mon.Case) { runTree(k, true) })
		c.Family("reconsider", c.N(56, 2000), runReconsider)
		c.Family("fan", c.N(84, 3000), runFan)
		c.Require("fan.cases", 40)
		c.Require("fan.invalidate-above-then-below", 30)
		c.Family("read-fault", c.N(56, 2000), runFault)
		c.Require("fault.read_failure_fired", 20)
		c.Require("reconsider.below_failed_descendant", 20)
		c.Require("tip.reorg_multiblock", 5)
		c.Require("deliver.orphan_cascade", 20)
		c.Require("check.views", 1000)
		_ = fmt.Sprint
	})
}
