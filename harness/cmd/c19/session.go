package main

import (
	"bytes"
	"errors"
	"fmt"
	"hash/fnv"
	"sync"
	"time"

	"verif/gen/memconn"
	"verif/mon"
	ref "verif/ref/refbip324"

	"github.com/btcsuite/btcd/v2transport"
)

// packet is one application-level packet of a generated stream.
type packet struct {
	contents []byte
	ignore   bool
}

// sessCfg describes one generated session.
type sessCfg struct {
	Mode     string `json:"mode"` // real-init|real-resp|real-real
	Magic    uint32 `json:"magic"`
	GarbageI int    `json:"garbage_initiator"`
	GarbageR int    `json:"garbage_responder"`
	DecoysI  []int  `json:"decoys_initiator"`
	DecoysR  []int  `json:"decoys_responder"`
	NI       int    `json:"packets_initiator_to_responder"`
	NR       int    `json:"packets_responder_to_initiator"`
	V1Match  int    `json:"v1_prefix_bytes_matched_by_initiator_key"`
	Frag     bool   `json:"fragmented_reads"`
	// Teaser: the reference peer delays its garbage until it knows its own terminator and makes the garbage end in
	// (and contain) proper prefixes of that terminator, preferably of a length m with T[m] == T[0]
	Teaser bool `json:"peer_garbage_ends_in_terminator_prefix,omitempty"`
	// Reserved: the reference peer sets random values in the seven reserved header bits of about half of its packets
	// (decoys, version packet and messages alike); a receiver must look at the ignore bit only
	Reserved bool `json:"peer_sets_reserved_header_bits,omitempty"`
}

func reservedSource(r *mon.Rand) func() byte {
	return func() byte {
		if r.Bool() {
			return 0
		}
		return byte(1 + r.Intn(127))
	}
}

// teaserGarbage rewrites the tail (and a few inner places) of g with proper prefixes of the terminator.
func teaserGarbage(r *mon.Rand, g []byte, term []byte) ([]byte, int) {
	if len(g) < 16 {
		g = append(g, r.Bytes(16+r.Intn(40)-len(g))...)
	}
	orig := append([]byte(nil), g...)
	// prefer a prefix length m at which the terminator repeats its first byte (a matcher that restarts from scratch
	// on a mismatch loses exactly these)
	var ms []int
	for m := 1; m < 16; m++ {
		if term[m] == term[0] {
			ms = append(ms, m)
		}
	}
	for try := 0; try < 20; try++ {
		c := append([]byte(nil), orig...)
		m := 1 + r.Intn(15)
		if len(ms) > 0 && try < 10 {
			m = ms[r.Intn(len(ms))]
		}
		for i := 0; i < 3 && len(c) > 40; i++ {
			j := 1 + r.Intn(15)
			at := r.Intn(len(c) - 32)
			copy(c[at:], term[:j])
		}
		copy(c[len(c)-m:], term[:m])
		// the first occurrence of the terminator in garbage || terminator must be the real one: overlapping
		// fragments, or a terminator that overlaps itself (T[15] == T[0] with m = 15), can assemble an earlier one,
		// which every conforming receiver would have to honour
		if bytes.Index(append(append([]byte(nil), c...), term...), term) == len(c) {
			return c, m
		}
	}
	return orig, 0
}

var wellKnownMagics = []uint32{0xd9b4bef9, 0x0709110b, 0xdab5bffa, 0x12141c16, 0x283f161c, 0x40cf030a}

func genGarbageLen(r *mon.Rand) int {
	switch r.Intn(5) {
	case 0:
		return 0
	case 1:
		return 1
	case 2:
		return 4094
	case 3:
		return 4095
	default:
		return r.Intn(4096)
	}
}

func genDecoys(r *mon.Rand) []int {
	n := 0
	if r.Chance(2, 3) {
		n = r.Intn(9)
	}
	out := make([]int, n)
	for i := range out {
		switch r.Intn(6) {
		case 0:
			out[i] = 0
		case 1:
			out[i] = r.Intn(3000)
		default:
			out[i] = r.Intn(64)
		}
	}
	return out
}

func genSize(r *mon.Rand) int {
	switch r.PickW([]int{600, 275, 100, 15, 10}) {
	case 0:
		return r.Intn(80)
	case 1:
		return r.Intn(1500)
	case 2:
		return []int{0, 1, 2, 15, 16, 17, 63, 64, 65, 255, 256}[r.Intn(11)]
	case 3:
		return []int{65535, 65536, 65534, 32768, 4096}[r.Intn(5)]
	default:
		return r.Intn(65537)
	}
}

func genStream(r *mon.Rand, n int) []packet {
	out := make([]packet, n)
	for i := range out {
		out[i] = packet{contents: r.Bytes(genSize(r)), ignore: r.Chance(1, 5)}
	}
	if n > 0 {
		out[n-1].ignore = false // a stream never ends in a decoy, so the receiver is never left waiting
	}
	return out
}

func streamSig(s []packet) uint64 {
	h := fnv.New64a()
	for _, p := range s {
		fmt.Fprintf(h, "%d:%v,", len(p.contents), p.ignore)
	}
	return h.Sum64()
}

// fragHook returns a read hook that delivers at most a random number of bytes per Read call.
func fragHook(r *mon.Rand) func(int) (int, error) {
	return func(want int) (int, error) {
		if want <= 1 || r.Chance(1, 3) {
			return 0, nil
		}
		return 1 + r.Intn(want), nil
	}
}

// refKeyPool is a small deterministic pool of reference key pairs (creating one costs a scalar
// multiplication on math/big); it depends on the seed only, so replay sees the same keys.
type refKey struct {
	priv [32]byte
	enc  [64]byte
}

var (
	refPoolOnce sync.Once
	refPool     []refKey
)

func pooledRefKey(c *mon.Ctx, r *mon.Rand) refKey {
	refPoolOnce.Do(func() {
		pr := mon.NewRand(c.Seed, "c19.refkeypool", 0)
		for i := 0; i < 8; i++ {
			p := randPriv(pr)
			refPool = append(refPool, refKey{p, ref.EllswiftCreate(p, pr)})
		}
	})
	return refPool[r.Intn(len(refPool))]
}

// refKeyWithV1Prefix builds a reference key whose encoding starts with the first `match` bytes of the
// v1 prefix for magic and differs at byte `match` (match < 16): u is free in ElligatorSwift.
func refKeyWithV1Prefix(r *mon.Rand, magic [4]byte, match int) refKey {
	v1 := ref.V1Prefix(magic)
	priv := randPriv(r)
	x := ref.PubX(priv)
	for {
		ub := r.Bytes(32)
		copy(ub, v1[:match])
		if match < 16 && ub[match] == v1[match] {
			ub[match] ^= byte(1 + r.Intn(255))
		}
		u := bigFromBytes(ub)
		if u.Sign() == 0 || u.Cmp(ref.P) >= 0 {
			continue
		}
		if t := ref.XElligatorSwiftWithU(x, u, r.Intn(8)); t != nil {
			return refKey{priv, ref.EllswiftEncode(u, t)}
		}
	}
}

// session is a live pairing of one real peer with a reference endpoint over a memconn, sequenced
// from a single goroutine in non-blocking mode (a Read that would block surfaces as an error).
type session struct {
	cfg      sessCfg
	real     *v2transport.Peer
	ref      *ref.Endpoint
	realConn *memconn.Conn
	refConn  *memconn.Conn
	realOut  *memconn.Recorder // everything the real peer wrote
	realInit bool
	shadow   *ref.PacketCipher // what the specification sends in the real peer's direction
}

func netOf(m uint32) v2transport.BitcoinNet { return v2transport.BitcoinNet(m) }

// handshakeRealRef performs the handshake between a real peer (initiator iff realInit) and the
// reference, and checks everything observable. It returns nil if a violation was recorded or the
// handshake could not complete.
func handshakeRealRef(k *mon.Case, cfg sessCfg, realInit bool) *session {
	r := k.Rand
	s := &session{cfg: cfg, realInit: realInit, realOut: &memconn.Recorder{}}
	magic := magicBytes(cfg.Magic)
	s.realConn, s.refConn = memconn.Pipe()
	s.realConn.SetNonBlocking(true)
	s.refConn.SetNonBlocking(true)
	hooks := memconn.CaptureWrites(s.realOut)
	if cfg.Frag {
		hooks.BeforeRead = fragHook(r.Fork())
	}
	s.realConn.SetHooks(hooks)
	s.real = v2transport.NewPeer()
	s.real.UseReadWriter(s.realConn)

	mode := "real-init"
	realGarbage, refGarbage := cfg.GarbageI, cfg.GarbageR
	realDecoys, refDecoyLens := cfg.DecoysI, cfg.DecoysR
	if !realInit {
		mode = "real-resp"
		realGarbage, refGarbage = cfg.GarbageR, cfg.GarbageI
		realDecoys, refDecoyLens = cfg.DecoysR, cfg.DecoysI
	}
	refGarb := r.Bytes(refGarbage)
	refDecoys := make([][]byte, len(refDecoyLens))
	for i, n := range refDecoyLens {
		refDecoys[i] = r.Bytes(n) // decoy contents are arbitrary
	}
	failReal := func(step string, err error) *session {
		key := "handshake:real-rejects-valid-peer:" + mode + ":" + step
		if refGarbage == ref.MaxGarbageLen && step == "CompleteHandshake" {
			key = "handshake:garbage-len-4095-rejected"
		}
		extra := ""
		if cfg.Teaser && s.ref != nil {
			extra = fmt.Sprintf("; peer garbage %x, peer terminator %x", refGarb, s.ref.SendTerm)
		}
		k.Failf(key, "%s: real %s failed against a spec-conforming peer: %v (peer garbage %d, own garbage %d, peer decoys %v, own decoys %v, magic %08x, v1match %d)%s",
			mode, step, err, refGarbage, realGarbage, refDecoyLens, realDecoys, cfg.Magic, cfg.V1Match, extra)
		return nil
	}
	failRef := func(step string, err error) *session {
		k.Failf("handshake:reference-rejects-real:"+mode+":"+step, "%s: reference %s failed on the real peer's bytes: %v (real garbage %d decoys %v)", mode, step, err, realGarbage, realDecoys)
		return nil
	}

	if realInit {
		if err := s.real.InitiateV2Handshake(realGarbage); err != nil {
			return failReal("InitiateV2Handshake", err)
		}
		rk := pooledRefKey(k.C, r)
		s.ref = ref.NewEndpoint(s.refConn, false, magic, rk.priv, rk.enc)
		if cfg.Reserved {
			s.ref.ReservedBits = reservedSource(r.Fork())
		}
		if err := s.ref.DetectV1(); err != nil {
			return failRef("DetectV1", err)
		}
		if cfg.Teaser {
			// a responder knows both keys before it sends anything
			if err := s.ref.RecvKey(); err != nil {
				return failRef("RecvKey", err)
			}
			var m int
			refGarb, m = teaserGarbage(r, refGarb, s.ref.SendTerm[:])
			refGarbage = len(refGarb)
			k.Count("handshake.peer-garbage.terminator-prefix", 1)
			if m > 0 && s.ref.SendTerm[m] == s.ref.SendTerm[0] {
				k.Count("handshake.peer-garbage.terminator-prefix-with-repeated-first-byte", 1)
			}
			if err := s.ref.SendKey(refGarb); err != nil {
				return failRef("SendKey", err)
			}
		} else {
			if err := s.ref.SendKey(refGarb); err != nil {
				return failRef("SendKey", err)
			}
			if err := s.ref.RecvKey(); err != nil {
				return failRef("RecvKey", err)
			}
		}
		if err := s.ref.SendTerminatorAndVersion(refDecoys); err != nil {
			return failRef("SendTerminatorAndVersion", err)
		}
		if err := s.real.CompleteHandshake(true, realDecoys, netOf(cfg.Magic)); err != nil {
			return failReal("CompleteHandshake", err)
		}
	} else {
		var rk refKey
		if cfg.V1Match > 0 {
			rk = refKeyWithV1Prefix(r, magic, cfg.V1Match)
		} else {
			rk = pooledRefKey(k.C, r)
		}
		s.ref = ref.NewEndpoint(s.refConn, true, magic, rk.priv, rk.enc)
		if cfg.Reserved {
			s.ref.ReservedBits = reservedSource(r.Fork())
		}
		if cfg.Teaser {
			// the initiator's key goes out alone; its garbage follows once the responder's key is known
			if err := s.ref.SendKey(nil); err != nil {
				return failRef("SendKey", err)
			}
		} else if err := s.ref.SendKey(refGarb); err != nil {
			return failRef("SendKey", err)
		}
		if err := s.real.RespondV2Handshake(realGarbage, netOf(cfg.Magic)); err != nil {
			return failReal("RespondV2Handshake", err)
		}
		if err := s.ref.RecvKey(); err != nil {
			return failRef("RecvKey", err)
		}
		if cfg.Teaser {
			var m int
			refGarb, m = teaserGarbage(r, refGarb, s.ref.SendTerm[:])
			refGarbage = len(refGarb)
			k.Count("handshake.peer-garbage.terminator-prefix", 1)
			if m > 0 && s.ref.SendTerm[m] == s.ref.SendTerm[0] {
				k.Count("handshake.peer-garbage.terminator-prefix-with-repeated-first-byte", 1)
			}
			if err := s.ref.SendGarbageLate(refGarb); err != nil {
				return failRef("SendGarbageLate", err)
			}
		}
		if err := s.ref.SendTerminatorAndVersion(refDecoys); err != nil {
			return failRef("SendTerminatorAndVersion", err)
		}
		if err := s.real.CompleteHandshake(false, realDecoys, netOf(cfg.Magic)); err != nil {
			return failReal("CompleteHandshake", err)
		}
	}
	if err := s.ref.RecvGarbageAndVersion(); err != nil {
		return failRef("RecvGarbageAndVersion", err)
	}
	// what the reference observed of the real peer
	if len(s.ref.RecvGarbage) != realGarbage {
		k.Failf("handshake:real-garbage-length", "%s: asked for %d bytes of garbage, peer saw %d", mode, realGarbage, len(s.ref.RecvGarbage))
	}
	if s.ref.RecvDecoys != len(realDecoys) {
		k.Failf("handshake:real-decoy-count", "%s: asked for %d decoys, peer saw %d", mode, len(realDecoys), s.ref.RecvDecoys)
	}
	if len(s.ref.VersionBytes) != 0 {
		k.Failf("handshake:real-version-packet-not-empty", "%s: version packet contents %x", mode, s.ref.VersionBytes)
	}
	// byte-identical handshake transcript: key || garbage || terminator || decoys || version packet
	wire := s.realOut.Bytes()
	if realInit {
		s.shadow = ref.NewPacketCipher(s.ref.Keys.InitiatorL, s.ref.Keys.InitiatorP)
	} else {
		s.shadow = ref.NewPacketCipher(s.ref.Keys.ResponderL, s.ref.Keys.ResponderP)
	}
	if len(wire) < 64+realGarbage || !bytes.Equal(wire[:64], s.ref.Theirs[:]) {
		k.Failf("handshake:wire-key", "%s: first 64 bytes written differ from the key the peer received", mode)
		return nil
	}
	garb := wire[64 : 64+realGarbage]
	exp := append([]byte(nil), s.ref.RecvTerm[:]...)
	aad := garb
	for _, n := range realDecoys {
		exp = append(exp, s.shadow.EncPacket(make([]byte, n), aad, true)...)
		aad = nil
	}
	exp = append(exp, s.shadow.EncPacket(nil, aad, false)...)
	if got := wire[64+realGarbage:]; !bytes.Equal(got, exp) {
		d := firstDiff(got, exp)
		k.Failf("handshake:ciphertext-differs-from-spec:"+mode, "%s: terminator/decoys/version bytes differ from the specification at offset %d (len got %d want %d)", mode, d, len(got), len(exp))
		return nil
	}
	s.realOut.Reset()
	if s.realConn.Buffered() != 0 {
		k.Failf("handshake:real-left-bytes-unread", "%s: %d handshake bytes not consumed by CompleteHandshake", mode, s.realConn.Buffered())
	}
	k.Count("handshake.ok."+mode, 1)
	if cfg.Reserved && s.ref.ReservedSent > 0 {
		k.Count("handshake.ok.peer-set-reserved-header-bits", 1)
	}
	k.Count(fmt.Sprintf("handshake.peer-garbage.%s", lenClass(refGarbage)), 1)
	k.Count(fmt.Sprintf("handshake.own-garbage.%s", lenClass(realGarbage)), 1)
	k.Count(fmt.Sprintf("handshake.decoys.%d", len(realDecoys)), 1)
	return s
}

func lenClass(n int) string {
	switch n {
	case 0, 1, 4094, 4095:
		return fmt.Sprint(n)
	}
	return "other"
}

func firstDiff(a, b []byte) int {
	n := min(len(a), len(b))
	for i := 0; i < n; i++ {
		if a[i] != b[i] {
			return i
		}
	}
	return n
}

// realSend sends one packet from the real peer and checks the bytes against the specification.
func (s *session) realSend(k *mon.Case, p packet, idx int) bool {
	enc, n, err := s.real.V2EncPacket(p.contents, nil, p.ignore)
	if err != nil {
		k.Failf("stream:V2EncPacket-error", "packet %d (len %d ignore %v): %v", idx, len(p.contents), p.ignore, err)
		return false
	}
	exp := s.shadow.EncPacket(p.contents, nil, p.ignore)
	wire := s.realOut.Bytes()
	s.realOut.Reset()
	if !bytes.Equal(enc, exp) || !bytes.Equal(wire, exp) || n != len(exp) {
		k.Failf("stream:ciphertext-differs-from-spec", "packet %d of this direction (len %d ignore %v, %d rekeys so far): returned/wire bytes differ from the specification at offset %d/%d (n=%d want %d)",
			idx, len(p.contents), p.ignore, idx/ref.RekeyInterval, firstDiff(enc, exp), firstDiff(wire, exp), n, len(exp))
		return false
	}
	return true
}

// refRecv receives exactly one packet at the reference side and compares it.
func (s *session) refRecv(k *mon.Case, p packet, idx int) bool {
	ign, got, _, err := s.ref.RecvPacket()
	if err != nil {
		k.Failf("stream:reference-cannot-decrypt-real", "packet %d (len %d ignore %v): %v", idx, len(p.contents), p.ignore, err)
		return false
	}
	if ign != p.ignore || !bytes.Equal(got, p.contents) {
		k.Failf("stream:real-to-reference-altered", "packet %d: sent len %d ignore %v, received len %d ignore %v", idx, len(p.contents), p.ignore, len(got), ign)
		return false
	}
	return true
}

// realRecv receives the next non-decoy packet at the real side and compares it.
func realRecv(k *mon.Case, peer *v2transport.Peer, want []byte, idx int, what string) bool {
	got, err := peer.V2ReceivePacket(nil)
	if err != nil {
		k.Failf("stream:V2ReceivePacket-error:"+what, "non-decoy packet %d (len %d): %v", idx, len(want), err)
		return false
	}
	if !bytes.Equal(got, want) {
		k.Failf("stream:delivered-altered:"+what, "non-decoy packet %d: sent len %d, delivered len %d (first difference at %d)", idx, len(want), len(got), firstDiff(got, want))
		return false
	}
	return true
}

// runStreams pushes both generated streams through the session in interleaved bursts.
func (s *session) runStreams(k *mon.Case, fromReal, fromRef []packet) bool {
	r := k.Rand
	i, j := 0, 0 // next to send from real / from ref
	for i < len(fromReal) || j < len(fromRef) {
		if i < len(fromReal) && (j >= len(fromRef) || r.Bool()) {
			n := min(1+r.Intn(48), len(fromReal)-i)
			for e := i + n; i < e; i++ {
				if !s.realSend(k, fromReal[i], i) {
					return false
				}
			}
			for e := i - n; e < i; e++ {
				if !s.refRecv(k, fromReal[e], e) {
					return false
				}
			}
		} else {
			n := min(1+r.Intn(48), len(fromRef)-j)
			start := j
			for e := j + n; j < e; j++ {
				if _, err := s.ref.SendPacket(fromRef[j].contents, fromRef[j].ignore); err != nil {
					k.Failf("harness:ref-send", "%v", err)
					return false
				}
			}
			// the real side is asked once per non-decoy whose bytes are fully buffered; a trailing run of
			// decoys stays buffered and is skipped by a later call
			for e := start; e < j; e++ {
				if fromRef[e].ignore {
					continue
				}
				if !realRecv(k, s.real, fromRef[e].contents, e, "reference-to-real") {
					return false
				}
			}
		}
	}
	if s.realConn.Buffered() != 0 || s.refConn.Buffered() != 0 {
		k.Failf("stream:bytes-left-over", "after all packets were received %d/%d bytes remain buffered", s.realConn.Buffered(), s.refConn.Buffered())
		return false
	}
	k.Count("stream.packets.peer-set-reserved-header-bits", int64(s.ref.ReservedSent))
	return true
}

func rekeys(n int) int { return n / ref.RekeyInterval }

func genSessCfg(r *mon.Rand, mode string, lo, hi int) sessCfg {
	cfg := sessCfg{Mode: mode, GarbageI: genGarbageLen(r), GarbageR: genGarbageLen(r), DecoysI: genDecoys(r), DecoysR: genDecoys(r),
		Frag: r.Chance(1, 3), Reserved: mode != "real-real" && r.Chance(1, 3)}
	if r.Chance(2, 3) {
		cfg.Magic = wellKnownMagics[r.Intn(len(wellKnownMagics))]
	} else {
		cfg.Magic = r.Uint32()
	}
	if hi > 0 {
		cfg.NI, cfg.NR = r.Range(lo, hi), r.Range(lo, hi)
	}
	return cfg
}

// realRealHandshake runs the handshake of two real peers concurrently (each blocks on the other).
func realRealHandshake(k *mon.Case, cfg sessCfg) (a, b *v2transport.Peer, ca, cb *memconn.Conn, ok bool) {
	r := k.Rand
	ca, cb = memconn.Pipe()
	// hang breaker only: a read that waits this long on an in-memory pipe is a protocol deadlock
	dl := time.Now().Add(120 * time.Second)
	ca.SetReadDeadline(dl)
	cb.SetReadDeadline(dl)
	if cfg.Frag {
		ca.SetHooks(memconn.Hooks{BeforeRead: fragHook(r.Fork())})
		cb.SetHooks(memconn.Hooks{BeforeRead: fragHook(r.Fork())})
	}
	a, b = v2transport.NewPeer(), v2transport.NewPeer()
	a.UseReadWriter(ca)
	b.UseReadWriter(cb)
	fail := func(who, step string, err error) {
		key := "handshake:real-rejects-real:" + who + ":" + step
		if step == "CompleteHandshake" && ((who == "initiator" && cfg.GarbageR == ref.MaxGarbageLen) || (who == "responder" && cfg.GarbageI == ref.MaxGarbageLen)) {
			key = "handshake:garbage-len-4095-rejected"
		}
		k.Failf(key, "real-real: %s %s failed: %v (garbage initiator %d responder %d, decoys %v / %v)", who, step, err, cfg.GarbageI, cfg.GarbageR, cfg.DecoysI, cfg.DecoysR)
	}
	// the first two steps are sequenced here (a read that would wait is an error) ...
	ca.SetNonBlocking(true)
	cb.SetNonBlocking(true)
	if err := a.InitiateV2Handshake(cfg.GarbageI); err != nil {
		fail("initiator", "InitiateV2Handshake", err)
		return
	}
	if err := b.RespondV2Handshake(cfg.GarbageR, netOf(cfg.Magic)); err != nil {
		fail("responder", "RespondV2Handshake", err)
		return
	}
	// ... the two CompleteHandshake calls need each other's output and run concurrently on blocking reads, one
	// goroutine per end: mutual waiting is then an exact deadlock verdict (memconn.ErrDeadlock), not a timeout
	ca.SetNonBlocking(false)
	cb.SetNonBlocking(false)
	ca.SetDeadlockDetection(true)
	defer ca.SetDeadlockDetection(false)
	errs := make([]error, 2)
	var wg sync.WaitGroup
	wg.Add(2)
	run := func(i int, p *v2transport.Peer, c, other *memconn.Conn, init bool, decoys []int) {
		defer wg.Done()
		// whoever finishes has written all it ever will: from then on a read of the other side that would
		// block is a stall and must surface as an error instead of hanging
		defer other.SetNonBlocking(true)
		defer func() {
			if rec := recover(); rec != nil {
				errs[i] = fmt.Errorf("panic: %v", rec)
				c.Close()
			}
		}()
		errs[i] = p.CompleteHandshake(init, decoys, netOf(cfg.Magic))
		if errs[i] != nil {
			c.Close() // unblocks the other side
		}
	}
	go run(0, a, ca, cb, true, cfg.DecoysI)
	go run(1, b, cb, ca, false, cfg.DecoysR)
	wg.Wait()
	if errs[0] != nil || errs[1] != nil {
		// report the side that failed on its own (the other one usually just sees the close)
		who, err := "initiator", errs[0]
		if errs[0] == nil || (errs[1] != nil && isCloseErr(errs[0]) && !isCloseErr(errs[1])) {
			who, err = "responder", errs[1]
		}
		fail(who, "CompleteHandshake", fmt.Errorf("%v (initiator: %v, responder: %v)", err, errs[0], errs[1]))
		return
	}
	ca.SetReadDeadline(time.Time{})
	cb.SetReadDeadline(time.Time{})
	if ca.Buffered() != 0 || cb.Buffered() != 0 {
		k.Failf("handshake:real-left-bytes-unread", "real-real: %d/%d bytes left after both handshakes completed", ca.Buffered(), cb.Buffered())
		return
	}
	k.Count("handshake.ok.real-real", 1)
	return a, b, ca, cb, true
}

func isCloseErr(err error) bool {
	return err != nil && (errors.Is(err, errEOF) || errors.Is(err, errClosedPipe))
}

// runStreamsRealReal: after a concurrent handshake the stream phase is sequenced from one goroutine
// in non-blocking mode. Ciphertext cannot be predicted here (both private keys are internal to btcd), so
// the oracle is delivery (contents, order, decoys dropped) plus the exact wire length.
func runStreamsRealReal(k *mon.Case, a, b *v2transport.Peer, ca, cb *memconn.Conn, ab, ba []packet) bool {
	r := k.Rand
	ca.SetNonBlocking(true)
	cb.SetNonBlocking(true)
	type dir struct {
		tx, rx *v2transport.Peer
		txc    *memconn.Conn
		s      []packet
		i      int
		name   string
	}
	ds := []*dir{{a, b, ca, ab, 0, "initiator-to-responder"}, {b, a, cb, ba, 0, "responder-to-initiator"}}
	for ds[0].i < len(ds[0].s) || ds[1].i < len(ds[1].s) {
		d := ds[r.Intn(2)]
		if d.i >= len(d.s) {
			continue
		}
		n := min(1+r.Intn(48), len(d.s)-d.i)
		start := d.i
		for e := d.i + n; d.i < e; d.i++ {
			p := d.s[d.i]
			before := d.txc.BytesWritten()
			enc, nw, err := d.tx.V2EncPacket(p.contents, nil, p.ignore)
			want := 3 + 1 + len(p.contents) + 16
			if err != nil || nw != want || len(enc) != want || int(d.txc.BytesWritten()-before) != want {
				k.Failf("stream:V2EncPacket-length", "%s packet %d (len %d): err=%v n=%d len=%d wire=%d want %d", d.name, d.i, len(p.contents), err, nw, len(enc), d.txc.BytesWritten()-before, want)
				return false
			}
		}
		for e := start; e < d.i; e++ {
			if d.s[e].ignore {
				continue
			}
			if !realRecv(k, d.rx, d.s[e].contents, e, "real-to-real") {
				return false
			}
		}
	}
	if ca.Buffered() != 0 || cb.Buffered() != 0 {
		k.Failf("stream:bytes-left-over", "real-real: %d/%d bytes remain buffered", ca.Buffered(), cb.Buffered())
		return false
	}
	return true
}

func sessionFamilies(c *mon.Ctx) {
	// --- handshake only: many cheap cases over roles x garbage lengths x decoys x v1-prefix look-alike keys
	c.Family("handshake", scaled(c, 1200, 80000), func(k *mon.Case) {
		r := k.Rand
		mode := []string{"real-init", "real-resp", "real-real"}[r.PickW([]int{4, 5, 3})]
		cfg := genSessCfg(r, mode, 0, 0)
		if mode == "real-resp" && r.Chance(1, 3) {
			cfg.V1Match = 1 + r.Intn(15) // initiator key shares 1..15 leading bytes with the v1 version header
		}
		if mode != "real-real" && r.Chance(1, 2) {
			cfg.Teaser = true
			if g := &cfg.GarbageR; mode == "real-init" && *g > 4000 {
				*g = r.Intn(200)
			}
			if g := &cfg.GarbageI; mode == "real-resp" && *g > 4000 {
				*g = r.Intn(200)
			}
		}
		k.Desc(cfg)
		nontrivial := false
		switch mode {
		case "real-real":
			a, b, ca, cb, ok := realRealHandshake(k, cfg)
			if ok {
				// one packet each way proves both ends hold matching keys
				nontrivial = runStreamsRealReal(k, a, b, ca, cb, []packet{{r.Bytes(r.Intn(50)), false}}, []packet{{r.Bytes(r.Intn(50)), false}})
			}
		default:
			if s := handshakeRealRef(k, cfg, mode == "real-init"); s != nil {
				nontrivial = s.runStreams(k, genStream(r, 1+r.Intn(3)), genStream(r, 1+r.Intn(3)))
				if cfg.V1Match > 0 && nontrivial {
					k.Count("handshake.v1-lookalike-key", 1)
				}
			}
		}
		k.Eval(mon.Sig("hs", mode, cfg.GarbageI, cfg.GarbageR, fmt.Sprint(cfg.DecoysI), fmt.Sprint(cfg.DecoysR), cfg.V1Match, cfg.Magic), nontrivial)
	})

	// --- full sessions with long streams (>= 3 rekeys per direction)
	c.Family("stream", scaled(c, 168, 6000), func(k *mon.Case) {
		r := k.Rand
		mode := []string{"real-init", "real-resp", "real-real"}[r.PickW([]int{2, 2, 1})]
		cfg := genSessCfg(r, mode, 700, 2000)
		k.Desc(cfg)
		si, sr := genStream(r, cfg.NI), genStream(r, cfg.NR)
		ok := false
		switch mode {
		case "real-real":
			if a, b, ca, cb, hs := realRealHandshake(k, cfg); hs {
				ok = runStreamsRealReal(k, a, b, ca, cb, si, sr)
			}
		case "real-init":
			if s := handshakeRealRef(k, cfg, true); s != nil {
				ok = s.runStreams(k, si, sr)
			}
		default:
			if s := handshakeRealRef(k, cfg, false); s != nil {
				ok = s.runStreams(k, sr, si)
			}
		}
		if ok {
			k.Count("stream.sessions."+mode, 1)
			k.Count("stream.packets", int64(cfg.NI+cfg.NR))
			k.Count("stream.rekeys", int64(rekeys(cfg.NI)+rekeys(cfg.NR)))
			if rekeys(cfg.NI) >= 3 && rekeys(cfg.NR) >= 3 {
				k.Count("stream.sessions.3+rekeys-both-directions", 1)
			}
			var bytesTotal int64
			for _, p := range si {
				bytesTotal += int64(len(p.contents))
			}
			for _, p := range sr {
				bytesTotal += int64(len(p.contents))
			}
			k.Count("stream.content-bytes", bytesTotal)
		}
		k.Eval(mon.Sig("stream", mode, cfg.GarbageI, cfg.GarbageR, len(cfg.DecoysI), len(cfg.DecoysR), cfg.NI, cfg.NR, streamSig(si), streamSig(sr)), ok)
		if ok {
			k.Sample(map[string]any{"family": "stream", "cfg": cfg, "rekeys": []int{rekeys(cfg.NI), rekeys(cfg.NR)}})
		}
	})

	// --- content length limits: 2^24-1 accepted and interoperable, 2^24 refused without disturbing the session
	c.Family("stream.maxlen", scaled(c, 2, 24), func(k *mon.Case) {
		r := k.Rand
		cfg := genSessCfg(r, []string{"real-init", "real-resp"}[k.Index%2], 0, 0)
		cfg.GarbageI, cfg.GarbageR = r.Intn(4095), r.Intn(4095) // the 4095 boundary is the handshake family's business
		k.Desc(cfg)
		s := handshakeRealRef(k, cfg, cfg.Mode == "real-init")
		if s == nil {
			return
		}
		big := make([]byte, ref.MaxContentsLen+1) // one byte more than the 3-byte length field can express
		r.Fill(big[:4096])
		before := s.realOut.Len()
		if _, _, err := s.real.V2EncPacket(big, nil, false); err == nil {
			k.Failf("stream:oversize-contents-accepted", "V2EncPacket accepted %d bytes of contents (3-byte length field)", len(big))
			return
		}
		if s.realOut.Len() != before {
			k.Failf("stream:oversize-contents-wrote-bytes", "refused V2EncPacket still wrote %d bytes", s.realOut.Len()-before)
			return
		}
		// the refusal must not have disturbed the cipher state: the session goes on; the largest legal packet
		// (2^24-1 bytes) crosses in both directions in the thorough tier, a 1 MiB one in the quick tier
		// (first touch of a few hundred MiB of fresh memory is what makes the full-size case expensive)
		n := 1 << 20
		if k.C.Thorough() {
			n = ref.MaxContentsLen
		}
		ok := s.runStreams(k, []packet{{r.Bytes(3), false}, {big[:n], r.Bool()}, {r.Bytes(5), false}},
			[]packet{{big[1 : 1+n], false}, {nil, false}})
		if ok {
			k.Count("stream.maxlen", 1)
		}
		k.Eval(mon.Sig("maxlen", cfg.Mode, k.Index), ok)
	})

	c.Require("handshake.ok.real-init", 100)
	c.Require("handshake.ok.real-resp", 100)
	c.Require("handshake.ok.real-real", 60)
	c.Require("handshake.v1-lookalike-key", 40)
	c.Require("handshake.peer-garbage.4094", 10)
	c.Require("handshake.peer-garbage.terminator-prefix", 100)
	c.Require("handshake.peer-garbage.terminator-prefix-with-repeated-first-byte", 5)
	c.Require("handshake.own-garbage.4095", 30)
	c.Require("stream.sessions.real-init", 20)
	c.Require("stream.sessions.real-resp", 20)
	c.Require("stream.sessions.real-real", 10)
	c.Require("stream.sessions.3+rekeys-both-directions", 30)
	c.Require("stream.maxlen", 1)
	c.Require("handshake.ok.peer-set-reserved-header-bits", 50)
	c.Require("stream.packets.peer-set-reserved-header-bits", 500)
}
