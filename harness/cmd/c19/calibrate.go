package main

import (
	"bytes"
	"encoding/hex"
	"encoding/json"
	"fmt"
	"math/big"
	"os"
	"path/filepath"

	"verif/gen/memconn"
	"verif/mon"
	ref "verif/ref/refbip324"
)

const mainNetMagic = 0xd9b4bef9

func vectorsDir() string {
	h := os.Getenv("VERIF_HOME")
	if h == "" {
		h = "/verif"
	}
	return filepath.Join(h, "vectors", "bip324")
}

func loadVectors(name string, into any) error {
	b, err := os.ReadFile(filepath.Join(vectorsDir(), name))
	if err != nil {
		return err
	}
	var wrap struct {
		Vectors json.RawMessage `json:"vectors"`
	}
	if err := json.Unmarshal(b, &wrap); err != nil {
		return err
	}
	return json.Unmarshal(wrap.Vectors, into)
}

func unhex(s string) []byte {
	b, err := hex.DecodeString(s)
	if err != nil {
		panic(err)
	}
	return b
}

func hexInt(s string) *big.Int {
	v, ok := new(big.Int).SetString(s, 16)
	if !ok {
		panic("bad hex int " + s)
	}
	return v
}

func to32(b []byte) (o [32]byte) { copy(o[:], b); return }
func to64(b []byte) (o [64]byte) { copy(o[:], b); return }
func to16(b []byte) (o [16]byte) { copy(o[:], b); return }

type packetVector struct {
	InIdx                 int    `json:"inIdx"`
	InPrivOurs            string `json:"inPrivOurs"`
	InEllswiftOurs        string `json:"inEllswiftOurs"`
	InEllswiftTheirs      string `json:"inEllswiftTheirs"`
	InInitiating          bool   `json:"inInitiating"`
	InContents            string `json:"inContents"`
	InMultiply            int    `json:"inMultiply"`
	InAad                 string `json:"inAad"`
	InIgnore              bool   `json:"inIgnore"`
	MidXOurs              string `json:"midXOurs"`
	MidXTheirs            string `json:"midXTheirs"`
	MidXShared            string `json:"midXShared"`
	MidSharedSecret       string `json:"midSharedSecret"`
	MidInitiatorL         string `json:"midInitiatorL"`
	MidInitiatorP         string `json:"midInitiatorP"`
	MidResponderL         string `json:"midResponderL"`
	MidResponderP         string `json:"midResponderP"`
	MidSendGarbageTerm    string `json:"midSendGarbageTerm"`
	MidRecvGarbageTerm    string `json:"midRecvGarbageTerm"`
	OutSessionID          string `json:"outSessionID"`
	OutCiphertext         string `json:"outCiphertext"`
	OutCiphertextEndsWith string `json:"outCiphertextEndsWith"`
}

type decodeVector struct {
	Ellswift string `json:"ellswift"`
	X        string `json:"x"`
}

type invVector struct {
	U     string   `json:"u"`
	X     string   `json:"x"`
	Cases []string `json:"cases"`
}

func magicBytes(m uint32) [4]byte {
	return [4]byte{byte(m), byte(m >> 8), byte(m >> 16), byte(m >> 24)}
}

// calibrate checks the reference implementation against the published BIP324 vectors (as shipped
// inside the repository's tests and frozen under /verif/vectors/bip324) and against itself.
func calibrate(c *mon.Ctx) {
	var pv []packetVector
	var dv []decodeVector
	var iv []invVector
	e1 := loadVectors("packet_encoding.json", &pv)
	e2 := loadVectors("ellswift_decode.json", &dv)
	e3 := loadVectors("xswiftec_inv.json", &iv)
	if e1 != nil || e2 != nil || e3 != nil || len(pv) != 7 || len(dv) < 70 || len(iv) < 30 {
		c.Violation("calibrate.load", 0, "calibration:vectors-unreadable",
			fmt.Sprintf("%v %v %v (%d %d %d)", e1, e2, e3, len(pv), len(dv), len(iv)), nil)
		return
	}

	c.Family("calibrate.decode", int64(len(dv)), func(k *mon.Case) {
		v := dv[k.Index]
		k.Desc(v)
		got := ref.EllswiftDecode(to64(unhex(v.Ellswift)))
		if got.Cmp(hexInt(v.X)) != 0 {
			k.Failf("calibration:xswiftec", "ellswift %s: got %x want %s", v.Ellswift, got, v.X)
		}
		k.Count("calibrate.decode", 1)
	})

	c.Family("calibrate.inv", int64(len(iv)), func(k *mon.Case) {
		v := iv[k.Index]
		k.Desc(v)
		u, x := hexInt(v.U), hexInt(v.X)
		for cs := 0; cs < 8; cs++ {
			t := ref.XSwiftECInv(x, u, cs)
			want := v.Cases[cs]
			switch {
			case t == nil && want == "":
			case t == nil || want == "" || t.Cmp(hexInt(want)) != 0:
				k.Failf("calibration:xswiftec_inv", "u=%s x=%s case %d: got %v want %q", v.U, v.X, cs, t, want)
			default:
				if ref.XSwiftEC(u, t).Cmp(x) != 0 {
					k.Failf("calibration:xswiftec_inv-roundtrip", "u=%s x=%s case %d", v.U, v.X, cs)
				}
			}
			k.Count("calibrate.inv", 1)
		}
	})

	c.Family("calibrate.packet", int64(len(pv)), func(k *mon.Case) {
		v := pv[k.Index]
		k.Desc(map[string]any{"vector_idx": v.InIdx, "initiating": v.InInitiating})
		priv := to32(unhex(v.InPrivOurs))
		ours, theirs := to64(unhex(v.InEllswiftOurs)), to64(unhex(v.InEllswiftTheirs))
		bad := func(what string, got, want any) {
			k.Failf("calibration:packet-vector:"+what, "vector idx %d: got %x want %v", v.InIdx, got, want)
		}
		if x := ref.PubX(priv); x.Cmp(hexInt(v.MidXOurs)) != 0 {
			bad("x_ours", x, v.MidXOurs)
		}
		if x := ref.EllswiftDecode(ours); x.Cmp(hexInt(v.MidXOurs)) != 0 {
			bad("decode_ours", x, v.MidXOurs)
		}
		if x := ref.EllswiftDecode(theirs); x.Cmp(hexInt(v.MidXTheirs)) != 0 {
			bad("decode_theirs", x, v.MidXTheirs)
		}
		if x := ref.EllswiftECDHXOnly(theirs, priv); !bytes.Equal(x[:], unhex(v.MidXShared)) {
			bad("x_shared", x, v.MidXShared)
		}
		secret := ref.V2ECDH(priv, theirs, ours, v.InInitiating)
		if !bytes.Equal(secret[:], unhex(v.MidSharedSecret)) {
			bad("shared_secret", secret, v.MidSharedSecret)
		}
		ks := ref.DeriveKeys(secret, magicBytes(mainNetMagic))
		for _, f := range []struct {
			n    string
			g    []byte
			want string
		}{
			{"initiator_L", ks.InitiatorL[:], v.MidInitiatorL}, {"initiator_P", ks.InitiatorP[:], v.MidInitiatorP},
			{"responder_L", ks.ResponderL[:], v.MidResponderL}, {"responder_P", ks.ResponderP[:], v.MidResponderP},
			{"session_id", ks.SessionID[:], v.OutSessionID},
		} {
			if !bytes.Equal(f.g, unhex(f.want)) {
				bad(f.n, f.g, f.want)
			}
		}
		// the endpoint wiring (which keys/terminators belong to which role) is checked through the Endpoint type
		ep := ref.NewEndpoint(nil, v.InInitiating, magicBytes(mainNetMagic), priv, ours)
		ep.SetTheirs(theirs)
		if !bytes.Equal(ep.SendTerm[:], unhex(v.MidSendGarbageTerm)) {
			bad("send_garbage_terminator", ep.SendTerm, v.MidSendGarbageTerm)
		}
		if !bytes.Equal(ep.RecvTerm[:], unhex(v.MidRecvGarbageTerm)) {
			bad("recv_garbage_terminator", ep.RecvTerm, v.MidRecvGarbageTerm)
		}
		// a receiver with the same keys decrypts everything the sender produces
		var rx *ref.PacketCipher
		if v.InInitiating {
			rx = ref.NewPacketCipher(ks.InitiatorL, ks.InitiatorP)
		} else {
			rx = ref.NewPacketCipher(ks.ResponderL, ks.ResponderP)
		}
		open := func(pkt, aad, want []byte, ign bool) {
			n := rx.DecLength(pkt[:3])
			if n != len(want) || len(pkt) != 3+1+n+16 {
				bad("self-decrypt-length", n, len(want))
				return
			}
			hdr, got, ok := rx.DecBody(pkt[3:], aad)
			if !ok || !bytes.Equal(got, want) || (hdr&ref.IgnoreBit != 0) != ign {
				bad("self-decrypt", ok, "true")
			}
		}
		for i := 0; i < v.InIdx; i++ {
			open(ep.Send.EncPacket(nil, nil, false), nil, nil, false)
		}
		contents := bytes.Repeat(unhex(v.InContents), v.InMultiply)
		aad := unhex(v.InAad)
		ct := ep.Send.EncPacket(contents, aad, v.InIgnore)
		open(ct, aad, contents, v.InIgnore)
		if v.OutCiphertext != "" && !bytes.Equal(ct, unhex(v.OutCiphertext)) {
			bad("ciphertext", ct[:min(len(ct), 64)], v.OutCiphertext)
		}
		if v.OutCiphertextEndsWith != "" && !bytes.HasSuffix(ct, unhex(v.OutCiphertextEndsWith)) {
			bad("ciphertext-suffix", ct[len(ct)-32:], v.OutCiphertextEndsWith)
		}
		k.Count("calibrate.packet", 1)
	})

	// reference against reference over the in-memory connection, both driven by Handshake() in goroutines
	c.Family("calibrate.selfloop", 4, func(k *mon.Case) {
		r := k.Rand
		magic := magicBytes(r.Uint32())
		ga, gb := []int{0, 4095, 17, 4094}[k.Index], []int{4095, 0, 4094, 1}[k.Index]
		ca, cb := memconn.Pipe()
		pa, pb := randPriv(r), randPriv(r)
		a := ref.NewEndpoint(ca, true, magic, pa, ref.EllswiftCreate(pa, r))
		b := ref.NewEndpoint(cb, false, magic, pb, ref.EllswiftCreate(pb, r))
		k.Desc(map[string]any{"ga": ga, "gb": gb})
		errc := make(chan error, 1)
		garbA, garbB := r.Bytes(ga), r.Bytes(gb)
		decA, decB := [][]byte{r.Bytes(5), nil}, [][]byte{}
		go func() {
			err := b.Handshake(garbB, decB)
			if err != nil {
				cb.Close()
			}
			errc <- err
		}()
		err := a.Handshake(garbA, decA)
		if err != nil {
			ca.Close()
		}
		if err2 := <-errc; err != nil || err2 != nil {
			k.Failf("calibration:selfloop-handshake", "ga=%d gb=%d: %v / %v", ga, gb, err, err2)
			return
		}
		if a.Keys != b.Keys || !bytes.Equal(b.RecvGarbage, garbA) || !bytes.Equal(a.RecvGarbage, garbB) || b.RecvDecoys != 2 || a.RecvDecoys != 0 {
			k.Failf("calibration:selfloop-state", "keys/garbage/decoys differ")
		}
		for i := 0; i < 500; i++ {
			m, ign := r.Bytes(r.Intn(40)), r.Chance(1, 4)
			a.SendPacket(m, ign)
			gi, gm, _, err := b.RecvPacket()
			if err != nil || gi != ign || !bytes.Equal(gm, m) {
				k.Failf("calibration:selfloop-stream", "packet %d: %v", i, err)
				return
			}
		}
		k.Count("calibrate.selfloop", 1)
	})
	// the Jacobian scalar multiplication used for speed equals the textbook affine one
	c.Family("calibrate.scalarmult", 12, func(k *mon.Case) {
		r := k.Rand
		sc := new(big.Int).SetBytes(r.Bytes(32))
		switch k.Index {
		case 0:
			sc = big.NewInt(1)
		case 1:
			sc = big.NewInt(2)
		case 2:
			sc = new(big.Int).Sub(ref.N, big.NewInt(1))
		case 3:
			sc = new(big.Int).Add(ref.N, big.NewInt(5))
		}
		pt := ref.Point{X: ref.Gx, Y: ref.Gy}
		if k.Index%2 == 1 {
			x, _ := onCurveX(r)
			pt, _ = ref.LiftX(x)
		}
		k.Desc(map[string]any{"scalar": sc.Text(16), "x": pt.X.Text(16)})
		a, b := pt.Mul(sc), pt.MulAffine(sc)
		if a.Inf != b.Inf || a.X.Cmp(b.X) != 0 || a.Y.Cmp(b.Y) != 0 {
			k.Failf("calibration:scalarmult", "k=%x P.x=%x: jacobian %x affine %x", sc, pt.X, a.X, b.X)
		}
		g := new(big.Int).Mod(new(big.Int).Add(new(big.Int).Exp(a.X, big.NewInt(3), ref.P), big.NewInt(7)), ref.P)
		if new(big.Int).Exp(a.Y, big.NewInt(2), ref.P).Cmp(g) != 0 {
			k.Failf("calibration:scalarmult-off-curve", "k=%x", sc)
		}
		k.Count("calibrate.scalarmult", 1)
	})
	c.Require("calibrate.scalarmult", 12)
	c.Require("calibrate.decode", 70)
	c.Require("calibrate.inv", 200)
	c.Require("calibrate.packet", 7)
	c.Require("calibrate.selfloop", 4)
}

// randPriv draws a private key in [1, n-1].
func randPriv(r *mon.Rand) [32]byte {
	for {
		var b [32]byte
		r.Fill(b[:])
		v := new(big.Int).SetBytes(b[:])
		if v.Sign() != 0 && v.Cmp(ref.N) < 0 {
			return b
		}
	}
}
