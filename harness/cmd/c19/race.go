package main

import (
	"bytes"
	"fmt"
	"io"
	"sync"
	"time"

	"verif/gen/memconn"
	"verif/mon"
	ref "verif/ref/refbip324"

	"github.com/btcsuite/btcd/v2transport"
)

// Concurrent use of one Peer: a sender goroutine and a receiver goroutine per peer, both directions at
// once, over blocking connections. The Go race detector is the monitor for the Peer's internals; contents
// and order are checked as in the sequential families.

type raceResult struct {
	who string
	err error
}

func realSendLoop(p *v2transport.Peer, s []packet, peerConn *memconn.Conn, who string, out chan<- raceResult) {
	// once everything is written the receiving end must never have to wait again: a read that would block from
	// now on is a stall and surfaces as memconn.ErrWouldBlock instead of hanging
	defer peerConn.SetNonBlocking(true)
	defer func() {
		if r := recover(); r != nil {
			out <- raceResult{who, fmt.Errorf("panic: %v", r)}
		}
	}()
	for i, pk := range s {
		if _, _, err := p.V2EncPacket(pk.contents, nil, pk.ignore); err != nil {
			out <- raceResult{who, fmt.Errorf("V2EncPacket %d: %w", i, err)}
			return
		}
	}
	out <- raceResult{who, nil}
}

func realRecvLoop(p *v2transport.Peer, s []packet, who string, out chan<- raceResult) {
	defer func() {
		if r := recover(); r != nil {
			out <- raceResult{who, fmt.Errorf("panic: %v", r)}
		}
	}()
	for i, pk := range s {
		if pk.ignore {
			continue
		}
		got, err := p.V2ReceivePacket(nil)
		if err != nil {
			out <- raceResult{who, fmt.Errorf("V2ReceivePacket before packet %d: %w", i, err)}
			return
		}
		if !bytes.Equal(got, pk.contents) {
			out <- raceResult{who, fmt.Errorf("packet %d delivered altered (len %d want %d)", i, len(got), len(pk.contents))}
			return
		}
	}
	out <- raceResult{who, nil}
}

func refSendLoop(c io.Writer, tx *ref.PacketCipher, s []packet, peerConn *memconn.Conn, who string, out chan<- raceResult) {
	defer peerConn.SetNonBlocking(true)
	for i, pk := range s {
		if _, err := c.Write(tx.EncPacket(pk.contents, nil, pk.ignore)); err != nil {
			out <- raceResult{who, fmt.Errorf("write %d: %w", i, err)}
			return
		}
	}
	out <- raceResult{who, nil}
}

func refRecvLoop(c io.Reader, rx, shadow *ref.PacketCipher, s []packet, who string, out chan<- raceResult) {
	for i, pk := range s {
		// the specification fixes the exact bytes of the next packet: read that many and compare first, so that a
		// sender that deviates cannot make this loop wait for a mis-decoded length
		want := shadow.EncPacket(pk.contents, nil, pk.ignore)
		got := make([]byte, len(want))
		if _, err := io.ReadFull(c, got); err != nil {
			out <- raceResult{who, fmt.Errorf("read packet %d: %w", i, err)}
			return
		}
		if !bytes.Equal(want, got) {
			out <- raceResult{who, fmt.Errorf("packet %d: ciphertext differs from the specification at offset %d", i, firstDiff(got, want))}
			return
		}
		n := rx.DecLength(got[:3])
		hdr, pt, ok := rx.DecBody(got[3:], nil)
		if n != len(pk.contents) || !ok || (hdr&ref.IgnoreBit != 0) != pk.ignore || !bytes.Equal(pt, pk.contents) {
			out <- raceResult{who, fmt.Errorf("packet %d: reference cannot decrypt / contents differ (ok=%v len=%d)", i, ok, n)}
			return
		}
	}
	out <- raceResult{who, nil}
}

// guard turns a panic inside a handshake goroutine into an error and closes the connection so the peer unblocks.
func guard(errp *error, c *memconn.Conn) {
	if r := recover(); r != nil {
		*errp = fmt.Errorf("panic: %v", r)
		c.Close()
	}
}

func raceFamilies(c *mon.Ctx) {
	c.Family("concurrent", scaled(c, 24, 600), func(k *mon.Case) {
		r := k.Rand
		mode := []string{"real-real", "real-init", "real-resp"}[r.Intn(3)]
		cfg := genSessCfg(r, mode, 460, 720)
		// the known 4095 boundary is the handshake family's finding; keep this family about concurrency
		if cfg.GarbageI == ref.MaxGarbageLen {
			cfg.GarbageI = 4094
		}
		if cfg.GarbageR == ref.MaxGarbageLen {
			cfg.GarbageR = 4094
		}
		k.Desc(cfg)
		gen := func(n int) []packet {
			out := make([]packet, n)
			for i := range out {
				sz := r.Intn(60)
				if r.Chance(1, 40) {
					sz = r.Intn(20000)
				}
				out[i] = packet{r.Bytes(sz), r.Chance(1, 5)}
			}
			out[n-1].ignore = false
			return out
		}
		si, sr := gen(cfg.NI), gen(cfg.NR) // initiator->responder, responder->initiator
		ca, cb := memconn.Pipe()
		dl := time.Now().Add(1200 * time.Second) // hang breaker only
		ca.SetReadDeadline(dl)
		cb.SetReadDeadline(dl)
		ca.SetHooks(memconn.Hooks{BeforeRead: fragHook(r.Fork())})
		cb.SetHooks(memconn.Hooks{BeforeRead: fragHook(r.Fork())})
		// handshake phase: one goroutine per end, so mutual waiting is an exact deadlock verdict
		ca.SetDeadlockDetection(true)
		res := make(chan raceResult, 4)
		closeAll := func() { ca.Close(); cb.Close() }
		report := func(n int) bool {
			ok := true
			for i := 0; i < n; i++ {
				x := <-res
				if x.err != nil && ok {
					ok = false
					closeAll() // unblock the others
					k.Failf("concurrent:"+mode+":"+x.who, "%v", x.err)
				}
			}
			return ok
		}
		switch mode {
		case "real-real":
			a, b := v2transport.NewPeer(), v2transport.NewPeer()
			a.UseReadWriter(ca)
			b.UseReadWriter(cb)
			var wg sync.WaitGroup
			errs := make([]error, 2)
			wg.Add(2)
			go func() {
				defer wg.Done()
				defer guard(&errs[0], ca)
				defer cb.SetNonBlocking(true)
				if errs[0] = a.InitiateV2Handshake(cfg.GarbageI); errs[0] == nil {
					errs[0] = a.CompleteHandshake(true, cfg.DecoysI, netOf(cfg.Magic))
				}
				if errs[0] != nil {
					ca.Close()
				}
			}()
			go func() {
				defer wg.Done()
				defer guard(&errs[1], cb)
				defer ca.SetNonBlocking(true)
				if errs[1] = b.RespondV2Handshake(cfg.GarbageR, netOf(cfg.Magic)); errs[1] == nil {
					errs[1] = b.CompleteHandshake(false, cfg.DecoysR, netOf(cfg.Magic))
				}
				if errs[1] != nil {
					cb.Close()
				}
			}()
			wg.Wait()
			if errs[0] != nil || errs[1] != nil {
				k.Failf("concurrent:real-real:handshake", "initiator: %v, responder: %v", errs[0], errs[1])
				return
			}
			ca.SetDeadlockDetection(false) // from here on each end has a sender and a receiver goroutine
			ca.SetNonBlocking(false)
			cb.SetNonBlocking(false)
			go realSendLoop(a, si, cb, "initiator-send", res)
			go realRecvLoop(b, si, "responder-recv", res)
			go realSendLoop(b, sr, ca, "responder-send", res)
			go realRecvLoop(a, sr, "initiator-recv", res)
		default:
			realInit := mode == "real-init"
			p := v2transport.NewPeer()
			p.UseReadWriter(ca)
			rk := pooledRefKey(k.C, r)
			ep := ref.NewEndpoint(cb, !realInit, magicBytes(cfg.Magic), rk.priv, rk.enc)
			var wg sync.WaitGroup
			var e1, e2 error
			wg.Add(2)
			go func() {
				defer wg.Done()
				defer guard(&e1, ca)
				defer cb.SetNonBlocking(true)
				if realInit {
					if e1 = p.InitiateV2Handshake(cfg.GarbageI); e1 == nil {
						e1 = p.CompleteHandshake(true, cfg.DecoysI, netOf(cfg.Magic))
					}
				} else {
					if e1 = p.RespondV2Handshake(cfg.GarbageR, netOf(cfg.Magic)); e1 == nil {
						e1 = p.CompleteHandshake(false, cfg.DecoysR, netOf(cfg.Magic))
					}
				}
				if e1 != nil {
					ca.Close()
				}
			}()
			go func() {
				defer wg.Done()
				defer guard(&e2, cb)
				defer ca.SetNonBlocking(true)
				g, d := cfg.GarbageR, cfg.DecoysR
				if !realInit {
					g, d = cfg.GarbageI, cfg.DecoysI
				}
				garb := make([]byte, g)
				decoys := make([][]byte, len(d))
				for i := range d {
					decoys[i] = make([]byte, d[i])
				}
				if e2 = ep.Handshake(garb, decoys); e2 != nil {
					cb.Close()
				}
			}()
			wg.Wait()
			if e1 != nil || e2 != nil {
				k.Failf("concurrent:"+mode+":handshake", "real: %v, reference: %v", e1, e2)
				return
			}
			fromReal, fromRef := si, sr
			if !realInit {
				fromReal, fromRef = sr, si
			}
			// the real peer's direction is also checked byte for byte against the specification
			shadow := ep.Recv.Clone()
			ca.SetDeadlockDetection(false)
			ca.SetNonBlocking(false)
			cb.SetNonBlocking(false)
			go realSendLoop(p, fromReal, cb, "real-send", res)
			go refRecvLoop(cb, ep.Recv, shadow, fromReal, "reference-recv", res)
			go refSendLoop(cb, ep.Send, fromRef, ca, "reference-send", res)
			go realRecvLoop(p, fromRef, "real-recv", res)
		}
		ok := report(4)
		if ok {
			k.Count("concurrent.sessions."+mode, 1)
			k.Count("concurrent.packets", int64(cfg.NI+cfg.NR))
			k.Count("concurrent.rekeys", int64(rekeys(cfg.NI)+rekeys(cfg.NR)))
		}
		closeAll()
		k.Eval(mon.Sig("concurrent", mode, cfg.NI, cfg.NR, streamSig(si), streamSig(sr)), ok)
	})
	c.Require("concurrent.sessions.real-real", 2)
	c.Require("concurrent.packets", 5000)
}
