package main

import (
	"bytes"
	"errors"
	"fmt"
	"io"

	"verif/gen/memconn"
	"verif/mon"
	ref "verif/ref/refbip324"

	"github.com/btcsuite/btcd/btcec/v2"
	"github.com/btcsuite/btcd/btcec/v2/ellswift"
	"github.com/btcsuite/btcd/v2transport"
)

// tpkt is one packet of the tampered direction (reference -> real) with its place in the byte stream.
type tpkt struct {
	kind       string // decoy | version | app
	contents   []byte
	ignore     bool
	start, end int
}

// span is a byte class of the stream.
type span struct {
	class      string
	start, end int
}

// layout computes packet offsets and byte classes from lengths alone (no keys needed).
func layout(garbage int, pkts []tpkt) (spans []span, total int) {
	spans = append(spans, span{"key.u", 0, 32}, span{"key.t", 32, 64})
	if garbage > 0 {
		spans = append(spans, span{"garbage", 64, 64 + garbage})
	}
	off := 64 + garbage
	spans = append(spans, span{"terminator", off, off + 16})
	off += 16
	for i := range pkts {
		p := &pkts[i]
		p.start = off
		spans = append(spans, span{p.kind + ".length", off, off + 3}, span{p.kind + ".header", off + 3, off + 4})
		if n := len(p.contents); n > 0 {
			spans = append(spans, span{p.kind + ".body", off + 4, off + 4 + n})
		}
		off += 4 + len(p.contents)
		spans = append(spans, span{p.kind + ".tag", off, off + 16})
		off += 16
		p.end = off
	}
	return spans, off
}

// edit is a byte-stream mutation expressed in absolute offsets of the untampered stream.
type edit struct {
	Kind  string `json:"kind"`
	Class string `json:"class,omitempty"`
	A     int    `json:"a"` // offset / range start
	B     int    `json:"b"` // range end
	C     int    `json:"c"` // second range end / insertion point
	Mask  byte   `json:"mask,omitempty"`
	Dev   string `json:"sender_deviation,omitempty"`
}

// apply returns the tampered stream. s may be a prefix of the full stream when the edit lies inside it.
func (e edit) apply(s []byte) []byte {
	out := append([]byte(nil), s...)
	switch e.Kind {
	case "flip":
		out[e.A] ^= e.Mask
	case "truncate":
		out = out[:e.A]
	case "drop":
		out = append(out[:e.A], s[e.B:]...)
	case "dup":
		out = append(append(out[:e.B], s[e.A:e.B]...), s[e.B:]...)
	case "swap": // [A,B) and [B,C) exchanged
		out = append(append(append(out[:e.A], s[e.B:e.C]...), s[e.A:e.B]...), s[e.C:]...)
	case "replay": // [A,B) inserted again at C (C >= B)
		out = append(append(out[:e.C], s[e.A:e.B]...), s[e.C:]...)
	case "insert": // one byte inserted before A
		out = append(append(out[:e.A], e.Mask), s[e.A:]...)
	}
	return out
}

// maxTouched is the largest offset of the original stream the edit depends on.
func (e edit) maxTouched() int {
	switch e.Kind {
	case "flip", "truncate", "insert":
		return e.A
	case "drop", "dup":
		return e.B - 1
	case "swap":
		return e.C - 1
	default: // replay: inserted at C
		return e.C
	}
}

type tamperCase struct {
	RealInit    bool   `json:"real_is_initiator"`
	Magic       uint32 `json:"magic"`
	RefGarbage  int    `json:"reference_garbage"`
	RealGarbage int    `json:"real_garbage"`
	Decoys      []int  `json:"reference_decoys"`
	Sizes       []int  `json:"app_packet_sizes"`
	Ignores     []bool `json:"app_packet_ignore"`
	Edit        edit   `json:"edit"`
	StreamLen   int    `json:"stream_len"`
	FirstDiff   int    `json:"first_tampered_offset"`
	HsEnd       int    `json:"handshake_end_offset"`
}

// stagingRW lets the reference endpoint read from the connection while its output is collected.
type stagingRW struct {
	r   io.Reader
	out bytes.Buffer
}

func (s *stagingRW) Read(p []byte) (int, error)  { return s.r.Read(p) }
func (s *stagingRW) Write(p []byte) (int, error) { return s.out.Write(p) }

// buildTail produces terminator || decoys || version || app packets with the endpoint's send cipher,
// optionally deviating from the specification the way a broken or hostile sender would.
func buildTail(ep *ref.Endpoint, pkts []tpkt, dev string, r *mon.Rand) []byte {
	term := ep.SendTerm
	aad := ep.SentGarbage
	send := ep.Send
	aadOn := 0 // index of the packet that carries the AAD
	switch dev {
	case "terminator-random":
		r.Fill(term[:])
	case "terminator-of-other-role":
		term = ep.RecvTerm
	case "terminator-one-bit":
		term[r.Intn(16)] ^= 1 << uint(r.Intn(8))
	case "aad-empty":
		aad = nil
	case "aad-truncated":
		aad = aad[:len(aad)-1]
	case "aad-extended":
		aad = append(append([]byte(nil), aad...), byte(r.Intn(256)))
	case "aad-byte-changed":
		aad = append([]byte(nil), aad...)
		aad[r.Intn(len(aad))] ^= byte(1 + r.Intn(255))
	case "aad-on-second-packet":
		aadOn = 1
	case "aad-on-every-packet":
		aadOn = -1
	case "keys-of-other-role":
		send = ep.Recv
	}
	out := append([]byte(nil), term[:]...)
	for i, p := range pkts {
		var a []byte
		if i == aadOn || aadOn == -1 {
			a = aad
		}
		out = append(out, send.EncPacket(p.contents, a, p.ignore)...)
	}
	return out
}

var senderDeviations = []string{"terminator-random", "terminator-of-other-role", "terminator-one-bit", "aad-empty", "aad-truncated",
	"aad-extended", "aad-byte-changed", "aad-on-second-packet", "aad-on-every-packet", "keys-of-other-role", "other-network-magic"}

func genEdit(r *mon.Rand, tc *tamperCase, spans []span, pkts []tpkt, total int) edit {
	g := tc.RefGarbage
	switch r.PickW([]int{50, 10, 7, 7, 7, 3, 4, 8, 4}) {
	case 0: // flip inside a uniformly chosen byte class
		classes := map[string][]span{}
		var names []string
		for _, s := range spans {
			if _, ok := classes[s.class]; !ok {
				names = append(names, s.class)
			}
			classes[s.class] = append(classes[s.class], s)
		}
		cl := names[r.Intn(len(names))]
		sp := classes[cl][r.Intn(len(classes[cl]))]
		pos := sp.start + r.Intn(sp.end-sp.start)
		switch r.Intn(4) { // boundaries of the class are the interesting positions
		case 0:
			pos = sp.start
		case 1:
			pos = sp.end - 1
		}
		mask := byte(1 << uint(r.Intn(8)))
		if r.Chance(1, 4) {
			mask = byte(1 + r.Intn(255))
		}
		return edit{Kind: "flip", Class: cl, A: pos, Mask: mask}
	case 1:
		if r.Bool() && len(pkts) > 0 {
			p := pkts[r.Intn(len(pkts))]
			return edit{Kind: "truncate", Class: p.kind + ".boundary", A: []int{p.start, p.end}[r.Intn(2)]}
		}
		return edit{Kind: "truncate", Class: "anywhere", A: r.Intn(total)}
	case 2:
		p := pkts[r.Intn(len(pkts))]
		return edit{Kind: "drop", Class: p.kind, A: p.start, B: p.end}
	case 3:
		p := pkts[r.Intn(len(pkts))]
		return edit{Kind: "dup", Class: p.kind, A: p.start, B: p.end}
	case 4:
		if len(pkts) >= 2 {
			i := r.Intn(len(pkts) - 1)
			return edit{Kind: "swap", Class: pkts[i].kind + "/" + pkts[i+1].kind, A: pkts[i].start, B: pkts[i].end, C: pkts[i+1].end}
		}
		return edit{Kind: "truncate", Class: "anywhere", A: r.Intn(total)}
	case 5:
		if len(pkts) >= 3 {
			i := r.Intn(len(pkts) - 2)
			j := i + 2 + r.Intn(len(pkts)-i-2)
			return edit{Kind: "replay", Class: pkts[i].kind, A: pkts[i].start, B: pkts[i].end, C: pkts[j].start}
		}
		p := pkts[0]
		return edit{Kind: "dup", Class: p.kind, A: p.start, B: p.end}
	case 6:
		if g > 0 && r.Bool() {
			pos := 64 + r.Intn(g)
			return edit{Kind: "drop", Class: "garbage-byte", A: pos, B: pos + 1}
		}
		return edit{Kind: "insert", Class: "garbage-byte", A: 64 + r.Intn(g+1), Mask: byte(r.Intn(256))}
	case 7:
		for {
			d := senderDeviations[r.Intn(len(senderDeviations))]
			needGarbage := d == "aad-empty" || d == "aad-truncated" || d == "aad-byte-changed" || d == "aad-on-second-packet"
			if needGarbage && g == 0 {
				continue
			}
			if d == "aad-on-every-packet" && g == 0 {
				continue
			}
			return edit{Kind: "sender-deviation", Class: d, Dev: d, A: 64 + g}
		}
	}
	return edit{Kind: "none", Class: "control", A: total}
}

func offsetClass(d, hsEnd, total int) string {
	switch {
	case d < 64:
		return "key"
	case d < hsEnd:
		return "handshake"
	case d >= total:
		return "end"
	}
	return "stream"
}

func tamperTrial(k *mon.Case, sweepPos int) {
	r := k.Rand
	tc := &tamperCase{RealInit: r.Bool(), Magic: wellKnownMagics[r.Intn(len(wellKnownMagics))]}
	switch r.Intn(8) {
	case 0:
		tc.RefGarbage = 0
	case 1:
		tc.RefGarbage = 1
	case 2:
		tc.RefGarbage = 4094
	case 3:
		tc.RefGarbage = 1 + r.Intn(4094)
	default:
		tc.RefGarbage = r.Intn(48)
	}
	if r.Chance(1, 60) {
		tc.RefGarbage = ref.MaxGarbageLen
	}
	tc.RealGarbage = r.Intn(40)
	var pkts []tpkt
	for i := r.Intn(4); i > 0; i-- {
		n := r.Intn(24)
		tc.Decoys = append(tc.Decoys, n)
		pkts = append(pkts, tpkt{kind: "decoy", contents: r.Bytes(n), ignore: true})
	}
	pkts = append(pkts, tpkt{kind: "version"})
	for i := r.Intn(7); i > 0; i-- {
		n := r.Intn(40)
		if r.Chance(1, 10) {
			n = r.Intn(700)
		}
		ign := r.Chance(1, 4)
		tc.Sizes = append(tc.Sizes, n)
		tc.Ignores = append(tc.Ignores, ign)
		pkts = append(pkts, tpkt{kind: "app", contents: r.Bytes(n), ignore: ign})
	}
	if sweepPos >= 0 {
		// fixed small layout, every byte position in turn
		tc.RealInit = sweepPos&1 == 0
		tc.RefGarbage, tc.Decoys, tc.Sizes, tc.Ignores = 5, []int{2}, []int{3, 0, 6}, []bool{false, true, false}
		pkts = []tpkt{{kind: "decoy", contents: r.Bytes(2), ignore: true}, {kind: "version"},
			{kind: "app", contents: r.Bytes(3)}, {kind: "app", ignore: true}, {kind: "app", contents: r.Bytes(6)}}
	}
	spans, total := layout(tc.RefGarbage, pkts)
	tc.StreamLen = total
	hsEnd := 0
	for _, p := range pkts {
		if p.kind == "version" {
			hsEnd = p.end
		}
	}
	tc.HsEnd = hsEnd
	if sweepPos >= 0 {
		pos := (sweepPos / 2) % total
		cl := ""
		for _, s := range spans {
			if pos >= s.start && pos < s.end {
				cl = s.class
			}
		}
		tc.Edit = edit{Kind: "flip", Class: cl, A: pos, Mask: 1 << uint(r.Intn(8))}
	} else {
		tc.Edit = genEdit(r, tc, spans, pkts, total)
	}
	e := tc.Edit
	k.Desc(tc)

	magic := magicBytes(tc.Magic)
	refMagic := magic
	if e.Dev == "other-network-magic" {
		refMagic = magicBytes(tc.Magic ^ (1 << uint(r.Intn(32))))
	}
	realConn, refConn := memconn.Pipe()
	realConn.SetNonBlocking(true)
	refConn.SetNonBlocking(true)
	peer := v2transport.NewPeer()
	peer.UseReadWriter(realConn)
	rk := pooledRefKey(k.C, r)
	st := &stagingRW{r: refConn}
	ep := ref.NewEndpoint(st, !tc.RealInit, refMagic, rk.priv, rk.enc)
	// Session set-up is plumbing here (the verdict is "tampered bytes are refused", and the control trials prove the
	// plumbing): 7 of 8 trials borrow btcd's ECDH for the reference side's shared secret, which is ~10x cheaper
	// than the math/big one; 1 of 8 trials (and the ellswift.ecdh / handshake / stream families) stay fully independent.
	pureRef := r.Chance(1, 8)
	if !pureRef {
		pk, _ := btcec.PrivKeyFromBytes(rk.priv[:])
		ep.SecretFunc = func(theirs [64]byte) [32]byte {
			h, err := ellswift.V2Ecdh(pk, theirs, rk.enc, !tc.RealInit)
			if err != nil {
				return ref.V2ECDH(rk.priv, theirs, rk.enc, !tc.RealInit)
			}
			return *h
		}
	}
	garbage := r.Bytes(tc.RefGarbage)
	realDecoys := []int{}
	if r.Chance(1, 3) {
		realDecoys = []int{r.Intn(20)}
	}
	mode := "real-resp"
	if tc.RealInit {
		mode = "real-init"
	}
	harness := func(what string, err error) {
		k.Failf("harness:tamper:"+what, "%v", err)
	}

	var orig, sent []byte
	var hsErr error
	if tc.RealInit {
		if err := peer.InitiateV2Handshake(tc.RealGarbage); err != nil {
			k.Failf("handshake:real-rejects-valid-peer:real-init:InitiateV2Handshake", "%v", err)
			return
		}
		if err := ep.DetectV1(); err != nil {
			harness("DetectV1", err)
			return
		}
		ep.SendKey(garbage)
		if err := ep.RecvKey(); err != nil {
			harness("RecvKey", err)
			return
		}
		orig = append(append([]byte(nil), st.out.Bytes()...), buildTail(ep, pkts, "", r)...)
		if e.Kind == "sender-deviation" {
			// same key and garbage, deviating tail (fresh cipher state: rebuild the endpoint's ciphers)
			ep.SetTheirsWithSecret(ep.Theirs, ep.Secret)
			sent = append(append([]byte(nil), st.out.Bytes()...), buildTail(ep, pkts, e.Dev, r)...)
		} else {
			sent = e.apply(orig)
		}
		refConn.Write(sent)
		refConn.CloseWrite()
		hsErr = peer.CompleteHandshake(true, realDecoys, netOf(tc.Magic))
	} else {
		ep.SendKey(garbage)
		part1 := append([]byte(nil), st.out.Bytes()...)
		region1 := e.Kind != "none" && e.Kind != "sender-deviation" && e.maxTouched() < len(part1)
		sent1 := part1
		if region1 {
			sent1 = e.apply(part1)
		}
		refConn.Write(sent1)
		truncated1 := region1 && e.Kind == "truncate"
		if truncated1 {
			refConn.CloseWrite()
		}
		hsErr = peer.RespondV2Handshake(tc.RealGarbage, netOf(tc.Magic))
		if hsErr == nil {
			if err := ep.RecvKey(); err != nil {
				harness("RecvKey", err)
				return
			}
			tail := buildTail(ep, pkts, "", r)
			orig = append(append([]byte(nil), part1...), tail...)
			switch {
			case e.Kind == "sender-deviation":
				ep.SetTheirsWithSecret(ep.Theirs, ep.Secret)
				sent = append(append([]byte(nil), part1...), buildTail(ep, pkts, e.Dev, r)...)
			case region1 && truncated1:
				sent = sent1
			case region1:
				sent = append(append([]byte(nil), sent1...), tail...)
			default:
				sent = e.apply(orig)
			}
			if !truncated1 {
				refConn.Write(sent[len(sent1):])
				refConn.CloseWrite()
			}
			hsErr = peer.CompleteHandshake(false, realDecoys, netOf(tc.Magic))
		} else {
			// the responder gave up on the key bytes alone: only legitimate if they were tampered with
			orig, sent = part1, sent1
			if !region1 {
				k.Failf("handshake:real-rejects-valid-peer:real-resp:RespondV2Handshake", "RespondV2Handshake: %v (edit %+v)", hsErr, e)
				return
			}
		}
	}
	if len(orig) != total && !(hsErr != nil && !tc.RealInit && len(orig) == 64+tc.RefGarbage) {
		harness("layout", fmt.Errorf("stream is %d bytes, layout says %d", len(orig), total))
		return
	}

	d := firstDiff(orig, sent)
	if e.Kind == "sender-deviation" {
		d = 64 + tc.RefGarbage // the terminator or the first packet is not what the specification prescribes
		if e.Dev == "aad-on-every-packet" {
			// the first packet is correct; the second one authenticates data it must not
			d = total
			if len(pkts) > 1 {
				d = pkts[1].start
			}
		}
	}
	tc.FirstDiff = d
	oc := offsetClass(d, hsEnd, total)
	expectHsFail := d < hsEnd
	outcome := ""
	defer func() {
		k.Count("tamper.trials", 1)
		if pureRef {
			k.Count("tamper.trials.reference-ecdh", 1)
		}
		k.Count("tamper.kind."+e.Kind, 1)
		k.Count("tamper.class."+e.Class, 1)
		k.Count("tamper.outcome."+outcome, 1)
		k.Eval(mon.Sig("tamper", mode, e.Kind, e.Class, oc, outcome, tc.RefGarbage, len(pkts)), e.Kind != "none")
	}()

	if expectHsFail {
		if hsErr == nil {
			outcome = "VIOLATION-handshake-accepted"
			k.Failf("tamper:handshake-accepts-tampered-stream:"+e.Kind, "%s: handshake succeeded although byte %d (< %d, end of the version packet; class %s) was tampered with: %+v", mode, d, hsEnd, e.Class, e)
			return
		}
		outcome = "handshake-rejected"
		return
	}
	if hsErr != nil {
		outcome = "VIOLATION-handshake-rejected-untampered"
		key := "tamper:handshake-rejects-untampered-prefix:" + mode
		if tc.RefGarbage == ref.MaxGarbageLen {
			key = "handshake:garbage-len-4095-rejected"
		}
		k.Failf(key, "%s: handshake failed (%v) although the first tampered byte %d lies after the version packet (ends at %d): %+v", mode, hsErr, d, hsEnd, e)
		return
	}
	// application packets: everything wholly before the first tampered byte is delivered intact and in order,
	// nothing at or after it is ever delivered, and the first error is final.
	var want [][]byte
	for _, p := range pkts {
		if p.kind == "app" && !p.ignore && p.end <= d {
			want = append(want, p.contents)
		}
	}
	delivered := 0
	for {
		got, err := peer.V2ReceivePacket(nil)
		if err != nil {
			break
		}
		if delivered >= len(want) {
			outcome = "VIOLATION-delivered-tampered"
			k.Failf("tamper:delivers-packet-at-or-after-tampered-byte:"+e.Kind, "%s: packet %d (len %d) delivered although only %d packets precede the first tampered byte %d: %+v", mode, delivered, len(got), len(want), d, e)
			return
		}
		if !bytes.Equal(got, want[delivered]) {
			outcome = "VIOLATION-delivered-altered"
			k.Failf("tamper:delivers-altered-plaintext", "%s: packet %d delivered with other contents (len %d want %d): %+v", mode, delivered, len(got), len(want[delivered]), e)
			return
		}
		delivered++
		if delivered > len(pkts)+4 {
			break
		}
	}
	if delivered < len(want) {
		outcome = "VIOLATION-untampered-prefix-lost"
		k.Failf("tamper:error-before-tampered-byte:"+e.Kind, "%s: only %d of the %d packets that precede the first tampered byte %d were delivered: %+v", mode, delivered, len(want), d, e)
		return
	}
	// the first error is final
	// (sampled: after an error the length cipher is out of step, so each further call makes btcd allocate a
	// random 0..16 MiB buffer before it notices the end of the stream)
	follow := 0
	if r.Chance(1, 8) {
		follow = 1
		if r.Chance(1, 4) {
			follow = 3
		}
	}
	for i := 0; i < follow; i++ {
		if got, err := peer.V2ReceivePacket(nil); err == nil {
			outcome = "VIOLATION-success-after-error"
			k.Failf("tamper:success-after-error:"+e.Kind, "%s: V2ReceivePacket returned %d bytes after it had already failed: %+v", mode, len(got), e)
			return
		}
		k.Count("tamper.followup-calls", 1)
	}
	if e.Kind == "none" {
		outcome = "control-all-delivered"
	} else {
		outcome = fmt.Sprintf("stream-rejected-after-%d-of-%d", min(delivered, 3), min(len(want), 3))
	}
}

// v1Trial: a responder that sees the v1 version-message prefix must fall back to v1 (full 16-byte match on its own
// network) or refuse the connection (version header of another network) - in neither case run v2 with it.
func v1Trial(k *mon.Case) {
	r := k.Rand
	magic := wellKnownMagics[r.Intn(len(wellKnownMagics))]
	kind := []string{"v1-own-network", "v1-other-network", "v1-own-network-fragmented"}[r.Intn(3)]
	k.Desc(map[string]any{"kind": kind, "magic": magic})
	hdr := ref.V1Prefix(magicBytes(magic))
	if kind == "v1-other-network" {
		other := magic ^ (1 << uint(r.Intn(32)))
		hdr = ref.V1Prefix(magicBytes(other))
	}
	// the rest of a v1 version message header + payload: length, checksum, payload bytes
	msg := append(append([]byte(nil), hdr...), r.Bytes(48+r.Intn(120))...)
	realConn, remote := memconn.Pipe()
	realConn.SetNonBlocking(true)
	if kind == "v1-own-network-fragmented" {
		realConn.SetHooks(memconn.Hooks{BeforeRead: func(int) (int, error) { return 1, nil }})
	}
	remote.Write(msg)
	peer := v2transport.NewPeer()
	peer.UseReadWriter(realConn)
	err := peer.RespondV2Handshake(r.Intn(100), netOf(magic))
	switch kind {
	case "v1-other-network":
		if err == nil {
			// the handshake may only proceed to CompleteHandshake, which must then refuse
			err = peer.CompleteHandshake(false, nil, netOf(magic))
		}
		if err == nil || errors.Is(err, v2transport.ErrUseV1Protocol) {
			k.Failf("v1detect:other-network-version-header-not-refused", "magic %08x: %v", magic, err)
		}
	default:
		if !errors.Is(err, v2transport.ErrUseV1Protocol) {
			k.Failf("v1detect:v1-peer-not-detected", "magic %08x: RespondV2Handshake returned %v for a stream starting with the v1 version header", magic, err)
		}
		if n := remote.Buffered(); n != 0 {
			k.Failf("v1detect:v2-key-sent-to-v1-peer", "%d bytes written to a v1 peer", n)
		}
		if got := peer.ReceivedPrefix(); !bytes.Equal(got, hdr) {
			k.Failf("v1detect:consumed-prefix-not-reported", "ReceivedPrefix() = %x, consumed %x", got, hdr)
		}
	}
	k.Count("v1detect."+kind, 1)
	k.Eval(mon.Sig("v1", kind, magic), true)
}

// overlongTrial: a peer that sends more than 4095 bytes of garbage (everything else per specification, the garbage
// correctly authenticated) must be refused: the receiver gives up after 4095+16 bytes without a terminator.
func overlongTrial(k *mon.Case) {
	r := k.Rand
	realInit := r.Bool()
	magic := wellKnownMagics[r.Intn(len(wellKnownMagics))]
	glen := 4096 + []int{0, 0, 1, 15, 16, 17, r.Intn(3000)}[r.Intn(7)]
	k.Desc(map[string]any{"real_is_initiator": realInit, "magic": magic, "reference_garbage": glen})
	realConn, refConn := memconn.Pipe()
	realConn.SetNonBlocking(true)
	refConn.SetNonBlocking(true)
	peer := v2transport.NewPeer()
	peer.UseReadWriter(realConn)
	rk := pooledRefKey(k.C, r)
	st := &stagingRW{r: refConn}
	ep := ref.NewEndpoint(st, !realInit, magicBytes(magic), rk.priv, rk.enc)
	garbage := r.Bytes(glen)
	ep.SentGarbage = garbage
	first := append(append([]byte(nil), rk.enc[:]...), garbage...)
	pkts := []tpkt{{kind: "version"}}
	var err error
	if realInit {
		if err = peer.InitiateV2Handshake(r.Intn(50)); err != nil {
			k.Failf("handshake:real-rejects-valid-peer:real-init:InitiateV2Handshake", "%v", err)
			return
		}
		if e := ep.DetectV1(); e != nil {
			k.Failf("harness:overlong:DetectV1", "%v", e)
			return
		}
		if e := ep.RecvKey(); e != nil {
			k.Failf("harness:overlong:RecvKey", "%v", e)
			return
		}
		refConn.Write(append(first, buildTail(ep, pkts, "", r)...))
		refConn.CloseWrite()
		err = peer.CompleteHandshake(true, nil, netOf(magic))
	} else {
		refConn.Write(first)
		if err = peer.RespondV2Handshake(r.Intn(50), netOf(magic)); err == nil {
			if e := ep.RecvKey(); e != nil {
				k.Failf("harness:overlong:RecvKey", "%v", e)
				return
			}
			refConn.Write(buildTail(ep, pkts, "", r))
			refConn.CloseWrite()
			err = peer.CompleteHandshake(false, nil, netOf(magic))
		}
	}
	if err == nil {
		k.Failf("handshake:garbage-longer-than-4095-accepted", "real peer (initiator=%v) completed the handshake with a peer that sent %d bytes of garbage", realInit, glen)
	}
	k.Count("handshake.overlong-garbage-refused", 1)
	k.Eval(mon.Sig("overlong", realInit, glen), true)
}

func tamperFamilies(c *mon.Ctx) {
	c.Family("handshake.overlong", scaled(c, 60, 6000), overlongTrial)
	c.Require("handshake.overlong-garbage-refused", 20)
	c.Family("tamper", scaled(c, 36000, 2000000), func(k *mon.Case) { tamperTrial(k, -1) })
	// fixed layout (garbage 5, one decoy, version, three packets): a bit flipped at EVERY byte offset, both roles
	const sweepLen = 64 + 5 + 16 + (20 + 2) + 20 + (20 + 3) + 20 + (20 + 6)
	c.Family("tamper.sweep", scaled(c, 2*sweepLen, 16*sweepLen), func(k *mon.Case) { tamperTrial(k, int(k.Index)) })
	c.Exhaustive("tamper.sweep: one bit flipped at every byte offset of a fixed 196-byte handshake+stream layout, real peer in both roles")
	c.Family("v1detect", scaled(c, 300, 20000), v1Trial)

	c.Require("tamper.trials", 10000)
	c.Require("tamper.trials.reference-ecdh", 1000)
	for _, kd := range []string{"flip", "truncate", "drop", "dup", "swap", "replay", "insert", "sender-deviation", "none"} {
		c.Require("tamper.kind."+kd, 100)
	}
	for _, cl := range []string{"key.u", "key.t", "garbage", "terminator", "decoy.length", "decoy.header", "decoy.body", "decoy.tag",
		"version.length", "version.header", "version.tag", "app.length", "app.header", "app.body", "app.tag"} {
		c.Require("tamper.class."+cl, 100)
	}
	for _, d := range senderDeviations {
		c.Require("tamper.class."+d, 20)
	}
	c.Require("tamper.outcome.control-all-delivered", 100)
	c.Require("tamper.outcome.handshake-rejected", 3000)
	c.Require("tamper.followup-calls", 300)
	c.Require("v1detect.v1-own-network", 30)
	c.Require("v1detect.v1-other-network", 30)
}
