package main

import (
	"bytes"
	"fmt"
	"math/big"

	"verif/mon"
	ref "verif/ref/refbip324"

	"github.com/btcsuite/btcd/btcec/v2"
	"github.com/btcsuite/btcd/btcec/v2/ellswift"
)

// fv converts a reduced field element to btcec's representation (normalized).
func fv(v *big.Int) *btcec.FieldVal {
	var b [32]byte
	new(big.Int).Mod(v, ref.P).FillBytes(b[:])
	var f btcec.FieldVal
	f.SetBytes(&b)
	return &f
}

// bi converts a btcec field value to math/big.
func bi(f *btcec.FieldVal) *big.Int {
	g := *f
	g.Normalize()
	return new(big.Int).SetBytes(g.Bytes()[:])
}

var (
	bigOne = big.NewInt(1)
	pow256 = new(big.Int).Lsh(bigOne, 256)
)

// edgeFE returns a boundary-biased integer in [0, 2^256) (values >= p included when wide is set,
// for the raw 64-byte encodings that are reduced mod p by the decoder).
func edgeFE(r *mon.Rand, wide bool) (*big.Int, string) {
	p := ref.P
	pick := func(v *big.Int, cls string) (*big.Int, string) {
		if !wide {
			return new(big.Int).Mod(v, p), cls
		}
		return new(big.Int).Mod(v, pow256), cls
	}
	switch r.Intn(17) {
	case 7, 8, 9:
		// limb-boundary values: the number is assembled from limbs of one of the usual widths (10x26, 8x32, 5x52,
		// 4x64 bit representations), each limb all-ones, nearly all-ones, zero, small or random: carries and
		// magnitude bounds of limb arithmetic are exercised whatever the representation
		w := []uint{26, 32, 52, 64}[r.Intn(4)]
		v := new(big.Int)
		for sh := uint(0); sh < 256; sh += w {
			ones := new(big.Int).Sub(new(big.Int).Lsh(bigOne, w), bigOne)
			var limb *big.Int
			switch r.Intn(6) {
			case 0, 1:
				limb = ones
			case 2:
				limb = new(big.Int).Sub(ones, big.NewInt(int64(r.Intn(0x7a2))))
			case 3:
				limb = new(big.Int)
			case 4:
				limb = big.NewInt(int64(r.Intn(0x7a2)))
			default:
				limb = new(big.Int).And(new(big.Int).SetBytes(r.Bytes(8)), ones)
			}
			v.Or(v, new(big.Int).Lsh(limb, sh))
		}
		return pick(v, "limbs")
	case 0:
		return pick(big.NewInt(int64(r.Intn(4))), "small")
	case 1:
		return pick(new(big.Int).Sub(p, big.NewInt(int64(1+r.Intn(3)))), "p-k")
	case 2:
		if wide {
			return pick(new(big.Int).Add(p, big.NewInt(int64(r.Intn(3)))), "p+k")
		}
		return pick(new(big.Int).Rsh(p, 1), "p/2")
	case 3:
		if wide {
			return pick(new(big.Int).Sub(pow256, big.NewInt(int64(1+r.Intn(3)))), "2^256-k")
		}
		return pick(new(big.Int).Add(new(big.Int).Rsh(p, 1), bigOne), "p/2+1")
	case 4:
		return pick(new(big.Int).Lsh(bigOne, uint(r.Intn(256))), "2^k")
	case 5:
		v := new(big.Int).Set(ref.MinusThreeSqrt)
		if r.Bool() {
			v.Sub(p, v)
		}
		return pick(v, "sqrt(-3)")
	case 6:
		// all limbs of the 10x26 representation saturated / sparse patterns
		b := make([]byte, 32)
		pat := []byte{0xff, 0x00, 0xaa, 0x55, 0x03, 0xfc}[r.Intn(6)]
		for i := range b {
			b[i] = pat
		}
		b[r.Intn(32)] = byte(r.Intn(256))
		return pick(new(big.Int).SetBytes(b), "pattern")
	default:
		return pick(new(big.Int).SetBytes(r.Bytes(32)), "random")
	}
}

// onCurveX returns an x with x^3+7 square, searched upward from a boundary-biased start.
func onCurveX(r *mon.Rand) (*big.Int, string) {
	x, cls := edgeFE(r, false)
	// (limb-boundary starts are searched in steps of 2^104 so that the low limbs keep their pattern)
	step := bigOne
	if cls == "limbs" {
		step = new(big.Int).Lsh(bigOne, 104)
	}
	for !ref.IsSquare(new(big.Int).Mod(new(big.Int).Add(new(big.Int).Exp(x, big.NewInt(3), ref.P), big.NewInt(7)), ref.P)) {
		x = new(big.Int).Mod(new(big.Int).Add(x, step), ref.P)
	}
	return x, cls
}

func ellswiftFamilies(c *mon.Ctx) {
	// --- decode: XSwiftEC on random and edge (u, t), including the t-doubling branch u^3+t^2+7 = 0
	c.Family("ellswift.decode", scaled(c, 4000, 600000), func(k *mon.Case) {
		r := k.Rand
		u, ucls := edgeFE(r, false)
		t, tcls := edgeFE(r, false)
		if r.Chance(1, 6) {
			// construct g(u) = -t^2
			for {
				uu := u
				if uu.Sign() == 0 {
					uu = bigOne
				}
				g := new(big.Int).Mod(new(big.Int).Add(new(big.Int).Exp(uu, big.NewInt(3), ref.P), big.NewInt(7)), ref.P)
				if s := ref.Sqrt(new(big.Int).Mod(new(big.Int).Neg(g), ref.P)); s != nil {
					t, tcls = s, "g(u)=-t^2"
					if r.Bool() {
						t = new(big.Int).Sub(ref.P, s)
						t.Mod(t, ref.P)
					}
					break
				}
				u = new(big.Int).Mod(new(big.Int).Add(u, bigOne), ref.P)
			}
		}
		k.Desc(map[string]any{"u": fmt.Sprintf("%064x", u), "t": fmt.Sprintf("%064x", t)})
		want := ref.XSwiftEC(u, t)
		uf, tf := fv(u), fv(t)
		got, err := ellswift.XSwiftEC(uf, tf)
		if err != nil || got == nil {
			k.Failf("ellswift:XSwiftEC:error", "u=%064x t=%064x: %v", u, t, err)
			return
		}
		if bi(got).Cmp(want) != 0 {
			k.Failf("ellswift:XSwiftEC:value", "u=%064x (%s) t=%064x (%s) got %x want %x", u, ucls, t, tcls, bi(got), want)
		}
		if _, ok := ref.LiftX(bi(got)); !ok {
			k.Failf("ellswift:XSwiftEC:not-on-curve", "u=%064x t=%064x got %x", u, t, bi(got))
		}
		k.Count("ellswift.decode", 1)
		k.Count("ellswift.decode.cls."+tcls, 1)
		k.Eval(mon.Sig("dec", ucls, tcls, want.Uint64()&0xffff), true)
	})

	// --- inverse: all 8 branches for (x on curve, u != 0); t equals the reference and decodes back to x
	c.Family("ellswift.inv", scaled(c, 1500, 150000), func(k *mon.Case) {
		r := k.Rand
		x, xcls := onCurveX(r)
		u, ucls := edgeFE(r, false)
		if u.Sign() == 0 {
			u = big.NewInt(int64(1 + r.Intn(5)))
		}
		k.Desc(map[string]any{"u": fmt.Sprintf("%064x", u), "x": fmt.Sprintf("%064x", x)})
		bitmap := 0
		for cs := 0; cs < 8; cs++ {
			want := ref.XSwiftECInv(x, u, cs)
			got := ellswift.XSwiftECInv(fv(u), fv(x), cs)
			if (want == nil) != (got == nil) {
				k.Failf(fmt.Sprintf("ellswift:XSwiftECInv:existence:case%d", cs), "u=%064x x=%064x case %d: real nil=%v ref nil=%v", u, x, cs, got == nil, want == nil)
				continue
			}
			if got == nil {
				k.Count("ellswift.inv.none", 1)
				continue
			}
			bitmap |= 1 << cs
			gt := bi(got)
			if gt.Cmp(want) != 0 {
				k.Failf(fmt.Sprintf("ellswift:XSwiftECInv:value:case%d", cs), "u=%064x x=%064x case %d: got %x want %x", u, x, cs, gt, want)
			}
			// decode(encode) = x, with the real decoder and with the reference decoder
			back, err := ellswift.XSwiftEC(fv(u), fv(gt))
			if err != nil || bi(back).Cmp(x) != 0 {
				k.Failf(fmt.Sprintf("ellswift:roundtrip:case%d", cs), "u=%064x x=%064x case %d t=%x decodes to %v (%v)", u, x, cs, gt, back, err)
			}
			if ref.XSwiftEC(u, gt).Cmp(x) != 0 {
				k.Failf(fmt.Sprintf("ellswift:roundtrip-ref:case%d", cs), "u=%064x x=%064x case %d t=%x", u, x, cs, gt)
			}
			k.Count(fmt.Sprintf("ellswift.inv.case%d", cs), 1)
		}
		k.Eval(mon.Sig("inv", xcls, ucls, bitmap, x.Uint64()&0xff), bitmap != 0)
	})

	// --- create: EllswiftCreate / XElligatorSwift produce encodings of the right x
	c.Family("ellswift.create", scaled(c, 300, 40000), func(k *mon.Case) {
		priv, enc, err := ellswift.EllswiftCreate()
		if err != nil {
			k.Failf("ellswift:EllswiftCreate:error", "%v", err)
			return
		}
		pb := to32(priv.Serialize())
		k.Desc(map[string]any{"priv": fmt.Sprintf("%x", pb), "ellswift": fmt.Sprintf("%x", enc)})
		want := ref.PubX(pb)
		if got := ref.EllswiftDecode(enc); got.Cmp(want) != 0 {
			k.Failf("ellswift:EllswiftCreate:decodes-to-other-x", "priv=%x enc=%x decodes to %x, pubkey x is %x", pb, enc, got, want)
		}
		// a fresh encoding of the same x through XElligatorSwift
		u, t, err := ellswift.XElligatorSwift(fv(want))
		if err != nil {
			k.Failf("ellswift:XElligatorSwift:error", "%v", err)
			return
		}
		if got := ref.XSwiftEC(bi(u), bi(t)); got.Cmp(want) != 0 {
			k.Failf("ellswift:XElligatorSwift:decodes-to-other-x", "x=%x u=%x t=%x decodes to %x", want, bi(u), bi(t), got)
		}
		k.Count("ellswift.create", 1)
		k.Eval(mon.Sig("create", enc[0], enc[32]), true)
	})

	// --- ECDH: V2Ecdh equals the reference for arbitrary 64-byte encodings, and is symmetric
	c.Family("ellswift.ecdh", scaled(c, 700, 60000), func(k *mon.Case) {
		r := k.Rand
		var privA [32]byte
		pcls := "random"
		switch r.Intn(8) {
		case 0:
			privA[31] = byte(1 + r.Intn(3))
			pcls = "small"
		case 1:
			new(big.Int).Sub(ref.N, big.NewInt(int64(1+r.Intn(3)))).FillBytes(privA[:])
			pcls = "n-k"
		default:
			privA = randPriv(r)
		}
		uB, c1 := edgeFE(r, true)
		tB, c2 := edgeFE(r, true)
		encB := ref.EllswiftEncode(uB, tB)
		var encA [64]byte
		r.Fill(encA[:])
		initiating := r.Bool()
		k.Desc(map[string]any{"priv": fmt.Sprintf("%x", privA), "theirs": fmt.Sprintf("%x", encB), "ours": fmt.Sprintf("%x", encA), "initiating": initiating})
		pk, _ := btcec.PrivKeyFromBytes(privA[:])
		want := ref.V2ECDH(privA, encB, encA, initiating)
		got, err := ellswift.V2Ecdh(pk, encB, encA, initiating)
		if err != nil || got == nil {
			k.Failf("ellswift:V2Ecdh:error", "priv=%x theirs=%x: %v", privA, encB, err)
			return
		}
		if !bytes.Equal(got[:], want[:]) {
			k.Failf("ellswift:V2Ecdh:value", "priv=%x theirs=%x (u %s, t %s) ours=%x init=%v got %x want %x", privA, encB, c1, c2, encA, initiating, got[:], want[:])
		}
		wx := ref.EllswiftECDHXOnly(encB, privA)
		gx, err := ellswift.EllswiftECDHXOnly(encB, pk)
		if err != nil || gx != wx {
			k.Failf("ellswift:EllswiftECDHXOnly:value", "priv=%x theirs=%x got %x want %x (%v)", privA, encB, gx, wx, err)
		}
		k.Count("ellswift.ecdh", 1)
		// symmetry between two real key pairs (one created by btcd, one by the reference)
		if r.Chance(1, 3) {
			privR, encR, err := ellswift.EllswiftCreate()
			if err != nil {
				k.Failf("ellswift:EllswiftCreate:error", "%v", err)
				return
			}
			privO := randPriv(r)
			encO := ref.EllswiftCreate(privO, r)
			pkO, _ := btcec.PrivKeyFromBytes(privO[:])
			s1, e1 := ellswift.V2Ecdh(privR, encO, encR, initiating)
			s2, e2 := ellswift.V2Ecdh(pkO, encR, encO, !initiating)
			s3 := ref.V2ECDH(privO, encR, encO, !initiating)
			if e1 != nil || e2 != nil || *s1 != *s2 || !bytes.Equal(s1[:], s3[:]) {
				k.Failf("ellswift:V2Ecdh:asymmetric", "A=(%x,%x) B=(%x,%x): %x / %x / ref %x (%v %v)", privR.Serialize(), encR, privO, encO, s1, s2, s3, e1, e2)
			}
			k.Count("ellswift.ecdh.symmetry", 1)
		}
		k.Eval(mon.Sig("ecdh", pcls, c1, c2, initiating, want[0]), true)
	})

	c.Require("ellswift.decode", 1000)
	c.Require("ellswift.decode.cls.g(u)=-t^2", 50)
	for cs := 0; cs < 8; cs++ {
		c.Require(fmt.Sprintf("ellswift.inv.case%d", cs), 50)
	}
	c.Require("ellswift.create", 100)
	c.Require("ellswift.ecdh", 200)
	c.Require("ellswift.ecdh.symmetry", 50)
}
