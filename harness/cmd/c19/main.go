// Worker for C19: the encrypted v2 transport (BIP324) is interoperable, authenticated and in order.
package main

import (
	"os"
	"runtime"
	"strconv"
	"strings"
	"syscall"

	"verif/mon"
)

var ballast []byte

// reexecWithLazyFree restarts the worker once with GODEBUG=madvdontneed=0, so that memory the Go scavenger gives
// back is only marked MADV_FREE and re-using it does not page-fault again (see the comment in main).
func reexecWithLazyFree() {
	if os.Getenv("C19_NO_REEXEC") != "" || strings.Contains(os.Getenv("GODEBUG"), "madvdontneed") {
		return
	}
	exe, err := os.Executable()
	if err != nil {
		return
	}
	gd := "madvdontneed=0"
	if v := os.Getenv("GODEBUG"); v != "" {
		gd = v + "," + gd
	}
	os.Setenv("GODEBUG", gd)
	os.Setenv("C19_NO_REEXEC", "1")
	syscall.Exec(exe, os.Args, os.Environ()) // only returns on failure; then just carry on
}

func main() {
	reexecWithLazyFree()
	// The workload makes btcd allocate many short-lived multi-megabyte buffers (a tampered length field decodes
	// to a random 24-bit length and Receive allocates it up front). First touch of fresh memory is by far the
	// most expensive operation on a loaded VM, so the heap is kept cycling inside a small, already faulted-in
	// region: an (untouched, hence free) ballast lifts the heap goal to ~50 MiB, below which the runtime keeps
	// freed spans mapped instead of returning them to the OS.
	mb := 24
	if v, err := strconv.Atoi(os.Getenv("C19_BALLAST_MB")); err == nil {
		mb = v
	}
	ballast = make([]byte, mb<<20)
	mon.Main("C19", func(c *mon.Ctx) {
		c.Rule("real v2transport.Peer driven against an independent BIP324 endpoint (refbip324) and against itself over an " +
			"unbounded in-memory duplex conn. distinct/non-trivial signature: ellswift.* = (family, branch/case bitmap or edge " +
			"class, low bytes of the result); handshake/stream = (mode, garbage lengths, decoy lengths, packet counts, rekeys " +
			"crossed, hash of size/ignore sequence); tamper = (role, edit kind, byte class, offset class, outcome)")
		calibrate(c)
		if !mon.RaceEnabled {
			ellswiftFamilies(c)
			sessionFamilies(c)
			tamperFamilies(c)
		}
		raceFamilies(c) // both builds; in the -race build this is the main workload
		if !mon.RaceEnabled {
			runtime.KeepAlive(ballast)
		}
	})
}
