package main

import (
	"io"
	"math/big"
	"os"
	"strconv"

	"verif/mon"
)

var (
	errEOF        = io.EOF
	errClosedPipe = io.ErrClosedPipe
)

func bigFromBytes(b []byte) *big.Int { return new(big.Int).SetBytes(b) }

// scaled is c.N with an optional down-scaling of the thorough tier (C19_THOROUGH_PCT=1..100) for busy machines;
// the quick tier and the default thorough counts are unaffected.
func scaled(c *mon.Ctx, quick, thorough int64) int64 {
	n := c.N(quick, thorough)
	if c.Thorough() {
		if pct, err := strconv.Atoi(os.Getenv("C19_THOROUGH_PCT")); err == nil && pct >= 1 && pct < 100 {
			n = max(quick, thorough*int64(pct)/100)
		}
	}
	return n
}
