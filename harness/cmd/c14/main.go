// Worker for C14: soft-fork deployment state follows the BIP9 state machine on every history.
package main

import (
	"time"

	"verif/gen/chaingen"
	"verif/mon"
	"verif/node"
	"verif/ref/refbip9"
	"verif/ref/refchain"
	"verif/sim"

	"github.com/btcsuite/btcd/address/v2"
	"github.com/btcsuite/btcd/blockchain"
	"github.com/btcsuite/btcd/btcutil/v2"
	"github.com/btcsuite/btcd/chaincfg/v2"
	"github.com/btcsuite/btcd/wire/v2"
)

type dep struct {
	id  uint32
	ref refbip9.Deployment
}

func toRef(s blockchain.ThresholdState) refbip9.State {
	switch s {
	case blockchain.ThresholdDefined:
		return refbip9.Defined
	case blockchain.ThresholdStarted:
		return refbip9.Started
	case blockchain.ThresholdLockedIn:
		return refbip9.LockedIn
	case blockchain.ThresholdActive:
		return refbip9.Active
	default:
		return refbip9.Failed
	}
}

// randomDeployments rewrites the deployment table of p with random definitions and returns the reference view.
func randomDeployments(r *mon.Rand, p *chaincfg.Params, horizon int64) []dep {
	w := int32(4 + r.Intn(13))
	p.MinerConfirmationWindow = uint32(w)
	p.RuleChangeActivationThreshold = uint32(1 + r.Intn(int(w)))
	var out []dep
	bits := r.Perm(29)
	t0 := int64(node.GenesisTime)
	for id := 0; id < chaincfg.DefinedDeployments; id++ {
		d := &p.Deployments[id]
		if id == chaincfg.DeploymentSegwit || id == chaincfg.DeploymentTaproot {
			// keep segwit/taproot buried-active so that the generator may use witness outputs
			d.BitNumber = uint8(bits[id])
			out = append(out, dep{id: uint32(id), ref: refbip9.Deployment{Bit: d.BitNumber, Threshold: p.RuleChangeActivationThreshold, Window: w, AlwaysActiveHeight: 1}})
			continue
		}
		d.BitNumber = uint8(bits[id])
		d.MinActivationHeight, d.CustomActivationThreshold, d.AlwaysActiveHeight = 0, 0, 0
		var start, end int64
		switch r.Intn(5) {
		case 0: // always started, never ends
		case 1:
			start = t0 + r.Int63n(horizon)
		default:
			start = t0 + r.Int63n(horizon)
			end = start + 1 + r.Int63n(horizon)
		}
		if r.Chance(1, 6) && start != 0 { // timeout only
			end, start = start, 0
		}
		if r.Chance(1, 3) {
			d.MinActivationHeight = uint32(r.Intn(8 * int(w)))
		}
		if r.Chance(1, 3) {
			d.CustomActivationThreshold = uint32(1 + r.Intn(int(w)))
		}
		if r.Chance(1, 6) {
			d.AlwaysActiveHeight = uint32(1 + r.Intn(8*int(w)))
		}
		var st, en time.Time
		if start != 0 {
			st = time.Unix(start, 0)
		}
		if end != 0 {
			en = time.Unix(end, 0)
		}
		d.DeploymentStarter = chaincfg.NewMedianTimeDeploymentStarter(st)
		d.DeploymentEnder = chaincfg.NewMedianTimeDeploymentEnder(en)
		th := p.RuleChangeActivationThreshold
		if d.CustomActivationThreshold != 0 {
			th = d.CustomActivationThreshold
		}
		out = append(out, dep{id: uint32(id), ref: refbip9.Deployment{Bit: d.BitNumber, Start: start, Timeout: end, Threshold: th, Window: w,
			MinActivationHeight: d.MinActivationHeight, AlwaysActiveHeight: d.AlwaysActiveHeight,
			Speedy: d.MinActivationHeight != 0 || d.CustomActivationThreshold != 0}})
	}
	return out
}

type world struct {
	k    *mon.Case
	s    *sim.Sim
	g    *chaingen.Gen
	deps []dep
}

func (w *world) checkTip(what string) {
	c := w.s.N.Chain
	tip := w.s.Tip
	wantVersion := uint32(0x20000000)
	for _, d := range w.deps {
		want := refbip9.StateAfter(tip, &d.ref)
		got, err := c.ThresholdState(d.id)
		if err != nil || toRef(got) != want {
			w.s.Fail("state:ThresholdState:"+want.String(), "%s: ThresholdState(dep %d) at tip %s (height %d) = %v (err %v), BIP9 says %v; definition %+v", what, d.id, tip.Name, tip.Height, got, err, want, d.ref)
			return
		}
		act, err := c.IsDeploymentActive(d.id)
		if err != nil || act != (want == refbip9.Active) {
			w.s.Fail("state:IsDeploymentActive", "%s: IsDeploymentActive(dep %d) = %v, state %v", what, d.id, act, want)
			return
		}
		if want == refbip9.Started || want == refbip9.LockedIn {
			wantVersion |= 1 << d.ref.Bit
		}
		w.k.Count("state."+want.String(), 1)
	}
	v, err := c.CalcNextBlockVersion()
	if err != nil || uint32(v) != wantVersion {
		w.s.Fail("version:CalcNextBlockVersion", "%s: CalcNextBlockVersion = %#x (err %v), want %#x", what, uint32(v), err, wantVersion)
	}
	w.k.Count("check.tip", 1)
}

// checkAnywhere queries the state at random nodes of every branch in random order (cache reuse across forks).
func (w *world) checkAnywhere(r *mon.Rand, n int) {
	c := w.s.N.Chain
	all := w.g.Tree.All
	for i := 0; i < n && !w.s.Failed; i++ {
		b := all[r.Intn(len(all))]
		if !w.s.InIndex(b) {
			continue
		}
		d := w.deps[r.Intn(len(w.deps))]
		got, err := c.VerifDeploymentStateAt(&b.Hash, d.id)
		want := refbip9.StateAfter(b, &d.ref)
		if err != nil || toRef(got) != want {
			w.s.Fail("state:at-node:"+want.String(), "state of dep %d after %s (height %d, on active chain %v) = %v (err %v), BIP9 says %v; definition %+v",
				d.id, b.Name, b.Height, w.s.Tip.Ancestor(b.Height) == b, got, err, want, d.ref)
			return
		}
		// terminal states are never left
		if b.Parent != nil {
			pw := refbip9.StateAfter(b.Parent, &d.ref)
			if (pw == refbip9.Active || pw == refbip9.Failed) && want != pw && d.ref.AlwaysActiveHeight == 0 {
				w.k.Failf("calibration:refbip9-terminal-left", "reference left a terminal state")
			}
		}
		w.k.Count("check.anywhere", 1)
	}
}

// gateProbe: a block template carrying a transaction whose lock time lies between the parent's median time
// past and the block time is final under the pre-CSV rule and non-final under BIP113: the verdict must flip
// exactly when the CSV deployment is Active for the block being built.
func (w *world) gateProbe(r *mon.Rand, csv *dep) {
	tip := w.s.Tip
	coins := w.g.Mature(w.g.Wallet(tip), tip.Height+1)
	if len(coins) == 0 {
		return
	}
	mtp := tip.MTP()
	lock := uint32(mtp)
	tx, _, _ := w.g.RandomTx(r, coins, chaingen.TxOpts{LockTime: lock, Sequence: 0xfffffffe, MaxIn: 1, Version: 1})
	if tx == nil {
		return
	}
	step := mtp + 5 - tip.Msg.Header.Timestamp.Unix()
	if step < 1 {
		step = 1
	}
	// build as a named draft that is not delivered
	blk := w.g.Block(r, tip, chaingen.BlockOpts{Txs: []*wire.MsgTx{tx}, TimeStep: step, Name: "probe", Label: refchain.InvalidEarly, Rule: "bc:probe"})
	if blk.Msg.Header.Timestamp.Unix() <= int64(lock) {
		return
	}
	err := w.s.N.Chain.CheckConnectBlockTemplate(btcutil.NewBlock(blk.Msg))
	active := refbip9.StateAfter(tip, &csv.ref) == refbip9.Active
	if active && err == nil {
		w.s.Fail("gate:bip113-not-enforced-when-active", "template with a tx locked at MTP accepted although CSV is Active for height %d", tip.Height+1)
	}
	if !active && err != nil {
		w.s.Fail("gate:bip113-enforced-before-active", "template with a tx locked at MTP refused (%v) although CSV is %v for height %d", err, refbip9.StateAfter(tip, &csv.ref), tip.Height+1)
	}
	if active {
		w.k.Count("gate.active", 1)
	} else {
		w.k.Count("gate.inactive", 1)
	}
}

// gateProbeOpcode: the other rule gated on the CSV deployment is the opcode itself. A template that creates a P2SH
// output with the redeem script "1 OP_CHECKSEQUENCEVERIFY OP_DROP OP_TRUE" and spends it in the same block with a
// version-2 input of sequence 0 is valid while the opcode is a NOP and invalid (operand 1 > sequence 0) from the first
// block of the Active window on.
func (w *world) gateProbeOpcode(r *mon.Rand, csv *dep) {
	tip := w.s.Tip
	var c *chaingen.Spendable
	coins := w.g.Mature(w.g.Wallet(tip), tip.Height+1)
	for i := range coins {
		if sc := coins[i].Coin.PkScript; len(sc) == 1 && sc[0] == 0x51 {
			c = &coins[i]
			break
		}
	}
	if c == nil {
		w.k.Count("gate.opcode.no-anyone-can-spend-coin", 1)
		return
	}
	redeem := []byte{0x51, 0xb2, 0x75, 0x51}
	h := address.Hash160(redeem)
	t1 := wire.NewMsgTx(1)
	t1.AddTxIn(&wire.TxIn{PreviousOutPoint: c.Op, Sequence: 0xffffffff})
	t1.AddTxOut(&wire.TxOut{Value: c.Coin.Amount, PkScript: append(append([]byte{0xa9, 0x14}, h...), 0x87)})
	t2 := wire.NewMsgTx(2)
	t2.AddTxIn(&wire.TxIn{PreviousOutPoint: wire.OutPoint{Hash: t1.TxHash(), Index: 0}, Sequence: 0,
		SignatureScript: append([]byte{byte(len(redeem))}, redeem...)})
	t2.AddTxOut(&wire.TxOut{Value: c.Coin.Amount, PkScript: []byte{0x51}})
	blk := w.g.Block(r, tip, chaingen.BlockOpts{NTx: 0, Name: "probe-op", Label: refchain.InvalidEarly, Rule: "bc:probe",
		Mutate: func(d *chaingen.Draft) { d.Msg.Transactions = append(d.Msg.Transactions, t1, t2) }})
	err := w.s.N.Chain.CheckConnectBlockTemplate(btcutil.NewBlock(blk.Msg))
	st := refbip9.StateAfter(tip, &csv.ref)
	active := st == refbip9.Active
	pos := "mid-window"
	switch win := int32(w.g.P.MinerConfirmationWindow); (tip.Height + 1) % win {
	case 0:
		pos = "first-of-window"
	case win - 1:
		pos = "last-of-window"
	}
	if active && err == nil {
		w.s.Fail("gate:csv-opcode-not-enforced-when-active", "template with an unmet OP_CHECKSEQUENCEVERIFY accepted although CSV is Active for height %d (%s)", tip.Height+1, pos)
	}
	if !active && err != nil {
		w.s.Fail("gate:csv-opcode-enforced-before-active", "template with OP_CHECKSEQUENCEVERIFY as a NOP refused (%v) although CSV is %v for height %d (%s)", err, st, tip.Height+1, pos)
	}
	if active {
		w.k.Count("gate.opcode.active", 1)
	} else {
		w.k.Count("gate.opcode.inactive", 1)
	}
	if st == refbip9.LockedIn && pos == "last-of-window" {
		w.k.Count("gate.opcode.last-locked-in-block", 1)
	}
	if active && pos == "first-of-window" && refbip9.StateAfter(tip.Parent, &csv.ref) == refbip9.LockedIn {
		w.k.Count("gate.opcode.first-active-block", 1)
	}
}

func runCase(k *mon.Case) {
	r := k.Rand
	p := node.NewParams(node.FamRegtest)
	horizon := int64(40 * 600)
	deps := randomDeployments(r, p, horizon)
	g := chaingen.New(p, node.FamRegtest, r)
	g.MaxTx = 1
	s, err := sim.New(k, g, node.Config{UtxoCacheMaxSize: 1 << 25})
	if err != nil {
		k.Failf("harness:open", "cannot open node: %v", err)
		return
	}
	defer s.Destroy()
	g.ClockNow = s.N.Clock.Now()
	w := &world{k: k, s: s, g: g, deps: deps}
	var csv *dep
	for i := range deps {
		if deps[i].id == chaincfg.DeploymentCSV {
			csv = &deps[i]
		}
	}
	win := int(p.MinerConfirmationWindow)
	k.Desc(map[string]any{"window": win, "threshold": p.RuleChangeActivationThreshold, "deps": deps2desc(deps)})
	// per-window voting plan per deployment: either a voting intensity or an exact number of signalling blocks at the
	// deployment's threshold -1 / +0 / +1 placed at random positions of the window; a window may also "vote" with the
	// wrong top bits (011, 010, plain version 4: never a signal under BIP9, whatever the deployment bits say)
	type plan struct {
		bias  []int
		exact [][]bool // exact[i] != nil: position -> votes
		top   uint32
	}
	voteBlock := func(parent *refchain.Block, pl *plan, pos int) *refchain.Block {
		v := pl.top
		if r.Chance(1, 12) {
			v = []uint32{4, 0x40000000, 0x30000000, 0x20000000, 0x60000000}[r.Intn(5)] // some non-signalling top-bit patterns
			if v == 0x30000000 {
				v = 0x20000000 | 1<<28
			}
		}
		for i, d := range deps {
			vote := r.Intn(100) < pl.bias[i]
			if pl.exact[i] != nil {
				vote = pl.exact[i][pos%len(pl.exact[i])]
			}
			if vote {
				v |= 1 << d.ref.Bit
			}
		}
		if v&0xe0000000 != 0x20000000 {
			k.Count("vote.blocks_with_foreign_top_bits", 1)
		}
		step := int64(300 + r.Intn(900))
		bo := chaingen.BlockOpts{NTx: r.Intn(2), Version: int32(v), TimeStep: step}
		if r.Chance(1, 3) {
			bo.CoinbaseKind = chaingen.KTrue // anyone-can-spend coins for the opcode gate probe
		}
		return g.Block(r, parent, bo)
	}
	newPlan := func() *plan {
		pl := &plan{bias: make([]int, len(deps)), exact: make([][]bool, len(deps)), top: 0x20000000}
		if r.Chance(1, 7) {
			pl.top = []uint32{0x60000000, 0x40000000, 4}[r.Intn(3)]
			k.Count("vote.windows_with_foreign_top_bits", 1)
		}
		for i := range pl.bias {
			pl.bias[i] = []int{0, 30, 70, 90, 100}[r.Intn(5)]
			if r.Chance(1, 3) {
				n := int(deps[i].ref.Threshold) - 1 + r.Intn(3)
				n = max(0, min(n, win))
				ex := make([]bool, win)
				for _, j := range r.Perm(win)[:n] {
					ex[j] = true
				}
				pl.exact[i] = ex
				k.Count("vote.windows_at_threshold", 1)
			}
		}
		return pl
	}
	tip := g.Tree.Genesis
	nWindows := 5 + r.Intn(6)
	pl := newPlan()
	var forkPoints []*refchain.Block
	for i := 0; i < nWindows*win && !s.Failed; i++ {
		// block i+1 has height i+1: a window of heights [k*win, (k+1)*win) starts with the block built at i = k*win-1
		if (i+1)%win == 0 {
			pl = newPlan()
		}
		tip = voteBlock(tip, pl, i+1)
		s.DeliverBlock(tip)
		w.checkTip("extend")
		if r.Chance(1, 10) {
			forkPoints = append(forkPoints, tip)
		}
		// the rules gated on CSV: probed at random heights and always for the last block of a window and the
		// first block of the next one
		if nh := i + 2; csv != nil && (nh%win == 0 || nh%win == win-1) {
			w.gateProbe(r, csv)
			w.gateProbeOpcode(r, csv)
		} else if csv != nil && r.Chance(1, 3) {
			w.gateProbe(r, csv)
			if r.Chance(1, 3) {
				w.gateProbeOpcode(r, csv)
			}
		}
		if r.Chance(1, 25) {
			w.checkAnywhere(r, 10)
		}
	}
	// side branches that vote differently and overtake the trunk
	for _, fp := range forkPoints {
		if s.Failed {
			break
		}
		if fp == nil || !r.Chance(1, 2) {
			continue
		}
		b := fp
		n := int(s.Tip.Height-fp.Height) + 1 + r.Intn(win)
		pl = newPlan()
		for j := 0; j < n && !s.Failed; j++ {
			if int(b.Height+1)%win == 0 {
				pl = newPlan()
			}
			b = voteBlock(b, pl, int(b.Height+1))
			s.DeliverBlock(b)
			w.checkTip("side")
		}
		w.checkAnywhere(r, 30)
	}
	if !s.Failed && r.Chance(1, 2) {
		// flip back and forth with invalidate / reconsider on a block of the active chain
		t := s.Tip
		if t.Height > int32(win) {
			x := t.Ancestor(t.Height - int32(r.Intn(win)))
			s.Invalidate(x)
			w.checkTip("after-invalidate")
			w.checkAnywhere(r, 20)
			s.Reconsider(x)
			w.checkTip("after-reconsider")
		}
	}
	if !s.Failed {
		w.checkAnywhere(r, 60)
		s.Restart(r.Bool())
		w.checkTip("after-restart")
		w.checkAnywhere(r, 60)
	}
	k.Eval(mon.Sig("bip9", win, p.RuleChangeActivationThreshold, len(g.Tree.All), s.Tip.Hash.String()[:8]), true)
	if k.Index < 2 {
		k.Sample(map[string]any{"window": win, "threshold": p.RuleChangeActivationThreshold, "deployments": deps2desc(deps), "blocks": len(g.Tree.All)})
	}
}

func deps2desc(deps []dep) []map[string]any {
	var out []map[string]any
	for _, d := range deps {
		out = append(out, map[string]any{"id": d.id, "bit": d.ref.Bit, "start": d.ref.Start, "timeout": d.ref.Timeout, "threshold": d.ref.Threshold,
			"minheight": d.ref.MinActivationHeight, "always": d.ref.AlwaysActiveHeight, "speedy": d.ref.Speedy})
	}
	return out
}

func main() {
	mon.Main("C14", func(c *mon.Ctx) {
		c.Rule("one case = a real chain of 5-10 confirmation windows (window 4-16, random thresholds, start/timeout by median time, min activation height, custom threshold, " +
			"always-active height per deployment), per-window vote intensities, side branches that vote differently and overtake the trunk, invalidate/reconsider, restart; after every " +
			"block ThresholdState/IsDeploymentActive/CalcNextBlockVersion are compared with a from-genesis BIP9 evaluation, states are queried at random nodes of all branches in random " +
			"order, and a BIP113-sensitive template probes that the CSV-gated rule flips exactly at activation; distinct = (window, threshold, size, final tip)")
		c.Family("bip9", c.N(200, 12000), runCase)
		c.Require("vote.windows_with_foreign_top_bits", 50)
		c.Require("vote.windows_at_threshold", 500)
		for _, st := range []string{"Defined", "Started", "LockedIn", "Active", "Failed"} {
			c.Require("state."+st, 50)
		}
		c.Require("check.anywhere", 2000)
		c.Require("gate.active", 20)
		c.Require("gate.inactive", 20)
		c.Require("gate.opcode.active", 20)
		c.Require("gate.opcode.inactive", 20)
		c.Require("gate.opcode.last-locked-in-block", 5)
		c.Require("gate.opcode.first-active-block", 5)
	})
}
