// Worker for C16: address / key / script-template encodings are bijective and network-separated.
// The real btcd packages address, address/base58, address/bech32, txscript (standard.go, pkscript.go, taproot.go),
// btcutil (wif.go) and btcutil/hdkeychain are executed on generated inputs; the oracle is verif/ref/refaddr
// (written from BIP173/350, BIP32, BIP341 and the Base58Check / WIF definitions) plus verif/ref/refec.
package main

import (
	"strings"

	"verif/mon"
)

func main() {
	mon.Main("C16", func(c *mon.Ctx) {
		c.Rule("addr.roundtrip: every address kind (p2pkh p2sh p2wpkh p2wsh p2tr p2a pubkey) x every network (5 built-in, signet, 5 synthetic " +
			"registered through chaincfg.Register) with random payloads, decoded on every network; segwit.grid: witness version 0..16 x program length " +
			"0..42 x checksum variant x case form x network; addr.mutate / wif / bip32 mutants: strings at edit distance 1..4 (substitute, transpose, " +
			"insert, delete, case flip); bip32: random seeds, paths of depth 1..8 with boundary indices, hardened and not; taproot: 1..32 leaves, " +
			"duplicates, btcd-assembled and balanced / skewed / random shapes. distinct = (family, network, kind, string / seed+path / leaf count+shape+root)")
		c.Note("oracles verif/ref/refaddr and verif/ref/refec are independent of btcd; calibrated on the base58 / WIF vectors of the repo tests, the BIP173/BIP350 " +
			"valid / invalid lists, the BIP32 test vectors 1-3, and 265 script-path commitments accepted by Bitcoin Core (taproot-ref)")
		c.Note("valid segwit addresses of witness version 2..16 and version-1 programs other than 32 bytes / pay-to-anchor are documented as unsupported by " +
			"btcd's DecodeAddress (typed Unsupported* errors); they are counted (addr.decode.valid-but-unsupported), not reported")
		if p := registerNets(); len(p) > 0 {
			c.Violation("setup", 0, "harness:chaincfg.Register", strings.Join(p, "; "), nil)
			return
		}

		if mon.RaceEnabled {
			// the -race variant runs only the concurrent family (the single-goroutine differential families gain nothing from it)
			c.Family("concurrent", c.N(60, 600), famConcurrent(c))
			return
		}
		c.Family("calibrate", nCalibrate, calibrate)
		c.Family("addr.roundtrip", c.N(3850, 38500), famAddrRoundTrip(c))
		c.Family("segwit.grid", 17*(gridMaxLen+1)*c.N(1, 3), famSegwitGrid(c))
		c.Exhaustive("witness version 0..16 x program length 0..42 x {bech32, bech32m} x {lower, upper, mixed case} x 11 networks (family segwit.grid)")
		c.Family("addr.mutate", c.N(6000, 60000), famAddrMutate(c))
		c.Family("addr.shadow", c.N(110, 1100), famAddrShadow(c))
		c.Family("script.computepk", c.N(1500, 15000), famComputePkScript(c))
		c.Family("wif", c.N(1100, 11000), famWIF(c))
		c.Family("bip32", c.N(660, 6600), famBIP32(c))
		c.Family("taproot", c.N(400, 4000), famTaproot(c))
		c.Family("concurrent", c.N(60, 600), famConcurrent(c))

		c.Require("calibrate.base58", 20)
		c.Require("calibrate.bech32", 50)
		c.Require("calibrate.segwit", 13)
		c.Require("calibrate.bip32", 20)
		c.Require("calibrate.bip341", 265)
		c.Require("addr.decode.accepted", 10000)
		c.Require("addr.decode.rejected", 10000)
		c.Require("addr.mutants", 20000)
		c.Require("script.checks", 3000)
		c.Require("segwit.grid.wrong-checksum-variant", 1000)
		c.Require("addr.shadow.found", 10)
		c.Require("addr.pubkey.setformat", 200)
		c.Require("concurrent.calls", 100000)
		c.Require("script.computepk", 1000)
		c.Require("wif.decode.accepted", 1000)
		c.Require("wif.decode.rejected", 5000)
		c.Require("bip32.steps", 1500)
		c.Require("bip32.commute", 500)
		c.Require("bip32.hardened-from-public-refused", 300)
		c.Require("taproot.leaf-proofs", 3000)
		c.Require("taproot.engine-spends", 500)
		c.Require("taproot.assembled-trees.duplicate-leaves", 30)
	})
}
