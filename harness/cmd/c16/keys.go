package main

import (
	"bytes"
	"encoding/hex"
	"fmt"
	"math/big"

	"verif/mon"
	"verif/ref/refaddr"
	"verif/ref/refec"

	"github.com/btcsuite/btcd/btcec/v2"
	"github.com/btcsuite/btcd/btcutil/v2"
	"github.com/btcsuite/btcd/btcutil/v2/hdkeychain"
)

func randScalar(r *mon.Rand) *big.Int {
	switch r.Intn(12) {
	case 0:
		return big.NewInt(1)
	case 1:
		return new(big.Int).Sub(refec.N, big.NewInt(1))
	case 2:
		// leading zero bytes
		b := r.Bytes(32)
		for i := 0; i < 1+r.Intn(4); i++ {
			b[i] = 0
		}
		if v := refec.Int(b); v.Sign() > 0 {
			return v
		}
	}
	for {
		v := refec.Int(r.Bytes(32))
		if v.Sign() > 0 && v.Cmp(refec.N) < 0 {
			return v
		}
	}
}

// checkWIFDecode: DecodeWIF(s) accepts <=> the reference accepts, and then the fields agree and the string round-trips.
func checkWIFDecode(k *mon.Case, s, origin string) {
	ver, key, comp, rerr := refaddr.WIFDecode(s)
	w, err := btcutil.DecodeWIF(s)
	k.Count("wif.decode", 1)
	switch {
	case rerr != nil && err == nil:
		k.Failf("wif:DecodeWIF:accepts-invalid:"+origin, "DecodeWIF(%q) accepted; reference: %v", s, rerr)
	case rerr == nil && err != nil:
		k.Failf("wif:DecodeWIF:rejects-valid:"+origin, "DecodeWIF(%q) = %v; reference accepts", s, err)
	case rerr == nil:
		if !bytes.Equal(w.PrivKey.Serialize(), key) || w.CompressPubKey != comp {
			k.Failf("wif:DecodeWIF:fields", "%q: key %x compressed %v, reference %x %v", s, w.PrivKey.Serialize(), w.CompressPubKey, key, comp)
		}
		if w.String() != s {
			k.Failf("wif:roundtrip", "%q re-encodes as %q", s, w.String())
		}
		for _, n := range nets {
			if w.IsForNet(n) != (ver == n.PrivateKeyID) {
				k.Failf("wif:IsForNet", "%q: IsForNet(%s)=%v, prefix equality says %v", s, n.Name, w.IsForNet(n), ver == n.PrivateKeyID)
			}
		}
		k.Count("wif.decode.accepted", 1)
	default:
		k.Count("wif.decode.rejected", 1)
	}
}

func famWIF(c *mon.Ctx) func(k *mon.Case) {
	return func(k *mon.Case) {
		r := k.Rand
		n := nets[int(k.Index)%len(nets)]
		d := randScalar(r)
		comp := r.Bool()
		key := refec.Bytes32(d)
		want := refaddr.WIFEncode(n.PrivateKeyID, key, comp)
		k.Desc(map[string]any{"net": n.Name, "key": hex.EncodeToString(key), "compressed": comp, "wif": want})
		priv, _ := btcec.PrivKeyFromBytes(key)
		w, err := btcutil.NewWIF(priv, n, comp)
		if err != nil {
			k.Failf("wif:NewWIF:error", "%v", err)
			return
		}
		if w.String() != want {
			k.Failf("wif:String:neq-reference", "got %q want %q", w.String(), want)
		}
		pt := refec.MulG(d)
		ser := pt.Uncompressed()
		if comp {
			ser = pt.Compressed()
		}
		if !bytes.Equal(w.SerializePubKey(), ser) {
			k.Failf("wif:SerializePubKey", "got %x want %x", w.SerializePubKey(), ser)
		}
		checkWIFDecode(k, want, "roundtrip")
		// crafted invalid payloads under a valid checksum
		n256 := refec.Bytes32(refec.N)
		over := refec.Bytes32(new(big.Int).Add(refec.N, big.NewInt(int64(r.Intn(1000)))))
		for _, p := range [][]byte{
			make([]byte, 32), append(make([]byte, 32), 1), n256, append(append([]byte{}, n256...), 1), over,
			bytes.Repeat([]byte{0xff}, 32), append(append([]byte{}, key...), 2), append(append([]byte{}, key...), 0),
			key[:31], append(append([]byte{}, key...), 1, 1), {},
		} {
			checkWIFDecode(k, refaddr.Base58CheckEncode(n.PrivateKeyID, p), "crafted")
		}
		full, _ := refaddr.Base58Decode(want)
		for bi := 1; bi <= 4; bi++ {
			bad := append([]byte{}, full...)
			bad[len(bad)-bi] ^= 1 << uint(r.Intn(8))
			checkWIFDecode(k, refaddr.Base58Encode(bad), fmt.Sprintf("crafted-checksum-byte%d", 4-bi))
		}
		// edit-distance mutants
		for m := 0; m < 6; m++ {
			s := want
			for d := 1 + r.Intn(4); d > 0; d-- {
				s, _ = mutate(r, s)
			}
			if s != want {
				checkWIFDecode(k, s, "mutant")
			}
		}
		k.Count("wif.cases", 1)
		k.Eval(mon.Sig("wif", n.Name, comp, want), true)
	}
}

func pickIndex(r *mon.Rand) uint32 {
	var i uint32
	switch r.Intn(8) {
	case 0:
		i = 0
	case 1:
		i = 0x7fffffff
	case 2:
		i = uint32(r.Intn(4))
	case 3:
		i = r.Uint32() & 0x7fffffff
	default:
		i = uint32(r.Intn(1000))
	}
	if r.Chance(2, 5) {
		i |= refaddr.Hardened
	}
	return i
}

// compareExt compares a btcd extended key with the reference one field by field and as a string.
func compareExt(k *mon.Case, where string, got *hdkeychain.ExtendedKey, want *refaddr.ExtKey) bool {
	ok := true
	if got.String() != want.String() {
		k.Failf("bip32:"+where+":String", "got %s want %s", got.String(), want.String())
		ok = false
	}
	fp := want.ParentFP
	wantFP := uint32(fp[0])<<24 | uint32(fp[1])<<16 | uint32(fp[2])<<8 | uint32(fp[3])
	if got.Depth() != want.Depth || got.ChildIndex() != want.ChildNum || got.ParentFingerprint() != wantFP ||
		!bytes.Equal(got.ChainCode(), want.ChainCode[:]) || got.IsPrivate() != (want.Priv != nil) || !bytes.Equal(got.Version(), want.Version[:]) {
		k.Failf("bip32:"+where+":fields", "depth %d/%d index %d/%d parentFP %08x/%08x private %v", got.Depth(), want.Depth, got.ChildIndex(), want.ChildNum,
			got.ParentFingerprint(), wantFP, got.IsPrivate())
		ok = false
	}
	pub, err := got.ECPubKey()
	if err != nil || !bytes.Equal(pub.SerializeCompressed(), want.Pub.Compressed()) {
		k.Failf("bip32:"+where+":ECPubKey", "err=%v", err)
		ok = false
	}
	if want.Priv != nil {
		priv, err := got.ECPrivKey()
		if err != nil || !bytes.Equal(priv.Serialize(), refec.Bytes32(want.Priv)) {
			k.Failf("bip32:"+where+":ECPrivKey", "err=%v", err)
			ok = false
		}
	}
	k.Count("bip32.compare", 1)
	return ok
}

func checkKeyFromString(k *mon.Case, s, origin string) {
	want, rerr := refaddr.ParseExtKey(s)
	got, err := hdkeychain.NewKeyFromString(s)
	k.Count("bip32.parse", 1)
	switch {
	case rerr != nil && err == nil:
		k.Failf("bip32:NewKeyFromString:accepts-invalid:"+origin, "%q accepted; reference: %v", s, rerr)
	case rerr == nil && err != nil:
		k.Failf("bip32:NewKeyFromString:rejects-valid:"+origin, "%q: %v", s, err)
	case rerr == nil:
		compareExt(k, "NewKeyFromString:"+origin, got, want)
		k.Count("bip32.parse.accepted", 1)
	default:
		k.Count("bip32.parse.rejected", 1)
	}
}

func famBIP32(c *mon.Ctx) func(k *mon.Case) {
	return func(k *mon.Case) {
		r := k.Rand
		n := nets[int(k.Index)%len(nets)]
		seed := r.Bytes(16 + r.Intn(49))
		depth := 1 + r.Intn(8)
		path := make([]uint32, depth)
		for i := range path {
			path[i] = pickIndex(r)
		}
		k.Desc(map[string]any{"net": n.Name, "seed": hex.EncodeToString(seed), "path": path})
		want, rerr := refaddr.Master(seed, n.HDPrivateKeyID)
		got, err := hdkeychain.NewMaster(seed, n)
		if (rerr == nil) != (err == nil) {
			k.Failf("bip32:NewMaster:verdict", "btcd err=%v reference err=%v", err, rerr)
			return
		}
		if rerr != nil {
			return
		}
		if !compareExt(k, "NewMaster", got, want) {
			return
		}
		if !got.IsForNet(n) {
			k.Failf("bip32:IsForNet", "master key not for its own network %s", n.Name)
		}
		for _, o := range nets {
			wantNet := n.HDPrivateKeyID == o.HDPrivateKeyID || n.HDPrivateKeyID == o.HDPublicKeyID
			if got.IsForNet(o) != wantNet {
				k.Failf("bip32:IsForNet", "IsForNet(%s)=%v, version equality says %v", o.Name, got.IsForNet(o), wantNet)
			}
		}
		// now and then steer one step to a child whose private key starts with a zero byte (serialization / hardened
		// derivation of short scalars), followed by a hardened step
		grindAt := -1
		if depth >= 2 && r.Chance(1, 3) {
			grindAt = r.Intn(depth - 1)
		}
		parentKey := got
		for step := 0; step < len(path); step++ {
			idx := path[step]
			parentKey = got
			if step == grindAt {
				start := r.Uint32()
				for t := uint32(0); t < 4000; t++ {
					cand := start + t
					if sc := want.ChildPrivScalar(cand); sc != nil && sc.BitLen() <= 248 {
						idx = cand
						path[step] = cand
						path[step+1] |= refaddr.Hardened
						k.Count("bip32.leading-zero-key", 1)
						break
					}
				}
				k.Desc(map[string]any{"net": n.Name, "seed": hex.EncodeToString(seed), "path": path})
			}
			hard := idx >= refaddr.Hardened
			// public side first: Neuter then derive
			gotPub, err := got.Neuter()
			if err != nil {
				k.Failf("bip32:Neuter:error", "%v", err)
				return
			}
			wantPub := want.Neuter(n.HDPublicKeyID)
			compareExt(k, "Neuter", gotPub, wantPub)
			gotPubChild, perr := gotPub.Derive(idx)
			wantPubChild, rperr := wantPub.Child(idx)
			if (perr == nil) != (rperr == nil) {
				k.Failf("bip32:Derive:public:verdict", "index %d: btcd err=%v reference err=%v", idx, perr, rperr)
			}
			if hard {
				if perr == nil {
					k.Failf("bip32:Derive:hardened-from-public", "hardened child %d derived from a public key", idx)
				}
				k.Count("bip32.hardened-from-public-refused", 1)
			}
			gotChild, err := got.Derive(idx)
			wantChild, rerr := want.Child(idx)
			if (err == nil) != (rerr == nil) {
				k.Failf("bip32:Derive:private:verdict", "index %d: btcd err=%v reference err=%v", idx, err, rerr)
				return
			}
			if rerr != nil {
				k.Count("bip32.invalid-child", 1)
				return
			}
			if !compareExt(k, "Derive:private", gotChild, wantChild) {
				return
			}
			if !hard && perr == nil && rperr == nil {
				compareExt(k, "Derive:public", gotPubChild, wantPubChild)
				// commutation: Neuter(Derive(k, i)) == Derive(Neuter(k), i)
				nd, err := gotChild.Neuter()
				if err != nil || nd.String() != gotPubChild.String() {
					k.Failf("bip32:commute", "step %d index %d: Neuter(Derive) = %v, Derive(Neuter) = %v", step, idx, nd, gotPubChild)
				}
				k.Count("bip32.commute", 1)
			}
			got, want = gotChild, wantChild
			k.Count("bip32.steps", 1)
			if hard {
				k.Count("bip32.steps.hardened", 1)
			}
		}
		// strings
		xprv, xpub := want.String(), want.Neuter(n.HDPublicKeyID).String()
		checkKeyFromString(k, xprv, "roundtrip")
		checkKeyFromString(k, xpub, "roundtrip")
		// address of the final key
		if a, err := got.Address(n); err != nil || a.EncodeAddress() != refaddr.Base58CheckEncode(n.PubKeyHashAddrID, refaddr.Hash160(want.Pub.Compressed())) {
			k.Failf("bip32:Address", "err=%v", err)
		}
		// SetNet re-targets one key only: its parent, its neutered copy, later keys and the registered network parameters
		// keep their own version bytes
		{
			o := nets[r.Intn(len(nets))]
			parentStr := parentKey.String()
			pubCopy, _ := got.Neuter()
			pubStr := pubCopy.String()
			idsN := [2][4]byte{n.HDPrivateKeyID, n.HDPublicKeyID}
			idsO := [2][4]byte{o.HDPrivateKeyID, o.HDPublicKeyID}
			got.SetNet(o)
			wantO := *want
			wantO.Version = o.HDPrivateKeyID
			if got.String() != wantO.String() || !got.IsForNet(o) {
				k.Failf("bip32:SetNet:self", "after SetNet(%s): %s, want %s", o.Name, got.String(), wantO.String())
			}
			if parentKey != got && parentKey.String() != parentStr {
				k.Failf("bip32:SetNet:changed-parent", "SetNet(%s) on a child changed its parent from %s to %s", o.Name, parentStr, parentKey.String())
			}
			if pubCopy.String() != pubStr {
				k.Failf("bip32:SetNet:changed-neutered-copy", "SetNet(%s) changed the neutered copy from %s to %s", o.Name, pubStr, pubCopy.String())
			}
			if [2][4]byte{n.HDPrivateKeyID, n.HDPublicKeyID} != idsN || [2][4]byte{o.HDPrivateKeyID, o.HDPublicKeyID} != idsO {
				k.Failf("bip32:SetNet:changed-network-parameters", "SetNet(%s) rewrote registered HD version bytes: %x/%x now %x/%x", o.Name, idsN[0], idsN[1], n.HDPrivateKeyID, n.HDPublicKeyID)
				n.HDPrivateKeyID, n.HDPublicKeyID = idsN[0], idsN[1]
				o.HDPrivateKeyID, o.HDPublicKeyID = idsO[0], idsO[1]
			}
			if fresh, err := hdkeychain.NewMaster(seed, n); err == nil {
				if wm, werr := refaddr.Master(seed, n.HDPrivateKeyID); werr == nil && fresh.String() != wm.String() {
					k.Failf("bip32:SetNet:changed-later-keys", "a master key created after SetNet(%s) serializes as %s, want %s", o.Name, fresh.String(), wm.String())
				}
			}
			got.SetNet(n)
			if got.String() != want.String() {
				k.Failf("bip32:SetNet:back", "after SetNet back to %s: %s, want %s", n.Name, got.String(), want.String())
			}
			k.Count("bip32.setnet", 1)
		}
		for m := 0; m < 4; m++ {
			s := xprv
			if r.Bool() {
				s = xpub
			}
			base := s
			for d := 1 + r.Intn(4); d > 0; d-- {
				s, _ = mutate(r, s)
			}
			if s != base {
				checkKeyFromString(k, s, "mutant")
			}
		}
		// crafted serializations under a valid checksum: out-of-range private keys, off-curve / malformed public keys
		raw := want.Serialize()
		for ci, keyField := range [][]byte{
			append([]byte{0}, make([]byte, 32)...), append([]byte{0}, refec.Bytes32(refec.N)...), append([]byte{0}, bytes.Repeat([]byte{0xff}, 32)...),
			append([]byte{2}, bytes.Repeat([]byte{0xff}, 32)...), append([]byte{4}, r.Bytes(32)...), append([]byte{1}, r.Bytes(32)...),
			append([]byte{3}, refec.Bytes32(big.NewInt(5))...),
		} {
			b := append(append([]byte{}, raw[:45]...), keyField...)
			checkKeyFromString(k, refaddr.Base58CheckRaw(b), fmt.Sprintf("crafted-%d", ci))
		}
		for bi := 0; bi < 4; bi++ {
			chk := refaddr.DSHA(raw)
			bad := append(append([]byte{}, raw...), chk[:4]...)
			bad[78+bi] ^= 1 << uint(r.Intn(8))
			checkKeyFromString(k, refaddr.Base58Encode(bad), fmt.Sprintf("crafted-checksum-byte%d", bi))
		}
		checkKeyFromString(k, refaddr.Base58CheckRaw(raw[:77]), "crafted-short")
		checkKeyFromString(k, refaddr.Base58CheckRaw(append(append([]byte{}, raw...), 0)), "crafted-long")
		k.Count("bip32.cases", 1)
		k.Count(fmt.Sprintf("bip32.depth=%d", depth), 1)
		k.Eval(mon.Sig("bip32", n.Name, hex.EncodeToString(seed[:8]), fmt.Sprint(path)), true)
		if k.Index < 3 {
			k.Sample(map[string]any{"family": "bip32", "net": n.Name, "seed": hex.EncodeToString(seed), "path": path, "xpub": xpub})
		}
	}
}
