package main

import (
	"bytes"
	"encoding/hex"
	"encoding/json"
	"os"
	"path/filepath"
	"strings"

	"verif/mon"
	"verif/ref/refaddr"
	"verif/ref/refec"
)

func vectorsDir() string {
	h := os.Getenv("VERIF_HOME")
	if h == "" {
		h = "/verif"
	}
	return filepath.Join(h, "vectors")
}

func loadJSON(k *mon.Case, rel string, into any) bool {
	b, err := os.ReadFile(filepath.Join(vectorsDir(), rel))
	if err != nil {
		k.Failf("calibration:vectors-missing:"+rel, "%v", err)
		return false
	}
	if err := json.Unmarshal(b, into); err != nil {
		k.Failf("calibration:vectors-unreadable:"+rel, "%v", err)
		return false
	}
	return true
}

func unhex(s string) []byte {
	b, err := hex.DecodeString(s)
	if err != nil {
		panic("bad hex in vector file: " + s)
	}
	return b
}

const nCalibrate = 5

var netByName = map[string][2][4]byte{
	"MainNetParams":  {{0x04, 0x88, 0xad, 0xe4}, {0x04, 0x88, 0xb2, 0x1e}},
	"TestNet3Params": {{0x04, 0x35, 0x83, 0x94}, {0x04, 0x35, 0x87, 0xcf}},
}

// calibrate runs only the reference models against published vectors.
func calibrate(k *mon.Case) {
	switch k.Index {
	case 0: // base58, base58check, WIF
		var v struct {
			EncodeASCII [][2]string `json:"encode_ascii"`
			CheckV20    [][2]string `json:"check_encode_v20_ascii"`
			Invalid     []string
			CheckBadChk string `json:"check_bad_checksum"`
			WIF         []struct {
				Priv       string
				Version    byte
				Compressed bool
				WIF        string
				Pubkey     string
			}
		}
		if !loadJSON(k, "base58/vectors.json", &v) {
			return
		}
		for _, e := range v.EncodeASCII {
			if got := refaddr.Base58Encode([]byte(e[0])); got != e[1] {
				k.Failf("calibration:base58:encode", "%q: got %s want %s", e[0], got, e[1])
			}
			if dec, err := refaddr.Base58Decode(e[1]); err != nil || string(dec) != e[0] {
				k.Failf("calibration:base58:decode", "%q: %v", e[1], err)
			}
			k.Count("calibrate.base58", 1)
		}
		for _, e := range v.CheckV20 {
			if got := refaddr.Base58CheckEncode(20, []byte(e[0])); got != e[1] {
				k.Failf("calibration:base58check:encode", "%q: got %s want %s", e[0], got, e[1])
			}
			ver, p, err := refaddr.Base58CheckDecode(e[1])
			if err != nil || ver != 20 || string(p) != e[0] {
				k.Failf("calibration:base58check:decode", "%q: %v", e[1], err)
			}
			k.Count("calibrate.base58", 1)
		}
		for _, s := range v.Invalid {
			if _, err := refaddr.Base58Decode(s); err == nil {
				k.Failf("calibration:base58:invalid-accepted", "%q", s)
			}
		}
		if _, _, err := refaddr.Base58CheckDecode(v.CheckBadChk); err != refaddr.ErrBase58Checksum {
			k.Failf("calibration:base58check:bad-checksum", "%v", err)
		}
		for _, w := range v.WIF {
			if got := refaddr.WIFEncode(w.Version, unhex(w.Priv), w.Compressed); got != w.WIF {
				k.Failf("calibration:wif:encode", "got %s want %s", got, w.WIF)
			}
			ver, key, comp, err := refaddr.WIFDecode(w.WIF)
			if err != nil || ver != w.Version || comp != w.Compressed || !bytes.Equal(key, unhex(w.Priv)) {
				k.Failf("calibration:wif:decode", "%s: %v", w.WIF, err)
			}
			pt := refec.MulG(refec.Int(key))
			ser := pt.Uncompressed()
			if comp {
				ser = pt.Compressed()
			}
			if !bytes.Equal(ser, unhex(w.Pubkey)) {
				k.Failf("calibration:wif:pubkey", "%s", w.WIF)
			}
			k.Count("calibrate.wif", 1)
		}
	case 1: // BIP173 / BIP350
		type strCase struct {
			BytesHex string `json:"bytes_hex"`
			Valid    bool
		}
		var v struct {
			Bech32, Bech32m []strCase
			SegwitValid     []struct {
				Address      string
				ScriptPubkey string `json:"script_pubkey"`
			} `json:"segwit_valid"`
			SegwitInvalid []struct{ Name, Address string } `json:"segwit_invalid"`
		}
		if !loadJSON(k, "bip173_350/vectors.json", &v) {
			return
		}
		for spec, list := range map[refaddr.Spec][]strCase{refaddr.Bech32: v.Bech32, refaddr.Bech32m: v.Bech32m} {
			for _, c := range list {
				s := string(unhex(c.BytesHex))
				hrp, data, got, err := refaddr.Bech32Decode(s)
				if c.Valid != (err == nil) || (err == nil && got != spec) {
					k.Failf("calibration:bech32:decode", "%q: valid=%v err=%v spec=%d", s, c.Valid, err, got)
				}
				if err == nil {
					if re := refaddr.Bech32Encode(hrp, data, got); re != strings.ToLower(s) {
						k.Failf("calibration:bech32:reencode", "%q -> %q", s, re)
					}
				}
				k.Count("calibrate.bech32", 1)
			}
		}
		for _, c := range v.SegwitValid {
			hrp, ver, prog, err := refaddr.SegwitDecode(c.Address)
			if err != nil || !bytes.Equal(refaddr.SegwitScript(ver, prog), unhex(c.ScriptPubkey)) {
				k.Failf("calibration:segwit:valid", "%s: %v", c.Address, err)
				continue
			}
			if re := refaddr.SegwitEncode(hrp, ver, prog); re != strings.ToLower(c.Address) {
				k.Failf("calibration:segwit:reencode", "%s -> %s", c.Address, re)
			}
			k.Count("calibrate.segwit", 1)
		}
		for _, c := range v.SegwitInvalid {
			if _, _, _, err := refaddr.SegwitDecode(c.Address); err == nil {
				k.Failf("calibration:segwit:invalid-accepted", "%s (%s)", c.Address, c.Name)
			}
			k.Count("calibrate.segwit", 1)
		}
	case 2: // BIP32 vectors
		var v struct {
			Vectors []struct {
				Name, Seed, Xpub, Xprv, Net string
				Path                        []uint32
			}
		}
		if !loadJSON(k, "bip32/vectors.json", &v) {
			return
		}
		for _, c := range v.Vectors {
			ids := netByName[c.Net]
			key, err := refaddr.Master(unhex(c.Seed), ids[0])
			if err != nil {
				k.Failf("calibration:bip32:master", "%s: %v", c.Name, err)
				continue
			}
			for _, i := range c.Path {
				if key, err = key.Child(i); err != nil {
					k.Failf("calibration:bip32:child", "%s: %v", c.Name, err)
					break
				}
			}
			if err != nil {
				continue
			}
			if key.String() != c.Xprv || key.Neuter(ids[1]).String() != c.Xpub {
				k.Failf("calibration:bip32:vector", "%s: got %s / %s", c.Name, key.String(), key.Neuter(ids[1]).String())
			}
			// public derivation of the last step, when it is not hardened, must agree
			if n := len(c.Path); n > 0 && c.Path[n-1] < refaddr.Hardened {
				par, _ := refaddr.Master(unhex(c.Seed), ids[0])
				for _, i := range c.Path[:n-1] {
					par, _ = par.Child(i)
				}
				pub, err := par.Neuter(ids[1]).Child(c.Path[n-1])
				if err != nil || pub.String() != c.Xpub {
					k.Failf("calibration:bip32:ckdpub", "%s", c.Name)
				}
			}
			p, err := refaddr.ParseExtKey(c.Xprv)
			if err != nil || p.String() != c.Xprv {
				k.Failf("calibration:bip32:parse", "%s: %v", c.Name, err)
			}
			p, err = refaddr.ParseExtKey(c.Xpub)
			if err != nil || p.String() != c.Xpub {
				k.Failf("calibration:bip32:parse", "%s: %v", c.Name, err)
			}
			k.Count("calibrate.bip32", 1)
		}
		// private key with a leading zero byte (btcutil issue 172 seed): m/0'/0' of seed 0..0|399
		seed := make([]byte, 32)
		seed[30], seed[31] = 0x01, 0x8f
		m, _ := refaddr.Master(seed, netByName["MainNetParams"][0])
		c0, _ := m.Child(refaddr.Hardened)
		c1, _ := c0.Child(refaddr.Hardened)
		if hex.EncodeToString(refec.Bytes32(c1.Priv)) != "a9b6b30a5b90b56ed48728c73af1d8a7ef1e9cc372ec21afcc1d9bdf269b0988" {
			k.Failf("calibration:bip32:leading-zero", "got %x", refec.Bytes32(c1.Priv))
		}
	case 3, 4: // BIP341 commitments accepted by Bitcoin Core (split in two halves)
		var v struct {
			Commitments []struct{ Comment, OutputKey, Script, ControlBlock string }
		}
		var raw struct {
			Commitments []map[string]string
		}
		if !loadJSON(k, "bip341/script_path_commitments.json", &raw) {
			return
		}
		_ = v
		for i, c := range raw.Commitments {
			if i%2 != int(k.Index-3) {
				continue
			}
			q, script, cb := unhex(c["output_key"]), unhex(c["script"]), unhex(c["control_block"])
			if !refaddr.VerifyControlBlock(q, script, cb) {
				k.Failf("calibration:bip341:commitment", "vector %d (%s) does not verify", i, c["comment"])
			}
			// a flipped bit anywhere must break it
			cb2 := append([]byte(nil), cb...)
			cb2[k.Rand.Intn(len(cb2))] ^= 1 << uint(k.Rand.Intn(8))
			if refaddr.VerifyControlBlock(q, script, cb2) {
				k.Failf("calibration:bip341:tamper", "vector %d verifies with a flipped control block bit", i)
			}
			k.Count("calibrate.bip341", 1)
		}
	}
	k.Eval(mon.Sig("calibrate", k.Index), true)
}
