package main

import (
	"bytes"
	"encoding/hex"
	"fmt"
	"sync"

	"verif/mon"
	"verif/ref/refaddr"
	"verif/ref/refec"

	"github.com/btcsuite/btcd/address/v2"
	"github.com/btcsuite/btcd/address/v2/base58"
	"github.com/btcsuite/btcd/address/v2/bech32"
	"github.com/btcsuite/btcd/btcutil/v2"
	"github.com/btcsuite/btcd/btcutil/v2/hdkeychain"
	"github.com/btcsuite/btcd/chaincfg/v2"
	"github.com/btcsuite/btcd/txscript/v2"
)

// concItem is one string with what the reference says about it; op applies the btcd API and returns a
// description of a disagreement ("" = agrees). Every op is a pure function of immutable inputs, so calling it from
// several goroutines at once must give what a single goroutine gets.
type concItem struct {
	api string
	op  func() string
}

const concWorkers = 8

// famConcurrent: the decoders / encoders are documented-stateless library functions; 8 goroutines apply them to the same
// strings in different orders and every result is compared with the reference answer (which the single-threaded
// families have already shown to be btcd's single-threaded answer). Under -race the detector watches the same run.
func famConcurrent(c *mon.Ctx) func(k *mon.Case) {
	return func(k *mon.Case) {
		r := k.Rand
		var items []concItem
		add := func(api string, op func() string) { items = append(items, concItem{api, op}) }
		for i := 0; i < 40; i++ {
			n := nets[r.Intn(len(nets))]
			kind := kinds[r.Intn(6)] // no pubkey kind here: point multiplication would dominate
			want := genRef(r, kind, n)
			if w, _, _ := expectDecode(want.str, n); w == nil {
				continue // ambiguous network / one-character HRP: covered (and keyed) elsewhere
			}
			str, enc, script, net := want.str, want.encoded, want.script, n
			add("DecodeAddress", func() string {
				a, err := address.DecodeAddress(str, net)
				if err != nil {
					return fmt.Sprintf("DecodeAddress(%q, %s) = %v", str, net.Name, err)
				}
				if a.EncodeAddress() != enc {
					return fmt.Sprintf("DecodeAddress(%q).EncodeAddress() = %q", str, a.EncodeAddress())
				}
				if s, err := txscript.PayToAddrScript(a); err != nil || !bytes.Equal(s, script) {
					return fmt.Sprintf("PayToAddrScript(%q) = %x, %v", str, s, err)
				}
				if _, addrs, _, err := txscript.ExtractPkScriptAddrs(script, net); err != nil || len(addrs) != 1 || addrs[0].EncodeAddress() != enc {
					return fmt.Sprintf("ExtractPkScriptAddrs(%x) differs", script)
				}
				return ""
			})
			if want.hrp == "" {
				raw, _ := refaddr.Base58Decode(str)
				add("base58", func() string {
					if got := base58.Decode(str); !bytes.Equal(got, raw) {
						return fmt.Sprintf("base58.Decode(%q) = %x want %x", str, got, raw)
					}
					if got := base58.Encode(raw); got != str {
						return fmt.Sprintf("base58.Encode(%x) = %q want %q", raw, got, str)
					}
					return ""
				})
			} else {
				hrp, data, _, _ := refaddr.Bech32Decode(str)
				add("bech32", func() string {
					h, d, _, err := bech32.DecodeGeneric(str)
					if err != nil || h != hrp || !bytes.Equal(d, data) {
						return fmt.Sprintf("bech32.DecodeGeneric(%q) = %q %x %v", str, h, d, err)
					}
					return ""
				})
			}
		}
		for i := 0; i < 8; i++ {
			n := nets[r.Intn(len(nets))]
			key := refec.Bytes32(randScalar(r))
			comp := r.Bool()
			w := refaddr.WIFEncode(n.PrivateKeyID, key, comp)
			add("DecodeWIF", func() string {
				d, err := btcutil.DecodeWIF(w)
				if err != nil || d.String() != w || !bytes.Equal(d.PrivKey.Serialize(), key) || d.CompressPubKey != comp {
					return fmt.Sprintf("DecodeWIF(%q): %v", w, err)
				}
				return ""
			})
		}
		for i := 0; i < 4; i++ {
			n := nets[r.Intn(len(nets))]
			m, err := refaddr.Master(r.Bytes(32), n.HDPrivateKeyID)
			if err != nil {
				continue
			}
			ch, err := m.Child(uint32(r.Intn(100)) | refaddr.Hardened)
			if err != nil {
				continue
			}
			xprv, xpub := ch.String(), ch.Neuter(n.HDPublicKeyID).String()
			idx := uint32(r.Intn(1000))
			wantChild := ""
			if cc, err := ch.Child(idx); err == nil {
				wantChild = cc.Neuter(n.HDPublicKeyID).String()
			}
			add("hdkeychain", func() string {
				for _, s := range []string{xprv, xpub} {
					e, err := hdkeychain.NewKeyFromString(s)
					if err != nil || e.String() != s {
						return fmt.Sprintf("NewKeyFromString(%q): %v", s, err)
					}
				}
				if wantChild != "" {
					e, _ := hdkeychain.NewKeyFromString(xpub)
					cc, err := e.Derive(idx)
					if err != nil || cc.String() != wantChild {
						return fmt.Sprintf("Derive(%d) of %q from several goroutines differs: %v", idx, xpub, err)
					}
				}
				return ""
			})
		}
		k.Desc(map[string]any{"items": len(items), "workers": concWorkers})
		// single-threaded pass first: a disagreement here is not a concurrency problem
		for _, it := range items {
			if d := it.op(); d != "" {
				k.Failf("concurrent:single-threaded:"+it.api, "%s", d)
				return
			}
		}
		rounds := 12
		orders := make([][]int, concWorkers)
		for w := range orders {
			orders[w] = r.Perm(len(items))
		}
		var mu sync.Mutex
		bad := map[string]string{}
		var wg sync.WaitGroup
		for w := 0; w < concWorkers; w++ {
			wg.Add(1)
			go func(w int) {
				defer wg.Done()
				defer func() {
					if p := recover(); p != nil {
						mu.Lock()
						bad["panic"] = fmt.Sprint(p)
						mu.Unlock()
					}
				}()
				for round := 0; round < rounds; round++ {
					for _, i := range orders[w] {
						if d := items[i].op(); d != "" {
							mu.Lock()
							if _, ok := bad[items[i].api]; !ok {
								bad[items[i].api] = d
							}
							mu.Unlock()
						}
					}
				}
			}(w)
		}
		wg.Wait()
		for api, d := range bad {
			k.Failf("concurrent:"+api+":differs-from-single-threaded", "%d goroutines: %s", concWorkers, d)
		}
		k.Count("concurrent.cases", 1)
		k.Count("concurrent.calls", int64(concWorkers*rounds*len(items)))
		k.C.EvalN(int64(concWorkers * rounds * len(items)))
		k.Eval(mon.Sig("concurrent", len(items), hex.EncodeToString(r.Bytes(4))), true)
	}
}

var _ = chaincfg.MainNetParams
