package main

import (
	"github.com/btcsuite/btcd/chaincfg/v2"
	"github.com/btcsuite/btcd/wire/v2"
)

// nets is the fixed list of networks every family quantifies over: the five networks chaincfg registers itself,
// signet and five synthetic networks registered (once, deterministically, before any case runs) through
// chaincfg.Register. The synthetic ones cover distinct prefixes, prefixes colliding with other networks (also
// swapped between address kinds), a network whose two base58 prefixes are equal, an HRP that contains the
// separator character, a one-character HRP and a long HRP.
var nets []*chaincfg.Params

func synth(name string, magic uint32, pkh, sh, priv byte, hrp string, hdPriv, hdPub [4]byte) *chaincfg.Params {
	p := chaincfg.MainNetParams // value copy; only the address-related fields matter here
	p.Name = name
	p.Net = wire.BitcoinNet(magic)
	p.PubKeyHashAddrID = pkh
	p.ScriptHashAddrID = sh
	p.PrivateKeyID = priv
	p.Bech32HRPSegwit = hrp
	p.HDPrivateKeyID = hdPriv
	p.HDPublicKeyID = hdPub
	return &p
}

func registerNets() []string {
	sig := chaincfg.SigNetParams
	syn := []*chaincfg.Params{
		&sig,
		synth("syn-distinct", 0x5e5e0001, 0x42, 0x43, 0xc2, "syn", [4]byte{0x04, 0x5f, 0x18, 0xbc}, [4]byte{0x04, 0x5f, 0x1c, 0xf6}),
		// P2PKH prefix = mainnet's P2SH prefix, P2SH prefix = mainnet's P2PKH prefix, HRP and HD ids = mainnet's
		synth("syn-swapped", 0x5e5e0002, 0x05, 0x00, 0x80, "bc", chaincfg.MainNetParams.HDPrivateKeyID, chaincfg.MainNetParams.HDPublicKeyID),
		// both base58 prefixes equal: decoding is ambiguous by construction (ErrAddressCollision); HRP contains '1'
		synth("syn-ambiguous", 0x5e5e0003, 0x30, 0x30, 0xef, "x1y", [4]byte{0x04, 0x35, 0x83, 0x94}, [4]byte{0x04, 0x35, 0x87, 0xcf}),
		synth("syn-hrp1", 0x5e5e0004, 0x19, 0x1a, 0x99, "z", [4]byte{0x01, 0x02, 0x03, 0x04}, [4]byte{0x01, 0x02, 0x03, 0x05}),
		synth("syn-longhrp", 0x5e5e0005, 0xff, 0xfe, 0x01, "averyveryverylonghrp", [4]byte{0xff, 0xff, 0xff, 0xfe}, [4]byte{0xff, 0xff, 0xff, 0xff}),
	}
	nets = []*chaincfg.Params{&chaincfg.MainNetParams, &chaincfg.TestNet3Params, &chaincfg.TestNet4Params,
		&chaincfg.RegressionNetParams, &chaincfg.SimNetParams}
	var problems []string
	for _, p := range syn {
		if err := chaincfg.Register(p); err != nil && err != chaincfg.ErrDuplicateNet {
			problems = append(problems, p.Name+": "+err.Error())
		}
		nets = append(nets, p)
	}
	return problems
}

// hrpRegistered reports whether some network of the list uses the (lower-case) HRP.
func hrpRegistered(hrp string) bool {
	for _, n := range nets {
		if n.Bech32HRPSegwit == hrp {
			return true
		}
	}
	return false
}
