package main

import (
	"bytes"
	"encoding/hex"
	"fmt"
	"sort"

	"verif/mon"
	"verif/ref/refaddr"
	"verif/ref/refec"

	"github.com/btcsuite/btcd/btcec/v2"
	"github.com/btcsuite/btcd/btcec/v2/schnorr"
	"github.com/btcsuite/btcd/chainhash/v2"
	"github.com/btcsuite/btcd/txscript/v2"
	"github.com/btcsuite/btcd/wire/v2"
)

type gLeaf struct {
	version byte
	script  []byte
	witness [][]byte // stack items that satisfy the script (tapscript leaves only)
}

func genLeaf(r *mon.Rand, i int) gLeaf {
	l := gLeaf{version: 0xc0}
	tag := append([]byte{byte(i)}, r.Bytes(1+r.Intn(20))...)
	switch r.Intn(4) {
	case 0:
		// <tag> OP_DROP OP_1
		l.script = append(pushData(tag), 0x75, 0x51)
	case 1:
		// <tag> OP_EQUAL, satisfied by the witness item <tag>
		l.script = append(pushData(tag), 0x87)
		l.witness = [][]byte{tag}
	case 2:
		// a longer script (length prefix of the leaf hash needs 3 bytes): pushes and drops, then OP_1
		for len(l.script) < 260 {
			l.script = append(l.script, pushData(r.Bytes(40+r.Intn(30)))...)
			l.script = append(l.script, 0x75)
		}
		l.script = append(l.script, pushData(tag)...)
		l.script = append(l.script, 0x75, 0x51)
	default:
		l.script = append(pushData(tag), 0x75, 0x51)
		if r.Chance(1, 3) {
			// another (even) leaf version: commitments must still verify; such leaves are not executed here
			l.version = []byte{0xc2, 0x52, 0xfe, 0x02}[r.Intn(4)]
		}
	}
	return l
}

// refTreeFromBtcd walks btcd's node structure and rebuilds it as a reference tree.
func refTreeFromBtcd(n txscript.TapNode) *refaddr.TapNode {
	if leaf, ok := n.(txscript.TapLeaf); ok {
		return &refaddr.TapNode{LeafVersion: byte(leaf.LeafVersion), Script: leaf.Script}
	}
	if n.Left() == nil || n.Right() == nil {
		return nil
	}
	l, r := refTreeFromBtcd(n.Left()), refTreeFromBtcd(n.Right())
	if l == nil || r == nil {
		return nil
	}
	return &refaddr.TapNode{Left: l, Right: r}
}

func leafKeys(leaves []gLeaf) []string {
	var out []string
	for _, l := range leaves {
		out = append(out, fmt.Sprintf("%02x:%x", l.version, l.script))
	}
	sort.Strings(out)
	return out
}

// randomShape builds a random binary tree over the leaves (in order), from balanced to fully skewed.
func randomShape(r *mon.Rand, leaves []gLeaf, skew int) *refaddr.TapNode {
	if len(leaves) == 1 {
		return &refaddr.TapNode{LeafVersion: leaves[0].version, Script: leaves[0].script}
	}
	var cut int
	switch skew {
	case 0:
		cut = len(leaves) / 2
	case 1:
		cut = 1
	case 2:
		cut = len(leaves) - 1
	default:
		cut = 1 + r.Intn(len(leaves)-1)
	}
	if cut < 1 {
		cut = 1
	}
	return &refaddr.TapNode{Left: randomShape(r, leaves[:cut], skew), Right: randomShape(r, leaves[cut:], skew)}
}

func btcdTree(n *refaddr.TapNode) txscript.TapNode {
	if n.IsLeaf() {
		return txscript.NewTapLeaf(txscript.TapscriptLeafVersion(n.LeafVersion), n.Script)
	}
	return txscript.NewTapBranch(btcdTree(n.Left), btcdTree(n.Right))
}

// spend runs the script-path spend of one leaf under txscript.Engine.
func spend(k *mon.Case, outputKey []byte, leaf gLeaf, cb []byte, where string) {
	pkScript := append([]byte{0x51, 0x20}, outputKey...)
	const amt = 100000
	tx := wire.NewMsgTx(2)
	var h chainhash.Hash
	k.Rand.Fill(h[:])
	in := wire.NewTxIn(wire.NewOutPoint(&h, 0), nil, nil)
	in.Witness = append(append(wire.TxWitness{}, leaf.witness...), leaf.script, cb)
	tx.AddTxIn(in)
	tx.AddTxOut(wire.NewTxOut(amt-1000, []byte{0x51}))
	fetcher := txscript.NewCannedPrevOutputFetcher(pkScript, amt)
	hashes := txscript.NewTxSigHashes(tx, fetcher)
	vm, err := txscript.NewEngine(pkScript, tx, 0, txscript.StandardVerifyFlags, nil, hashes, amt, fetcher)
	if err == nil {
		err = vm.Execute()
	}
	if err != nil {
		k.Failf("taproot:Engine:script-path-spend-rejected:"+where, "leaf script %x control block %x output key %x: %v", leaf.script, cb, outputKey, err)
	}
	k.Count("taproot.engine-spends", 1)
	// the same spend with a corrupted control block must fail
	bad := append([]byte(nil), cb...)
	bad[1+k.Rand.Intn(len(bad)-1)] ^= 1 << uint(k.Rand.Intn(8))
	if !refaddr.VerifyControlBlock(outputKey, leaf.script, bad) {
		tx2 := tx.Copy()
		tx2.TxIn[0].Witness[len(tx2.TxIn[0].Witness)-1] = bad
		hashes2 := txscript.NewTxSigHashes(tx2, fetcher)
		vm, err := txscript.NewEngine(pkScript, tx2, 0, txscript.StandardVerifyFlags, nil, hashes2, amt, fetcher)
		if err == nil {
			err = vm.Execute()
		}
		if err == nil {
			k.Failf("taproot:Engine:accepts-bad-control-block", "leaf %x control block %x", leaf.script, bad)
		}
		k.Count("taproot.engine-bad-control-block-rejected", 1)
	}
}

// checkLeaf verifies one control block produced for a leaf under the output key, by the reference and by btcd.
func checkLeaf(k *mon.Case, where string, outputKey []byte, leaf gLeaf, cbBytes []byte, doSpend bool) bool {
	if !refaddr.VerifyControlBlock(outputKey, leaf.script, cbBytes) {
		k.Failf("taproot:"+where+":control-block-does-not-prove-leaf", "leaf (version %02x) %x: control block %x does not open output key %x", leaf.version, leaf.script, cbBytes, outputKey)
		return false
	}
	cb, err := txscript.ParseControlBlock(cbBytes)
	if err != nil {
		k.Failf("taproot:ParseControlBlock:error", "%x: %v", cbBytes, err)
		return false
	}
	if re, err := cb.ToBytes(); err != nil || !bytes.Equal(re, cbBytes) {
		k.Failf("taproot:ControlBlock:roundtrip", "%x -> %x", cbBytes, re)
	}
	if err := txscript.VerifyTaprootLeafCommitment(cb, outputKey, leaf.script); err != nil {
		k.Failf("taproot:VerifyTaprootLeafCommitment:rejects-valid:"+where, "%v", err)
	}
	// tampering: btcd rejects <=> reference rejects
	bad := append([]byte(nil), cbBytes...)
	bad[k.Rand.Intn(len(bad))] ^= 1 << uint(k.Rand.Intn(8))
	refOK := refaddr.VerifyControlBlock(outputKey, leaf.script, bad)
	if cb2, err := txscript.ParseControlBlock(bad); err == nil {
		gotOK := txscript.VerifyTaprootLeafCommitment(cb2, outputKey, leaf.script) == nil
		if gotOK != refOK {
			k.Failf("taproot:VerifyTaprootLeafCommitment:tampered", "control block %x: btcd ok=%v reference ok=%v", bad, gotOK, refOK)
		}
	} else if refOK {
		k.Failf("taproot:ParseControlBlock:rejects-valid", "%x: %v", bad, err)
	}
	k.Count("taproot.leaf-proofs", 1)
	if doSpend && leaf.version == 0xc0 {
		spend(k, outputKey, leaf, cbBytes, where)
	}
	return true
}

func famTaproot(c *mon.Ctx) func(k *mon.Case) {
	return func(k *mon.Case) {
		r := k.Rand
		nleaves := 1 + r.Intn(32)
		switch r.Intn(6) {
		case 0:
			nleaves = 1 + r.Intn(3)
		case 1:
			nleaves = []int{2, 4, 8, 16, 32, 3, 5, 9, 17, 31}[r.Intn(10)]
		}
		dup := nleaves >= 2 && r.Chance(1, 4)
		leaves := make([]gLeaf, nleaves)
		for i := range leaves {
			leaves[i] = genLeaf(r, i)
		}
		if dup {
			i, j := r.Intn(nleaves), r.Intn(nleaves)
			if i != j {
				leaves[j] = leaves[i]
			} else {
				dup = false
			}
		}
		d := randScalar(r)
		internal := refec.MulG(d)
		ix := internal.XOnly()
		k.Desc(map[string]any{"leaves": nleaves, "duplicate": dup, "internal_key": hex.EncodeToString(ix), "scripts": leafKeys(leaves)})
		internalKey, err := schnorr.ParsePubKey(ix)
		if err != nil {
			k.Failf("taproot:schnorr.ParsePubKey", "%v", err)
			return
		}
		dupTag := "unique-leaves"
		if dup {
			dupTag = "duplicate-leaves"
		}

		// (1) btcd's own tree assembly
		tapLeaves := make([]txscript.TapLeaf, nleaves)
		for i, l := range leaves {
			tapLeaves[i] = txscript.NewTapLeaf(txscript.TapscriptLeafVersion(l.version), l.script)
			if got, want := tapLeaves[i].TapHash(), refaddr.TapLeafHash(l.version, l.script); [32]byte(got) != want {
				k.Failf("taproot:TapLeaf.TapHash", "version %02x script %x: got %x want %x", l.version, l.script, got[:], want)
			}
		}
		tree := txscript.AssembleTaprootScriptTree(tapLeaves...)
		rt := refTreeFromBtcd(tree.RootNode)
		if rt == nil {
			k.Failf("taproot:AssembleTaprootScriptTree:malformed-tree", "root node structure has a branch with a missing child")
			return
		}
		var inTree []gLeaf
		for _, p := range rt.Proofs() {
			inTree = append(inTree, gLeaf{version: p.Leaf.LeafVersion, script: p.Leaf.Script})
		}
		if fmt.Sprint(leafKeys(inTree)) != fmt.Sprint(leafKeys(leaves)) {
			k.Failf("taproot:AssembleTaprootScriptTree:leaf-multiset:"+dupTag, "the assembled tree does not hold exactly the given leaves (%d given, %d in tree)", len(leaves), len(inTree))
		}
		root := rt.Hash()
		if got := tree.RootNode.TapHash(); [32]byte(got) != root {
			k.Failf("taproot:TapHash:root", "btcd root %x, reference hash of the same structure %x", got[:], root)
		}
		wantOut, wantOdd, terr := refaddr.TapTweak(ix, root[:])
		if terr != nil {
			return // tweak out of range: probability 2^-128
		}
		outKey := txscript.ComputeTaprootOutputKey(internalKey, root[:])
		gotOut := schnorr.SerializePubKey(outKey)
		if !bytes.Equal(gotOut, wantOut[:]) || (outKey.SerializeCompressed()[0] == 3) != wantOdd {
			k.Failf("taproot:ComputeTaprootOutputKey", "internal %x root %x: got %x want %x (odd=%v)", ix, root, gotOut, wantOut, wantOdd)
		}
		priv, _ := btcec.PrivKeyFromBytes(refec.Bytes32(d))
		if tp := txscript.TweakTaprootPrivKey(*priv, root[:]); !bytes.Equal(schnorr.SerializePubKey(tp.PubKey()), wantOut[:]) {
			k.Failf("taproot:TweakTaprootPrivKey", "tweaked private key does not correspond to the output key")
		}
		if s, err := txscript.PayToTaprootScript(outKey); err != nil || !bytes.Equal(s, append([]byte{0x51, 0x20}, wantOut[:]...)) {
			k.Failf("taproot:PayToTaprootScript", "got %x err=%v", s, err)
		}
		if len(tree.LeafMerkleProofs) != nleaves {
			k.Failf("taproot:AssembleTaprootScriptTree:proof-count", "%d proofs for %d leaves", len(tree.LeafMerkleProofs), nleaves)
		}
		spendAt := r.Intn(nleaves)
		for i := 0; i < nleaves && i < len(tree.LeafMerkleProofs); i++ {
			p := tree.LeafMerkleProofs[i]
			cb := p.ToControlBlock(internalKey)
			cbBytes, err := cb.ToBytes()
			if err != nil {
				k.Failf("taproot:ControlBlock.ToBytes", "%v", err)
				continue
			}
			// the proof at index i is the proof of the i-th given leaf
			if byte(p.TapLeaf.LeafVersion) != leaves[i].version || !bytes.Equal(p.TapLeaf.Script, leaves[i].script) {
				k.Failf("taproot:AssembleTaprootScriptTree:proof-order", "proof %d is for a different leaf", i)
				continue
			}
			checkLeaf(k, "AssembleTaprootScriptTree:"+dupTag, wantOut[:], leaves[i], cbBytes, i == spendAt)
		}
		k.Count("taproot.assembled-trees", 1)
		if dup {
			k.Count("taproot.assembled-trees.duplicate-leaves", 1)
		}

		// (2) trees of arbitrary shape built with NewTapBranch; proofs from the reference
		skew := r.Intn(5)
		shape := randomShape(r, leaves, skew)
		bt := btcdTree(shape)
		root2 := shape.Hash()
		if got := bt.TapHash(); [32]byte(got) != root2 {
			k.Failf("taproot:TapBranch.TapHash", "shape %d: got %x want %x", skew, got[:], root2)
		}
		out2, odd2, terr := refaddr.TapTweak(ix, root2[:])
		if terr == nil {
			ok2 := txscript.ComputeTaprootOutputKey(internalKey, root2[:])
			if !bytes.Equal(schnorr.SerializePubKey(ok2), out2[:]) {
				k.Failf("taproot:ComputeTaprootOutputKey", "internal %x root %x", ix, root2)
			}
			proofs := shape.Proofs()
			spendAt = r.Intn(len(proofs))
			for i, p := range proofs {
				cbBytes := refaddr.ControlBlock(p.Leaf.LeafVersion, odd2, ix, p.Path)
				// btcd's own proof object for the same leaf gives the same bytes
				var flat []byte
				for _, h := range p.Path {
					flat = append(flat, h[:]...)
				}
				tp := txscript.TapscriptProof{TapLeaf: txscript.NewTapLeaf(txscript.TapscriptLeafVersion(p.Leaf.LeafVersion), p.Leaf.Script), RootNode: bt, InclusionProof: flat}
				cb := tp.ToControlBlock(internalKey)
				if b, err := cb.ToBytes(); err != nil || !bytes.Equal(b, cbBytes) {
					k.Failf("taproot:ToControlBlock:neq-reference", "got %x want %x err=%v", b, cbBytes, err)
				}
				if got := cb.RootHash(p.Leaf.Script); !bytes.Equal(got, root2[:]) {
					k.Failf("taproot:ControlBlock.RootHash", "got %x want %x", got, root2)
				}
				checkLeaf(k, "custom-shape", out2[:], leaves[i], cbBytes, i == spendAt)
			}
			k.Count("taproot.custom-trees", 1)
			k.Count(fmt.Sprintf("taproot.shape=%d", skew), 1)
		}
		// key-path-only output
		if o, _, err := refaddr.TapTweak(ix, nil); err == nil {
			if got := schnorr.SerializePubKey(txscript.ComputeTaprootKeyNoScript(internalKey)); !bytes.Equal(got, o[:]) {
				k.Failf("taproot:ComputeTaprootKeyNoScript", "got %x want %x", got, o)
			}
		}
		k.Count(fmt.Sprintf("taproot.leaves=%02d", nleaves), 1)
		k.C.EvalN(int64(2 * nleaves))
		k.Eval(mon.Sig("taproot", nleaves, dup, skew, hex.EncodeToString(root[:6])), true)
		if nleaves <= 2 {
			k.Sample(map[string]any{"family": "taproot", "leaves": nleaves, "internal_key": hex.EncodeToString(ix), "root": hex.EncodeToString(root[:]), "output_key": hex.EncodeToString(wantOut[:])})
		}
	}
}
