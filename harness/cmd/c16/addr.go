package main

import (
	"bytes"
	"crypto/sha256"
	"encoding/hex"
	"fmt"
	"strings"

	"verif/mon"
	"verif/ref/refaddr"
	"verif/ref/refec"

	"github.com/btcsuite/btcd/address/v2"
	"github.com/btcsuite/btcd/chaincfg/v2"
	"github.com/btcsuite/btcd/txscript/v2"
)

// refAddr is the reference view of an address: what string it has, which script it pays to, which
// networks it belongs to.
type refAddr struct {
	kind    string // p2pkh p2sh p2wpkh p2wsh p2tr p2a pubkey
	str     string // payment address string (for pubkey: hex of the serialized key)
	encoded string // EncodeAddress() form (for pubkey: the P2PKH address of the key)
	script  []byte // output script
	class   txscript.ScriptClass
	version byte   // base58 version byte (base58 kinds / pubkey)
	hrp     string // segwit kinds
	payload []byte // hash / program / serialized key
}

func (a *refAddr) isForNet(n *chaincfg.Params) bool {
	switch a.kind {
	case "p2pkh", "pubkey":
		return a.version == n.PubKeyHashAddrID
	case "p2sh":
		return a.version == n.ScriptHashAddrID
	default:
		return a.hrp == n.Bech32HRPSegwit
	}
}

var kinds = []string{"p2pkh", "p2sh", "p2wpkh", "p2wsh", "p2tr", "p2a", "pubkey"}

func pushData(d []byte) []byte { return append([]byte{byte(len(d))}, d...) }

// makeRef builds the reference address of the kind on the network from a payload.
func makeRef(kind string, n *chaincfg.Params, payload []byte) *refAddr {
	a := &refAddr{kind: kind, payload: payload}
	switch kind {
	case "p2pkh":
		a.version = n.PubKeyHashAddrID
		a.str = refaddr.Base58CheckEncode(a.version, payload)
		a.script = append(append([]byte{0x76, 0xa9, 0x14}, payload...), 0x88, 0xac)
		a.class = txscript.PubKeyHashTy
	case "p2sh":
		a.version = n.ScriptHashAddrID
		a.str = refaddr.Base58CheckEncode(a.version, payload)
		a.script = append(append([]byte{0xa9, 0x14}, payload...), 0x87)
		a.class = txscript.ScriptHashTy
	case "p2wpkh", "p2wsh", "p2tr", "p2a":
		ver := byte(0)
		if kind == "p2tr" || kind == "p2a" {
			ver = 1
		}
		a.hrp = n.Bech32HRPSegwit
		a.str = refaddr.SegwitEncode(a.hrp, ver, payload)
		a.script = refaddr.SegwitScript(ver, payload)
		a.class = map[string]txscript.ScriptClass{"p2wpkh": txscript.WitnessV0PubKeyHashTy, "p2wsh": txscript.WitnessV0ScriptHashTy,
			"p2tr": txscript.WitnessV1TaprootTy, "p2a": txscript.PayToAnchorTy}[kind]
	case "pubkey":
		a.version = n.PubKeyHashAddrID
		a.str = hex.EncodeToString(payload)
		a.encoded = refaddr.Base58CheckEncode(a.version, refaddr.Hash160(payload))
		a.script = append(pushData(payload), 0xac)
		a.class = txscript.PubKeyTy
	}
	if a.encoded == "" {
		a.encoded = a.str
	}
	return a
}

func randPoint(r *mon.Rand) refec.Point {
	for {
		k := refec.Int(r.Bytes(32))
		if k.Sign() > 0 && k.Cmp(refec.N) < 0 {
			return refec.MulG(k)
		}
	}
}

func genRef(r *mon.Rand, kind string, n *chaincfg.Params) *refAddr {
	switch kind {
	case "p2pkh", "p2sh", "p2wpkh":
		p := r.Bytes(20)
		if r.Chance(1, 10) {
			// leading zero bytes exercise the base58 '1' prefix rule
			for i := 0; i < 1+r.Intn(3); i++ {
				p[i] = 0
			}
		}
		return makeRef(kind, n, p)
	case "p2wsh", "p2tr":
		return makeRef(kind, n, r.Bytes(32))
	case "p2a":
		return makeRef(kind, n, []byte{0x4e, 0x73})
	default:
		pt := randPoint(r)
		if r.Bool() {
			return makeRef(kind, n, pt.Compressed())
		}
		return makeRef(kind, n, pt.Uncompressed())
	}
}

// construct builds the btcd address through its constructor.
func construct(a *refAddr, n *chaincfg.Params) (address.Address, error) {
	switch a.kind {
	case "p2pkh":
		return address.NewAddressPubKeyHash(a.payload, n)
	case "p2sh":
		return address.NewAddressScriptHashFromHash(a.payload, n)
	case "p2wpkh":
		return address.NewAddressWitnessPubKeyHash(a.payload, n)
	case "p2wsh":
		return address.NewAddressWitnessScriptHash(a.payload, n)
	case "p2tr":
		return address.NewAddressTaproot(a.payload, n)
	case "p2a":
		return address.NewAddressPayToAnchor(n)
	default:
		return address.NewAddressPubKey(a.payload, n)
	}
}

func kindOf(a address.Address) string {
	switch a.(type) {
	case *address.AddressPubKeyHash:
		return "p2pkh"
	case *address.AddressScriptHash:
		return "p2sh"
	case *address.AddressWitnessPubKeyHash:
		return "p2wpkh"
	case *address.AddressWitnessScriptHash:
		return "p2wsh"
	case *address.AddressTaproot:
		return "p2tr"
	case *address.AddressPayToAnchor:
		return "p2a"
	case *address.AddressPubKey:
		return "pubkey"
	}
	return fmt.Sprintf("%T", a)
}

// checkAgainstRef compares a btcd address value with the reference view; where names the origin of the value.
func checkAgainstRef(k *mon.Case, where string, got address.Address, want *refAddr) {
	if gk := kindOf(got); gk != want.kind {
		k.Failf("addr:"+where+":kind", "%s: got %s want %s", want.str, gk, want.kind)
		return
	}
	if got.String() != want.str {
		k.Failf("addr:"+where+":String:"+want.kind, "got %q want %q", got.String(), want.str)
	}
	if got.EncodeAddress() != want.encoded {
		k.Failf("addr:"+where+":EncodeAddress:"+want.kind, "got %q want %q", got.EncodeAddress(), want.encoded)
	}
	if !bytes.Equal(got.ScriptAddress(), want.payload) {
		k.Failf("addr:"+where+":ScriptAddress:"+want.kind, "%s: got %x want %x", want.str, got.ScriptAddress(), want.payload)
	}
	for _, n := range nets {
		if got.IsForNet(n) != want.isForNet(n) {
			k.Failf("addr:"+where+":IsForNet:"+want.kind, "%s: IsForNet(%s)=%v, prefix equality says %v", want.str, n.Name, got.IsForNet(n), want.isForNet(n))
		}
	}
	k.Count("addr.value-checks", 1)
}

// expectDecode computes from the specifications what DecodeAddress(s, def) must do: nil = reject; otherwise the
// reference address. unsupported is set for valid segwit addresses of a kind btcd documents as unsupported
// (witness versions 2..16, version 1 programs other than 32 bytes / the pay-to-anchor program).
func expectDecode(s string, def *chaincfg.Params) (want *refAddr, unsupported bool, why string) {
	if hrp, ver, prog, err := refaddr.SegwitDecode(s); err == nil && hrpRegistered(hrp) && len(hrp) >= 1 {
		a := &refAddr{hrp: hrp, payload: prog, str: strings.ToLower(s), script: refaddr.SegwitScript(ver, prog)}
		a.encoded = a.str
		switch {
		case ver == 0 && len(prog) == 20:
			a.kind, a.class = "p2wpkh", txscript.WitnessV0PubKeyHashTy
		case ver == 0 && len(prog) == 32:
			a.kind, a.class = "p2wsh", txscript.WitnessV0ScriptHashTy
		case ver == 1 && len(prog) == 32:
			a.kind, a.class = "p2tr", txscript.WitnessV1TaprootTy
		case ver == 1 && bytes.Equal(prog, []byte{0x4e, 0x73}):
			a.kind, a.class = "p2a", txscript.PayToAnchorTy
		default:
			return nil, true, fmt.Sprintf("valid witness v%d program of %d bytes", ver, len(prog))
		}
		return a, false, "segwit"
	}
	if len(s) == 66 || len(s) == 130 {
		if b, err := hex.DecodeString(s); err == nil {
			if pt, err := refec.ParsePubKey(b); err == nil {
				// hybrid keys are normalised to the uncompressed form by btcd's address type (documented input tolerance)
				ser := b
				if b[0] == 6 || b[0] == 7 {
					ser = pt.Uncompressed()
				}
				return makeRef("pubkey", def, ser), false, "pubkey"
			}
			return nil, false, "hex of an invalid public key"
		}
	}
	ver, payload, err := refaddr.Base58CheckDecode(s)
	if err != nil || len(payload) != 20 {
		return nil, false, "neither segwit, pubkey nor base58check(20 bytes)"
	}
	isPKH, isSH := ver == def.PubKeyHashAddrID, ver == def.ScriptHashAddrID
	switch {
	case isPKH && isSH:
		return nil, false, "version byte is both prefixes of the network (ambiguous)"
	case isPKH:
		return makeRef("p2pkh", def, payload), false, "p2pkh"
	case isSH:
		return makeRef("p2sh", def, payload), false, "p2sh"
	}
	return nil, false, "version byte of another network"
}

// checkDecode runs DecodeAddress(s, def) against expectDecode. It returns the decoded address when both accept.
func checkDecode(k *mon.Case, s string, def *chaincfg.Params, origin string) address.Address {
	want, unsupported, why := expectDecode(s, def)
	got, err := address.DecodeAddress(s, def)
	k.Count("addr.decode", 1)
	switch {
	case unsupported:
		if err == nil {
			// btcd chose to support it after all: then it must at least round-trip
			if got.EncodeAddress() != strings.ToLower(s) {
				_, ver, prog, _ := refaddr.SegwitDecode(s)
				k.Failf(fmt.Sprintf("addr:DecodeAddress:witness-v%d-len%d:decoded-as-%s-reencodes-differently", ver, len(prog), kindOf(got)),
					"DecodeAddress(%q, %s) succeeded (%s) as %s but re-encodes as %q", s, def.Name, why, kindOf(got), got.EncodeAddress())
			}
		} else {
			k.Count("addr.decode.valid-but-unsupported", 1)
		}
		return nil
	case want == nil && err == nil:
		k.Failf("addr:DecodeAddress:accepts-invalid:"+origin, "DecodeAddress(%q, %s) accepted as %s %q; reference: %s", s, def.Name, kindOf(got), got.EncodeAddress(), why)
		return nil
	case want != nil && err != nil:
		key := "addr:DecodeAddress:rejects-valid:" + origin + ":" + want.kind
		if want.hrp == "" && shadowedByHRP(s) {
			// one defect class, one key: a base58 / hex string that begins (case-insensitively) with a registered
			// HRP followed by its last '1' is routed to the segwit decoder only
			key = "addr:DecodeAddress:rejects-valid:base58-shadowed-by-bech32-hrp"
		}
		if len(want.hrp) == 1 {
			// one defect class, one key: segwit addresses of a network whose HRP has a single character
			key = "addr:DecodeAddress:rejects-valid:one-char-hrp"
		}
		k.Failf(key, "DecodeAddress(%q, %s) = %v; reference accepts it as %s", s, def.Name, err, want.kind)
		return nil
	case want == nil:
		k.Count("addr.decode.rejected", 1)
		return nil
	}
	k.Count("addr.decode.accepted", 1)
	checkAgainstRef(k, "DecodeAddress:"+origin, got, want)
	return got
}

// checkScripts exercises address <-> script mappings for an address of network n.
func checkScripts(k *mon.Case, addr address.Address, want *refAddr, n *chaincfg.Params) {
	script, err := txscript.PayToAddrScript(addr)
	if err != nil || !bytes.Equal(script, want.script) {
		k.Failf("script:PayToAddrScript:"+want.kind, "%s: got %x err=%v want %x", want.str, script, err, want.script)
		return
	}
	if c := txscript.GetScriptClass(script); c != want.class {
		k.Failf("script:GetScriptClass:"+want.kind, "%x: got %v want %v", script, c, want.class)
	}
	class, addrs, req, err := txscript.ExtractPkScriptAddrs(script, n)
	wantReq := 1
	if want.kind == "p2a" {
		wantReq = 0
	}
	if err != nil || class != want.class || len(addrs) != 1 || req != wantReq {
		k.Failf("script:ExtractPkScriptAddrs:"+want.kind, "%x on %s: class=%v addrs=%d reqSigs=%d err=%v", script, n.Name, class, len(addrs), req, err)
	} else {
		checkAgainstRef(k, "ExtractPkScriptAddrs", addrs[0], want)
		if s2, err := txscript.PayToAddrScript(addrs[0]); err != nil || !bytes.Equal(s2, script) {
			k.Failf("script:roundtrip:"+want.kind, "script -> address -> script changed %x into %x", script, s2)
		}
	}
	pk, err := txscript.ParsePkScript(script)
	if want.kind == "pubkey" {
		if err == nil {
			// not a supported type of that API: nothing to demand beyond consistency
			if !bytes.Equal(pk.Script(), script) {
				k.Failf("script:ParsePkScript:"+want.kind, "Script() differs")
			}
		}
	} else if err != nil || pk.Class() != want.class || !bytes.Equal(pk.Script(), script) {
		k.Failf("script:ParsePkScript:"+want.kind, "%x: class=%v script=%x err=%v", script, pk.Class(), pk.Script(), err)
	} else if a2, err := pk.Address(n); err != nil {
		k.Failf("script:PkScript.Address:"+want.kind, "%v", err)
	} else {
		checkAgainstRef(k, "PkScript.Address", a2, want)
	}
	k.Count("script.checks", 1)
	k.Count("script.class."+want.kind, 1)
}

// famAddrRoundTrip: every address kind x every network, random payloads.
func famAddrRoundTrip(c *mon.Ctx) func(k *mon.Case) {
	return func(k *mon.Case) {
		r := k.Rand
		n := nets[int(k.Index)%len(nets)]
		kind := kinds[(int(k.Index)/len(nets))%len(kinds)]
		want := genRef(r, kind, n)
		k.Desc(map[string]any{"net": n.Name, "kind": kind, "payload": hex.EncodeToString(want.payload), "addr": want.str})
		a, err := construct(want, n)
		if err != nil {
			k.Failf("addr:construct:"+kind, "%s on %s: %v", kind, n.Name, err)
			return
		}
		checkAgainstRef(k, "construct", a, want)
		// decoding on its own network and on every other one
		for _, def := range nets {
			checkDecode(k, want.str, def, "roundtrip")
		}
		// base58 strings whose checksum is wrong in exactly one byte
		if kind == "p2pkh" || kind == "p2sh" {
			full, _ := refaddr.Base58Decode(want.str)
			for bi := 1; bi <= 4; bi++ {
				bad := append([]byte{}, full...)
				bad[len(bad)-bi] ^= 1 << uint(r.Intn(8))
				checkDecode(k, refaddr.Base58Encode(bad), n, fmt.Sprintf("checksum-byte%d", 4-bi))
			}
			// right checksum, wrong payload length
			checkDecode(k, refaddr.Base58CheckEncode(want.version, want.payload[:19]), n, "payload-19")
			checkDecode(k, refaddr.Base58CheckEncode(want.version, append(append([]byte{}, want.payload...), 0)), n, "payload-21")
		}
		// the EncodeAddress form (differs from String for pubkey addresses) decodes too
		if want.encoded != want.str {
			checkDecode(k, want.encoded, n, "roundtrip")
		}
		// case-insensitive forms
		switch kind {
		case "p2wpkh", "p2wsh", "p2tr", "p2a":
			up := strings.ToUpper(want.str)
			if got := checkDecode(k, up, n, "uppercase"); got != nil && got.EncodeAddress() != want.str {
				k.Failf("addr:uppercase:reencode", "%q re-encodes as %q", up, got.EncodeAddress())
			}
		case "pubkey":
			checkDecode(k, strings.ToUpper(want.str), n, "uppercase-hex")
			if want.payload[0] == 4 {
				// hybrid form of the same point
				hy := append([]byte(nil), want.payload...)
				hy[0] = 6 + hy[64]&1
				if got := checkDecode(k, hex.EncodeToString(hy), n, "hybrid"); got != nil {
					k.Count("addr.pubkey.hybrid", 1)
				}
			}
		}
		checkScripts(k, a, want, n)
		if pk, ok := a.(*address.AddressPubKey); ok {
			// switching the serialization format switches every derived form (the value was already encoded above)
			pt, _ := refec.ParsePubKey(want.payload)
			forms := map[address.PubKeyFormat][]byte{address.PKFCompressed: pt.Compressed(), address.PKFUncompressed: pt.Uncompressed()}
			orig := pk.Format()
			for _, f := range []address.PubKeyFormat{address.PKFCompressed, address.PKFUncompressed, address.PKFCompressed, orig} {
				pk.SetFormat(f)
				w := makeRef("pubkey", n, forms[f])
				checkAgainstRef(k, "SetFormat", pk, w)
				if h := pk.AddressPubKeyHash(); h.EncodeAddress() != w.encoded || !bytes.Equal(h.ScriptAddress(), refaddr.Hash160(forms[f])) {
					k.Failf("addr:SetFormat:AddressPubKeyHash", "format %d: got %s want %s", f, h.EncodeAddress(), w.encoded)
				}
				if s, err := txscript.PayToAddrScript(pk); err != nil || !bytes.Equal(s, w.script) {
					k.Failf("addr:SetFormat:PayToAddrScript", "format %d: got %x want %x", f, s, w.script)
				}
				k.Count("addr.pubkey.setformat", 1)
			}
		}
		k.Count("addr.roundtrip."+kind, 1)
		k.Count("addr.net."+n.Name, 1)
		k.Eval(mon.Sig("addr.roundtrip", n.Name, kind, want.str), true)
		if k.Index < int64(len(nets)*len(kinds)) && k.Index%5 == 0 {
			k.Sample(map[string]any{"family": "addr.roundtrip", "net": n.Name, "kind": kind, "addr": want.str, "script": hex.EncodeToString(want.script)})
		}
	}
}

// famSegwitGrid: witness version 0..16 x program length 0..42 x checksum variant x case form x network, exhaustively.
const gridMaxLen = 42

func famSegwitGrid(c *mon.Ctx) func(k *mon.Case) {
	return func(k *mon.Case) {
		r := k.Rand
		ver := byte(int(k.Index) % 17)
		plen := (int(k.Index) / 17) % (gridMaxLen + 1)
		k.Desc(map[string]any{"version": ver, "program_len": plen})
		for _, n := range nets {
			prog := r.Bytes(plen)
			if ver == 1 && plen == 2 && r.Bool() {
				prog = []byte{0x4e, 0x73}
			}
			d5, _ := refaddr.ConvertBits(prog, 8, 5, true)
			data := append([]byte{ver}, d5...)
			for _, spec := range []refaddr.Spec{refaddr.Bech32, refaddr.Bech32m} {
				s := refaddr.Bech32Encode(n.Bech32HRPSegwit, data, spec)
				_, _, _, rerr := refaddr.SegwitDecode(s)
				paired := (ver == 0) == (spec == refaddr.Bech32)
				legalLen := plen >= 2 && plen <= 40 && (ver != 0 || plen == 20 || plen == 32)
				if (rerr == nil) != (paired && legalLen && len(s) <= 90) {
					k.Failf("calibration:segwit:grid", "reference decoder inconsistent with the BIP rules on %q: %v", s, rerr)
					continue
				}
				forms := []string{s, strings.ToUpper(s)}
				// mixed case: flip one letter of the lower-case form
				mixed := []byte(s)
				for tries := 0; tries < 50; tries++ {
					i := r.Intn(len(mixed))
					if mixed[i] >= 'a' && mixed[i] <= 'z' {
						mixed[i] -= 32
						break
					}
				}
				forms = append(forms, string(mixed))
				for fi, f := range forms {
					got := checkDecode(k, f, n, [3]string{"grid", "grid-upper", "grid-mixedcase"}[fi])
					if got != nil {
						k.Count("segwit.grid.accepted", 1)
						if s2, err := txscript.PayToAddrScript(got); err != nil || !bytes.Equal(s2, refaddr.SegwitScript(ver, prog)) {
							k.Failf("script:PayToAddrScript:grid", "%q -> %x err=%v", f, s2, err)
						}
					}
					k.Count("segwit.grid.strings", 1)
				}
				if !paired && legalLen {
					k.Count("segwit.grid.wrong-checksum-variant", 1)
				}
				// regrouping rules under a valid checksum: non-zero padding bits, and a whole surplus 5-bit group
				if paired && legalLen {
					var crafted [][]byte
					if pad := uint(len(d5)*5 - plen*8); pad > 0 {
						np := append([]byte{}, data...)
						np[len(np)-1] |= byte(1 + r.Intn(1<<pad-1))
						crafted = append(crafted, np)
					}
					crafted = append(crafted, append(append([]byte{}, data...), 0))
					for _, cd := range crafted {
						cs := refaddr.Bech32Encode(n.Bech32HRPSegwit, cd, spec)
						if _, _, _, err := refaddr.SegwitDecode(cs); err == nil && len(cd) == len(data) {
							k.Failf("calibration:segwit:padding", "reference accepts non-zero padding in %q", cs)
							continue
						}
						checkDecode(k, cs, n, "grid-regrouping")
						k.Count("segwit.grid.regrouping-crafted", 1)
					}
				}
			}
		}
		k.Count(fmt.Sprintf("segwit.grid.v%02d", ver), 1)
		k.Eval(mon.Sig("segwit.grid", ver, plen), true)
	}
}

const mutAlphabet = "qpzry9x8gf2tvdw0s3jn54khce6mua7lbio1QPZRY9X8GF2TVDW0S3JN54KHCE6MUA7LBIO123456789ABCDEFGHJKLMNPQRSTUVWXYZabcdefghijkmnopqrstuvwxyz0OIl _-+/=!\x7f\x00\xff"

// mutate applies one random edit.
func mutate(r *mon.Rand, s string) (string, string) {
	b := []byte(s)
	if len(b) == 0 {
		return "1", "insert"
	}
	randChar := func(old byte) byte {
		for {
			var c byte
			switch r.Intn(4) {
			case 0:
				c = mutAlphabet[r.Intn(len(mutAlphabet))]
			case 1:
				c = "qpzry9x8gf2tvdw0s3jn54khce6mua7l"[r.Intn(32)]
			case 2:
				c = "123456789ABCDEFGHJKLMNPQRSTUVWXYZabcdefghijkmnopqrstuvwxyz"[r.Intn(58)]
			default:
				c = "0123456789abcdef"[r.Intn(16)]
			}
			if c != old {
				return c
			}
		}
	}
	switch r.Intn(6) {
	case 0, 1:
		i := r.Intn(len(b))
		b[i] = randChar(b[i])
		return string(b), "substitute"
	case 2:
		if len(b) >= 2 {
			i := r.Intn(len(b) - 1)
			if b[i] != b[i+1] {
				b[i], b[i+1] = b[i+1], b[i]
				return string(b), "transpose"
			}
		}
		fallthrough
	case 3:
		i := r.Intn(len(b) + 1)
		c := randChar(0)
		return string(b[:i]) + string([]byte{c}) + string(b[i:]), "insert"
	case 4:
		i := r.Intn(len(b))
		return string(b[:i]) + string(b[i+1:]), "delete"
	default:
		i := r.Intn(len(b))
		switch {
		case b[i] >= 'a' && b[i] <= 'z':
			b[i] -= 32
		case b[i] >= 'A' && b[i] <= 'Z':
			b[i] += 32
		default:
			b[i] = randChar(b[i])
		}
		return string(b), "caseflip"
	}
}

// famAddrMutate: strings at edit distance 1..4 from a valid address: btcd accepts <=> the reference accepts, and then
// both mean the same script.
func famAddrMutate(c *mon.Ctx) func(k *mon.Case) {
	return func(k *mon.Case) {
		r := k.Rand
		n := nets[r.Intn(len(nets))]
		kind := kinds[r.Intn(len(kinds))]
		want := genRef(r, kind, n)
		base := want.str
		if kind == "pubkey" && r.Bool() {
			base = want.encoded
		}
		if r.Chance(1, 6) && want.hrp != "" {
			base = strings.ToUpper(base)
		}
		k.Desc(map[string]any{"net": n.Name, "kind": kind, "base": base})
		for m := 0; m < 8; m++ {
			s := base
			dist := 1 + r.Intn(4)
			ops := ""
			for d := 0; d < dist; d++ {
				var op string
				s, op = mutate(r, s)
				ops += op + " "
			}
			if s == base {
				continue
			}
			def := n
			if r.Chance(1, 5) {
				def = nets[r.Intn(len(nets))]
			}
			k.Desc(map[string]any{"net": def.Name, "kind": kind, "base": base, "mutant": s, "mutant_hex": hex.EncodeToString([]byte(s)), "ops": ops})
			got := checkDecode(k, s, def, "mutant")
			if got != nil {
				k.Count("addr.mutant.still-valid", 1)
				w, _, _ := expectDecode(s, def)
				if sc, err := txscript.PayToAddrScript(got); err != nil || !bytes.Equal(sc, w.script) {
					k.Failf("script:PayToAddrScript:mutant", "%q -> %x err=%v want %x", s, sc, err, w.script)
				}
			}
			k.Count(fmt.Sprintf("addr.mutant.distance=%d", dist), 1)
			k.Count("addr.mutants", 1)
		}
		k.C.EvalN(8)
		k.Eval(mon.Sig("addr.mutate", n.Name, kind, base), true)
	}
}

// famComputePkScript: spend data -> ComputePkScript re-derives the output script of the address that was paid.
func famComputePkScript(c *mon.Ctx) func(k *mon.Case) {
	return func(k *mon.Case) {
		r := k.Rand
		n := nets[r.Intn(len(nets))]
		key := r.Bytes(33)
		key[0] = 2 + byte(r.Intn(2))
		sig := append(append([]byte{0x30}, r.Bytes(7+r.Intn(65))...), 0x01) // 9..73 bytes: DER-sized blob plus hash type
		kind := []string{"p2pkh", "p2sh-multisig", "p2sh-p2wpkh", "p2wpkh", "p2wsh"}[r.Intn(5)]
		k.Desc(map[string]any{"net": n.Name, "kind": kind, "key": hex.EncodeToString(key)})
		var want *refAddr
		var sigScript []byte
		var witness [][]byte
		switch kind {
		case "p2pkh":
			want = makeRef("p2pkh", n, refaddr.Hash160(key))
			sigScript = append(pushData(sig), pushData(key)...)
		case "p2sh-multisig":
			redeem := []byte{0x51}
			for i := 0; i < 3; i++ {
				kk := r.Bytes(33)
				kk[0] = 2
				redeem = append(redeem, pushData(kk)...)
			}
			redeem = append(redeem, 0x53, 0xae) // 105 bytes
			want = makeRef("p2sh", n, refaddr.Hash160(redeem))
			sigScript = append([]byte{0x00}, pushData(sig)...)
			sigScript = append(sigScript, 0x4c, byte(len(redeem)))
			sigScript = append(sigScript, redeem...)
		case "p2sh-p2wpkh":
			redeem := append([]byte{0x00, 0x14}, refaddr.Hash160(key)...)
			want = makeRef("p2sh", n, refaddr.Hash160(redeem))
			sigScript = pushData(redeem)
		case "p2wpkh":
			want = makeRef("p2wpkh", n, refaddr.Hash160(key))
			witness = [][]byte{sig, key}
		case "p2wsh":
			ws := append(pushData(key), 0xac)
			h := sha256.Sum256(ws)
			want = makeRef("p2wsh", n, h[:])
			witness = [][]byte{sig, ws}
		}
		pk, err := txscript.ComputePkScript(sigScript, witness)
		if err != nil {
			k.Failf("script:ComputePkScript:error:"+kind, "sigScript %x witness %x: %v", sigScript, witness, err)
			return
		}
		if pk.Class() != want.class || !bytes.Equal(pk.Script(), want.script) {
			k.Failf("script:ComputePkScript:"+kind, "class %v script %x, want %v %x", pk.Class(), pk.Script(), want.class, want.script)
			return
		}
		a, err := pk.Address(n)
		if err != nil {
			k.Failf("script:ComputePkScript:Address:"+kind, "%v", err)
			return
		}
		checkAgainstRef(k, "ComputePkScript", a, want)
		k.Count("script.computepk", 1)
		k.Count("script.computepk."+kind, 1)
		k.Eval(mon.Sig("computepk", n.Name, kind, want.str), true)
	}
}

// shadowedByHRP reports whether the part of s before its last '1' is, ignoring case, the HRP of a registered network.
func shadowedByHRP(s string) bool {
	one := strings.LastIndexByte(s, '1')
	return one >= 1 && hrpRegistered(strings.ToLower(s[:one]))
}

// famAddrShadow searches, per network and base58 kind, for payloads whose address string begins with a registered
// HRP and the separator character (e.g. a simnet address "sb1..." / "Sb1..." without a later '1'): such a string
// is a valid Base58Check address and not a valid Bech32 string, so it must decode as the base58 address.
func famAddrShadow(c *mon.Ctx) func(k *mon.Case) {
	return func(k *mon.Case) {
		r := k.Rand
		n := nets[int(k.Index)%len(nets)]
		kind := []string{"p2pkh", "p2sh"}[(int(k.Index)/len(nets))%2]
		k.Desc(map[string]any{"net": n.Name, "kind": kind})
		var want *refAddr
		for tries := 0; tries < 6000; tries++ {
			w := makeRef(kind, n, r.Bytes(20))
			if shadowedByHRP(w.str) {
				want = w
				break
			}
		}
		if want == nil {
			k.Count("addr.shadow.no-such-address", 1)
			return
		}
		k.Desc(map[string]any{"net": n.Name, "kind": kind, "addr": want.str, "payload": hex.EncodeToString(want.payload)})
		k.Count("addr.shadow.found", 1)
		a, err := construct(want, n)
		if err != nil {
			k.Failf("addr:construct:"+kind, "%v", err)
			return
		}
		checkAgainstRef(k, "construct", a, want)
		checkDecode(k, want.str, n, "shadow")
		k.Eval(mon.Sig("addr.shadow", n.Name, kind, want.str), true)
	}
}
