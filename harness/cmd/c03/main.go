// Worker for C03: the UTXO set and undo data always equal the fold of the active chain.
package main

import (
	"sync"
	"sync/atomic"

	"verif/gen/chaingen"
	"verif/mon"
	"verif/node"
	"verif/ref/refchain"
	"verif/sim"

	"github.com/btcsuite/btcd/blockchain"
	"github.com/btcsuite/btcd/btcutil/v2"
	"github.com/btcsuite/btcd/wire/v2"
)

var cacheSizes = []uint64{0, 1 << 10, 4 << 10, 16 << 10, 64 << 10, 1 << 25}

func runHistory(k *mon.Case) {
	r := k.Rand
	fam := []string{node.FamRegtest, node.FamVarWork, node.FamRegtest}[r.Intn(3)]
	g := chaingen.New(node.NewParams(fam), fam, r)
	g.MaxTx = 6
	cache := cacheSizes[r.Intn(len(cacheSizes))]
	s, err := sim.New(k, g, node.Config{UtxoCacheMaxSize: cache})
	if err != nil {
		k.Failf("harness:open", "cannot open node: %v", err)
		return
	}
	defer s.Destroy()
	s.CheckUtxo = true
	s.ProbeRand = r.Fork()
	g.ClockNow = s.N.Clock.Now()
	k.Desc(map[string]any{"family": fam, "cache": cache})
	// a base chain long enough for coinbases to mature, then a forked region with dense spending
	tip := g.Tree.Genesis
	base := 8 + r.Intn(6)
	for i := 0; i < base; i++ {
		tip = g.Block(r, tip, chaingen.BlockOpts{NTx: -1, Easy: r.Bool()})
		s.DeliverBlock(tip)
	}
	nops := 25 + r.Intn(30)
	leaves := []*refchain.Block{tip}
	var invalidated *refchain.Block
	for i := 0; i < nops && !s.Failed; i++ {
		switch x := r.Intn(100); {
		case x < 45: // extend a leaf (mostly the best one)
			p := leaves[len(leaves)-1]
			if r.Chance(1, 3) {
				p = leaves[r.Intn(len(leaves))]
			}
			if invalidated != nil && invalidated.IsAncestorOf(p) {
				continue
			}
			b := g.Block(r, p, chaingen.BlockOpts{NTx: 1 + r.Intn(6), Easy: r.Bool()})
			for j, l := range leaves {
				if l == p {
					leaves = append(leaves[:j], leaves[j+1:]...)
					break
				}
			}
			leaves = append(leaves, b)
			s.DeliverBlock(b)
		case x < 60: // fork off a recent ancestor of the tip and make the branch heavier => reorg
			depth := 1 + r.Intn(4)
			p := s.Tip.Ancestor(s.Tip.Height - int32(depth))
			if p == nil || p.Height < 2 {
				continue
			}
			n := depth + 1 + r.Intn(2)
			for j := 0; j < n; j++ {
				p = g.Block(r, p, chaingen.BlockOpts{NTx: 1 + r.Intn(5), Easy: r.Bool()})
				s.DeliverBlock(p)
			}
			leaves = append(leaves, p)
		case x < 72:
			s.Flush([]blockchain.FlushMode{blockchain.FlushRequired, blockchain.FlushPeriodic, blockchain.FlushIfNeeded}[r.Intn(3)])
		case x < 80: // forced flush + raw bucket scan
			s.Flush(blockchain.FlushRequired)
			s.CheckPersistedUtxo()
		case x < 86:
			s.Restart(r.Bool())
		case x < 93: // disconnect the tip block and connect it again: exact inverse
			if invalidated == nil && s.Tip.Height > 2 && len(s.Tip.Children) == 0 {
				invalidated = s.Tip
				s.Invalidate(invalidated)
			} else if invalidated != nil {
				s.Reconsider(invalidated)
				invalidated = nil
			}
		case x < 96 && invalidated == nil:
			// a block that spends nothing is connected, everything is flushed (the cache holds nothing), the block is
			// disconnected and connected again, and the node stops without a final flush: the restart has to bring the
			// utxo set to the tip from whatever the flush marker says
			b := g.Block(r, s.Tip, chaingen.BlockOpts{NTx: 0, Easy: r.Bool()})
			leaves = append(leaves, b)
			s.DeliverBlock(b)
			if s.Failed || s.Tip != b {
				continue
			}
			// no utxo reads between the steps (a read would put entries into the cache): the utxo checks are switched
			// off until the restart, which is followed by the full comparison
			s.CheckUtxo = false
			s.Flush(blockchain.FlushRequired)
			s.Invalidate(b)
			if r.Chance(1, 3) && !s.Failed {
				s.Flush(blockchain.FlushRequired)
			}
			if !s.Failed {
				s.Reconsider(b)
			}
			s.CheckUtxo = true
			if !s.Failed {
				s.Restart(false)
				if !s.Failed {
					s.Flush(blockchain.FlushRequired)
					s.CheckPersistedUtxo()
				}
				k.Count("hist.empty-cache-disconnect-reconnect-unclean-stop", 1)
			}
		default:
			s.CheckSpendJournals()
			s.CheckUtxoViews(r, 6)
		}
	}
	if invalidated != nil && !s.Failed {
		s.Reconsider(invalidated)
	}
	if !s.Failed {
		s.CheckSpendJournals()
		s.Flush(blockchain.FlushRequired)
		s.CheckPersistedUtxo()
		s.Restart(true)
		s.CheckPersistedUtxo()
	}
	k.Eval(mon.Sig("hist", fam, cache, len(s.Ops), s.Tip.Hash.String()[:8]), true)
	if k.Index < 2 {
		k.Sample(map[string]any{"family": fam, "cache": cache, "ops": s.Ops, "final_tip": s.Tip.Name, "utxo_size": len(s.Tip.Utxo())})
	}
}

// concurrent FetchUtxoEntry / FetchUtxoView readers while blocks connect (race detector).
func runConcurrent(k *mon.Case) {
	r := k.Rand
	fam := node.FamRegtest
	g := chaingen.New(node.NewParams(fam), fam, r)
	s, err := sim.New(k, g, node.Config{UtxoCacheMaxSize: cacheSizes[r.Intn(len(cacheSizes))]})
	if err != nil {
		k.Failf("harness:open", "cannot open node: %v", err)
		return
	}
	defer s.Destroy()
	g.ClockNow = s.N.Clock.Now()
	k.Desc(map[string]any{"family": fam, "concurrent": true})
	var blocks []*refchain.Block
	tip := g.Tree.Genesis
	for i := 0; i < 30; i++ {
		tip = g.Block(r, tip, chaingen.BlockOpts{NTx: -1})
		blocks = append(blocks, tip)
	}
	var ops []wire.OutPoint
	var txs []*wire.MsgTx
	for _, b := range blocks {
		for _, tx := range b.Msg.Transactions {
			txs = append(txs, tx)
			h := tx.TxHash()
			for i := range tx.TxOut {
				ops = append(ops, wire.OutPoint{Hash: h, Index: uint32(i)})
			}
		}
	}
	var stop atomic.Bool
	var wg sync.WaitGroup
	var reads atomic.Int64
	for w := 0; w < 8; w++ {
		wg.Add(1)
		rr := r.Fork()
		go func() {
			defer wg.Done()
			defer func() {
				if p := recover(); p != nil {
					k.Failf("conc:reader-panic", "reader panic: %v", p)
				}
			}()
			for !stop.Load() {
				if rr.Bool() {
					s.N.Chain.FetchUtxoEntry(ops[rr.Intn(len(ops))])
				} else {
					s.N.Chain.FetchUtxoView(btcutil.NewTx(txs[rr.Intn(len(txs))]))
				}
				reads.Add(1)
			}
		}()
	}
	for _, b := range blocks {
		s.DeliverBlock(b)
	}
	stop.Store(true)
	wg.Wait()
	k.Count("conc.reads", reads.Load())
	k.Eval(mon.Sig("conc", s.Tip.Hash.String()[:8]), true)
}

func main() {
	mon.Main("C03", func(c *mon.Ctx) {
		c.Rule("one case = one node lifetime: base chain, then 25-54 operations (extensions with 1-6 chained/fan-out spends per block over 7 script kinds, " +
			"1-4 deep reorgs, Required/Periodic/IfNeeded flushes, restarts with and without final flush, disconnect+reconnect of the tip) under a utxo cache of " +
			"0 B..1 GiB; after every operation FetchUtxoEntry over every outpoint ever created must equal the fold of the active chain; journals, views and the raw " +
			"persisted bucket are compared at intervals; distinct = (family, cache size, op count, final tip)")
		if mon.RaceEnabled {
			c.Family("conc", c.N(16, 300), runConcurrent)
			c.Family("hist-race", c.N(16, 200), runHistory)
			return
		}
		c.Family("hist", c.N(300, 15000), runHistory)
		c.Require("check.utxo", 3000)
		c.Require("check.persisted_scans", 100)
		c.Require("check.journal_blocks", 500)
		c.Require("tip.reorg_multiblock", 20)
	})
}
