// Worker for C01: a block is connected iff it satisfies every consensus rule in its context.
package main

import (
	"errors"
	"strings"

	"verif/gen/chaingen"
	"verif/mon"
	"verif/node"
	"verif/ref/refchain"
	"verif/sim"

	"github.com/btcsuite/btcd/blockchain"
	"github.com/btcsuite/btcd/btcutil/v2"
	"github.com/btcsuite/btcd/chaincfg/v2"
	"github.com/btcsuite/btcd/wire/v2"
)

const (
	ctxTip = iota
	ctxSideThenHeavier
	ctxOrphanFirst
	ctxAfterRestart
	ctxHeadersFirst
	numCtx
)

var ctxNames = []string{"tip", "side-then-heavier", "orphan-first", "after-restart", "headers-first"}

type driver struct {
	k   *mon.Case
	r   *mon.Rand
	g   *chaingen.Gen
	s   *sim.Sim
	fam string
	// gates: activation heights of the height-gated family (nil otherwise)
	gates *gates
}

// candidate builds recipe rc on parent; returns nil if the recipe does not apply.
func (dv *driver) candidate(rc *recipe, parent *refchain.Block) *refchain.Block {
	applied := false
	x := &ctx{r: dv.r, g: dv.g, now: dv.s.N.Clock.Now(), gates: dv.gates}
	if parent.ChainValid() {
		x.coins = dv.g.Mature(dv.g.Wallet(parent), parent.Height+1)
	}
	b := dv.g.Block(dv.r, parent, chaingen.BlockOpts{NTx: 0, CoinbaseKind: chaingen.KTrue, Mutate: func(d *chaingen.Draft) {
		if rc.apply(x, d) {
			applied = true
			d.Label, d.Rule = rc.label, rc.rule
			if x.ov {
				d.Label, d.Rule = x.ovLabel, x.ovRule
			}
		}
	}})
	if !applied {
		return nil
	}
	return b
}

func (dv *driver) template(b *refchain.Block) {
	if b.Parent != dv.s.Tip {
		return
	}
	if b.Label == refchain.InvalidEarly && b.Rule[:3] == "hs:" {
		return
	}
	err := dv.s.N.Chain.CheckConnectBlockTemplate(btcutil.NewBlock(b.Msg))
	dv.k.Count("ctx.template", 1)
	if b.Label == refchain.Valid && err != nil {
		dv.s.Fail("template:valid-refused:"+b.Name, "CheckConnectBlockTemplate refused valid candidate %s: %v", b.Name, err)
	}
	if b.Label != refchain.Valid && err == nil {
		dv.s.Fail("template:accepted-invalid:"+b.Rule, "CheckConnectBlockTemplate accepted candidate %s violating %s", b.Name, b.Rule)
	}
	var re blockchain.RuleError
	if err != nil && !errors.As(err, &re) {
		dv.s.Fail("template:non-rule-error", "CheckConnectBlockTemplate(%s): unexpected error type: %v", b.Name, err)
	}
}

func (dv *driver) run(rc *recipe, c int) bool {
	s, g, r := dv.s, dv.g, dv.r
	var cand *refchain.Block
	// where a child inherits its parent's bits (retargeting families) no descendant of a candidate with an
	// out-of-range target can be built: such candidates are only offered at the tip
	if strings.HasPrefix(rc.name, "pow:bits-") && !g.P.PoWNoRetargeting {
		c = ctxTip
	}
	switch c {
	case ctxTip, ctxAfterRestart:
		if c == ctxAfterRestart {
			s.Restart(r.Bool())
		}
		b := dv.candidate(rc, s.Tip)
		if b == nil {
			return false
		}
		b.Name = rc.name
		cand = b
		if r.Bool() {
			dv.template(b)
		}
		s.DeliverBlock(b)
		// a descendant on top of an invalid candidate must never be connected either
		if b.Label != refchain.Valid && r.Chance(1, 3) && !(strings.HasPrefix(rc.name, "pow:bits-") && !g.P.PoWNoRetargeting) {
			d := g.Block(r, b, chaingen.BlockOpts{NTx: 0})
			s.DeliverBlock(d)
		}
	case ctxSideThenHeavier:
		if s.Tip.Parent == nil || s.Tip.Parent.Parent == nil {
			return false
		}
		b := dv.candidate(rc, s.Tip.Parent)
		if b == nil {
			return false
		}
		b.Name = rc.name
		cand = b
		s.DeliverBlock(b)
		d := g.Block(r, b, chaingen.BlockOpts{NTx: 0})
		s.DeliverBlock(d)
		if r.Bool() {
			e := g.Block(r, d, chaingen.BlockOpts{NTx: 0})
			s.DeliverBlock(e)
		}
	case ctxOrphanFirst:
		parent := s.Tip
		if r.Bool() && s.Tip.Parent != nil && s.Tip.Parent.Parent != nil {
			parent = s.Tip.Parent
		}
		b := dv.candidate(rc, parent)
		if b == nil {
			return false
		}
		b.Name = rc.name
		cand = b
		d := g.Block(r, b, chaingen.BlockOpts{NTx: 0})
		e := g.Block(r, d, chaingen.BlockOpts{NTx: 0})
		s.DeliverBlock(e)
		s.DeliverBlock(d)
		s.DeliverBlock(b)
	case ctxHeadersFirst:
		b := dv.candidate(rc, s.Tip)
		if b == nil {
			return false
		}
		b.Name = rc.name
		cand = b
		d := g.Block(r, b, chaingen.BlockOpts{NTx: 0})
		s.DeliverHeader(b)
		s.DeliverHeader(d)
		s.DeliverBlock(d)
		s.DeliverBlock(b)
	}
	pol := "reject"
	if cand.Label == refchain.Valid {
		pol = "accept"
	}
	dv.k.Count("rule."+rc.name+"."+pol, 1)
	if rc.gate != nil {
		switch gh := rc.gate(dv.gates); cand.Height {
		case gh - 1:
			dv.k.Count("gate."+rc.name+".last-before", 1)
		case gh:
			dv.k.Count("gate."+rc.name+".first-at", 1)
		}
	}
	dv.k.Count("ctx."+ctxNames[c], 1)
	dv.k.Eval(mon.Sig("cand", rc.name, c, dv.fam), true)
	return true
}

// cve20122459: a block whose transaction list has its last entry duplicated has the same merkle root and
// block hash as the original; it must be refused and must not poison the original.
func (dv *driver) cve() {
	s, g, r := dv.s, dv.g, dv.r
	coins := g.Mature(g.Wallet(s.Tip), s.Tip.Height+1)
	if len(coins) < 2 {
		return
	}
	x := &ctx{r: r, g: g, coins: coins}
	t1 := x.spend(coins[0], 0, nil)
	t2 := x.spend(coins[1], 0, nil)
	b := g.Block(r, s.Tip, chaingen.BlockOpts{Txs: []*wire.MsgTx{t1, t2}, Name: "cve-original"})
	mut := *b.Msg
	mut.Transactions = append(append([]*wire.MsgTx{}, b.Msg.Transactions...), b.Msg.Transactions[len(b.Msg.Transactions)-1])
	if mut.BlockHash() != b.Hash {
		dv.k.Failf("calibration:cve-hash", "mutated block hash differs")
		return
	}
	first := r.Bool()
	if first {
		_, _, err := s.N.Chain.ProcessBlock(btcutil.NewBlock(&mut), blockchain.BFNone)
		if err == nil {
			s.Fail("process:accepted-invalid:bs:duplicate-tx", "block with a duplicated trailing transaction (same merkle root) was accepted")
		}
		s.AfterOp("ProcessBlock(cve-mutated)")
	}
	s.DeliverBlock(b)
	if !first {
		_, _, err := s.N.Chain.ProcessBlock(btcutil.NewBlock(&mut), blockchain.BFNone)
		if err == nil {
			s.Fail("process:accepted-invalid:bs:duplicate-tx", "duplicated-tail variant accepted after the original")
		}
		s.AfterOp("ProcessBlock(cve-mutated)")
	}
	dv.k.Count("rule.cve-2012-2459.reject", 1)
}

func runCase(k *mon.Case) {
	r := k.Rand
	fam := []string{node.FamRegtest, node.FamRegtest, node.FamVarWork, "halving", "gates", "gates", "bip94", "gates-taproot"}[r.Intn(8)]
	var p = node.NewParams(node.FamRegtest)
	gfam := node.FamRegtest
	var gt *gates
	switch fam {
	case node.FamVarWork:
		p = node.NewParams(node.FamVarWork)
		gfam = node.FamVarWork
	case "halving":
		p.SubsidyReductionInterval = 20
	case "gates":
		// BIP34 / BIP66 / BIP65 / CSV become active at four distinct heights shortly above the base chain
		p = node.NewParams(node.FamPreFork)
		gfam = node.FamPreFork
		hs := r.Perm(14)
		gt = &gates{bip34: int32(16 + hs[0]), bip66: int32(16 + hs[1]), bip65: int32(16 + hs[2]), csv: int32(16 + hs[3])}
		gatesParams(p, *gt)
	case "gates-taproot":
		// everything active from the start except taproot, which becomes active at a height shortly above the base chain
		gt = &gates{bip34: 1, bip66: 1, bip65: 1, csv: 1, taproot: int32(16 + r.Intn(14))}
		p.Name = "verif-gates-taproot"
		p.Deployments[chaincfg.DeploymentTaproot].AlwaysActiveHeight = uint32(gt.taproot)
	case "bip94":
		p = node.NewParams(node.FamRetarget)
		p.EnforceBIP94 = true
		gfam = node.FamRetarget
	}
	g := chaingen.New(p, gfam, r)
	g.MaxTx = 4
	s, err := sim.New(k, g, node.Config{UtxoCacheMaxSize: []uint64{0, 8 << 10, 1 << 25}[r.Intn(3)], SigCache: r.Bool()})
	if err != nil {
		k.Failf("harness:open", "cannot open node: %v", err)
		return
	}
	defer s.Destroy()
	g.ClockNow = s.N.Clock.Now()
	s.CheckUtxo = r.Chance(1, 4)
	dv := &driver{k: k, r: r, g: g, s: s, fam: fam, gates: gt}
	k.Desc(map[string]any{"family": fam, "gates": gt})
	base := 12 + r.Intn(10)
	if fam == "halving" {
		base = 18
	}
	if fam == "gates" || fam == "gates-taproot" {
		base = 10 + r.Intn(5)
	}
	tip := g.Tree.Genesis
	for i := 0; i < base; i++ {
		tip = g.Block(r, tip, chaingen.BlockOpts{NTx: -1, Easy: r.Bool()})
		s.DeliverBlock(tip)
	}
	rs := catalogue()
	n := 10 + r.Intn(8)
	switch fam {
	case "gates":
		rs = gatesCatalogue()
		n = 70
	case "gates-taproot":
		rs = taprootGateCatalogue()
		n = 50
	case "bip94":
		rs = append(rs, timewarpCatalogue()...)
		n = 16 + r.Intn(8)
	}
	byName := func(name string) *recipe {
		for j := range rs {
			if rs[j].name == name {
				return &rs[j]
			}
		}
		panic("no recipe " + name)
	}
	for i := 0; i < n && !s.Failed; i++ {
		rc := &rs[r.Intn(len(rs))]
		c := r.Intn(numCtx)
		next := s.Tip.Height + 1
		if c == ctxSideThenHeavier {
			next = s.Tip.Height
		}
		switch fam {
		case "halving":
			if s.Tip.Height == 19 {
				rc = byName("coinbase:pre-halving-subsidy")
			}
		case "gates", "gates-taproot":
			if next > max(gt.bip34, gt.bip66, gt.bip65, gt.csv, gt.taproot)+2 {
				i = n
				continue
			}
			// at the last height before a gate and at the gate itself prefer the recipes that flip there
			var near []*recipe
			for j := range rs {
				if rs[j].gate != nil {
					if gh := rs[j].gate(gt); next == gh-1 || next == gh {
						near = append(near, &rs[j])
					}
				}
			}
			if len(near) > 0 && r.Chance(4, 5) {
				rc = near[r.Intn(len(near))]
			}
		case "bip94":
			if next%8 == 0 && r.Chance(2, 3) {
				rc = byName([]string{"bip94:first-of-interval-600s-back", "bip94:first-of-interval-601s-back"}[r.Intn(2)])
			}
		}
		if !dv.run(rc, c) {
			k.Count("recipe.not_applicable", 1)
		}
		// keep the node's clock ahead of the active tip (an at-limit timestamp candidate may have become the tip)
		if ts := s.Tip.Msg.Header.Timestamp.Unix(); s.N != nil && ts+3600 > s.N.Clock.Now() {
			s.N.Clock.Set(ts + 3600)
			g.ClockNow = ts + 3600
		}
		if r.Chance(1, 12) {
			dv.cve()
		}
		// keep the chain growing with ordinary blocks so that coins mature and later candidates have material
		if r.Chance(1, 2) && !((fam == "gates" || fam == "gates-taproot") && r.Chance(2, 3)) {
			nb := g.Block(r, s.Tip, chaingen.BlockOpts{NTx: -1, Easy: r.Bool()})
			s.DeliverBlock(nb)
		}
	}
	if k.Index < 2 {
		k.Sample(map[string]any{"family": fam, "ops": s.Ops})
	}
}

func main() {
	mon.Main("C01", func(c *mon.Ctx) {
		c.Rule("one case = a node with a valid base chain of 12-21 blocks with transactions over 7 script kinds, then 10-17 candidate blocks, each = a valid block with exactly one " +
			"catalogue mutation (" + "at-limit forms must be accepted, past-limit forms refused), submitted in one of 5 contexts (tip with optional template check, sibling of the tip made heavier " +
			"by descendants = the reorg path, children delivered first, after restart, headers first); the verdict is the generator's label; the active chain, utxo set and notifications are " +
			"checked after every delivery; distinct = (recipe, context, family)")
		c.Family("rules", c.N(700, 30000), runCase)
		// branches stored on top of a block that fails at connect time, a valid way out below it, and manual invalidation
		// above then below on one branch (shared scenario, see sim.ScenarioFan)
		c.Family("fan", c.N(28, 1000), func(k *mon.Case) { sim.ScenarioFan(k, node.FamRegtest) })
		rs := append(catalogue(), timewarpCatalogue()...)
		for _, rc := range rs {
			pol := "reject"
			if rc.label == refchain.Valid {
				pol = "accept"
			}
			c.Require("rule."+rc.name+"."+pol, 3)
		}
		for _, rc := range append(gatesCatalogue(), taprootGateCatalogue()...) {
			if rc.gate != nil {
				// a height-gated rule must have been probed on both sides of its activation height
				c.Require("gate."+rc.name+".last-before", 3)
				c.Require("gate."+rc.name+".first-at", 3)
			}
		}
		for _, n := range []string{"gate:version-4.accept", "gate:bip30-overwrite-unspent.reject", "gate:bip30-recreate-spent.accept",
			"gate:base-size-1000000.accept", "gate:base-size-1000001.reject"} {
			c.Require("rule."+n, 2)
		}
		for _, n := range ctxNames {
			c.Require("ctx."+n, 100)
		}
	})
}
