// Worker for C01: a block is connected iff it satisfies every consensus rule in its context.
package main

import (
	"errors"

	"verif/gen/chaingen"
	"verif/mon"
	"verif/node"
	"verif/ref/refchain"
	"verif/sim"

	"github.com/btcsuite/btcd/blockchain"
	"github.com/btcsuite/btcd/btcutil/v2"
	"github.com/btcsuite/btcd/wire/v2"
)

const (
	ctxTip = iota
	ctxSideThenHeavier
	ctxOrphanFirst
	ctxAfterRestart
	ctxHeadersFirst
	numCtx
)

var ctxNames = []string{"tip", "side-then-heavier", "orphan-first", "after-restart", "headers-first"}

type driver struct {
	k   *mon.Case
	r   *mon.Rand
	g   *chaingen.Gen
	s   *sim.Sim
	fam string
}

// candidate builds recipe rc on parent; returns nil if the recipe does not apply.
func (dv *driver) candidate(rc *recipe, parent *refchain.Block) *refchain.Block {
	applied := false
	x := &ctx{r: dv.r, g: dv.g, now: dv.s.N.Clock.Now()}
	if parent.ChainValid() {
		x.coins = dv.g.Mature(dv.g.Wallet(parent), parent.Height+1)
	}
	b := dv.g.Block(dv.r, parent, chaingen.BlockOpts{NTx: 0, CoinbaseKind: chaingen.KTrue, Mutate: func(d *chaingen.Draft) {
		if rc.apply(x, d) {
			applied = true
			d.Label, d.Rule = rc.label, rc.rule
		}
	}})
	if !applied {
		return nil
	}
	return b
}

func (dv *driver) template(b *refchain.Block) {
	if b.Parent != dv.s.Tip {
		return
	}
	if b.Label == refchain.InvalidEarly && b.Rule[:3] == "hs:" {
		return
	}
	err := dv.s.N.Chain.CheckConnectBlockTemplate(btcutil.NewBlock(b.Msg))
	dv.k.Count("ctx.template", 1)
	if b.Label == refchain.Valid && err != nil {
		dv.s.Fail("template:valid-refused:"+b.Name, "CheckConnectBlockTemplate refused valid candidate %s: %v", b.Name, err)
	}
	if b.Label != refchain.Valid && err == nil {
		dv.s.Fail("template:accepted-invalid:"+b.Rule, "CheckConnectBlockTemplate accepted candidate %s violating %s", b.Name, b.Rule)
	}
	var re blockchain.RuleError
	if err != nil && !errors.As(err, &re) {
		dv.s.Fail("template:non-rule-error", "CheckConnectBlockTemplate(%s): unexpected error type: %v", b.Name, err)
	}
}

func (dv *driver) run(rc *recipe, c int) bool {
	s, g, r := dv.s, dv.g, dv.r
	switch c {
	case ctxTip, ctxAfterRestart:
		if c == ctxAfterRestart {
			s.Restart(r.Bool())
		}
		b := dv.candidate(rc, s.Tip)
		if b == nil {
			return false
		}
		b.Name = rc.name
		if r.Bool() {
			dv.template(b)
		}
		s.DeliverBlock(b)
		// a descendant on top of an invalid candidate must never be connected either
		if b.Label != refchain.Valid && r.Chance(1, 3) {
			d := g.Block(r, b, chaingen.BlockOpts{NTx: 0})
			s.DeliverBlock(d)
		}
	case ctxSideThenHeavier:
		if s.Tip.Parent == nil || s.Tip.Parent.Parent == nil {
			return false
		}
		b := dv.candidate(rc, s.Tip.Parent)
		if b == nil {
			return false
		}
		b.Name = rc.name
		s.DeliverBlock(b)
		d := g.Block(r, b, chaingen.BlockOpts{NTx: 0})
		s.DeliverBlock(d)
		if r.Bool() {
			e := g.Block(r, d, chaingen.BlockOpts{NTx: 0})
			s.DeliverBlock(e)
		}
	case ctxOrphanFirst:
		parent := s.Tip
		if r.Bool() && s.Tip.Parent != nil && s.Tip.Parent.Parent != nil {
			parent = s.Tip.Parent
		}
		b := dv.candidate(rc, parent)
		if b == nil {
			return false
		}
		b.Name = rc.name
		d := g.Block(r, b, chaingen.BlockOpts{NTx: 0})
		e := g.Block(r, d, chaingen.BlockOpts{NTx: 0})
		s.DeliverBlock(e)
		s.DeliverBlock(d)
		s.DeliverBlock(b)
	case ctxHeadersFirst:
		b := dv.candidate(rc, s.Tip)
		if b == nil {
			return false
		}
		b.Name = rc.name
		d := g.Block(r, b, chaingen.BlockOpts{NTx: 0})
		s.DeliverHeader(b)
		s.DeliverHeader(d)
		s.DeliverBlock(d)
		s.DeliverBlock(b)
	}
	pol := "reject"
	if rc.label == refchain.Valid {
		pol = "accept"
	}
	dv.k.Count("rule."+rc.name+"."+pol, 1)
	dv.k.Count("ctx."+ctxNames[c], 1)
	dv.k.Eval(mon.Sig("cand", rc.name, c, dv.fam), true)
	return true
}

// cve20122459: a block whose transaction list has its last entry duplicated has the same merkle root and
// block hash as the original; it must be refused and must not poison the original.
func (dv *driver) cve() {
	s, g, r := dv.s, dv.g, dv.r
	coins := g.Mature(g.Wallet(s.Tip), s.Tip.Height+1)
	if len(coins) < 2 {
		return
	}
	x := &ctx{r: r, g: g, coins: coins}
	t1 := x.spend(coins[0], 0, nil)
	t2 := x.spend(coins[1], 0, nil)
	b := g.Block(r, s.Tip, chaingen.BlockOpts{Txs: []*wire.MsgTx{t1, t2}, Name: "cve-original"})
	mut := *b.Msg
	mut.Transactions = append(append([]*wire.MsgTx{}, b.Msg.Transactions...), b.Msg.Transactions[len(b.Msg.Transactions)-1])
	if mut.BlockHash() != b.Hash {
		dv.k.Failf("calibration:cve-hash", "mutated block hash differs")
		return
	}
	first := r.Bool()
	if first {
		_, _, err := s.N.Chain.ProcessBlock(btcutil.NewBlock(&mut), blockchain.BFNone)
		if err == nil {
			s.Fail("process:accepted-invalid:bs:duplicate-tx", "block with a duplicated trailing transaction (same merkle root) was accepted")
		}
		s.AfterOp("ProcessBlock(cve-mutated)")
	}
	s.DeliverBlock(b)
	if !first {
		_, _, err := s.N.Chain.ProcessBlock(btcutil.NewBlock(&mut), blockchain.BFNone)
		if err == nil {
			s.Fail("process:accepted-invalid:bs:duplicate-tx", "duplicated-tail variant accepted after the original")
		}
		s.AfterOp("ProcessBlock(cve-mutated)")
	}
	dv.k.Count("rule.cve-2012-2459.reject", 1)
}

func runCase(k *mon.Case) {
	r := k.Rand
	fam := []string{node.FamRegtest, node.FamRegtest, node.FamVarWork, "halving"}[r.Intn(4)]
	var p = node.NewParams(node.FamRegtest)
	gfam := node.FamRegtest
	switch fam {
	case node.FamVarWork:
		p = node.NewParams(node.FamVarWork)
		gfam = node.FamVarWork
	case "halving":
		p.SubsidyReductionInterval = 20
	}
	g := chaingen.New(p, gfam, r)
	g.MaxTx = 4
	s, err := sim.New(k, g, node.Config{UtxoCacheMaxSize: []uint64{0, 8 << 10, 1 << 25}[r.Intn(3)], SigCache: r.Bool()})
	if err != nil {
		k.Failf("harness:open", "cannot open node: %v", err)
		return
	}
	defer s.Destroy()
	g.ClockNow = s.N.Clock.Now()
	s.CheckUtxo = r.Chance(1, 4)
	dv := &driver{k: k, r: r, g: g, s: s, fam: fam}
	k.Desc(map[string]any{"family": fam})
	base := 12 + r.Intn(10)
	if fam == "halving" {
		base = 18
	}
	tip := g.Tree.Genesis
	for i := 0; i < base; i++ {
		tip = g.Block(r, tip, chaingen.BlockOpts{NTx: -1, Easy: r.Bool()})
		s.DeliverBlock(tip)
	}
	rs := catalogue()
	n := 10 + r.Intn(8)
	for i := 0; i < n && !s.Failed; i++ {
		rc := &rs[r.Intn(len(rs))]
		if fam == "halving" && s.Tip.Height == 19 {
			for j := range rs {
				if rs[j].name == "coinbase:pre-halving-subsidy" {
					rc = &rs[j]
				}
			}
		}
		c := r.Intn(numCtx)
		if !dv.run(rc, c) {
			k.Count("recipe.not_applicable", 1)
		}
		// keep the node's clock ahead of the active tip (an at-limit timestamp candidate may have become the tip)
		if ts := s.Tip.Msg.Header.Timestamp.Unix(); s.N != nil && ts+3600 > s.N.Clock.Now() {
			s.N.Clock.Set(ts + 3600)
			g.ClockNow = ts + 3600
		}
		if r.Chance(1, 12) {
			dv.cve()
		}
		// keep the chain growing with ordinary blocks so that coins mature and later candidates have material
		if r.Chance(1, 2) {
			nb := g.Block(r, s.Tip, chaingen.BlockOpts{NTx: -1, Easy: r.Bool()})
			s.DeliverBlock(nb)
		}
	}
	if k.Index < 2 {
		k.Sample(map[string]any{"family": fam, "ops": s.Ops})
	}
}

func main() {
	mon.Main("C01", func(c *mon.Ctx) {
		c.Rule("one case = a node with a valid base chain of 12-21 blocks with transactions over 7 script kinds, then 10-17 candidate blocks, each = a valid block with exactly one " +
			"catalogue mutation (" + "at-limit forms must be accepted, past-limit forms refused), submitted in one of 5 contexts (tip with optional template check, sibling of the tip made heavier " +
			"by descendants = the reorg path, children delivered first, after restart, headers first); the verdict is the generator's label; the active chain, utxo set and notifications are " +
			"checked after every delivery; distinct = (recipe, context, family)")
		c.Family("rules", c.N(700, 30000), runCase)
		rs := catalogue()
		for _, rc := range rs {
			pol := "reject"
			if rc.label == refchain.Valid {
				pol = "accept"
			}
			c.Require("rule."+rc.name+"."+pol, 3)
		}
		for _, n := range ctxNames {
			c.Require("ctx."+n, 100)
		}
	})
}
