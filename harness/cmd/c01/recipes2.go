package main

import (
	"crypto/sha256"
	"time"

	"verif/gen/chaingen"
	"verif/ref/refchain"
	"verif/ref/reftx"

	"github.com/btcsuite/btcd/address/v2"
	"github.com/btcsuite/btcd/chaincfg/v2"
	"github.com/btcsuite/btcd/txscript/v2"
	"github.com/btcsuite/btcd/wire/v2"
)

// Second part of the catalogue: limits that need large or specially shaped blocks (weight, base size, sigop cost with
// P2SH and witness contributions), relative time locks, CLTV / CSV operands, BIP30, and the rules whose enforcement
// depends on the height of the block (version gates, BIP34, BIP66, BIP65, CSV) or on retarget boundaries (BIP94).

const (
	opIf        = 0x63
	opEndIf     = 0x68
	opDrop      = 0x75
	opCheckSig  = 0xac
	opCLTV      = 0xb1
	opCSV       = 0xb2
	opNop       = 0x61
	opReturn    = 0x6a
	seqTypeTime = 1 << 22
)

func p2sh(redeem []byte) []byte {
	h := address.Hash160(redeem)
	return append(append([]byte{0xa9, 0x14}, h...), 0x87)
}

func p2wsh(ws []byte) []byte {
	h := sha256.Sum256(ws)
	return append([]byte{0x00, 0x20}, h[:]...)
}

// pushData is the minimal push of b (len <= 520).
func pushData(b []byte) []byte {
	switch {
	case len(b) < 0x4c:
		return append([]byte{byte(len(b))}, b...)
	case len(b) <= 0xff:
		return append([]byte{0x4c, byte(len(b))}, b...)
	default:
		return append([]byte{0x4d, byte(len(b)), byte(len(b) >> 8)}, b...)
	}
}

func blockWeight(m *wire.MsgBlock) int   { return reftx.FromMsgBlock(m).Weight() }
func blockBaseSize(m *wire.MsgBlock) int { return reftx.FromMsgBlock(m).BaseSize() }

// trueCoin picks an anyone-can-spend coin (no signature, no sigops, no witness).
func (x *ctx) trueCoin() (chaingen.Spendable, bool) {
	return x.coinOfKind(func(c chaingen.Spendable) bool { return len(c.Coin.PkScript) == 1 })
}

func childOf(tx *wire.MsgTx, idx int) wire.OutPoint {
	return wire.OutPoint{Hash: tx.TxHash(), Index: uint32(idx)}
}

// padScript is an unspendable script of exactly n bytes (n >= 1).
func padScript(n int) []byte {
	s := make([]byte, n)
	s[0] = opReturn
	return s
}

// bigWitnessBlock shapes the draft so that its weight is exactly target: a transaction carrying a ~1 MB unspendable
// output plus a same-block P2WSH spend whose witness script length tunes the weight in steps of one unit.
func bigWitnessBlock(target int) func(x *ctx, d *chaingen.Draft) bool {
	return func(x *ctx, d *chaingen.Draft) bool {
		if !x.g.Witness {
			return false
		}
		c, ok := x.trueCoin()
		if !ok {
			return false
		}
		cb := d.Msg.Transactions[0]
		build := func(n, pad int) {
			ws := make([]byte, n)
			for i := range ws {
				ws[i] = opNop
			}
			ws[n-1] = txscript.OP_TRUE
			t1 := wire.NewMsgTx(2)
			t1.AddTxIn(&wire.TxIn{PreviousOutPoint: c.Op, Sequence: 0xffffffff})
			t1.AddTxOut(&wire.TxOut{Value: c.Coin.Amount, PkScript: p2wsh(ws)})
			t1.AddTxOut(&wire.TxOut{Value: 0, PkScript: padScript(pad)})
			t2 := wire.NewMsgTx(2)
			t2.AddTxIn(&wire.TxIn{PreviousOutPoint: childOf(t1, 0), Sequence: 0xffffffff, Witness: wire.TxWitness{ws}})
			t2.AddTxOut(&wire.TxOut{Value: c.Coin.Amount, PkScript: []byte{txscript.OP_TRUE}})
			d.Msg.Transactions = []*wire.MsgTx{cb, t1, t2}
			d.SkipSolve = true
			d.Finalize(true)
			d.SkipSolve = false
		}
		pad, n := 900000, 1
		build(n, pad)
		w := blockWeight(d.Msg)
		diff := target - w
		step := diff / 4
		if diff < 0 && diff%4 != 0 {
			step--
		}
		pad += step
		build(n, pad)
		rem := target - blockWeight(d.Msg)
		if rem < 0 || rem > 3 {
			return false
		}
		n += rem
		build(n, pad)
		return blockWeight(d.Msg) == target
	}
}

// bigBaseBlock: stripped size exactly target (families without segwit).
func bigBaseBlock(target int) func(x *ctx, d *chaingen.Draft) bool {
	return func(x *ctx, d *chaingen.Draft) bool {
		if x.g.Witness {
			return false
		}
		c, ok := x.trueCoin()
		if !ok {
			return false
		}
		cb := d.Msg.Transactions[0]
		build := func(pad int) {
			t1 := wire.NewMsgTx(1)
			t1.AddTxIn(&wire.TxIn{PreviousOutPoint: c.Op, Sequence: 0xffffffff})
			t1.AddTxOut(&wire.TxOut{Value: c.Coin.Amount, PkScript: []byte{txscript.OP_TRUE}})
			t1.AddTxOut(&wire.TxOut{Value: 0, PkScript: padScript(pad)})
			d.Msg.Transactions = []*wire.MsgTx{cb, t1}
		}
		pad := 900000
		build(pad)
		pad += target - blockBaseSize(d.Msg)
		build(pad)
		return blockBaseSize(d.Msg) == target
	}
}

// sigopCostBlock: total signature-operation cost = 4*legacy + 4*p2sh + witness, made of all three contributions.
// a = CHECKSIGs in the P2SH redeem script, b = CHECKSIGs in the witness script, the rest comes from bare output scripts.
func sigopCostBlock(total int, viaP2SH bool) func(x *ctx, d *chaingen.Draft) bool {
	return func(x *ctx, d *chaingen.Draft) bool {
		if !x.g.Witness {
			return false
		}
		c, ok := x.trueCoin()
		if !ok || c.Coin.Amount < 2 {
			return false
		}
		// choose a, b so that (total - 4a - b) is a non-negative multiple of 4
		a, b := 10, 0
		if viaP2SH {
			a += (total - 80000) / 4 // excess carried by the redeem script (multiples of 4)
			b = 4 + (total-80000)%4
		} else {
			b = 4 + (total - 80000) // excess carried by the witness script
		}
		rest := total - 4*a - b
		if rest < 0 || rest%4 != 0 || a < 1 || b < 1 || a > 150 || b > 150 {
			return false
		}
		legacy := rest / 4
		branch := func(k int) []byte {
			s := []byte{txscript.OP_0, opIf}
			for i := 0; i < k; i++ {
				s = append(s, opCheckSig)
			}
			return append(s, opEndIf, txscript.OP_TRUE)
		}
		redeem, ws := branch(a), branch(b)
		t1 := wire.NewMsgTx(2)
		t1.AddTxIn(&wire.TxIn{PreviousOutPoint: c.Op, Sequence: 0xffffffff})
		t1.AddTxOut(&wire.TxOut{Value: c.Coin.Amount / 2, PkScript: p2sh(redeem)})
		t1.AddTxOut(&wire.TxOut{Value: c.Coin.Amount - c.Coin.Amount/2, PkScript: p2wsh(ws)})
		for left := legacy; left > 0; {
			k := min(left, 9000)
			s := make([]byte, k)
			for i := range s {
				s[i] = opCheckSig
			}
			t1.AddTxOut(&wire.TxOut{Value: 0, PkScript: s})
			left -= k
		}
		t2 := wire.NewMsgTx(2)
		t2.AddTxIn(&wire.TxIn{PreviousOutPoint: childOf(t1, 0), Sequence: 0xffffffff, SignatureScript: pushData(redeem)})
		t2.AddTxIn(&wire.TxIn{PreviousOutPoint: childOf(t1, 1), Sequence: 0xffffffff, Witness: wire.TxWitness{ws}})
		t2.AddTxOut(&wire.TxOut{Value: c.Coin.Amount, PkScript: []byte{txscript.OP_TRUE}})
		d.Msg.Transactions = append(d.Msg.Transactions, t1, t2)
		d.Msg.Transactions[0].TxOut[0].PkScript = []byte{txscript.OP_TRUE}
		return true
	}
}

// bip68Time: a relative time lock of exactly the elapsed median time (+delta units of 512 s).
func bip68Time(delta int64) func(x *ctx, d *chaingen.Draft) bool {
	return func(x *ctx, d *chaingen.Draft) bool {
		if !x.csvActive(d) {
			return false
		}
		c, ok := x.coinOfKind(func(c chaingen.Spendable) bool { return c.Coin.Height >= 1 && c.Coin.Height <= d.Parent.Height })
		if !ok {
			return false
		}
		anc := d.Parent.Ancestor(c.Coin.Height - 1)
		units := (d.Parent.MTP()-anc.MTP())/512 + delta
		if units < 0 || units > 0xffff {
			return false
		}
		addTx(d, x.spend(c, 0, func(tx *wire.MsgTx) { tx.Version = 2; tx.TxIn[0].Sequence = seqTypeTime | uint32(units) }), 0)
		return true
	}
}

func (x *ctx) csvActive(d *chaingen.Draft) bool {
	if x.gates != nil {
		return d.Height >= x.gates.csv
	}
	return x.g.Witness
}

// sameBlockP2SH adds t1 (creating a P2SH output for redeem) and t2 (spending it) to the draft; shape configures t2.
func (x *ctx) sameBlockP2SH(d *chaingen.Draft, redeem []byte, shape func(t2 *wire.MsgTx)) bool {
	c, ok := x.trueCoin()
	if !ok {
		return false
	}
	t1 := wire.NewMsgTx(1)
	t1.AddTxIn(&wire.TxIn{PreviousOutPoint: c.Op, Sequence: 0xffffffff})
	t1.AddTxOut(&wire.TxOut{Value: c.Coin.Amount, PkScript: p2sh(redeem)})
	t2 := wire.NewMsgTx(1)
	t2.AddTxIn(&wire.TxIn{PreviousOutPoint: childOf(t1, 0), Sequence: 0xffffffff, SignatureScript: pushData(redeem)})
	t2.AddTxOut(&wire.TxOut{Value: c.Coin.Amount, PkScript: []byte{txscript.OP_TRUE}})
	shape(t2)
	d.Msg.Transactions = append(d.Msg.Transactions, t1, t2)
	return true
}

// numPush is the minimal script-number push of a non-negative value (the BIP34 height encoding is exactly that).
func numPush(v int64) []byte { return chaingen.HeightPush(int32(v)) }

func lockScript(op byte, operand int64) []byte {
	return append(append([]byte{}, numPush(operand)...), op, opDrop, txscript.OP_TRUE)
}

// cltv: the redeem script demands lock time >= L+delta while the transaction carries lock time L = height-1 (final).
func cltv(delta int64) func(x *ctx, d *chaingen.Draft) bool {
	return func(x *ctx, d *chaingen.Draft) bool {
		L := int64(d.Height - 1)
		if L+delta < 0 {
			return false
		}
		return x.sameBlockP2SH(d, lockScript(opCLTV, L+delta), func(t2 *wire.MsgTx) {
			t2.LockTime = uint32(L)
			t2.TxIn[0].Sequence = 0xfffffffe
		})
	}
}

// csv: operand vs. the input's sequence number (the coin is created in the same block, so only a zero relative lock
// satisfies BIP68 itself).
func csv(operand int64, seq uint32, version int32) func(x *ctx, d *chaingen.Draft) bool {
	return func(x *ctx, d *chaingen.Draft) bool {
		if !x.csvActive(d) {
			return false
		}
		return x.sameBlockP2SH(d, lockScript(opCSV, operand), func(t2 *wire.MsgTx) {
			t2.Version = version
			t2.TxIn[0].Sequence = seq
		})
	}
}

// paddedDER re-encodes the DER signature at the start of a P2PKH signature script with an unnecessary leading zero
// byte in R (BER, accepted before BIP66, refused by strict DER).
func paddedDER(sigScript []byte) []byte {
	n := int(sigScript[0]) // push length: DER + hash type
	sig := sigScript[1 : 1+n]
	rest := sigScript[1+n:]
	rlen := int(sig[3])
	ns := []byte{0x30, sig[1] + 1, 0x02, byte(rlen + 1), 0x00}
	ns = append(ns, sig[4:]...)
	out := append([]byte{byte(len(ns))}, ns...)
	return append(out, rest...)
}

func catalogue2() []recipe {
	V, E, C := refchain.Valid, refchain.InvalidEarly, refchain.InvalidConnect
	var rs []recipe
	add := func(name string, label refchain.Validity, rule string, f func(x *ctx, d *chaingen.Draft) bool) {
		rs = append(rs, recipe{name: name, label: label, rule: rule, apply: f})
	}
	add("weight:4000000", V, "", bigWitnessBlock(4000000))
	add("weight:4000001", E, "bc:weight", bigWitnessBlock(4000001))
	add("sigopcost:80000-mixed", V, "", sigopCostBlock(80000, false))
	add("sigopcost:80001-witness", C, "cv:too-many-sigops", sigopCostBlock(80001, false))
	add("sigopcost:80004-p2sh", C, "cv:too-many-sigops", sigopCostBlock(80004, true))
	add("bip68:time-lock-met", V, "", bip68Time(0))
	add("bip68:time-lock-one-short", C, "cv:sequence-lock", bip68Time(1))
	add("cltv:operand-met", V, "", cltv(0))
	add("cltv:operand-unmet", C, "cv:script", cltv(1))
	add("csv:operand-met-height", V, "", csv(0, 0, 2))
	add("csv:operand-unmet-height", C, "cv:script", csv(1, 0, 2))
	add("csv:operand-met-time", V, "", csv(seqTypeTime, seqTypeTime, 2))
	add("csv:operand-type-mismatch", C, "cv:script", csv(0, seqTypeTime, 2) /* operand 0 is height-typed */)
	add("csv:version-1-tx", C, "cv:script", csv(0, 0, 1))
	// BIP141: of several coinbase outputs matching the commitment pattern the one with the highest index counts;
	// the pattern is a prefix (longer scripts match too)
	commit := func(bogusLast, long bool) func(x *ctx, d *chaingen.Draft) bool {
		return func(x *ctx, d *chaingen.Draft) bool {
			c, ok := x.coinOfKind(func(c chaingen.Spendable) bool {
				pk := c.Coin.PkScript
				return len(pk) > 2 && (pk[0] == 0x00 || (pk[0] == 0x51 && len(pk) == 34))
			})
			if !ok {
				return false
			}
			addTx(d, x.spend(c, 0, nil), 0)
			d.SkipSolve = true
			d.Finalize(true)
			d.SkipSolve = false
			d.SkipCommitment = true
			cb := d.Msg.Transactions[0]
			n := len(cb.TxOut)
			good := cb.TxOut[n-1]
			bogus := &wire.TxOut{Value: 0, PkScript: append([]byte{0x6a, 0x24, 0xaa, 0x21, 0xa9, 0xed}, x.r.Bytes(32)...)}
			if long {
				good.PkScript = append(good.PkScript, x.r.Bytes(1+x.r.Intn(8))...)
				bogus.PkScript = append(bogus.PkScript, 0x51)
			}
			if bogusLast {
				cb.TxOut = append(cb.TxOut, bogus)
			} else {
				cb.TxOut = append(append(append([]*wire.TxOut{}, cb.TxOut[:n-1]...), bogus), good)
			}
			return true
		}
	}
	// individually legal output values whose total wraps around 2^64 back to exactly the input value (a running total
	// that is only range-checked at the end, or in 64-bit arithmetic without a per-step check, does not see it)
	add("tx:output-sum-wraps-2^64", E, "bs:bad-output-value", func(x *ctx, d *chaingen.Draft) bool {
		c, ok := x.trueCoin()
		if !ok || c.Coin.Amount <= 0 {
			return false
		}
		const maxSat = int64(21e14)
		tx := wire.NewMsgTx(1)
		tx.AddTxIn(&wire.TxIn{PreviousOutPoint: c.Op, Sequence: 0xffffffff})
		var sum uint64
		for sum+uint64(maxSat) > sum { // until the next full-value output would wrap
			tx.AddTxOut(&wire.TxOut{Value: maxSat, PkScript: []byte{0x6a}})
			sum += uint64(maxSat)
		}
		// sum is now within maxSat of 2^64: the last output lands the wrapped total on the input amount
		last := uint64(c.Coin.Amount) - sum // modulo 2^64
		if last == 0 || last > uint64(maxSat) {
			return false
		}
		tx.AddTxOut(&wire.TxOut{Value: int64(last), PkScript: []byte{0x51}})
		d.Msg.Transactions = append(d.Msg.Transactions, tx)
		return true
	})
	add("witness:two-commitments-last-correct", V, "", commit(false, false))
	add("witness:two-commitments-last-wrong", E, "bc:witness-commitment", commit(true, false))
	add("witness:long-commitments-last-correct", V, "", commit(false, true))
	add("witness:long-commitments-last-wrong", E, "bc:witness-commitment", commit(true, true))
	return rs
}

// ---------------------------------------------------------------------------------------------
// height-gated rules

type gates struct{ bip34, bip66, bip65, csv, taproot int32 }

func gatesParams(p *chaincfg.Params, g gates) {
	p.Name = "verif-gates"
	p.BIP0034Height, p.BIP0066Height, p.BIP0065Height = g.bip34, g.bip66, g.bip65
	p.Deployments[chaincfg.DeploymentCSV].AlwaysActiveHeight = uint32(g.csv)
}

// gatesCatalogue: every recipe computes its label from the height of the candidate.
func gatesCatalogue() []recipe {
	V, E, C := refchain.Valid, refchain.InvalidEarly, refchain.InvalidConnect
	var rs []recipe
	add := func(name string, gate func(g *gates) int32, f func(x *ctx, d *chaingen.Draft) bool) {
		rs = append(rs, recipe{name: name, label: V, gate: gate, apply: f})
	}
	lab := func(x *ctx, cond bool, l refchain.Validity, rule string) {
		if cond {
			x.ovLabel, x.ovRule, x.ov = l, rule, true
		} else {
			x.ovLabel, x.ovRule, x.ov = V, "", true
		}
	}
	version := func(v int32) func(x *ctx, d *chaingen.Draft) bool {
		return func(x *ctx, d *chaingen.Draft) bool {
			g := x.gates
			d.Msg.Header.Version = v
			lab(x, (v < 2 && d.Height >= g.bip34) || (v < 3 && d.Height >= g.bip66) || (v < 4 && d.Height >= g.bip65), E, "hc:version-too-old")
			return true
		}
	}
	add("gate:version-1", func(g *gates) int32 { return g.bip34 }, version(1))
	add("gate:version-2", func(g *gates) int32 { return g.bip66 }, version(2))
	add("gate:version-3", func(g *gates) int32 { return g.bip65 }, version(3))
	add("gate:version-4", nil, version(4))
	add("gate:bip34-wrong-height", func(g *gates) int32 { return g.bip34 }, func(x *ctx, d *chaingen.Draft) bool {
		cb := d.Msg.Transactions[0]
		old := chaingen.HeightPush(d.Height)
		cb.TxIn[0].SignatureScript = append(chaingen.HeightPush(d.Height+1), cb.TxIn[0].SignatureScript[len(old):]...)
		lab(x, d.Height >= x.gates.bip34, E, "bc:coinbase-height")
		return true
	})
	add("gate:bip66-padded-der", func(g *gates) int32 { return g.bip66 }, func(x *ctx, d *chaingen.Draft) bool {
		c, ok := x.coinOfKind(func(c chaingen.Spendable) bool { return len(c.Coin.PkScript) == 25 && c.Coin.PkScript[0] == 0x76 })
		if !ok {
			return false
		}
		tx := x.spend(c, 0, nil)
		tx.TxIn[0].SignatureScript = paddedDER(tx.TxIn[0].SignatureScript)
		d.Msg.Transactions = append(d.Msg.Transactions, tx)
		lab(x, d.Height >= x.gates.bip66, C, "cv:script")
		return true
	})
	add("gate:bip65-cltv-unmet", func(g *gates) int32 { return g.bip65 }, func(x *ctx, d *chaingen.Draft) bool {
		if !cltv(1)(x, d) {
			return false
		}
		lab(x, d.Height >= x.gates.bip65, C, "cv:script")
		return true
	})
	add("gate:csv-opcode-unmet", func(g *gates) int32 { return g.csv }, func(x *ctx, d *chaingen.Draft) bool {
		ok := x.sameBlockP2SH(d, lockScript(opCSV, 1), func(t2 *wire.MsgTx) { t2.Version = 2; t2.TxIn[0].Sequence = 0 })
		if !ok {
			return false
		}
		lab(x, d.Height >= x.gates.csv, C, "cv:script")
		return true
	})
	add("gate:csv-bip68-unmet", func(g *gates) int32 { return g.csv }, func(x *ctx, d *chaingen.Draft) bool {
		c, ok := x.coinOfKind(func(c chaingen.Spendable) bool { return d.Height-c.Coin.Height < 60000 })
		if !ok {
			return false
		}
		n := d.Height - c.Coin.Height + 1
		addTx(d, x.spend(c, 0, func(tx *wire.MsgTx) { tx.Version = 2; tx.TxIn[0].Sequence = uint32(n) }), 0)
		lab(x, d.Height >= x.gates.csv, C, "cv:sequence-lock")
		return true
	})
	add("gate:csv-locktime-mtp", func(g *gates) int32 { return g.csv }, func(x *ctx, d *chaingen.Draft) bool {
		// lock time = median time past of the parent: final by the header-time rule, not by the BIP113 rule
		c, ok := x.anyCoin()
		if !ok || d.Msg.Header.Timestamp.Unix() <= d.Parent.MTP() {
			return false
		}
		addTx(d, x.spend(c, 0, func(tx *wire.MsgTx) {
			tx.LockTime = uint32(d.Parent.MTP())
			tx.TxIn[0].Sequence = 0xfffffffe
			tx.Version = 1
		}), 0)
		lab(x, d.Height >= x.gates.csv, E, "bc:unfinalized")
		return true
	})
	bip30 := func(wantUnspent bool) func(x *ctx, d *chaingen.Draft) bool {
		return func(x *ctx, d *chaingen.Draft) bool {
			// BIP30 is subsumed by BIP34 once coinbases commit to their height
			if d.Height >= x.gates.bip34 {
				return false
			}
			set := d.Parent.Utxo()
			sub := refchain.Subsidy(d.Height, x.g.P.SubsidyReductionInterval)
			var picks []*refchain.Block
			for n := d.Parent; n != nil && n.Parent != nil; n = n.Parent {
				cb := n.Msg.Transactions[0]
				var total int64
				unspent := false
				for i, o := range cb.TxOut {
					total += o.Value
					if _, ok := set[wire.OutPoint{Hash: cb.TxHash(), Index: uint32(i)}]; ok {
						unspent = true
					}
				}
				if total <= sub && unspent == wantUnspent {
					picks = append(picks, n)
				}
			}
			if len(picks) == 0 {
				return false
			}
			a := picks[x.r.Intn(len(picks))]
			d.Msg.Transactions[0] = a.Msg.Transactions[0].Copy()
			lab(x, wantUnspent, C, "cv:bip30-overwrite")
			return true
		}
	}
	add("gate:bip30-overwrite-unspent", nil, bip30(true))
	add("gate:bip30-recreate-spent", nil, bip30(false))
	add("gate:base-size-1000000", nil, func(x *ctx, d *chaingen.Draft) bool {
		if !bigBaseBlock(1000000)(x, d) {
			return false
		}
		lab(x, false, V, "")
		return true
	})
	add("gate:base-size-1000001", nil, func(x *ctx, d *chaingen.Draft) bool {
		if !bigBaseBlock(1000001)(x, d) {
			return false
		}
		lab(x, true, E, "bs:block-too-big")
		return true
	})
	add("gate:plain-valid", nil, func(x *ctx, d *chaingen.Draft) bool {
		c, ok := x.anyCoin()
		if !ok {
			return false
		}
		addTx(d, x.spend(c, 0, nil), 0)
		lab(x, false, V, "")
		return true
	})
	return rs
}

// taprootGateCatalogue: taproot becomes active at gates.taproot (segwit is active throughout). Before that height a
// witness-v1 32-byte output is an unencumbered unknown witness program: any spend of it is valid, whatever the witness.
func taprootGateCatalogue() []recipe {
	V, C := refchain.Valid, refchain.InvalidConnect
	var rs []recipe
	gate := func(g *gates) int32 { return g.taproot }
	lab := func(x *ctx, d *chaingen.Draft) {
		if d.Height >= x.gates.taproot {
			x.ovLabel, x.ovRule, x.ov = C, "cv:script", true
		} else {
			x.ovLabel, x.ovRule, x.ov = V, "", true
		}
	}
	rs = append(rs, recipe{name: "gate:taproot-v1-output-spent-with-empty-witness", label: V, gate: gate, apply: func(x *ctx, d *chaingen.Draft) bool {
		c, ok := x.trueCoin()
		if !ok {
			return false
		}
		prog := append([]byte{0x51, 0x20}, x.r.Bytes(32)...)
		t1 := wire.NewMsgTx(2)
		t1.AddTxIn(&wire.TxIn{PreviousOutPoint: c.Op, Sequence: 0xffffffff})
		t1.AddTxOut(&wire.TxOut{Value: c.Coin.Amount, PkScript: prog})
		t2 := wire.NewMsgTx(2)
		t2.AddTxIn(&wire.TxIn{PreviousOutPoint: childOf(t1, 0), Sequence: 0xffffffff})
		t2.AddTxOut(&wire.TxOut{Value: c.Coin.Amount, PkScript: []byte{txscript.OP_TRUE}})
		d.Msg.Transactions = append(d.Msg.Transactions, t1, t2)
		lab(x, d)
		return true
	}})
	rs = append(rs, recipe{name: "gate:taproot-key-spend-with-corrupted-signature", label: V, gate: gate, apply: func(x *ctx, d *chaingen.Draft) bool {
		c, ok := x.coinOfKind(func(c chaingen.Spendable) bool { return len(c.Coin.PkScript) == 34 && c.Coin.PkScript[0] == 0x51 })
		if !ok {
			// no taproot coin at hand: create one in this block
			base, ok2 := x.anyCoin()
			if !ok2 {
				return false
			}
			pk := x.g.Script(chaingen.KP2TR, x.r.Intn(4), x.r)
			t1 := x.spend(base, 0, func(tx *wire.MsgTx) { tx.TxOut[0].PkScript = pk })
			d.Msg.Transactions = append(d.Msg.Transactions, t1)
			c = chaingen.Spendable{Op: childOf(t1, 0), Coin: refchain.Coin{Amount: t1.TxOut[0].Value, PkScript: pk, Height: d.Height}}
		}
		tx := x.spend(c, 0, nil)
		w := append([]byte{}, tx.TxIn[0].Witness[0]...)
		w[len(w)/2] ^= 0x04
		tx.TxIn[0].Witness[0] = w
		d.Msg.Transactions = append(d.Msg.Transactions, tx)
		lab(x, d)
		return true
	}})
	rs = append(rs, recipe{name: "gate:taproot-valid-key-spend", label: V, apply: func(x *ctx, d *chaingen.Draft) bool {
		c, ok := x.coinOfKind(func(c chaingen.Spendable) bool { return len(c.Coin.PkScript) == 34 && c.Coin.PkScript[0] == 0x51 })
		if !ok {
			return false
		}
		addTx(d, x.spend(c, 0, nil), 0)
		x.ovLabel, x.ovRule, x.ov = V, "", true
		return true
	}})
	rs = append(rs, recipe{name: "gate:taproot-plain-valid", label: V, apply: func(x *ctx, d *chaingen.Draft) bool {
		c, ok := x.anyCoin()
		if !ok {
			return false
		}
		addTx(d, x.spend(c, 0, nil), 0)
		x.ovLabel, x.ovRule, x.ov = V, "", true
		return true
	}})
	return rs
}

// timewarpCatalogue: BIP94 (first block of a retarget interval may be at most 600 s older than its parent).
func timewarpCatalogue() []recipe {
	V, E := refchain.Valid, refchain.InvalidEarly
	var rs []recipe
	tw := func(back int64) func(x *ctx, d *chaingen.Draft) bool {
		return func(x *ctx, d *chaingen.Draft) bool {
			iv := int32(x.g.P.TargetTimespan / x.g.P.TargetTimePerBlock)
			ts := d.Parent.Msg.Header.Timestamp.Unix() - back
			if d.Height%iv != 0 || ts <= d.Parent.MTP() {
				return false
			}
			d.Msg.Header.Timestamp = time.Unix(ts, 0)
			d.Msg.Header.Bits = d.G.RequiredBits(d.Parent, ts)
			return true
		}
	}
	rs = append(rs, recipe{name: "bip94:first-of-interval-600s-back", label: V, apply: tw(600)})
	rs = append(rs, recipe{name: "bip94:first-of-interval-601s-back", label: E, rule: "hc:timewarp", apply: tw(601)})
	rs = append(rs, recipe{name: "bip94:mid-interval-601s-back", label: V, apply: func(x *ctx, d *chaingen.Draft) bool {
		iv := int32(x.g.P.TargetTimespan / x.g.P.TargetTimePerBlock)
		ts := d.Parent.Msg.Header.Timestamp.Unix() - 601
		if d.Height%iv == 0 || ts <= d.Parent.MTP() {
			return false
		}
		d.Msg.Header.Timestamp = time.Unix(ts, 0)
		d.Msg.Header.Bits = d.G.RequiredBits(d.Parent, ts)
		return true
	}})
	return rs
}
