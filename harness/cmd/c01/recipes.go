package main

import (
	"time"

	"verif/gen/chaingen"
	"verif/mon"
	"verif/ref/refchain"

	"github.com/btcsuite/btcd/chainhash/v2"
	"github.com/btcsuite/btcd/wire/v2"
)

// A recipe turns a valid draft (coinbase-only block on d.Parent) into a candidate that is either still
// valid (at-limit form) or violates exactly one rule. ok=false means the recipe does not apply here.
type recipe struct {
	name  string
	label refchain.Validity
	rule  string // "" for valid
	// needs: preconditions the driver arranges
	fam   string // parameter family required ("" = any)
	apply func(x *ctx, d *chaingen.Draft) bool
	// gate (height-gated recipes): the activation height at which the recipe's verdict flips
	gate func(g *gates) int32
}

// ctx gives recipes access to the generator state.
type ctx struct {
	r     *mon.Rand
	g     *chaingen.Gen
	now   int64
	coins []chaingen.Spendable // mature, unspent coins at d.Parent
	gates *gates               // activation heights of the "gates" family (nil otherwise)
	// a recipe whose verdict depends on the context sets ov and the label it computed
	ov      bool
	ovLabel refchain.Validity
	ovRule  string
}

// spend builds a valid signed tx spending coin i to a single OP_TRUE output with the given fee.
func (x *ctx) spend(c chaingen.Spendable, fee int64, mut func(tx *wire.MsgTx)) *wire.MsgTx {
	tx := wire.NewMsgTx(2)
	tx.AddTxIn(&wire.TxIn{PreviousOutPoint: c.Op, Sequence: 0xffffffff})
	tx.AddTxOut(&wire.TxOut{Value: c.Coin.Amount - fee, PkScript: []byte{0x51}})
	if mut != nil {
		mut(tx)
	}
	if err := x.g.SignTx(tx, []refchain.Coin{c.Coin}); err != nil {
		panic(err)
	}
	return tx
}

func (x *ctx) coinOfKind(pred func(c chaingen.Spendable) bool) (chaingen.Spendable, bool) {
	for _, i := range x.r.Perm(len(x.coins)) {
		if pred(x.coins[i]) {
			return x.coins[i], true
		}
	}
	return chaingen.Spendable{}, false
}

func (x *ctx) anyCoin() (chaingen.Spendable, bool) {
	return x.coinOfKind(func(chaingen.Spendable) bool { return true })
}

func addTx(d *chaingen.Draft, tx *wire.MsgTx, fee int64) {
	d.Msg.Transactions = append(d.Msg.Transactions, tx)
	d.Msg.Transactions[0].TxOut[0].Value += fee
}

func setTime(d *chaingen.Draft, ts int64) {
	d.Msg.Header.Timestamp = time.Unix(ts, 0)
	d.Msg.Header.Bits = d.G.RequiredBits(d.Parent, ts)
}

func catalogue() []recipe {
	V, E, C := refchain.Valid, refchain.InvalidEarly, refchain.InvalidConnect
	var rs []recipe
	add := func(name string, label refchain.Validity, rule string, f func(x *ctx, d *chaingen.Draft) bool) {
		rs = append(rs, recipe{name: name, label: label, rule: rule, apply: f})
	}
	// ---- header
	add("pow:high-hash", E, "hs:high-hash", func(x *ctx, d *chaingen.Draft) bool {
		d.Finalize(true)
		d.SkipSolve = true
		t, _ := refchain.CompactToTarget(d.Msg.Header.Bits)
		for n := uint32(0); ; n++ {
			d.Msg.Header.Nonce = n
			if !chaingen.HashLEQ(d.Msg.Header.BlockHash(), t) {
				return true
			}
		}
	})
	add("pow:bits-above-limit", E, "hs:bits-above-limit", func(x *ctx, d *chaingen.Draft) bool {
		d.Msg.Header.Bits = 0x2100ffff
		return true
	})
	add("pow:bits-negative", E, "hs:bits-negative", func(x *ctx, d *chaingen.Draft) bool {
		d.Msg.Header.Bits = 0x1f80ffff
		d.SkipSolve = true
		return true
	})
	add("pow:bits-zero", E, "hs:bits-zero", func(x *ctx, d *chaingen.Draft) bool {
		d.Msg.Header.Bits = 0x20000000
		d.SkipSolve = true
		return true
	})
	add("bits:harder-than-required", E, "hc:unexpected-bits", func(x *ctx, d *chaingen.Draft) bool {
		if d.Msg.Header.Bits != d.G.P.PowLimitBits {
			return false
		}
		d.Msg.Header.Bits = 0x207ffffe
		return true
	})
	add("time:mtp", E, "hc:time-too-old", func(x *ctx, d *chaingen.Draft) bool { setTime(d, d.Parent.MTP()); return true })
	add("time:mtp+1", V, "", func(x *ctx, d *chaingen.Draft) bool {
		// under BIP94 the first block of a retarget interval is additionally bounded by its parent's timestamp
		if iv := int32(x.g.P.TargetTimespan / x.g.P.TargetTimePerBlock); x.g.P.EnforceBIP94 && d.Height%iv == 0 &&
			d.Parent.MTP()+1 < d.Parent.Msg.Header.Timestamp.Unix()-600 {
			return false
		}
		setTime(d, d.Parent.MTP()+1)
		return true
	})
	add("time:now+7200", V, "", func(x *ctx, d *chaingen.Draft) bool { setTime(d, x.now+7200); return true })
	add("time:now+7201", E, "hs:time-too-new", func(x *ctx, d *chaingen.Draft) bool { setTime(d, x.now+7201); return true })
	// ---- body sanity
	add("body:no-transactions", E, "bs:no-transactions", func(x *ctx, d *chaingen.Draft) bool {
		d.Msg.Transactions = nil
		d.SkipCommitment, d.SkipMerkle = true, true
		d.Msg.Header.MerkleRoot = chainhash.Hash{}
		return true
	})
	add("body:first-not-coinbase", E, "bs:first-not-coinbase", func(x *ctx, d *chaingen.Draft) bool {
		c, ok := x.anyCoin()
		if !ok {
			return false
		}
		tx := x.spend(c, 0, nil)
		d.Msg.Transactions = append([]*wire.MsgTx{tx}, d.Msg.Transactions...)
		d.SkipCommitment = true
		return true
	})
	add("body:second-coinbase", E, "bs:multiple-coinbases", func(x *ctx, d *chaingen.Draft) bool {
		cb2 := d.Msg.Transactions[0].Copy()
		cb2.TxIn[0].SignatureScript = append(cb2.TxIn[0].SignatureScript, 0x51)
		cb2.TxIn[0].Witness = nil
		d.Msg.Transactions = append(d.Msg.Transactions, cb2)
		return true
	})
	add("tx:no-inputs", E, "bs:no-inputs", func(x *ctx, d *chaingen.Draft) bool {
		tx := wire.NewMsgTx(1)
		tx.AddTxOut(&wire.TxOut{Value: 1, PkScript: []byte{0x51}})
		d.Msg.Transactions = append(d.Msg.Transactions, tx)
		return true
	})
	add("tx:no-outputs", E, "bs:no-outputs", func(x *ctx, d *chaingen.Draft) bool {
		c, ok := x.anyCoin()
		if !ok {
			return false
		}
		tx := x.spend(c, 0, func(tx *wire.MsgTx) { tx.TxOut = nil })
		d.Msg.Transactions = append(d.Msg.Transactions, tx)
		return true
	})
	add("tx:negative-output", E, "bs:bad-output-value", func(x *ctx, d *chaingen.Draft) bool {
		c, ok := x.anyCoin()
		if !ok {
			return false
		}
		d.Msg.Transactions = append(d.Msg.Transactions, x.spend(c, 0, func(tx *wire.MsgTx) { tx.TxOut[0].Value = -1 }))
		return true
	})
	add("tx:output-above-max", E, "bs:bad-output-value", func(x *ctx, d *chaingen.Draft) bool {
		c, ok := x.anyCoin()
		if !ok {
			return false
		}
		d.Msg.Transactions = append(d.Msg.Transactions, x.spend(c, 0, func(tx *wire.MsgTx) { tx.TxOut[0].Value = 21e14 + 1 }))
		return true
	})
	add("tx:output-sum-above-max", E, "bs:bad-output-value", func(x *ctx, d *chaingen.Draft) bool {
		c, ok := x.anyCoin()
		if !ok {
			return false
		}
		d.Msg.Transactions = append(d.Msg.Transactions, x.spend(c, 0, func(tx *wire.MsgTx) {
			tx.TxOut[0].Value = 21e14
			tx.AddTxOut(&wire.TxOut{Value: 1, PkScript: []byte{0x51}})
		}))
		return true
	})
	add("tx:duplicate-inputs", E, "bs:duplicate-inputs", func(x *ctx, d *chaingen.Draft) bool {
		c, ok := x.coinOfKind(func(c chaingen.Spendable) bool { return len(c.Coin.PkScript) == 1 })
		if !ok {
			return false
		}
		tx := wire.NewMsgTx(1)
		tx.AddTxIn(&wire.TxIn{PreviousOutPoint: c.Op, Sequence: 0xffffffff})
		tx.AddTxIn(&wire.TxIn{PreviousOutPoint: c.Op, Sequence: 0xffffffff})
		tx.AddTxOut(&wire.TxOut{Value: c.Coin.Amount, PkScript: []byte{0x51}})
		d.Msg.Transactions = append(d.Msg.Transactions, tx)
		return true
	})
	add("tx:null-prevout", E, "bs:null-prevout", func(x *ctx, d *chaingen.Draft) bool {
		c, ok := x.coinOfKind(func(c chaingen.Spendable) bool { return len(c.Coin.PkScript) == 1 })
		if !ok {
			return false
		}
		tx := wire.NewMsgTx(1)
		tx.AddTxIn(&wire.TxIn{PreviousOutPoint: c.Op, Sequence: 0xffffffff})
		tx.AddTxIn(&wire.TxIn{PreviousOutPoint: wire.OutPoint{Index: 0xffffffff}, Sequence: 0xffffffff})
		tx.AddTxOut(&wire.TxOut{Value: c.Coin.Amount, PkScript: []byte{0x51}})
		d.Msg.Transactions = append(d.Msg.Transactions, tx)
		return true
	})
	cbLen := func(n int) func(x *ctx, d *chaingen.Draft) bool {
		return func(x *ctx, d *chaingen.Draft) bool {
			cb := d.Msg.Transactions[0]
			hp := chaingen.HeightPush(d.Height)
			if n < len(hp) {
				if n == 1 {
					// one byte: too short whatever it is (the length rule is a sanity rule and comes first)
					cb.TxIn[0].SignatureScript = []byte{0x51}
					if d.Height <= 16 {
						cb.TxIn[0].SignatureScript = hp[:1]
					}
					return true
				}
				return false
			}
			s := append([]byte{}, hp...)
			for len(s) < n {
				s = append(s, 0x51)
			}
			cb.TxIn[0].SignatureScript = s
			return true
		}
	}
	add("coinbase:script-len-1", E, "bs:coinbase-script-len", cbLen(1))
	add("coinbase:script-len-2", V, "", cbLen(2))
	add("coinbase:script-len-100", V, "", cbLen(100))
	add("coinbase:script-len-101", E, "bs:coinbase-script-len", cbLen(101))
	add("merkle:wrong-root", E, "bs:merkle-root", func(x *ctx, d *chaingen.Draft) bool {
		d.Finalize(true)
		d.Msg.Header.MerkleRoot[7] ^= 1
		d.SkipMerkle = true
		return true
	})
	sigopsBlock := func(n int) func(x *ctx, d *chaingen.Draft) bool {
		return func(x *ctx, d *chaingen.Draft) bool {
			// a coin whose spend adds no signature operations of its own (a P2WPKH input would add one unit of cost)
			c, ok := x.trueCoin()
			if !ok {
				return false
			}
			// legacy sigops are counted in output scripts too: n OP_CHECKSIG bytes spread over outputs of <= 9000 bytes
			tx := x.spend(c, 0, func(tx *wire.MsgTx) {
				left := n
				for left > 0 {
					k := min(left, 9000)
					s := make([]byte, k)
					for i := range s {
						s[i] = 0xac
					}
					tx.AddTxOut(&wire.TxOut{Value: 0, PkScript: s})
					left -= k
				}
			})
			d.Msg.Transactions = append(d.Msg.Transactions, tx)
			// the coinbase must not add a signature operation of its own
			d.Msg.Transactions[0].TxOut[0].PkScript = []byte{0x51}
			return true
		}
	}
	add("sigops:legacy-20000", V, "", sigopsBlock(20000))
	add("sigops:legacy-20001", E, "bs:too-many-sigops", sigopsBlock(20001))
	// ---- body context
	add("coinbase:height+1", E, "bc:coinbase-height", func(x *ctx, d *chaingen.Draft) bool {
		cb := d.Msg.Transactions[0]
		old := chaingen.HeightPush(d.Height)
		cb.TxIn[0].SignatureScript = append(chaingen.HeightPush(d.Height+1), cb.TxIn[0].SignatureScript[len(old):]...)
		return true
	})
	add("coinbase:height-nonminimal", E, "bc:coinbase-height", func(x *ctx, d *chaingen.Draft) bool {
		if d.Height <= 16 {
			return false
		}
		cb := d.Msg.Transactions[0]
		old := chaingen.HeightPush(d.Height)
		np := append([]byte{old[0] + 1}, old[1:]...)
		np = append(np, 0x00)
		cb.TxIn[0].SignatureScript = append(np, cb.TxIn[0].SignatureScript[len(old):]...)
		return true
	})
	add("locktime:height-1", V, "", func(x *ctx, d *chaingen.Draft) bool {
		c, ok := x.anyCoin()
		if !ok {
			return false
		}
		addTx(d, x.spend(c, 0, func(tx *wire.MsgTx) {
			tx.LockTime = uint32(d.Height - 1)
			tx.TxIn[0].Sequence = 0xfffffffe
			tx.Version = 1
		}), 0)
		return true
	})
	add("locktime:height-nonfinal", E, "bc:unfinalized", func(x *ctx, d *chaingen.Draft) bool {
		c, ok := x.anyCoin()
		if !ok {
			return false
		}
		addTx(d, x.spend(c, 0, func(tx *wire.MsgTx) { tx.LockTime = uint32(d.Height); tx.TxIn[0].Sequence = 0xfffffffe; tx.Version = 1 }), 0)
		return true
	})
	add("locktime:height-final-sequences", V, "", func(x *ctx, d *chaingen.Draft) bool {
		c, ok := x.anyCoin()
		if !ok {
			return false
		}
		addTx(d, x.spend(c, 0, func(tx *wire.MsgTx) { tx.LockTime = uint32(d.Height + 100); tx.Version = 1 }), 0)
		return true
	})
	// the height / time switch of the lock time: 500000000 is the first value read as a timestamp (1985, long past),
	// 499999999 the last one read as a height (never reached)
	add("locktime:threshold-exact-is-a-time", V, "", func(x *ctx, d *chaingen.Draft) bool {
		c, ok := x.anyCoin()
		if !ok {
			return false
		}
		addTx(d, x.spend(c, 0, func(tx *wire.MsgTx) { tx.LockTime = 500000000; tx.TxIn[0].Sequence = 0xfffffffe; tx.Version = 1 }), 0)
		return true
	})
	add("locktime:threshold-1-is-a-height", E, "bc:unfinalized", func(x *ctx, d *chaingen.Draft) bool {
		c, ok := x.anyCoin()
		if !ok {
			return false
		}
		addTx(d, x.spend(c, 0, func(tx *wire.MsgTx) { tx.LockTime = 499999999; tx.TxIn[0].Sequence = 0xfffffffe; tx.Version = 1 }), 0)
		return true
	})
	add("locktime:mtp-1", V, "", func(x *ctx, d *chaingen.Draft) bool {
		c, ok := x.anyCoin()
		if !ok || !x.g.Witness {
			return false
		}
		addTx(d, x.spend(c, 0, func(tx *wire.MsgTx) {
			tx.LockTime = uint32(d.Parent.MTP() - 1)
			tx.TxIn[0].Sequence = 0xfffffffe
			tx.Version = 1
		}), 0)
		return true
	})
	add("locktime:mtp", E, "bc:unfinalized", func(x *ctx, d *chaingen.Draft) bool {
		c, ok := x.anyCoin()
		if !ok || !x.g.Witness {
			return false
		}
		addTx(d, x.spend(c, 0, func(tx *wire.MsgTx) {
			tx.LockTime = uint32(d.Parent.MTP())
			tx.TxIn[0].Sequence = 0xfffffffe
			tx.Version = 1
		}), 0)
		return true
	})
	witnessSpend := func(x *ctx) (chaingen.Spendable, bool) {
		return x.coinOfKind(func(c chaingen.Spendable) bool {
			return len(c.Coin.PkScript) > 2 && (c.Coin.PkScript[0] == 0x00 || (c.Coin.PkScript[0] == 0x51 && len(c.Coin.PkScript) == 34))
		})
	}
	add("witness:commitment-wrong", E, "bc:witness-commitment", func(x *ctx, d *chaingen.Draft) bool {
		c, ok := witnessSpend(x)
		if !ok {
			return false
		}
		addTx(d, x.spend(c, 0, nil), 0)
		d.Finalize(true)
		cb := d.Msg.Transactions[0]
		cb.TxOut[len(cb.TxOut)-1].PkScript[10] ^= 1
		d.SkipCommitment = true
		return true
	})
	add("witness:no-commitment", E, "bc:unexpected-witness", func(x *ctx, d *chaingen.Draft) bool {
		c, ok := witnessSpend(x)
		if !ok {
			return false
		}
		addTx(d, x.spend(c, 0, nil), 0)
		d.SkipCommitment = true
		return true
	})
	add("witness:nonce-31-bytes", E, "bc:witness-commitment", func(x *ctx, d *chaingen.Draft) bool {
		c, ok := witnessSpend(x)
		if !ok {
			return false
		}
		addTx(d, x.spend(c, 0, nil), 0)
		d.Finalize(true)
		d.Msg.Transactions[0].TxIn[0].Witness = wire.TxWitness{make([]byte, 31)}
		d.SkipCommitment = true
		return true
	})
	add("witness:valid-spend", V, "", func(x *ctx, d *chaingen.Draft) bool {
		c, ok := witnessSpend(x)
		if !ok {
			return false
		}
		addTx(d, x.spend(c, 0, nil), 0)
		return true
	})
	// ---- connect time
	add("inputs:nonexistent", C, "cv:missing-input", func(x *ctx, d *chaingen.Draft) bool {
		tx := wire.NewMsgTx(1)
		var h chainhash.Hash
		x.r.Fill(h[:])
		tx.AddTxIn(&wire.TxIn{PreviousOutPoint: wire.OutPoint{Hash: h, Index: 0}, Sequence: 0xffffffff})
		tx.AddTxOut(&wire.TxOut{Value: 1, PkScript: []byte{0x51}})
		d.Msg.Transactions = append(d.Msg.Transactions, tx)
		return true
	})
	add("inputs:spent-in-ancestor", C, "cv:missing-input", func(x *ctx, d *chaingen.Draft) bool {
		for n := d.Parent; n != nil && n.Parent != nil; n = n.Parent {
			for _, t := range n.Msg.Transactions[1:] {
				tx := wire.NewMsgTx(1)
				tx.AddTxIn(&wire.TxIn{PreviousOutPoint: t.TxIn[0].PreviousOutPoint, Sequence: 0xffffffff})
				tx.AddTxOut(&wire.TxOut{Value: 1, PkScript: []byte{0x51}})
				d.Msg.Transactions = append(d.Msg.Transactions, tx)
				return true
			}
		}
		return false
	})
	add("inputs:double-spend-in-block", C, "cv:missing-input", func(x *ctx, d *chaingen.Draft) bool {
		c, ok := x.anyCoin()
		if !ok {
			return false
		}
		addTx(d, x.spend(c, 0, nil), 0)
		addTx(d, x.spend(c, 0, func(tx *wire.MsgTx) { tx.TxOut[0].PkScript = []byte{0x51, 0x51} }), 0)
		return true
	})
	add("inputs:spend-before-create", C, "cv:missing-input", func(x *ctx, d *chaingen.Draft) bool {
		c, ok := x.anyCoin()
		if !ok {
			return false
		}
		t1 := x.spend(c, 0, nil)
		child := chaingen.Spendable{Op: wire.OutPoint{Hash: t1.TxHash(), Index: 0}, Coin: refchain.Coin{Amount: t1.TxOut[0].Value, PkScript: t1.TxOut[0].PkScript}}
		t2 := x.spend(child, 0, nil)
		d.Msg.Transactions = append(d.Msg.Transactions, t2, t1)
		return true
	})
	add("inputs:spend-after-create", V, "", func(x *ctx, d *chaingen.Draft) bool {
		c, ok := x.anyCoin()
		if !ok {
			return false
		}
		t1 := x.spend(c, 0, nil)
		child := chaingen.Spendable{Op: wire.OutPoint{Hash: t1.TxHash(), Index: 0}, Coin: refchain.Coin{Amount: t1.TxOut[0].Value, PkScript: t1.TxOut[0].PkScript}}
		t2 := x.spend(child, 0, nil)
		d.Msg.Transactions = append(d.Msg.Transactions, t1, t2)
		return true
	})
	add("inputs:genesis-coinbase", C, "cv:missing-input", func(x *ctx, d *chaingen.Draft) bool {
		gcb := x.g.Tree.Genesis.Msg.Transactions[0]
		tx := wire.NewMsgTx(1)
		tx.AddTxIn(&wire.TxIn{PreviousOutPoint: wire.OutPoint{Hash: gcb.TxHash(), Index: 0}, Sequence: 0xffffffff})
		tx.AddTxOut(&wire.TxOut{Value: 1, PkScript: []byte{0x51}})
		d.Msg.Transactions = append(d.Msg.Transactions, tx)
		return true
	})
	maturity := func(delta int32) func(x *ctx, d *chaingen.Draft) bool {
		return func(x *ctx, d *chaingen.Draft) bool {
			// the coinbase created at height d.Height - maturity - delta
			m := int32(x.g.P.CoinbaseMaturity)
			h := d.Height - m - delta
			anc := d.Parent.Ancestor(h)
			if anc == nil || anc.Parent == nil {
				return false
			}
			cb := anc.Msg.Transactions[0]
			op := wire.OutPoint{Hash: cb.TxHash(), Index: 0}
			coin, ok := d.Parent.Utxo()[op]
			if !ok || !x.g.CanSpend(coin.PkScript) {
				return false
			}
			addTx(d, x.spend(chaingen.Spendable{Op: op, Coin: coin}, 0, nil), 0)
			return true
		}
	}
	add("maturity:exact", V, "", maturity(0))
	add("maturity:one-short", C, "cv:immature-spend", maturity(-1))
	add("value:outputs-exceed-inputs", C, "cv:spend-too-high", func(x *ctx, d *chaingen.Draft) bool {
		c, ok := x.anyCoin()
		if !ok {
			return false
		}
		tx := x.spend(c, -1, nil) // output = input + 1
		d.Msg.Transactions = append(d.Msg.Transactions, tx)
		return true
	})
	add("value:zero-fee", V, "", func(x *ctx, d *chaingen.Draft) bool {
		c, ok := x.anyCoin()
		if !ok {
			return false
		}
		addTx(d, x.spend(c, 0, nil), 0)
		return true
	})
	add("coinbase:subsidy+fees", V, "", func(x *ctx, d *chaingen.Draft) bool {
		c, ok := x.anyCoin()
		if !ok {
			return false
		}
		fee := int64(1 + x.r.Intn(5000))
		if fee > c.Coin.Amount {
			fee = c.Coin.Amount
		}
		addTx(d, x.spend(c, fee, nil), fee)
		return true
	})
	add("coinbase:subsidy+fees+1", C, "cv:coinbase-overpay", func(x *ctx, d *chaingen.Draft) bool {
		c, ok := x.anyCoin()
		if ok {
			fee := int64(x.r.Intn(5000))
			if fee > c.Coin.Amount {
				fee = c.Coin.Amount
			}
			addTx(d, x.spend(c, fee, nil), fee)
		}
		d.Msg.Transactions[0].TxOut[0].Value++
		return true
	})
	add("coinbase:underpay", V, "", func(x *ctx, d *chaingen.Draft) bool {
		d.Msg.Transactions[0].TxOut[0].Value -= int64(1 + x.r.Intn(1000))
		return true
	})
	add("coinbase:pre-halving-subsidy", C, "cv:coinbase-overpay", func(x *ctx, d *chaingen.Draft) bool {
		iv := x.g.P.SubsidyReductionInterval
		if d.Height%iv != 0 {
			return false
		}
		d.Msg.Transactions[0].TxOut[0].Value = refchain.Subsidy(d.Height-1, iv)
		return true
	})
	bip68 := func(delta int32) func(x *ctx, d *chaingen.Draft) bool {
		return func(x *ctx, d *chaingen.Draft) bool {
			c, ok := x.coinOfKind(func(c chaingen.Spendable) bool { return d.Height-c.Coin.Height < 60000 })
			if !ok || !x.g.Witness {
				return false
			}
			n := d.Height - c.Coin.Height + delta
			if n < 0 {
				return false
			}
			addTx(d, x.spend(c, 0, func(tx *wire.MsgTx) { tx.Version = 2; tx.TxIn[0].Sequence = uint32(n) }), 0)
			return true
		}
	}
	add("bip68:height-lock-met", V, "", bip68(0))
	add("bip68:height-lock-one-short", C, "cv:sequence-lock", bip68(1))
	add("bip68:disabled-flag", V, "", func(x *ctx, d *chaingen.Draft) bool {
		c, ok := x.anyCoin()
		if !ok {
			return false
		}
		addTx(d, x.spend(c, 0, func(tx *wire.MsgTx) { tx.Version = 2; tx.TxIn[0].Sequence = 1<<31 | 0xffff }), 0)
		return true
	})
	add("bip68:version-1-ignored", V, "", func(x *ctx, d *chaingen.Draft) bool {
		c, ok := x.anyCoin()
		if !ok {
			return false
		}
		addTx(d, x.spend(c, 0, func(tx *wire.MsgTx) { tx.Version = 1; tx.TxIn[0].Sequence = 0xffff }), 0)
		return true
	})
	scriptFail := func(pred func(pk []byte) bool, rule string) func(x *ctx, d *chaingen.Draft) bool {
		return func(x *ctx, d *chaingen.Draft) bool {
			c, ok := x.coinOfKind(func(c chaingen.Spendable) bool { return pred(c.Coin.PkScript) })
			if !ok {
				return false
			}
			tx := x.spend(c, 0, nil)
			// flip one bit inside the signature
			if len(tx.TxIn[0].Witness) > 0 {
				w := append([]byte{}, tx.TxIn[0].Witness[0]...)
				w[len(w)/2] ^= 0x04
				tx.TxIn[0].Witness[0] = w
			} else {
				s := append([]byte{}, tx.TxIn[0].SignatureScript...)
				s[len(s)/3+4] ^= 0x04
				tx.TxIn[0].SignatureScript = s
			}
			d.Msg.Transactions = append(d.Msg.Transactions, tx)
			return true
		}
	}
	add("script:p2pkh-bad-sig", C, "cv:script", scriptFail(func(pk []byte) bool { return len(pk) == 25 && pk[0] == 0x76 }, ""))
	add("script:p2wpkh-bad-sig", C, "cv:script", scriptFail(func(pk []byte) bool { return len(pk) == 22 && pk[0] == 0x00 }, ""))
	add("script:p2tr-bad-sig", C, "cv:script", scriptFail(func(pk []byte) bool { return len(pk) == 34 && pk[0] == 0x51 }, ""))
	add("script:p2pk-bad-sig", C, "cv:script", scriptFail(func(pk []byte) bool { return len(pk) == 35 && pk[34] == 0xac }, ""))
	add("script:p2sh-wrong-redeem", C, "cv:script", func(x *ctx, d *chaingen.Draft) bool {
		c, ok := x.coinOfKind(func(c chaingen.Spendable) bool { return len(c.Coin.PkScript) == 23 && c.Coin.PkScript[0] == 0xa9 })
		if !ok {
			return false
		}
		tx := x.spend(c, 0, nil)
		tx.TxIn[0].SignatureScript = []byte{0x01, 0x52}
		d.Msg.Transactions = append(d.Msg.Transactions, tx)
		return true
	})
	add("script:valid-mix", V, "", func(x *ctx, d *chaingen.Draft) bool {
		n := 0
		for _, i := range x.r.Perm(len(x.coins)) {
			if n >= 4 {
				break
			}
			addTx(d, x.spend(x.coins[i], 0, nil), 0)
			n++
		}
		return n > 0
	})
	return append(rs, catalogue2()...)
}
