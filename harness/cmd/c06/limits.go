package main

import (
	"bytes"

	"verif/mon"
	rs "verif/ref/refscript"
)

// limitPlan builds a spend that sits exactly on / next to one consensus bound.
func limitPlan(r *mon.Rand) (*plan, string) {
	p := &plan{}
	rep := func(op byte, n int) []byte { return bytes.Repeat([]byte{op}, n) }
	around := func(limit int) int { return limit + r.Intn(3) - 1 }
	pickCtx := func(cs ...int) {
		p.ctx = cs[r.Intn(len(cs))]
		if p.ctx == ctxTapscript {
			p.randTaproot(r)
			p.annex = nil
		}
	}
	switch r.Intn(13) {
	case 12: // empty committed script: the initial stack alone decides
		pickCtx(ctxBare, ctxP2SH, ctxP2WSH, ctxP2SHP2WSH, ctxTapscript)
		p.script = []byte{}
		for i := r.Intn(3); i > 0; i-- {
			p.junk = append(p.junk, boolForms[r.Intn(len(boolForms))])
		}
		return p, "empty-script"
	case 0: // combined stack depth 999/1000/1001 built by pushes (+ altstack share), result on top
		pickCtx(ctxBare, ctxP2WSH, ctxTapscript)
		t := around(rs.MaxStackSize)
		nInit := 0
		if p.ctx != ctxBare && r.Bool() {
			nInit = r.Intn(400)
		}
		for i := 0; i < nInit; i++ {
			p.junk = append(p.junk, []byte{1})
		}
		nAlt := 0
		if r.Bool() {
			nAlt = r.Intn(90)
		}
		var sc []byte
		sc = append(sc, rep(rs.OP_1, t-nInit)...)
		for i := 0; i < nAlt; i++ {
			sc = append(sc, rs.OP_TOALTSTACK)
		}
		if p.ctx == ctxTapscript {
			// unwind so that a clean stack is possible: no op limit in tapscript
			for i := 0; i < nAlt; i++ {
				sc = append(sc, rs.OP_FROMALTSTACK)
			}
			left := t - 1
			for ; left >= 2; left -= 2 {
				sc = append(sc, rs.OP_2DROP)
			}
			if left == 1 {
				sc = append(sc, rs.OP_NIP)
			}
		}
		p.script = sc
		return p, "stack-depth"
	case 1: // initial witness stack of 999..1001 items in tapscript / p2wsh
		pickCtx(ctxTapscript, ctxP2WSH)
		t := around(rs.MaxStackSize)
		for i := 0; i < t; i++ {
			p.junk = append(p.junk, []byte{})
		}
		var sc []byte
		if p.ctx == ctxTapscript {
			for left := t; left >= 2; left -= 2 {
				sc = append(sc, rs.OP_2DROP)
			}
			if t%2 == 1 {
				sc = append(sc, rs.OP_DROP)
			}
		}
		sc = append(sc, rs.OP_1)
		p.script = sc
		return p, "initial-stack"
	case 2: // op count 200/201/202, partly in a non-executed branch, partly via multisig keys
		pickCtx(ctxBare, ctxP2SH, ctxP2WSH, ctxTapscript)
		t := around(rs.MaxOpsPerScript)
		var sc []byte
		switch r.Intn(3) {
		case 0:
			sc = append(sc, rep(rs.OP_NOP, t)...)
			sc = append(sc, rs.OP_1)
		case 1: // 0 IF <t-2 skipped ops> ENDIF 1
			sc = append(sc, rs.OP_0, rs.OP_IF)
			sc = append(sc, rep(rs.OP_NOP, t-2)...)
			sc = append(sc, rs.OP_ENDIF, rs.OP_1)
		default: // NOPs + 0 0 <n keys> n CHECKMULTISIG NOT: 1 + n ops from the multisig
			n := r.Intn(21)
			if p.ctx == ctxTapscript {
				n = 0
			}
			nops := t - 2 - n
			if nops < 0 {
				nops = 0
			}
			sc = append(sc, rep(rs.OP_NOP, nops)...)
			sc = append(sc, rs.OP_0, rs.OP_0)
			for i := 0; i < n; i++ {
				sc = append(sc, rs.OP_0)
			}
			sc = append(sc, rs.PushInt(int64(n))...)
			sc = append(sc, rs.OP_CHECKMULTISIG, rs.OP_NOT)
		}
		p.script = sc
		return p, "op-count"
	case 3: // pushed element of 519..521 bytes, executed or skipped
		pickCtx(ctxBare, ctxP2WSH, ctxTapscript)
		n := around(rs.MaxScriptElementSize)
		push := append([]byte{rs.OP_PUSHDATA2, byte(n), byte(n >> 8)}, r.Bytes(n)...)
		var sc []byte
		if r.Bool() {
			sc = append(sc, push...)
			sc = append(sc, rs.OP_DROP, rs.OP_1)
		} else {
			sc = append(sc, rs.OP_0, rs.OP_IF)
			sc = append(sc, push...)
			sc = append(sc, rs.OP_ENDIF, rs.OP_1)
		}
		p.script = sc
		return p, "push-size"
	case 4: // initial stack element of 519..521 bytes (scriptSig push / witness item)
		pickCtx(ctxBare, ctxP2SH, ctxP2WSH, ctxP2SHP2WSH, ctxTapscript)
		n := around(rs.MaxScriptElementSize)
		p.consumed = []slot{{lit: r.Bytes(n)}}
		p.script = []byte{rs.OP_DROP, rs.OP_1}
		if r.Chance(1, 4) { // OP_SUCCESS overrides even the element-size rule in tapscript
			p.script = []byte{rs.OP_DROP, rs.OP_1, 0x50}
		}
		return p, "initial-elem-size"
	case 5: // script size 9999..10001 (no size bound in tapscript), P2SH redeem script 519..521
		pickCtx(ctxBare, ctxP2WSH, ctxTapscript, ctxP2SH)
		limit := rs.MaxScriptSize
		if p.ctx == ctxP2SH {
			limit = rs.MaxScriptElementSize
		}
		t := around(limit)
		var sc []byte
		for len(sc)+524 <= t-1 {
			sc = append(sc, rs.OP_PUSHDATA2, 520&0xff, 520>>8)
			sc = append(sc, r.Bytes(520)...)
			sc = append(sc, rs.OP_DROP)
		}
		rem := t - 1 - len(sc)
		for rem > 0 {
			switch {
			case rem >= 4:
				k := min(rem-3, 255)
				sc = append(sc, rs.OP_PUSHDATA1, byte(k))
				sc = append(sc, r.Bytes(k)...)
				sc = append(sc, rs.OP_DROP)
				rem -= k + 3
			default:
				sc = append(sc, rs.OP_NOP)
				rem--
			}
		}
		sc = append(sc, rs.OP_1)
		p.script = sc
		return p, "script-size"
	case 6: // scriptSig size 9999..10001
		p.ctx = ctxBare
		t := around(rs.MaxScriptSize)
		p.script = []byte{rs.OP_DEPTH} // any non-empty stack is true-ish
		p.post = append(p.post, func(s *spend) {
			var ss []byte
			for len(ss)+523 <= t {
				ss = append(ss, rs.OP_PUSHDATA2, 520&0xff, 520>>8)
				ss = append(ss, r.Bytes(520)...)
			}
			for len(ss) < t {
				ss = append(ss, rs.OP_1)
			}
			s.tx.In[s.idx].ScriptSig = ss
		})
		return p, "scriptsig-size"
	case 7: // numeric operand width: 4-byte accepted, 5-byte rejected, 5-byte results allowed
		pickCtx(ctxBare, ctxP2SH, ctxP2WSH, ctxTapscript)
		b := newBuilder(r, p.ctx)
		vals := []int64{2147483647, -2147483647, 2147483648, -2147483648, 2147483646, 1, -1, 0}
		a, c := vals[r.Intn(len(vals))], vals[r.Intn(len(vals))]
		b.raw(rs.PushData(rs.NumSerialize(a)))
		b.raw(rs.PushData(rs.NumSerialize(c)))
		b.op(binaryOps[r.Intn(len(binaryOps))])
		if r.Bool() {
			b.op(unaryOps[r.Intn(len(unaryOps))])
		}
		b.op(rs.OP_DROP, rs.OP_1)
		p.script = b.b
		return p, "num-width"
	case 8: // CHECKMULTISIG key / signature counts 19..21, -1
		pickCtx(ctxBare, ctxP2WSH)
		n := around(rs.MaxPubKeysPerMulti)
		m := []int{0, 1, n, n + 1, -1}[r.Intn(5)]
		var sc []byte
		sc = append(sc, rs.OP_0)
		for i := 0; i < max(m, 0); i++ {
			sc = append(sc, rs.OP_0)
		}
		sc = append(sc, rs.PushInt(int64(m))...)
		for i := 0; i < n; i++ {
			sc = append(sc, rs.OP_0)
		}
		sc = append(sc, rs.PushInt(int64(n))...)
		sc = append(sc, rs.OP_CHECKMULTISIG, rs.OP_NOT)
		p.script = sc
		return p, "multisig-counts"
	case 9: // control block with 127..129 path nodes
		p.ctx = ctxTapscript
		p.internal = newKey(r)
		p.leafVer = rs.TaprootLeafTapscript
		for i := around(rs.TaprootControlMaxNode); i > 0; i-- {
			var n [32]byte
			r.Fill(n[:])
			p.path = append(p.path, n)
		}
		p.script = []byte{rs.OP_1}
		return p, "control-depth"
	case 10: // tapscript signature-operation budget: one signature checked k times, budget tuned by a pad item
		p.ctx = ctxTapscript
		p.randTaproot(r)
		p.path = nil
		p.annex = nil
		b := newBuilder(r, ctxTapscript)
		q := b.newSigReq(true)
		q.hashType, q.signType = 0, 0
		pk := q.k.xonly()
		k := 2 + r.Intn(6)
		build := func() []byte {
			bb := newBuilder(r, ctxTapscript)
			bb.raw(rs.PushData(pk))
			for i := 0; i < k; i++ {
				bb.op(rs.OP_2DUP, rs.OP_CHECKSIGVERIFY)
			}
			bb.op(rs.OP_2DROP, rs.OP_DROP, rs.OP_1)
			return bb.b
		}
		sc := build()
		// budget after k checks = 50 + serialized witness size - 50k; aim at -1, 0, 1, 49 or 50
		target := []int64{-1, 0, 0, 1, 49, 50}[r.Intn(6)]
		base := rs.WitnessSerializeSize([][]byte{{}, make([]byte, 64), sc, make([]byte, 33)})
		padLen := int64(50*k) - 50 + target - base
		for padLen < 0 {
			k++
			sc = build()
			base = rs.WitnessSerializeSize([][]byte{{}, make([]byte, 64), sc, make([]byte, 33)})
			padLen = int64(50*k) - 50 + target - base
		}
		if padLen > 252 {
			padLen = 252
		}
		pad := r.Bytes(int(padLen))
		p.script = sc
		p.consumed = []slot{{sig: q}}
		p.junk = [][]byte{pad}
		return p, "sigops-budget"
	default: // PICK / ROLL index at the depth boundary
		pickCtx(ctxBare, ctxP2WSH, ctxTapscript)
		n := 1 + r.Intn(5)
		var sc []byte
		for i := 0; i < n; i++ {
			sc = append(sc, rs.OP_1)
		}
		idx := int64(n + r.Intn(3) - 1) // n-1 is the deepest valid index
		sc = append(sc, rs.PushInt(idx)...)
		if r.Bool() {
			sc = append(sc, rs.OP_PICK)
			n++
		} else {
			sc = append(sc, rs.OP_ROLL)
		}
		for i := 0; i < n-1; i++ {
			sc = append(sc, rs.OP_DROP)
		}
		p.script = sc
		return p, "pick-roll-depth"
	}
}
