package main

import (
	"verif/mon"
	rs "verif/ref/refscript"

	"github.com/btcsuite/btcd/txscript/v2"
)

// historySets are the flag sets blockchain.checkConnectBlock builds along the main-chain
// activation history: BIP16 -> BIP66 -> BIP65 -> CSV -> segwit(+NULLDUMMY) -> taproot.
var historySets = func() []rs.Flags {
	steps := []rs.Flags{0, rs.P2SH, rs.DERSIG, rs.CHECKLOCKTIMEVERIFY, rs.CHECKSEQUENCEVERIFY, rs.WITNESS | rs.NULLDUMMY, rs.TAPROOT}
	var out []rs.Flags
	var f rs.Flags
	for _, s := range steps {
		f |= s
		out = append(out, f)
	}
	return out
}()

// standardFlags is txscript.StandardVerifyFlags translated through the 1:1 map (read from btcd so
// that the relay set under test is the one the node really uses).
var standardFlags = fromBtcdFlags(txscript.StandardVerifyFlags)

type flagChoice struct {
	f     rs.Flags
	class string // "consensus", "standard", "toggle"
	name  string
}

// pickFlags draws a flag set: history sets (weighted to the later ones), the standard set, or a
// single-flag toggle of one of those. Invalid combinations (Core asserts / btcd ErrInvalidFlags)
// are re-drawn.
func pickFlags(r *mon.Rand) flagChoice {
	for {
		var base rs.Flags
		var fc flagChoice
		switch r.Intn(10) {
		case 0, 1, 2:
			i := r.Intn(len(historySets))
			base = historySets[i]
			fc = flagChoice{class: "consensus", name: "hist" + string(rune('0'+i))}
		case 3, 4:
			base = historySets[len(historySets)-1]
			fc = flagChoice{class: "consensus", name: "hist6"}
		case 5, 6, 7:
			base = standardFlags
			fc = flagChoice{class: "standard", name: "std"}
		default:
			var bn string
			if r.Bool() {
				base, bn = standardFlags, "std"
			} else {
				i := r.Intn(len(historySets))
				base, bn = historySets[i], "hist"+string(rune('0'+i))
			}
			bit := rs.Flags(1) << uint(r.Intn(21))
			base ^= bit
			fc = flagChoice{class: "toggle", name: bn + "^" + bit.String()}
		}
		if !base.ValidCombination() {
			continue
		}
		fc.f = base
		return fc
	}
}
