package main

import (
	"crypto/sha256"

	"verif/mon"
	rs "verif/ref/refscript"
)

// extra contexts beyond the script-carrying ones of gen.go
const (
	ctxP2WPKH = ctxCount + iota
	ctxP2SHP2WPKH
	ctxTapKey
	ctxRawWitness // arbitrary witness program (future versions, P2A, wrong lengths), optionally P2SH wrapped
)

func ctxName(c int) string {
	if c < ctxCount {
		return ctxNames[c]
	}
	return []string{"p2wpkh", "p2sh-p2wpkh", "p2tr-key", "raw-witness"}[c-ctxCount]
}

// plan is everything needed to assemble one spend.
type plan struct {
	ctx      int
	script   []byte // program: pkScript (bare), redeem script, witness script or tapleaf script
	consumed []slot // initial stack, top first
	junk     [][]byte

	// taproot
	internal    *key
	path        [][32]byte
	leafVer     byte
	annex       []byte
	annexSigned bool

	// single-key contexts
	keySig  *sigReq
	keyForm int

	// raw witness program
	rawProgram []byte
	rawP2SH    bool
	rawWitness [][]byte

	muts []string // mutations applied (evidence)

	// pre runs on the transaction before signing, post after assembly
	pre  func(s *spend)
	post []func(s *spend)
}

func (p *plan) mut(m string) { p.muts = append(p.muts, m) }

func p2shScript(redeem []byte) []byte {
	out := []byte{rs.OP_HASH160, 20}
	out = append(out, rs.Hash160(redeem)...)
	return append(out, rs.OP_EQUAL)
}

func p2wshScript(ws []byte) []byte {
	h := sha256.Sum256(ws)
	return append([]byte{0, 32}, h[:]...)
}

func p2pkhScript(pub []byte) []byte {
	out := []byte{rs.OP_DUP, rs.OP_HASH160, 20}
	out = append(out, rs.Hash160(pub)...)
	return append(out, rs.OP_EQUALVERIFY, rs.OP_CHECKSIG)
}

// pushMinimal is the minimal push encoding of data (what MINIMALDATA demands).
func pushMinimal(data []byte) []byte {
	if len(data) == 1 && data[0] >= 1 && data[0] <= 16 {
		return []byte{rs.OP_1 - 1 + data[0]}
	}
	if len(data) == 1 && data[0] == 0x81 {
		return []byte{rs.OP_1NEGATE}
	}
	return rs.PushData(data)
}

func (p *plan) merkleRoot() []byte {
	if p.ctx == ctxTapKey && p.script == nil {
		return nil
	}
	leaf := rs.TapLeafHash(p.leafVer, p.script)
	k := leaf
	for _, n := range p.path {
		k = rs.TapBranchHash(k, n)
	}
	return k[:]
}

func (p *plan) controlBlock() []byte {
	q, odd, _ := rs.TapTweakOutput(p.internal.xonly(), p.merkleRoot())
	_ = q
	c0 := p.leafVer
	if odd {
		c0 |= 1
	}
	cb := append([]byte{c0}, p.internal.xonly()...)
	for _, n := range p.path {
		cb = append(cb, n[:]...)
	}
	return cb
}

// pkScript is the previous output script this plan spends.
func (p *plan) pkScript() []byte {
	switch p.ctx {
	case ctxBare:
		return p.script
	case ctxP2SH:
		return p2shScript(p.script)
	case ctxP2WSH:
		return p2wshScript(p.script)
	case ctxP2SHP2WSH:
		return p2shScript(p2wshScript(p.script))
	case ctxTapscript, ctxTapKey:
		q, _, ok := rs.TapTweakOutput(p.internal.xonly(), p.merkleRoot())
		if !ok {
			return append([]byte{rs.OP_1, 32}, make([]byte, 32)...)
		}
		return append([]byte{rs.OP_1, 32}, q[:]...)
	case ctxP2WPKH:
		return append([]byte{0, 20}, rs.Hash160(p.keySig.k.form(p.keyForm))...)
	case ctxP2SHP2WPKH:
		return p2shScript(append([]byte{0, 20}, rs.Hash160(p.keySig.k.form(p.keyForm))...))
	case ctxRawWitness:
		if p.rawP2SH {
			return p2shScript(p.rawProgram)
		}
		return p.rawProgram
	}
	return nil
}

// makeSig produces the bytes of one signature request for the final transaction.
func (p *plan) makeSig(r *mon.Rand, q *sigReq, s *spend) []byte {
	k := q.k
	if q.wrongKey {
		k = newKey(r)
	}
	if q.schnorr {
		var annex []byte
		if p.annex != nil && p.annexSigned {
			annex = p.annex
		}
		var leaf *[32]byte
		if p.ctx == ctxTapscript {
			l := rs.TapLeafHash(p.leafVer, p.script)
			leaf = &l
		}
		h, ok := rs.TaprootSigHash(s.tx, s.idx, q.signType, s.spent, annex, leaf, q.codesepPos)
		var sig []byte
		if ok {
			sig = k.signSchnorr(h)
		} else {
			sig = r.Bytes(64)
		}
		if q.flipBit {
			sig[r.Intn(64)] ^= 1 << uint(r.Intn(8))
		}
		if q.hashType != 0 {
			sig = append(sig, q.hashType)
		}
		return sig
	}
	var h [32]byte
	switch p.ctx {
	case ctxP2WSH, ctxP2SHP2WSH:
		h = rs.WitnessV0SigHash(p.script[q.codeStart:], s.tx, s.idx, uint32(q.signType), s.spent[s.idx].Value)
	case ctxP2WPKH, ctxP2SHP2WPKH:
		h = rs.WitnessV0SigHash(p2pkhScript(q.k.form(p.keyForm)), s.tx, s.idx, uint32(q.signType), s.spent[s.idx].Value)
	default:
		h = rs.LegacySigHash(p.script[q.codeStart:], s.tx, s.idx, uint32(q.signType))
	}
	rr, ss := k.signECDSA(h)
	if q.enc == encEmpty {
		return []byte{}
	}
	return append(encodeECDSA(r, rr, ss, q.enc), q.hashType)
}

// assemble signs and fills scriptSig / witness of s.tx.In[s.idx]; s.spent[s.idx] must already
// hold p.pkScript().
func (p *plan) assemble(r *mon.Rand, s *spend) {
	in := &s.tx.In[s.idx]
	in.ScriptSig = nil
	in.Witness = nil
	var init [][]byte
	init = append(init, p.junk...)
	for i := len(p.consumed) - 1; i >= 0; i-- {
		c := p.consumed[i]
		if c.sig != nil {
			init = append(init, p.makeSig(r, c.sig, s))
		} else {
			init = append(init, c.lit)
		}
	}
	pushes := func(items [][]byte) []byte {
		var out []byte
		for _, it := range items {
			out = append(out, pushMinimal(it)...)
		}
		return out
	}
	switch p.ctx {
	case ctxBare:
		in.ScriptSig = pushes(init)
	case ctxP2SH:
		in.ScriptSig = append(pushes(init), pushMinimal(p.script)...)
	case ctxP2WSH:
		in.Witness = append(init, p.script)
	case ctxP2SHP2WSH:
		in.ScriptSig = rs.PushData(p2wshScript(p.script))
		in.Witness = append(init, p.script)
	case ctxTapscript:
		in.Witness = append(init, p.script, p.controlBlock())
		if p.annex != nil {
			in.Witness = append(in.Witness, p.annex)
		}
	case ctxTapKey:
		in.Witness = [][]byte{p.makeSig(r, p.keySig, s)}
		if p.annex != nil {
			in.Witness = append(in.Witness, p.annex)
		}
	case ctxP2WPKH, ctxP2SHP2WPKH:
		pub := p.keySig.k.form(p.keyForm)
		in.Witness = [][]byte{p.makeSig(r, p.keySig, s), pub}
		if p.ctx == ctxP2SHP2WPKH {
			in.ScriptSig = rs.PushData(append([]byte{0, 20}, rs.Hash160(pub)...))
		}
	case ctxRawWitness:
		in.Witness = p.rawWitness
		if p.rawP2SH {
			in.ScriptSig = rs.PushData(p.rawProgram)
		}
	}
	for _, f := range p.post {
		f(s)
	}
}

// ---- transaction context ----

var lockTimes = []uint32{0, 1, 100, 499999999, 500000000, 500000001, 0xffffffff, 0x7fffffff, 0x80000000}
var sequences = []uint32{0xffffffff, 0xfffffffe, 0, 1, 0xffff, 0x10000, 1 << 22, 1<<22 | 1, 1<<22 | 0xffff, 1 << 31, 1<<31 | 1, 0x7fffffff}
var versions = []int32{1, 2, 2, 2, 0, -1, 3, 0x7fffffff, -0x80000000}

func randOtherScript(r *mon.Rand) []byte {
	switch r.Intn(4) {
	case 0:
		return append([]byte{rs.OP_1, 32}, r.Bytes(32)...)
	case 1:
		return append([]byte{0, 20}, r.Bytes(20)...)
	case 2:
		return p2pkhScript(r.Bytes(33))
	default:
		return r.Bytes(r.Intn(40))
	}
}

func randAmount(r *mon.Rand) int64 {
	switch r.Intn(6) {
	case 0:
		return 0
	case 1:
		return 21e14
	case 2:
		return int64(r.Intn(100000))
	default:
		return r.Int63n(21e14)
	}
}

// randTx builds a transaction skeleton and picks the input under test.
func randTx(r *mon.Rand) *spend {
	tx := &rs.Tx{}
	tx.Version = versions[r.Intn(len(versions))]
	if r.Chance(1, 10) {
		tx.Version = int32(r.Uint32())
	}
	nin := 1
	if r.Chance(1, 2) {
		nin = 1 + r.Intn(4)
	}
	s := &spend{tx: tx}
	for i := 0; i < nin; i++ {
		var in rs.TxIn
		r.Fill(in.PrevHash[:])
		in.PrevIndex = uint32(r.Intn(4))
		in.Sequence = sequences[r.Intn(len(sequences))]
		if r.Chance(1, 8) {
			in.Sequence = r.Uint32()
		}
		in.ScriptSig = r.Bytes(r.Intn(8))
		tx.In = append(tx.In, in)
		s.spent = append(s.spent, rs.TxOut{Value: randAmount(r), PkScript: randOtherScript(r)})
	}
	nout := 1 + r.Intn(3)
	if r.Chance(1, 12) {
		nout = 0
	}
	for i := 0; i < nout; i++ {
		tx.Out = append(tx.Out, rs.TxOut{Value: randAmount(r), PkScript: randOtherScript(r)})
	}
	tx.LockTime = lockTimes[r.Intn(len(lockTimes))]
	if r.Chance(1, 6) {
		tx.LockTime = r.Uint32()
	}
	s.idx = r.Intn(nin)
	return s
}

// ---- taproot tree helpers ----

func (p *plan) randTaproot(r *mon.Rand) {
	p.internal = newKey(r)
	p.leafVer = rs.TaprootLeafTapscript
	depth := 0
	switch r.Intn(8) {
	case 0, 1, 2:
		depth = 0
	case 3, 4:
		depth = 1
	case 5:
		depth = 2 + r.Intn(3)
	case 6:
		depth = r.Intn(8)
	default:
		if r.Chance(1, 6) {
			depth = 127 + r.Intn(2)
		}
	}
	for i := 0; i < depth; i++ {
		var n [32]byte
		r.Fill(n[:])
		p.path = append(p.path, n)
	}
	if r.Chance(1, 8) {
		p.annex = append([]byte{rs.AnnexTag}, r.Bytes(r.Intn(20))...)
		p.annexSigned = true
		p.mut("annex")
	}
}

// ---- standard templates ----

// standardPlan builds a well-formed spend of one of the standard output types.
func standardPlan(r *mon.Rand) (*plan, string) {
	p := &plan{}
	newReq := func(schnorr bool) *sigReq {
		b := newBuilder(r, ctxBare)
		return b.newSigReq(schnorr)
	}
	scriptCtx := func() int { return []int{ctxBare, ctxP2SH, ctxP2WSH, ctxP2SHP2WSH}[r.Intn(4)] }
	keyForm := func() int {
		if r.Chance(1, 4) {
			return r.Intn(3)
		}
		return 0
	}
	switch r.Intn(12) {
	case 0: // P2PK
		p.ctx = scriptCtx()
		q := newReq(false)
		p.script = append(rs.PushData(q.k.form(keyForm())), rs.OP_CHECKSIG)
		p.consumed = []slot{{sig: q}}
		return p, "p2pk"
	case 1: // P2PKH
		p.ctx = scriptCtx()
		q := newReq(false)
		pub := q.k.form(keyForm())
		p.script = p2pkhScript(pub)
		p.consumed = []slot{{lit: pub}, {sig: q}}
		return p, "p2pkh"
	case 2, 3: // multisig
		p.ctx = scriptCtx()
		n := 1 + r.Intn(3)
		if r.Chance(1, 10) {
			n = 15 + r.Intn(6)
		}
		if p.ctx == ctxP2SH && n > 15 {
			n = 15 // redeem script push limit
		}
		m := 1 + r.Intn(min(n, 3))
		reqs := make([]*sigReq, n)
		var sc []byte
		sc = append(sc, rs.PushInt(int64(m))...)
		for i := range reqs {
			reqs[i] = newReq(false)
			sc = append(sc, rs.PushData(reqs[i].k.form(keyForm()))...)
		}
		sc = append(sc, rs.PushInt(int64(n))...)
		sc = append(sc, rs.OP_CHECKMULTISIG)
		p.script = sc
		signers := r.Perm(n)[:m]
		for i := 0; i < m; i++ {
			for j := i + 1; j < m; j++ {
				if signers[j] < signers[i] {
					signers[i], signers[j] = signers[j], signers[i]
				}
			}
		}
		for i := m - 1; i >= 0; i-- {
			p.consumed = append(p.consumed, slot{sig: reqs[signers[i]]})
		}
		p.consumed = append(p.consumed, slot{lit: []byte{}})
		return p, "multisig"
	case 4: // P2WPKH / P2SH-P2WPKH
		p.ctx = ctxP2WPKH
		if r.Bool() {
			p.ctx = ctxP2SHP2WPKH
		}
		p.keySig = newReq(false)
		p.keyForm = keyForm()
		return p, "p2wpkh"
	case 5, 6: // P2TR key path
		p.ctx = ctxTapKey
		p.internal = newKey(r)
		if r.Bool() { // with a script tree behind it
			p.script = []byte{rs.OP_1}
			p.leafVer = rs.TaprootLeafTapscript
		}
		q := newReq(true)
		q.k = p.internal.tweaked(p.merkleRoot())
		p.keySig = q
		if r.Chance(1, 8) {
			p.annex = append([]byte{rs.AnnexTag}, r.Bytes(r.Intn(20))...)
			p.annexSigned = true
			p.mut("annex")
		}
		return p, "p2tr-key"
	case 7, 8: // tapscript: single sig or CHECKSIGADD multisig
		p.ctx = ctxTapscript
		p.randTaproot(r)
		if r.Bool() {
			q := newReq(true)
			p.script = append(rs.PushData(q.k.xonly()), rs.OP_CHECKSIG)
			p.consumed = []slot{{sig: q}}
			return p, "tapscript-checksig"
		}
		n := 2 + r.Intn(3)
		m := 0
		var sc []byte
		var cons []slot
		for i := 0; i < n; i++ {
			q := newReq(true)
			sc = append(sc, rs.PushData(q.k.xonly())...)
			if i == 0 {
				sc = append(sc, rs.OP_CHECKSIG)
			} else {
				sc = append(sc, rs.OP_CHECKSIGADD)
			}
			if r.Chance(2, 3) {
				cons = append(cons, slot{sig: q})
				m++
			} else {
				cons = append(cons, slot{lit: []byte{}})
			}
		}
		sc = append(sc, rs.PushInt(int64(m))...)
		sc = append(sc, rs.OP_NUMEQUAL)
		p.script = sc
		p.consumed = cons
		return p, "tapscript-multi-a"
	case 9: // CLTV / CSV guarded key
		p.ctx = []int{ctxBare, ctxP2SH, ctxP2WSH, ctxP2SHP2WSH, ctxTapscript}[r.Intn(5)]
		if p.ctx == ctxTapscript {
			p.randTaproot(r)
		}
		q := newReq(p.ctx == ctxTapscript)
		pub := q.k.form(0)
		if p.ctx == ctxTapscript {
			pub = q.k.xonly()
		}
		var lockv int64
		var lockop byte
		if r.Bool() {
			lockop = rs.OP_CHECKLOCKTIMEVERIFY
			lockv = int64(lockTimes[r.Intn(len(lockTimes))])
		} else {
			lockop = rs.OP_CHECKSEQUENCEVERIFY
			lockv = int64(sequences[r.Intn(len(sequences))])
		}
		if r.Chance(1, 10) {
			lockv = -lockv
		}
		sc := rs.PushInt(lockv)
		sc = append(sc, lockop, rs.OP_DROP)
		sc = append(sc, rs.PushData(pub)...)
		sc = append(sc, rs.OP_CHECKSIG)
		p.script = sc
		p.consumed = []slot{{sig: q}}
		// make the transaction satisfy (or just miss) the lock
		p.post = nil
		pre := func(s *spend) {
			if lockv < 0 {
				return
			}
			d := int64(r.Intn(3)) - 1
			if lockop == rs.OP_CHECKLOCKTIMEVERIFY {
				v := lockv + d
				if v >= 0 && v <= 0xffffffff {
					s.tx.LockTime = uint32(v)
				}
				if r.Chance(3, 4) {
					s.tx.In[s.idx].Sequence = 0xfffffffe
				}
			} else {
				v := lockv + d
				if v >= 0 && v <= 0xffffffff {
					s.tx.In[s.idx].Sequence = uint32(v)
				}
				if r.Chance(3, 4) {
					s.tx.Version = 2
				}
			}
		}
		p.muts = append(p.muts, "locktime-template")
		p.pre = pre
		return p, "locktime"
	case 10: // arbitrary witness programs: future versions, P2A, v0 with odd lengths
		p.ctx = ctxRawWitness
		ver := byte(rs.OP_1 + r.Intn(16))
		if r.Chance(1, 4) {
			ver = rs.OP_0
		}
		n := 2 + r.Intn(39)
		if r.Chance(1, 3) {
			n = []int{2, 20, 32, 33, 40}[r.Intn(5)]
		}
		prog := r.Bytes(n)
		if r.Chance(1, 6) {
			prog = make([]byte, n) // all-zero program: false on the stack
		}
		if r.Chance(1, 6) {
			ver, prog = rs.OP_1, []byte{0x4e, 0x73} // P2A
		}
		p.rawP2SH = r.Chance(1, 3)
		if r.Chance(1, 5) {
			// taproot-shaped program (v1, 32 bytes): taproot rules apply to the native form only, the P2SH-wrapped
			// form stays an unencumbered unknown witness program (BIP341)
			ver, prog = rs.OP_1, r.Bytes(32)
			p.rawP2SH = r.Bool()
			p.mut("v1-32")
		}
		p.rawProgram = append([]byte{ver, byte(len(prog))}, prog...)
		for i := r.Intn(3); i > 0; i-- {
			p.rawWitness = append(p.rawWitness, r.Bytes(r.Intn(40)))
		}
		return p, "raw-witness"
	default: // key with OP_CODESEPARATOR in front of CHECKSIG
		p.ctx = []int{ctxBare, ctxP2SH, ctxP2WSH, ctxTapscript}[r.Intn(4)]
		if p.ctx == ctxTapscript {
			p.randTaproot(r)
		}
		b := newBuilder(r, p.ctx)
		if r.Bool() {
			b.op(rs.OP_NOP)
		}
		b.codesep()
		q := b.newSigReq(p.ctx == ctxTapscript)
		if p.ctx == ctxTapscript {
			b.raw(rs.PushData(q.k.xonly()))
		} else {
			b.raw(rs.PushData(q.k.form(0)))
		}
		b.op(rs.OP_CHECKSIG)
		p.script = b.b
		p.consumed = []slot{{sig: q}}
		return p, "codesep-key"
	}
}
