package main

import (
	"math/big"

	"verif/mon"
	rs "verif/ref/refscript"

	"github.com/btcsuite/btcd/btcec/v2"
	"github.com/btcsuite/btcd/btcec/v2/ecdsa"
	"github.com/btcsuite/btcd/btcec/v2/schnorr"
)

// Generation-side key material. Signatures are produced with btcec's signers over digests
// computed by the reference's own sighash code; nothing here is part of the oracle.

var curveN, _ = new(big.Int).SetString("fffffffffffffffffffffffffffffffebaaedce6af48a03bbfd25e8cd0364141", 16)

type key struct {
	d    *big.Int
	priv *btcec.PrivateKey
	pub  *btcec.PublicKey
}

func newKey(r *mon.Rand) *key {
	for {
		b := r.Bytes(32)
		d := new(big.Int).SetBytes(b)
		if d.Sign() == 0 || d.Cmp(curveN) >= 0 {
			continue
		}
		priv, pub := btcec.PrivKeyFromBytes(b)
		return &key{d: d, priv: priv, pub: pub}
	}
}

func keyFromScalar(d *big.Int) *key {
	var b [32]byte
	d.FillBytes(b[:])
	priv, pub := btcec.PrivKeyFromBytes(b[:])
	return &key{d: d, priv: priv, pub: pub}
}

func (k *key) compressed() []byte   { return k.pub.SerializeCompressed() }
func (k *key) uncompressed() []byte { return k.pub.SerializeUncompressed() }
func (k *key) hybrid() []byte {
	u := k.pub.SerializeUncompressed()
	h := append([]byte{}, u...)
	h[0] = 6 + (u[64] & 1)
	return h
}
func (k *key) xonly() []byte { return k.pub.SerializeCompressed()[1:] }

// pubForm: 0 compressed, 1 uncompressed, 2 hybrid.
func (k *key) form(f int) []byte {
	switch f {
	case 1:
		return k.uncompressed()
	case 2:
		return k.hybrid()
	}
	return k.compressed()
}

// tweaked returns the taproot output key material for merkle root (nil = no scripts: BIP86 style
// tweak with an empty root).
func (k *key) tweaked(root []byte) *key {
	d := new(big.Int).Set(k.d)
	if k.pub.SerializeCompressed()[0] == 3 {
		d.Sub(curveN, d)
	}
	t := rs.TaggedHash("TapTweak", k.xonly(), root)
	d.Add(d, new(big.Int).SetBytes(t[:]))
	d.Mod(d, curveN)
	if d.Sign() == 0 {
		d.SetInt64(1)
	}
	return keyFromScalar(d)
}

// derEncode builds 0x30 len 0x02 lr r 0x02 ls s with minimal positive integers.
func derInt(v *big.Int) []byte {
	b := v.Bytes()
	if len(b) == 0 {
		b = []byte{0}
	}
	if b[0]&0x80 != 0 {
		b = append([]byte{0}, b...)
	}
	return b
}

func derEncode(r, s *big.Int) []byte {
	rb, sb := derInt(r), derInt(s)
	out := []byte{0x30, byte(4 + len(rb) + len(sb)), 0x02, byte(len(rb))}
	out = append(out, rb...)
	out = append(out, 0x02, byte(len(sb)))
	return append(out, sb...)
}

// signECDSA returns (r, s) with low s.
func (k *key) signECDSA(h [32]byte) (r, s *big.Int) {
	sig := ecdsa.Sign(k.priv, h[:])
	rr, ss := sig.R(), sig.S()
	rb, sb := rr.Bytes(), ss.Bytes()
	return new(big.Int).SetBytes(rb[:]), new(big.Int).SetBytes(sb[:])
}

func (k *key) signSchnorr(h [32]byte) []byte {
	sig, err := schnorr.Sign(k.priv, h[:])
	if err != nil {
		return make([]byte, 64)
	}
	return sig.Serialize()
}

// ECDSA signature encodings (mutations of a valid (r,s)); all but "garbage" still satisfy the
// signature equation, so they separate the encoding rules from the equation.
const (
	encCanonical = iota
	encHighS
	encPadR     // extra leading zero on R
	encPadS     // extra leading zero on S
	encLongLen  // sequence length in long form (0x81 nn)
	encTrailing // trailing garbage byte inside the push, length byte adjusted
	encNegR     // R without its required zero pad (only when R's high bit is set), else canonical
	encBadEquation
	encEmpty
	encLaxShape // any of the other shapes the pre-BIP66 (lax) parser accepts: see laxShape
	encCount
)

// laxShape re-encodes a valid (r, s) in one of the forms that only the lenient pre-BIP66 parser accepts (Bitcoin
// Core's ecdsa_signature_parse_der_lax): the sequence length is never interpreted, integer lengths may be in the long
// form with leading zero length bytes (at most three significant ones), integers are unsigned with any number of leading
// zero bytes, and whatever follows S is ignored. A few forms just outside that grammar are produced as well (four
// significant length bytes, an integer running past the end), which must fail the signature check.
func laxShape(r *mon.Rand, rr, ss *big.Int) []byte {
	integer := func(v *big.Int) []byte {
		b := v.Bytes()
		switch r.Intn(5) {
		case 0: // minimal DER
			b = derInt(v)
		case 1: // unsigned, no pad even when the top bit is set
		case 2: // many leading zeroes
			b = append(make([]byte, 1+r.Intn(40)), b...)
		case 3:
			b = derInt(v)
		default:
			b = append([]byte{0}, b...)
		}
		var l []byte
		switch n := len(b); r.Intn(8) {
		case 0:
			l = []byte{0x81, byte(n)}
		case 1:
			l = []byte{0x82, 0x00, byte(n)}
		case 2:
			l = []byte{0x83, 0x00, 0x00, byte(n)}
		case 3: // more than three length bytes, all but the last zero
			l = append(append([]byte{byte(0x80 + 5 + r.Intn(3))}, make([]byte, 4+r.Intn(3))...), byte(n))
			l[0] = byte(0x80 + len(l) - 1)
		default:
			l = []byte{byte(n)}
		}
		return append(append([]byte{0x02}, l...), b...)
	}
	body := append(integer(rr), integer(ss)...)
	if r.Chance(1, 3) { // bytes after S
		body = append(body, r.Bytes(1+r.Intn(6))...)
	}
	var seq []byte
	switch r.Intn(6) {
	case 0: // correct short or long form
		if len(body) < 0x80 {
			seq = []byte{byte(len(body))}
		} else {
			seq = []byte{0x81, byte(len(body))}
		}
	case 1: // short form, any value
		seq = []byte{byte(r.Intn(0x80))}
	case 2: // long form, length bytes are skipped unread
		n := 1 + r.Intn(4)
		seq = append([]byte{byte(0x80 + n)}, r.Bytes(n)...)
	case 3:
		seq = []byte{0x81, byte(len(body))}
	case 4: // 0x80: long form with zero length bytes
		seq = []byte{0x80}
	default:
		seq = []byte{byte(len(body) & 0x7f)}
	}
	out := append(append([]byte{0x30}, seq...), body...)
	// just outside the grammar
	switch r.Intn(12) {
	case 0: // four significant length bytes for R
		rb := rr.Bytes()
		bad := append([]byte{0x30, byte(r.Intn(0x80)), 0x02, 0x84, 0x01, 0x00, 0x00, byte(len(rb))}, rb...)
		return append(bad, integer(ss)...)
	case 1: // S runs one byte past the end
		return out[:len(out)-1-len(out)%2]
	case 2: // sequence long form claims more length bytes than there are bytes
		return []byte{0x30, 0x80 + 0x7f, 0x02, 0x01, 0x01, 0x02, 0x01, 0x01}
	}
	return out
}

func encodeECDSA(r *mon.Rand, rr, ss *big.Int, mode int) []byte {
	switch mode {
	case encHighS:
		return derEncode(rr, new(big.Int).Sub(curveN, ss))
	case encPadR, encPadS:
		rb, sb := derInt(rr), derInt(ss)
		if mode == encPadR {
			rb = append([]byte{0}, rb...)
		} else {
			sb = append([]byte{0}, sb...)
		}
		out := []byte{0x30, byte(4 + len(rb) + len(sb)), 0x02, byte(len(rb))}
		out = append(out, rb...)
		out = append(out, 0x02, byte(len(sb)))
		return append(out, sb...)
	case encLongLen:
		d := derEncode(rr, ss)
		return append([]byte{0x30, 0x81, d[1]}, d[2:]...)
	case encTrailing:
		d := derEncode(rr, ss)
		return append(d, byte(r.Intn(256)))
	case encNegR:
		rb := rr.Bytes()
		sb := derInt(ss)
		if len(rb) == 0 {
			rb = []byte{0}
		}
		out := []byte{0x30, byte(4 + len(rb) + len(sb)), 0x02, byte(len(rb))}
		out = append(out, rb...)
		out = append(out, 0x02, byte(len(sb)))
		return append(out, sb...)
	case encBadEquation:
		d := derEncode(rr, ss)
		i := 4 + r.Intn(len(d)-4)
		d[i] ^= 1 << uint(r.Intn(8))
		return d
	case encEmpty:
		return nil
	case encLaxShape:
		return laxShape(r, rr, ss)
	}
	return derEncode(rr, ss)
}
