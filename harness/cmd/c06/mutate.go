package main

import (
	"verif/mon"
	rs "verif/ref/refscript"
)

var opSuccessBytes = func() []byte {
	var out []byte
	for i := 0; i < 256; i++ {
		if rs.IsOpSuccess(byte(i)) {
			out = append(out, byte(i))
		}
	}
	return out
}()

func (p *plan) sigReqs() []*sigReq {
	var out []*sigReq
	for _, c := range p.consumed {
		if c.sig != nil {
			out = append(out, c.sig)
		}
	}
	if p.keySig != nil {
		out = append(out, p.keySig)
	}
	return out
}

func (p *plan) isTaproot() bool { return p.ctx == ctxTapscript || p.ctx == ctxTapKey }
func (p *plan) isWitness() bool {
	return p.ctx != ctxBare && p.ctx != ctxP2SH && !(p.ctx == ctxRawWitness)
}

// corrupt applies ONE single-point corruption to the plan (before assembly, or as a
// post-assembly hook). It returns the corruption's name.
func corrupt(r *mon.Rand, p *plan) string {
	for tries := 0; tries < 20; tries++ {
		switch r.Intn(16) {
		case 0, 1, 2: // signature encoding / hash type / key
			qs := p.sigReqs()
			if len(qs) == 0 {
				continue
			}
			return corruptSig(r, qs[r.Intn(len(qs))])
		case 3: // extra item at the bottom of the initial stack
			if p.ctx >= ctxCount {
				continue
			}
			item := r.Bytes(r.Intn(4))
			if r.Chance(1, 4) {
				item = r.Bytes(521)
			} else if r.Chance(1, 4) {
				item = r.Bytes(520)
			}
			p.junk = append(p.junk, item)
			return "junk-bottom"
		case 4: // empty literal -> non-empty (multisig dummy, absent tapscript signature)
			var idx []int
			for i, c := range p.consumed {
				if c.sig == nil && len(c.lit) == 0 {
					idx = append(idx, i)
				}
			}
			if len(idx) == 0 {
				continue
			}
			p.consumed[idx[r.Intn(len(idx))]].lit = []byte{byte(1 + r.Intn(255))}
			return "nonempty-dummy"
		case 5: // swap two signatures
			var idx []int
			for i, c := range p.consumed {
				if c.sig != nil {
					idx = append(idx, i)
				}
			}
			if len(idx) < 2 {
				continue
			}
			a, b := idx[0], idx[1+r.Intn(len(idx)-1)]
			p.consumed[a], p.consumed[b] = p.consumed[b], p.consumed[a]
			return "swap-sigs"
		case 6: // witness / scriptSig where none belongs
			switch {
			case p.ctx == ctxBare || p.ctx == ctxP2SH:
				p.post = append(p.post, func(s *spend) {
					s.tx.In[s.idx].Witness = [][]byte{r.Bytes(r.Intn(3))}
				})
				return "stray-witness"
			case p.ctx == ctxP2WSH || p.ctx == ctxP2WPKH || p.isTaproot():
				p.post = append(p.post, func(s *spend) {
					s.tx.In[s.idx].ScriptSig = [][]byte{{rs.OP_1}, {rs.OP_0}, {1, 7}, {rs.OP_NOP}}[r.Intn(4)]
				})
				return "scriptsig-on-native-witness"
			case p.ctx == ctxP2SHP2WSH || p.ctx == ctxP2SHP2WPKH:
				p.post = append(p.post, func(s *spend) {
					ss := s.tx.In[s.idx].ScriptSig
					if len(ss) < 2 {
						return
					}
					if r.Bool() { // non-canonical push of the same redeem script
						s.tx.In[s.idx].ScriptSig = append([]byte{rs.OP_PUSHDATA1, ss[0]}, ss[1:]...)
					} else { // extra push in front
						s.tx.In[s.idx].ScriptSig = append([]byte{rs.OP_1}, ss...)
					}
				})
				return "malleated-p2sh-witness-scriptsig"
			}
			continue
		case 7: // annex present but not signed, or signed but removed
			if !p.isTaproot() {
				continue
			}
			if p.annex == nil {
				p.annex = append([]byte{rs.AnnexTag}, r.Bytes(r.Intn(10))...)
				p.annexSigned = false
				return "annex-unsigned"
			}
			p.post = append(p.post, func(s *spend) {
				w := s.tx.In[s.idx].Witness
				s.tx.In[s.idx].Witness = w[:len(w)-1]
			})
			return "annex-removed"
		case 8: // control block surgery after commitment
			if p.ctx != ctxTapscript {
				continue
			}
			kind := r.Intn(7)
			p.post = append(p.post, func(s *spend) {
				w := s.tx.In[s.idx].Witness
				ci := len(w) - 1
				if p.annex != nil && len(w) >= 2 {
					ci--
				}
				if ci < 0 {
					return
				}
				cb := append([]byte{}, w[ci]...)
				switch kind {
				case 0:
					cb[0] ^= 1
				case 1:
					cb[0] ^= byte(2 << uint(r.Intn(7)))
				case 2:
					cb[1+r.Intn(len(cb)-1)] ^= 1 << uint(r.Intn(8))
				case 3:
					cb = cb[:len(cb)-1]
				case 4:
					if len(cb) > 33 {
						cb = cb[:len(cb)-32]
					} else {
						cb = cb[:32]
					}
				case 5:
					cb = append(cb, r.Bytes(1)...)
				default:
					cb = append(cb, r.Bytes(32)...)
				}
				w[ci] = cb
			})
			return "control-block-" + string(rune('0'+kind))
		case 9: // committed unknown leaf version
			if p.ctx != ctxTapscript {
				continue
			}
			p.leafVer = byte(r.Intn(128)) << 1
			return "leaf-version"
		case 10: // OP_SUCCESSx inside the committed tapscript
			if p.ctx != ctxTapscript {
				continue
			}
			op := opSuccessBytes[r.Intn(len(opSuccessBytes))]
			switch r.Intn(3) {
			case 0:
				p.script = append(append([]byte{}, p.script...), op)
			case 1:
				p.script = append([]byte{op}, p.script...)
				for _, q := range p.sigReqs() {
					q.codeStart++
				}
			default: // after a truncated push: the parse fails first unless the success opcode comes first
				p.script = append(append([]byte{}, p.script...), op, rs.OP_PUSHDATA1)
			}
			return "op-success"
		case 11: // transaction changed after signing
			kind := r.Intn(7)
			p.post = append(p.post, func(s *spend) {
				switch kind {
				case 0:
					if len(s.tx.Out) > 0 {
						s.tx.Out[r.Intn(len(s.tx.Out))].Value ^= 1
					}
				case 1:
					s.tx.LockTime ^= 1
				case 2:
					s.tx.In[s.idx].Sequence ^= 1
				case 3:
					s.tx.In[r.Intn(len(s.tx.In))].Sequence ^= 2
				case 4:
					s.spent[s.idx].Value ^= 1
				case 5:
					j := r.Intn(len(s.tx.In))
					if j != s.idx {
						s.spent[j].PkScript = append(append([]byte{}, s.spent[j].PkScript...), rs.OP_NOP)
					}
				default:
					s.tx.Version ^= 1
				}
			})
			return "tx-after-signing-" + string(rune('0'+kind))
		case 12: // committed script altered after the commitment
			if p.ctx == ctxBare || p.ctx >= ctxCount {
				continue
			}
			p.post = append(p.post, func(s *spend) {
				in := &s.tx.In[s.idx]
				switch p.ctx {
				case ctxP2SH:
					if n := len(in.ScriptSig); n > 0 {
						in.ScriptSig = append([]byte{}, in.ScriptSig...)
						in.ScriptSig[n-1] ^= 1
					}
				case ctxP2WSH, ctxP2SHP2WSH:
					w := in.Witness
					sc := append([]byte{}, w[len(w)-1]...)
					if len(sc) > 0 {
						sc[r.Intn(len(sc))] ^= 1
					}
					w[len(w)-1] = sc
				case ctxTapscript:
					w := in.Witness
					si := len(w) - 2
					if p.annex != nil {
						si--
					}
					if si >= 0 {
						sc := append([]byte{}, w[si]...)
						if len(sc) > 0 {
							sc[r.Intn(len(sc))] ^= 1
						}
						w[si] = sc
					}
				}
			})
			return "script-after-commitment"
		case 13: // public key in the witness swapped for another form / key
			if p.ctx != ctxP2WPKH && p.ctx != ctxP2SHP2WPKH {
				continue
			}
			p.post = append(p.post, func(s *spend) {
				w := s.tx.In[s.idx].Witness
				if len(w) == 2 {
					w[1] = p.keySig.k.form((p.keyForm + 1 + r.Intn(2)) % 3)
				}
			})
			return "p2wpkh-pubkey-form"
		case 14: // witness stack item count
			if p.ctx != ctxP2WPKH && p.ctx != ctxP2SHP2WPKH && p.ctx != ctxTapKey {
				continue
			}
			p.post = append(p.post, func(s *spend) {
				in := &s.tx.In[s.idx]
				if r.Bool() {
					in.Witness = append([][]byte{r.Bytes(r.Intn(3))}, in.Witness...)
				} else if len(in.Witness) > 0 {
					in.Witness = in.Witness[1:]
				}
			})
			return "witness-count"
		default: // program noise: one byte of the committed script replaced before commitment
			if len(p.script) == 0 || p.ctx >= ctxCount {
				continue
			}
			sc := append([]byte{}, p.script...)
			sc[r.Intn(len(sc))] = byte(r.Intn(256))
			p.script = sc
			return "script-byte"
		}
	}
	return "none"
}
