package main

import (
	"encoding/hex"
	"fmt"
	"os"
	"strings"

	"verif/mon"
	rs "verif/ref/refscript"

	"github.com/btcsuite/btcd/chainhash/v2"
	"github.com/btcsuite/btcd/txscript/v2"
	"github.com/btcsuite/btcd/wire/v2"
)

// flagMap maps the reference's (Core-named) flags 1:1 to btcd's txscript.ScriptFlags.
var flagMap = []struct {
	r rs.Flags
	b txscript.ScriptFlags
}{
	{rs.P2SH, txscript.ScriptBip16},
	{rs.STRICTENC, txscript.ScriptVerifyStrictEncoding},
	{rs.DERSIG, txscript.ScriptVerifyDERSignatures},
	{rs.LOW_S, txscript.ScriptVerifyLowS},
	{rs.NULLDUMMY, txscript.ScriptStrictMultiSig},
	{rs.SIGPUSHONLY, txscript.ScriptVerifySigPushOnly},
	{rs.MINIMALDATA, txscript.ScriptVerifyMinimalData},
	{rs.DISCOURAGE_UPGRADABLE_NOPS, txscript.ScriptDiscourageUpgradableNops},
	{rs.CLEANSTACK, txscript.ScriptVerifyCleanStack},
	{rs.CHECKLOCKTIMEVERIFY, txscript.ScriptVerifyCheckLockTimeVerify},
	{rs.CHECKSEQUENCEVERIFY, txscript.ScriptVerifyCheckSequenceVerify},
	{rs.WITNESS, txscript.ScriptVerifyWitness},
	{rs.DISCOURAGE_UPGRADABLE_WITNESS_PROGRAM, txscript.ScriptVerifyDiscourageUpgradeableWitnessProgram},
	{rs.MINIMALIF, txscript.ScriptVerifyMinimalIf},
	{rs.NULLFAIL, txscript.ScriptVerifyNullFail},
	{rs.WITNESS_PUBKEYTYPE, txscript.ScriptVerifyWitnessPubKeyType},
	{rs.CONST_SCRIPTCODE, txscript.ScriptVerifyConstScriptCode},
	{rs.TAPROOT, txscript.ScriptVerifyTaproot},
	{rs.DISCOURAGE_UPGRADABLE_TAPROOT_VERSION, txscript.ScriptVerifyDiscourageUpgradeableTaprootVersion},
	{rs.DISCOURAGE_OP_SUCCESS, txscript.ScriptVerifyDiscourageOpSuccess},
	{rs.DISCOURAGE_UPGRADABLE_PUBKEYTYPE, txscript.ScriptVerifyDiscourageUpgradeablePubkeyType},
}

func toBtcdFlags(f rs.Flags) txscript.ScriptFlags {
	var out txscript.ScriptFlags
	for _, m := range flagMap {
		if f&m.r != 0 {
			out |= m.b
		}
	}
	return out
}

func fromBtcdFlags(f txscript.ScriptFlags) rs.Flags {
	var out rs.Flags
	for _, m := range flagMap {
		if f&m.b != 0 {
			out |= m.r
		}
	}
	return out
}

// spend is one evaluation: input idx of tx spending spent[idx] (spent holds all inputs' prevouts).
type spend struct {
	tx    *rs.Tx
	idx   int
	spent []rs.TxOut
	flags rs.Flags

	sigCache *txscript.SigCache // shared by the repeated verifications of this spend
}

func toWire(tx *rs.Tx) *wire.MsgTx {
	m := wire.NewMsgTx(tx.Version)
	m.TxIn = nil
	m.TxOut = nil
	for i := range tx.In {
		in := &tx.In[i]
		h := chainhash.Hash(in.PrevHash)
		ti := wire.NewTxIn(wire.NewOutPoint(&h, in.PrevIndex), append([]byte(nil), in.ScriptSig...), nil)
		ti.Sequence = in.Sequence
		if len(in.Witness) > 0 {
			w := make(wire.TxWitness, len(in.Witness))
			for j, e := range in.Witness {
				w[j] = append([]byte{}, e...)
			}
			ti.Witness = w
		}
		m.AddTxIn(ti)
	}
	for i := range tx.Out {
		m.AddTxOut(wire.NewTxOut(tx.Out[i].Value, append([]byte(nil), tx.Out[i].PkScript...)))
	}
	m.LockTime = tx.LockTime
	return m
}

func hexWitness(w [][]byte) []string {
	out := make([]string, len(w))
	for i, e := range w {
		out[i] = hex.EncodeToString(e)
	}
	return out
}

// describe renders the exact spend for violation reports.
func (s *spend) describe(label string) map[string]any {
	ins := []map[string]any{}
	for i := range s.tx.In {
		in := &s.tx.In[i]
		ins = append(ins, map[string]any{
			"prevout":     fmt.Sprintf("%x:%d", in.PrevHash[:], in.PrevIndex),
			"scriptSig":   hex.EncodeToString(in.ScriptSig),
			"sequence":    in.Sequence,
			"witness":     hexWitness(in.Witness),
			"spentValue":  s.spent[i].Value,
			"spentScript": hex.EncodeToString(s.spent[i].PkScript),
		})
	}
	outs := []map[string]any{}
	for i := range s.tx.Out {
		outs = append(outs, map[string]any{"value": s.tx.Out[i].Value, "pkScript": hex.EncodeToString(s.tx.Out[i].PkScript)})
	}
	return map[string]any{"label": label, "version": s.tx.Version, "locktime": s.tx.LockTime, "in": ins, "out": outs,
		"idx": s.idx, "flags": s.flags.String(), "btcdFlags": uint32(toBtcdFlags(s.flags))}
}

// errClass returns btcd's error code name (or "ok").
func errClass(err error) string {
	if err == nil {
		return "ok"
	}
	if se, ok := err.(txscript.Error); ok {
		return se.ErrorCode.String()
	}
	return "other:" + strings.SplitN(err.Error(), ":", 2)[0]
}

type result struct {
	refErr  string
	btcdErr error
	tr      rs.Trace
}

// monitor is the step monitor's verdict.
type monitor struct {
	steps     int
	maxDepth  int
	maxElem   int
	violation string
}

// runBtcd executes the real engine the way the node does (hash cache from NewTxSigHashes,
// prevout fetcher over all inputs), once plainly and once through the debug/step API.
// sharedSigCache returns the signature cache of the spend: the first run creates it, a repeated run of the same spend
// (compare's second pass) finds the entries the first run left behind, as block validation does after the mempool has
// seen a transaction. A verdict must not depend on what an earlier verification put there.
func sharedSigCache(s *spend) *txscript.SigCache {
	if s.sigCache == nil {
		s.sigCache = txscript.NewSigCache(64)
	}
	return s.sigCache
}

func runBtcd(s *spend, useSigCache bool, mon_ *monitor) (err error, stepErr error) {
	mtx := toWire(s.tx)
	fetcher := txscript.NewMultiPrevOutFetcher(nil)
	for i := range mtx.TxIn {
		fetcher.AddPrevOut(mtx.TxIn[i].PreviousOutPoint, &wire.TxOut{Value: s.spent[i].Value, PkScript: s.spent[i].PkScript})
	}
	flags := toBtcdFlags(s.flags)
	var sc *txscript.SigCache
	if useSigCache {
		sc = sharedSigCache(s)
	}
	hc := txscript.NewTxSigHashes(mtx, fetcher)
	pk := s.spent[s.idx].PkScript
	amt := s.spent[s.idx].Value
	vm, e := txscript.NewEngine(pk, mtx, s.idx, flags, sc, hc, amt, fetcher)
	if e == nil {
		e = vm.Execute()
	}
	err = e
	if mon_ != nil {
		cb := func(si *txscript.StepInfo) error {
			mon_.steps++
			d := len(si.Stack) + len(si.AltStack)
			if d > mon_.maxDepth {
				mon_.maxDepth = d
			}
			for _, st := range [][][]byte{si.Stack, si.AltStack} {
				for _, el := range st {
					if len(el) > mon_.maxElem {
						mon_.maxElem = len(el)
					}
				}
			}
			// A witness stack may legitimately be loaded with more than 1000 items (it fails at the
			// next opcode / clean-stack test); the bound is breached when an opcode has been executed
			// (OpcodeIndex > 0) and the engine carries on with more than 1000 items.
			if d > rs.MaxStackSize && si.OpcodeIndex > 0 && mon_.violation == "" {
				mon_.violation = fmt.Sprintf("stack-depth:%d at script %d op %d", d, si.ScriptIndex, si.OpcodeIndex)
			}
			return nil
		}
		mtx2 := toWire(s.tx)
		hc2 := txscript.NewTxSigHashes(mtx2, fetcher)
		vm2, e2 := txscript.NewDebugEngine(pk, mtx2, s.idx, flags, nil, hc2, amt, fetcher, cb)
		if e2 == nil {
			e2 = vm2.Execute()
		}
		stepErr = e2
		if e2 == nil && mon_.maxDepth > rs.MaxStackSize && mon_.violation == "" {
			mon_.violation = fmt.Sprintf("stack-depth:%d seen during an accepted run", mon_.maxDepth)
		}
		if mon_.maxElem > rs.MaxScriptElementSize && mon_.violation == "" {
			mon_.violation = fmt.Sprintf("element-size:%d", mon_.maxElem)
		}
	}
	return err, stepErr
}

var opNames = func() [256]string {
	var n [256]string
	for i := 0; i < 256; i++ {
		n[i] = fmt.Sprintf("%02x", i)
	}
	return n
}()

// compare runs both interpreters on s and reports any disagreement. keyPrefix identifies the family.
func compare(k *mon.Case, s *spend, family, flagClass, mutation string) *result {
	res := &result{}
	res.refErr = rs.Verify(&rs.Input{Tx: s.tx, Idx: s.idx, Spent: s.spent}, s.flags, &res.tr)
	var m monitor
	useCache := k.Rand.Bool()
	err, stepErr := runBtcd(s, useCache, &m)
	if useCache {
		// the same spend again with the signature cache of the first run
		err2, _ := runBtcd(s, true, nil)
		if (err == nil) != (err2 == nil) {
			k.Failf("sigcache:verdict-changes-on-repeat:"+pathGroup(res.tr.Path), "first verification: %v; the same spend verified again with the signature cache the first run filled: %v", err, err2)
		}
		k.Count("sigcache.repeat-verifications", 1)
	}
	res.btcdErr = err
	refOK := res.refErr == ""
	if res.tr.ValidNonDER {
		k.Count("sigcheck.verified-only-by-lax-parsing", 1)
	}
	if (err == nil) != refOK {
		at := "end"
		if res.refErr != "" && res.tr.LastOp >= 0 {
			switch res.tr.LastOp {
			case rs.OP_CHECKSIG, rs.OP_CHECKSIGVERIFY:
				at = "checksig"
			case rs.OP_CHECKMULTISIG, rs.OP_CHECKMULTISIGVERIFY:
				at = "multisig"
			case rs.OP_CHECKSIGADD:
				at = "checksigadd"
			default:
				at = "op" + opNames[res.tr.LastOp]
			}
		}
		// keys name WHAT disagrees: flag-set class, script generation (legacy / v0 / taproot sub-path),
		// the reference's verdict and where it arose, btcd's error class, and oracle-side observations
		// about the signature operands involved.
		be := errClass(err)
		if res.tr.ValidNonDER && err != nil {
			be = "reject" // the rejected signature check surfaces wherever its result is consumed
		}
		key := fmt.Sprintf("verdict:%s:%s:ref=%s@%s:btcd=%s", flagClass, pathGroup(res.tr.Path), orOK(res.refErr), at, be)
		if res.tr.ValidNonDER {
			key += ":valid-sig-not-strict-DER"
		}
		if res.tr.ValidHighS {
			key += ":valid-sig-high-S"
		}
		if res.refErr != "" && res.tr.FailSigEmpty {
			key += ":empty-sig"
		}
		if res.refErr != "" && res.tr.FailUnparsable {
			key += ":unparsable-sig-or-key"
		}
		_ = mutation
		if flagClass == "toggle" {
			// A single-flag toggle is a flag set the node never builds: the property quantifies over the sets
			// used for block validation and for relay policy only, so a disagreement here is recorded as
			// coverage (it still widens what the generated programs exercise) and is not a violation.
			k.Count("toggle_only_disagreement", 1)
			return res
		}
		k.Violation(key, fmt.Sprintf("reference (Core semantics) says %s, btcd Engine.Execute says %v; flags=%s",
			orOK(res.refErr), err, s.flags), s.describe(family))
	}
	if (stepErr == nil) != (err == nil) {
		k.Violation("debug-engine:verdict-differs-from-plain-engine",
			fmt.Sprintf("plain Execute: %v, NewDebugEngine Execute: %v", err, stepErr), s.describe(family))
	}
	if m.violation != "" {
		k.Violation("bounds:"+strings.SplitN(m.violation, ":", 2)[0],
			fmt.Sprintf("step monitor observed %s (final btcd verdict: %v)", m.violation, err), s.describe(family))
	}
	// evidence
	c := k.C
	for op := 0; op < 256; op++ {
		if n := res.tr.Executed[op]; n > 0 {
			c.Count("op.exec."+opNames[op], int64(n))
		}
		if n := res.tr.Seen[op]; n > 0 {
			c.Count("op.seen."+opNames[op], int64(n))
		}
	}
	c.Count("verdict.ref."+orOK(res.refErr), 1)
	c.Count("verdict.btcd."+errClass(err), 1)
	c.Count("path."+res.tr.Path, 1)
	c.Count("flagclass."+flagClass, 1)
	c.Count("steps.monitored", int64(m.steps))
	if res.tr.SigChecks > 0 {
		c.Count("sig.checks", int64(res.tr.SigChecks))
		c.Count("sig.checks.ok", int64(res.tr.SigChecksOK))
	}
	boundary(c, "stack", res.tr.MaxStack, rs.MaxStackSize)
	boundary(c, "ops", res.tr.MaxOps, rs.MaxOpsPerScript)
	boundary(c, "elem", res.tr.MaxElem, rs.MaxScriptElementSize)
	boundary(c, "scriptsize", res.tr.MaxScript, rs.MaxScriptSize)
	return res
}

// pathGroup folds the reference's evaluation path into the script generation it belongs to.
func pathGroup(p string) string {
	switch {
	case p == "bare" || p == "p2sh":
		return "legacy"
	case strings.Contains(p, "p2wsh") || strings.Contains(p, "p2wpkh"):
		return "v0"
	case p == "native-p2tr-script":
		return "tapscript"
	case p == "":
		return "none"
	}
	return strings.TrimPrefix(p, "native-")
}

func boundary(c *mon.Ctx, name string, v, limit int) {
	switch {
	case v == limit-1:
		c.Count("boundary."+name+".limit-1", 1)
	case v == limit:
		c.Count("boundary."+name+".limit", 1)
	case v == limit+1:
		c.Count("boundary."+name+".limit+1", 1)
	case v > limit+1:
		c.Count("boundary."+name+".above", 1)
	}
}

func orOK(s string) string {
	if s == "" {
		return "OK"
	}
	return s
}

func vectorPath(name string) string {
	home := os.Getenv("VERIF_HOME")
	if home == "" {
		home = "/verif"
	}
	return home + "/vectors/script/" + name
}
