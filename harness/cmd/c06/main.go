// Worker for C06: script verification agrees with Bitcoin's script semantics for every spend.
//
// Oracle: verif/ref/refscript, an independent interpreter written from Bitcoin Core's semantics and
// calibrated (first families of every run) on script_tests.json, tx_valid.json, tx_invalid.json and
// the taproot-ref corpus. Differential target: txscript.NewEngine(...).Execute() == nil, plus a step
// monitor through NewDebugEngine and the panic catcher of mon.Family.
package main

import (
	"fmt"
	"sort"
	"strings"

	"verif/mon"
	rs "verif/ref/refscript"
)

// runPlan turns a plan into a concrete spend, runs both interpreters and records evidence.
func runPlan(k *mon.Case, p *plan, family, kind string, mutation string) {
	runPlanFlags(k, p, family, kind, mutation, nil)
}

// runPlanFlags is runPlan with the flag set given by the caller (nil: drawn by pickFlags).
func runPlanFlags(k *mon.Case, p *plan, family, kind string, mutation string, forced *flagChoice) {
	r := k.Rand
	s := randTx(r)
	s.spent[s.idx] = rs.TxOut{Value: randAmount(r), PkScript: p.pkScript()}
	if p.pre != nil {
		p.pre(s)
	}
	p.assemble(r, s)
	fc := pickFlags(r)
	if forced != nil {
		fc = *forced
	}
	s.flags = fc.f
	d := s.describe(fmt.Sprintf("%s/%s ctx=%s mutation=%s flagset=%s", family, kind, ctxName(p.ctx), mutation, fc.name))
	k.Desc(d)
	res := compare(k, s, family, fc.class, mutation)
	c := k.C
	c.Count("family."+family, 1)
	c.Count("kind."+family+"."+kind, 1)
	c.Count("ctx."+ctxName(p.ctx), 1)
	c.Count("flagset."+fc.name, 1)
	c.Count("mutation."+mutation, 1)
	for _, m := range p.muts {
		c.Count("feature."+m, 1)
	}
	ok := "fail"
	if res.refErr == "" {
		ok = "ok"
		c.Count("accepted."+family+"."+kind, 1)
		if res.tr.SigChecksOK > 0 {
			c.Count("accepted-with-valid-signature."+ctxName(p.ctx), 1)
		}
	}
	k.Eval(mon.Sig(family, kind, p.ctx, mutation, uint32(s.flags), res.refErr, mon.SigBytes(p.script), len(s.tx.In[s.idx].Witness)), true)
	if k.Index%997 == 0 {
		d["refVerdict"] = orOK(res.refErr)
		d["btcdVerdict"] = errClass(res.btcdErr)
		d["result"] = ok
		k.Sample(d)
	}
}

func main() {
	mon.Main("C06", func(c *mon.Ctx) {
		c.Rule("calibrate.*: every vector of script_tests.json / tx_valid.json / tx_invalid.json / taproot-ref run through the " +
			"reference (must match the vector) and through btcd (must match the reference). grammar: random programs of " +
			"depth-neutral fragments over the full opcode alphabet (boundary operands, nested/unbalanced conditionals, " +
			"disabled/reserved/unknown opcodes in executed and skipped branches, raw bytes 0x00-0xff, one-byte noise), " +
			"placed bare / P2SH / P2WSH / P2SH-P2WSH / tapscript; grammar.signed: the same with fragments that consume real " +
			"ECDSA/Schnorr signatures (CHECKSIG, CHECKMULTISIG, CHECKSIGADD) signed through the reference's digests, " +
			"then one single-point corruption in ~45%; spend: well-formed spends of every standard type " +
			"(P2PK, P2PKH, multisig, P2SH, P2WPKH, P2WSH, nested, P2TR key and script path, CLTV/CSV, codeseparator, " +
			"future witness programs, P2A) with one corruption in ~55%; limits: constructions sitting on each consensus " +
			"bound +-1; findanddelete: signature embedded in the legacy script code. Flag sets: the 7 sets " +
			"checkConnectBlock builds along activation history, StandardVerifyFlags, and single-flag toggles of those. " +
			"distinct = (family, kind, context, mutation, flag set, reference verdict, script hash, witness length)")
		calibrate(c)

		c.Family("limits", c.N(6000, 150000), func(k *mon.Case) {
			r := k.Rand
			p, kind := limitPlan(r)
			runPlan(k, p, "limits", kind, "none")
		})

		c.Family("findanddelete", c.N(3000, 60000), func(k *mon.Case) {
			findAndDeleteCase(k)
		})

		c.Family("grammar", c.N(60000, 1500000), func(k *mon.Case) {
			r := k.Rand
			ctx := r.Intn(ctxCount)
			b := newBuilder(r, ctx)
			n := 1 + r.Intn(6)
			if r.Chance(1, 10) {
				n = 6 + r.Intn(14)
			}
			b.program(n, false)
			p := &plan{ctx: ctx, script: b.b, consumed: b.consumed}
			if ctx == ctxTapscript {
				p.randTaproot(r)
			}
			if ctx == ctxP2SH && len(p.script) > rs.MaxScriptElementSize && r.Chance(9, 10) {
				p.ctx = ctxBare
			}
			mutation := "none"
			if r.Chance(1, 5) && len(p.script) > 0 {
				// one-byte noise over the full alphabet, or truncation / a dangling push opcode
				sc := append([]byte{}, p.script...)
				switch r.Intn(4) {
				case 0:
					sc = sc[:r.Intn(len(sc))]
					mutation = "truncate"
				case 1:
					sc = append(sc, byte(1+r.Intn(0x4e)))
					mutation = "dangling-push"
				default:
					sc[r.Intn(len(sc))] = byte(r.Intn(256))
					mutation = "noise-byte"
				}
				p.script = sc
			}
			if (p.ctx == ctxBare || p.ctx == ctxP2SH) && r.Chance(1, 6) {
				// executable (not push-only) scriptSig: a small program in front of the pushes
				sb := newBuilder(r, ctxBare)
				for i := 1 + r.Intn(2); i > 0; i-- {
					sb.neutral()
				}
				if r.Chance(1, 8) {
					sb.op(rs.OP_1, rs.OP_IF) // conditional left open across the script boundary
				}
				pre := sb.b
				p.post = append(p.post, func(s *spend) {
					s.tx.In[s.idx].ScriptSig = append(append([]byte{}, pre...), s.tx.In[s.idx].ScriptSig...)
				})
				p.mut("executable-scriptsig")
			}
			for f, n := range b.feat {
				c.Count("fragment."+f, int64(n))
			}
			runPlan(k, p, "grammar", ctxName(p.ctx), mutation)
		})

		c.Family("grammar.signed", c.N(25000, 600000), func(k *mon.Case) {
			r := k.Rand
			ctx := r.Intn(ctxCount)
			b := newBuilder(r, ctx)
			b.program(1+r.Intn(5), true)
			p := &plan{ctx: ctx, script: b.b, consumed: b.consumed}
			if ctx == ctxTapscript {
				p.randTaproot(r)
			}
			if ctx == ctxP2SH && len(p.script) > rs.MaxScriptElementSize {
				p.ctx = ctxBare
			}
			mutation := "none"
			if r.Chance(9, 20) {
				mutation = corrupt(r, p)
			}
			for f, n := range b.feat {
				c.Count("fragment."+f, int64(n))
			}
			runPlan(k, p, "grammar.signed", ctxName(p.ctx), mutation)
		})

		c.Family("spend", c.N(40000, 1000000), func(k *mon.Case) {
			r := k.Rand
			p, kind := standardPlan(r)
			mutation := "none"
			if r.Chance(11, 20) {
				mutation = corrupt(r, p)
			}
			runPlan(k, p, "spend", kind, mutation)
		})

		// laxder: the two flag sets of the blocks before BIP66 (nothing, P2SH only), where signatures go through the
		// lenient parser: every ECDSA signature of a well-formed legacy spend is re-encoded in a lax form (or a form
		// just outside the lax grammar)
		c.Family("laxder", c.N(4000, 100000), func(k *mon.Case) {
			r := k.Rand
			var p *plan
			var kind string
			var qs []*sigReq
			for try := 0; try < 50; try++ {
				p, kind = standardPlan(r)
				qs = qs[:0]
				for _, q := range p.sigReqs() {
					if !q.schnorr {
						qs = append(qs, q)
					}
				}
				if len(qs) > 0 && (p.ctx == ctxBare || p.ctx == ctxP2SH) {
					break
				}
				qs = nil
			}
			if len(qs) == 0 {
				return
			}
			for i, q := range qs {
				if i == 0 || r.Bool() {
					q.enc = encLaxShape
				}
			}
			i := r.Intn(2)
			fc := flagChoice{f: historySets[i], class: "consensus", name: "hist" + string(rune('0'+i))}
			runPlanFlags(k, p, "laxder", kind, "ecdsa-enc-9", &fc)
		})

		// coverage the monitor must have reached, else the run is inconclusive
		for _, op := range requiredExecuted() {
			c.Require("op.exec."+opNames[op], 1)
		}
		for _, op := range disabledOps {
			c.Require("op.seen."+opNames[op], 1)
		}
		for _, cn := range []string{"bare", "p2sh", "p2wsh", "p2sh-p2wsh", "tapscript", "p2wpkh", "p2sh-p2wpkh", "p2tr-key"} {
			c.Require("accepted-with-valid-signature."+cn, 20)
		}
		for i := 0; i < 7; i++ {
			c.Require(fmt.Sprintf("flagset.hist%d", i), 100)
		}
		c.Require("flagset.std", 1000)
		c.Require("sigcheck.verified-only-by-lax-parsing", 1000)
		c.Require("sigcache.repeat-verifications", 20000)
		c.Require("boundary.stack.limit", 5)
		c.Require("boundary.stack.limit+1", 5)
		c.Require("boundary.ops.limit", 5)
		c.Require("boundary.ops.limit+1", 5)
		c.Require("boundary.elem.limit", 5)
		c.Require("boundary.elem.limit+1", 5)
		c.Require("boundary.scriptsize.limit", 5)
		c.Require("boundary.scriptsize.limit+1", 5)
		c.Require("steps.monitored", 100000)
		c.Note("required executed opcodes: " + fmtOps(requiredExecuted()))
	})
}

// requiredExecuted lists every opcode that is neither reserved/unknown nor disabled: each must
// have been executed by the reference at least once in a run.
func requiredExecuted() []byte {
	var out []byte
	for op := 0; op <= 0xba; op++ {
		o := byte(op)
		switch {
		case o == rs.OP_RESERVED || o == rs.OP_VER || o == rs.OP_VERIF || o == rs.OP_VERNOTIF ||
			o == rs.OP_RESERVED1 || o == rs.OP_RESERVED2:
			continue
		case rs.IsDisabled(o):
			continue
		}
		out = append(out, o)
	}
	return out
}

func fmtOps(ops []byte) string {
	var s []string
	for _, o := range ops {
		s = append(s, opNames[o])
	}
	sort.Strings(s)
	return strings.Join(s, " ")
}

// findAndDeleteCase: the signature is pushed inside the legacy script being signed for, so the
// digest is taken over the script with that push removed (FindAndDelete); CONST_SCRIPTCODE forbids it.
func findAndDeleteCase(k *mon.Case) {
	r := k.Rand
	s := randTx(r)
	b := newBuilder(r, ctxBare)
	q := b.newSigReq(false)
	pub := q.k.form(0)
	tail := []byte{rs.OP_DROP}
	if r.Chance(1, 4) {
		tail = append(tail, rs.OP_CODESEPARATOR)
	}
	tail = append(tail, rs.PushData(pub)...)
	tail = append(tail, rs.OP_CHECKSIG)
	// digest over the script without the signature push (OP_CODESEPARATOR is stripped by the digest itself)
	codeForHash := tail
	if i := bytes_index(tail, rs.OP_CODESEPARATOR); i >= 0 {
		codeForHash = tail[i+1:]
	}
	h := rs.LegacySigHash(codeForHash, s.tx, s.idx, uint32(q.hashType))
	rr, ss := q.k.signECDSA(h)
	sig := append(derEncode(rr, ss), q.hashType)
	kind := "embedded"
	var script []byte
	switch r.Intn(4) {
	case 0: // not embedded: plain control
		script = append([]byte{rs.OP_0}, tail...)
		kind = "control"
	case 1: // embedded with a non-canonical push: FindAndDelete must NOT match it
		script = append([]byte{rs.OP_PUSHDATA1, byte(len(sig))}, sig...)
		script = append(script, tail...)
		kind = "embedded-pushdata1"
	default:
		script = append(rs.PushData(sig), tail...)
	}
	p := &plan{ctx: []int{ctxBare, ctxP2SH}[r.Intn(2)], script: script, consumed: []slot{{lit: sig}}}
	s.spent[s.idx] = rs.TxOut{Value: randAmount(r), PkScript: p.pkScript()}
	p.assemble(r, s)
	fc := pickFlags(r)
	s.flags = fc.f
	k.Desc(s.describe("findanddelete/" + kind + " flagset=" + fc.name))
	res := compare(k, s, "findanddelete", fc.class, "fad-"+kind)
	k.Count("family.findanddelete", 1)
	k.Count("kind.findanddelete."+kind, 1)
	k.Count("flagset."+fc.name, 1)
	if res.refErr == "" {
		k.Count("accepted.findanddelete."+kind, 1)
	}
	k.Eval(mon.Sig("fad", kind, p.ctx, uint32(s.flags), res.refErr), true)
}

func bytes_index(b []byte, c byte) int {
	for i, x := range b {
		if x == c {
			return i
		}
	}
	return -1
}
