package main

import (
	"crypto/sha1"
	"crypto/sha256"
	"encoding/hex"

	"verif/mon"
	rs "verif/ref/refscript"

	"golang.org/x/crypto/ripemd160"
)

// sigReq is a signature to be produced once the script and transaction are final.
type sigReq struct {
	schnorr    bool
	k          *key
	hashType   byte   // byte appended to the signature (schnorr: 0 = 64-byte default form)
	signType   byte   // hash type actually signed (== hashType unless corrupted)
	codeStart  int    // legacy / v0: scriptCode = script[codeStart:]
	codesepPos uint32 // tapscript
	enc        int    // ECDSA encoding mode
	flipBit    bool   // schnorr: flip one bit after signing
	wrongKey   bool   // sign with an unrelated key
}

// slot is one initial stack item: a literal or a signature request.
type slot struct {
	lit []byte
	sig *sigReq
}

const (
	ctxBare = iota
	ctxP2SH
	ctxP2WSH
	ctxP2SHP2WSH
	ctxTapscript
	ctxCount
)

var ctxNames = []string{"bare", "p2sh", "p2wsh", "p2sh-p2wsh", "tapscript"}

// builder emits a script and tracks what the generator needs to know to sign for it.
type builder struct {
	r          *mon.Rand
	ctx        int
	b          []byte
	exec       bool   // emitting at an executed position
	opIdx      uint32 // opcode index of the next opcode
	codeStart  int
	codesepPos uint32
	consumed   []slot // initial stack items in the order the program consumes them (top first)
	ops        int    // non-push opcodes emitted (op-count budget outside tapscript)
	depth      int    // nesting depth of fragments
	feat       map[string]int
}

func newBuilder(r *mon.Rand, ctx int) *builder {
	return &builder{r: r, ctx: ctx, exec: true, codesepPos: 0xffffffff, feat: map[string]int{}}
}

func (b *builder) tap() bool { return b.ctx == ctxTapscript }
func (b *builder) v0() bool  { return b.ctx == ctxP2WSH || b.ctx == ctxP2SHP2WSH }

func (b *builder) op(ops ...byte) {
	for _, o := range ops {
		b.b = append(b.b, o)
		b.opIdx++
		if o > rs.OP_16 {
			b.ops++
		}
	}
}

func (b *builder) raw(p []byte) {
	b.b = append(b.b, p...)
	b.opIdx++
}

// push emits a data push; nonMinimal picks a longer-than-needed push opcode.
func (b *builder) push(data []byte) {
	r := b.r
	if r.Chance(1, 25) {
		// non-minimal push form
		n := len(data)
		var p []byte
		switch k := r.Intn(3); {
		case k == 0 && n <= 0xff:
			p = append([]byte{rs.OP_PUSHDATA1, byte(n)}, data...)
		case k == 1 && n <= 0xffff:
			p = append([]byte{rs.OP_PUSHDATA2, byte(n), byte(n >> 8)}, data...)
		default:
			p = append([]byte{rs.OP_PUSHDATA4, byte(n), byte(n >> 8), byte(n >> 16), byte(n >> 24)}, data...)
		}
		b.raw(p)
		return
	}
	// canonical minimal push (small integers become OP_N)
	if len(data) == 1 && data[0] >= 1 && data[0] <= 16 {
		b.op(rs.OP_1 - 1 + data[0])
		return
	}
	if len(data) == 1 && data[0] == 0x81 {
		b.op(rs.OP_1NEGATE)
		return
	}
	b.raw(rs.PushData(data))
}

func (b *builder) pushNum(v int64) { b.push(rs.NumSerialize(v)) }

var numEdges = []int64{0, 1, -1, 2, 16, 17, 127, 128, -127, -128, 255, 256, 32767, 32768, -32768, 65535, 65536,
	8388607, 8388608, -8388608, 2147483647, -2147483647, 2147483648, -2147483648, 4294967295, 4294967296,
	549755813887, 549755813888, 500000000, 499999999, 1 << 22, 1<<22 | 5, 1 << 31, 1<<31 | 7, 0xffff}

func (b *builder) randNum() int64 {
	r := b.r
	switch r.Intn(6) {
	case 0, 1:
		return numEdges[r.Intn(len(numEdges))]
	case 2:
		return int64(r.Intn(21)) - 2
	case 3:
		return int64(int32(r.Uint32()))
	case 4:
		return int64(r.Intn(1000)) - 500
	default:
		return numEdges[r.Intn(len(numEdges))] + int64(r.Intn(3)) - 1
	}
}

// numOperand pushes a number, sometimes in a non-minimal or odd encoding.
func (b *builder) numOperand() {
	r := b.r
	v := b.randNum()
	enc := rs.NumSerialize(v)
	switch r.Intn(14) {
	case 0: // padded: move sign bit into an extra byte
		if len(enc) > 0 {
			sign := enc[len(enc)-1] & 0x80
			enc = append(append([]byte{}, enc...), sign)
			enc[len(enc)-2] &^= 0x80
		} else {
			enc = []byte{0}
		}
	case 1: // negative zero
		enc = []byte{0x80}
	case 2:
		enc = []byte{0, 0}
	}
	b.push(enc)
}

var blobSizes = []int{0, 1, 2, 19, 20, 21, 32, 33, 64, 65, 71, 72, 73, 75, 76, 77, 255, 256, 519, 520}

func (b *builder) randBlob() []byte {
	r := b.r
	if r.Chance(1, 60) {
		return r.Bytes(521)
	}
	if r.Chance(1, 3) {
		return r.Bytes(blobSizes[r.Intn(len(blobSizes))])
	}
	return r.Bytes(r.Intn(40))
}

var boolForms = [][]byte{{}, {1}, {0}, {2}, {0x80}, {0, 0}, {1, 0}, {0, 0x80}, {0x81}, {0xff, 0xff}, {1, 2, 3, 4, 5}}

// condValue pushes an IF operand; returns its truth value and whether it is MINIMALIF-clean.
func (b *builder) condLiteral() ([]byte, bool) {
	r := b.r
	var v []byte
	if r.Chance(3, 4) {
		v = boolForms[r.Intn(2)]
	} else {
		v = boolForms[r.Intn(len(boolForms))]
	}
	return v, rs.CastToBool(v)
}

var unaryOps = []byte{rs.OP_1ADD, rs.OP_1SUB, rs.OP_NEGATE, rs.OP_ABS, rs.OP_NOT, rs.OP_0NOTEQUAL}
var binaryOps = []byte{rs.OP_ADD, rs.OP_SUB, rs.OP_BOOLAND, rs.OP_BOOLOR, rs.OP_NUMEQUAL, rs.OP_NUMNOTEQUAL, rs.OP_LESSTHAN,
	rs.OP_GREATERTHAN, rs.OP_LESSTHANOREQUAL, rs.OP_GREATERTHANOREQUAL, rs.OP_MIN, rs.OP_MAX}
var disabledOps = []byte{rs.OP_CAT, rs.OP_SUBSTR, rs.OP_LEFT, rs.OP_RIGHT, rs.OP_INVERT, rs.OP_AND, rs.OP_OR, rs.OP_XOR,
	rs.OP_2MUL, rs.OP_2DIV, rs.OP_MUL, rs.OP_DIV, rs.OP_MOD, rs.OP_LSHIFT, rs.OP_RSHIFT}
var nopOps = []byte{rs.OP_NOP, rs.OP_NOP1, rs.OP_NOP4, 0xb4, 0xb5, 0xb6, 0xb7, 0xb8, rs.OP_NOP10}

// drop removes n items with a random mix of DROP / 2DROP / NIP.
func (b *builder) drop(n int) {
	for n > 0 {
		switch {
		case n >= 2 && b.r.Bool():
			b.op(rs.OP_2DROP)
			n -= 2
		case n >= 2 && b.r.Chance(1, 3):
			b.op(rs.OP_NIP)
			n--
		default:
			b.op(rs.OP_DROP)
			n--
		}
	}
}

// neutral emits one fragment that leaves the stack as it found it (when it does not fail).
func (b *builder) neutral() {
	r := b.r
	b.depth++
	defer func() { b.depth-- }()
	pick := r.Intn(100)
	switch {
	case pick < 8: // plain push + drop
		b.feat["push"]++
		b.push(b.randBlob())
		b.op(rs.OP_DROP)
	case pick < 16: // unary arithmetic
		b.feat["unary"]++
		b.numOperand()
		b.op(unaryOps[r.Intn(len(unaryOps))])
		if r.Chance(1, 4) {
			b.op(unaryOps[r.Intn(len(unaryOps))])
		}
		b.op(rs.OP_DROP)
	case pick < 26: // binary arithmetic
		b.feat["binary"]++
		b.numOperand()
		b.numOperand()
		b.op(binaryOps[r.Intn(len(binaryOps))])
		if r.Chance(1, 4) {
			b.op(unaryOps[r.Intn(len(unaryOps))])
		}
		b.op(rs.OP_DROP)
	case pick < 29: // NUMEQUALVERIFY with equal operands mostly
		b.feat["numequalverify"]++
		v := b.randNum()
		b.pushNum(v)
		if r.Chance(1, 6) {
			v++
		}
		b.pushNum(v)
		b.op(rs.OP_NUMEQUALVERIFY)
	case pick < 32: // WITHIN
		b.feat["within"]++
		b.numOperand()
		b.numOperand()
		b.numOperand()
		b.op(rs.OP_WITHIN, rs.OP_DROP)
	case pick < 44: // stack manipulation on fresh items
		b.feat["stackop"]++
		b.stackOp()
	case pick < 50: // hashes, half of them checked against the expected digest
		b.feat["hash"]++
		data := b.randBlob()
		hop := byte(rs.OP_RIPEMD160 + r.Intn(5))
		b.push(data)
		b.op(hop)
		if r.Bool() {
			var want []byte
			switch hop {
			case rs.OP_RIPEMD160:
				h := ripemd160.New()
				h.Write(data)
				want = h.Sum(nil)
			case rs.OP_SHA1:
				h := sha1.Sum(data)
				want = h[:]
			case rs.OP_SHA256:
				h := sha256.Sum256(data)
				want = h[:]
			case rs.OP_HASH160:
				want = rs.Hash160(data)
			default:
				h := sha256.Sum256(data)
				h = sha256.Sum256(h[:])
				want = h[:]
			}
			if r.Chance(1, 10) {
				want[0] ^= 1
			}
			b.push(want)
			if r.Bool() {
				b.op(rs.OP_EQUALVERIFY)
			} else {
				b.op(rs.OP_EQUAL, rs.OP_VERIFY)
			}
		} else {
			b.op(rs.OP_DROP)
		}
	case pick < 62: // conditionals
		b.feat["cond"]++
		b.conditional()
	case pick < 66: // NOPs / upgradable NOPs
		b.feat["nop"]++
		b.op(nopOps[r.Intn(len(nopOps))])
	case pick < 70: // CLTV / CSV
		b.feat["locktime"]++
		switch r.Intn(4) {
		case 0:
			b.pushNum(int64(r.Intn(3)))
		case 1:
			b.numOperand()
		case 2:
			b.push(rs.NumSerialize(int64(r.Uint32())))
		default:
			b.pushNum(int64(numEdges[r.Intn(len(numEdges))]))
		}
		if r.Bool() {
			b.op(rs.OP_CHECKLOCKTIMEVERIFY)
		} else {
			b.op(rs.OP_CHECKSEQUENCEVERIFY)
		}
		b.op(rs.OP_DROP)
	case pick < 74: // altstack round trip
		b.feat["altstack"]++
		n := 1 + r.Intn(3)
		for i := 0; i < n; i++ {
			b.push(b.randBlob())
			b.op(rs.OP_TOALTSTACK)
		}
		if r.Chance(1, 12) {
			n += r.Intn(3) - 1 // unbalanced on purpose
		}
		for i := 0; i < n; i++ {
			b.op(rs.OP_FROMALTSTACK)
		}
		b.drop(max(n, 0))
	case pick < 78: // garbage CHECKSIG / CHECKSIGADD
		b.feat["garbage-checksig"]++
		b.garbageChecksig()
	case pick < 82 && !b.tap(): // garbage CHECKMULTISIG
		b.feat["garbage-multisig"]++
		b.garbageMultisig()
	case pick < 84: // CODESEPARATOR
		b.feat["codesep"]++
		b.codesep()
	case pick < 86: // DEPTH / SIZE
		b.feat["depth-size"]++
		if r.Bool() {
			b.op(rs.OP_DEPTH, rs.OP_DROP)
		} else {
			b.push(b.randBlob())
			b.op(rs.OP_SIZE)
			b.drop(2)
		}
	case pick < 88: // VERIFY on a literal
		b.feat["verify"]++
		v, _ := b.condLiteral()
		if r.Chance(3, 4) {
			v = []byte{1}
		}
		b.push(v)
		b.op(rs.OP_VERIFY)
	case pick < 90: // IFDUP
		b.feat["ifdup"]++
		v, t := b.condLiteral()
		b.push(v)
		b.op(rs.OP_IFDUP)
		if t {
			b.drop(2)
		} else {
			b.drop(1)
		}
	case pick < 93: // a raw byte from the full alphabet, executed
		b.feat["rawbyte"]++
		b.b = append(b.b, byte(r.Intn(256)))
		b.opIdx++
	case pick < 95: // reserved / unknown / disabled at an executed position
		b.feat["bad-exec"]++
		switch r.Intn(4) {
		case 0:
			b.op(disabledOps[r.Intn(len(disabledOps))])
		case 1:
			b.op([]byte{rs.OP_RESERVED, rs.OP_VER, rs.OP_VERIF, rs.OP_VERNOTIF, rs.OP_RESERVED1, rs.OP_RESERVED2}[r.Intn(6)])
		case 2:
			b.op(byte(0xba + r.Intn(0x46)))
		default:
			b.op(rs.OP_RETURN)
		}
	case pick < 97: // EQUAL on blobs
		b.feat["equal"]++
		x := b.randBlob()
		y := x
		if r.Chance(1, 3) {
			y = b.randBlob()
		}
		b.push(x)
		b.push(y)
		b.op(rs.OP_EQUAL, rs.OP_DROP)
	default: // PICK / ROLL
		b.feat["pickroll"]++
		n := r.Intn(4)
		for i := 0; i <= n; i++ {
			b.push(b.randBlob())
		}
		idx := int64(n)
		switch r.Intn(8) {
		case 0:
			idx = int64(n + 1 + r.Intn(2)) // out of range (may reach below into the caller's items)
		case 1:
			idx = -1
		default:
			idx = int64(r.Intn(n + 1))
		}
		b.pushNum(idx)
		if r.Bool() {
			b.op(rs.OP_PICK)
			b.drop(n + 2)
		} else {
			b.op(rs.OP_ROLL)
			b.drop(n + 1)
		}
	}
}

// stackOp pushes exactly the items an operator needs, applies it and drops the result.
func (b *builder) stackOp() {
	r := b.r
	type so struct {
		op       byte
		need, up int // items needed, items afterwards
	}
	ops := []so{{rs.OP_2DROP, 2, 0}, {rs.OP_2DUP, 2, 4}, {rs.OP_3DUP, 3, 6}, {rs.OP_2OVER, 4, 6}, {rs.OP_2ROT, 6, 6},
		{rs.OP_2SWAP, 4, 4}, {rs.OP_DROP, 1, 0}, {rs.OP_DUP, 1, 2}, {rs.OP_NIP, 2, 1}, {rs.OP_OVER, 2, 3},
		{rs.OP_ROT, 3, 3}, {rs.OP_SWAP, 2, 2}, {rs.OP_TUCK, 2, 3}}
	o := ops[r.Intn(len(ops))]
	have := o.need
	if r.Chance(1, 10) && have > 0 {
		have-- // one short: fails unless the caller's items are below
	}
	for i := 0; i < have; i++ {
		if r.Bool() {
			b.pushNum(int64(i))
		} else {
			b.push(b.randBlob())
		}
	}
	b.op(o.op)
	b.drop(o.up - (o.need - have))
}

// conditional emits  <cond> IF|NOTIF body [ELSE body]* ENDIF  with neutral bodies; non-executed
// bodies may hold disabled / reserved / always-illegal opcodes and malformed-looking bytes.
func (b *builder) conditional() {
	r := b.r
	v, truth := b.condLiteral()
	b.push(v)
	notif := r.Bool()
	if notif {
		b.op(rs.OP_NOTIF)
		truth = !truth
	} else {
		b.op(rs.OP_IF)
	}
	outer := b.exec
	branches := 1
	if r.Chance(2, 3) {
		branches = 2
	}
	if r.Chance(1, 12) {
		branches = 3 + r.Intn(2) // multiple ELSEs are legal
	}
	cur := truth
	for i := 0; i < branches; i++ {
		if i > 0 {
			b.op(rs.OP_ELSE)
			cur = !cur
		}
		b.exec = outer && cur
		b.body()
	}
	b.exec = outer
	if !r.Chance(1, 40) {
		b.op(rs.OP_ENDIF)
	}
}

func (b *builder) body() {
	r := b.r
	n := r.Intn(3)
	if b.depth > 3 {
		n = r.Intn(2)
	}
	for i := 0; i < n; i++ {
		if !b.exec && r.Chance(1, 3) {
			// things that only matter when merely passed over
			switch r.Intn(6) {
			case 0:
				b.feat["skip-disabled"]++
				b.op(disabledOps[r.Intn(len(disabledOps))])
			case 1:
				b.feat["skip-reserved"]++
				b.op([]byte{rs.OP_RESERVED, rs.OP_VER, rs.OP_RESERVED1, rs.OP_RESERVED2, rs.OP_RETURN}[r.Intn(5)])
			case 2:
				b.feat["skip-verif"]++
				b.op([]byte{rs.OP_VERIF, rs.OP_VERNOTIF}[r.Intn(2)])
			case 3:
				b.feat["skip-unknown"]++
				b.op(byte(0xba + r.Intn(0x46)))
			case 4:
				b.feat["skip-bigpush"]++
				b.raw(append([]byte{rs.OP_PUSHDATA2, 521 & 0xff, 521 >> 8}, r.Bytes(521)...))
			default:
				b.feat["skip-codesep"]++
				b.op(rs.OP_CODESEPARATOR)
			}
			continue
		}
		b.neutral()
	}
}

func (b *builder) codesep() {
	b.op(rs.OP_CODESEPARATOR)
	if b.exec {
		b.codeStart = len(b.b)
		b.codesepPos = b.opIdx - 1
	}
}

func (b *builder) randSigBlob() []byte {
	r := b.r
	switch r.Intn(8) {
	case 7:
		return derBoundaryBlob(r)
	case 6: // strict DER with tiny integers (and occasionally r or s >= n)
		d := []byte{0x30, 0x06, 0x02, 0x01, byte(1 + r.Intn(127)), 0x02, 0x01, byte(1 + r.Intn(127))}
		if r.Chance(1, 4) {
			n, _ := hexBytes("00fffffffffffffffffffffffffffffffebaaedce6af48a03bbfd25e8cd0364141")
			n[32] += byte(r.Intn(3))
			d = append([]byte{0x30, 0x26, 0x02, 0x01, 0x01, 0x02, 0x21}, n...)
		}
		return append(d, byte([]int{1, 2, 3, 0x81, 0x82, 0x83}[r.Intn(6)]))
	case 0:
		return nil
	case 1:
		return r.Bytes(64)
	case 2:
		return r.Bytes(65)
	case 3: // DER shaped
		rr := r.Bytes(32)
		rr[0] &= 0x7f
		ss := r.Bytes(32)
		ss[0] &= 0x7f
		d := append([]byte{0x30, 0x44, 0x02, 0x20}, rr...)
		d = append(d, 0x02, 0x20)
		d = append(d, ss...)
		return append(d, byte([]int{1, 2, 3, 0x81, 0x82, 0x83, 0, 4, 0x80}[r.Intn(9)]))
	default:
		return r.Bytes(r.Intn(80))
	}
}

func (b *builder) randPubBlob() []byte {
	r := b.r
	k := newKey(r)
	switch r.Intn(11) {
	case 9: // well-formed compressed encoding whose x may not be on the curve
		p := r.Bytes(33)
		p[0] = 2 + byte(r.Intn(2))
		return p
	case 10: // well-formed uncompressed encoding of a point off the curve
		p := k.uncompressed()
		p[40] ^= 1
		return p
	case 0:
		return nil
	case 1:
		return k.compressed()
	case 2:
		return k.uncompressed()
	case 3:
		return k.hybrid()
	case 4:
		return k.xonly()
	case 5:
		return r.Bytes(33)
	case 6:
		p := k.compressed()
		p[0] = byte(r.Intn(8))
		return p
	case 7:
		return r.Bytes(32)
	default:
		return r.Bytes(r.Intn(70))
	}
}

func (b *builder) garbageChecksig() {
	r := b.r
	if b.tap() && r.Bool() {
		b.push(b.randSigBlob())
		b.numOperand()
		b.push(b.randPubBlob())
		b.op(rs.OP_CHECKSIGADD, rs.OP_DROP)
		return
	}
	b.push(b.randSigBlob())
	b.push(b.randPubBlob())
	if r.Chance(1, 5) {
		b.op(rs.OP_CHECKSIGVERIFY)
	} else {
		b.op(rs.OP_CHECKSIG, rs.OP_DROP)
	}
}

func (b *builder) garbageMultisig() {
	r := b.r
	n := r.Intn(4)
	if r.Chance(1, 6) {
		n = 19 + r.Intn(3)
	}
	m := 0
	if n > 0 {
		m = r.Intn(n + 1)
	}
	if r.Chance(1, 10) {
		m = n + 1
	}
	if r.Chance(1, 4) {
		b.push([]byte{byte(1 + r.Intn(3))}) // non-null dummy
	} else {
		b.op(rs.OP_0)
	}
	for i := 0; i < m; i++ {
		if r.Bool() {
			b.op(rs.OP_0)
		} else {
			b.push(b.randSigBlob())
		}
	}
	mm := int64(m)
	if r.Chance(1, 15) {
		mm = -1
	}
	b.pushNum(mm)
	for i := 0; i < n; i++ {
		b.push(b.randPubBlob())
	}
	b.pushNum(int64(n))
	if r.Chance(1, 5) {
		b.op(rs.OP_CHECKMULTISIGVERIFY)
	} else {
		b.op(rs.OP_CHECKMULTISIG, rs.OP_DROP)
	}
	b.ops += n
}

var ecdsaHashTypes = []byte{1, 2, 3, 0x81, 0x82, 0x83}
var schnorrHashTypes = []byte{0, 1, 2, 3, 0x81, 0x82, 0x83}

func (b *builder) newSigReq(schnorr bool) *sigReq {
	r := b.r
	q := &sigReq{schnorr: schnorr, k: newKey(r), codeStart: b.codeStart, codesepPos: b.codesepPos}
	if schnorr {
		q.hashType = schnorrHashTypes[r.Intn(len(schnorrHashTypes))]
	} else {
		q.hashType = ecdsaHashTypes[r.Intn(len(ecdsaHashTypes))]
		if r.Chance(1, 20) {
			q.hashType = byte(r.Intn(256)) // undefined types are consensus-valid without STRICTENC
		}
	}
	q.signType = q.hashType
	return q
}

// corruptSig applies one single-point corruption to a signature request.
func corruptSig(r *mon.Rand, q *sigReq) string {
	if q.schnorr {
		switch r.Intn(4) {
		case 0:
			q.flipBit = true
			return "schnorr-flip"
		case 1:
			q.signType = schnorrHashTypes[r.Intn(len(schnorrHashTypes))]
			return "schnorr-hashtype-mismatch"
		case 2:
			q.hashType = []byte{4, 0x80, 0x84, 0x7f, 0xff, 0x10}[r.Intn(6)]
			q.signType = 1
			return "schnorr-invalid-hashtype"
		default:
			q.wrongKey = true
			return "schnorr-wrong-key"
		}
	}
	switch r.Intn(4) {
	case 0:
		q.enc = 1 + r.Intn(encCount-1)
		if r.Chance(1, 4) {
			q.enc = encLaxShape
		}
		return "ecdsa-enc-" + string(rune('0'+q.enc))
	case 1:
		q.signType = q.hashType ^ byte(1+r.Intn(3))
		return "ecdsa-hashtype-mismatch"
	case 2:
		q.hashType = []byte{0, 4, 0x80, 0x84, 0x7f, 0xff, 0x41}[r.Intn(7)]
		q.signType = q.hashType
		return "ecdsa-undefined-hashtype"
	default:
		q.wrongKey = true
		return "ecdsa-wrong-key"
	}
}

// signed emits one fragment that consumes real signatures from the initial stack.
func (b *builder) signed() {
	r := b.r
	b.feat["signed"]++
	if b.tap() {
		switch r.Intn(3) {
		case 0: // <pk> CHECKSIGVERIFY
			q := b.newSigReq(true)
			b.consumed = append(b.consumed, slot{sig: q})
			b.push(q.k.xonly())
			if r.Bool() {
				b.op(rs.OP_CHECKSIGVERIFY)
			} else {
				b.op(rs.OP_CHECKSIG, rs.OP_VERIFY)
			}
		case 1: // k-of-n via CHECKSIGADD
			n := 1 + r.Intn(4)
			want := 0
			for i := 0; i < n; i++ {
				q := b.newSigReq(true)
				if r.Chance(1, 4) {
					b.consumed = append(b.consumed, slot{lit: []byte{}})
				} else {
					b.consumed = append(b.consumed, slot{sig: q})
					want++
				}
				b.push(q.k.xonly())
				if i == 0 {
					b.op(rs.OP_CHECKSIG)
				} else {
					b.op(rs.OP_CHECKSIGADD)
				}
			}
			b.pushNum(int64(want))
			b.op(rs.OP_NUMEQUALVERIFY)
		default: // unknown public key type: any non-empty signature counts
			b.consumed = append(b.consumed, slot{lit: r.Bytes(1 + r.Intn(70))})
			pk := r.Bytes([]int{1, 31, 33, 34, 65}[r.Intn(5)])
			b.push(pk)
			b.op(rs.OP_CHECKSIGVERIFY)
		}
		return
	}
	switch r.Intn(3) {
	case 0, 1: // <pk> CHECKSIGVERIFY with any key form
		q := b.newSigReq(false)
		form := 0
		if r.Chance(1, 3) {
			form = r.Intn(3)
		}
		b.consumed = append(b.consumed, slot{sig: q})
		b.push(q.k.form(form))
		if r.Bool() {
			b.op(rs.OP_CHECKSIGVERIFY)
		} else {
			b.op(rs.OP_CHECKSIG, rs.OP_VERIFY)
		}
	default: // m-of-n CHECKMULTISIG
		n := 1 + r.Intn(3)
		if r.Chance(1, 12) {
			n = 20
		}
		m := 1 + r.Intn(n)
		if m > 3 {
			m = 1 + r.Intn(3)
		}
		keys := make([]*sigReq, n)
		for i := range keys {
			keys[i] = b.newSigReq(false)
		}
		// choose which keys sign (ascending), consumption order is top first = last signer first
		signers := r.Perm(n)[:m]
		for i := 0; i < len(signers); i++ {
			for j := i + 1; j < len(signers); j++ {
				if signers[j] < signers[i] {
					signers[i], signers[j] = signers[j], signers[i]
				}
			}
		}
		for i := m - 1; i >= 0; i-- {
			b.consumed = append(b.consumed, slot{sig: keys[signers[i]]})
		}
		b.consumed = append(b.consumed, slot{lit: []byte{}}) // dummy
		b.pushNum(int64(m))
		for i := 0; i < n; i++ {
			b.push(keys[i].k.form(0))
		}
		b.pushNum(int64(n))
		b.op(rs.OP_CHECKMULTISIGVERIFY)
		b.ops += n
	}
}

// consumer emits a fragment that consumes a literal initial-stack item (hash lock, selector).
func (b *builder) consumer() {
	r := b.r
	b.feat["consumer"]++
	switch r.Intn(3) {
	case 0: // hash lock
		pre := b.randBlob()
		if len(pre) > 520 {
			pre = pre[:520]
		}
		h := sha256.Sum256(pre)
		b.consumed = append(b.consumed, slot{lit: pre})
		b.op(rs.OP_SHA256)
		b.push(h[:])
		b.op(rs.OP_EQUALVERIFY)
	case 1: // branch selector from the initial stack (MINIMALIF territory)
		v, truth := b.condLiteral()
		b.consumed = append(b.consumed, slot{lit: v})
		b.op(rs.OP_IF)
		outer := b.exec
		b.exec = outer && truth
		b.body()
		b.op(rs.OP_ELSE)
		b.exec = outer && !truth
		b.body()
		b.exec = outer
		b.op(rs.OP_ENDIF)
	default:
		b.consumed = append(b.consumed, slot{lit: b.randBlob()})
		b.op(rs.OP_DROP)
	}
}

// program builds a whole random program for the builder's context.
func (b *builder) program(nFrag int, withSigs bool) {
	r := b.r
	for i := 0; i < nFrag; i++ {
		switch {
		case withSigs && r.Chance(1, 3):
			b.signed()
		case r.Chance(1, 8):
			b.consumer()
		default:
			b.neutral()
		}
	}
	// final value
	switch r.Intn(12) {
	case 0:
		b.op(rs.OP_0)
	case 1:
		v, _ := b.condLiteral()
		b.push(v)
	case 2:
		// nothing: result is whatever is left
	default:
		b.op(rs.OP_1)
	}
}

func hexBytes(s string) ([]byte, error) { return hex.DecodeString(s) }

// derBoundaryBlob builds a DER-shaped signature whose length fields sit at, just below or just past the values that
// still fit the blob (truncations with a matching sequence length, an R that runs to the last byte, S lengths off by
// one), followed by a hash type byte: the shapes on which the encoding checker indexes closest to the end of its input.
func derBoundaryBlob(r *mon.Rand) []byte {
	ht := byte([]int{1, 2, 3, 0x81, 0x82, 0x83}[r.Intn(6)])
	integer := func(n int) []byte {
		v := r.Bytes(n)
		v[0] &= 0x7f
		if v[0] == 0 {
			v[0] = 1
		}
		return v
	}
	rl, sl := 1+r.Intn(33), 1+r.Intn(33)
	if r.Chance(1, 3) {
		rl, sl = 1+r.Intn(4), 1+r.Intn(4)
	}
	d := append([]byte{0x30, byte(4 + rl + sl), 0x02, byte(rl)}, integer(rl)...)
	d = append(d, 0x02, byte(sl))
	d = append(d, integer(sl)...)
	switch r.Intn(6) {
	case 0: // cut anywhere; the sequence length follows the cut
		d = d[:r.Intn(len(d)+1)]
		if len(d) >= 2 {
			d[1] = byte(len(d) - 2)
		}
	case 1: // an R length that reaches the end of the blob, or stops one or two bytes short of it / goes one past it
		total := 8 + r.Intn(14)
		d = make([]byte, total)
		for i := range d {
			d[i] = []byte{0x02, 0x01, 0x00, 0x7f, byte(r.Intn(256))}[r.Intn(5)]
		}
		d[0], d[1], d[2] = 0x30, byte(total-2), 0x02
		d[3] = byte(total - 5 + r.Intn(4) - 2)
	case 2: // S length off by one or two
		d[5+rl] = byte(sl + r.Intn(5) - 2)
	case 3: // sequence length off by one
		d[1] = byte(int(d[1]) + 2*r.Intn(2) - 1)
	case 4: // R length off by one or two (S marker and length are then read from inside R or S)
		d[3] = byte(rl + r.Intn(5) - 2)
	}
	if r.Chance(1, 8) {
		return d // no hash type byte at all
	}
	return append(d, ht)
}
