package main

import (
	"crypto/sha256"
	"encoding/binary"
	"encoding/hex"
	"encoding/json"
	"errors"
	"fmt"
	"math"
	"os"
	"strconv"
	"strings"

	"verif/mon"
	rs "verif/ref/refscript"
)

// ---- own parser for Core's script short form ----

var opByName = map[string]byte{
	"0": 0x00, "FALSE": 0x00, "PUSHDATA1": 0x4c, "PUSHDATA2": 0x4d, "PUSHDATA4": 0x4e, "1NEGATE": 0x4f,
	"RESERVED": 0x50, "TRUE": 0x51, "NOP": 0x61, "VER": 0x62, "IF": 0x63, "NOTIF": 0x64, "VERIF": 0x65,
	"VERNOTIF": 0x66, "ELSE": 0x67, "ENDIF": 0x68, "VERIFY": 0x69, "RETURN": 0x6a, "TOALTSTACK": 0x6b,
	"FROMALTSTACK": 0x6c, "2DROP": 0x6d, "2DUP": 0x6e, "3DUP": 0x6f, "2OVER": 0x70, "2ROT": 0x71, "2SWAP": 0x72,
	"IFDUP": 0x73, "DEPTH": 0x74, "DROP": 0x75, "DUP": 0x76, "NIP": 0x77, "OVER": 0x78, "PICK": 0x79, "ROLL": 0x7a,
	"ROT": 0x7b, "SWAP": 0x7c, "TUCK": 0x7d, "CAT": 0x7e, "SUBSTR": 0x7f, "LEFT": 0x80, "RIGHT": 0x81, "SIZE": 0x82,
	"INVERT": 0x83, "AND": 0x84, "OR": 0x85, "XOR": 0x86, "EQUAL": 0x87, "EQUALVERIFY": 0x88, "RESERVED1": 0x89,
	"RESERVED2": 0x8a, "1ADD": 0x8b, "1SUB": 0x8c, "2MUL": 0x8d, "2DIV": 0x8e, "NEGATE": 0x8f, "ABS": 0x90,
	"NOT": 0x91, "0NOTEQUAL": 0x92, "ADD": 0x93, "SUB": 0x94, "MUL": 0x95, "DIV": 0x96, "MOD": 0x97, "LSHIFT": 0x98,
	"RSHIFT": 0x99, "BOOLAND": 0x9a, "BOOLOR": 0x9b, "NUMEQUAL": 0x9c, "NUMEQUALVERIFY": 0x9d, "NUMNOTEQUAL": 0x9e,
	"LESSTHAN": 0x9f, "GREATERTHAN": 0xa0, "LESSTHANOREQUAL": 0xa1, "GREATERTHANOREQUAL": 0xa2, "MIN": 0xa3,
	"MAX": 0xa4, "WITHIN": 0xa5, "RIPEMD160": 0xa6, "SHA1": 0xa7, "SHA256": 0xa8, "HASH160": 0xa9, "HASH256": 0xaa,
	"CODESEPARATOR": 0xab, "CHECKSIG": 0xac, "CHECKSIGVERIFY": 0xad, "CHECKMULTISIG": 0xae,
	"CHECKMULTISIGVERIFY": 0xaf, "NOP1": 0xb0, "CHECKLOCKTIMEVERIFY": 0xb1, "NOP2": 0xb1,
	"CHECKSEQUENCEVERIFY": 0xb2, "NOP3": 0xb2, "NOP4": 0xb3, "NOP5": 0xb4, "NOP6": 0xb5, "NOP7": 0xb6, "NOP8": 0xb7,
	"NOP9": 0xb8, "NOP10": 0xb9, "CHECKSIGADD": 0xba, "INVALIDOPCODE": 0xff,
}

func parseShortForm(s string) ([]byte, error) {
	var out []byte
	for _, tok := range strings.Fields(s) {
		if n, err := strconv.ParseInt(tok, 10, 64); err == nil {
			out = append(out, rs.PushInt(n)...)
			continue
		}
		if strings.HasPrefix(tok, "0x") {
			b, err := hex.DecodeString(tok[2:])
			if err != nil {
				return nil, fmt.Errorf("bad hex token %q", tok)
			}
			out = append(out, b...)
			continue
		}
		if len(tok) >= 2 && tok[0] == '\'' && tok[len(tok)-1] == '\'' {
			out = append(out, rs.PushData([]byte(tok[1:len(tok)-1]))...)
			continue
		}
		name := strings.TrimPrefix(tok, "OP_")
		if v, ok := opByName[name]; ok {
			// bare numbers were handled above, so "1".."16" never reach here; OP_1..OP_16 do
			out = append(out, v)
			continue
		}
		if strings.HasPrefix(tok, "OP_") {
			if n, err := strconv.Atoi(name); err == nil && n >= 1 && n <= 16 {
				out = append(out, byte(0x50+n))
				continue
			}
		}
		return nil, fmt.Errorf("bad token %q", tok)
	}
	return out, nil
}

// ---- own transaction (de)serialisation ----

type rd struct {
	b   []byte
	err error
}

func (r *rd) take(n int) []byte {
	if r.err != nil || n < 0 || len(r.b) < n {
		r.err = errors.New("short read")
		return make([]byte, max(n, 0))
	}
	v := r.b[:n]
	r.b = r.b[n:]
	return v
}
func (r *rd) u8() byte    { return r.take(1)[0] }
func (r *rd) u32() uint32 { return binary.LittleEndian.Uint32(r.take(4)) }
func (r *rd) u64() uint64 { return binary.LittleEndian.Uint64(r.take(8)) }
func (r *rd) compact() uint64 {
	switch c := r.u8(); c {
	case 0xfd:
		return uint64(binary.LittleEndian.Uint16(r.take(2)))
	case 0xfe:
		return uint64(r.u32())
	case 0xff:
		return r.u64()
	default:
		return uint64(c)
	}
}
func (r *rd) varBytes() []byte {
	n := r.compact()
	if n > uint64(len(r.b)) {
		r.err = errors.New("short read")
		return nil
	}
	return append([]byte{}, r.take(int(n))...)
}

func parseTxOut(r *rd) rs.TxOut {
	v := int64(r.u64())
	return rs.TxOut{Value: v, PkScript: r.varBytes()}
}

func parseTx(b []byte) (*rs.Tx, error) {
	r := &rd{b: b}
	tx := &rs.Tx{}
	tx.Version = int32(r.u32())
	nin := r.compact()
	witness := false
	if nin == 0 {
		if r.u8() != 1 {
			return nil, errors.New("bad witness flag")
		}
		witness = true
		nin = r.compact()
	}
	if nin > 100000 {
		return nil, errors.New("too many inputs")
	}
	for i := uint64(0); i < nin && r.err == nil; i++ {
		var in rs.TxIn
		copy(in.PrevHash[:], r.take(32))
		in.PrevIndex = r.u32()
		in.ScriptSig = r.varBytes()
		in.Sequence = r.u32()
		tx.In = append(tx.In, in)
	}
	nout := r.compact()
	if nout > 100000 {
		return nil, errors.New("too many outputs")
	}
	for i := uint64(0); i < nout && r.err == nil; i++ {
		tx.Out = append(tx.Out, parseTxOut(r))
	}
	if witness {
		for i := range tx.In {
			n := r.compact()
			if n > 100000 {
				return nil, errors.New("too many witness items")
			}
			for j := uint64(0); j < n && r.err == nil; j++ {
				tx.In[i].Witness = append(tx.In[i].Witness, r.varBytes())
			}
		}
	}
	tx.LockTime = r.u32()
	if r.err != nil {
		return nil, r.err
	}
	if len(r.b) != 0 {
		return nil, errors.New("trailing bytes")
	}
	return tx, nil
}

func putCompact(b []byte, n uint64) []byte {
	switch {
	case n < 0xfd:
		return append(b, byte(n))
	case n <= 0xffff:
		return append(b, 0xfd, byte(n), byte(n>>8))
	case n <= 0xffffffff:
		return append(b, 0xfe, byte(n), byte(n>>8), byte(n>>16), byte(n>>24))
	}
	return binary.LittleEndian.AppendUint64(append(b, 0xff), n)
}

// txid is the double-SHA256 of the witness-stripped serialisation.
func txid(tx *rs.Tx) [32]byte {
	var b []byte
	b = binary.LittleEndian.AppendUint32(b, uint32(tx.Version))
	b = putCompact(b, uint64(len(tx.In)))
	for i := range tx.In {
		in := &tx.In[i]
		b = append(b, in.PrevHash[:]...)
		b = binary.LittleEndian.AppendUint32(b, in.PrevIndex)
		b = putCompact(b, uint64(len(in.ScriptSig)))
		b = append(b, in.ScriptSig...)
		b = binary.LittleEndian.AppendUint32(b, in.Sequence)
	}
	b = putCompact(b, uint64(len(tx.Out)))
	for i := range tx.Out {
		b = binary.LittleEndian.AppendUint64(b, uint64(tx.Out[i].Value))
		b = putCompact(b, uint64(len(tx.Out[i].PkScript)))
		b = append(b, tx.Out[i].PkScript...)
	}
	b = binary.LittleEndian.AppendUint32(b, tx.LockTime)
	h := sha256.Sum256(b)
	return sha256.Sum256(h[:])
}

// creditSpend builds Core's script_tests transaction pair.
func creditSpend(scriptSig, scriptPubKey []byte, witness [][]byte, amount int64) *spend {
	credit := &rs.Tx{Version: 1}
	ci := rs.TxIn{PrevIndex: 0xffffffff, ScriptSig: []byte{0, 0}, Sequence: 0xffffffff}
	credit.In = []rs.TxIn{ci}
	credit.Out = []rs.TxOut{{Value: amount, PkScript: scriptPubKey}}
	sp := &rs.Tx{Version: 1}
	sp.In = []rs.TxIn{{PrevHash: txid(credit), PrevIndex: 0, ScriptSig: scriptSig, Sequence: 0xffffffff, Witness: witness}}
	sp.Out = []rs.TxOut{{Value: amount, PkScript: []byte{}}}
	return &spend{tx: sp, idx: 0, spent: []rs.TxOut{{Value: amount, PkScript: scriptPubKey}}}
}

// ---- vector loading ----

type scriptVec struct {
	line     int
	witness  [][]byte
	amount   int64
	sig, pk  []byte
	flags    rs.Flags
	expected string
	comment  string
}

var numsKey, _ = hex.DecodeString("50929b74c1a04954b78b4b6035e97a5e078a5a0f28ec96d547bfee9ace803ac0")

func loadScriptTests() ([]scriptVec, error) {
	raw, err := os.ReadFile(vectorPath("script_tests.json"))
	if err != nil {
		return nil, err
	}
	var tests [][]any
	if err := json.Unmarshal(raw, &tests); err != nil {
		return nil, err
	}
	var out []scriptVec
	for i, t := range tests {
		if len(t) == 1 {
			continue
		}
		v := scriptVec{line: i}
		off := 0
		var witStr []string
		if w, ok := t[0].([]any); ok {
			off = 1
			for _, e := range w[:len(w)-1] {
				witStr = append(witStr, e.(string))
			}
			v.amount = int64(math.Round(w[len(w)-1].(float64) * 1e8))
		}
		if len(t) < off+4 {
			return nil, fmt.Errorf("script_tests line %d: short", i)
		}
		pkStr := t[off+1].(string)
		// taproot placeholders (#SCRIPT#, #CONTROLBLOCK#, #TAPROOTOUTPUT#), as in Core's script_tests.cpp:
		// one leaf of version 0xc0 under a fixed internal key.
		var tapScript []byte
		for _, e := range witStr {
			if strings.HasPrefix(e, "#SCRIPT#") {
				s, err := parseShortForm(strings.TrimPrefix(e, "#SCRIPT#"))
				if err != nil {
					return nil, fmt.Errorf("script_tests line %d: %v", i, err)
				}
				tapScript = s
			}
		}
		var control, outKey []byte
		if tapScript != nil {
			leaf := rs.TapLeafHash(rs.TaprootLeafTapscript, tapScript)
			q, odd, ok := rs.TapTweakOutput(numsKey, leaf[:])
			if !ok {
				return nil, fmt.Errorf("script_tests line %d: tweak failed", i)
			}
			c0 := byte(rs.TaprootLeafTapscript)
			if odd {
				c0 |= 1
			}
			control = append([]byte{c0}, numsKey...)
			outKey = q[:]
		}
		for _, e := range witStr {
			switch {
			case strings.HasPrefix(e, "#SCRIPT#"):
				v.witness = append(v.witness, tapScript)
			case e == "#CONTROLBLOCK#":
				v.witness = append(v.witness, control)
			default:
				b, err := hex.DecodeString(e)
				if err != nil {
					return nil, fmt.Errorf("script_tests line %d: %v", i, err)
				}
				v.witness = append(v.witness, b)
			}
		}
		if strings.Contains(pkStr, "#TAPROOTOUTPUT#") {
			pkStr = strings.Replace(pkStr, "#TAPROOTOUTPUT#", "0x"+hex.EncodeToString(outKey), 1)
		}
		if v.sig, err = parseShortForm(t[off].(string)); err != nil {
			return nil, fmt.Errorf("script_tests line %d: %v", i, err)
		}
		if v.pk, err = parseShortForm(pkStr); err != nil {
			return nil, fmt.Errorf("script_tests line %d: %v", i, err)
		}
		f, ok := rs.ParseFlags(t[off+2].(string))
		if !ok {
			return nil, fmt.Errorf("script_tests line %d: bad flags %q", i, t[off+2])
		}
		// Core's test driver fills in the implied flags
		if f&rs.CLEANSTACK != 0 {
			f |= rs.P2SH | rs.WITNESS
		}
		if f&rs.WITNESS != 0 {
			f |= rs.P2SH
		}
		v.flags = f
		v.expected = t[off+3].(string)
		if len(t) > off+4 {
			v.comment, _ = t[off+4].(string)
		}
		out = append(out, v)
	}
	return out, nil
}

// sameErrClass: Core reports numeric decoding failures as UNKNOWN_ERROR in older vectors and
// SCRIPTNUM in newer ones; everything else must match by name.
func sameErrClass(got, want string) bool {
	if got == want {
		return true
	}
	num := map[string]bool{"SCRIPTNUM": true, "UNKNOWN_ERROR": true}
	if num[got] && num[want] {
		return true
	}
	// The copy of script_tests.json in /repo labels "IF/NOTIF on an empty witness stack" as
	// INVALID_STACK_OPERATION (8 entries) where Core's interpreter sets UNBALANCED_CONDITIONAL;
	// only the label differs, the verdict is the same.
	return got == "UNBALANCED_CONDITIONAL" && want == "INVALID_STACK_OPERATION"
}

type txVec struct {
	line     int
	tx       *rs.Tx
	prevouts map[string]rs.TxOut
	flagStr  string
	raw      string
}

func loadTxTests(name string) ([]txVec, error) {
	raw, err := os.ReadFile(vectorPath(name))
	if err != nil {
		return nil, err
	}
	var tests [][]any
	if err := json.Unmarshal(raw, &tests); err != nil {
		return nil, err
	}
	var out []txVec
	for i, t := range tests {
		inputs, ok := t[0].([]any)
		if !ok {
			continue
		}
		if len(t) != 3 {
			return nil, fmt.Errorf("%s line %d: bad length", name, i)
		}
		v := txVec{line: i, prevouts: map[string]rs.TxOut{}, flagStr: t[2].(string), raw: t[1].(string)}
		for _, ii := range inputs {
			in := ii.([]any)
			hb, err := hex.DecodeString(in[0].(string))
			if err != nil || len(hb) != 32 {
				return nil, fmt.Errorf("%s line %d: bad prev hash", name, i)
			}
			for a, b := 0, 31; a < b; a, b = a+1, b-1 {
				hb[a], hb[b] = hb[b], hb[a]
			}
			idx := uint32(int32(in[1].(float64)))
			script, err := parseShortForm(in[2].(string))
			if err != nil {
				return nil, fmt.Errorf("%s line %d: %v", name, i, err)
			}
			var val int64
			if len(in) >= 4 {
				val = int64(in[3].(float64))
			}
			v.prevouts[fmt.Sprintf("%x:%d", hb, idx)] = rs.TxOut{Value: val, PkScript: script}
		}
		b, err := hex.DecodeString(v.raw)
		if err != nil {
			return nil, fmt.Errorf("%s line %d: %v", name, i, err)
		}
		if v.tx, err = parseTx(b); err != nil {
			return nil, fmt.Errorf("%s line %d: %v", name, i, err)
		}
		out = append(out, v)
	}
	return out, nil
}

func (v *txVec) spent() ([]rs.TxOut, bool) {
	var out []rs.TxOut
	for i := range v.tx.In {
		p, ok := v.prevouts[fmt.Sprintf("%x:%d", v.tx.In[i].PrevHash[:], v.tx.In[i].PrevIndex)]
		if !ok {
			return nil, false
		}
		out = append(out, p)
	}
	return out, true
}

type tapVec struct {
	Tx       string   `json:"tx"`
	Prevouts []string `json:"prevouts"`
	Index    int      `json:"index"`
	Flags    string   `json:"flags"`
	Comment  string   `json:"comment"`
	Success  *tapWit  `json:"success"`
	Failure  *tapWit  `json:"failure"`
	File     string   `json:"_file"`
}

type tapWit struct {
	ScriptSig string   `json:"scriptSig"`
	Witness   []string `json:"witness"`
}

func loadTaprootRef() ([]tapVec, error) {
	raw, err := os.ReadFile(vectorPath("taproot_ref.json"))
	if err != nil {
		return nil, err
	}
	var out []tapVec
	if err := json.Unmarshal(raw, &out); err != nil {
		return nil, err
	}
	return out, nil
}

func (t *tapVec) build(w *tapWit) (*spend, error) {
	b, err := hex.DecodeString(t.Tx)
	if err != nil {
		return nil, err
	}
	tx, err := parseTx(b)
	if err != nil {
		return nil, err
	}
	if len(t.Prevouts) != len(tx.In) {
		return nil, errors.New("prevout count")
	}
	var spent []rs.TxOut
	for _, p := range t.Prevouts {
		pb, err := hex.DecodeString(p)
		if err != nil {
			return nil, err
		}
		r := &rd{b: pb}
		o := parseTxOut(r)
		if r.err != nil {
			return nil, r.err
		}
		spent = append(spent, o)
	}
	f, ok := rs.ParseFlags(t.Flags)
	if !ok {
		return nil, errors.New("flags")
	}
	ss, err := hex.DecodeString(w.ScriptSig)
	if err != nil {
		return nil, err
	}
	tx.In[t.Index].ScriptSig = ss
	tx.In[t.Index].Witness = nil
	for _, e := range w.Witness {
		eb, err := hex.DecodeString(e)
		if err != nil {
			return nil, err
		}
		tx.In[t.Index].Witness = append(tx.In[t.Index].Witness, eb)
	}
	return &spend{tx: tx, idx: t.Index, spent: spent, flags: f}, nil
}

// calibrate registers the calibration families; they run first in every run.
func calibrate(c *mon.Ctx) {
	sv, err := loadScriptTests()
	if err != nil {
		c.Violation("calibrate.script_tests", 0, "calibration:load:script_tests", err.Error(), nil)
	}
	c.Family("calibrate.script_tests", int64(len(sv)), func(k *mon.Case) {
		v := sv[k.Index]
		s := creditSpend(v.sig, v.pk, v.witness, v.amount)
		s.flags = v.flags
		k.Desc(s.describe(fmt.Sprintf("script_tests.json entry %d %q", v.line, v.comment)))
		res := compare(k, s, "calibrate.script_tests", "vector", "vector")
		if (res.refErr == "") != (v.expected == "OK") {
			k.Failf("calibration:script_tests:verdict", "entry %d (%s): reference says %s, vector expects %s",
				v.line, v.comment, orOK(res.refErr), v.expected)
		} else if res.refErr != "" && !sameErrClass(res.refErr, v.expected) {
			k.Failf("calibration:script_tests:error-class", "entry %d (%s): reference error %s, vector expects %s",
				v.line, v.comment, res.refErr, v.expected)
		}
		k.Count("calibrate.script_tests", 1)
		k.Eval(mon.Sig("cal.script", v.line), true)
	})

	for _, name := range []string{"tx_valid.json", "tx_invalid.json"} {
		valid := name == "tx_valid.json"
		tv, err := loadTxTests(name)
		if err != nil {
			c.Violation("calibrate."+name, 0, "calibration:load:"+name, err.Error(), nil)
		}
		c.Family("calibrate."+strings.TrimSuffix(name, ".json"), int64(len(tv)), func(k *mon.Case) {
			v := tv[k.Index]
			if strings.Contains(v.flagStr, "BADTX") {
				k.Count("calibrate.tx.badtx_skipped", 1) // context-free tx sanity, not a script property
				return
			}
			fs, ok := rs.ParseFlags(v.flagStr)
			if !ok {
				k.Failf("calibration:load:"+name, "entry %d: bad flags %q", v.line, v.flagStr)
				return
			}
			if valid {
				fs = rs.AllFlags &^ fs
			}
			spent, ok := v.spent()
			if !ok {
				k.Failf("calibration:load:"+name, "entry %d: missing prevout", v.line)
				return
			}
			allOK := true
			for i := range v.tx.In {
				s := &spend{tx: v.tx, idx: i, spent: spent, flags: fs}
				k.Desc(s.describe(fmt.Sprintf("%s entry %d input %d", name, v.line, i)))
				res := compare(k, s, "calibrate."+name, "vector", "vector")
				if res.refErr != "" {
					allOK = false
					if valid {
						k.Failf("calibration:tx_valid:verdict", "entry %d input %d: reference says %s, vector expects valid (flags %s)",
							v.line, i, res.refErr, fs)
					}
				}
			}
			if !valid && allOK {
				k.Failf("calibration:tx_invalid:verdict", "entry %d: reference accepts every input, vector expects invalid (flags %s)", v.line, fs)
			}
			k.Count("calibrate.tx", 1)
			k.Eval(mon.Sig("cal.tx", name, v.line), true)
		})
	}

	tp, err := loadTaprootRef()
	if err != nil {
		c.Violation("calibrate.taproot_ref", 0, "calibration:load:taproot_ref", err.Error(), nil)
	}
	c.Family("calibrate.taproot_ref", int64(len(tp)), func(k *mon.Case) {
		v := &tp[k.Index]
		for _, side := range []struct {
			w    *tapWit
			want bool
		}{{v.Success, true}, {v.Failure, false}} {
			if side.w == nil {
				continue
			}
			s, err := v.build(side.w)
			if err != nil {
				k.Failf("calibration:load:taproot_ref", "%s: %v", v.File, err)
				return
			}
			k.Desc(s.describe(fmt.Sprintf("taproot-ref %s (%s) want=%v", v.File, v.Comment, side.want)))
			res := compare(k, s, "calibrate.taproot_ref", "vector", "vector")
			if (res.refErr == "") != side.want {
				k.Failf("calibration:taproot_ref:verdict", "%s (%s): reference says %s, vector expects success=%v",
					v.File, v.Comment, orOK(res.refErr), side.want)
			}
			k.Count("calibrate.taproot_ref", 1)
		}
		k.Eval(mon.Sig("cal.tap", v.File), true)
	})
	c.Require("calibrate.script_tests", 1200)
	c.Require("calibrate.tx", 190)
	c.Require("calibrate.taproot_ref", 5000)
}
