// Worker for C05: the ffldb block/metadata store is atomic, isolated,
// prefix-durable and byte-faithful.
package main

import (
	"fmt"
	"os"
	"runtime/debug"
	"runtime/pprof"
	"strconv"
	"time"

	"verif/gen/crashkit"
	"verif/mon"
)

// nCases is c.N with an optional down-scaling of the thorough tier (VERIF_C05_SCALE,
// e.g. 0.25) for runs on a busy machine.
func nCases(c *mon.Ctx, quick, thorough int64) int64 {
	if c.Thorough() {
		if f, err := strconv.ParseFloat(os.Getenv("VERIF_C05_SCALE"), 64); err == nil && f > 0 {
			thorough = int64(float64(thorough) * f)
			if thorough < quick {
				thorough = quick
			}
		}
	}
	return c.N(quick, thorough)
}

func caseDir(k *mon.Case) string {
	d, err := os.MkdirTemp(tmpBase(), fmt.Sprintf("verif-c05-%s-%d-", k.Family, k.Index))
	if err != nil {
		panic(err)
	}
	// ffldb's Create wants to create the directory contents itself
	return d + "/db"
}

func main() {
	if pf := os.Getenv("VERIF_C05_PROF"); pf != "" {
		f, _ := os.Create(pf)
		pprof.StartCPUProfile(f)
		defer pprof.StopCPUProfile()
		go func() { time.Sleep(12 * time.Second); pprof.StopCPUProfile(); f.Close() }()
	}
	if g, err := strconv.Atoi(os.Getenv("VERIF_C05_GOGC")); err == nil {
		debug.SetGCPercent(g)
	}
	if plan, ok := crashkit.ChildPlan(); ok {
		runCrashChild(plan)
		return
	}
	mon.Main("C05", func(c *mon.Ctx) {
		c.Rule("seq: adaptive random programs (committed / user-error / manually rolled back / panicking transactions, views, " +
			"long-lived read snapshots, close+reopen, tiny block files, pruning) over a 10-symbol name alphabet and random blocks, " +
			"executed on ffldb and on the refdb model, every result compared; distinct = hash of the (operation, result) sequence. " +
			"fault: for a fixed-seed program every interposed I/O call j is failed once; distinct = (failed call kind, result hash). " +
			"crash: a child process runs the program and dies at I/O event k (process death / power loss), the parent reopens and " +
			"applies the committed-prefix oracle; distinct = (event kind, crash model, prefix window, program). " +
			"conc: 1-3 writers + 4-12 readers on 6 keys; distinct = interleaving fingerprint (order of call/return stamps by client)")
		only := os.Getenv("VERIF_C05_ONLY") // debugging aid: run a single family
		run := func(name string, f func(*mon.Ctx)) {
			if only == "" || only == name {
				f(c)
			}
		}
		if mon.RaceEnabled {
			// the race build is for the concurrent family; single-goroutine
			// differentials gain nothing from it
			run("conc", famConc)
			return
		}
		run("seq", famSeq)
		run("fault", famFault)
		run("crash", famCrash)
		run("fault-crash", famFaultCrash)
		run("conc", famConc)
		run("treap", famTreap)
	})
}

func famSeq(c *mon.Ctx) {
	c.Family("seq", nCases(c, 300, 12000), func(k *mon.Case) {
		cf := randCfg(k.Rand)
		k.Desc(cf)
		dir := caseDir(k)
		defer removeAll(dir[:len(dir)-3])
		var e *engine
		rep := caseReporter{k: k, ctx: func() any { return map[string]any{"cfg": cf, "ops": e.oplog} }}
		e = newEngine(rep, k.Rand, cf, dir)
		e.trace = newSyncTrace(func(key, detail string) { e.fail(key, detail, false) })
		e.run()
		k.Count("seq.programs", 1)
		k.Count("seq.ops", e.nOps)
		k.Count("trace.ldb-commits", e.trace.commits)
		k.Count("trace.blk-writes", e.trace.writes)
		k.Count("trace.blk-syncs", e.trace.syncs)
		k.Count("trace.closes-with-unsynced-bytes", e.trace.rollovers)
		k.Eval(e.sig, e.nOps > 5)
		if k.Index < 3 {
			k.Sample(map[string]any{"family": "seq", "cfg": cf, "ops": e.nOps, "commits": e.m.Commits, "blocks": len(e.blocks)})
		}
	})
	c.Require("seq.programs", 50)
	c.Require("seq.commit", 200)
	c.Require("seq.op.Cursor.move", 500)
	c.Require("seq.op.FetchBlock", 100)
	c.Require("seq.reopen", 50)
}
