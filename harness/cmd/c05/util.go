package main

import (
	"bytes"
	"encoding/hex"
	"errors"
	"fmt"
	"os"
	"sort"
	"strings"

	"verif/mon"
	"verif/ref/refdb"

	"github.com/btcsuite/btcd/btcutil/v2"
	"github.com/btcsuite/btcd/chainhash/v2"
	"github.com/btcsuite/btcd/database"
	"github.com/btcsuite/btcd/wire/v2"
)

// reporter is what the engine needs from the monitor framework; the crash child
// runs with a silent one.
type chainhashT = chainhash.Hash

type reporter interface {
	Count(name string, n int64)
	Fail(key, detail string)
}

type caseReporter struct {
	k   *mon.Case
	ctx func() any // concrete case description attached to violations
}

func (c caseReporter) Count(name string, n int64) { c.k.Count(name, n) }
func (c caseReporter) Fail(key, detail string) {
	var cs any
	if c.ctx != nil {
		cs = c.ctx()
	}
	c.k.Violation(key, detail, cs)
}

type nullReporter struct{}

func (nullReporter) Count(string, int64) {}
func (nullReporter) Fail(string, string) {}

// codeOf maps an error to the contract code name ("" = nil, "other" = not a database.Error).
func codeOf(err error) string {
	if err == nil {
		return ""
	}
	var de database.Error
	if errors.As(err, &de) {
		return de.ErrorCode.String()
	}
	return refdb.ErrOther
}

// accepts: like Codes.Accepts, but "other" in the expectation admits any failure.
func accepts(want refdb.Codes, got string) bool {
	if want.Accepts(got) {
		return true
	}
	if got != "" {
		for _, w := range want {
			if w == refdb.ErrOther {
				return true
			}
		}
	}
	return false
}

func gotStr(code string) string {
	if code == "" {
		return "nil"
	}
	return code
}

func hx(b []byte) string {
	if b == nil {
		return "<nil>"
	}
	if len(b) > 24 {
		return fmt.Sprintf("%s..(%d)", hex.EncodeToString(b[:24]), len(b))
	}
	return "'" + hex.EncodeToString(b) + "'"
}

// sameVal compares two values including nil-ness.
func sameVal(a, b []byte) bool {
	return (a == nil) == (b == nil) && bytes.Equal(a, b)
}

// ---------------------------------------------------------------------------
// blocks

type blk struct {
	h    refdb.Hash
	raw  []byte
	real *btcutil.Block
}

// newBlock builds a unique, well-formed block whose serialization has roughly the
// requested size (>= 81+ bytes).
func newBlock(r *mon.Rand, serial int, size int) *blk {
	var hdr wire.BlockHeader
	hdr.Version = int32(r.Uint32())
	r.Fill(hdr.PrevBlock[:])
	r.Fill(hdr.MerkleRoot[:])
	hdr.Timestamp = hdr.Timestamp.Add(0)
	hdr.Bits = r.Uint32()
	hdr.Nonce = uint32(serial) // uniqueness inside one case
	msg := wire.NewMsgBlock(&hdr)
	// header 80 + varint; each tx ~ 60 bytes + script
	remaining := size - 81
	for remaining > 0 {
		tx := wire.NewMsgTx(int32(r.Intn(3)))
		var ph chainhash.Hash
		r.Fill(ph[:])
		sl := remaining - 70
		if sl < 0 {
			sl = 0
		}
		if sl > 400 {
			sl = r.Range(0, 400)
		}
		tx.AddTxIn(wire.NewTxIn(wire.NewOutPoint(&ph, r.Uint32()), r.Bytes(sl/2), nil))
		tx.AddTxOut(wire.NewTxOut(r.Int63n(21e14), r.Bytes(sl-sl/2)))
		msg.AddTransaction(tx)
		remaining -= tx.SerializeSize()
	}
	b := btcutil.NewBlock(msg)
	raw, err := b.Bytes()
	if err != nil {
		panic(err)
	}
	return &blk{h: refdb.Hash(*b.Hash()), raw: raw, real: b}
}

func chash(h refdb.Hash) *chainhash.Hash { c := chainhash.Hash(h); return &c }

// ---------------------------------------------------------------------------
// whole-state dumps

const internalPrefix = "ffldb-" // names ffldb itself keeps in the root bucket

func isInternal(name []byte) bool { return bytes.HasPrefix(name, []byte(internalPrefix)) }

// dump is a canonical picture of a database version.
type dump struct {
	meta   map[string]string // hex path -> "B" | "V"+hex(value)
	blocks map[refdb.Hash]string
}

func pathKey(path []string, name string) string {
	var sb strings.Builder
	for _, p := range path {
		sb.WriteString(hex.EncodeToString([]byte(p)))
		sb.WriteByte('/')
	}
	sb.WriteString(hex.EncodeToString([]byte(name)))
	return sb.String()
}

func dumpModelBucket(b *refdb.Bucket, path []string, out map[string]string) {
	for k, v := range b.Keys {
		out[pathKey(path, k)] = "V" + hex.EncodeToString(v)
	}
	for k, s := range b.Subs {
		out[pathKey(path, k)] = "B"
		dumpModelBucket(s, append(append([]string{}, path...), k), out)
	}
}

func dumpModel(s *refdb.State, blocks []*blk) *dump {
	d := &dump{meta: map[string]string{}, blocks: map[refdb.Hash]string{}}
	dumpModelBucket(s.Root, nil, d.meta)
	for _, b := range blocks {
		if r, ok := s.Blocks[b.h]; ok {
			d.blocks[b.h] = "ok:" + hex.EncodeToString(r.Bytes)
		} else {
			d.blocks[b.h] = "absent"
		}
	}
	return d
}

func dumpRealBucket(b database.Bucket, path []string, root bool, out map[string]string, depth int) error {
	if depth > 8 {
		return fmt.Errorf("bucket nesting deeper than 8 at %v", path)
	}
	err := b.ForEach(func(k, v []byte) error {
		if root && isInternal(k) {
			return nil
		}
		pk := pathKey(path, string(k))
		if _, dup := out[pk]; dup {
			out[pk+"#dup"] = "dup"
		}
		out[pk] = "V" + hex.EncodeToString(v)
		return nil
	})
	if err != nil {
		return err
	}
	var subs []string
	err = b.ForEachBucket(func(k []byte) error {
		if root && isInternal(k) {
			return nil
		}
		subs = append(subs, string(k))
		return nil
	})
	if err != nil {
		return err
	}
	for _, s := range subs {
		pk := pathKey(path, s)
		if _, dup := out[pk]; dup {
			out[pk+"#dup"] = "dup"
		}
		out[pk] = "B"
		nb := b.Bucket([]byte(s))
		if nb == nil {
			out[pk] = "B-listed-but-Bucket()-nil"
			continue
		}
		if err := dumpRealBucket(nb, append(append([]string{}, path...), s), false, out, depth+1); err != nil {
			return err
		}
	}
	return nil
}

func dumpReal(tx database.Tx, blocks []*blk) (*dump, error) {
	d := &dump{meta: map[string]string{}, blocks: map[refdb.Hash]string{}}
	if err := dumpRealBucket(tx.Metadata(), nil, true, d.meta, 0); err != nil {
		return nil, err
	}
	for _, b := range blocks {
		has, err := tx.HasBlock(chash(b.h))
		if err != nil {
			d.blocks[b.h] = "has-err:" + codeOf(err)
			continue
		}
		if !has {
			// a block that is "absent" must also be unfetchable
			if _, err := tx.FetchBlock(chash(b.h)); codeOf(err) != refdb.ErrBlockNotFound {
				d.blocks[b.h] = "absent-but-fetch:" + gotStr(codeOf(err))
			} else {
				d.blocks[b.h] = "absent"
			}
			continue
		}
		raw, err := tx.FetchBlock(chash(b.h))
		if err != nil {
			d.blocks[b.h] = "fetch-err:" + codeOf(err)
			continue
		}
		d.blocks[b.h] = "ok:" + hex.EncodeToString(raw)
	}
	return d, nil
}

// diffDump returns "" when equal, else a class (stable, for violation keys) and a detail.
func diffDump(got, want *dump, skip map[refdb.Hash]bool) (class, detail string) {
	class, detail, _ = diffDumpH(got, want, skip)
	return
}

// diffDumpH additionally returns the block the first block difference is about.
func diffDumpH(got, want *dump, skip map[refdb.Hash]bool) (class, detail string, blk *refdb.Hash) {
	var keys []string
	seen := map[string]bool{}
	for k := range got.meta {
		keys = append(keys, k)
		seen[k] = true
	}
	for k := range want.meta {
		if !seen[k] {
			keys = append(keys, k)
		}
	}
	sort.Strings(keys)
	for _, k := range keys {
		g, gok := got.meta[k]
		w, wok := want.meta[k]
		switch {
		case gok && !wok:
			return "meta-extra", fmt.Sprintf("metadata entry %s=%s present, model has none", k, g), nil
		case !gok && wok:
			return "meta-missing", fmt.Sprintf("metadata entry %s missing, model has %s", k, w), nil
		case g != w:
			return "meta-differs", fmt.Sprintf("metadata entry %s = %s, model %s", k, g, w), nil
		}
	}
	var hs []refdb.Hash
	for h := range want.blocks {
		hs = append(hs, h)
	}
	sort.Slice(hs, func(i, j int) bool { return bytes.Compare(hs[i][:], hs[j][:]) < 0 })
	for _, h := range hs {
		if skip[h] {
			continue
		}
		g, w := got.blocks[h], want.blocks[h]
		if g == w {
			continue
		}
		cls := "block-bytes-differ"
		switch {
		case w == "absent" && strings.HasPrefix(g, "ok:"):
			cls = "block-extra"
		case w == "absent":
			cls = "block-absent-" + strings.SplitN(g, ":", 2)[0]
		case g == "absent":
			cls = "block-missing"
		case strings.HasPrefix(g, "fetch-err:"):
			cls = "block-unreadable:" + strings.TrimPrefix(g, "fetch-err:")
		case strings.HasPrefix(g, "has-err:"):
			cls = "block-has-err"
		}
		if len(g) > 80 {
			g = g[:80] + "..."
		}
		if len(w) > 80 {
			w = w[:80] + "..."
		}
		hh := h
		return cls, fmt.Sprintf("block %x: store %s, model %s", h[:6], g, w), &hh
	}
	return "", "", nil
}

// diffRank orders difference classes by how specific they are as a diagnosis:
// when several committed prefixes are acceptable, the report is made against the
// one whose difference is the most telling (an unreadable block beats a block
// that is merely not there yet, which beats a metadata mismatch).
func diffRank(cls string) int {
	switch {
	case cls == "":
		return 100
	case strings.HasPrefix(cls, "block-unreadable"):
		return 5
	case cls == "block-bytes-differ":
		return 4
	case strings.HasPrefix(cls, "block-"):
		return 3
	case strings.HasPrefix(cls, "meta"):
		return 1
	}
	return 2
}

// tmpBase picks a scratch directory (tmpfs when available: the power-loss model is
// simulated, real fsync latency buys nothing).
func tmpBase() string {
	if d := os.Getenv("VERIF_C05_TMP"); d != "" {
		return d
	}
	if st, err := os.Stat("/dev/shm"); err == nil && st.IsDir() {
		return "/dev/shm"
	}
	return os.TempDir()
}
