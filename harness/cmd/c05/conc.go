package main

import (
	"bytes"
	"fmt"
	"sort"
	"strings"
	"sync"
	"sync/atomic"
	"time"

	"verif/mon"

	"github.com/anishathalye/porcupine"
	"github.com/btcsuite/btcd/database"
	"github.com/btcsuite/btcd/database/ffldb"
	"github.com/btcsuite/btcd/wire/v2"
)

// Monitor 4: concurrency.  1-3 writers and 4-12 readers work on 6 keys with
// globally unique values (and on the block store); the H1 hook injects delays at
// commit / sync events.  Checked: (a) the race detector (race build), (b)
// snapshot stability inside every read transaction, (c) strict serializability
// of the history at transaction granularity (porcupine against a map), (d) byte
// faithfulness of concurrent block fetches, (e) Close waits for open
// transactions.

const nConcKeys = 6

type concState [nConcKeys]string // "" = key absent

type concRead struct {
	Key int
	Val string
}
type concWrite struct {
	Key int
	Val string // "" = delete
}

// concTx is the porcupine input of one transaction (reads precede writes).
type concTx struct {
	Who    string
	Reads  []concRead
	Writes []concWrite
	Commit bool
}

func (t concTx) String() string {
	var sb strings.Builder
	sb.WriteString(t.Who + ":")
	for _, r := range t.Reads {
		fmt.Fprintf(&sb, " r(k%d)=%q", r.Key, r.Val)
	}
	for _, w := range t.Writes {
		fmt.Fprintf(&sb, " w(k%d)=%q", w.Key, w.Val)
	}
	if len(t.Writes) > 0 {
		if t.Commit {
			sb.WriteString(" COMMIT")
		} else {
			sb.WriteString(" ROLLBACK")
		}
	}
	return sb.String()
}

var concModel = porcupine.Model{
	Init: func() interface{} { return concState{} },
	Step: func(state, input, output interface{}) (bool, interface{}) {
		st := state.(concState)
		tx := input.(concTx)
		for _, r := range tx.Reads {
			if st[r.Key] != r.Val {
				return false, st
			}
		}
		if tx.Commit {
			for _, w := range tx.Writes {
				st[w.Key] = w.Val
			}
		}
		return true, st
	},
	Equal:             func(a, b interface{}) bool { return a.(concState) == b.(concState) },
	DescribeOperation: func(in, out interface{}) string { return in.(concTx).String() },
}

func concKey(i int) []byte { return []byte(fmt.Sprintf("k%d", i)) }

type concRun struct {
	k      *mon.Case
	db     database.DB
	clock  int64
	mu     sync.Mutex
	ops    []porcupine.Operation
	blocks []*blk // blocks known to be committed (appended after the commit returned)
	valSeq int64
	viol   int32

	commits []concCommit // committed write transactions (any order; sorted by Seq later)
	obs     []concObs    // every snapshot observed by readers / hammers
	wdone   int32        // set when all writers have finished
}

// concCommit is one committed write transaction: Seq is a stamp taken inside the
// transaction (writers are serialized by the store, so Seq order = commit order),
// Ret the stamp taken after the commit returned.
type concCommit struct {
	Seq, Ret int64
	Writes   []concWrite
}

// concObs is one read snapshot: Call is the stamp taken before the read
// transaction was started.
type concObs struct {
	Who  string
	Call int64
	St   concState
}

func (cr *concRun) observe(who string, call int64, st concState) {
	cr.mu.Lock()
	cr.obs = append(cr.obs, concObs{who, call, st})
	cr.mu.Unlock()
}

// checkFreshness is a linear-time consequence of strict serializability that
// scales to thousands of snapshots: a read transaction started after a write
// transaction's commit returned must see, for every key that transaction wrote,
// that write or a later one; and it must never see a value no committed
// transaction wrote.
func (cr *concRun) checkFreshness() {
	sort.Slice(cr.commits, func(i, j int) bool { return cr.commits[i].Seq < cr.commits[j].Seq })
	type wr struct {
		val string
		ret int64
	}
	var perKey [nConcKeys][]wr
	for _, c := range cr.commits {
		for _, w := range c.Writes {
			perKey[w.Key] = append(perKey[w.Key], wr{w.Val, c.Ret})
		}
	}
	for _, o := range cr.obs {
		for k := 0; k < nConcKeys; k++ {
			ws := perKey[k]
			latest := -1 // last write (commit order) whose commit had returned before the read began
			for i, w := range ws {
				if w.ret < o.Call {
					latest = i
				}
			}
			if o.St[k] == "" {
				if latest < 0 || ws[latest].val == "" {
					continue
				}
				laterDelete := false
				for i := latest + 1; i < len(ws); i++ {
					if ws[i].val == "" {
						laterDelete = true
					}
				}
				if !laterDelete {
					cr.fail("conc:stale-snapshot:committed-write-invisible-to-later-reader",
						"%s began (stamp %d) after the commit that wrote k%d=%q had returned (stamp %d) but sees the key absent; snapshot %q",
						o.Who, o.Call, k, ws[latest].val, ws[latest].ret, o.St)
					return
				}
				continue
			}
			seen := -1
			for i, w := range ws {
				if w.val == o.St[k] {
					seen = i
				}
			}
			if seen < 0 {
				cr.fail("conc:dirty-read:value-never-committed", "%s sees k%d=%q which no committed transaction wrote; snapshot %q", o.Who, k, o.St[k], o.St)
				return
			}
			if seen < latest {
				cr.fail("conc:stale-snapshot:committed-write-invisible-to-later-reader",
					"%s began (stamp %d) after the commit that wrote k%d=%q had returned (stamp %d) but sees the older value %q; snapshot %q",
					o.Who, o.Call, k, ws[latest].val, ws[latest].ret, o.St[k], o.St)
				return
			}
		}
	}
	cr.k.Count("conc.freshness-checked-snapshots", int64(len(cr.obs)))
}

// hammer starts very short read transactions back to back while the writers run:
// the instant a snapshot is assembled is the vulnerable one.
func (cr *concRun) hammer(id int, wg *sync.WaitGroup) {
	defer wg.Done()
	defer func() {
		if p := recover(); p != nil {
			cr.fail("conc:panic:hammer", "hammer goroutine panicked: %v", p)
		}
	}()
	who := fmt.Sprintf("H%d", id)
	for n := 0; n < 4000 && atomic.LoadInt32(&cr.wdone) == 0; n++ {
		call := cr.stamp()
		tx, err := cr.db.Begin(false)
		if err != nil {
			cr.fail("conc:hammer:err:"+codeOf(err), "%v", err)
			return
		}
		var st concState
		if b := tx.Metadata().Bucket([]byte("c")); b != nil {
			st = readAll(b)
		}
		_ = tx.Rollback()
		cr.observe(who, call, st)
		cr.k.Count("conc.hammer.tx", 1)
	}
}

func (cr *concRun) stamp() int64 { return atomic.AddInt64(&cr.clock, 1) }

func (cr *concRun) record(client int, tx concTx, call, ret int64) {
	cr.mu.Lock()
	cr.ops = append(cr.ops, porcupine.Operation{ClientId: client, Input: tx, Call: call, Return: ret})
	cr.mu.Unlock()
}

func (cr *concRun) fail(key, format string, a ...any) {
	atomic.AddInt32(&cr.viol, 1)
	cr.k.Failf(key, format, a...)
}

func (cr *concRun) knownBlock(r *mon.Rand) *blk {
	cr.mu.Lock()
	defer cr.mu.Unlock()
	if len(cr.blocks) == 0 {
		return nil
	}
	return cr.blocks[r.Intn(len(cr.blocks))]
}

// readAll reads the six keys through Get.
func readAll(b database.Bucket) concState {
	var st concState
	for i := 0; i < nConcKeys; i++ {
		if v := b.Get(concKey(i)); v != nil {
			st[i] = string(v)
		}
	}
	return st
}

func scanAll(b database.Bucket) (concState, error) {
	var st concState
	var prev []byte
	err := b.ForEach(func(k, v []byte) error {
		if prev != nil && bytes.Compare(prev, k) >= 0 {
			return fmt.Errorf("ForEach order: %q after %q", k, prev)
		}
		prev = append([]byte{}, k...)
		var i int
		if _, err := fmt.Sscanf(string(k), "k%d", &i); err != nil || i < 0 || i >= nConcKeys {
			return fmt.Errorf("unexpected key %q", k)
		}
		st[i] = string(v)
		return nil
	})
	return st, err
}

func cursorAll(b database.Bucket, backwards bool) concState {
	var st concState
	c := b.Cursor()
	ok := c.First()
	if backwards {
		ok = c.Last()
	}
	for ok {
		var i int
		if _, err := fmt.Sscanf(string(c.Key()), "k%d", &i); err == nil && i >= 0 && i < nConcKeys {
			st[i] = string(c.Value())
		}
		if backwards {
			ok = c.Prev()
		} else {
			ok = c.Next()
		}
	}
	return st
}

func (cr *concRun) reader(id int, r *mon.Rand, ntx int, wg *sync.WaitGroup) {
	defer wg.Done()
	defer func() {
		if p := recover(); p != nil {
			cr.fail("conc:panic:reader", "reader goroutine panicked: %v", p)
		}
	}()
	for n := 0; n < ntx; n++ {
		var first concState
		body := func(tx database.Tx) error {
			b := tx.Metadata().Bucket([]byte("c"))
			if b == nil {
				// The bucket was committed before any reader started; a snapshot
				// without it is an (extremely) stale one: it is recorded as the
				// all-absent state and judged by the history checks.
				first = concState{}
				cr.k.Count("conc.reader.bucket-invisible", 1)
				return nil
			}
			first = readAll(b)
			for rep := 0; rep < 3; rep++ {
				if d := r.Intn(4); d > 0 {
					time.Sleep(time.Duration(r.Intn(400)) * time.Microsecond)
				}
				if again := readAll(b); again != first {
					cr.fail("conc:snapshot-unstable:Get", "reader %d: re-read %d inside one transaction differs: %q then %q", id, rep, first, again)
					return nil
				}
				sc, err := scanAll(b)
				if err != nil {
					cr.fail("conc:ForEach:error", "reader %d: %v", id, err)
					return nil
				}
				if sc != first {
					cr.fail("conc:snapshot-unstable:ForEach", "reader %d: ForEach sees %q, Get saw %q in the same transaction", id, sc, first)
					return nil
				}
				if cu := cursorAll(b, rep == 1); cu != first {
					cr.fail("conc:snapshot-unstable:Cursor", "reader %d: cursor walk (backwards=%v) sees %q, Get saw %q in the same transaction", id, rep == 1, cu, first)
					return nil
				}
				cr.k.Count("conc.reader.rereads", 1)
			}
			// concurrent block fetch, byte-faithful
			if bl := cr.knownBlock(r); bl != nil {
				raw, err := tx.FetchBlock(chash(bl.h))
				if err == nil && !bytes.Equal(raw, bl.raw) {
					cr.fail("conc:FetchBlock:bytes", "reader %d: block %x fetched concurrently differs from what was stored", id, bl.h[:6])
				}
				// A block committed after this snapshot began is legitimately not found.
				if err != nil && codeOf(err) != "ErrBlockNotFound" {
					cr.fail("conc:FetchBlock:err:"+codeOf(err), "reader %d: FetchBlock(%x): %v", id, bl.h[:6], err)
				}
				if err == nil {
					hdr, herr := tx.FetchBlockHeader(chash(bl.h))
					if herr != nil || !bytes.Equal(hdr, bl.raw[:80]) {
						cr.fail("conc:FetchBlockHeader", "reader %d: header of %x: err=%v", id, bl.h[:6], herr)
					}
					cr.k.Count("conc.reader.blockfetch", 1)
				}
			}
			return nil
		}
		call := cr.stamp()
		var err error
		if r.Bool() {
			err = cr.db.View(body)
		} else {
			var tx database.Tx
			tx, err = cr.db.Begin(false)
			if err == nil {
				_ = body(tx)
				err = tx.Rollback()
			}
		}
		ret := cr.stamp()
		if err != nil {
			cr.fail("conc:reader:err:"+codeOf(err), "reader %d: %v", id, err)
			return
		}
		var rd []concRead
		for i := 0; i < nConcKeys; i++ {
			rd = append(rd, concRead{i, first[i]})
		}
		cr.record(id, concTx{Who: fmt.Sprintf("R%d", id), Reads: rd}, call, ret)
		cr.observe(fmt.Sprintf("R%d", id), call, first)
		cr.k.Count("conc.reader.tx", 1)
	}
}

func (cr *concRun) writer(id int, r *mon.Rand, ntx int, maxBlock int, wg *sync.WaitGroup) {
	defer wg.Done()
	defer func() {
		if p := recover(); p != nil {
			cr.fail("conc:panic:writer", "writer goroutine panicked: %v", p)
		}
	}()
	for n := 0; n < ntx; n++ {
		rollback := r.Chance(1, 5)
		var ctx concTx
		ctx.Who = fmt.Sprintf("W%d", id)
		var stored []*blk
		var seq int64
		body := func(tx database.Tx) error {
			seq = cr.stamp() // inside the write transaction: commit order
			b := tx.Metadata().Bucket([]byte("c"))
			if b == nil {
				cr.fail("conc:bucket-missing", "writer %d: bucket c not visible", id)
				return errUser
			}
			// reads first
			for _, i := range r.Perm(nConcKeys)[:r.Range(0, 3)] {
				v := b.Get(concKey(i))
				ctx.Reads = append(ctx.Reads, concRead{i, string(v)})
			}
			for _, i := range r.Perm(nConcKeys)[:r.Range(1, 3)] {
				if r.Chance(1, 6) {
					if err := b.Delete(concKey(i)); err != nil {
						cr.fail("conc:Delete:err", "%v", err)
					}
					ctx.Writes = append(ctx.Writes, concWrite{i, ""})
					continue
				}
				v := fmt.Sprintf("w%d.%d.%d", id, n, atomic.AddInt64(&cr.valSeq, 1))
				if err := b.Put(concKey(i), []byte(v)); err != nil {
					cr.fail("conc:Put:err", "%v", err)
				}
				ctx.Writes = append(ctx.Writes, concWrite{i, v})
			}
			if r.Chance(1, 2) {
				nb := newBlock(r, int(atomic.AddInt64(&cr.valSeq, 1))+id<<20, r.Range(81, maxBlock))
				if err := tx.StoreBlock(nb.real); err != nil {
					cr.fail("conc:StoreBlock:err:"+codeOf(err), "%v", err)
				} else {
					stored = append(stored, nb)
				}
			}
			if rollback {
				return errUser
			}
			return nil
		}
		call := cr.stamp()
		var err error
		if r.Bool() {
			err = cr.db.Update(body)
			if rollback && err == errUser {
				err = nil
			}
		} else {
			var tx database.Tx
			tx, err = cr.db.Begin(true)
			if err == nil {
				if berr := body(tx); berr != nil {
					err = tx.Rollback()
				} else {
					err = tx.Commit()
				}
			}
		}
		ret := cr.stamp()
		if err != nil {
			cr.fail("conc:writer:err:"+codeOf(err), "writer %d: %v", id, err)
			return
		}
		ctx.Commit = !rollback
		cr.record(100+id, ctx, call, ret)
		if ctx.Commit {
			cr.mu.Lock()
			cr.blocks = append(cr.blocks, stored...)
			cr.commits = append(cr.commits, concCommit{Seq: seq, Ret: ret, Writes: ctx.Writes})
			cr.mu.Unlock()
			cr.k.Count("conc.writer.commit", 1)
		} else {
			cr.k.Count("conc.writer.rollback", 1)
		}
	}
}

func famConc(c *mon.Ctx) {
	var timeouts int64
	defer func() {
		// a checker timeout anywhere makes the run inconclusive, never a pass
		name := "conc.shards-without-checker-timeout"
		if mon.RaceEnabled {
			name += ".race-build"
		}
		if atomic.LoadInt64(&timeouts) == 0 {
			c.Count(name, 1)
		}
		if c.ReplayFamily == "" {
			c.Require(name, int64(c.NShards))
		}
	}()
	n := nCases(c, 100, 2500)
	if mon.RaceEnabled {
		n = nCases(c, 60, 1200)
	}
	c.Family("conc", n, func(k *mon.Case) {
		r := k.Rand
		nw, nr := r.Range(1, 3), r.Range(4, 12)
		cf := cfg{MaxFile: []uint32{2048, 4096, 1 << 20}[r.Intn(3)]}
		switch r.Intn(4) {
		case 0:
			cf.CacheBytes, cf.FlushSecs = 100<<20, 0
		case 1:
			cf.CacheBytes, cf.FlushSecs = 0, never
		case 2:
			cf.CacheBytes, cf.FlushSecs = uint64(r.Range(200, 1500)), never
		default:
			cf.CacheBytes, cf.FlushSecs = 100<<20, never
		}
		// <= 60 transactions per history
		wtx := make([]int, nw)
		rtx := make([]int, nr)
		total := 0
		for i := range wtx {
			wtx[i] = r.Range(3, 8)
			total += wtx[i]
		}
		for i := range rtx {
			rtx[i] = r.Range(2, 5)
			total += rtx[i]
		}
		for total > 58 {
			i := r.Intn(nr)
			if rtx[i] > 1 {
				rtx[i]--
				total--
			}
		}
		k.Desc(map[string]any{"writers": nw, "readers": nr, "cfg": cf, "wtx": wtx, "rtx": rtx})
		dir := caseDir(k)
		defer removeAll(dir[:len(dir)-3])
		db, err := database.Create("ffldb", dir, wire.MainNet)
		if err != nil {
			k.Failf("conc:create-failed", "%v", err)
			return
		}
		ffldb.VerifSetLimits(db, cf.MaxFile, cf.CacheBytes, cf.FlushSecs)
		cr := &concRun{k: k, db: db}

		// delay injection: the callback runs on the goroutine doing the I/O
		var dmu sync.Mutex
		dr := r.Fork()
		var delays int64
		ffldb.VerifInterpose(db, func(ev ffldb.VerifEvent) error {
			switch ev.Kind {
			case "ldb-commit-pre", "ldb-commit-post", "blk-sync", "blk-open-w", "blk-close":
				dmu.Lock()
				d := dr.Intn(2000)
				skip := dr.Chance(1, 3)
				if ev.Kind == "ldb-commit-post" {
					// mostly no delay here: the instant right after a metadata flush
					// reaches leveldb is when a reader's snapshot is most at risk
					skip = !dr.Chance(1, 5)
				}
				dmu.Unlock()
				if !skip {
					atomic.AddInt64(&delays, 1)
					time.Sleep(time.Duration(d) * time.Microsecond)
				}
			}
			return nil
		})

		// setup transaction (part of the history)
		maxBlock := int(cf.MaxFile) - 12 - 90
		if maxBlock > 1500 {
			maxBlock = 1500
		}
		var init concTx
		init.Who, init.Commit = "setup", true
		call := cr.stamp()
		var setupBlocks []*blk
		err = db.Update(func(tx database.Tx) error {
			b, err := tx.Metadata().CreateBucket([]byte("c"))
			if err != nil {
				return err
			}
			for i := 0; i < nConcKeys; i++ {
				if i == 4 {
					continue // one key starts absent
				}
				v := fmt.Sprintf("init%d", i)
				if err := b.Put(concKey(i), []byte(v)); err != nil {
					return err
				}
				init.Writes = append(init.Writes, concWrite{i, v})
			}
			for i := 0; i < 4; i++ {
				nb := newBlock(r, 1<<28+i, r.Range(81, maxBlock))
				if err := tx.StoreBlock(nb.real); err != nil {
					return err
				}
				setupBlocks = append(setupBlocks, nb)
			}
			return nil
		})
		if err != nil {
			k.Failf("conc:setup-failed", "%v", err)
			_ = db.Close()
			return
		}
		sret := cr.stamp()
		cr.record(999, init, call, sret)
		cr.commits = append(cr.commits, concCommit{Seq: call, Ret: sret, Writes: init.Writes})
		cr.blocks = setupBlocks

		var wg, wwg sync.WaitGroup
		for i := 0; i < nw; i++ {
			wwg.Add(1)
			go cr.writer(i, r.Fork(), wtx[i], maxBlock, &wwg)
		}
		for i := 0; i < nr; i++ {
			wg.Add(1)
			go cr.reader(i, r.Fork(), rtx[i], &wg)
		}
		for i := 0; i < 3; i++ {
			wg.Add(1)
			go cr.hammer(i, &wg)
		}
		wwg.Wait()
		atomic.StoreInt32(&cr.wdone, 1)
		wg.Wait()
		cr.checkFreshness()

		// final read (sequential, after everything)
		call = cr.stamp()
		var final concState
		_ = db.View(func(tx database.Tx) error {
			final = readAll(tx.Metadata().Bucket([]byte("c")))
			// every committed block is there, byte for byte
			for _, bl := range cr.blocks {
				raw, err := tx.FetchBlock(chash(bl.h))
				if err != nil || !bytes.Equal(raw, bl.raw) {
					cr.fail("conc:final:block", "block %x after the run: err=%v equal=%v", bl.h[:6], err, bytes.Equal(raw, bl.raw))
					break
				}
			}
			return nil
		})
		var rd []concRead
		for i := 0; i < nConcKeys; i++ {
			rd = append(rd, concRead{i, final[i]})
		}
		cr.record(998, concTx{Who: "final", Reads: rd}, call, cr.stamp())

		// Close must wait for an open transaction
		holder, herr := db.Begin(false)
		var rollbackCall, closeRet int64
		done := make(chan struct{})
		if herr == nil {
			go func() {
				defer close(done)
				time.Sleep(time.Duration(r.Intn(3000)) * time.Microsecond)
				atomic.StoreInt64(&rollbackCall, cr.stamp())
				_ = holder.Rollback()
			}()
		} else {
			close(done)
		}
		cerr := db.Close()
		closeRet = cr.stamp()
		<-done
		if cerr != nil {
			cr.fail("conc:Close:err:"+codeOf(cerr), "%v", cerr)
		}
		if rc := atomic.LoadInt64(&rollbackCall); herr == nil && (rc == 0 || closeRet < rc) {
			cr.fail("conc:Close-returned-while-transaction-open", "Close returned at stamp %d, the open read transaction was rolled back at %d", closeRet, rc)
		}
		k.Count("conc.close-waited", 1)

		// strict serializability of the history
		k.Count("conc.histories", 1)
		k.Count("conc.transactions", int64(len(cr.ops)))
		k.Count("conc.delays", atomic.LoadInt64(&delays))
		if atomic.LoadInt32(&cr.viol) == 0 {
			res, _ := porcupine.CheckOperationsVerbose(concModel, cr.ops, 2*time.Minute)
			switch res {
			case porcupine.Ok:
				k.Count("conc.serializable", 1)
			case porcupine.Unknown:
				k.Count("conc.inconclusive.checker-timeout", 1)
				atomic.AddInt64(&timeouts, 1)
			case porcupine.Illegal:
				ops := append([]porcupine.Operation{}, cr.ops...)
				sort.Slice(ops, func(i, j int) bool { return ops[i].Call < ops[j].Call })
				var sb strings.Builder
				for _, o := range ops {
					fmt.Fprintf(&sb, "[%d,%d] %s\n", o.Call, o.Return, o.Input.(concTx))
				}
				k.Violation("conc:history-not-strictly-serializable", "no serial order of the transactions consistent with real time explains the values read:\n"+sb.String(), nil)
			}
		}
		// fingerprint of the interleaving: the order of call/return stamps by client
		ops := append([]porcupine.Operation{}, cr.ops...)
		sort.Slice(ops, func(i, j int) bool { return ops[i].Call < ops[j].Call })
		fp := uint64(0)
		overlaps := 0
		for i, o := range ops {
			fp = mon.Sig(fp, o.ClientId, o.Return > o.Call)
			if i > 0 && ops[i-1].Return > o.Call {
				overlaps++
			}
		}
		k.Count("conc.overlapping-pairs", int64(overlaps))
		k.Eval(fp, overlaps > 0)
	})
	c.Require("conc.histories", 50)
	c.Require("conc.serializable", 50)
	c.Require("conc.overlapping-pairs", 500)
	c.Require("conc.reader.rereads", 1000)
}
