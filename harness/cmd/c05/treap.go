package main

import (
	"bytes"
	"fmt"
	"sort"

	"verif/mon"

	"github.com/btcsuite/btcd/database/verifexport"
)

// H4 monitor: the treap that backs ffldb's pending-key sets (Mutable) and its
// snapshot-able metadata cache (Immutable) against a sorted map: contents,
// ascending ForEach, ranged iterators in both directions, the ForceReseek
// protocol of iterators over a mutable treap, and immutability of old versions.

type tmodel map[string][]byte

func (m tmodel) clone() tmodel {
	n := tmodel{}
	for k, v := range m {
		n[k] = v
	}
	return n
}

func (m tmodel) keys(start, limit []byte) []string {
	var out []string
	for k := range m {
		if start != nil && bytes.Compare([]byte(k), start) < 0 {
			continue
		}
		if limit != nil && bytes.Compare([]byte(k), limit) >= 0 {
			continue
		}
		out = append(out, k)
	}
	sort.Strings(out)
	return out
}

type treapLike interface {
	Len() int
	Has(key []byte) bool
	Get(key []byte) []byte
	ForEach(func(k, v []byte) bool)
}

func tkey(r *mon.Rand) []byte {
	// small dense key space so that hits, neighbours and range borders are common
	switch r.Intn(8) {
	case 0:
		return []byte{}
	case 1:
		return []byte{byte(r.Intn(6))}
	case 2:
		return []byte{byte(r.Intn(6)), 0}
	default:
		return []byte{byte(r.Intn(6)), byte(r.Intn(6))}
	}
}

func tval(r *mon.Rand, serial *int) []byte {
	switch r.Intn(8) {
	case 0:
		return nil
	case 1:
		return []byte{}
	}
	*serial++
	return []byte(fmt.Sprintf("v%d", *serial))
}

// compareTreap checks contents and order against the model.
func compareTreap(k *mon.Case, what string, t treapLike, m tmodel) bool {
	if t.Len() != len(m) {
		k.Failf("treap:"+what+":Len", "Len()=%d, model %d", t.Len(), len(m))
		return false
	}
	want := m.keys(nil, nil)
	i := 0
	ok := true
	t.ForEach(func(key, v []byte) bool {
		if i >= len(want) || string(key) != want[i] {
			k.Failf("treap:"+what+":ForEach-order", "item %d is %x, model %x", i, key, func() string {
				if i < len(want) {
					return want[i]
				}
				return "<end>"
			}())
			ok = false
			return false
		}
		mv := m[want[i]]
		if mv == nil {
			mv = []byte{}
		}
		if !bytes.Equal(v, mv) || v == nil {
			k.Failf("treap:"+what+":ForEach-value", "key %x value %s, model %s", key, hx(v), hx(mv))
			ok = false
			return false
		}
		i++
		return true
	})
	if ok && i != len(want) {
		k.Failf("treap:"+what+":ForEach-count", "visited %d of %d", i, len(want))
		return false
	}
	return ok
}

// iterScript drives one iterator against the model; mutate (mutable treap only)
// performs a Put/Delete on treap+model and is followed by ForceReseek.
func iterScript(k *mon.Case, what string, it *verifexport.Iterator, m tmodel, start, limit []byte,
	mutate func() bool, allowRepositionAfterMutation bool) bool {
	r := k.Rand
	pos := "" // model position (a key) when valid
	valid := false
	isNew := true
	mutated := false
	class := "plain"
	if (start == nil) != (limit == nil) {
		class = "half-open-range"
	}
	for s := r.Range(3, 14); s > 0; s-- {
		ks := m.keys(start, limit)
		mv := r.PickW([]int{2, 2, 3, 7, 6, 2})
		if mutate == nil && mv == 5 {
			mv = 3
		}
		if mutated && !allowRepositionAfterMutation && mv <= 2 {
			mv = 3 + r.Intn(2)
		}
		var got, want bool
		name := ""
		switch mv {
		case 0:
			name = "First"
			got = it.First()
			want = len(ks) > 0
			if want {
				pos = ks[0]
			}
			valid, isNew = want, false
			if mutated && class != "half-open-range" {
				class = "reposition-after-mutation"
			}
		case 1:
			name = "Last"
			got = it.Last()
			want = len(ks) > 0
			if want {
				pos = ks[len(ks)-1]
			}
			valid, isNew = want, false
			if mutated && class != "half-open-range" {
				class = "reposition-after-mutation"
			}
		case 2:
			sk := tkey(r)
			if start != nil && bytes.Compare(sk, start) < 0 {
				// Seek below the range start: the documentation does not say whether
				// the iterator clamps to the start; not generated
				continue
			}
			name = fmt.Sprintf("Seek(%x)", sk)
			got = it.Seek(sk)
			want = false
			for _, x := range ks {
				if x >= string(sk) {
					want, pos = true, x
					break
				}
			}
			valid, isNew = want, false
			if mutated && class != "half-open-range" {
				class = "reposition-after-mutation"
			}
		case 3:
			name = "Next"
			got = it.Next()
			switch {
			case isNew:
				want = len(ks) > 0
				if want {
					pos = ks[0]
				}
				isNew = false
			case !valid:
				want = false
			default:
				want = false
				for _, x := range ks {
					if x > pos {
						want, pos = true, x
						break
					}
				}
			}
			valid = want
		case 4:
			name = "Prev"
			got = it.Prev()
			switch {
			case isNew:
				want = len(ks) > 0
				if want {
					pos = ks[len(ks)-1]
				}
				isNew = false
			case !valid:
				want = false
			default:
				want = false
				for i := len(ks) - 1; i >= 0; i-- {
					if ks[i] < pos {
						want, pos = true, ks[i]
						break
					}
				}
			}
			valid = want
		case 5:
			if mutate() {
				it.ForceReseek()
				mutated = true
				if class == "plain" {
					class = "after-mutation"
				}
			}
			continue
		}
		if got != want || it.Valid() != want {
			k.Failf("treap:"+what+":iterator:"+class+":result", "%s range [%x,%x): returned %v (Valid=%v), model %v at %x", name, start, limit, got, it.Valid(), want, pos)
			return false
		}
		if want {
			mvv := m[pos]
			if mvv == nil {
				mvv = []byte{}
			}
			if string(it.Key()) != pos || !bytes.Equal(it.Value(), mvv) {
				k.Failf("treap:"+what+":iterator:"+class+":key", "%s range [%x,%x): at %x=%s, model %x=%s", name, start, limit, it.Key(), hx(it.Value()), pos, hx(mvv))
				return false
			}
		} else if it.Key() != nil || it.Value() != nil {
			k.Failf("treap:"+what+":iterator:"+class+":exhausted-not-nil", "%s: exhausted iterator returns key %x", name, it.Key())
			return false
		}
		k.Count("treap.iter.moves", 1)
		k.Count("treap.iter."+class, 1)
	}
	return true
}

// trange draws an iterator range.  ffldb only ever uses ranges with both ends
// (a key prefix) or none; ranges with one end are drawn only when halfOpen is set.
func trange(r *mon.Rand, halfOpen bool) (start, limit []byte) {
	if r.Chance(1, 3) {
		return nil, nil
	}
	a, b := tkey(r), tkey(r)
	if bytes.Compare(a, b) > 0 {
		a, b = b, a
	}
	if halfOpen {
		switch r.Intn(3) {
		case 0:
			return a, nil
		case 1:
			return nil, b
		}
	}
	return a, b
}

func famTreap(c *mon.Ctx) {
	c.Family("treap", nCases(c, 1500, 100000), func(k *mon.Case) {
		r := k.Rand
		serial := 0
		reposAfterMut := r.Chance(1, 4)
		halfOpen := r.Chance(1, 8)
		k.Desc(map[string]any{"reposition_after_mutation": reposAfterMut, "half_open_ranges": halfOpen})

		// --- mutable
		mt := verifexport.NewMutable()
		mm := tmodel{}
		sig := uint64(0)
		for n := r.Range(5, 60); n > 0; n-- {
			key := tkey(r)
			switch r.Intn(10) {
			case 0, 1, 2, 3, 4:
				v := tval(r, &serial)
				mt.Put(key, v)
				mm[string(key)] = v
			case 5, 6:
				mt.Delete(key)
				delete(mm, string(key))
			case 7:
				mv, has := mm[string(key)]
				if mt.Has(key) != has {
					k.Failf("treap:mutable:Has", "Has(%x)=%v, model %v", key, mt.Has(key), has)
					return
				}
				g := mt.Get(key)
				if has && mv == nil {
					mv = []byte{}
				}
				if !sameVal(g, mv) {
					k.Failf("treap:mutable:Get", "Get(%x)=%s, model %s", key, hx(g), hx(mv))
					return
				}
			case 8:
				start, limit := trange(r, halfOpen)
				it := mt.Iterator(start, limit)
				mut := func() bool {
					kk := tkey(r)
					if r.Bool() {
						v := tval(r, &serial)
						mt.Put(kk, v)
						mm[string(kk)] = v
					} else {
						mt.Delete(kk)
						delete(mm, string(kk))
					}
					return true
				}
				if !iterScript(k, "mutable", it, mm, start, limit, mut, reposAfterMut) {
					return
				}
			case 9:
				if !compareTreap(k, "mutable", mt, mm) {
					return
				}
			}
			sig = mon.Sig(sig, len(mm))
		}
		if !compareTreap(k, "mutable", mt, mm) {
			return
		}
		k.Count("treap.mutable.cases", 1)

		// --- immutable with retained versions
		type version struct {
			t *verifexport.Immutable
			m tmodel
		}
		cur := version{verifexport.NewImmutable(), tmodel{}}
		var kept []version
		for n := r.Range(5, 60); n > 0; n-- {
			switch r.Intn(10) {
			case 0, 1, 2, 3:
				np := r.Range(1, 4)
				var kv []verifexport.KVPair
				nm := cur.m.clone()
				for i := 0; i < np; i++ {
					key, v := tkey(r), tval(r, &serial)
					kv = append(kv, verifexport.KVPair{Key: key, Value: v})
					nm[string(key)] = v
				}
				cur = version{cur.t.Put(kv...), nm}
			case 4, 5:
				key := tkey(r)
				nm := cur.m.clone()
				delete(nm, string(key))
				cur = version{cur.t.Delete(key), nm}
			case 6:
				if len(kept) < 8 {
					kept = append(kept, cur)
				} else {
					kept[r.Intn(len(kept))] = cur
				}
			case 7:
				key := tkey(r)
				mv, has := cur.m[string(key)]
				if has && mv == nil {
					mv = []byte{}
				}
				if cur.t.Has(key) != has || !sameVal(cur.t.Get(key), mv) {
					k.Failf("treap:immutable:Get", "Get(%x)=%s Has=%v, model %s %v", key, hx(cur.t.Get(key)), cur.t.Has(key), hx(mv), has)
					return
				}
			case 8:
				v := cur
				if len(kept) > 0 && r.Bool() {
					v = kept[r.Intn(len(kept))]
				}
				start, limit := trange(r, halfOpen)
				if !iterScript(k, "immutable", v.t.Iterator(start, limit), v.m, start, limit, nil, false) {
					return
				}
			case 9:
				// old versions are unaffected by everything done since they were kept
				for i, v := range kept {
					if !compareTreap(k, fmt.Sprintf("immutable:old-version-changed(kept %d)", min(i, 0)), v.t, v.m) {
						return
					}
					k.Count("treap.immutable.old-version-checks", 1)
				}
			}
		}
		for _, v := range append(kept, cur) {
			if !compareTreap(k, "immutable:final", v.t, v.m) {
				return
			}
		}
		k.Count("treap.immutable.cases", 1)
		k.Eval(mon.Sig(sig, len(cur.m), len(kept)), true)
	})
	c.Require("treap.iter.moves", 2000)
	c.Require("treap.immutable.old-version-checks", 200)
}
