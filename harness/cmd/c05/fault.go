package main

import (
	"errors"
	"fmt"
	"os"
	"sort"
	"strings"

	"verif/mon"

	"github.com/btcsuite/btcd/database/ffldb"
)

// Monitor 2: I/O fault enumeration.  One case = one fixed-seed program; a
// reference run counts its F interposed program I/O calls, then the program is
// re-run with call j made to fail exactly once, for every j (thorough) or a
// kind-stratified sample of them (quick).

var errInjected = errors.New("verif: injected I/O fault")

func faultCfg(r *mon.Rand) cfg {
	c := cfg{NTx: r.Range(10, 20), MaxOps: r.Range(4, 10), Reopen: true, Snaps: false, Panics: false}
	c.MaxFile = []uint32{2048, 2048, 4096}[r.Intn(3)]
	switch r.Intn(4) {
	case 0:
		c.CacheBytes, c.FlushSecs = 100<<20, 0
	case 1:
		c.CacheBytes, c.FlushSecs = 0, never
	case 2:
		c.CacheBytes, c.FlushSecs = uint64(r.Range(300, 3000)), never
	default:
		c.CacheBytes, c.FlushSecs = 100<<20, never
	}
	c.Prune = r.Chance(2, 3)
	c.BlockW = 60
	c.NoCorners = true
	if c.Prune {
		c.PruneW = 6
	}
	return c
}

type faultRun struct {
	e      *engine
	failAt int
	kinds  []string // kind of every program I/O event, in order
	fired  string   // kind of the event that was failed
}

// newFaultRun prepares the program with seed ps; failAt = 0 is the reference run.
func newFaultRun(rep reporter, ps uint64, cf cfg, dir string, failAt int, trace bool) *faultRun {
	fr := &faultRun{failAt: failAt}
	e := newEngine(rep, mon.NewRand(int64(ps), "c05-program", 0), cf, dir)
	fr.e = e
	e.cp = "fault.prog"
	if trace {
		e.trace = newSyncTrace(func(key, detail string) { e.fail(key, detail, false) })
	}
	e.hook = func(ev ffldb.VerifEvent) error {
		fr.kinds = append(fr.kinds, ev.Kind)
		if failAt > 0 && len(fr.kinds) == failAt {
			fr.fired = ev.Kind
			e.faults++
			e.logf("<<fault injected at I/O call %d: %s>>", failAt, evString(ev))
			return errInjected
		}
		return nil
	}
	return fr
}

// keyedReporter prefixes violation keys (a fault run names the failed call).
type keyedReporter struct {
	inner  reporter
	prefix func() string
}

func (k keyedReporter) Count(n string, v int64) { k.inner.Count(n, v) }
func (k keyedReporter) Fail(key, detail string) {
	// differential findings that do not depend on the fault / crash keep their key
	if strings.HasPrefix(key, "seq:") || strings.HasPrefix(key, "sync-order:") {
		k.inner.Fail(key, detail)
		return
	}
	k.inner.Fail(k.prefix()+key, detail)
}

func famFault(c *mon.Ctx) {
	c.Family("fault", nCases(c, 21, 60), func(k *mon.Case) {
		ps := k.Rand.Uint64()
		cf := faultCfg(k.Rand)
		k.Desc(map[string]any{"program_seed": ps, "cfg": cf})
		base := caseDir(k)
		base = base[:len(base)-3]
		defer removeAll(base)

		var cur *faultRun // the run in progress (for violation contexts)
		rep := caseReporter{k: k, ctx: func() any {
			return map[string]any{"program_seed": ps, "cfg": cf, "fail_io_call": cur.failAt, "ops": cur.e.oplog}
		}}
		// reference run (also a plain differential + trace run of this program)
		ref := newFaultRun(rep, ps, cf, base+"/ref", 0, true)
		cur = ref
		ref.e.run()
		F := len(ref.kinds)
		k.Count("fault.programs", 1)
		k.Count("fault.io-calls", int64(F))
		if ref.e.failed {
			k.Count("fault.reference-run-failed", 1)
			return
		}

		// choose the calls to fail
		var js []int
		if c.Thorough() {
			for j := 1; j <= F; j++ {
				js = append(js, j)
			}
		} else {
			byKind := map[string][]int{}
			for i, kd := range ref.kinds {
				byKind[kd] = append(byKind[kd], i+1)
			}
			var kinds []string
			for kd := range byKind {
				kinds = append(kinds, kd)
			}
			sort.Strings(kinds)
			quota := map[string]int{"blk-write": 8, "blk-read": 3, "blk-open-r": 2, "blk-close": 2}
			for _, kd := range kinds {
				q, ok := quota[kd]
				if !ok {
					q = 5
				}
				idx := byKind[kd]
				for _, p := range k.Rand.Perm(len(idx)) {
					if q == 0 {
						break
					}
					js = append(js, idx[p])
					q--
				}
			}
			sort.Ints(js)
		}
		for _, j := range js {
			dir := fmt.Sprintf("%s/f%d", base, j)
			var fr *faultRun
			frep := keyedReporter{inner: rep, prefix: func() string {
				if fr.fired != "" {
					return "fault@" + fr.fired + ":"
				}
				return "fault-run(before-fault):"
			}}
			fr = newFaultRun(frep, ps, cf, dir, j, false)
			cur = fr
			fr.e.run()
			k.Count("fault.runs", 1)
			if fr.fired == "" {
				k.Count("fault.not-reached", 1)
			} else {
				k.Count("fault.injected."+fr.fired, 1)
			}
			k.Eval(mon.Sig("fault", ref.kinds[j-1], fr.e.sig), true)
			_ = os.RemoveAll(dir)
		}
		if k.Index < 2 {
			k.Sample(map[string]any{"family": "fault", "cfg": cf, "io_calls": F, "failed_calls": len(js)})
		}
	})
	c.Require("fault.runs", 100)
	c.Require("fault.commit-failed", 20)
	c.Require("fault.injected.ldb-commit-pre", 5)
	c.Require("fault.injected.blk-write", 20)
	c.Require("fault.injected.blk-sync", 5)
}
