package main

import (
	"encoding/json"
	"fmt"
	"os"
	"path/filepath"
	"sort"
	"strings"
	"time"

	"verif/gen/crashkit"
	"verif/mon"
	"verif/ref/refdb"

	"github.com/btcsuite/btcd/database"
	"github.com/btcsuite/btcd/database/ffldb"
	"github.com/btcsuite/btcd/wire/v2"
)

// Monitor 3: crash enumeration in child processes.  One case = one fixed-seed
// program.  A reference run in this process records the I/O event sequence and
// the model state after every commit; then, for event k and crash model m, a
// child process runs the same program and dies at k.  This process (a different
// one from the child) reopens the store: it must open, and its whole content
// (metadata tree and every block) must equal the model after some prefix p of the
// committed transactions, pmin <= p <= pmax, where pmin is the number of
// transactions that were durable at the last completed leveldb commit and pmax
// counts the acknowledged commits plus the one in flight.

type crashPayload struct {
	Seed uint64 `json:"seed"`
	Cfg  cfg    `json:"cfg"`
	// FailAt > 0: the child's program I/O call number FailAt returns an error once (fault-crash family); the process
	// dies later, at event KillAt of the plan
	FailAt int `json:"fail_at,omitempty"`
}

func blockFileName(dbdir string, n uint32) string {
	return filepath.Join(dbdir, fmt.Sprintf("%09d.fdb", n))
}

// runCrashChild is the whole life of a child process.
func runCrashChild(plan *crashkit.Plan) {
	var pl crashPayload
	if err := json.Unmarshal(plan.Payload, &pl); err != nil {
		fmt.Fprintln(os.Stderr, "bad payload:", err)
		os.Exit(96)
	}
	dbdir := filepath.Join(plan.Dir, "db")
	rec, err := crashkit.NewRecorder(plan, func(n uint32) string { return blockFileName(dbdir, n) })
	if err != nil {
		fmt.Fprintln(os.Stderr, "recorder:", err)
		os.Exit(95)
	}
	switch plan.Role {
	case "workload":
		e := newEngine(nullReporter{}, mon.NewRand(int64(pl.Seed), "c05-program", 0), pl.Cfg, dbdir)
		nev := 0
		e.hook = func(ev ffldb.VerifEvent) error {
			nev++
			if err := rec.Event(crashkit.Event{Kind: ev.Kind, FileNum: ev.FileNum, Off: ev.Off, N: ev.N}); err != nil {
				return err
			}
			if pl.FailAt > 0 && nev == pl.FailAt {
				e.faults++
				return errInjected
			}
			return nil
		}
		e.note = func(s string) { rec.Op("%s", s) }
		e.run()
	case "recovery":
		// open (reconcile) under observation, then close again
		files, _ := filepath.Glob(filepath.Join(dbdir, "*.fdb"))
		for _, f := range files {
			var n uint32
			if _, err := fmt.Sscanf(filepath.Base(f), "%09d.fdb", &n); err == nil {
				if st, err := os.Stat(f); err == nil {
					rec.KnownFile(n, st.Size())
				}
			}
		}
		db, err := ffldb.VerifOpen(dbdir, wire.MainNet, false, func(ev ffldb.VerifEvent) error {
			return rec.Event(crashkit.Event{Kind: ev.Kind, FileNum: ev.FileNum, Off: ev.Off, N: ev.N})
		}, pl.Cfg.MaxFile, pl.Cfg.CacheBytes, pl.Cfg.FlushSecs)
		if err != nil {
			rec.Op("open-failed %s", codeOf(err))
			os.Exit(0)
		}
		rec.Op("open-ok")
		_ = db.Close()
	}
	os.Exit(0)
}

func crashCfg(r *mon.Rand) cfg {
	c := faultCfg(r)
	c.NTx = r.Range(8, 16)
	return c
}

// crashWindow derives [pmin,pmax] from a child's log.
func crashWindow(lines []crashkit.Line) (pmin, pmax, acked int, inflight bool) {
	postInThisCommit := false
	for _, l := range lines {
		switch l.Type {
		case 'O':
			switch l.Op {
			case "commit-begin", "close-begin":
				inflight, postInThisCommit = true, false
			case "commit-ack":
				acked++
				inflight = false
				if postInThisCommit && acked > pmin {
					// the last leveldb commit of a successful Commit call carries
					// the transaction itself
					pmin = acked
				}
			case "commit-fail", "close-ok", "close-fail":
				inflight = false
			}
		case 'E':
			if l.Event.Kind == "ldb-commit-post" {
				// everything acknowledged so far has reached leveldb
				if acked > pmin {
					pmin = acked
				}
				postInThisCommit = true
			}
		}
	}
	pmax = acked
	if inflight {
		pmax++
	}
	return
}

func famCrash(c *mon.Ctx) {
	c.Family("crash", nCases(c, 14, 20), func(k *mon.Case) {
		ps := k.Rand.Uint64()
		cf := crashCfg(k.Rand)
		k.Desc(map[string]any{"program_seed": ps, "cfg": cf})
		base := caseDir(k)
		base = base[:len(base)-3]
		defer removeAll(base)

		var curOps func() []string
		var curPoint any
		rep := caseReporter{k: k, ctx: func() any {
			m := map[string]any{"program_seed": ps, "cfg": cf, "crash_point": curPoint}
			if curOps != nil {
				m["ops"] = curOps()
			}
			return m
		}}
		ref := newFaultRun(rep, ps, cf, base+"/ref/db", 0, true)
		ref.e.cp = "crash.prog"
		var refEvents []ffldb.VerifEvent
		inner := ref.e.hook
		ref.e.hook = func(ev ffldb.VerifEvent) error {
			refEvents = append(refEvents, ev)
			return inner(ev)
		}
		curOps = func() []string { return ref.e.oplog }
		ref.e.run()
		E := len(refEvents)
		k.Count("crash.programs", 1)
		k.Count("crash.events", int64(E))
		if ref.e.failed {
			k.Count("crash.reference-run-failed", 1)
			return
		}
		states := ref.e.states

		type point struct {
			K    int
			Mode string
		}
		var pts []point
		if c.Thorough() {
			for j := 1; j <= E; j++ {
				pts = append(pts, point{j, crashkit.ModeDeath}, point{j, crashkit.ModePowerLoss})
			}
		} else {
			byKind := map[string][]int{}
			for i, ev := range refEvents {
				byKind[ev.Kind] = append(byKind[ev.Kind], i+1)
			}
			var kinds []string
			for kd := range byKind {
				kinds = append(kinds, kd)
			}
			sort.Strings(kinds)
			quota := map[string]int{"blk-write": 3, "blk-read": 0, "blk-open-r": 0, "blk-close": 1, "ldb-commit-pre": 2, "ldb-commit-post": 3,
				"blk-sync": 2, "blk-delete": 2, "blk-trunc": 1, "blk-open-w": 1}
			for _, kd := range kinds {
				q := quota[kd]
				idx := byKind[kd]
				for _, p := range k.Rand.Perm(len(idx)) {
					if q == 0 {
						break
					}
					mode := crashkit.ModeDeath
					if k.Rand.Chance(3, 5) {
						mode = crashkit.ModePowerLoss
					}
					pts = append(pts, point{idx[p], mode})
					q--
				}
			}
			sort.Slice(pts, func(i, j int) bool { return pts[i].K < pts[j].K })
		}
		payload, _ := json.Marshal(crashPayload{Seed: ps, Cfg: cf})

		for _, pt := range pts {
			curPoint = map[string]any{"event": pt.K, "kind": refEvents[pt.K-1].Kind, "mode": pt.Mode}
			dir := fmt.Sprintf("%s/c%d-%s", base, pt.K, pt.Mode)
			out, err := crashkit.Spawn(crashkit.Plan{Dir: dir, KillAt: pt.K, Mode: pt.Mode, Role: "workload", Payload: payload}, 120*time.Second)
			k.Count("crash.spawned", 1)
			switch {
			case err != nil:
				k.Count("crash.inconclusive.spawn-error", 1)
				continue
			case out.TimedOut:
				k.Count("crash.inconclusive.child-timeout", 1)
				continue
			case !out.Killed:
				k.Count("crash.inconclusive.child-not-killed", 1)
				if out.ExitCode != 0 {
					k.Failf("crash:child-exited-abnormally", "child for event %d exited with code %d instead of dying by SIGKILL:\n%s", pt.K, out.ExitCode, out.Output)
				}
				continue
			}
			lines, err := crashkit.ReadLog(dir)
			if err != nil || !crashkit.DiedAt(lines, pt.K) {
				k.Count("crash.inconclusive.bad-log", 1)
				continue
			}
			// the child must have followed the reference run
			same, n := true, 0
			for _, l := range lines {
				if l.Type != 'E' {
					continue
				}
				r := refEvents[n]
				// ffldb's Close closes its read-only files in map order: which file a
				// blk-close names is not deterministic (and does not matter)
				bothClose := l.Event.Kind == "blk-close" && r.Kind == "blk-close"
				if !bothClose && (l.Event.Kind != r.Kind || l.Event.FileNum != r.FileNum || l.Event.Off != r.Off || l.Event.N != r.N) {
					same = false
					k.Count("crash.inconclusive.diverged.ref="+r.Kind+",child="+l.Event.Kind, 1)
					break
				}
				n++
			}
			if !same || n != pt.K {
				k.Count("crash.inconclusive.child-diverged-from-reference", 1)
				continue
			}
			pmin, pmax, acked, _ := crashWindow(lines)
			if pmax >= len(states) {
				pmax = len(states) - 1
			}
			k.Count("crash.points."+pt.Mode, 1)
			k.Count("crash.kind."+refEvents[pt.K-1].Kind, 1)
			kind := refEvents[pt.K-1].Kind
			tag := "crash:" + pt.Mode + "@" + kind + ":"
			ctxDetail := fmt.Sprintf("program seed %d, crash model %s at I/O event %d (%s), %d commits acknowledged, acceptable prefixes [%d,%d]; events before the crash: %s",
				ps, pt.Mode, pt.K, evString(refEvents[pt.K-1]), acked, pmin, pmax, tailEvents(lines, 40))

			if c.Thorough() || k.Rand.Chance(1, 3) {
				recoveryCrashes(c, k, rep, ref, states, dir, tag, ctxDetail, pmin, pmax, cf, pt.Mode, payload, &curOps)
			}
			dbdir := filepath.Join(dir, "db")
			verifyRecovered(k, rep, ref, states, dbdir, lines, tag, ctxDetail, pmin, pmax, cf, &curOps, true)
			k.Eval(mon.Sig("crash", kind, pt.Mode, pmin, pmax, ref.e.sig), true)
			_ = os.RemoveAll(dir)
		}
		if k.Index < 2 {
			k.Sample(map[string]any{"family": "crash", "cfg": cf, "events": E, "crash_points": len(pts)})
		}
	})
	c.Require("crash.points.death", 20)
	c.Require("crash.points.powerloss", 20)
	c.Require("crash.recovered", 30)
}

// recoveryCrashes crashes the RECOVERY (the reopen that reconciles block files
// with the metadata) at each of its own I/O events, starting every time from a
// copy of the disk state the first crash left behind; the same prefix oracle
// must hold afterwards.
func recoveryCrashes(c *mon.Ctx, k *mon.Case, rep caseReporter, ref *faultRun, states []*refdb.State, dir, tag, ctxDetail string,
	pmin, pmax int, cf cfg, mode string, payload []byte, curOps *func() []string) {

	probe := dir + "-rprobe"
	defer os.RemoveAll(probe)
	if err := crashkit.CopyDir(dir, probe); err != nil {
		return
	}
	out, err := crashkit.Spawn(crashkit.Plan{Dir: probe, KillAt: 0, Mode: mode, Role: "recovery", Payload: payload}, 120*time.Second)
	if err != nil || out.TimedOut || out.Killed || out.ExitCode != 0 {
		k.Count("crash.inconclusive.recovery-probe-failed", 1)
		return
	}
	lines, err := crashkit.ReadLog(probe)
	if err != nil {
		return
	}
	var kinds []string
	after := false
	for _, l := range lines {
		if l.Type == 'K' {
			after = true
			continue
		}
		if after && l.Type == 'E' {
			kinds = append(kinds, l.Event.Kind)
		}
	}
	k.Count("crash.recovery-probes", 1)
	k.Count("crash.recovery-events", int64(len(kinds)))
	if len(kinds) == 0 {
		return
	}
	var k2s []int
	if c.Thorough() {
		for i := 1; i <= len(kinds); i++ {
			k2s = append(k2s, i)
		}
	} else {
		k2s = []int{1 + k.Rand.Intn(len(kinds))}
	}
	for _, k2 := range k2s {
		d2 := fmt.Sprintf("%s-r%d", dir, k2)
		if err := crashkit.CopyDir(dir, d2); err != nil {
			continue
		}
		out, err := crashkit.Spawn(crashkit.Plan{Dir: d2, KillAt: k2, Mode: mode, Role: "recovery", Payload: payload}, 120*time.Second)
		lines2, lerr := crashkit.ReadLog(d2)
		if err != nil || !out.Killed || lerr != nil || !crashkit.DiedAt(lines2, k2) {
			k.Count("crash.inconclusive.recovery-child", 1)
			_ = os.RemoveAll(d2)
			continue
		}
		k.Count("crash.recovery-crash-points", 1)
		k.Count("crash.recovery-kind."+kinds[k2-1], 1)
		tag2 := strings.Replace(tag, "crash:", "crash-during-recovery:", 1) + "then@" + kinds[k2-1] + ":"
		verifyRecovered(k, rep, ref, states, filepath.Join(d2, "db"), lines2, tag2,
			ctxDetail+fmt.Sprintf("; then the recovery (reopen) was crashed at its I/O event %d (%s)", k2, kinds[k2-1]), pmin, pmax, cf, curOps, false)
		_ = os.RemoveAll(d2)
	}
}

func tailEvents(lines []crashkit.Line, n int) string {
	var out []string
	for _, l := range lines {
		switch l.Type {
		case 'E':
			if l.Event.Kind == "blk-read" || l.Event.Kind == "blk-open-r" {
				continue
			}
			out = append(out, evString(ffldb.VerifEvent{Kind: l.Event.Kind, FileNum: l.Event.FileNum, Off: l.Event.Off, N: l.Event.N}))
		case 'O':
			out = append(out, "<"+l.Op+">")
		case 'T':
			out = append(out, fmt.Sprintf("POWERLOSS-TRUNCATE(f%d,%d->%d)", l.Event.FileNum, l.Event.Off, l.Event.N))
		}
	}
	if len(out) > n {
		out = out[len(out)-n:]
	}
	return strings.Join(out, " ")
}

// verifyRecovered reopens the store left behind by a dead child and applies the
// prefix oracle; on success it continues the program for a few transactions.
func verifyRecovered(k *mon.Case, rep caseReporter, ref *faultRun, states []*refdb.State, dbdir string, lines []crashkit.Line,
	tag, ctxDetail string, pmin, pmax int, cf cfg, curOps *func() []string, cont bool) {

	var db database.DB
	var oerr error
	func() {
		defer func() {
			if p := recover(); p != nil {
				oerr = fmt.Errorf("panic during open: %v", p)
			}
		}()
		db, oerr = database.Open("ffldb", dbdir, wire.MainNet)
	}()
	if oerr != nil {
		// what had happened to the block files before the (first) crash
		diag := ""
		sawDelete, sawTrunc := false, false
		for _, l := range lines {
			if l.Type == 'K' {
				break
			}
			if l.Type == 'T' {
				sawTrunc = true
			}
			if l.Type == 'E' && l.Event.Kind == "blk-delete" {
				sawDelete = true
			}
		}
		// a block file deleted by a prune whose metadata never became durable explains the failure whether or
		// not the power loss also dropped unsynced bytes of other files
		switch {
		case sawDelete && sawTrunc:
			diag = ":after-block-file-deletion+powerloss"
		case sawDelete:
			diag = ":after-block-file-deletion"
		case sawTrunc:
			diag = ":after-powerloss-dropped-unsynced-bytes"
		}
		k.Violation(tag+"reopen-failed:"+codeOf(oerr)+diag, "database.Open after the crash failed: "+oerr.Error()+"\n"+ctxDetail, nil)
		return
	}
	closeDB := true
	defer func() {
		if closeDB {
			_ = db.Close()
		}
	}()
	var got *dump
	err := db.View(func(tx database.Tx) error {
		var err error
		got, err = dumpReal(tx, ref.e.blocks)
		return err
	})
	if err != nil {
		k.Violation(tag+"dump-error:"+codeOf(err), err.Error()+"\n"+ctxDetail, nil)
		return
	}
	match := -1
	bestCls, bestDet := "", ""
	var bestHash *refdb.Hash
	bestP := -1
	for p := pmax; p >= pmin; p-- {
		cls, det, h := diffDumpH(got, dumpModel(states[p], ref.e.blocks), nil)
		if cls == "" {
			match = p
			break
		}
		// report against the acceptable prefix with the most telling difference
		if bestCls == "" || diffRank(cls) >= diffRank(bestCls) {
			bestCls, bestDet, bestHash, bestP = cls, det, h, p
		}
	}
	if match < 0 {
		// does it equal some OLDER prefix (lost durable transactions) or nothing at all?
		older := -1
		for p := pmin - 1; p >= 0; p-- {
			if cls, _ := diffDump(got, dumpModel(states[p], ref.e.blocks), nil); cls == "" {
				older = p
				break
			}
		}
		diag := ""
		if bestHash != nil {
			if r, ok := states[bestP].Blocks[*bestHash]; ok {
				for _, l := range lines {
					if l.Type == 'T' && l.Event.FileNum == r.File {
						diag = ":file-lost-unsynced-bytes-at-powerloss"
					}
					if l.Type == 'E' && l.Event.Kind == "blk-delete" && l.Event.FileNum == r.File && diag == "" {
						diag = ":file-deleted-before-metadata-durable"
					}
				}
			}
		}
		key := tag + "no-acceptable-prefix:" + bestCls + diag
		if older >= 0 {
			key = tag + "durable-transactions-lost"
			bestDet = fmt.Sprintf("store equals the state after %d commits, but %d were durable", older, pmin)
		}
		k.Violation(key, fmt.Sprintf("reopened store matches no committed prefix in [%d,%d]; against prefix %d: %s\n%s", pmin, pmax, bestP, bestDet, ctxDetail), nil)
		return
	}
	k.Count("crash.recovered", 1)
	k.Count(fmt.Sprintf("crash.recovered.behind-acked-by-%d", min(pmax-match, 3)), 1)
	if !cont {
		return
	}
	// continue the program on the recovered store
	cf2 := cf
	cf2.NTx = 4
	e2 := newEngine(keyedReporter{inner: rep, prefix: func() string { return tag + "after-recovery:" }}, k.Rand.Fork(), cf2, dbdir)
	e2.m.S = states[match]
	e2.m.Commits = match
	e2.states = append([]*refdb.State{}, states[:match+1]...)
	e2.blocks = append([]*blk{}, ref.e.blocks...)
	e2.serial = 1 << 24
	e2.layoutUnknown = true
	e2.cp = "crash.prog"
	*curOps = func() []string { return e2.oplog }
	closeDB = false
	e2.resume(db)
	*curOps = func() []string { return ref.e.oplog }
}

// famFaultCrash: an I/O call fails once (the program sees whatever ffldb reports and carries on), and some events later
// the process dies. The reference for the prefix oracle is an in-process run of the same program with the same failed
// call and no death: it supplies the event sequence the child has to follow and the committed states.
func famFaultCrash(c *mon.Ctx) {
	c.Family("fault-crash", nCases(c, 12, 20), func(k *mon.Case) {
		ps := k.Rand.Uint64()
		cf := crashCfg(k.Rand)
		if k.Rand.Chance(3, 4) {
			cf.Prune, cf.PruneW = true, 10
		}
		k.Desc(map[string]any{"program_seed": ps, "cfg": cf})
		base := caseDir(k)
		base = base[:len(base)-3]
		defer removeAll(base)
		var curOps func() []string
		var curPoint any
		rep := caseReporter{k: k, ctx: func() any {
			m := map[string]any{"program_seed": ps, "cfg": cf, "fault_and_crash_point": curPoint}
			if curOps != nil {
				m["ops"] = curOps()
			}
			return m
		}}
		plain := newFaultRun(rep, ps, cf, base+"/plain/db", 0, false)
		curOps = func() []string { return plain.e.oplog }
		plain.e.run()
		if plain.e.failed {
			k.Count("faultcrash.reference-run-failed", 1)
			return
		}
		k.Count("faultcrash.programs", 1)
		// calls to fail: syncs, leveldb commits, file deletions and a few writes
		byKind := map[string][]int{}
		for i, kd := range plain.kinds {
			byKind[kd] = append(byKind[kd], i+1)
		}
		var js []int
		quota := map[string]int{"blk-sync": 3, "ldb-commit-pre": 3, "blk-delete": 2, "blk-write": 1}
		if c.Thorough() {
			quota = map[string]int{"blk-sync": 10, "ldb-commit-pre": 10, "blk-delete": 6, "blk-write": 4, "blk-trunc": 2, "blk-close": 2}
		}
		for _, kd := range []string{"blk-sync", "ldb-commit-pre", "blk-delete", "blk-write", "blk-trunc", "blk-close"} {
			idx := byKind[kd]
			q := quota[kd]
			for _, pi := range k.Rand.Perm(len(idx)) {
				if q == 0 {
					break
				}
				js = append(js, idx[pi])
				q--
			}
		}
		// and the flush that precedes the deletion of pruned block files (the sync of the block files and the leveldb
		// commit of the same database commit): deleting must not go ahead when that flush did not succeed
		dels := byKind["blk-delete"]
		for _, pi := range k.Rand.Perm(len(dels)) {
			if pi >= 4 && !c.Thorough() {
				continue
			}
			d := dels[pi]
			seenSync, seenLdb := false, false
			for i := d - 1; i >= 1 && i >= d-16; i-- {
				switch kd := plain.kinds[i-1]; {
				case kd == "blk-delete":
				case kd == "blk-sync" && !seenSync:
					seenSync = true
					js = append(js, i)
				case kd == "ldb-commit-pre" && !seenLdb:
					seenLdb = true
					js = append(js, i)
				}
			}
		}
		sort.Ints(js)
		js = dedupInts(js)
		for _, j := range js {
			// the faulted timeline without a crash
			var evs []ffldb.VerifEvent
			fr := newFaultRun(rep, ps, cf, fmt.Sprintf("%s/f%d/db", base, j), j, false)
			inner := fr.e.hook
			fr.e.hook = func(ev ffldb.VerifEvent) error {
				evs = append(evs, ev)
				return inner(ev)
			}
			curOps = func() []string { return fr.e.oplog }
			curPoint = map[string]any{"failed_call": j, "kind": plain.kinds[j-1]}
			fr.e.run()
			_ = os.RemoveAll(fmt.Sprintf("%s/f%d", base, j))
			if fr.fired == "" || fr.e.failed || len(evs) <= j {
				k.Count("faultcrash.fault-timeline-unusable", 1)
				continue
			}
			if fr.e.rolledBack > 0 {
				// the failed call made a Close fail and the reopened store had (legitimately) lost acknowledged commits
				// that were not durable yet: the child's count of acknowledged commits no longer indexes the states of
				// this timeline, so the prefix window cannot be derived from its log. Not judged.
				k.Count("faultcrash.timeline-with-lost-undurable-commits-not-judged", 1)
				continue
			}
			states := fr.e.states
			payload, _ := json.Marshal(crashPayload{Seed: ps, Cfg: cf, FailAt: j})
			kills := []int{j + 1 + k.Rand.Intn(min(12, len(evs)-j)), j + 1 + k.Rand.Intn(len(evs)-j)}
			for ki, kp := range kills {
				if ki == 1 && kp == kills[0] {
					continue
				}
				mode := crashkit.ModeDeath
				if k.Rand.Chance(1, 2) {
					mode = crashkit.ModePowerLoss
				}
				curPoint = map[string]any{"failed_call": j, "failed_kind": fr.fired, "death_at_event": kp, "kind": evs[kp-1].Kind, "mode": mode}
				dir := fmt.Sprintf("%s/f%d-c%d-%s", base, j, kp, mode)
				out, err := crashkit.Spawn(crashkit.Plan{Dir: dir, KillAt: kp, Mode: mode, Role: "workload", Payload: payload}, 120*time.Second)
				k.Count("faultcrash.spawned", 1)
				if err != nil || out.TimedOut || !out.Killed {
					k.Count("faultcrash.inconclusive.spawn", 1)
					if err == nil && !out.TimedOut && out.ExitCode != 0 {
						k.Failf("crash:child-exited-abnormally", "fault-crash child (failed call %d, death at %d) exited with code %d:\n%s", j, kp, out.ExitCode, out.Output)
					}
					_ = os.RemoveAll(dir)
					continue
				}
				lines, err := crashkit.ReadLog(dir)
				if err != nil || !crashkit.DiedAt(lines, kp) {
					k.Count("faultcrash.inconclusive.bad-log", 1)
					_ = os.RemoveAll(dir)
					continue
				}
				same, n := true, 0
				for _, l := range lines {
					if l.Type != 'E' {
						continue
					}
					if n >= len(evs) {
						same = false
						break
					}
					r := evs[n]
					bothClose := l.Event.Kind == "blk-close" && r.Kind == "blk-close"
					if !bothClose && (l.Event.Kind != r.Kind || l.Event.FileNum != r.FileNum || l.Event.Off != r.Off || l.Event.N != r.N) {
						same = false
						break
					}
					n++
				}
				if !same || n != kp {
					k.Count("faultcrash.inconclusive.child-diverged-from-reference", 1)
					_ = os.RemoveAll(dir)
					continue
				}
				pmin, pmax, acked, _ := crashWindow(lines)
				if pmax >= len(states) {
					pmax = len(states) - 1
				}
				if pmin > pmax {
					pmin = pmax
				}
				tag := "fault@" + fr.fired + "+crash:" + mode + "@" + evs[kp-1].Kind + ":"
				ctxDetail := fmt.Sprintf("program seed %d, I/O call %d (%s) failed once, then crash model %s at I/O event %d (%s), %d commits acknowledged, acceptable prefixes [%d,%d]; events before the crash: %s",
					ps, j, fr.fired, mode, kp, evString(evs[kp-1]), acked, pmin, pmax, tailEvents(lines, 40))
				verifyRecovered(k, rep, fr, states, filepath.Join(dir, "db"), lines, tag, ctxDetail, pmin, pmax, cf, &curOps, false)
				k.Count("faultcrash.points", 1)
				k.Count("faultcrash.failed."+fr.fired, 1)
				k.Eval(mon.Sig("fault-crash", fr.fired, evs[kp-1].Kind, mode, pmin, pmax), true)
				_ = os.RemoveAll(dir)
			}
		}
	})
	c.Require("faultcrash.points", 30)
	c.Require("faultcrash.failed.blk-sync", 5)
	c.Require("faultcrash.failed.ldb-commit-pre", 5)
}

func dedupInts(a []int) []int {
	out := a[:0]
	for i, v := range a {
		if i == 0 || v != a[i-1] {
			out = append(out, v)
		}
	}
	return out
}
