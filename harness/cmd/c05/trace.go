package main

import (
	"fmt"
	"sort"
	"strings"

	"github.com/btcsuite/btcd/database/ffldb"
)

// syncTrace is monitor 5: an online automaton over the H1 event stream.  Rule:
// at every leveldb commit (the moment block locations and the write cursor become
// durable) no flat file may hold bytes that were written but not followed by a
// Sync of that file.  Truncated / deleted bytes are forgotten.
type syncTrace struct {
	dirty       map[uint32][][2]int64 // file -> unsynced [from,to) ranges
	closedDirty map[uint32]bool       // file was closed while it had unsynced bytes
	ring        []string
	commits     int64
	writes      int64
	syncs       int64
	rollovers   int64 // closes of a file with unsynced bytes
	report      func(key, detail string)
}

func newSyncTrace(report func(key, detail string)) *syncTrace {
	return &syncTrace{dirty: map[uint32][][2]int64{}, closedDirty: map[uint32]bool{}, report: report}
}

func evString(e ffldb.VerifEvent) string {
	switch e.Kind {
	case "blk-write", "blk-read":
		return fmt.Sprintf("%s(f%d,%d+%d)", e.Kind, e.FileNum, e.Off, e.N)
	case "blk-trunc":
		return fmt.Sprintf("%s(f%d,%d)", e.Kind, e.FileNum, e.Off)
	case "ldb-commit-pre", "ldb-commit-post":
		return e.Kind
	}
	return fmt.Sprintf("%s(f%d)", e.Kind, e.FileNum)
}

func (t *syncTrace) on(e ffldb.VerifEvent) {
	if e.Kind != "blk-read" && e.Kind != "blk-open-r" {
		t.ring = append(t.ring, evString(e))
		if len(t.ring) > 60 {
			t.ring = t.ring[len(t.ring)-60:]
		}
	}
	switch e.Kind {
	case "blk-write":
		t.writes++
		t.dirty[e.FileNum] = append(t.dirty[e.FileNum], [2]int64{e.Off, e.Off + int64(e.N)})
	case "blk-sync":
		t.syncs++
		delete(t.dirty, e.FileNum)
		delete(t.closedDirty, e.FileNum)
	case "blk-trunc":
		var keep [][2]int64
		for _, r := range t.dirty[e.FileNum] {
			if r[0] >= e.Off {
				continue
			}
			if r[1] > e.Off {
				r[1] = e.Off
			}
			keep = append(keep, r)
		}
		if len(keep) == 0 {
			delete(t.dirty, e.FileNum)
			delete(t.closedDirty, e.FileNum)
		} else {
			t.dirty[e.FileNum] = keep
		}
	case "blk-delete":
		delete(t.dirty, e.FileNum)
		delete(t.closedDirty, e.FileNum)
	case "blk-close":
		if len(t.dirty[e.FileNum]) > 0 {
			t.closedDirty[e.FileNum] = true
			t.rollovers++
		}
	case "ldb-commit-pre":
		t.commits++
		if len(t.dirty) == 0 {
			return
		}
		var files []int
		for f := range t.dirty {
			files = append(files, int(f))
		}
		sort.Ints(files)
		for _, f := range files {
			key := "sync-order:write-not-synced-before-commit"
			if t.closedDirty[uint32(f)] {
				key = "sync-order:rollover-file-not-synced-before-commit"
			}
			t.report(key, fmt.Sprintf("leveldb commit starts while file %d has unsynced written ranges %v "+
				"(closed without Sync: %v); last events: %s", f, t.dirty[uint32(f)], t.closedDirty[uint32(f)],
				strings.Join(t.ring, " ")))
		}
	}
}
